From DZ Require Import Base Generated BurnRate.
Local Open Scope N_scope.
Global Arguments N.min : simpl never.
Global Arguments N.max : simpl never.

(* tie to the crate's constants (Generated.v is rewritten from the compiled crate on every run) *)
Lemma br_constants : BR_MAX = 1000000000 /\ G_CBR_PARAMS_SIZE = 6 * 4 /\ BR_MAX < two32.
Proof. repeat split; reflexivity. Qed.

(* never unfold sat_add / sat_mul / checked_add inside hypotheses (Qed then spends minutes in conversion): use these *)
Lemma sat_add_small m a b : a + b < m -> sat_add m a b = a + b.
Proof. intros H. unfold sat_add. apply N.ltb_lt in H. rewrite H. reflexivity. Qed.
Lemma sat_mul_small m a b : a * b < m -> sat_mul m a b = a * b.
Proof. intros H. unfold sat_mul. apply N.ltb_lt in H. rewrite H. reflexivity. Qed.
Lemma checked_add_small m a b : a + b < m -> checked_add m a b = Some (a + b).
Proof. intros H. unfold checked_add. apply N.ltb_lt in H. rewrite H. reflexivity. Qed.
Lemma epoch_succ_pos e : epoch_succ e <> 0.
Proof. unfold epoch_succ, sat_add, two64. destruct (e + 1 <? _); lia. Qed.

Ltac unf := unfold sat_sub, BR_MAX, G_UNIT_SHARE32_MAX, two32, two64 in *.
Ltac pcbn := cbn [limit to_inc to_lim num den next] in *.

(* ------------------------------------------------------------------ well-formed parameter blocks *)
Definition pending (p : params) : N := to_lim p - N.max (to_inc p) 1.

Record wf (p : params) : Prop := {
  wf_next : 0 < next p <= limit p;
  wf_limit : limit p <= BR_MAX;
  wf_order : to_inc p <= to_lim p;
  wf_lim32 : to_lim p < two32;
  wf_den : 1 <= den p < two32;
  wf_num : num p <= BR_MAX;
  wf_budget : next p + pending p * (num p / den p) <= limit p     (* the remaining ramp fits under the limit *)
}.

Lemma div_budget k n : k * (n / (k + 1)) <= n.
Proof. pose proof (N.div_mod' n (k + 1)). nia. Qed.

Lemma update_wf p nl ni nlim p' : 0 < next p -> nl <= BR_MAX -> ni < two32 -> nlim < two32 ->
  br_update p nl ni nlim = Some p' -> wf p'.
Proof.
  unfold br_update. intros Hn Hl Hi Hlm H.
  destruct (nl <? next p) eqn:E1; [discriminate|].
  destruct (ni =? 0) eqn:E2; [discriminate|].
  destruct (nlim <? ni) eqn:E3; [discriminate|]. inversion H; subst; clear H.
  assert (sat_add two32 (sat_sub nlim ni) 1 = nlim - ni + 1) as Hden by (apply sat_add_small; unf; lia).
  constructor; pcbn; rewrite ?Hden; clear Hden; unf; try lia.
  unfold pending; pcbn. assert (N.max ni 1 = ni) as -> by lia.
  pose proof (div_budget (nlim - ni) (nl - next p)) as Hq.
  set (q := (nl - next p) / (nlim - ni + 1)) in *. nia.
Qed.

Lemma new_wf i l ni nlim p : l <= BR_MAX -> ni < two32 -> nlim < two32 -> br_new i l ni nlim = Some p -> wf p.
Proof.
  unfold br_new. intros Hl Hi Hlm H. destruct (i =? 0) eqn:E; [discriminate|].
  eapply update_wf; [|exact Hl|exact Hi|exact Hlm|exact H]. pcbn. lia.
Qed.

Lemma update_next p nl ni nlim p' : br_update p nl ni nlim = Some p' ->
  next p' = next p /\ limit p' = nl /\ to_inc p' = ni /\ to_lim p' = nlim.
Proof.
  unfold br_update. intros H.
  destruct (nl <? next p); [discriminate|]. destruct (ni =? 0); [discriminate|].
  destruct (nlim <? ni); [discriminate|]. inversion H; subst; pcbn. auto.
Qed.

(* exact acceptance condition, as coded *)
Lemma update_accepts_iff p nl ni nlim :
  (exists p', br_update p nl ni nlim = Some p') <-> (next p <= nl /\ ni <> 0 /\ ni <= nlim).
Proof.
  unfold br_update.
  destruct (nl <? next p) eqn:E1; [split; [intros [? H]; discriminate|lia]|].
  destruct (ni =? 0) eqn:E2; [split; [intros [? H]; discriminate|lia]|].
  destruct (nlim <? ni) eqn:E3; [split; [intros [? H]; discriminate|lia]|].
  split; [lia|eauto].
Qed.

Lemma new_accepts_iff i l ni nlim :
  (exists p, br_new i l ni nlim = Some p) <-> (i <> 0 /\ i <= l /\ ni <> 0 /\ ni <= nlim).
Proof.
  unfold br_new. destruct (i =? 0) eqn:E.
  - split; [intros [? H]; discriminate|lia].
  - rewrite update_accepts_iff. pcbn. lia.
Qed.

Lemma new_fields i l ni nlim p : br_new i l ni nlim = Some p ->
  p = mkP l ni nlim (l - i) (sat_add two32 (nlim - ni) 1) i.
Proof.
  unfold br_new, br_update. destruct (i =? 0); [discriminate|]. pcbn.
  destruct (l <? i); [discriminate|]. destruct (ni =? 0); [discriminate|].
  destruct (nlim <? ni); [discriminate|]. intros H; inversion H; reflexivity.
Qed.

Lemma quot_add a d n : d <> 0 -> (a * d + n) / d = a + n / d.
Proof. intros. replace (a * d + n) with (n + a * d) by lia. rewrite N.div_add by lia. lia. Qed.

Ltac ssub := unfold pending in *; pcbn; unf.

(* checked_compute never fails on a well-formed block, returns the cached next rate, and keeps the block well formed *)
Lemma compute_spec p : wf p ->
  exists p', br_compute p = Some (next p, p') /\ next p <= next p' /\ limit p' = limit p /\ wf p'.
Proof.
  intros W. pose proof W as [Hn Hl Ho H32 Hd Hnum Hb]. unfold br_compute.
  destruct (next p =? 0) eqn:E0; [lia|].
  destruct (sat_sub (to_lim p) 1 =? 0) eqn:E1.
  { eexists; split; [reflexivity|]. pcbn. split; [lia|]. split; [reflexivity|].
    constructor; pcbn; try (unf; lia).
    ssub. replace (to_lim p - 1 - N.max (to_inc p - 1) 1) with 0 by lia. lia. }
  destruct (sat_sub (to_inc p) 1 =? 0) eqn:E2.
  - assert (next p * den p < 4611686018427387904) as Hprod by (unf; nia).
    rewrite (sat_mul_small two64 (next p) (den p)) by (unf; lia).
    rewrite (checked_add_small two64 (next p * den p) (num p)) by (unf; lia).
    destruct (den p =? 0) eqn:E4; [lia|].
    rewrite quot_add by lia.
    assert (pending p >= 1) as Hp1 by (clear Hb; ssub; lia).
    set (st := num p / den p) in *.
    assert (pending p * st = st + (pending p - 1) * st) as Hsplit by nia.
    assert (next p + st <= limit p) as Hfit by nia.
    destruct (BR_MAX <? next p + st) eqn:E5; [unf; lia|].
    eexists; split; [reflexivity|]. pcbn. split; [lia|]. split; [reflexivity|].
    constructor; pcbn; try (unf; lia).
    assert (pending (mkP (limit p) (sat_sub (to_inc p) 1) (sat_sub (to_lim p) 1) (num p) (den p)
                         (N.min (next p + st) (limit p))) = pending p - 1) as ->
        by (clear Hb Hsplit Hfit; ssub; lia).
    fold st. lia.
  - eexists; split; [reflexivity|]. pcbn. split; [lia|]. split; [reflexivity|].
    constructor; pcbn; try (unf; lia).
    assert (pending (mkP (limit p) (sat_sub (to_inc p) 1) (sat_sub (to_lim p) 1) (num p) (den p) (next p)) = pending p) as ->
        by (clear Hb; ssub; lia).
    lia.
Qed.

Lemma compute_never_fails p : wf p -> br_compute p <> None.
Proof. intros W. destruct (compute_spec p W) as (p' & H & _). rewrite H. discriminate. Qed.

Lemma compute_returns_next p r p' : wf p -> br_compute p = Some (r, p') -> r = next p.
Proof. intros W H. destruct (compute_spec p W) as (q & Hq & _). rewrite Hq in H. inversion H; reflexivity. Qed.

Lemma compute_wf p r p' : wf p -> br_compute p = Some (r, p') -> wf p' /\ r <= next p' /\ next p' <= limit p' /\ limit p' = limit p.
Proof.
  intros W H. destruct (compute_spec p W) as (q & Hq & Hle & Hlim & Wq). rewrite Hq in H. inversion H; subst.
  split; [exact Wq|]. split; [exact Hle|]. split; [apply Wq|exact Hlim].
Qed.

(* a block that never received an initial rate: compute fails, updates keep the rate at zero *)
Lemma compute_unset p : next p = 0 -> br_compute p = None.
Proof. intros H. unfold br_compute. rewrite H. reflexivity. Qed.

(* ------------------------------------------------------------------ the processor arm *)
Definition op_ok (o : bop) : Prop := bop_okb o = true.

Lemma configure_rejected_unchanged s l ti tl i :
  configure_burn_rate (fst s) (snd s) l ti tl i = None -> br_step s (BUpdate l ti tl i) = (s, RRej).
Proof. destruct s as [e p]. cbn [fst snd br_step]. intros ->. reflexivity. Qed.

Lemma step_failed_unchanged s o : snd (br_step s o) = RRej \/ snd (br_step s o) = RFail -> fst (br_step s o) = s.
Proof.
  destruct s as [e p], o as [|l ti tl i]; cbn [br_step].
  - destruct (br_compute p) as [[r p']|]; cbn [fst snd]; [intros [H|H]; discriminate|reflexivity].
  - destruct (configure_burn_rate e p l ti tl i); cbn [fst snd]; [intros [H|H]; discriminate|reflexivity].
Qed.

(* an initial rate is taken only while no distribution exists *)
Lemma initial_rate_only_at_epoch_0 e p l ti tl r p' :
  configure_burn_rate e p l ti tl (Some r) = Some p' -> e = 0 /\ br_new r l ti tl = Some p' /\ next p' = r /\ r <> 0.
Proof.
  unfold configure_burn_rate. destruct (BR_MAX <? l); [discriminate|].
  destruct (e =? 0) eqn:E; cbn [negb]; [|discriminate].
  destruct (BR_MAX <? r); [discriminate|]. intros H. split; [lia|]. split; [exact H|].
  pose proof (new_fields _ _ _ _ _ H) as ->. pcbn. split; [reflexivity|].
  unfold br_new in H. destruct (r =? 0) eqn:E0; [discriminate|lia].
Qed.

Lemma configure_accepts_iff e p l ti tl i :
  (exists p', configure_burn_rate e p l ti tl i = Some p') <->
  (l <= BR_MAX /\ ti <> 0 /\ ti <= tl /\
   match i with Some r => e = 0 /\ r <> 0 /\ r <= l | None => next p <= l end).
Proof.
  unfold configure_burn_rate. destruct (BR_MAX <? l) eqn:E1.
  { split; [intros [? H]; discriminate|lia]. }
  destruct i as [r|].
  - destruct (e =? 0) eqn:E2; cbn [negb]; [|split; [intros [? H]; discriminate|lia]].
    destruct (BR_MAX <? r) eqn:E3; [split; [intros [? H]; discriminate|lia]|].
    rewrite new_accepts_iff. lia.
  - rewrite update_accepts_iff. lia.
Qed.

Lemma configure_wf e p l ti tl i p' : wf p \/ next p = 0 -> op_ok (BUpdate l ti tl i) ->
  configure_burn_rate e p l ti tl i = Some p' ->
  (wf p' /\ (i = None -> next p' = next p)) \/ (next p' = 0 /\ next p = 0 /\ i = None).
Proof.
  intros Hp Hok H. unfold op_ok in Hok; cbn [bop_okb] in Hok.
  unfold configure_burn_rate in H. destruct (BR_MAX <? l) eqn:E1; [discriminate|].
  destruct i as [r|].
  - destruct (negb (e =? 0)); [discriminate|]. destruct (BR_MAX <? r); [discriminate|].
    left. split; [|discriminate]. eapply new_wf; eauto; unf; lia.
  - destruct (update_next _ _ _ _ _ H) as (Hn & _).
    destruct Hp as [W|Hz].
    + left. split; [|auto]. eapply update_wf; eauto; [apply W|unf; lia..].
    + right. rewrite Hn. auto.
Qed.

(* ------------------------------------------------------------------ rates over arbitrary interleavings *)
Fixpoint nondec_from (lo : N) (l : list N) : Prop :=
  match l with [] => True | x :: tl => lo <= x /\ nondec_from x tl end.

Lemma nondec_from_weaken lo lo' l : lo' <= lo -> nondec_from lo l -> nondec_from lo' l.
Proof. destruct l; cbn; [auto|]. intros ? [? ?]. split; [lia|auto]. Qed.

(* state invariant of the processor-level machine *)
Definition pre (p : params) : Prop := wf p \/ next p = 0.

Lemma pre_default : pre br_default.
Proof. right. reflexivity. Qed.

Lemma run_cons {S} (step : S -> bop -> S * bres) s o ops :
  run step s (o :: ops) = snd (step s o) :: run step (fst (step s o)) ops.
Proof. cbn [run]. destruct (step s o); reflexivity. Qed.

(* lo is a floor for every rate still to come: 0 before the first distribution, else <= the cached next rate *)
Lemma rates_nondecreasing_gen ops : forall e p lo, pre p -> Forall op_ok ops ->
  (lo = 0 \/ (e <> 0 /\ lo <= next p)) ->
  nondec_from lo (rates (run br_step (e, p) ops)).
Proof.
  induction ops as [|o ops IH]; intros e p lo Hp Hok Hlo; [exact I|].
  inversion Hok as [|? ? Ho Hops]; subst. rewrite run_cons.
  destruct o as [|l ti tl i]; cbn [br_step].
  - destruct Hp as [W|Hz].
    + destruct (compute_spec p W) as (p' & Hc & Hle & Hlim & W'). rewrite Hc. cbn [fst snd rates].
      split; [destruct Hlo; lia|].
      apply IH; [left; exact W'|exact Hops|].
      right. split; [apply epoch_succ_pos|exact Hle].
    + rewrite (compute_unset p Hz). cbn [fst snd rates]. apply IH; auto. right; exact Hz.
  - destruct (configure_burn_rate e p l ti tl i) as [p'|] eqn:Hc; cbn [fst snd rates].
    + destruct (configure_wf e p l ti tl i p' Hp Ho Hc) as [[W' Hn]|(Hz' & Hz & Hi)].
      * apply IH; [left; exact W'|exact Hops|].
        destruct i as [r|].
        -- destruct (initial_rate_only_at_epoch_0 _ _ _ _ _ _ _ Hc) as (He & _).
           destruct Hlo as [?|[? ?]]; [left; assumption|contradiction].
        -- rewrite (Hn eq_refl). exact Hlo.
      * apply IH; [right; exact Hz'|exact Hops|]. destruct Hlo as [?|[? ?]]; [left; assumption|right; split; [assumption|lia]].
    + apply IH; assumption.
Qed.

Theorem rates_nondecreasing ops e p : pre p -> Forall op_ok ops ->
  nondec_from 0 (rates (run br_step (e, p) ops)).
Proof. intros. apply rates_nondecreasing_gen; auto. Qed.

(* each assigned rate together with the limit in force when it was assigned *)
Fixpoint rate_limits (s : mstate) (ops : list bop) : list (N * N) :=
  match ops with
  | [] => []
  | o :: tl => let '(s', r) := br_step s o in
               match r with RRate x => (x, limit (snd s)) :: rate_limits s' tl | _ => rate_limits s' tl end
  end.

Lemma rate_limits_rates ops : forall s, map fst (rate_limits s ops) = rates (run br_step s ops).
Proof.
  induction ops as [|o ops IH]; intros s; [reflexivity|]. cbn [rate_limits run].
  destruct (br_step s o) as [s' r]. destruct r; cbn [rates map fst]; rewrite ?IH; reflexivity.
Qed.

Theorem rates_le_limit ops : forall e p, pre p -> Forall op_ok ops ->
  Forall (fun rl => fst rl <= snd rl /\ snd rl <= BR_MAX) (rate_limits (e, p) ops).
Proof.
  induction ops as [|o ops IH]; intros e p Hp Hok; [constructor|].
  inversion Hok as [|? ? Ho Hops]; subst. cbn [rate_limits].
  destruct o as [|l ti tl i]; cbn [br_step].
  - destruct Hp as [W|Hz].
    + destruct (compute_spec p W) as (p' & Hc & Hle & Hlim & W'). rewrite Hc. cbn [snd].
      constructor; [cbn [fst snd]; split; [apply W|apply W]|]. apply IH; [left; exact W'|exact Hops].
    + rewrite (compute_unset p Hz). apply IH; [right; exact Hz|exact Hops].
  - destruct (configure_burn_rate e p l ti tl i) as [p'|] eqn:Hc.
    + apply IH; [|exact Hops].
      destruct (configure_wf e p l ti tl i p' Hp Ho Hc) as [[W' _]|(Hz' & _)]; [left|right]; assumption.
    + apply IH; assumption.
Qed.

(* the limit in force is at most 100% in every reachable state (after any operation sequence) *)
Fixpoint run_state {S} (step : S -> bop -> S * bres) (s : S) (ops : list bop) : S :=
  match ops with [] => s | o :: tl => run_state step (fst (step s o)) tl end.

Lemma pre_preserved ops : forall e p, pre p -> Forall op_ok ops -> pre (snd (run_state br_step (e, p) ops)).
Proof.
  induction ops as [|o ops IH]; intros e p Hp Hok; [exact Hp|].
  inversion Hok as [|? ? Ho Hops]; subst. cbn [run_state].
  destruct o as [|l ti tl i]; cbn [br_step].
  - destruct Hp as [W|Hz].
    + destruct (compute_spec p W) as (p' & Hc & _ & _ & W'). rewrite Hc. apply IH; [left; exact W'|exact Hops].
    + rewrite (compute_unset p Hz). apply IH; [right; exact Hz|exact Hops].
  - destruct (configure_burn_rate e p l ti tl i) as [p'|] eqn:Hc; cbn [fst].
    + apply IH; [|exact Hops].
      destruct (configure_wf e p l ti tl i p' Hp Ho Hc) as [[W' _]|(Hz' & _)]; [left|right]; assumption.
    + apply IH; assumption.
Qed.

Lemma configure_limit e p l ti tl i p' : configure_burn_rate e p l ti tl i = Some p' -> limit p' = l /\ l <= BR_MAX.
Proof.
  unfold configure_burn_rate. destruct (BR_MAX <? l) eqn:E; [discriminate|]. intros H. split; [|lia].
  destruct i as [r|].
  - destruct (negb (e =? 0)); [discriminate|]. destruct (BR_MAX <? r); [discriminate|].
    rewrite (new_fields _ _ _ _ _ H). reflexivity.
  - apply update_next in H. apply H.
Qed.

Theorem limit_le_max ops : forall e p, limit p <= BR_MAX -> limit (snd (run_state br_step (e, p) ops)) <= BR_MAX.
Proof.
  induction ops as [|o ops IH]; intros e p Hl; [exact Hl|]. cbn [run_state].
  destruct o as [|l ti tl i]; cbn [br_step].
  - destruct (br_compute p) as [[r p']|] eqn:Hc; cbn [fst]; [|apply IH; exact Hl].
    apply IH. unfold br_compute in Hc. destruct (next p =? 0); [discriminate|].
    destruct (sat_sub (to_lim p) 1 =? 0); [inversion Hc; subst; exact Hl|].
    destruct (sat_sub (to_inc p) 1 =? 0); [|inversion Hc; subst; exact Hl].
    destruct (checked_add _ _ _); [|discriminate]. destruct (den p =? 0); [discriminate|].
    destruct (BR_MAX <? _); [discriminate|]. inversion Hc; subst; exact Hl.
  - destruct (configure_burn_rate e p l ti tl i) as [p'|] eqn:Hc; cbn [fst]; [|apply IH; exact Hl].
    apply IH. destruct (configure_limit _ _ _ _ _ _ _ Hc) as [-> ?]. assumption.
Qed.

(* ------------------------------------------------------------------ refinement of the closed-form specification *)
Definition cfg_ok (c : cfg) : Prop :=
  0 < c_r0 c /\ c_r0 c <= c_lim c /\ c_lim c <= BR_MAX /\ 1 <= c_ti c /\ c_ti c <= c_tl c /\ c_tl c < two32.

Definition rel (p : params) (c : cfg) : Prop :=
  cfg_ok c /\ limit p = c_lim c /\ to_inc p = c_ti c - c_k c /\ to_lim p = c_tl c - c_k c /\
  num p = c_lim c - c_r0 c /\ den p = c_tl c - c_ti c + 1 /\ next p = ramp c.

Lemma ramp_cases c : cfg_ok c ->
  (c_k c < c_ti c /\ ramp c = c_r0 c) \/
  (c_ti c <= c_k c < c_tl c /\ ramp c = c_r0 c + (c_k c - c_ti c + 1) * c_step c) \/
  (c_tl c <= c_k c /\ ramp c = c_lim c).
Proof.
  intros _. unfold ramp. destruct (c_k c <? c_ti c) eqn:E1; [left; lia|].
  destruct (c_k c <? c_tl c) eqn:E2; [right; left; lia|right; right; lia].
Qed.

(* a ramp of a steps never passes the limit *)
Lemma ramp_budget c a : cfg_ok c -> a <= c_tl c - c_ti c -> c_r0 c + a * c_step c <= c_lim c.
Proof.
  intros (H0 & H1 & H2 & H3 & H4 & H5) Ha. unfold c_step.
  pose proof (div_budget (c_tl c - c_ti c) (c_lim c - c_r0 c)).
  set (S := (c_lim c - c_r0 c) / (c_tl c - c_ti c + 1)) in *. nia.
Qed.

Lemma ramp_bounds c : cfg_ok c -> c_r0 c <= ramp c <= c_lim c.
Proof.
  intros H. pose proof H as (H0 & H1 & H2 & H3 & H4 & H5).
  destruct (ramp_cases c H) as [[? ->]|[[? ->]|[? ->]]]; try lia.
  assert (c_k c - c_ti c + 1 <= c_tl c - c_ti c) as Ha by lia.
  pose proof (ramp_budget c (c_k c - c_ti c + 1) H Ha). split; [|assumption].
  apply N.le_add_r.
Qed.

Lemma ramp_mono c : cfg_ok c -> ramp c <= ramp (bump c).
Proof.
  intros H. pose proof H as (H0 & H1 & H2 & H3 & H4 & H5).
  assert (cfg_ok (bump c)) as Hb by exact H.
  destruct (ramp_cases c H) as [[Hk ->]|[[Hk ->]|[Hk ->]]].
  - pose proof (ramp_bounds (bump c) Hb). cbn [bump c_r0] in *. lia.
  - destruct (ramp_cases (bump c) Hb) as [[Hk' ->]|[[Hk' ->]|[Hk' ->]]]; cbn [bump c_r0 c_lim c_ti c_tl c_k] in *; try lia.
    + change (c_step (bump c)) with (c_step c).
      apply N.add_le_mono_l, N.mul_le_mono_r. lia.
    + assert (c_k c - c_ti c + 1 <= c_tl c - c_ti c) as Ha by lia.
      pose proof (ramp_budget c (c_k c - c_ti c + 1) H Ha). lia.
  - destruct (ramp_cases (bump c) Hb) as [[Hk' ->]|[[Hk' ->]|[Hk' ->]]]; cbn [bump c_r0 c_lim c_ti c_tl c_k] in *; lia.
Qed.

Lemma compute_rel p c : rel p c -> exists p', br_compute p = Some (ramp c, p') /\ rel p' (bump c).
Proof.
  intros (Hok & Hl & Hti & Htl & Hnum & Hden & Hnext).
  pose proof Hok as (H0 & H1 & H2 & H3 & H4 & H5).
  pose proof (ramp_bounds c Hok) as Hrb.
  unfold br_compute. destruct (next p =? 0) eqn:E0; [lia|]. rewrite Hnext.
  assert (cfg_ok (bump c)) as Hokb by exact Hok.
  destruct (sat_sub (to_lim p) 1 =? 0) eqn:E1.
  { eexists; split; [reflexivity|]. unfold rel; pcbn. split; [exact Hokb|].
    cbn [bump c_r0 c_lim c_ti c_tl c_k]. unf.
    split; [lia|]. split; [lia|]. split; [lia|]. split; [lia|]. split; [lia|].
    destruct (ramp_cases (bump c) Hokb) as [[Hk ?]|[[Hk ?]|[Hk ->]]]; cbn [bump c_r0 c_lim c_ti c_tl c_k] in *; lia. }
  destruct (sat_sub (to_inc p) 1 =? 0) eqn:E2.
  - (* the ramp: k + 1 >= ti, k + 1 < tl *)
    assert (c_ti c <= c_k c + 1 /\ c_k c + 1 < c_tl c) as [Hk1 Hk2] by (unf; lia).
    assert (ramp c * den p < 4611686018427387904) as Hprod by (unf; nia).
    assert (num p <= 1000000000) as Hnb by (unf; lia).
    rewrite (sat_mul_small two64 (ramp c) (den p)) by (unf; lia).
    rewrite (checked_add_small two64 (ramp c * den p) (num p)) by (unf; lia).
    destruct (den p =? 0) eqn:E4; [lia|]. rewrite quot_add by lia.
    assert (num p / den p = c_step c) as Hst by (unfold c_step; rewrite Hnum, Hden; reflexivity).
    rewrite Hst.
    assert (ramp c + c_step c = ramp (bump c) /\ ramp (bump c) <= c_lim c) as [Hnew Hfit].
    { pose proof (ramp_bounds (bump c) Hokb) as Hbb. cbn [bump c_lim] in Hbb. split; [|lia].
      destruct (ramp_cases (bump c) Hokb) as [[Hk ?]|[[Hk Hr']|[Hk ?]]]; cbn [bump c_r0 c_lim c_ti c_tl c_k] in *; try lia.
      rewrite Hr'. change (c_step (bump c)) with (c_step c).
      destruct (ramp_cases c Hok) as [[Hkk ->]|[[Hkk ->]|[Hkk ?]]]; [| |lia].
      - assert (c_k c + 1 - c_ti c = 0) as -> by lia. lia.
      - replace (c_k c + 1 - c_ti c + 1) with ((c_k c - c_ti c + 1) + 1) by lia.
        rewrite N.mul_add_distr_r. lia. }
    rewrite Hnew.
    destruct (BR_MAX <? ramp (bump c)) eqn:E5; [unf; lia|].
    eexists; split; [reflexivity|]. unfold rel; pcbn. split; [exact Hokb|].
    cbn [bump c_r0 c_lim c_ti c_tl c_k]. unf.
    split; [lia|]. split; [lia|]. split; [lia|]. split; [lia|]. split; [lia|].
    cbn [bump c_lim] in Hfit. lia.
  - (* still static: k + 1 < ti *)
    eexists; split; [reflexivity|]. unfold rel; pcbn. split; [exact Hokb|].
    cbn [bump c_r0 c_lim c_ti c_tl c_k]. unf.
    split; [lia|]. split; [lia|]. split; [lia|]. split; [lia|]. split; [lia|].
    destruct (ramp_cases c Hok) as [[Hk ->]|[[Hk ?]|[Hk ?]]]; [|lia|lia].
    destruct (ramp_cases (bump c) Hokb) as [[Hk' ->]|[[Hk' ?]|[Hk' ?]]]; cbn [bump c_r0 c_lim c_ti c_tl c_k] in *; lia.
Qed.

Lemma ramp_k0 r l ti tl : 1 <= ti -> ramp (mkC r l ti tl 0) = r.
Proof. intros. unfold ramp; cbn [c_k c_ti c_r0]. destruct (0 <? ti) eqn:E; [reflexivity|lia]. Qed.

Lemma update_rel p r l ti tl p' : next p = r -> cfg_ok (mkC r l ti tl 0) ->
  br_update p l ti tl = Some p' -> rel p' (mkC r l ti tl 0).
Proof.
  intros Hn Hok H. pose proof Hok as (H0 & H1 & H2 & H3 & H4 & H5). cbn [c_r0 c_lim c_ti c_tl c_k] in *.
  unfold br_update in H. destruct (l <? next p); [discriminate|]. destruct (ti =? 0); [discriminate|].
  destruct (tl <? ti); [discriminate|]. inversion H; subst; clear H.
  unfold rel; pcbn. cbn [c_r0 c_lim c_ti c_tl c_k]. rewrite ramp_k0 by lia.
  split; [exact Hok|]. rewrite sat_add_small by (unf; lia). unf. lia.
Qed.

Lemma args_ok_spec f l ti tl : args_ok f l ti tl = true <-> (f <= l /\ l <= BR_MAX /\ ti <> 0 /\ ti <= tl).
Proof. unfold args_ok. rewrite !andb_true_iff, negb_true_iff, !N.leb_le, N.eqb_neq. tauto. Qed.

Definition sim (s : mstate) (t : sstate) : Prop :=
  fst s = fst t /\ match snd t with Some c => rel (snd s) c | None => next (snd s) = 0 end.

(* one step: same observable result, simulation preserved *)
Lemma step_sim s t o : sim s t -> op_ok o ->
  snd (br_step s o) = snd (spec_step t o) /\ sim (fst (br_step s o)) (fst (spec_step t o)).
Proof.
  destruct s as [e p], t as [e' c]. intros [He Hc] Hok. cbn [fst snd] in He, Hc. subst e'.
  unfold op_ok in Hok. destruct o as [|l ti tl i]; cbn [br_step spec_step].
  - destruct c as [c|].
    + destruct (compute_rel p c Hc) as (p' & -> & Hr). cbn [fst snd]. split; [reflexivity|]. split; [reflexivity|exact Hr].
    + rewrite (compute_unset p Hc). cbn [fst snd]. split; [reflexivity|]. split; [reflexivity|exact Hc].
  - cbn [bop_okb] in Hok. rewrite !andb_true_iff, !N.ltb_lt in Hok. destruct Hok as [[[Hl Hti] Htl] Hi].
    destruct i as [r|].
    + rewrite N.ltb_lt in Hi.
      destruct ((e =? 0) && negb (r =? 0) && args_ok r l ti tl) eqn:Ea.
      * rewrite !andb_true_iff, negb_true_iff, args_ok_spec, N.eqb_eq, N.eqb_neq in Ea.
        destruct Ea as [[He Hr] (A1 & A2 & A3 & A4)].
        destruct (proj2 (configure_accepts_iff e p l ti tl (Some r))) as [p' Hp']; [lia|].
        rewrite Hp'. cbn [fst snd]. split; [reflexivity|]. split; [reflexivity|].
        destruct (initial_rate_only_at_epoch_0 _ _ _ _ _ _ _ Hp') as (_ & Hnew & _).
        unfold br_new in Hnew. destruct (r =? 0); [discriminate|].
        apply (update_rel (mkP 0 0 0 0 0 r) r l ti tl p' eq_refl); [|exact Hnew].
        unfold cfg_ok; cbn [c_r0 c_lim c_ti c_tl]. unf. lia.
      * destruct (configure_burn_rate e p l ti tl (Some r)) as [p'|] eqn:Hp'.
        -- exfalso. destruct (proj1 (configure_accepts_iff e p l ti tl (Some r)) (ex_intro _ p' Hp')) as (B1 & B2 & B3 & B4 & B5 & B6).
           assert ((e =? 0) && negb (r =? 0) && args_ok r l ti tl = true); [|congruence].
           rewrite !andb_true_iff, negb_true_iff, args_ok_spec, N.eqb_eq, N.eqb_neq. lia.
        -- cbn [fst snd]. split; [reflexivity|]. split; [reflexivity|exact Hc].
    + destruct (args_ok (spec_next c) l ti tl) eqn:Ea.
      * rewrite args_ok_spec in Ea. destruct Ea as (A1 & A2 & A3 & A4).
        assert (next p = spec_next c) as Hnx by (destruct c as [c|]; [apply Hc|exact Hc]).
        destruct (proj2 (configure_accepts_iff e p l ti tl None)) as [p' Hp']; [lia|].
        rewrite Hp'. cbn [fst snd]. split; [reflexivity|]. split; [reflexivity|].
        unfold configure_burn_rate in Hp'. destruct (BR_MAX <? l); [discriminate|].
        destruct c as [c|]; cbn [spec_next] in *.
        -- eapply update_rel; [exact Hnx| |exact Hp'].
           destruct Hc as (Hok & _). pose proof (ramp_bounds c Hok). destruct Hok as (K0 & K1 & K2 & K3 & K4 & K5).
           unfold cfg_ok; cbn [c_r0 c_lim c_ti c_tl]. lia.
        -- cbn [fst snd]. destruct (update_next _ _ _ _ _ Hp') as (Hn' & _). rewrite Hn'. exact Hc.
      * destruct (configure_burn_rate e p l ti tl None) as [p'|] eqn:Hp'.
        -- exfalso. destruct (proj1 (configure_accepts_iff e p l ti tl None) (ex_intro _ p' Hp')) as (B1 & B2 & B3 & B4).
           assert (next p = spec_next c) as Hnx by (destruct c as [c|]; [apply Hc|exact Hc]).
           assert (args_ok (spec_next c) l ti tl = true); [|congruence].
           rewrite args_ok_spec. lia.
        -- cbn [fst snd]. split; [reflexivity|]. split; [reflexivity|exact Hc].
Qed.

(* every operation sequence: the parameter block as coded is observably the closed-form specification *)
Lemma run_refines ops : forall s t, sim s t -> Forall op_ok ops -> run br_step s ops = run spec_step t ops.
Proof.
  induction ops as [|o ops IH]; intros s t Hs Hok; [reflexivity|].
  inversion Hok as [|? ? Ho Hops]; subst. rewrite !run_cons.
  destruct (step_sim s t o Hs Ho) as [Hr Hs']. rewrite Hr. f_equal. apply IH; assumption.
Qed.

Lemma sim_init : sim m_init s_init.
Proof. split; reflexivity. Qed.

Theorem model_refines_spec ops : Forall op_ok ops -> run br_step m_init ops = run spec_step s_init ops.
Proof. intros. apply run_refines; [exact sim_init|assumption]. Qed.

Lemma new_rel r l ti tl p : l <= BR_MAX -> ti < two32 -> tl < two32 ->
  br_new r l ti tl = Some p -> rel p (mkC r l ti tl 0).
Proof.
  intros Hl Hti Htl H.
  destruct (proj1 (new_accepts_iff r l ti tl) (ex_intro _ p H)) as (A1 & A2 & A3 & A4).
  unfold br_new in H. destruct (r =? 0); [discriminate|].
  apply (update_rel (mkP 0 0 0 0 0 r) r l ti tl p eq_refl); [|exact H].
  unfold cfg_ok; cbn [c_r0 c_lim c_ti c_tl]. unf. lia.
Qed.

(* ------------------------------------------------------------------ the three phases, for a run of consecutive
   distributions after a fresh `new` (no reconfiguration in between) *)
Definition with_k (c : cfg) (k : N) : cfg := mkC (c_r0 c) (c_lim c) (c_ti c) (c_tl c) k.

Lemma spec_computes n : forall e c,
  run spec_step (e, Some c) (repeat BCompute n) =
  map (fun j => RRate (ramp (with_k c (c_k c + N.of_nat j)))) (seq 0 n).
Proof.
  induction n as [|n IH]; intros e c; [reflexivity|].
  cbn [repeat]. rewrite run_cons. cbn [spec_step fst snd]. rewrite IH.
  cbn [seq map]. f_equal.
  - f_equal. f_equal. unfold with_k. rewrite N.add_0_r. destruct c; reflexivity.
  - rewrite <- seq_shift, map_map. apply map_ext. intros j. f_equal. f_equal.
    unfold with_k, bump; cbn [c_r0 c_lim c_ti c_tl c_k]. f_equal. lia.
Qed.

Lemma rates_map_rate {A} (f : A -> N) l : rates (map (fun a => RRate (f a)) l) = map f l.
Proof. induction l; cbn [map rates]; [reflexivity|]. f_equal. assumption. Qed.

Lemma Forall_repeat_compute n : Forall op_ok (repeat BCompute n).
Proof. induction n; cbn [repeat]; constructor; [reflexivity|assumption]. Qed.

(* rate of the k-th distribution (k = 0, 1, ...) after parameters (r, l, ti, tl) were accepted *)
Definition rate_at (r l ti tl k : N) : N := ramp (mkC r l ti tl k).

Theorem fresh_run_closed_form r l ti tl p e n : l <= BR_MAX -> ti < two32 -> tl < two32 ->
  br_new r l ti tl = Some p ->
  rates (run br_step (e, p) (repeat BCompute n)) = map (fun j => rate_at r l ti tl (N.of_nat j)) (seq 0 n).
Proof.
  intros Hl Hti Htl H. pose proof (new_rel r l ti tl p Hl Hti Htl H) as Hr.
  rewrite (run_refines (repeat BCompute n) (e, p) (e, Some (mkC r l ti tl 0))).
  - rewrite spec_computes. rewrite (rates_map_rate (fun j => ramp (with_k (mkC r l ti tl 0) (c_k (mkC r l ti tl 0) + N.of_nat j)))).
    apply map_ext. intros j. unfold rate_at, with_k. cbn [c_r0 c_lim c_ti c_tl c_k]. f_equal.
  - split; [reflexivity|exact Hr].
  - apply Forall_repeat_compute.
Qed.

Lemma static_phase_ramp r l ti tl k : k < ti -> rate_at r l ti tl k = r.
Proof. intros H. unfold rate_at, ramp; cbn [c_k c_ti c_r0]. destruct (k <? ti) eqn:E; [reflexivity|lia]. Qed.

Lemma limit_phase_ramp r l ti tl k : tl <= k -> ti <= tl -> rate_at r l ti tl k = l.
Proof. intros H H'. unfold rate_at, ramp; cbn [c_k c_ti c_tl c_lim]. destruct (k <? ti) eqn:E; [lia|]. destruct (k <? tl) eqn:E2; [lia|reflexivity]. Qed.

(* one fixed step (l - r) / (tl - ti + 1) per epoch while ramping; the min with the limit never binds *)
Lemma ramp_step_ramp r l ti tl k : cfg_ok (mkC r l ti tl 0) -> ti <= k + 1 -> k + 1 < tl ->
  let step := (l - r) / (tl - ti + 1) in
  rate_at r l ti tl (k + 1) = rate_at r l ti tl k + step /\
  rate_at r l ti tl (k + 1) = N.min (rate_at r l ti tl k + step) l.
Proof.
  intros Hok H1 H2 step.
  assert (cfg_ok (mkC r l ti tl (k + 1))) as Hok1 by exact Hok.
  pose proof (ramp_bounds _ Hok1) as Hb. cbn [c_r0 c_lim] in Hb. fold (rate_at r l ti tl (k + 1)) in Hb.
  assert (rate_at r l ti tl (k + 1) = rate_at r l ti tl k + step) as Heq.
  { unfold rate_at, ramp; cbn [c_k c_ti c_tl c_lim c_r0]. unfold c_step; cbn [c_ti c_tl c_lim c_r0]. fold step.
    destruct (k + 1 <? ti) eqn:E1; [lia|]. destruct (k + 1 <? tl) eqn:E2; [|lia].
    destruct (k <? ti) eqn:E3.
    - assert (k + 1 - ti = 0) as -> by lia. lia.
    - destruct (k <? tl) eqn:E4; [|lia].
      replace (k + 1 - ti + 1) with ((k - ti + 1) + 1) by lia. rewrite N.mul_add_distr_r. lia. }
  split; [exact Heq|]. rewrite <- Heq. lia.
Qed.

Lemma nth_error_map_seq {A} (f : nat -> A) n k : (k < n)%nat -> nth_error (map f (seq 0 n)) k = Some (f k).
Proof.
  intros H. rewrite nth_error_map. rewrite (nth_error_nth' (seq 0 n) O) by (rewrite seq_length; exact H).
  rewrite seq_nth by exact H. reflexivity.
Qed.

Theorem static_phase r l ti tl p e n k : l <= BR_MAX -> ti < two32 -> tl < two32 -> br_new r l ti tl = Some p ->
  (k < n)%nat -> N.of_nat k < ti ->
  nth_error (rates (run br_step (e, p) (repeat BCompute n))) k = Some r.
Proof.
  intros Hl Hti Htl H Hk Hs. rewrite (fresh_run_closed_form r l ti tl p e n Hl Hti Htl H).
  rewrite nth_error_map_seq by exact Hk. f_equal. apply static_phase_ramp. exact Hs.
Qed.

Theorem limit_phase r l ti tl p e n k : l <= BR_MAX -> ti < two32 -> tl < two32 -> br_new r l ti tl = Some p ->
  (k < n)%nat -> tl <= N.of_nat k ->
  nth_error (rates (run br_step (e, p) (repeat BCompute n))) k = Some l.
Proof.
  intros Hl Hti Htl H Hk Hs. rewrite (fresh_run_closed_form r l ti tl p e n Hl Hti Htl H).
  rewrite nth_error_map_seq by exact Hk. f_equal. apply limit_phase_ramp; [exact Hs|].
  destruct (proj1 (new_accepts_iff r l ti tl) (ex_intro _ p H)) as (_ & _ & _ & ?). assumption.
Qed.

Theorem ramp_step r l ti tl p e n k : l <= BR_MAX -> ti < two32 -> tl < two32 -> br_new r l ti tl = Some p ->
  (S k < n)%nat -> ti <= N.of_nat k + 1 -> N.of_nat k + 1 < tl ->
  exists a b, nth_error (rates (run br_step (e, p) (repeat BCompute n))) k = Some a /\
              nth_error (rates (run br_step (e, p) (repeat BCompute n))) (S k) = Some b /\
              b = a + (l - r) / (tl - ti + 1) /\ b = N.min (a + (l - r) / (tl - ti + 1)) l.
Proof.
  intros Hl Hti Htl H Hk H1 H2. rewrite (fresh_run_closed_form r l ti tl p e n Hl Hti Htl H).
  rewrite !nth_error_map_seq by lia.
  eexists; eexists; split; [reflexivity|]. split; [reflexivity|].
  destruct (new_rel r l ti tl p Hl Hti Htl H) as (Hok & _).
  replace (N.of_nat (S k)) with (N.of_nat k + 1) by lia.
  apply (ramp_step_ramp r l ti tl (N.of_nat k) Hok H1 H2).
Qed.

(* ------------------------------------------------------------------ the monitor accepts every trace of the model *)
Definition mitem (s : mstate) (o : bop) : item :=
  (o, snd (br_step s o), snd (fst (br_step s o)), fst (fst (br_step s o))).
Fixpoint mtrace (s : mstate) (ops : list bop) : list item :=
  match ops with [] => [] | o :: tl => mitem s o :: mtrace (fst (br_step s o)) tl end.

Definition last_ok (last : N) (s : mstate) : Prop := last = 0 \/ (fst s <> 0 /\ last <= next (snd s)).

Lemma params_eqb_refl p : params_eqb p p = true.
Proof. unfold params_eqb. rewrite !N.eqb_refl. reflexivity. Qed.
Lemma bres_eqb_refl r : bres_eqb r r = true.
Proof. destruct r; cbn; rewrite ?N.eqb_refl; reflexivity. Qed.

Lemma configure_fields e p l ti tl i p' : configure_burn_rate e p l ti tl i = Some p' ->
  limit p' = l /\ to_inc p' = ti /\ to_lim p' = tl.
Proof.
  unfold configure_burn_rate. destruct (BR_MAX <? l); [discriminate|]. destruct i as [r|].
  - destruct (negb (e =? 0)); [discriminate|]. destruct (BR_MAX <? r); [discriminate|].
    intros H. rewrite (new_fields _ _ _ _ _ H). auto.
  - intros H. apply update_next in H. tauto.
Qed.

Lemma mon_check_model s t last o : sim s t -> op_ok o -> last_ok last s ->
  mon_check t (snd s) last (mitem s o) = 0 /\
  last_ok (match snd (br_step s o) with RRate x => x | _ => last end) (fst (br_step s o)).
Proof.
  intros Hsim Hok Hlast. destruct (step_sim s t o Hsim Hok) as [Hres Hsim'].
  unfold mon_check, mitem.
  destruct (spec_step t o) as [[e2 c2] r2] eqn:Hs. cbn [fst snd] in Hres, Hsim'.
  destruct (br_step s o) as [[e1 p1] r1] eqn:Hm. cbn [fst snd] in *. subst r2.
  destruct Hsim' as [He Hc']. cbn [fst snd] in He, Hc'. subst e2.
  rewrite bres_eqb_refl, N.eqb_refl. cbn [negb].
  destruct s as [e p], t as [e0 c]. destruct Hsim as [He0 Hc]. unfold last_ok in *. cbn [fst snd] in *. subst e0.
  destruct o as [|l ti tl i].
  - (* InitializeDistribution *)
    cbn [br_step spec_step] in Hm, Hs. destruct c as [c|].
    + destruct (compute_rel p c Hc) as (p' & Hcp & Hr'). rewrite Hcp in Hm. inversion Hm; subst; clear Hm.
      inversion Hs; subst; clear Hs.
      destruct Hc as (Hok' & Hl & _ & _ & _ & _ & Hn). pose proof (ramp_bounds c Hok') as Hb.
      destruct Hok' as (K0 & K1 & K2 & K3 & K4 & K5).
      destruct Hr' as (Hokb & Hl' & _ & _ & _ & _ & Hn'). pose proof (ramp_mono c (conj K0 (conj K1 (conj K2 (conj K3 (conj K4 K5)))))) as Hmono.
      assert (last <= ramp c) as Hlr by (destruct Hlast as [?|[_ ?]]; lia).
      rewrite (proj2 (N.leb_le _ _) Hlr). cbn [negb].
      rewrite Hl. rewrite (proj2 (N.leb_le _ _) (proj2 Hb)), (proj2 (N.leb_le _ _) K2). cbn [andb negb].
      rewrite Hl'. cbn [bump c_lim]. rewrite N.eqb_refl. cbn [negb].
      cbn [spec_next]. rewrite Hn', N.eqb_refl. cbn [negb]. split; [reflexivity|].
      right. split; [apply epoch_succ_pos|exact Hmono].
    + rewrite (compute_unset p Hc) in Hm. inversion Hm; subst; clear Hm. inversion Hs; subst; clear Hs.
      rewrite params_eqb_refl. split; [reflexivity|exact Hlast].
  - (* ConfigureProgram *)
    cbn [br_step] in Hm.
    destruct (configure_burn_rate e p l ti tl i) as [p'|] eqn:Hcf; inversion Hm; subst; clear Hm.
    + destruct (configure_fields _ _ _ _ _ _ _ Hcf) as (F1 & F2 & F3). rewrite F1, F2, F3, !N.eqb_refl. cbn [andb negb].
      assert (next p1 = spec_next c2 /\ next p1 <= l) as [Hn Hle].
      { destruct c2 as [c2|]; cbn [spec_next].
        - destruct Hc' as (Hok2 & Hl2 & _ & _ & _ & _ & Hn2). split; [exact Hn2|].
          pose proof (ramp_bounds c2 Hok2). rewrite Hn2, <- F1, Hl2. lia.
        - split; [exact Hc'|]. rewrite Hc'. lia. }
      rewrite Hn, N.eqb_refl. cbn [negb]. rewrite <- Hn. rewrite (proj2 (N.leb_le _ _) Hle). cbn [negb].
      split; [reflexivity|]. cbn [fst snd].
      destruct i as [r|].
      * destruct (initial_rate_only_at_epoch_0 _ _ _ _ _ _ _ Hcf) as (He & _).
        destruct Hlast as [?|[? ?]]; [left; assumption|contradiction].
      * assert (next p1 = next p) as Hnn by (unfold configure_burn_rate in Hcf; destruct (BR_MAX <? l); [discriminate|]; apply update_next in Hcf; tauto).
        rewrite Hnn. exact Hlast.
    + rewrite params_eqb_refl. split; [reflexivity|exact Hlast].
Qed.

Lemma mon_go_model ops : forall s t last i, sim s t -> Forall op_ok ops -> last_ok last s ->
  mon_go t (snd s) last (mtrace s ops) i = None.
Proof.
  induction ops as [|o ops IH]; intros s t last i Hsim Hok Hlast; [reflexivity|].
  inversion Hok as [|? ? Ho Hops]; subst. cbn [mtrace mon_go].
  destruct (mon_check_model s t last o Hsim Ho Hlast) as [-> Hlast'].
  unfold mitem at 1.
  destruct (step_sim s t o Hsim Ho) as [_ Hsim'].
  apply IH; assumption.
Qed.

Theorem mon_C14_accepts_model ops : Forall op_ok ops -> mon_C14 (br_default, 0, mtrace m_init ops) = None.
Proof.
  intros Hok. unfold mon_C14. rewrite params_eqb_refl, N.eqb_refl. cbn [andb].
  apply (mon_go_model ops m_init s_init 0 0 sim_init Hok). left; reflexivity.
Qed.

Lemma corr_go_model ops : forall s i, Forall op_ok ops -> corr_go s (mtrace s ops) i = None.
Proof.
  induction ops as [|o ops IH]; intros s i Hok; [reflexivity|].
  inversion Hok as [|? ? Ho Hops]; subst. cbn [mtrace corr_go]. unfold mitem.
  unfold op_ok in Ho. rewrite Ho. cbn [negb].
  destruct (br_step s o) as [[e' p'] r']. cbn [fst snd].
  rewrite bres_eqb_refl, params_eqb_refl, N.eqb_refl. cbn [andb]. apply IH; assumption.
Qed.

(* a rejected reconfiguration / failed initialization changes neither the block nor the epoch *)
Lemma update_rejected_unchanged s o : snd (br_step s o) = RRej \/ snd (br_step s o) = RFail -> fst (br_step s o) = s.
Proof. exact (step_failed_unchanged s o). Qed.

(* ------------------------------------------------------------------ non-vacuity and sharpness *)
Definition ex_p : params := mkP 500000000 2 5 400000000 4 100000000.
Example ex_p_new : br_new 100000000 500000000 2 5 = Some ex_p.
Proof. vm_compute. reflexivity. Qed.
Example wf_nonvacuous : wf ex_p.
Proof. apply (new_wf 100000000 500000000 2 5); [unf; lia..|exact ex_p_new]. Qed.
Example update_wf_nonvacuous : exists p', br_update ex_p 600000000 3 9 = Some p' /\ wf p'.
Proof. exists (mkP 600000000 3 9 500000000 7 100000000). split; [vm_compute; reflexivity|]. apply (update_wf ex_p 600000000 3 9); [cbn; lia|unf; lia..|vm_compute; reflexivity]. Qed.
Example compute_nonvacuous : br_compute ex_p = Some (100000000, mkP 500000000 1 4 400000000 4 100000000).
Proof. vm_compute. reflexivity. Qed.
(* without well-formedness checked_compute can fail (BurnRate::try_from rejects 2 * 10^9): the hypothesis is needed *)
Example compute_needs_wf : br_compute (mkP 1000000000 1 5 1000000000 1 1000000000) = None.
Proof. vm_compute. reflexivity. Qed.

Example update_accepts_iff_nonvacuous :
  br_update ex_p 100000000 1 1 <> None /\            (* limit = next rate, shortest schedule *)
  br_update ex_p 99999999 1 1 = None /\              (* limit below the next rate *)
  br_update ex_p 500000000 0 1 = None /\             (* zero static period *)
  br_update ex_p 500000000 2 1 = None.               (* limit epoch before the static period ends *)
Proof. vm_compute. repeat split; try reflexivity. discriminate. Qed.

Example initial_rate_only_at_epoch_0_nonvacuous :
  configure_burn_rate 0 br_default 500000000 2 5 (Some 100000000) = Some ex_p /\
  configure_burn_rate 0 ex_p 10 1 3 (Some 5) = Some (mkP 10 1 3 5 3 5) /\       (* may be replaced, even lowered, before the first distribution *)
  configure_burn_rate 1 ex_p 500000000 2 5 (Some 100000000) = None /\
  configure_burn_rate 1 ex_p 600000000 2 5 None <> None.
Proof. vm_compute. repeat split; try reflexivity. discriminate. Qed.

Definition ex_ops : list bop :=
  [BCompute; BUpdate 5 1 2 None; BUpdate 500000000 1 4 (Some 100000000); BCompute; BUpdate 50000000 1 1 None;
   BUpdate 600000000 2 9 None; BUpdate 600000000 2 9 (Some 1); BCompute; BCompute; BCompute; BUpdate 299999999 1 1 None; BUpdate 300000000 1 1 None; BCompute; BCompute].
Example ex_ops_ok : Forall op_ok ex_ops.
Proof. repeat constructor. Qed.
Example rates_nondecreasing_nonvacuous :
  run br_step m_init ex_ops =
  [RFail; RAcc; RAcc; RRate 100000000; RRej; RAcc; RRej; RRate 200000000; RRate 200000000; RRate 250000000; RRej; RAcc; RRate 300000000; RRate 300000000] /\
  rate_limits m_init ex_ops = [(100000000, 500000000); (200000000, 600000000); (200000000, 600000000); (250000000, 600000000);
                               (300000000, 300000000); (300000000, 300000000)].
Proof. vm_compute. split; reflexivity. Qed.

Example phases_nonvacuous :
  rates (run br_step (7, ex_p) (repeat BCompute 8)) =
  [100000000; 100000000; 200000000; 300000000; 400000000; 500000000; 500000000; 500000000].
Proof. vm_compute. reflexivity. Qed.
(* rounding: 3 / 4 = 0 per epoch during the ramp, the remainder is made up when the limit epoch is reached *)
Example ramp_rounding_example :
  exists p, br_new 1 4 1 4 = Some p /\ rates (run br_step (0, p) (repeat BCompute 6)) = [1; 1; 1; 1; 4; 4].
Proof. exists (mkP 4 1 4 3 4 1). split; vm_compute; reflexivity. Qed.

Example mon_C14_rejects_nonvacuous :
  (* a trace whose second rate decreased / whose rejected update changed the block / that reached the limit late is refused *)
  mon_C14 (br_default, 0, [(BUpdate 5 1 2 (Some 3), RAcc, mkP 5 1 2 2 2 3, 0); (BCompute, RRate 3, mkP 5 0 1 2 2 4, 1); (BCompute, RRate 2, mkP 5 0 0 2 2 5, 2)]) = Some (2, 1) /\
  mon_C14 (br_default, 0, [(BUpdate 5 1 2 (Some 3), RAcc, mkP 5 1 2 2 2 3, 0); (BUpdate 2 1 2 None, RRej, mkP 2 1 2 2 2 3, 0)]) = Some (1, 10) /\
  mon_C14 (br_default, 0, [(BUpdate 5 1 2 (Some 3), RAcc, mkP 5 1 2 2 2 3, 0); (BCompute, RRate 3, mkP 5 0 1 2 2 4, 1); (BCompute, RRate 4, mkP 5 0 0 2 2 4, 2)]) = Some (2, 6) /\
  mon_C14 (br_default, 0, [(BUpdate 5 1 2 (Some 3), RAcc, mkP 5 1 2 2 2 3, 0); (BCompute, RRate 3, mkP 5 0 1 2 2 4, 1); (BUpdate 5 1 2 (Some 1), RAcc, mkP 5 1 2 4 2 1, 1)]) = Some (2, 1).
Proof. vm_compute. repeat split; reflexivity. Qed.
