(* Part 3 of Lemmas_RdSpecs*: the three resizing instructions (finalize-debt, finalize-rewards, enable-write-off):
   exact new tail / size / lamports, and the "rent + outstanding relay fees are covered" corollaries (C11). *)
From DZ Require Import Base Keys Merkle BurnRate Shares Swap_Ring State World SwapDeq RD Lemmas_Merkle Lemmas_RdSpecs Lemmas_RdSpecs2.

Lemma sat_add_exact m a b : a + b < m -> sat_add m a b = a + b.
Proof. intros H. unfold sat_add. apply N.ltb_lt in H. rewrite H. reflexivity. Qed.
Lemma sat_add_le m a b : sat_add m a b <= a + b.
Proof. unfold sat_add. destruct (N.ltb_spec (a + b) m); lia. Qed.
Lemma sat_mul_exact m a b : a * b < m -> sat_mul m a b = a * b.
Proof. intros H. unfold sat_mul. apply N.ltb_lt in H. rewrite H. reflexivity. Qed.
Lemma sat_mul_le m a b : sat_mul m a b <= a * b.
Proof. unfold sat_mul. destruct (N.ltb_spec (a * b) m); lia. Qed.
Lemma sat_mul_mono_r m a b b' : 0 < m -> b <= b' -> sat_mul m a b <= sat_mul m a b'.
Proof. intros Hm H. unfold sat_mul. destruct (N.ltb_spec (a * b) m), (N.ltb_spec (a * b') m); nia. Qed.

(* the account after the resize-and-top-up tail shared by the three instructions *)
Definition grown (a : acct) (d : dist) (tail : list N) (extra : N) : acct :=
  a <| alen := alen a + extra |> <| data := DDist d (tail ++ zeros extra) |>.

Record grow_facts (cx : ctx) (W : world) (dk : key) (d : dist) (tail : list N) (extra more : N) (ms : list meta)
                  (payer : key) (amt : N) (W' : world) : Prop := {
  gf_payer : exists mp rest, ms = mp :: rest /\ mkey mp = payer;
  gf_amt : amt = sat_add two64 more (rent (alen (get W dk) + extra) - lamports (get W dk));
  gf_dist_writable : is_writable (cx_metas cx) dk = true;
  gf_dist_owner : owner (get W dk) = cx_prog cx;
  gf_extra : extra <= MAX_REALLOC;
  gf_system : has_key (cx_metas cx) KSystem = true;
  gf_payer_signer : is_signer (cx_metas cx) payer = true;
  gf_payer_writable : is_writable (cx_metas cx) payer = true;
  gf_payer_funds : amt <= lamports (get W payer);
  gf_payer_system : owner (get W payer) = KSystem \/ amt = 0;
  gf_payer_nodata : payer <> dk -> alen (get W payer) = 0;
  gf_now : now W' = now W;
  gf_effect : forall k, get W' k =
     (if key_eqb dk k then grown (get W dk) d tail extra else get W k)
       <| lamports := lamports (get W k) - (if key_eqb payer k then amt else 0) + (if key_eqb dk k then amt else 0) |>
}.

Lemma grow_and_fund_spec cx W dk d tail extra ms more W' :
  grow_and_fund cx W dk d tail extra ms more = Ok W' ->
  exists payer amt, grow_facts cx W dk d tail extra more ms payer amt W'.
Proof.
  unfold grow_and_fund. intros H. inv_all.
  match goal with H : put_dist _ _ _ _ _ = Ok _ |- _ => apply put_dist_spec in H; destruct H as (Hw1 & Ho1 & Hn1 & Hg1) end.
  match goal with H : resize _ _ _ _ = Ok _ |- _ => apply resize_spec in H; destruct H as (Hr & _ & _ & Hn2 & Hg2) end.
  match goal with H : next_any _ _ = Ok _ |- _ => apply next_any_ok in H; subst end.
  apply sys_transfer_spec in H. destruct H as (Hsys & Hwp & _ & Hsig & Hal & Hle & Hown & Hn3 & Hg3).
  rewrite !Hg2, !Hg1, !key_eqb_refl in *. cbn [alen lamports owner RecordSet.set] in *. proj_simpl.
  destruct Hsig as [Hsig|Hsig]; [|unfold pda_signs in Hsig; cbn in Hsig; discriminate].
  match goal with |- context [grow_facts _ _ _ _ _ _ _ (?m :: _)] => exists (mkey m) end. eexists.
  constructor; try assumption; try reflexivity.
  - eauto.
  - cbn in Hr. lia.
  - destruct (key_eqb_spec dk (mkey m)) as [Eq|Eq]; [rewrite <- Eq|]; exact Hle.
  - destruct (key_eqb_spec dk (mkey m)) as [Eq|Eq]; [rewrite <- Eq|]; exact Hown.
  - intros Hne. rewrite (key_eqb_neq dk (mkey m)) in Hal by congruence. exact Hal.
  - lia.
  - intros k. rewrite Hg3, Hg2, Hg1. unfold grown.
    destruct (key_eqb_spec dk k) as [->|Hne]; apply acct_ext; reflexivity.
Qed.

Definition covered (a : acct) (d : dist) : Prop := rent (alen a) + outstanding_relay d <= lamports a.

(* generic arithmetic of the top-up: the distribution account after the tail *)
Lemma grow_dist_after cx W dk d tail extra more ms payer amt W' :
  grow_facts cx W dk d tail extra more ms payer amt W' ->
  alen (get W' dk) = alen (get W dk) + extra /\ data (get W' dk) = DDist d (tail ++ zeros extra) /\ owner (get W' dk) = owner (get W dk) /\
  (payer <> dk -> lamports (get W' dk) = lamports (get W dk) + amt) /\
  (payer = dk -> lamports (get W' dk) = lamports (get W dk)).
Proof.
  intros F. rewrite (gf_effect _ _ _ _ _ _ _ _ _ _ _ F), key_eqb_refl. cbn. repeat split.
  - intros Hne. rewrite (key_eqb_neq payer dk) by assumption. lia.
  - intros ->. rewrite key_eqb_refl. pose proof (gf_payer_funds _ _ _ _ _ _ _ _ _ _ _ F). lia.
Qed.
Lemma grow_payer_after cx W dk d tail extra more ms payer amt W' :
  grow_facts cx W dk d tail extra more ms payer amt W' -> payer <> dk ->
  get W' payer = (get W payer) <| lamports := lamports (get W payer) - amt |>.
Proof. intros F Hne. rewrite (gf_effect _ _ _ _ _ _ _ _ _ _ _ F), key_eqb_refl, (key_eqb_neq dk payer) by congruence.
  apply acct_ext; cbn; try reflexivity. lia. Qed.
Lemma grow_frame cx W dk d tail extra more ms payer amt W' k :
  grow_facts cx W dk d tail extra more ms payer amt W' -> k <> payer -> k <> dk -> get W' k = get W k.
Proof. intros F H1 H2. rewrite (gf_effect _ _ _ _ _ _ _ _ _ _ _ F), (key_eqb_neq dk k), (key_eqb_neq payer k) by congruence.
  apply acct_ext; cbn; try reflexivity. lia. Qed.

(* ================================================================================================ finalize rewards *)
Definition fr_dist (d : dist) (tail : list N) : dist :=
  d <| d_rewards_final := true |> <| d_rew_start := N.of_nat (length tail) |>
    <| d_rew_end := sat_add two32 (N.of_nat (length tail)) (ceil8 (d_total_contributors d)) |>.

Record finalize_rewards_facts (cx : ctx) (W W' : world) (c : rd_config) (dk : key) (d : dist) (tail : list N) (payer : key) (amt : N)
  : Prop := {
  fr_metas : exists mc md rest, cx_metas cx = mc :: md :: rest /\ mkey md = dk /\ mwritable md = true /\
             owner (get W (mkey mc)) = KRd /\ data (get W (mkey mc)) = DConfig c /\
             grow_facts cx W dk (fr_dist d tail) tail (ceil8 (d_total_contributors d))
                        (sat_mul two64 (d_relay d) (d_total_contributors d)) rest payer amt W';
  fr_unpaused : c_paused c = false;
  fr_dist_owner : owner (get W dk) = KRd;
  fr_dist_data : data (get W dk) = DDist d tail;
  fr_not_final : d_rewards_final d = false;
  fr_calc_allowed : calc_allowed d W = true;
  fr_debt_final : d_debt_final d = true;
  fr_debt_ok : d_uncollectible d <= d_total_debt d;
  fr_null_root : null_root_guard (d <| d_rewards_final := true |>) (d_total_debt d - d_uncollectible d) = true;
  fr_min_epochs : c_min_epochs c <> 0 /\ sat_add two64 (d_epoch d) (c_min_epochs c) <= c_next_epoch c
}.

Theorem rd_finalize_rewards_spec cx W W' : rd_finalize_rewards cx W = Ok W' ->
  exists c dk d tail payer amt, finalize_rewards_facts cx W W' c dk d tail payer amt.
Proof.
  unfold rd_finalize_rewards. intros H. inv_all. norm_bool.
  match goal with H : rd_zc_config _ _ _ = Ok _ |- _ => apply rd_zc_config_ok in H; destruct H as (mc & Ems & -> & _ & Hoc & Hdc) end.
  match goal with H : rd_zc_dist _ _ _ = Ok _ |- _ => apply rd_zc_dist_ok in H; destruct H as (md & -> & -> & Hwd & Hod & Hdd) end.
  specialize (Hwd eq_refl).
  match goal with H : total_sol_debt _ = Some _ |- _ => unfold total_sol_debt in H; apply checked_sub_some in H; destruct H as [-> Hle] end.
  proj_simpl.
  apply grow_and_fund_spec in H. destruct H as (payer & amt & G).
  lazymatch goal with
  | _ : data (get W (mkey mc)) = DConfig ?c, _ : data (get W (mkey md)) = DDist ?d ?tail |- _ =>
    exists c, (mkey md), d, tail, payer, amt end.
  constructor; try assumption.
  - exists mc, md. eexists. split; [exact Ems|]. split; [reflexivity|]. do 3 (split; [assumption|]). exact G.
  - split; assumption.
Qed.

Section FinalizeRewardsCorollaries.
  Variables (cx : ctx) (W W' : world) (c : rd_config) (dk : key) (d : dist) (tail : list N) (payer : key) (amt : N).
  Hypothesis F : finalize_rewards_facts cx W W' c dk d tail payer amt.
  Let k_ := d_total_contributors d.
  Let new_len := alen (get W dk) + ceil8 k_.

  Lemma finalize_rewards_grow :
    exists ms, grow_facts cx W dk (fr_dist d tail) tail (ceil8 k_) (sat_mul two64 (d_relay d) k_) ms payer amt W'.
  Proof. destruct (fr_metas _ _ _ _ _ _ _ _ _ F) as (mc & md & rest & _ & _ & _ & _ & _ & G). eauto. Qed.

  (* exact new state of the distribution: old tail ++ zeros, new length, flag and bitmap window *)
  Theorem finalize_rewards_dist_after :
    data (get W' dk) = DDist (fr_dist d tail) (tail ++ zeros (ceil8 k_)) /\ alen (get W' dk) = new_len /\
    d_rew_start (fr_dist d tail) = N.of_nat (length tail) /\
    d_rew_end (fr_dist d tail) = sat_add two32 (N.of_nat (length tail)) (ceil8 k_) /\
    (forall i, range_bit (tail ++ zeros (ceil8 k_)) (N.of_nat (length tail)) i = false).
  Proof.
    destruct finalize_rewards_grow as (ms & G). destruct (grow_dist_after _ _ _ _ _ _ _ _ _ _ _ G) as (A & B & _).
    repeat split; try assumption. intros i. rewrite range_bit_app_zeros. apply range_bit_beyond. lia.
  Qed.
  (* exact prepayment: fee x contributors on top of the rent top-up (saturating u64 arithmetic as coded) *)
  Theorem finalize_rewards_amount :
    amt = sat_add two64 (sat_mul two64 (d_relay d) k_) (rent new_len - lamports (get W dk)) /\
    (d_relay d * k_ + (rent new_len - lamports (get W dk)) < two64 -> amt = d_relay d * k_ + (rent new_len - lamports (get W dk))) /\
    amt <= lamports (get W payer).
  Proof.
    destruct finalize_rewards_grow as (ms & G). split; [exact (gf_amt _ _ _ _ _ _ _ _ _ _ _ G)|]. split.
    - intros Hlt. rewrite (gf_amt _ _ _ _ _ _ _ _ _ _ _ G). rewrite sat_mul_exact by lia. apply sat_add_exact. assumption.
    - exact (gf_payer_funds _ _ _ _ _ _ _ _ _ _ _ G).
  Qed.
  Theorem finalize_rewards_payer_after : payer <> dk -> get W' payer = (get W payer) <| lamports := lamports (get W payer) - amt |>.
  Proof. destruct finalize_rewards_grow as (ms & G). apply (grow_payer_after _ _ _ _ _ _ _ _ _ _ _ G). Qed.
  Theorem finalize_rewards_frame k : k <> payer -> k <> dk -> get W' k = get W k.
  Proof. destruct finalize_rewards_grow as (ms & G). apply (grow_frame _ _ _ _ _ _ _ _ _ _ _ _ G). Qed.

  (* the cover is established unconditionally (no u64 saturation in fee x contributors + rent) *)
  Theorem finalize_rewards_cover_after :
    d_relay d * k_ + rent new_len < two64 -> covered (get W' dk) (fr_dist d tail).
  Proof.
    intros Hns. destruct finalize_rewards_grow as (ms & G).
    destruct (grow_dist_after _ _ _ _ _ _ _ _ _ _ _ G) as (A & _ & _ & L1 & L2).
    pose proof (gf_amt _ _ _ _ _ _ _ _ _ _ _ G) as Ha. fold new_len in Ha.
    rewrite sat_mul_exact, sat_add_exact in Ha by lia.
    unfold covered. rewrite A. fold new_len.
    assert (outstanding_relay (fr_dist d tail) <= d_relay d * k_) as Hout.
    { unfold outstanding_relay, fr_dist. proj_simpl. cbn [d_rewards_final RecordSet.set].
      etransitivity; [apply sat_mul_le|]. fold k_. nia. }
    destruct (key_eq_dec payer dk) as [E|E].
    - (* the payer cannot be the (program-owned) distribution account unless nothing is transferred *)
      subst payer. rewrite (L2 eq_refl).
      destruct (gf_payer_system _ _ _ _ _ _ _ _ _ _ _ G) as [Ho|Hz].
      + pose proof (fr_dist_owner _ _ _ _ _ _ _ _ _ F) as Ho'. rewrite Ho in Ho'. discriminate.
      + lia.
    - rewrite (L1 E). lia.
  Qed.
End FinalizeRewardsCorollaries.

(* ================================================================================================ enable write-off *)
Definition ew_dist (d : dist) (tail : list N) : dist :=
  d <| d_writeoff_enabled := true |> <| d_wo_start := N.of_nat (length tail) |>
    <| d_wo_end := sat_add two32 (N.of_nat (length tail)) (ceil8 (d_total_validators d)) |>.

Record enable_write_off_facts (cx : ctx) (W W' : world) (c : rd_config) (dk : key) (d : dist) (tail : list N) (payer : key) (amt : N)
  : Prop := {
  ew_metas : exists mc md mp rest, cx_metas cx = mc :: md :: mp :: rest /\ mkey md = dk /\ mwritable md = true /\ mkey mp = payer /\
             owner (get W (mkey mc)) = KRd /\ data (get W (mkey mc)) = DConfig c;
  ew_unpaused : c_paused c = false;
  ew_activated : writeoff_activated c = true;
  ew_dist_owner : owner (get W dk) = KRd;
  ew_dist_data : data (get W dk) = DDist d tail;
  ew_not_enabled : d_writeoff_enabled d = false;
  ew_debt_final : d_debt_final d = true;
  ew_extra : ceil8 (d_total_validators d) <= MAX_REALLOC;
  ew_amt : amt = rent (alen (get W dk) + ceil8 (d_total_validators d)) - (lamports (get W dk) - outstanding_relay d);
  ew_payer_signer : is_signer (cx_metas cx) payer = true;
  ew_payer_funds : amt <= lamports (get W payer);
  ew_payer_system : owner (get W payer) = KSystem \/ amt = 0;
  ew_payer_nodata : payer <> dk -> alen (get W payer) = 0;
  ew_now : now W' = now W;
  ew_effect : forall k, get W' k =
     (if key_eqb dk k then grown (get W dk) (ew_dist d tail) tail (ceil8 (d_total_validators d)) else get W k)
       <| lamports := lamports (get W k) - (if key_eqb payer k then amt else 0) + (if key_eqb dk k then amt else 0) |>
}.

Theorem rd_enable_write_off_spec cx W W' : rd_enable_write_off cx W = Ok W' ->
  exists c dk d tail payer amt, enable_write_off_facts cx W W' c dk d tail payer amt.
Proof.
  unfold rd_enable_write_off. intros H. inv_all. norm_bool.
  match goal with H : rd_zc_config _ _ _ = Ok _ |- _ => apply rd_zc_config_ok in H; destruct H as (mc & Ems & -> & _ & Hoc & Hdc) end.
  match goal with H : rd_zc_dist _ _ _ = Ok _ |- _ => apply rd_zc_dist_ok in H; destruct H as (md & -> & -> & Hwd & Hod & Hdd) end.
  specialize (Hwd eq_refl).
  match goal with H : put_dist _ _ _ _ _ = Ok _ |- _ => apply put_dist_spec in H; destruct H as (Hw1 & Ho1 & Hn1 & Hg1) end.
  match goal with H : resize _ _ _ _ = Ok _ |- _ => apply resize_spec in H; destruct H as (Hr & _ & _ & Hn2 & Hg2) end.
  match goal with H : next_any _ _ = Ok _ |- _ => apply next_any_ok in H; subst end.
  apply sys_transfer_spec in H. destruct H as (Hsys & Hwp & _ & Hsig & Hal & Hle & Hown & Hn3 & Hg3).
  rewrite !Hg2, !Hg1, !key_eqb_refl in *. cbn [alen lamports owner RecordSet.set] in *. proj_simpl.
  destruct Hsig as [Hsig|Hsig]; [|unfold pda_signs in Hsig; cbn in Hsig; discriminate].
  lazymatch goal with
  | _ : data (get W (mkey mc)) = DConfig ?c, _ : data (get W (mkey md)) = DDist ?d ?tail |- _ =>
    exists c, (mkey md), d, tail, (mkey m), (rent (alen (get W (mkey md)) + ceil8 (d_total_validators d)) - (lamports (get W (mkey md)) - outstanding_relay d)) end.
  constructor; try assumption; try reflexivity.
  - exists mc, md, m. eexists. repeat split; eauto.
  - cbn in Hr. lia.
  - destruct (key_eqb_spec (mkey md) (mkey m)) as [Eq|Eq]; [rewrite <- Eq|]; exact Hle.
  - destruct (key_eqb_spec (mkey md) (mkey m)) as [Eq|Eq]; [rewrite <- Eq|]; exact Hown.
  - intros Hne. rewrite (key_eqb_neq (mkey md) (mkey m)) in Hal by congruence. exact Hal.
  - lia.
  - intros k. rewrite Hg3, Hg2, Hg1. unfold grown, ew_dist.
    destruct (key_eqb_spec (mkey md) k) as [->|Hne]; apply acct_ext; reflexivity.
Qed.

Section EnableWriteOffCorollaries.
  Variables (cx : ctx) (W W' : world) (c : rd_config) (dk : key) (d : dist) (tail : list N) (payer : key) (amt : N).
  Hypothesis F : enable_write_off_facts cx W W' c dk d tail payer amt.
  Let extra := ceil8 (d_total_validators d).
  Let E := ew_effect _ _ _ _ _ _ _ _ _ F.

  Theorem enable_write_off_dist_after :
    data (get W' dk) = DDist (ew_dist d tail) (tail ++ zeros extra) /\ alen (get W' dk) = alen (get W dk) + extra /\
    outstanding_relay (ew_dist d tail) = outstanding_relay d /\
    d_wo_start (ew_dist d tail) = N.of_nat (length tail) /\ d_wo_end (ew_dist d tail) = sat_add two32 (N.of_nat (length tail)) extra /\
    (forall i, range_bit (tail ++ zeros extra) (N.of_nat (length tail)) i = false) /\
    (payer <> dk -> lamports (get W' dk) = lamports (get W dk) + amt) /\ (payer = dk -> lamports (get W' dk) = lamports (get W dk)).
  Proof.
    rewrite E, key_eqb_refl. cbn. repeat split.
    - intros i. rewrite range_bit_app_zeros. apply range_bit_beyond. lia.
    - intros Hne. rewrite (key_eqb_neq payer dk) by assumption. lia.
    - intros ->. rewrite key_eqb_refl. pose proof (ew_payer_funds _ _ _ _ _ _ _ _ _ F). lia.
  Qed.
  Theorem enable_write_off_payer_after : payer <> dk -> get W' payer = (get W payer) <| lamports := lamports (get W payer) - amt |>.
  Proof. intros Hne. rewrite E, key_eqb_refl, (key_eqb_neq dk payer) by congruence. apply acct_ext; cbn; try reflexivity. lia. Qed.
  Theorem enable_write_off_frame k : k <> payer -> k <> dk -> get W' k = get W k.
  Proof. intros H1 H2. rewrite E, (key_eqb_neq dk k), (key_eqb_neq payer k) by congruence. apply acct_ext; cbn; try reflexivity. lia. Qed.

  (* cover: exactly what is needed is that the prepaid relay fees are still in the account (weaker than cover-before) *)
  Theorem enable_write_off_cover_after :
    outstanding_relay d <= lamports (get W dk) -> covered (get W' dk) (ew_dist d tail).
  Proof.
    intros Hout. destruct enable_write_off_dist_after as (_ & A & O & _ & _ & _ & L1 & L2).
    unfold covered. rewrite A, O. pose proof (ew_amt _ _ _ _ _ _ _ _ _ F) as Ha. fold extra in Ha.
    destruct (key_eq_dec payer dk) as [Eq|Eq].
    - subst payer. rewrite (L2 eq_refl). destruct (ew_payer_system _ _ _ _ _ _ _ _ _ F) as [Ho|Hz].
      + pose proof (ew_dist_owner _ _ _ _ _ _ _ _ _ F) as Ho'. rewrite Ho in Ho'. discriminate.
      + lia.
    - rewrite (L1 Eq). lia.
  Qed.
  Corollary enable_write_off_cover_preserved : covered (get W dk) d -> covered (get W' dk) (ew_dist d tail).
  Proof. intros H. apply enable_write_off_cover_after. unfold covered in H. lia. Qed.
  (* and it is necessary: with part of the prepaid fees missing the account ends up short by exactly the missing part *)
  Theorem enable_write_off_cover_needs : payer <> dk ->
    lamports (get W dk) < outstanding_relay d -> ~ covered (get W' dk) (ew_dist d tail).
  Proof.
    intros Hne Hlt. destruct enable_write_off_dist_after as (_ & A & O & _ & _ & _ & L1 & _).
    unfold covered. rewrite A, O, (L1 Hne). pose proof (ew_amt _ _ _ _ _ _ _ _ _ F) as Ha. fold extra in Ha. lia.
  Qed.
End EnableWriteOffCorollaries.

(* ================================================================================================ finalize debt *)
Definition fd_dist (d : dist) (tail : list N) : dist :=
  d <| d_debt_final := true |> <| d_debt_start := N.of_nat (length tail) |>
    <| d_debt_end := sat_add two32 (N.of_nat (length tail)) (ceil8 (d_total_validators d)) |>.

Record finalize_debt_facts (cx : ctx) (W W' : world) (c : rd_config) (dk : key) (d : dist) (tail : list N) : Prop := {
  fd_metas : exists mc ma md rest, cx_metas cx = mc :: ma :: md :: rest /\ mkey md = dk /\ mwritable md = true /\
             owner (get W (mkey mc)) = KRd /\ data (get W (mkey mc)) = DConfig c /\ msigner ma = true /\ mkey ma = c_debt_accountant c;
  fd_unpaused : c_paused c = false;
  fd_dist_owner : owner (get W dk) = KRd;
  fd_dist_data : data (get W dk) = DDist d tail;
  fd_not_final : d_debt_final d = false;
  fd_calc_allowed : calc_allowed d W = true;
  fd_debt_ok : d_uncollectible d <= d_total_debt d;
  fd_now : now W' = now W;
  (* no collectible debt: only the flag is set *)
  fd_zero : d_total_debt d - d_uncollectible d = 0 ->
            forall k, get W' k = if key_eqb dk k then (get W dk) <| data := DDist (d <| d_debt_final := true |>) tail |> else get W k;
  (* otherwise the debt bitmap is appended and rent topped up *)
  fd_nonzero : d_total_debt d - d_uncollectible d <> 0 ->
            exists payer amt ms, grow_facts cx W dk (fd_dist d tail) tail (ceil8 (d_total_validators d)) 0 ms payer amt W'
}.

Theorem rd_finalize_debt_spec cx W W' : rd_finalize_debt cx W = Ok W' ->
  exists c dk d tail, finalize_debt_facts cx W W' c dk d tail.
Proof.
  unfold rd_finalize_debt. intros H. inv_all. norm_bool.
  match goal with H : rd_verified _ _ _ _ = Ok _ |- _ =>
    apply rd_verified_ok in H; destruct H as (mc & ma & Ems & -> & _ & Hoc & Hdc & Hsa & Hka) end.
  match goal with H : rd_zc_dist _ _ _ = Ok _ |- _ => apply rd_zc_dist_ok in H; destruct H as (md & -> & -> & Hwd & Hod & Hdd) end.
  specialize (Hwd eq_refl).
  match goal with H : total_sol_debt _ = Some _ |- _ => unfold total_sol_debt in H; apply checked_sub_some in H; destruct H as [-> Hle] end.
  proj_simpl.
  lazymatch goal with
  | _ : data (get W (mkey mc)) = DConfig ?c, _ : data (get W (mkey md)) = DDist ?d ?tail |- _ => exists c, (mkey md), d, tail end.
  destruct (N.eqb_spec (d_total_debt d - d_uncollectible d) 0) as [Ez|Enz].
  - apply put_dist_spec in H. destruct H as (_ & _ & Hn & Hg).
    constructor; try assumption.
    + exists mc, ma, md. eexists. repeat split; eauto.
    + intros _. exact Hg.
    + intros X. contradiction.
  - apply grow_and_fund_spec in H. destruct H as (payer & amt & G).
    constructor; try assumption.
    + exists mc, ma, md. eexists. repeat split; eauto.
    + exact (gf_now _ _ _ _ _ _ _ _ _ _ _ G).
    + intros X. contradiction.
    + intros _. eauto.
Qed.

Section FinalizeDebtCorollaries.
  Variables (cx : ctx) (W W' : world) (c : rd_config) (dk : key) (d : dist) (tail : list N).
  Hypothesis F : finalize_debt_facts cx W W' c dk d tail.
  Let extra := ceil8 (d_total_validators d).

  Theorem finalize_debt_zero_after : d_total_debt d - d_uncollectible d = 0 ->
    data (get W' dk) = DDist (d <| d_debt_final := true |>) tail /\ alen (get W' dk) = alen (get W dk) /\
    (forall k, lamports (get W' k) = lamports (get W k)) /\ (forall k, k <> dk -> get W' k = get W k).
  Proof.
    intros Hz. pose proof (fd_zero _ _ _ _ _ _ _ F Hz) as E. repeat split.
    - rewrite E, key_eqb_refl. reflexivity.
    - rewrite E, key_eqb_refl. reflexivity.
    - intros k. rewrite E. destruct (key_eqb_spec dk k) as [->|]; reflexivity.
    - intros k Hne. rewrite E, key_eqb_neq by congruence. reflexivity.
  Qed.
  Theorem finalize_debt_nonzero_after : d_total_debt d - d_uncollectible d <> 0 ->
    exists payer amt,
      amt = sat_add two64 0 (rent (alen (get W dk) + extra) - lamports (get W dk)) /\
      (rent (alen (get W dk) + extra) < two64 -> amt = rent (alen (get W dk) + extra) - lamports (get W dk)) /\
      data (get W' dk) = DDist (fd_dist d tail) (tail ++ zeros extra) /\ alen (get W' dk) = alen (get W dk) + extra /\
      (forall i, range_bit (tail ++ zeros extra) (N.of_nat (length tail)) i = false) /\
      (payer <> dk -> lamports (get W' dk) = lamports (get W dk) + amt /\
                      get W' payer = (get W payer) <| lamports := lamports (get W payer) - amt |>) /\
      (payer = dk -> lamports (get W' dk) = lamports (get W dk)) /\
      (forall k, k <> payer -> k <> dk -> get W' k = get W k).
  Proof.
    intros Hnz. destruct (fd_nonzero _ _ _ _ _ _ _ F Hnz) as (payer & amt & ms & G).
    destruct (grow_dist_after _ _ _ _ _ _ _ _ _ _ _ G) as (A & B & _ & L1 & L2).
    exists payer, amt. split; [exact (gf_amt _ _ _ _ _ _ _ _ _ _ _ G)|]. split.
    { intros Hlt. rewrite (gf_amt _ _ _ _ _ _ _ _ _ _ _ G). apply sat_add_exact. fold extra. lia. }
    repeat split; try assumption.
    - intros i. rewrite range_bit_app_zeros. apply range_bit_beyond. lia.
    - apply L1; assumption.
    - apply (grow_payer_after _ _ _ _ _ _ _ _ _ _ _ G); assumption.
    - intros k H1 H2. apply (grow_frame _ _ _ _ _ _ _ _ _ _ _ _ G); assumption.
  Qed.

  (* cover.  Zero-debt branch: nothing but the flag changes, so the cover is preserved. *)
  Theorem finalize_debt_cover_after_zero : d_total_debt d - d_uncollectible d = 0 ->
    covered (get W dk) d -> covered (get W' dk) (d <| d_debt_final := true |>).
  Proof.
    intros Ez Hc. destruct (finalize_debt_zero_after Ez) as (_ & B & C & _). unfold covered in *.
    rewrite B, C. exact Hc.
  Qed.
  (* Bitmap branch: debt is finalized before rewards on every path (finalize-rewards requires d_debt_final), so no relay
     fees are outstanding yet; then the top-up to rent(new size) establishes the cover unconditionally. *)
  Theorem finalize_debt_cover_after_nonzero : d_total_debt d - d_uncollectible d <> 0 ->
    d_rewards_final d = false -> rent (alen (get W dk) + extra) < two64 -> covered (get W' dk) (fd_dist d tail).
  Proof.
    intros Enz Hrf Hns. destruct (fd_nonzero _ _ _ _ _ _ _ F Enz) as (payer & amt & ms & G).
    destruct (grow_dist_after _ _ _ _ _ _ _ _ _ _ _ G) as (A & _ & _ & L1 & L2).
    pose proof (gf_amt _ _ _ _ _ _ _ _ _ _ _ G) as Hg. fold extra in Hg. rewrite sat_add_exact in Hg by lia.
    unfold covered, outstanding_relay, fd_dist. proj_simpl. rewrite Hrf, A. fold extra.
    destruct (key_eq_dec payer dk) as [Eq|Eq].
    - rewrite (L2 Eq). subst payer. destruct (gf_payer_system _ _ _ _ _ _ _ _ _ _ _ G) as [Ho|Hz0].
      + pose proof (fd_dist_owner _ _ _ _ _ _ _ F) as Ho'. rewrite Ho in Ho'. discriminate.
      + lia.
    - rewrite (L1 Eq). lia.
  Qed.
End FinalizeDebtCorollaries.

(* ================================================================================================ non-vacuity *)
Definition ex_rewards : list leafdata := [LReward (KUser 21) 400000000 0; LReward (KUser 22) 600000000 100000000].
Definition ex_dist5r : dist := ex_dist5 <| d_rewards_root := tree_root PRE_REWARD ex_rewards |> <| d_total_contributors := 2 |>.
Definition ex_grow_world (d : dist) (extra_lamports : N) : world := ex_world [
  (KRdConfig, ex_acct (rent LEN_CONFIG_ALLOC) LEN_CONFIG_ALLOC (DConfig ex_cfg));
  (KRdDist 5, ex_acct (rent (LEN_DIST + 1) + extra_lamports) (LEN_DIST + 1) (DDist d [0]));
  (KUser 1, ex_wallet 1000000)].

Example rd_finalize_rewards_nonvacuous :
  let cx := ex_cx KRd [mk KRdConfig false false; mk (KRdDist 5) false true; mk (KUser 1) true true; mk KSystem false false] in
  exists W', rd_finalize_rewards cx (ex_grow_world ex_dist5r 0) = Ok W' /\
    get W' (KRdDist 5) = ex_acct (rent (LEN_DIST + 2) + 2 * 6000) (LEN_DIST + 2) (DDist (fr_dist ex_dist5r [0]) [0; 0]) /\
    lamports (get W' (KUser 1)) = 1000000 - (2 * 6000 + 6960) /\
    covered (get W' (KRdDist 5)) (fr_dist ex_dist5r [0]) /\
    outstanding_relay (fr_dist ex_dist5r [0]) = 12000.
Proof. eexists. split; [vm_compute; reflexivity|]. unfold covered. vm_compute. repeat split; discriminate. Qed.

Example rd_enable_write_off_nonvacuous :
  let cx := ex_cx KRd [mk KRdConfig false false; mk (KRdDist 5) false true; mk (KUser 1) true true; mk KSystem false false] in
  let d := fr_dist ex_dist5r [0] in     (* rewards finalized, 2 x 6000 relay lamports prepaid and still in the account *)
  exists W', rd_enable_write_off cx (ex_grow_world d 12000) = Ok W' /\
    get W' (KRdDist 5) = ex_acct (rent (LEN_DIST + 2) + 12000) (LEN_DIST + 2) (DDist (ew_dist d [0]) [0; 0]) /\
    lamports (get W' (KUser 1)) = 1000000 - 6960 /\
    covered (get W' (KRdDist 5)) (ew_dist d [0]).
Proof. eexists. split; [vm_compute; reflexivity|]. unfold covered. vm_compute. repeat split; discriminate. Qed.

Example rd_finalize_debt_nonvacuous :
  let cx := ex_cx KRd [mk KRdConfig false false; mk (KUser 2) true false; mk (KRdDist 5) false true; mk (KUser 1) true true;
                       mk KSystem false false] in
  let d := ex_dist5 <| d_debt_final := false |> <| d_debt_end := 0 |> in
  let d0 := d <| d_total_debt := 0 |> in
  (exists W', rd_finalize_debt cx (ex_grow_world d 0) = Ok W' /\
     get W' (KRdDist 5) = ex_acct (rent (LEN_DIST + 2)) (LEN_DIST + 2) (DDist (fd_dist d [0]) [0; 0]) /\
     lamports (get W' (KUser 1)) = 1000000 - 6960 /\ d_debt_start (fd_dist d [0]) = 1 /\ d_debt_end (fd_dist d [0]) = 2) /\
  (exists W', rd_finalize_debt cx (ex_grow_world d0 0) = Ok W' /\
     get W' (KRdDist 5) = ex_acct (rent (LEN_DIST + 1)) (LEN_DIST + 1) (DDist (d0 <| d_debt_final := true |>) [0]) /\
     lamports (get W' (KUser 1)) = 1000000).
Proof. split; eexists; (split; [vm_compute; reflexivity|]); vm_compute; repeat split. Qed.

(* The unconditional statement "cover before => cover after" is FALSE for finalize-debt in worlds where rewards were
   finalized before the debt (d_rewards_final = true, d_debt_final = false; no instruction sequence produces such a
   distribution because finalize-rewards requires d_debt_final): the top-up only restores bare rent of the new size. *)
Example finalize_debt_cover_without_invariant_refuted :
  let cx := ex_cx KRd [mk KRdConfig false false; mk (KUser 2) true false; mk (KRdDist 5) false true; mk (KUser 1) true true;
                       mk KSystem false false] in
  let d := ex_dist5r <| d_debt_final := false |> <| d_debt_end := 0 |> <| d_rewards_final := true |> in
  let W := ex_grow_world d 12000 in
  covered (get W (KRdDist 5)) d /\
  exists W', rd_finalize_debt cx W = Ok W' /\ data (get W' (KRdDist 5)) = DDist (fd_dist d [0]) [0; 0] /\
             ~ covered (get W' (KRdDist 5)) (fd_dist d [0]).
Proof. split; [unfold covered; vm_compute; discriminate|]. eexists. split; [vm_compute; reflexivity|]. split; [vm_compute; reflexivity|].
  unfold covered. vm_compute. intros H. apply H. reflexivity. Qed.
