(* revenue-distribution: CommunityBurnRateParameters (state/program_config/community_burn_rate.rs), the
   ConfigureProgram arm that reconfigures it and the stamping in try_initialize_distribution (processor.rs),
   transcribed as coded.  Executable definitions only. *)
From DZ Require Import Base Generated.

Definition BR_MAX : N := G_UNIT_SHARE32_MAX.        (* UnitShare32::MAX, read from the compiled crate *)

(* #[repr(C)] { limit, dz_epochs_to_increasing, dz_epochs_to_limit, cached_slope_numerator,
                cached_slope_denominator, cached_next_burn_rate } : 6 x u32 *)
Record params := mkP { limit : N; to_inc : N; to_lim : N; num : N; den : N; next : N }.
Definition br_default : params := mkP 0 0 0 0 0 0.  (* Default::default() / zeroed program config *)
Definition params_eqb (a b : params) : bool :=
  N.eqb (limit a) (limit b) && N.eqb (to_inc a) (to_inc b) && N.eqb (to_lim a) (to_lim b) &&
  N.eqb (num a) (num b) && N.eqb (den a) (den b) && N.eqb (next a) (next b).

(* checked_update: three guards, then limit/epochs/slope are overwritten; cached_next_burn_rate is kept *)
Definition br_update (p : params) (nl ni nlim : N) : option params :=
  if nl <? next p then None else
  if ni =? 0 then None else
  if nlim <? ni then None else
  Some {| limit := nl; to_inc := ni; to_lim := nlim;
          num := sat_sub nl (next p);                          (* UnitShare32::saturating_sub *)
          den := sat_add two32 (sat_sub nlim ni) 1;            (* u32 saturating_sub, saturating_add(1) *)
          next := next p |}.

(* new: initial rate must be non-zero; then checked_update on { cached_next_burn_rate: initial, ..Default } *)
Definition br_new (init lim ni nlim : N) : option params :=
  if init =? 0 then None else br_update (mkP 0 0 0 0 0 init) lim ni nlim.

(* checked_compute: returns (the rate stamped on the new distribution, the parameter block afterwards).
   None = the call fails (`?` on None) or would panic (division by zero); the processor then fails. *)
Definition br_compute (p : params) : option (N * params) :=
  if next p =? 0 then None else                                 (* next_burn_rate()? *)
  let r := next p in
  let tl := sat_sub (to_lim p) 1 in
  let ti := sat_sub (to_inc p) 1 in
  if tl =? 0 then Some (r, mkP (limit p) ti tl (num p) (den p) (limit p))
  else if ti =? 0 then
    match checked_add two64 (sat_mul two64 (next p) (den p)) (num p) with
    | None => None
    | Some s =>
      if den p =? 0 then None else                              (* saturating_div by 0 panics *)
      let nb := s / den p in
      if BR_MAX <? nb then None else                            (* BurnRate::try_from(u64) *)
      Some (r, mkP (limit p) ti tl (num p) (den p) (N.min nb (limit p)))
    end
  else Some (r, mkP (limit p) ti tl (num p) (den p) (next p)).

(* processor.rs, ConfigureProgram / ProgramConfiguration::CommunityBurnRateParameters.
   e = program_config.next_completed_dz_epoch, p = the block stored in the program config. *)
Definition configure_burn_rate (e : N) (p : params) (lim ni nlim : N) (initial : option N) : option params :=
  if BR_MAX <? lim then None else                               (* BurnRate::new(limit) *)
  match initial with
  | Some i =>
      if negb (e =? 0) then None else                           (* next_completed_dz_epoch != 0 *)
      if BR_MAX <? i then None else                             (* BurnRate::new(initial_rate) *)
      br_new i lim ni nlim
  | None => br_update p lim ni nlim
  end.

(* try_initialize_distribution: next_completed_dz_epoch.saturating_add_duration(1) *)
Definition epoch_succ (e : N) : N := sat_add two64 e 1.

(* operations and observable results shared by model, specification, monitor and harness *)
Inductive bop := BCompute | BUpdate (lim ni nlim : N) (initial : option N).
Inductive bres := RRate (r : N) | RAcc | RRej | RFail.
Definition bres_eqb (a b : bres) : bool :=
  match a, b with
  | RRate x, RRate y => N.eqb x y
  | RAcc, RAcc | RRej, RRej | RFail, RFail => true
  | _, _ => false end.
(* instruction data carries u32 fields *)
Definition bop_okb (o : bop) : bool :=
  match o with
  | BCompute => true
  | BUpdate l ti tl i => (l <? two32) && (ti <? two32) && (tl <? two32) &&
                         match i with Some r => r <? two32 | None => true end
  end.

Definition mstate := (N * params)%type.              (* (next_completed_dz_epoch, parameter block) *)
Definition m_init : mstate := (0, br_default).
Definition br_step (s : mstate) (o : bop) : mstate * bres :=
  let '(e, p) := s in
  match o with
  | BCompute => match br_compute p with
                | Some (r, p') => ((epoch_succ e, p'), RRate r)
                | None => (s, RFail) end
  | BUpdate l ti tl i => match configure_burn_rate e p l ti tl i with
                         | Some p' => ((e, p'), RAcc)
                         | None => (s, RRej) end
  end.

Fixpoint run {S} (step : S -> bop -> S * bres) (s : S) (ops : list bop) : list bres :=
  match ops with [] => [] | o :: tl => let '(s', r) := step s o in r :: run step s' tl end.
Fixpoint rates (l : list bres) : list N :=
  match l with [] => [] | RRate r :: tl => r :: rates tl | _ :: tl => rates tl end.

(* ---------------------------------------------------------------- the property as a specification
   A configuration remembers the rate r0 that was next when it was accepted, the limit, the two epoch
   counts and how many distributions k were created since.  The rate of the k-th distribution is closed-form. *)
Record cfg := mkC { c_r0 : N; c_lim : N; c_ti : N; c_tl : N; c_k : N }.
Definition c_step (c : cfg) : N := (c_lim c - c_r0 c) / (c_tl c - c_ti c + 1).
Definition ramp (c : cfg) : N :=
  if c_k c <? c_ti c then c_r0 c                                          (* static *)
  else if c_k c <? c_tl c then c_r0 c + (c_k c - c_ti c + 1) * c_step c   (* one fixed step per epoch *)
  else c_lim c.                                                           (* limit from epoch c_tl on *)
Definition bump (c : cfg) : cfg := mkC (c_r0 c) (c_lim c) (c_ti c) (c_tl c) (c_k c + 1).
Definition spec_next (c : option cfg) : N := match c with Some c => ramp c | None => 0 end.
Definition args_ok (floor l ti tl : N) : bool :=
  (floor <=? l) && (l <=? BR_MAX) && negb (ti =? 0) && (ti <=? tl).

Definition sstate := (N * option cfg)%type.          (* (number of distributions, configuration if a rate was ever set) *)
Definition s_init : sstate := (0, None).
Definition spec_step (s : sstate) (o : bop) : sstate * bres :=
  let '(e, c) := s in
  match o with
  | BCompute => match c with
                | None => (s, RFail)
                | Some c => ((epoch_succ e, Some (bump c)), RRate (ramp c)) end
  | BUpdate l ti tl None =>
      if args_ok (spec_next c) l ti tl
      then ((e, match c with Some c0 => Some (mkC (ramp c0) l ti tl 0) | None => None end), RAcc)
      else (s, RRej)
  | BUpdate l ti tl (Some r) =>
      if (e =? 0) && negb (r =? 0) && args_ok r l ti tl
      then ((e, Some (mkC r l ti tl 0)), RAcc) else (s, RRej)
  end.

(* ---------------------------------------------------------------- correspondence and monitor
   A case is (initial block, initial epoch, trace); a trace item is (op, observed result, observed block, observed epoch). *)
Definition item := (bop * bres * params * N)%type.
Definition case := (params * N * list item)%type.

Fixpoint corr_go (s : mstate) (tr : list item) (i : N) : option (N * (bres * params * N)) :=
  match tr with
  | [] => None
  | (o, r, blk, e) :: tl =>
      if negb (bop_okb o) then Some (i, (RFail, br_default, 0)) else
      let '((e', p'), r') := br_step s o in
      if bres_eqb r r' && params_eqb blk p' && N.eqb e e' then corr_go (e', p') tl (i + 1)
      else Some (i, (r', p', e'))
  end.
(* the model predicts every observed result, parameter block and epoch; None = agreement *)
Definition corr_C14 (c : case) : option (N * (bres * params * N)) :=
  let '(p0, e0, tr) := c in corr_go (e0, p0) tr 0.

(* monitor state: specification state, previously observed block, last assigned rate *)
Definition mon_check (s : sstate) (prev : params) (last : N) (it : item) : N :=
  let '(o, r, blk, e) := it in
  let '((e', c'), r') := spec_step s o in
  if negb (bres_eqb r r') then 1                                  (* result / acceptance condition / phase value *)
  else if negb (N.eqb e e') then 2                                (* distributions counted *)
  else match r, o with
  | RRate x, _ =>
      if negb (last <=? x) then 3                                 (* never decreases *)
      else if negb ((x <=? limit prev) && (limit prev <=? BR_MAX)) then 4   (* never passes the limit <= 100% *)
      else if negb (N.eqb (limit blk) (limit prev)) then 5
      else if negb (N.eqb (next blk) (spec_next c')) then 6       (* follows the ramp *)
      else 0
  | RAcc, BUpdate l ti tl _ =>
      if negb (N.eqb (limit blk) l && N.eqb (to_inc blk) ti && N.eqb (to_lim blk) tl) then 7
      else if negb (N.eqb (next blk) (spec_next c')) then 8
      else if negb (next blk <=? limit blk) then 9
      else 0
  | _, _ => if params_eqb blk prev then 0 else 10                 (* a rejected operation changes nothing *)
  end.
Fixpoint mon_go (s : sstate) (prev : params) (last : N) (tr : list item) (i : N) : option (N * N) :=
  match tr with
  | [] => None
  | it :: tl =>
      match mon_check s prev last it with
      | 0 => let '(o, r, blk, e) := it in
             mon_go (fst (spec_step s o)) blk (match r with RRate x => x | _ => last end) tl (i + 1)
      | code => Some (i, code)
      end
  end.
(* the property itself, run on the implementation's trace alone; None = accepted, Some (step, clause) otherwise *)
Definition mon_C14 (c : case) : option (N * N) :=
  let '(p0, e0, tr) := c in
  if params_eqb p0 br_default && N.eqb e0 0 then mon_go s_init p0 0 tr 0 else Some (0, 11).

(* coverage classification of a trace (measured by the check, not trusted): which phase each compute was in *)
Definition phase_of (p : params) : N :=               (* mode(): 0 static, 1 increasing, 2 limit *)
  if negb (to_inc p =? 0) then 0 else if negb (to_lim p =? 0) then 1 else 2.
