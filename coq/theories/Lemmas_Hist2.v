(* Invariants over arbitrary histories, part 2: C11 — "from rewards finalization onward a distribution account holds at
   least the rent-exempt minimum for its current size plus the relay fee for every reward leaf not yet distributed,
   whatever other instructions run in between".  Index at the end of the file. *)
From DZ Require Import Base Keys Merkle BurnRate Shares Swap_Ring State World SwapDeq RD Passport Swap Exec
  Lemmas_Merkle Lemmas_RdGuards Lemmas_Canon Lemmas_RdSpecs5 Lemmas_Hist.

(* ------------------------------------------------------------------------------------------------------------------ *)
(* 1. the invariant                                                                                                   *)

(* the clause of the property *)
Definition Inv_C11 (W : world) : Prop :=
  forall k a d t, a = get W k -> owner a = KRd -> data a = DDist d t -> d_rewards_final d = true ->
    rent (alen a) + d_relay d * (d_total_contributors d - d_distributed_count d) <= lamports a.

(* what is inductive: per typed account
   - the relay fee of the config and of every distribution is a u32, the contributor count is a u32
     (so fee x count never saturates and the u32 distributed-count never wraps while leaves remain);
   - lifecycle: rewards final => debt final (finalize-debt, which tops up to bare rent only, cannot follow);
   - size: the account grew at most MAX_REALLOC per lifecycle flag (so rent never approaches 2^64);
   - the cover itself, with the saturating product the program uses (`covered`, Lemmas_RdSpecs3). *)
Definition b2n (b : bool) : N := if b then 1 else 0.
Definition dist_ok (a : acct) (d : dist) : Prop :=
  d_relay d < two32 /\ d_total_contributors d < two32 /\
  (d_rewards_final d = true -> d_debt_final d = true) /\
  alen a <= LEN_DIST + MAX_REALLOC * (b2n (d_debt_final d) + b2n (d_rewards_final d) + b2n (d_writeoff_enabled d)) /\
  (d_rewards_final d = true -> covered a d).
Definition good11 (a : acct) : Prop :=
  owner a = KRd -> match data a with DConfig c => c_relay c < two32 | DDist d _ => dist_ok a d | _ => True end.
Definition Inv11 (W : world) : Prop := forall k, good11 (get W k).

(* instruction arguments as the wire format bounds them: the relay fee and the contributor count are u32 *)
Definition rd_ok11 (ix : rd_ix) : Prop :=
  match ix with
  | RConfigureProgram (RSRelayLamports n) => n < two32
  | RConfigureRewards k _ => k < two32
  | _ => True
  end.

Lemma outstanding_exact d : d_relay d < two32 -> d_total_contributors d < two32 -> d_rewards_final d = true ->
  outstanding_relay d = d_relay d * (d_total_contributors d - d_distributed_count d).
Proof.
  intros Hr Hk Hf. unfold outstanding_relay. rewrite Hf. apply sat_mul_exact. unfold two32, two64 in *. nia.
Qed.
Theorem Inv11_C11 W : Inv11 W -> Inv_C11 W.
Proof.
  intros HI k a d t -> Ho Hd Hf. specialize (HI k Ho). rewrite Hd in HI. destruct HI as (Hr & Hk & _ & _ & Hc).
  specialize (Hc Hf). unfold covered in Hc. rewrite outstanding_exact in Hc by assumption. exact Hc.
Qed.
(* companions, for the record *)
Theorem Inv11_lifecycle W k d t : Inv11 W -> owner (get W k) = KRd -> data (get W k) = DDist d t ->
  d_relay d < two32 /\ d_total_contributors d < two32 /\ (d_rewards_final d = true -> d_debt_final d = true) /\
  alen (get W k) <= LEN_DIST + 3 * MAX_REALLOC.
Proof.
  intros HI Ho Hd. specialize (HI k Ho). rewrite Hd in HI. destruct HI as (Hr & Hk & Hl & Ha & _).
  repeat split; try assumption. unfold MAX_REALLOC, LEN_DIST, b2n in *.
  destruct (d_debt_final d), (d_rewards_final d), (d_writeoff_enabled d); lia.
Qed.

(* ------------------------------------------------------------------------------------------------------------------ *)
(* 2. generic preservation                                                                                            *)

Lemma good11_nonrd a : owner a <> KRd -> good11 a.
Proof. intros H Ho. contradiction. Qed.
Lemma good11_untyped a : typedb (data a) = false -> good11 a.
Proof. intros H _. destruct (data a); try exact I; discriminate H. Qed.
Lemma covered_mono a a' d : alen a' = alen a -> lamports a <= lamports a' -> covered a d -> covered a' d.
Proof. unfold covered. intros -> L H. lia. Qed.
Lemma good11_qa a a' : qa a a' -> good11 a -> good11 a'.
Proof.
  intros [H1 H2] G Ho'. destruct (typedb (data a')) eqn:Et; [|apply good11_untyped; assumption].
  destruct (H2 (conj Ho' Et)) as [Ho Ht]. destruct (H1 (conj Ho Ht)) as [E L].
  unfold hdr in E. injection E as _ Ea Ed. specialize (G Ho). rewrite Ed. destruct (data a); try exact I; try exact G.
  destruct G as (A & B & C & D & F). repeat split; try assumption; [rewrite Ea; exact D|].
  intros Hf. eapply covered_mono; [exact Ea|exact L|auto].
Qed.
Lemma Inv11_quiet W W' : quiet W W' -> Inv11 W -> Inv11 W'.
Proof. intros HQ HI k. eapply good11_qa; [apply HQ|apply HI]. Qed.
Lemma Inv11_put W k a : Inv11 W -> good11 a -> Inv11 (put W k a).
Proof. intros HI G k'. rewrite Lemmas_RdSpecs.get_put. destruct (key_eqb k k'); [exact G|apply HI]. Qed.
Lemma Inv11_purge W : Inv11 W -> Inv11 (purge W).
Proof. intros HI k. rewrite get_purge. destruct (_ =? 0); [apply good11_nonrd; discriminate|apply HI]. Qed.
(* more lamports never hurt; fewer only matter on typed accounts *)
Lemma good11_lam a n : good11 a -> (owner a = KRd -> typedb (data a) = true -> lamports a <= n) -> good11 (a <| lamports := n |>).
Proof.
  intros G H. apply (good11_qa a); [|exact G]. split; [|apply tk_hdr; reflexivity].
  intros [Ho Ht]. split; [reflexivity|]. cbn. auto.
Qed.
Lemma good11_set_untyped a d : typedb d = false -> good11 (a <| data := d |>).
Proof. intros H. apply good11_untyped. exact H. Qed.

(* a config rewritten with the same relay fee *)
Lemma good11_config W k c c' : Inv11 W -> owner (get W k) = KRd -> data (get W k) = DConfig c -> c_relay c' = c_relay c ->
  good11 (get W k <| data := DConfig c' |>).
Proof. intros HI Ho Hd E _. cbn. specialize (HI k Ho). rewrite Hd in HI. rewrite E. exact HI. Qed.
(* a distribution rewritten without touching what the invariant looks at *)
Definition same11 (d d' : dist) : Prop :=
  d_relay d' = d_relay d /\ d_total_contributors d' = d_total_contributors d /\ d_distributed_count d' = d_distributed_count d /\
  d_debt_final d' = d_debt_final d /\ d_rewards_final d' = d_rewards_final d /\ d_writeoff_enabled d' = d_writeoff_enabled d.
Lemma outstanding_same d d' : same11 d d' -> outstanding_relay d' = outstanding_relay d.
Proof. intros (A & B & C & _ & E & _). unfold outstanding_relay. rewrite A, B, C, E. reflexivity. Qed.
Lemma dist_ok_same a a' d d' : same11 d d' -> alen a' = alen a -> lamports a <= lamports a' -> dist_ok a d -> dist_ok a' d'.
Proof.
  intros S Ea L (A & B & C & D & F). pose proof (outstanding_same _ _ S) as O. destruct S as (S1 & S2 & S3 & S4 & S5 & S6).
  unfold dist_ok, covered in *. rewrite S1, S2, S4, S5, S6, O, Ea. repeat split; try assumption. intros Hf. specialize (F Hf). lia.
Qed.
Lemma good11_dist_same W k d t d' t' : Inv11 W -> owner (get W k) = KRd -> data (get W k) = DDist d t -> same11 d d' ->
  good11 (get W k <| data := DDist d' t' |>).
Proof.
  intros HI Ho Hd S _. cbn [data RecordSet.set]. change (data (get W k <| data := DDist d' t' |>)) with (DDist d' t').
  cbv beta iota. specialize (HI k Ho). rewrite Hd in HI. eapply dist_ok_same; [exact S| | |exact HI]; [reflexivity|cbn; lia].
Qed.
Ltac same11_tac := unfold same11; repeat split; reflexivity.

(* worlds given pointwise *)
Lemma Inv11_pointwise (W' : world) (F : key -> acct) : (forall k, get W' k = F k) -> (forall k, good11 (F k)) -> Inv11 W'.
Proof. intros Hg HF k. rewrite Hg. apply HF. Qed.
Ltac pointwise11 Hg := eapply Inv11_pointwise; [exact Hg|]; cbv beta.

(* ------------------------------------------------------------------------------------------------------------------ *)
(* 3. the seventeen processors that write typed data                                                                  *)

Lemma rd_initialize_program_11 cx W W' : rd_initialize_program cx W = Ok W' -> Inv11 W -> Inv11 W'.
Proof.
  intros H HI. apply rd_initialize_program_eff in H as (W1 & Q & _ & _ & ->).
  apply Inv11_put; [eapply Inv11_quiet; eassumption|]. intros _. cbn. reflexivity.
Qed.
Lemma rd_initialize_journal_11 cx W W' : rd_initialize_journal cx W = Ok W' -> Inv11 W -> Inv11 W'.
Proof.
  intros H HI. apply rd_initialize_journal_eff in H as (W1 & Q & _ & _ & ->).
  apply Inv11_put; [eapply Inv11_quiet; eassumption|]. intros _. exact I.
Qed.

Lemma rd_set_admin_11 cx W k W' : rd_set_admin cx W k = Ok W' -> Inv11 W -> Inv11 W'.
Proof.
  intros H HI. apply rd_set_admin_guards in H as (m0 & m1 & m2 & rest & a & c & _ & _ & _ & _ & _ & _ & (Ho & Hd) & ->).
  apply Inv11_put; [exact HI|]. eapply good11_config; eauto.
Qed.
Lemma rd_migrate_11 cx W W' : rd_migrate cx W = Ok W' -> Inv11 W -> Inv11 W'.
Proof.
  intros H HI. apply rd_migrate_guards in H as (m0 & m1 & m2 & rest & a & c & _ & _ & _ & _ & _ & _ & (Ho & Hd) & ->).
  apply Inv11_put; [exact HI|]. eapply good11_config; eauto.
Qed.
Lemma apply_setting_relay c s c' :
  rd_apply_setting c s = Ok c' -> rd_ok11 (RConfigureProgram s) -> c_relay c < two32 -> c_relay c' < two32.
Proof.
  destruct s; cbn [rd_apply_setting rd_ok11]; intros H Hok Hc; repeat rg_inv H; try discriminate H;
    injection H as <-; cbn; assumption.
Qed.
Lemma rd_configure_program_11 cx W s W' :
  rd_ok11 (RConfigureProgram s) -> rd_configure_program cx W s = Ok W' -> Inv11 W -> Inv11 W'.
Proof.
  intros Hok H HI. apply rd_configure_program_guards in H as (m0 & m1 & rest & c & c' & _ & _ & (Ho & Hd) & _ & _ & Hs & ->).
  apply Inv11_put; [exact HI|]. intros _. cbn. eapply apply_setting_relay; [exact Hs|exact Hok|].
  specialize (HI _ Ho). rewrite Hd in HI. exact HI.
Qed.
Lemma rd_initialize_swap_destination_11 cx W W' : rd_initialize_swap_destination cx W = Ok W' -> Inv11 W -> Inv11 W'.
Proof.
  intros H HI. apply rd_initialize_swap_destination_eff in H as (ck & c & Ho & Hd & Q).
  eapply Inv11_quiet; [exact Q|]. apply Inv11_put; [exact HI|]. eapply good11_config; eauto.
Qed.

(* distributions whose rewards are not final carry no cover obligation *)
Lemma dist_ok_unfinal a d : d_rewards_final d = false -> d_relay d < two32 -> d_total_contributors d < two32 ->
  alen a <= LEN_DIST + MAX_REALLOC * (b2n (d_debt_final d) + b2n (d_writeoff_enabled d)) -> dist_ok a d.
Proof.
  intros Hf Hr Hk Ha. unfold dist_ok. rewrite Hf. cbn [b2n]. repeat split; try assumption; try discriminate. lia.
Qed.
Lemma dist_ok_unfinal_inv a d : dist_ok a d -> d_debt_final d = false ->
  d_rewards_final d = false /\ d_relay d < two32 /\ d_total_contributors d < two32 /\
  alen a <= LEN_DIST + MAX_REALLOC * b2n (d_writeoff_enabled d).
Proof.
  intros (A & B & C & D & _) Hdf. assert (Hf : d_rewards_final d = false).
  { destruct (d_rewards_final d); [specialize (C eq_refl); congruence|reflexivity]. }
  rewrite Hdf, Hf in D. cbn [b2n] in D. repeat split; try assumption; lia.
Qed.

Lemma rd_configure_debt_11 cx W n debt root W' : rd_configure_debt cx W n debt root = Ok W' -> Inv11 W -> Inv11 W'.
Proof.
  intros H HI. apply rd_configure_debt_guards in H as (m0 & m1 & m2 & rest & c & d & tail & _ & _ & _ & _ & _ & _ & (Ho & Hd) & _ & _ & ->).
  apply Inv11_put; [exact HI|]. eapply good11_dist_same; eauto. same11_tac.
Qed.
Lemma rd_configure_rewards_11 cx W n root W' :
  rd_ok11 (RConfigureRewards n root) -> rd_configure_rewards cx W n root = Ok W' -> Inv11 W -> Inv11 W'.
Proof.
  intros Hok H HI.
  apply rd_configure_rewards_guards in H as (m0 & m1 & m2 & rest & c & d & tail & _ & _ & _ & _ & _ & _ & (Ho & Hd) & Hf & _ & ->).
  apply Inv11_put; [exact HI|]. intros _. cbn. specialize (HI _ Ho). rewrite Hd in HI. destruct HI as (A & B & C & D & F).
  unfold dist_ok. cbn. rewrite Hf in *. repeat split; try assumption; discriminate.
Qed.

(* the payer of a resize-and-top-up only pays out of a System-owned account *)
Lemma grow_other_11 W k payer amt : Inv11 W -> owner (get W payer) = KSystem \/ amt = 0 ->
  good11 ((get W k) <| lamports := lamports (get W k) - (if key_eqb payer k then amt else 0) + 0 |>).
Proof.
  intros HI Hs. apply good11_lam; [apply HI|]. intros Ho _.
  destruct (key_eqb_spec payer k) as [->|]; [destruct Hs as [Hs| ->]; [congruence|lia]|lia].
Qed.

Lemma rd_finalize_debt_11 cx W W' : rd_finalize_debt cx W = Ok W' -> Inv11 W -> Inv11 W'.
Proof.
  intros H HI. apply rd_finalize_debt_spec in H as (c & dk & d & tail & F).
  pose proof (fd_dist_owner _ _ _ _ _ _ _ F) as Ho. pose proof (fd_dist_data _ _ _ _ _ _ _ F) as Hd.
  pose proof (HI dk Ho) as G. rewrite Hd in G. apply dist_ok_unfinal_inv in G as (Hf & Hr & Hk & Ha); [|exact (fd_not_final _ _ _ _ _ _ _ F)].
  destruct (N.eq_dec (d_total_debt d - d_uncollectible d) 0) as [Ez|Enz].
  - pointwise11 (fd_zero _ _ _ _ _ _ _ F Ez). intros k.
    destruct (key_eqb dk k); [|apply HI]. intros _. cbn. apply dist_ok_unfinal; cbn; try assumption.
    unfold MAX_REALLOC in *. lia.
  - destruct (fd_nonzero _ _ _ _ _ _ _ F Enz) as (payer & amt & ms & G).
    pointwise11 (gf_effect _ _ _ _ _ _ _ _ _ _ _ G). intros k.
    destruct (key_eqb_spec dk k) as [<-|Hne].
    + intros _. cbn. apply dist_ok_unfinal; cbn; try assumption.
      pose proof (gf_extra _ _ _ _ _ _ _ _ _ _ _ G). unfold MAX_REALLOC in *. lia.
    + apply grow_other_11; [exact HI|]. exact (gf_payer_system _ _ _ _ _ _ _ _ _ _ _ G).
Qed.

Lemma rd_finalize_rewards_11 cx W W' : rd_finalize_rewards cx W = Ok W' -> Inv11 W -> Inv11 W'.
Proof.
  intros H HI. apply rd_finalize_rewards_spec in H as (c & dk & d & tail & payer & amt & F).
  pose proof (fr_dist_owner _ _ _ _ _ _ _ _ _ F) as Ho. pose proof (fr_dist_data _ _ _ _ _ _ _ _ _ F) as Hd.
  pose proof (fr_not_final _ _ _ _ _ _ _ _ _ F) as Hf. pose proof (fr_debt_final _ _ _ _ _ _ _ _ _ F) as Hdf.
  pose proof (HI dk Ho) as G. rewrite Hd in G. destruct G as (Hr & Hk & _ & Ha & _). rewrite Hf, Hdf in Ha. cbn [b2n] in Ha.
  destruct (finalize_rewards_grow _ _ _ _ _ _ _ _ _ F) as (ms & G).
  pose proof (gf_extra _ _ _ _ _ _ _ _ _ _ _ G) as Hex.
  intros k. destruct (key_eq_dec dk k) as [<-|Hne].
  - destruct (finalize_rewards_dist_after _ _ _ _ _ _ _ _ _ F) as (Dd & Da & _).
    intros _. rewrite Dd. unfold dist_ok. rewrite Da. cbn [fr_dist d_relay d_total_contributors d_rewards_final d_debt_final d_writeoff_enabled RecordSet.set].
    proj_simpl. rewrite Hdf. cbn [b2n]. repeat split; try assumption.
    + unfold MAX_REALLOC in *. destruct (d_writeoff_enabled d); cbn [b2n] in *; lia.
    + intros _. apply (finalize_rewards_cover_after _ _ _ _ _ _ _ _ _ F).
      assert (d_relay d * d_total_contributors d <= 4294967295 * 4294967295) by (unfold two32 in *; nia).
      unfold rent, two64, MAX_REALLOC, LEN_DIST in *. destruct (d_writeoff_enabled d); cbn [b2n] in *; lia.
  - rewrite (gf_effect _ _ _ _ _ _ _ _ _ _ _ G), (key_eqb_neq dk k) by exact Hne.
    apply grow_other_11; [exact HI|]. exact (gf_payer_system _ _ _ _ _ _ _ _ _ _ _ G).
Qed.

Lemma rd_enable_write_off_11 cx W W' : rd_enable_write_off cx W = Ok W' -> Inv11 W -> Inv11 W'.
Proof.
  intros H HI. apply rd_enable_write_off_spec in H as (c & dk & d & tail & payer & amt & F).
  pose proof (ew_dist_owner _ _ _ _ _ _ _ _ _ F) as Ho. pose proof (ew_dist_data _ _ _ _ _ _ _ _ _ F) as Hd.
  pose proof (ew_not_enabled _ _ _ _ _ _ _ _ _ F) as Hw. pose proof (ew_extra _ _ _ _ _ _ _ _ _ F) as Hex.
  pose proof (HI dk Ho) as G. rewrite Hd in G. destruct G as (Hr & Hk & Hl & Ha & Hc). rewrite Hw in Ha. cbn [b2n] in Ha.
  intros k. destruct (key_eq_dec dk k) as [<-|Hne].
  - destruct (enable_write_off_dist_after _ _ _ _ _ _ _ _ _ F) as (Dd & Da & _).
    intros _. rewrite Dd. unfold dist_ok. rewrite Da. unfold ew_dist. proj_simpl. cbn [b2n]. repeat split; try assumption.
    + unfold MAX_REALLOC in *. lia.
    + intros Hf. apply (enable_write_off_cover_preserved _ _ _ _ _ _ _ _ _ F). auto.
  - rewrite (ew_effect _ _ _ _ _ _ _ _ _ F), (key_eqb_neq dk k) by exact Hne.
    apply grow_other_11; [exact HI|]. exact (ew_payer_system _ _ _ _ _ _ _ _ _ F).
Qed.

Lemma rd_initialize_distribution_11 cx W W' : rd_initialize_distribution cx W = Ok W' -> Inv11 W -> Inv11 W'.
Proof.
  intros H HI. apply rd_initialize_distribution_eff in H as (ck & c & c' & W2 & W4 & d & Ho & Hd & Hrel & Q1 & Hh & Hl & Hfr & Q4 & Hg).
  assert (Hc : c_relay c < two32) by (specialize (HI _ Ho); rewrite Hd in HI; exact HI).
  set (dk := KRdDist (c_next_epoch c)) in *.
  assert (I2 : Inv11 W2).
  { eapply Inv11_quiet; [exact Q1|]. apply Inv11_put; [exact HI|]. eapply good11_config; eauto. }
  unfold hdr in Hh. injection Hh as Ho2 Ha2 Hd2.
  assert (I4 : Inv11 W4).
  { eapply Inv11_quiet; [exact Q4|]. apply Inv11_put; [exact I2|]. intros _.
    change (dist_ok (get W2 dk <| data := DDist (d <| d_prepaid_2z := 0 |>) [] |>) (d <| d_prepaid_2z := 0 |>)).
    rewrite Hfr. apply dist_ok_unfinal; cbn; try reflexivity; try assumption. rewrite Ha2. unfold LEN_DIST, MAX_REALLOC. lia. }
  assert (X : owner (get W4 dk) = KRd /\ data (get W4 dk) = DDist (d <| d_prepaid_2z := 0 |>) []).
  { destruct (quiet_at _ _ dk Q4) as (A & _ & B & _).
    - rewrite Lemmas_RdSpecs.get_put_same. exact Ho2.
    - rewrite Lemmas_RdSpecs.get_put_same. reflexivity.
    - rewrite Lemmas_RdSpecs.get_put_same in B. auto. }
  destruct X as (Ho4 & Hd4).
  pointwise11 Hg. intros k. destruct (key_eqb dk k); [|apply I4].
  eapply good11_dist_same; [exact I4|exact Ho4|exact Hd4|]. same11_tac.
Qed.

Lemma rd_distribute_rewards_11 cx W us ebr p W' : rd_distribute_rewards cx W us ebr p = Ok W' -> Inv11 W -> Inv11 W'.
Proof.
  intros H HI. apply rd_distribute_rewards_eff in H as (dk & d & tail & relayer & tr & bu & tail' & Ho & Hd & Hcnt & _ & Hfunds & Hg & Htok).
  pose proof (HI dk Ho) as G. rewrite Hd in G. destruct G as (Hr & Hk & Hl & Ha & Hc).
  intros k. destruct (key_eq_dec (owner (get W k)) KToken) as [Et|Et].
  { apply good11_nonrd. rewrite (Htok k Et). discriminate. }
  rewrite (Hg k Et). destruct (key_eqb_spec dk k) as [<-|Hne].
  - intros _. cbn [data RecordSet.set]. change (data (_ <| lamports := _ |>)) with (DDist (dr_dist d tr bu) tail'). cbv beta iota.
    unfold dist_ok, covered. cbn [alen lamports RecordSet.set]. proj_simpl. unfold dr_dist. proj_simpl.
    repeat split; try assumption. intros Hf. specialize (Hc Hf). unfold covered in Hc.
    rewrite outstanding_exact in Hc by assumption.
    assert (Hw : wadd32 (d_distributed_count d) 1 = d_distributed_count d + 1).
    { apply wadd_small. lia. }
    unfold outstanding_relay. proj_simpl. rewrite Hf, Hw. rewrite sat_mul_exact by (unfold two32, two64 in *; nia).
    destruct (key_eqb relayer dk); nia.
  - apply good11_lam; [apply HI|]. intros _ _. lia.
Qed.

Lemma rd_pay_debt_11 cx W amount p W' : rd_pay_debt cx W amount p = Ok W' -> Inv11 W -> Inv11 W'.
Proof.
  intros H HI. apply rd_pay_debt_spec in H as (c & dk & d & tail & pk & dp & jk & j & idx & tail' & F).
  pointwise11 (pd_effect _ _ _ _ _ _ _ _ _ _ _ _ _ _ _ F). intros k.
  destruct (key_eqb k pk).
  { apply good11_untyped. cbn. rewrite (pd_deposit_data _ _ _ _ _ _ _ _ _ _ _ _ _ _ _ F). reflexivity. }
  destruct (key_eqb k jk); [intros _; exact I|].
  destruct (key_eqb k dk); [|apply HI].
  eapply good11_dist_same; [exact HI|exact (pd_dist_owner _ _ _ _ _ _ _ _ _ _ _ _ _ _ _ F)|exact (pd_dist_data _ _ _ _ _ _ _ _ _ _ _ _ _ _ _ F)|].
  same11_tac.
Qed.

Lemma rd_write_off_11 cx W amount p W' : rd_write_off cx W amount p = Ok W' -> Inv11 W -> Inv11 W'.
Proof.
  intros H HI. apply rd_write_off_spec in H as (c & dk & d & tail & pk & dp & idx & tail1 & tail2 & tk & t & ttail & F).
  pose proof (wo_dist_owner _ _ _ _ _ _ _ _ _ _ _ _ _ _ _ _ _ F) as Ho. pose proof (wo_dist_data _ _ _ _ _ _ _ _ _ _ _ _ _ _ _ _ _ F) as Hd.
  pointwise11 (wo_effect _ _ _ _ _ _ _ _ _ _ _ _ _ _ _ _ _ F). intros k.
  destruct (key_eqb k pk); [intros _; exact I|].
  destruct (key_eqb k tk).
  { pose proof (wo_target_read _ _ _ _ _ _ _ _ _ _ _ _ _ _ _ _ _ F) as Ht.
    destruct (key_eqb_spec tk dk) as [->|Hne].
    - destruct Ht as (-> & ->). eapply good11_dist_same; [exact HI|exact Ho|exact Hd|]. same11_tac.
    - eapply good11_dist_same; [exact HI|exact (wo_target_owner _ _ _ _ _ _ _ _ _ _ _ _ _ _ _ _ _ F)|exact Ht|]. same11_tac. }
  destruct (key_eqb k dk); [|apply HI].
  eapply good11_dist_same; [exact HI|exact Ho|exact Hd|]. same11_tac.
Qed.

Lemma rd_withdraw_sol_11 cx W amount W' : rd_withdraw_sol cx W amount = Ok W' -> Inv11 W -> Inv11 W'.
Proof.
  intros H HI. apply rd_withdraw_sol_spec in H as (c & jk & j & dest & z & F).
  pointwise11 (ws_effect _ _ _ _ _ _ _ _ _ F). intros k. destruct (key_eqb_spec jk k) as [<-|Hne].
  - intros _. exact I.
  - apply good11_lam; [apply HI|]. intros _ _. lia.
Qed.

Lemma rd_sweep_11 cx W W' : rd_sweep cx W = Ok W' -> Inv11 W -> Inv11 W'.
Proof.
  intros H HI. apply rd_sweep_full_spec in H as (c & dk & d & tail & jk & j & rest & C & Hz & Hnz).
  pose proof (sc_dist_owner _ _ _ _ _ _ _ _ _ C) as Ho. pose proof (sc_dist_data _ _ _ _ _ _ _ _ _ C) as Hd.
  destruct (N.eq_dec (d_total_debt d - d_uncollectible d) 0) as [Ez|Enz].
  - destruct (Hz Ez) as (_ & Hg). pointwise11 Hg. intros k.
    destruct (key_eqb k jk); [intros _; exact I|]. destruct (key_eqb k dk); [|apply HI].
    eapply good11_dist_same; [exact HI|exact Ho|exact Hd|]. same11_tac.
  - destruct (Hnz Enz) as (z & cfg & st & fills & W2 & W3 & s & t & F).
    destruct (sf_W2 _ _ _ _ _ _ _ _ _ _ _ _ _ _ _ _ _ _ F) as (_ & Hg2).
    assert (I2 : Inv11 W2).
    { pointwise11 Hg2. intros k. destruct (key_eqb k jk); [intros _; exact I|]. destruct (key_eqb k dk); [|apply HI].
      eapply good11_dist_same; [exact HI|exact Ho|exact Hd|]. same11_tac. }
    destruct (sf_cpi _ _ _ _ _ _ _ _ _ _ _ _ _ _ _ _ _ _ F) as (n & Hcpi). apply swap_dequeue_cpi_quiet in Hcpi.
    pose proof (Inv11_quiet _ _ Hcpi I2) as I3.
    pose proof (sc_distinct _ _ _ _ _ _ _ _ _ C) as Hjd.
    assert (X : owner (get W3 dk) = KRd /\ data (get W3 dk) = DDist (sw_dist1 d) tail).
    { destruct (quiet_at _ _ dk Hcpi) as (A & _ & B & _).
      - rewrite Hg2, (key_eqb_neq dk jk), key_eqb_refl by congruence. exact Ho.
      - rewrite Hg2, (key_eqb_neq dk jk), key_eqb_refl by congruence. reflexivity.
      - rewrite Hg2, (key_eqb_neq dk jk), key_eqb_refl in B by congruence. auto. }
    destruct X as (Ho3 & Hd3).
    pointwise11 (sf_effect _ _ _ _ _ _ _ _ _ _ _ _ _ _ _ _ _ _ F). intros k.
    destruct (key_eqb k jk); [intros _; exact I|].
    destruct (key_eqb k dk); [eapply good11_dist_same; [exact I3|exact Ho3|exact Hd3|]; same11_tac|].
    destruct (key_eqb dk KRdSwapAuth); [apply I3|].
    destruct (key_eqb k (KTok2z KRdSwapAuth)); [intros _; exact I|].
    destruct (key_eqb k (KTok2z dk)); [intros _; exact I|apply I3].
Qed.

(* ------------------------------------------------------------------------------------------------------------------ *)
(* 4. every revenue-distribution instruction, every transaction, every history                                        *)

Theorem rd_process_11 cx W ix W' : cx_prog cx = KRd -> rd_ok11 ix -> rd_process cx W ix = Ok W' -> Inv11 W -> Inv11 W'.
Proof.
  intros _ Hok. destruct ix; cbn [rd_process].
  - apply rd_initialize_program_11.
  - apply rd_migrate_11.
  - apply rd_set_admin_11.
  - apply rd_configure_program_11. exact Hok.
  - apply rd_initialize_journal_11.
  - apply rd_initialize_distribution_11.
  - apply rd_configure_debt_11.
  - apply rd_finalize_debt_11.
  - apply rd_configure_rewards_11. exact Hok.
  - apply rd_finalize_rewards_11.
  - apply rd_distribute_rewards_11.
  - intros H. apply Inv11_quiet. eapply rd_initialize_contributor_quiet; exact H.
  - intros H. apply Inv11_quiet. eapply rd_set_rewards_manager_quiet; exact H.
  - intros H. apply Inv11_quiet. eapply rd_configure_contributor_quiet; exact H.
  - intros H. apply Inv11_quiet. eapply rd_verify_root_quiet; exact H.
  - intros H. apply Inv11_quiet. eapply rd_initialize_deposit_quiet; exact H.
  - apply rd_pay_debt_11.
  - apply rd_enable_write_off_11.
  - apply rd_write_off_11.
  - apply rd_initialize_swap_destination_11.
  - apply rd_sweep_11.
  - apply rd_withdraw_sol_11.
Qed.

(* instruction / transaction / operation arguments: every RelayLamports setting and every contributor count is a u32 *)
Definition ix_ok11 : ixdata -> Prop := ix_ok rd_ok11.
Definition tx_ok11 : tx -> Prop := tx_ok rd_ok11.
Definition op_ok11 : op -> Prop := op_args_ok rd_ok11.

Theorem inv_C11_data d prog ms h sib W W' : ix_ok11 d -> exec_data prog d ms h sib W = Ok W' -> Inv11 W -> Inv11 W'.
Proof. apply (exec_data_inv Inv11 rd_ok11 Inv11_quiet rd_process_11 (fun _ => I)). Qed.
(* EVERY transaction (any programs, any instructions, any account lists) keeps the invariant *)
Theorem inv_C11_tx W t W' ok : Inv11 W -> tx_ok11 t -> exec_tx W t = (W', ok) -> Inv11 W'.
Proof. intros HI Hok H. exact (exec_tx_inv Inv11 rd_ok11 Inv11_quiet rd_process_11 (fun _ => I) Inv11_purge W t W' ok Hok H HI). Qed.
Corollary C11_tx W t W' ok : Inv11 W -> tx_ok11 t -> exec_tx W t = (W', ok) -> Inv_C11 W'.
Proof. intros HI Hok H. apply Inv11_C11. eapply inv_C11_tx; eassumption. Qed.

Theorem inv_C11_op W o :
  honest_op o -> op_ok11 o -> (forall p o_, o = OCreateAta p o_ -> ~ tk (get W p)) -> Inv11 W -> Inv11 (fst (exec_op W o)).
Proof. apply (exec_op_inv Inv11 rd_ok11 Inv11_quiet rd_process_11 (fun _ => I) Inv11_purge). Qed.
Theorem inv_C11_history ops W :
  Forall honest_op ops -> Forall wallet_pays ops -> Forall op_ok11 ops -> typed_canonical W -> Inv11 W ->
  Inv11 (fold_left (fun W o => fst (exec_op W o)) ops W).
Proof. apply (history_inv Inv11 rd_ok11 Inv11_quiet rd_process_11 (fun _ => I) Inv11_purge). Qed.
Corollary C11_history ops W :
  Forall honest_op ops -> Forall wallet_pays ops -> Forall op_ok11 ops -> typed_canonical W -> Inv11 W ->
  Inv_C11 (fold_left (fun W o => fst (exec_op W o)) ops W).
Proof. intros. apply Inv11_C11. apply inv_C11_history; assumption. Qed.

(* initial worlds *)
Theorem inv_C11_init :
  Inv11 world0 /\ forall W, (forall k, owner (get W k) = KRd -> data (get W k) = DEmpty) -> Inv11 W.
Proof.
  split.
  - intros k. rewrite get_world0. apply good11_nonrd. discriminate.
  - intros W H k Ho. rewrite (H k Ho). exact I.
Qed.
Corollary C11_reachable ops :
  Forall honest_op ops -> Forall wallet_pays ops -> Forall op_ok11 ops ->
  Inv_C11 (fold_left (fun W o => fst (exec_op W o)) ops world0).
Proof. intros. apply C11_history; try assumption; [apply typed_canonical_world0|exact (proj1 inv_C11_init)]. Qed.

(* ------------------------------------------------------------------------------------------------------------------ *)
(* 5. examples                                                                                                        *)

Module Ex11.
Import CanonEx.
(* Lemmas_Canon's bootstrap history (program, journal, admin, settings, distribution 0 with a 10 000-lamport relay fee),
   then: rewards accountant and minimum epochs, the clock past the calculation grace period, debt finalized (no debt),
   two contributors configured, rewards finalized *)
Definition ops11 : list op := ex_ops ++ [
  otx [KUser 1] [rdi (RConfigureProgram (RSRewardsAccountant (KUser 3))) m_cfg;
                 rdi (RConfigureProgram (RSMinEpochs 1)) m_cfg];
  OSetClock 1000;
  otx [KUser 2; KUser 100] [rdi RFinalizeDebt [ro KRdConfig; sg (KUser 2); wr (KRdDist 0); sw (KUser 100); ro KSystem]];
  otx [KUser 3] [rdi (RConfigureRewards 2 null_hash) [ro KRdConfig; sg (KUser 3); wr (KRdDist 0)]];
  otx [KUser 100] [rdi RFinalizeRewards [ro KRdConfig; wr (KRdDist 0); sw (KUser 100); ro KSystem]]
].
Definition W11 : world := run_ops ex_fix ops11.
End Ex11.
Import CanonEx Ex11.

Lemma ops11_side : Forall honest_op ops11 /\ Forall wallet_pays ops11 /\ Forall op_ok11 ops11.
Proof.
  unfold ops11, ex_ops. cbn [app]. repeat split;
    repeat (first [apply Forall_cons | apply Forall_nil]); cbn; try exact I; try reflexivity; eauto.
Qed.
Lemma ex_fix_untyped : untyped_world ex_fix.
Proof. apply untyped_world_check. vm_compute. reflexivity. Qed.
(* a literal reachable world with a rewards-finalized distribution: the invariant holds by the history theorem, its premise
   is satisfied (two undistributed leaves at 10 000 lamports each) and the bound is tight *)
Example inv_C11_nonvacuous :
  all_ok ex_fix ops11 = true /\ Inv11 W11 /\ Inv_C11 W11 /\
  exists d t, owner (get W11 (KRdDist 0)) = KRd /\ data (get W11 (KRdDist 0)) = DDist d t /\
    d_rewards_final d = true /\ d_relay d = 10000 /\ d_total_contributors d = 2 /\ d_distributed_count d = 0 /\
    lamports (get W11 (KRdDist 0)) = rent (alen (get W11 (KRdDist 0))) + 10000 * 2.
Proof.
  split; [vm_compute; reflexivity|].
  destruct ops11_side as (Hh & Hw & Ha).
  assert (HI : Inv11 W11).
  { apply inv_C11_history; try assumption.
    - apply typed_canonical_untyped. exact ex_fix_untyped.
    - apply (proj2 inv_C11_init). intros k Ho. apply ex_fix_untyped. left. exact Ho. }
  split; [exact HI|]. split; [apply Inv11_C11; exact HI|].
  vm_compute. do 2 eexists. repeat split.
Qed.

(* Why `wallet_pays`: the scenario operation OCreateAta debits its payer without any check (the real ATA program needs the
   payer's signature on a System transfer, which a program-owned account cannot give).  With a distribution as "payer"
   the model operation breaks the cover; this is an artefact of the operation, not of the programs. *)
Definition c11_violated (a : acct) : bool :=
  match data a with
  | DDist d _ => key_eqb (owner a) KRd && d_rewards_final d &&
                 (lamports a <? rent (alen a) + d_relay d * (d_total_contributors d - d_distributed_count d))
  | _ => false
  end.
Lemma c11_violated_spec W k : c11_violated (get W k) = true -> ~ Inv_C11 W.
Proof.
  unfold c11_violated. destruct (data (get W k)) as [| | |d t| | | | | | | | | |] eqn:Hd; try discriminate. intros Hv H.
  apply andb_true_iff in Hv as (Hv & Hlt). apply andb_true_iff in Hv as (Ho & Hf).
  apply key_eqb_eq in Ho. apply N.ltb_lt in Hlt. specialize (H k _ d t eq_refl Ho Hd Hf). lia.
Qed.
Example createata_unchecked_payer_refuted :
  let o := OCreateAta (KRdDist 0) (KUser 71) in
  honest_op o /\ snd (exec_op W11 o) = true /\ Inv_C11 W11 /\ ~ Inv_C11 (fst (exec_op W11 o)).
Proof.
  cbv zeta. split; [exact I|]. split; [vm_compute; reflexivity|]. split; [exact (proj1 (proj2 (proj2 inv_C11_nonvacuous)))|].
  apply (c11_violated_spec _ (KRdDist 0)). vm_compute. reflexivity.
Qed.

(* Why `op_ok11` (u32 arguments): the model takes instruction arguments as unbounded N.  With a relay fee of 2^63 (not
   encodable: the wire field is a u32) and 4 contributors the saturating u64 product the program computes falls short of
   fee x count, and the plain-product clause fails.  Every other hypothesis of the history theorem holds. *)
Module Ex11x.
Import CanonEx.
Definition big : N := 9223372036854775808.
Definition ops11x : list op := ex_ops ++ [
  otx [KUser 1] [rdi (RConfigureProgram (RSRewardsAccountant (KUser 3))) m_cfg;
                 rdi (RConfigureProgram (RSMinEpochs 1)) m_cfg;
                 rdi (RConfigureProgram (RSRelayLamports big)) m_cfg];
  OSetClock 1000;
  OAirdrop (KUser 100) (8 * big);
  otx [KUser 2; KUser 100] [rdi RInitializeDistribution
     [wr KRdConfig; sg (KUser 2); sw (KUser 100); wr (KRdDist 1); wr (KTok2z (KRdDist 1)); ro KMint; ro KToken;
      wr KRdJournal; ro (KTok2z KRdJournal); ro (KAta KRdJournal KMint); ro KSystem]];
  OSetClock 2000;
  otx [KUser 2; KUser 100] [rdi RFinalizeDebt [ro KRdConfig; sg (KUser 2); wr (KRdDist 1); sw (KUser 100); ro KSystem]];
  otx [KUser 3] [rdi (RConfigureRewards 4 null_hash) [ro KRdConfig; sg (KUser 3); wr (KRdDist 1)]];
  otx [KUser 100] [rdi RFinalizeRewards [ro KRdConfig; wr (KRdDist 1); sw (KUser 100); ro KSystem]]
].
End Ex11x.
Import Ex11x.
Example c11_needs_u32_arguments_refuted :
  all_ok ex_fix ops11x = true /\ Forall honest_op ops11x /\ Forall wallet_pays ops11x /\ ~ Forall op_ok11 ops11x /\
  Inv_C11 ex_fix /\ ~ Inv_C11 (run_ops ex_fix ops11x).
Proof.
  split; [vm_compute; reflexivity|].
  split; [unfold ops11x, ex_ops; cbn [app]; repeat (first [apply Forall_cons | apply Forall_nil]); exact I|].
  split; [unfold ops11x, ex_ops; cbn [app]; repeat (first [apply Forall_cons | apply Forall_nil]); cbn; try exact I; eauto|].
  split.
  { intros H. unfold ops11x in H. apply Forall_app in H as (_ & H). inversion H as [|? ? Ho _]. clear H.
    unfold op_ok11, op_args_ok, otx, tx_ok in Ho. cbn [tx_ixs] in Ho.
    inversion Ho as [|? ? _ Hx1]. inversion Hx1 as [|? ? _ Hx2]. inversion Hx2 as [|? ? Hx3 _].
    cbn in Hx3. vm_compute in Hx3. discriminate Hx3. }
  split.
  - apply Inv11_C11. apply (proj2 inv_C11_init). intros k Ho. apply ex_fix_untyped. left. exact Ho.
  - apply (c11_violated_spec _ (KRdDist 1)). vm_compute. reflexivity.
Qed.

(* ==================================================================================================================
   INDEX (Lemmas_Hist2.v, C11; all closed under the global context)
   definitions
     Inv_C11 W     forall k a d t, a = get W k -> owner a = KRd -> data a = DDist d t -> d_rewards_final d = true ->
                   rent (alen a) + d_relay d * (d_total_contributors d - d_distributed_count d) <= lamports a
     dist_ok a d   d_relay d < 2^32 /\ d_total_contributors d < 2^32 /\ (rewards final -> debt final) /\
                   alen a <= LEN_DIST + MAX_REALLOC * (#flags among debt-final, rewards-final, write-off-enabled) /\
                   (rewards final -> covered a d)            [covered: Lemmas_RdSpecs3, with outstanding_relay]
     good11 a      owner a = KRd -> DConfig c: c_relay c < 2^32 | DDist d _: dist_ok a d | _: True
     Inv11 W       forall k, good11 (get W k)                 (the inductive strengthening)
     rd_ok11 ix    RConfigureProgram (RSRelayLamports n): n < 2^32; RConfigureRewards k _: k < 2^32; else True
     ix_ok11, tx_ok11, op_ok11   rd_ok11 lifted (Lemmas_Hist.ix_ok / tx_ok / op_args_ok)
   Inv11_C11                  Inv11 W -> Inv_C11 W;    Inv11_lifecycle (companions);   outstanding_exact
   per processor              rd_<name>_11 : rd_<name> .. = Ok W' -> Inv11 W -> Inv11 W'   (17 typed ones; configure_program and
                              configure_rewards take rd_ok11);   rd_process_11
   inv_C11_data               ix_ok11 d -> exec_data prog d ms h sib W = Ok W' -> Inv11 W -> Inv11 W'
   inv_C11_tx                 Inv11 W -> tx_ok11 t -> exec_tx W t = (W', ok) -> Inv11 W'         (C11_tx: .. -> Inv_C11 W')
   inv_C11_op                 honest_op o -> op_ok11 o -> (o = OCreateAta p _ -> ~ tk (get W p)) -> Inv11 W -> Inv11 (fst (exec_op W o))
   inv_C11_history            Forall honest_op ops -> Forall wallet_pays ops -> Forall op_ok11 ops -> typed_canonical W -> Inv11 W ->
                              Inv11 (fold_left (fun W o => fst (exec_op W o)) ops W)            (C11_history: .. -> Inv_C11 ..)
   inv_C11_init               Inv11 world0 /\ (forall W, no KRd-owned account holds data -> Inv11 W);   C11_reachable (from world0)
   inv_C11_nonvacuous         literal history (bootstrap, finalize debt, 2 contributors, finalize rewards): all ops succeed, Inv11 and
                              Inv_C11 hold by the history theorem, distribution 0 is rewards-final with lamports = rent + 2 x 10 000
   createata_unchecked_payer_refuted   OCreateAta with the distribution as payer breaks Inv_C11 (model operation, not a program)
   c11_needs_u32_arguments_refuted     relay fee 2^63 (beyond the u32 wire field): saturating product, Inv_C11 fails
   c11_violated, c11_violated_spec     boolean refutation check for literal worlds
   ================================================================================================================== *)
