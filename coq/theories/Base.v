(* Fixed-width unsigned integers as N with explicit range predicates; wrapping, checked and saturating
   operations as the deployed (overflow-checks = off) build computes them; result monad. *)
From Coq Require Export NArith ZArith List Lia Bool ZifyBool ZifyN ZifyNat.
Export ListNotations.
Ltac Zify.zify_post_hook ::= Z.div_mod_to_equations.
Global Arguments N.add : simpl never.
Global Arguments N.sub : simpl never.
Global Arguments N.mul : simpl never.
Global Arguments N.div : simpl never.
Global Arguments N.modulo : simpl never.
Global Arguments N.pow : simpl never.
Global Arguments N.eqb : simpl never.
Global Arguments N.ltb : simpl never.
Global Arguments N.leb : simpl never.
Open Scope N_scope.

Definition two8 : N := 256.
Definition two16 : N := 65536.
Definition two32 : N := 4294967296.
Definition two64 : N := 18446744073709551616.
Definition two128 : N := 340282366920938463463374607431768211456.
Definition u8_max : N := 255.
Definition u16_max : N := 65535.
Definition u32_max : N := 4294967295.
Definition u64_max : N := 18446744073709551615.

Definition is_u8 (x : N) : Prop := x < two8.
Definition is_u16 (x : N) : Prop := x < two16.
Definition is_u32 (x : N) : Prop := x < two32.
Definition is_u64 (x : N) : Prop := x < two64.
Definition is_u64b (x : N) : bool := x <? two64.

(* `a + b`, `a - b` on uN with overflow checks off *)
Definition wadd (m a b : N) : N := (a + b) mod m.
Definition wsub (m a b : N) : N := (a + m - b mod m) mod m.
Definition wadd64 := wadd two64.
Definition wsub64 := wsub two64.
Definition wadd32 := wadd two32.
Definition wsub32 := wsub two32.
Definition wadd16 := wadd two16.

Definition checked_add (m a b : N) : option N := if a + b <? m then Some (a + b) else None.
Definition checked_sub (a b : N) : option N := if b <=? a then Some (a - b) else None.
Definition checked_mul (m a b : N) : option N := if a * b <? m then Some (a * b) else None.
Definition sat_add (m a b : N) : N := if a + b <? m then a + b else m - 1.
Definition sat_sub (a b : N) : N := a - b.   (* N subtraction truncates at 0 *)
Definition sat_mul (m a b : N) : N := if a * b <? m then a * b else m - 1.

Lemma wadd_small m a b : a + b < m -> wadd m a b = a + b.
Proof. intros. unfold wadd. apply N.mod_small; assumption. Qed.
Lemma wsub_small m a b : b <= a -> a < m -> wsub m a b = a - b.
Proof. intros. unfold wsub. rewrite (N.mod_small b m) by lia.
  replace (a + m - b) with ((a - b) + 1 * m) by lia. rewrite N.mod_add by lia. apply N.mod_small. lia. Qed.
Lemma wadd_lt m a b : m <> 0 -> wadd m a b < m.
Proof. intros. unfold wadd. apply N.mod_lt; assumption. Qed.
Lemma wsub_lt m a b : m <> 0 -> wsub m a b < m.
Proof. intros. unfold wsub. apply N.mod_lt; assumption. Qed.

(* result monad; errors are a small enum (codes are compared with the implementation only for C19) *)
Inductive err :=
| EInvalidInstructionData | EIncorrectProgramId | ENotEnoughAccountKeys | EInvalidAccountData
| EMissingRequiredSignature | EInvalidAccountOwner | EAccountAlreadyInitialized | EUninitializedAccount
| EInvalidArgument | EInvalidSeeds | EInsufficientFunds | EArithmeticOverflow | EAccountBorrowFailed
| EImmutable | ERuntime (n : N) | ECustom (n : N).
Inductive result (A : Type) := Ok (a : A) | Err (e : err).
Arguments Ok {A} a. Arguments Err {A} e.
Definition bind {A B} (m : result A) (k : A -> result B) : result B :=
  match m with Ok a => k a | Err e => Err e end.
Notation "x <- m ;; k" := (bind m (fun x => k)) (at level 61, m at next level, right associativity).
Notation "' pat <- m ;; k" := (bind m (fun x => match x with pat => k end))
  (at level 61, pat pattern, m at next level, right associativity).
Definition require (b : bool) (e : err) : result unit := if b then Ok tt else Err e.
Definition of_option {A} (o : option A) (e : err) : result A := match o with Some a => Ok a | None => Err e end.
Definition is_ok {A} (r : result A) : bool := match r with Ok _ => true | Err _ => false end.

Lemma bind_ok {A B} (m : result A) (k : A -> result B) b :
  bind m k = Ok b -> exists a, m = Ok a /\ k a = Ok b.
Proof. destruct m; cbn; intros; [eauto|discriminate]. Qed.
Lemma require_ok b e : require b e = Ok tt -> b = true.
Proof. destruct b; cbn; [reflexivity|discriminate]. Qed.

(* generic inversion of successful monadic computations *)
Ltac inv1 :=
  match goal with
  | H : bind ?m _ = Ok _ |- _ => let a := fresh "a" in let Hm := fresh "Hm" in
      apply bind_ok in H; destruct H as (a & Hm & H)
  | H : require ?b _ = Ok _ |- _ => apply require_ok in H
  | H : Ok _ = Ok _ |- _ => injection H as H
  | H : Err _ = Ok _ |- _ => discriminate H
  | H : of_option ?o _ = Ok _ |- _ => destruct o eqn:?; cbn [of_option] in H; [injection H as H|discriminate H]
  end.

Fixpoint sumN (l : list N) : N := match l with [] => 0 | x :: tl => x + sumN tl end.
Lemma sumN_app a b : sumN (a ++ b) = sumN a + sumN b.
Proof. induction a; cbn [sumN app]; lia. Qed.

Fixpoint set_nth {A} (l : list A) (i : nat) (v : A) : list A :=
  match l, i with [], _ => [] | _ :: tl, O => v :: tl | x :: tl, S j => x :: set_nth tl j v end.
Lemma set_nth_length {A} (l : list A) i v : length (set_nth l i v) = length l.
Proof. revert i; induction l; destruct i; cbn; auto. Qed.
Lemma nth_set_nth_same {A} (l : list A) i v d : (i < length l)%nat -> nth i (set_nth l i v) d = v.
Proof. revert i; induction l; destruct i; cbn; intros; try lia; auto. apply IHl; lia. Qed.
Lemma nth_set_nth_other {A} (l : list A) i j v d : i <> j -> nth j (set_nth l i v) d = nth j l d.
Proof. revert i j; induction l; destruct i, j; cbn; intros; try lia; auto. Qed.
