(* C15, part 2: over ARBITRARY histories (any program, any signer, any account list) distributions lie below the config's
   epoch counter, the counter only moves up, by one per creation, creation is the only instruction that moves it or the
   creation clock, and creations are paced by the initialization grace period.
   Built on Lemmas_Hist (`quiet`, Section Lift) in the style of Lemmas_Hist4 (sweep pointer).  Index at the end. *)
From DZ Require Import Base Keys Merkle BurnRate Shares Swap_Ring State World SwapDeq RD Passport Swap Exec
  Lemmas_Merkle Lemmas_Inv Lemmas_Inv2 Lemmas_Inv3 Lemmas_RdGuards Lemmas_Canon Lemmas_RdSpecs5 Lemmas_Hist Lemmas_C15.

(* ------------------------------------------------------------------------------------------------------------------ *)
(* 1. the invariant                                                                                                   *)

(* The clause of the property, for ANY distribution account and ANY config account (no canonicity assumed).  The program
   advances the counter with a saturating add, so "epoch < next" is stated as "epoch + 1 <= next" in the same saturating
   arithmetic; the two coincide unless the counter sits at u64::MAX (epochs_below_next; the strict form is REFUTED at the
   ceiling, see epochs_strictly_below_next_refuted in Lemmas_C15c.v). *)
Definition Inv_C15 (W : world) : Prop :=
  forall dk ck d t c, owner (get W dk) = KRd -> data (get W dk) = DDist d t -> owner (get W ck) = KRd -> data (get W ck) = DConfig c ->
    sat_add two64 (d_epoch d) 1 <= c_next_epoch c.

(* What is inductive, for a window n = (lo, hi ; tlo, thi):
   - every distribution sits at the canonical address of its epoch and lies below lo;
   - every config sits at KRdConfig, its counter is in [lo, hi] and a u64, its creation clock is in [tlo, thi], and it
     holds lamports (so the end-of-transaction purge cannot remove it and let InitializeProgram restart the counter);
   - once the window left the origin (lo > 0 or tlo > 0), or when the flag `ex` says so, the config exists.
   Every instruction but InitializeDistribution keeps the window; InitializeDistribution at clock `now` moves it to
   (next + 1, hi + 1 ; now, now ; true).  With lo = hi = the counter and tlo = thi = the clock this says that both change only
   in a creation, the counter by exactly one (saturating). *)
Record win := mkWin { w_lo : N; w_hi : N; w_tlo : N; w_thi : N; w_ex : bool }.
Definition good15 (n : win) (k : key) (a : acct) : Prop :=
  (owner a = KRd ->
   match data a with
   | DDist d _ => k = KRdDist (d_epoch d) /\ sat_add two64 (d_epoch d) 1 <= w_lo n
   | DConfig c => k = KRdConfig /\ (w_lo n <= c_next_epoch c /\ c_next_epoch c <= w_hi n) /\ c_next_epoch c < two64 /\
                  (w_tlo n <= c_last_init_ts c /\ c_last_init_ts c <= w_thi n) /\ lamports a <> 0
   | _ => True
   end) /\
  (k = KRdConfig -> 0 < w_lo n \/ 0 < w_tlo n \/ w_ex n = true -> owner a = KRd /\ exists c, data a = DConfig c).
Definition I15 (n : win) (W : world) : Prop := forall k, good15 n k (get W k).
Definition Inv15 (W : world) : Prop := exists n, I15 n W.
(* the same with a lower bound on the window and, optionally, the requirement that the config exists: used to read off
   the monotonicity of the counter and the persistence of the config *)
Definition Inv15_from (n0 : N) (b : bool) (W : world) : Prop := exists n, n0 <= w_lo n /\ (b = true -> w_ex n = true) /\ I15 n W.

Theorem Inv15_C15 W : Inv15 W -> Inv_C15 W.
Proof.
  intros (n & HI) dk ck d t c Hod Hdd Hoc Hdc.
  destruct (HI dk) as (Gd & _). specialize (Gd Hod). rewrite Hdd in Gd. destruct Gd as (_ & Gd).
  destruct (HI ck) as (Gc & _). specialize (Gc Hoc). rewrite Hdc in Gc. destruct Gc as (_ & (Gc & _) & _).
  eapply N.le_trans; eassumption.
Qed.
(* (a) strict form, away from the saturation point *)
Theorem epochs_below_next W dk ck d t c :
  Inv_C15 W -> owner (get W dk) = KRd -> data (get W dk) = DDist d t -> owner (get W ck) = KRd -> data (get W ck) = DConfig c ->
  c_next_epoch c < u64_max -> d_epoch d < c_next_epoch c.
Proof.
  intros H Hod Hdd Hoc Hdc Hlt. specialize (H dk ck d t c Hod Hdd Hoc Hdc).
  apply sat_add_le_plain in H; [lia|exact Hlt].
Qed.
(* canonical addresses, as consequences of the invariant *)
Theorem Inv15_config_key W k c : Inv15 W -> owner (get W k) = KRd -> data (get W k) = DConfig c -> k = KRdConfig.
Proof. intros (n & HI) Ho Hd. destruct (HI k) as (G & _). specialize (G Ho). rewrite Hd in G. tauto. Qed.
Theorem Inv15_dist_key W k d t : Inv15 W -> owner (get W k) = KRd -> data (get W k) = DDist d t -> k = KRdDist (d_epoch d).
Proof. intros (n & HI) Ho Hd. destruct (HI k) as (G & _). specialize (G Ho). rewrite Hd in G. tauto. Qed.
(* exactly one per epoch: two distribution accounts of the same epoch are the same account *)
Theorem one_distribution_per_epoch W k1 d1 t1 k2 d2 t2 :
  Inv15 W -> owner (get W k1) = KRd -> data (get W k1) = DDist d1 t1 -> owner (get W k2) = KRd -> data (get W k2) = DDist d2 t2 ->
  d_epoch d1 = d_epoch d2 -> k1 = k2.
Proof.
  intros HI Ho1 Hd1 Ho2 Hd2 E. rewrite (Inv15_dist_key _ _ _ _ HI Ho1 Hd1), (Inv15_dist_key _ _ _ _ HI Ho2 Hd2), E. reflexivity.
Qed.
(* the epoch about to be created does not exist yet (unless the counter is stuck at the ceiling) *)
Theorem next_epoch_not_created_yet W ck c k d t :
  Inv15 W -> owner (get W ck) = KRd -> data (get W ck) = DConfig c -> c_next_epoch c < u64_max ->
  owner (get W k) = KRd -> data (get W k) = DDist d t -> d_epoch d <> c_next_epoch c.
Proof.
  intros HI Hoc Hdc Hlt Ho Hd E.
  pose proof (epochs_below_next W k ck d t c (Inv15_C15 _ HI) Ho Hd Hoc Hdc Hlt). lia.
Qed.

(* ------------------------------------------------------------------------------------------------------------------ *)
(* 2. generic preservation                                                                                            *)

Definition configb (d : adata) : bool := match d with DConfig _ => true | _ => false end.
Definition cdb (d : adata) : bool := match d with DDist _ _ | DConfig _ => true | _ => false end.

Lemma sat1_lt a : sat_add two64 a 1 < two64.
Proof. unfold sat_add, two64. destruct (N.ltb_spec (a + 1) 18446744073709551616); lia. Qed.
Lemma sat1_mono a b : a <= b -> sat_add two64 a 1 <= sat_add two64 b 1.
Proof. unfold sat_add, two64. destruct (N.ltb_spec (a + 1) 18446744073709551616), (N.ltb_spec (b + 1) 18446744073709551616); lia. Qed.
Lemma sat1_ge a : a < two64 -> a <= sat_add two64 a 1.
Proof. unfold sat_add, two64. destruct (N.ltb_spec (a + 1) 18446744073709551616); lia. Qed.
Lemma rent_pos15 len : 0 < rent len.
Proof. unfold rent. lia. Qed.

Lemma good15_qa n k a a' : qa a a' -> good15 n k a -> good15 n k a'.
Proof.
  intros [H1 H2] [G1 G2]. split.
  - intros Ho'. destruct (cdb (data a')) eqn:Ej; [|destruct (data a'); try exact I; discriminate Ej].
    assert (Et : typedb (data a') = true) by (destruct (data a'); try discriminate Ej; reflexivity).
    destruct (H2 (conj Ho' Et)) as [Ho Ht]. destruct (H1 (conj Ho Ht)) as [E L].
    unfold hdr in E. injection E as _ Ea Ed. specialize (G1 Ho). rewrite Ed. destruct (data a); try exact I; try exact G1.
    destruct G1 as (A & B & C & D & F). repeat split; try assumption; try tauto. lia.
  - intros Hk Hn. destruct (G2 Hk Hn) as (Ho & c & Hd).
    assert (Ht : typedb (data a) = true) by (rewrite Hd; reflexivity).
    destruct (H1 (conj Ho Ht)) as [E _]. unfold hdr in E. injection E as Eo _ Ed.
    split; [congruence|]. exists c. congruence.
Qed.
Lemma I15_quiet n W W' : quiet W W' -> I15 n W -> I15 n W'.
Proof. intros HQ HI k. eapply good15_qa; [apply HQ|apply HI]. Qed.
Lemma I15_put n W k a : I15 n W -> good15 n k a -> I15 n (put W k a).
Proof. intros HI G k'. rewrite Lemmas_RdSpecs.get_put. destruct (key_eqb_spec k k') as [<-|]; [exact G|apply HI]. Qed.
Lemma I15_purge n W : I15 n W -> I15 n (purge W).
Proof.
  intros HI k. rewrite get_purge. destruct (N.eqb_spec (lamports (get W k)) 0) as [Ez|]; [|apply HI]. split.
  - intros Ho. discriminate Ho.
  - intros Hk Hn. exfalso. destruct (HI k) as (G1 & G2). destruct (G2 Hk Hn) as (Ho & c & Hd).
    specialize (G1 Ho). rewrite Hd in G1. tauto.
Qed.
Lemma I15_pointwise n (W' : world) (F : key -> acct) : (forall k, get W' k = F k) -> (forall k, good15 n k (F k)) -> I15 n W'.
Proof. intros Hg HF k. rewrite Hg. apply HF. Qed.
Ltac pointwise15 Hg := eapply I15_pointwise; [exact Hg|]; cbv beta.

(* lamports may rise on any account and fall on accounts that are not configs *)
Lemma good15_lam n k a m : good15 n k a -> (owner a = KRd -> configb (data a) = true -> lamports a <= m) ->
  good15 n k (a <| lamports := m |>).
Proof.
  intros [G1 G2] H. split; [|exact G2]. intros Ho. cbn in Ho. specialize (G1 Ho).
  change (data (a <| lamports := m |>)) with (data a). destruct (data a) eqn:Hd; try exact I; try exact G1.
  destruct G1 as (A & B & C & D & F). repeat split; try assumption; try tauto. cbn. specialize (H Ho eq_refl). lia.
Qed.
Lemma good15_alen n k a m : good15 n k a -> good15 n k (a <| alen := m |>).
Proof. intros G. exact G. Qed.
(* new data that is neither a distribution nor a config, over data that is not a config *)
Lemma good15_set_plain n k a d : good15 n k a -> configb (data a) = false -> cdb d = false -> good15 n k (a <| data := d |>).
Proof.
  intros [G1 G2] Hj Hd. split.
  - intros _. cbn. destruct d; try exact I; discriminate Hd.
  - intros Hk Hn. destruct (G2 Hk Hn) as (_ & c & E). rewrite E in Hj. discriminate Hj.
Qed.
(* a distribution rewritten with the same epoch *)
Lemma good15_dist_same n W k d t d' t' : I15 n W -> data (get W k) = DDist d t -> d_epoch d' = d_epoch d ->
  good15 n k (get W k <| data := DDist d' t' |>).
Proof.
  intros HI Hd E. destruct (HI k) as (G1 & G2). split.
  - intros Ho. cbn in Ho |- *. specialize (G1 Ho). rewrite Hd in G1. rewrite E. exact G1.
  - intros Hk Hn. destruct (G2 Hk Hn) as (_ & c & Hc). congruence.
Qed.
(* a config rewritten with the same counter and creation clock *)
Lemma good15_config_same n W k c c' : I15 n W -> owner (get W k) = KRd -> data (get W k) = DConfig c ->
  c_next_epoch c' = c_next_epoch c -> c_last_init_ts c' = c_last_init_ts c -> good15 n k (get W k <| data := DConfig c' |>).
Proof.
  intros HI Ho Hd E1 E2. destruct (HI k) as (G1 & G2). specialize (G1 Ho). rewrite Hd in G1. split.
  - intros _. cbn. rewrite E1, E2. exact G1.
  - intros _ _. split; [exact Ho|]. eexists. reflexivity.
Qed.
Lemma grow_other_15 n W k payer amt : I15 n W -> owner (get W payer) = KSystem \/ amt = 0 ->
  good15 n k ((get W k) <| lamports := lamports (get W k) - (if key_eqb payer k then amt else 0) + 0 |>).
Proof.
  intros HI Hs. apply good15_lam; [apply HI|]. intros Ho _.
  destruct (key_eqb_spec payer k) as [->|]; [destruct Hs as [Hs| ->]; [congruence|lia]|lia].
Qed.
(* moving the window up (lower bounds may rise on accounts that are not the config) *)
Lemma good15_mono n n' k a : w_lo n <= w_lo n' -> k <> KRdConfig -> good15 n k a -> good15 n' k a.
Proof.
  intros Hle Hk [G1 G2]. split; [|intros E; contradiction]. intros Ho. specialize (G1 Ho).
  destruct (data a); try exact I.
  - destruct G1 as (E & _). contradiction.
  - destruct G1 as (A & B). split; [exact A|lia].
Qed.

Ltac plain15 HI :=
  first [ apply good15_set_plain; [apply HI| |reflexivity];
          match goal with Hd : data (get ?W ?k) = _ |- configb (data (get ?W ?k)) = false => rewrite Hd; reflexivity end ].
Lemma hdr_empty_nc a o l : hdr a = (o, l, DEmpty) -> configb (data a) = false.
Proof. unfold hdr. intros H. injection H as _ _ ->. reflexivity. Qed.

(* ------------------------------------------------------------------------------------------------------------------ *)
(* 3. the processors that write typed data: all keep the window, except initialize-distribution which moves it         *)

(* the config is created with counter 0 and creation clock 0: possible only while the window sits at the origin
   (otherwise the config exists already) *)
Lemma rd_initialize_program_15 n cx W W' : rd_initialize_program cx W = Ok W' -> I15 n W -> I15 n W'.
Proof.
  intros H HI. apply rd_initialize_program_eff in H as (W1 & Q & Hh & Hl & ->). pose proof (I15_quiet _ _ _ Q HI) as I1.
  unfold hdr in Hh. injection Hh as Ho Ha Hd.
  assert (Hn : w_lo n = 0 /\ w_tlo n = 0).
  { destruct (N.eq_dec (w_lo n) 0) as [E|E], (N.eq_dec (w_tlo n) 0) as [E'|E']; try (split; assumption);
      exfalso; destruct (I1 KRdConfig) as (_ & G2); destruct (G2 eq_refl ltac:(lia)) as (_ & c & Hc); congruence. }
  destruct Hn as (Hn1 & Hn2).
  apply I15_put; [exact I1|]. split.
  - intros _. cbn [data RecordSet.set]. change (data (_ <| data := DConfig ?c |>)) with (DConfig c).
    cbv beta iota. cbn [lamports RecordSet.set c_next_epoch c_last_init_ts rd_config_default]. proj_simpl.
    pose proof (rent_pos15 LEN_CONFIG_ALLOC). unfold two64. repeat split; try lia.
  - intros _ _. split; [exact Ho|]. eexists. reflexivity.
Qed.
Lemma rd_initialize_journal_15 n cx W W' : rd_initialize_journal cx W = Ok W' -> I15 n W -> I15 n W'.
Proof.
  intros H HI. apply rd_initialize_journal_eff in H as (W1 & Q & Hh & _ & ->). pose proof (I15_quiet _ _ _ Q HI) as I1.
  apply I15_put; [exact I1|]. apply good15_set_plain; [apply I1|eapply hdr_empty_nc; exact Hh|reflexivity].
Qed.
Lemma rd_set_admin_15 n cx W k W' : rd_set_admin cx W k = Ok W' -> I15 n W -> I15 n W'.
Proof.
  intros H HI. apply rd_set_admin_guards in H as (m0 & m1 & m2 & rest & a & c & _ & _ & _ & _ & _ & _ & (Ho & Hd) & ->).
  apply I15_put; [exact HI|]. eapply good15_config_same; eauto.
Qed.
Lemma rd_migrate_15 n cx W W' : rd_migrate cx W = Ok W' -> I15 n W -> I15 n W'.
Proof.
  intros H HI. apply rd_migrate_guards in H as (m0 & m1 & m2 & rest & a & c & _ & _ & _ & _ & _ & _ & (Ho & Hd) & ->).
  apply I15_put; [exact HI|]. eapply good15_config_same; eauto.
Qed.
(* no setting touches the epoch counter or the creation clock *)
Lemma apply_setting_keeps c s c' :
  rd_apply_setting c s = Ok c' -> c_next_epoch c' = c_next_epoch c /\ c_last_init_ts c' = c_last_init_ts c.
Proof.
  destruct s; cbn [rd_apply_setting]; intros H; repeat rg_inv H; try discriminate H; injection H as <-; split; reflexivity.
Qed.
Lemma rd_configure_program_15 n cx W s W' : rd_configure_program cx W s = Ok W' -> I15 n W -> I15 n W'.
Proof.
  intros H HI. apply rd_configure_program_guards in H as (m0 & m1 & rest & c & c' & _ & _ & (Ho & Hd) & _ & _ & Hs & ->).
  apply apply_setting_keeps in Hs as (E1 & E2). apply I15_put; [exact HI|]. eapply good15_config_same; eauto.
Qed.
Lemma rd_initialize_swap_destination_15 n cx W W' : rd_initialize_swap_destination cx W = Ok W' -> I15 n W -> I15 n W'.
Proof.
  intros H HI. apply rd_initialize_swap_destination_eff in H as (ck & c & Ho & Hd & Q).
  eapply I15_quiet; [exact Q|]. apply I15_put; [exact HI|]. eapply good15_config_same; eauto.
Qed.
Lemma rd_configure_debt_15 n cx W nv debt root W' : rd_configure_debt cx W nv debt root = Ok W' -> I15 n W -> I15 n W'.
Proof.
  intros H HI. apply rd_configure_debt_guards in H as (m0 & m1 & m2 & rest & c & d & tail & _ & _ & _ & _ & _ & _ & (Ho & Hd) & _ & _ & ->).
  apply I15_put; [exact HI|]. eapply good15_dist_same; eauto.
Qed.
Lemma rd_configure_rewards_15 n cx W nc root W' : rd_configure_rewards cx W nc root = Ok W' -> I15 n W -> I15 n W'.
Proof.
  intros H HI. apply rd_configure_rewards_guards in H as (m0 & m1 & m2 & rest & c & d & tail & _ & _ & _ & _ & _ & _ & (Ho & Hd) & _ & _ & ->).
  apply I15_put; [exact HI|]. eapply good15_dist_same; eauto.
Qed.

Lemma grown_15 n W dk d tail d' extra L : I15 n W -> data (get W dk) = DDist d tail -> d_epoch d' = d_epoch d ->
  good15 n dk ((grown (get W dk) d' tail extra) <| lamports := L |>).
Proof.
  intros HI Hd S. unfold grown.
  assert (G : good15 n dk ((get W dk) <| data := DDist d' (tail ++ zeros extra) |>)) by (eapply good15_dist_same; eauto).
  destruct G as (G1 & G2). split; [|exact G2]. exact G1.
Qed.

Lemma rd_finalize_debt_15 n cx W W' : rd_finalize_debt cx W = Ok W' -> I15 n W -> I15 n W'.
Proof.
  intros H HI. apply rd_finalize_debt_spec in H as (c & dk & d & tail & F). pose proof (fd_dist_data _ _ _ _ _ _ _ F) as Hd.
  destruct (N.eq_dec (d_total_debt d - d_uncollectible d) 0) as [Ez|Enz].
  - pointwise15 (fd_zero _ _ _ _ _ _ _ F Ez). intros k. destruct (key_eqb_spec dk k) as [<-|]; [|apply HI].
    eapply good15_dist_same; eauto.
  - destruct (fd_nonzero _ _ _ _ _ _ _ F Enz) as (payer & amt & ms & G).
    pointwise15 (gf_effect _ _ _ _ _ _ _ _ _ _ _ G). intros k. destruct (key_eqb_spec dk k) as [<-|Hne].
    + eapply grown_15; eauto.
    + apply grow_other_15; [exact HI|]. exact (gf_payer_system _ _ _ _ _ _ _ _ _ _ _ G).
Qed.
Lemma rd_finalize_rewards_15 n cx W W' : rd_finalize_rewards cx W = Ok W' -> I15 n W -> I15 n W'.
Proof.
  intros H HI. apply rd_finalize_rewards_spec in H as (c & dk & d & tail & payer & amt & F).
  pose proof (fr_dist_data _ _ _ _ _ _ _ _ _ F) as Hd. destruct (finalize_rewards_grow _ _ _ _ _ _ _ _ _ F) as (ms & G).
  pointwise15 (gf_effect _ _ _ _ _ _ _ _ _ _ _ G). intros k. destruct (key_eqb_spec dk k) as [<-|Hne].
  - eapply grown_15; eauto.
  - apply grow_other_15; [exact HI|]. exact (gf_payer_system _ _ _ _ _ _ _ _ _ _ _ G).
Qed.
Lemma rd_enable_write_off_15 n cx W W' : rd_enable_write_off cx W = Ok W' -> I15 n W -> I15 n W'.
Proof.
  intros H HI. apply rd_enable_write_off_spec in H as (c & dk & d & tail & payer & amt & F).
  pose proof (ew_dist_data _ _ _ _ _ _ _ _ _ F) as Hd.
  pointwise15 (ew_effect _ _ _ _ _ _ _ _ _ F). intros k. destruct (key_eqb_spec dk k) as [<-|Hne].
  - eapply grown_15; eauto.
  - apply grow_other_15; [exact HI|]. exact (ew_payer_system _ _ _ _ _ _ _ _ _ F).
Qed.
Lemma rd_distribute_rewards_15 n cx W us ebr p W' : rd_distribute_rewards cx W us ebr p = Ok W' -> I15 n W -> I15 n W'.
Proof.
  intros H HI. apply rd_distribute_rewards_eff in H as (dk & d & tail & relayer & tr & bu & tail' & Ho & Hd & _ & _ & _ & Hg & Htok).
  intros k. destruct (key_eq_dec (owner (get W k)) KToken) as [Et|Et].
  { destruct (HI k) as (G1 & G2). split.
    - intros Ho'. rewrite (Htok k Et) in Ho'. discriminate.
    - intros Hk Hn. destruct (G2 Hk Hn) as (Ho' & _). congruence. }
  rewrite (Hg k Et). destruct (key_eqb_spec dk k) as [<-|Hne].
  - apply good15_lam; [eapply good15_dist_same; eauto|]. intros _ Hj. discriminate Hj.
  - apply good15_lam; [apply HI|]. intros _ _. lia.
Qed.
Lemma rd_write_off_15 n cx W amount p W' : rd_write_off cx W amount p = Ok W' -> I15 n W -> I15 n W'.
Proof.
  intros H HI. apply rd_write_off_spec in H as (c & dk & d & tail & pk & dp & idx & tail1 & tail2 & tk & t & ttail & F).
  pose proof (wo_dist_data _ _ _ _ _ _ _ _ _ _ _ _ _ _ _ _ _ F) as Hd.
  pose proof (wo_deposit_data _ _ _ _ _ _ _ _ _ _ _ _ _ _ _ _ _ F) as Hp.
  pointwise15 (wo_effect _ _ _ _ _ _ _ _ _ _ _ _ _ _ _ _ _ F). intros k.
  destruct (key_eqb_spec k pk) as [->|]; [plain15 HI|].
  destruct (key_eqb_spec k tk) as [->|].
  { pose proof (wo_target_read _ _ _ _ _ _ _ _ _ _ _ _ _ _ _ _ _ F) as Ht.
    destruct (key_eqb_spec tk dk) as [->|Hne].
    - destruct Ht as (-> & ->). eapply good15_dist_same; eauto.
    - eapply good15_dist_same; eauto. }
  destruct (key_eqb_spec k dk) as [->|]; [|apply HI].
  eapply good15_dist_same; eauto.
Qed.
Lemma rd_pay_debt_15 n cx W amount p W' : rd_pay_debt cx W amount p = Ok W' -> I15 n W -> I15 n W'.
Proof.
  intros H HI. apply rd_pay_debt_spec in H as (c & dk & d & tail & pk & dp & jk & j & idx & tail' & F).
  pose proof (pd_deposit_data _ _ _ _ _ _ _ _ _ _ _ _ _ _ _ F) as Hp. pose proof (pd_dist_data _ _ _ _ _ _ _ _ _ _ _ _ _ _ _ F) as Hd.
  pose proof (pd_journal_data _ _ _ _ _ _ _ _ _ _ _ _ _ _ _ F) as Hdj.
  pointwise15 (pd_effect _ _ _ _ _ _ _ _ _ _ _ _ _ _ _ F). intros k.
  destruct (key_eqb_spec k pk) as [->|].
  { apply good15_lam; [apply HI|]. intros _ Hj. rewrite Hp in Hj. discriminate Hj. }
  destruct (key_eqb_spec k jk) as [->|].
  { apply good15_set_plain; [|cbn; rewrite Hdj; reflexivity|reflexivity].
    apply good15_lam; [apply HI|]. intros _ Hj. rewrite Hdj in Hj. discriminate Hj. }
  destruct (key_eqb_spec k dk) as [->|]; [|apply HI].
  eapply good15_dist_same; eauto.
Qed.
Lemma rd_withdraw_sol_15 n cx W amount W' : rd_withdraw_sol cx W amount = Ok W' -> I15 n W -> I15 n W'.
Proof.
  intros H HI. apply rd_withdraw_sol_spec in H as (c & jk & j & dest & z & F).
  pose proof (ws_journal_data _ _ _ _ _ _ _ _ _ F) as Hdj.
  pointwise15 (ws_effect _ _ _ _ _ _ _ _ _ F). intros k. destruct (key_eqb_spec jk k) as [<-|Hne].
  - apply good15_lam; [plain15 HI|]. intros _ Hj. discriminate Hj.
  - apply good15_lam; [apply HI|]. intros _ _. lia.
Qed.
Lemma rd_sweep_15 n cx W W' : rd_sweep cx W = Ok W' -> I15 n W -> I15 n W'.
Proof.
  intros H HI. apply rd_sweep_full_spec in H as (c & dk & d & tail & jk & j & rest & C & Hz & Hnz).
  pose proof (sc_dist_owner _ _ _ _ _ _ _ _ _ C) as Hod. pose proof (sc_dist_data _ _ _ _ _ _ _ _ _ C) as Hdd.
  pose proof (sc_journal_owner _ _ _ _ _ _ _ _ _ C) as Hoj. pose proof (sc_journal_data _ _ _ _ _ _ _ _ _ C) as Hdj.
  pose proof (sc_distinct _ _ _ _ _ _ _ _ _ C) as Hne.
  destruct (N.eq_dec (d_total_debt d - d_uncollectible d) 0) as [Ez|Enz].
  - destruct (Hz Ez) as (_ & Hg). pointwise15 Hg. intros k.
    destruct (key_eqb_spec k jk) as [->|]; [plain15 HI|].
    destruct (key_eqb_spec k dk) as [->|]; [eapply good15_dist_same; eauto|apply HI].
  - destruct (Hnz Enz) as (z & cfg & st & fills & W2 & W3 & s & t & F).
    set (debt := d_total_debt d - d_uncollectible d) in *.
    destruct (sf_W2 _ _ _ _ _ _ _ _ _ _ _ _ _ _ _ _ _ _ F) as (_ & Hg2).
    assert (I2 : I15 n W2).
    { pointwise15 Hg2. intros k. destruct (key_eqb_spec k jk) as [->|]; [plain15 HI|].
      destruct (key_eqb_spec k dk) as [->|]; [eapply good15_dist_same; eauto|apply HI]. }
    destruct (sf_cpi _ _ _ _ _ _ _ _ _ _ _ _ _ _ _ _ _ _ F) as (nn & Hcpi). apply swap_dequeue_cpi_quiet in Hcpi.
    pose proof (I15_quiet _ _ _ Hcpi I2) as I3.
    assert (Xj : data (get W3 jk) = DJournal (sw_journal1 j debt)).
    { destruct (quiet_at _ _ jk Hcpi) as (_ & _ & B & _).
      - rewrite Hg2, key_eqb_refl. exact Hoj.
      - rewrite Hg2, key_eqb_refl. reflexivity.
      - rewrite Hg2, key_eqb_refl in B. exact B. }
    assert (Xd : data (get W3 dk) = DDist (sw_dist1 d) tail).
    { destruct (quiet_at _ _ dk Hcpi) as (_ & _ & B & _).
      - rewrite Hg2, (key_eqb_neq dk jk), key_eqb_refl by congruence. exact Hod.
      - rewrite Hg2, (key_eqb_neq dk jk), key_eqb_refl by congruence. reflexivity.
      - rewrite Hg2, (key_eqb_neq dk jk), key_eqb_refl in B by congruence. exact B. }
    pose proof (sf_src _ _ _ _ _ _ _ _ _ _ _ _ _ _ _ _ _ _ F) as Hs. pose proof (sf_dst _ _ _ _ _ _ _ _ _ _ _ _ _ _ _ _ _ _ F) as Ht.
    apply as_token_ok in Hs as (Hs & _). apply as_token_ok in Ht as (Ht & _).
    pointwise15 (sf_effect _ _ _ _ _ _ _ _ _ _ _ _ _ _ _ _ _ _ F). intros k.
    destruct (key_eqb_spec k jk) as [->|]; [plain15 I3|].
    destruct (key_eqb_spec k dk) as [->|]; [eapply good15_dist_same; eauto|].
    destruct (key_eqb dk KRdSwapAuth); [apply I3|].
    destruct (key_eqb_spec k (KTok2z KRdSwapAuth)) as [->|]; [plain15 I3|].
    destruct (key_eqb_spec k (KTok2z dk)) as [->|]; [plain15 I3|apply I3].
Qed.

(* initialize-distribution: the config's counter is in the window; the new distribution takes that epoch and the window
   moves past it; the creation clock becomes `now` *)
Lemma good15_hdr n k a a' : hdr a' = hdr a -> configb (data a) = false -> good15 n k a -> good15 n k a'.
Proof.
  intros Hh Hc [G1 G2]. apply hdr_fields in Hh as (Ho & _ & Hd). split.
  - rewrite Ho, Hd. intros Hoa. specialize (G1 Hoa). destruct (data a); try exact I; try exact G1. discriminate Hc.
  - rewrite Ho, Hd. exact G2.
Qed.

Lemma rd_initialize_distribution_15 n cx W W' : rd_initialize_distribution cx W = Ok W' -> I15 n W ->
  exists c, owner (get W KRdConfig) = KRd /\ data (get W KRdConfig) = DConfig c /\
    (w_lo n <= c_next_epoch c /\ c_next_epoch c <= w_hi n) /\ c_next_epoch c < two64 /\
    c_init_grace_min c <> 0 /\ c_last_init_ts c + c_init_grace_min c * 60 <= now W /\
    owner (get W (KRdDist (c_next_epoch c))) = KSystem /\
    I15 (mkWin (sat_add two64 (c_next_epoch c) 1) (sat_add two64 (w_hi n) 1) (now W) (now W) true) W'.
Proof.
  intros H HI.
  apply rd_initialize_distribution_spec in H as (m0 & m1 & m2 & m3 & m4 & m5 & m6 & m7 & m8 & m9 & rest & c & rate & burn' & _ & F).
  destruct F as [Fo Fd Fb Fg Fp Ffr Fnow Fu64 Fcfg Fdo Fda Fdd Fdr Fco Fca Fcd Fcr Fata Fframe].
  set (ck := mkey m0) in *. set (jk := mkey m7) in *. set (e := c_next_epoch c) in *.
  destruct (HI ck) as (Gc & _). specialize (Gc Fo). rewrite Fd in Gc.
  destruct Gc as (Eck & (B1 & B2) & C & D & L). fold e in B1, B2, C.
  exists c. rewrite <- Eck. fold e. split; [exact Fo|]. split; [exact Fd|]. split; [split; assumption|].
  split; [exact C|]. split; [exact Fg|]. split; [exact Fp|]. split; [exact Ffr|].
  pose proof (sat1_ge _ C) as Hge.
  intros k.
  destruct (key_eq_dec k ck) as [->|N1].
  { rewrite Fcfg. split.
    - intros _. cbn. fold e. split; [exact Eck|]. split; [split; [lia|apply sat1_mono; exact B2]|].
      split; [apply sat1_lt|]. split; [lia|exact L].
    - intros _ _. split; [exact Fo|]. eexists. reflexivity. }
  assert (Nk : k <> KRdConfig) by congruence.
  destruct (key_eq_dec k (KRdDist e)) as [->|N2].
  { split; [|intros X; contradiction]. intros _. rewrite Fdd. cbn. split; [reflexivity|]. fold e. lia. }
  destruct (key_eq_dec k (KTok2z (KRdDist e))) as [->|N3].
  { split; [|intros X; contradiction]. intros Ho. rewrite Fco in Ho. discriminate Ho. }
  assert (NC : configb (data (get W k)) = false \/ owner (get W k) <> KRd).
  { destruct (key_eq_dec (owner (get W k)) KRd) as [Ho|Ho]; [left|right; exact Ho].
    destruct (HI k) as (G & _). specialize (G Ho). destruct (data (get W k)); try reflexivity. destruct G as (G & _). contradiction. }
  apply (good15_mono n); [cbn; lia|exact Nk|].
  destruct (N.eq_dec (tok_amount W (KAta jk KMint)) 0) as [Ez|Enz].
  - destruct (Fframe k N1 N2 N3 (or_introl Ez)) as (Hh & _).
    destruct NC as [NC|NC].
    + eapply good15_hdr; [exact Hh|exact NC|apply HI].
    + apply hdr_fields in Hh as (Ho & _ & _). split; [intros X; congruence|intros X; contradiction].
  - destruct (key_eq_dec k (KAta jk KMint)) as [->|N4].
    + destruct (Fata Enz) as (t & Hot & _ & _ & _ & ->). split; [|intros X; contradiction]. cbn. intros X. congruence.
    + destruct (Fframe k N1 N2 N3 (or_intror N4)) as (Hh & _).
      destruct NC as [NC|NC].
      * eapply good15_hdr; [exact Hh|exact NC|apply HI].
      * apply hdr_fields in Hh as (Ho & _ & _). split; [intros X; congruence|intros X; contradiction].
Qed.

(* ------------------------------------------------------------------------------------------------------------------ *)
(* 4. every instruction, transaction, history                                                                         *)

Definition rd_ok15 (ix : rd_ix) : Prop := True.
(* every instruction but initialize-distribution keeps the window; initialize-distribution moves it up by one *)
Theorem rd_process_15 n cx W ix W' : rd_process cx W ix = Ok W' -> I15 n W ->
  match ix with
  | RInitializeDistribution =>
      exists c, owner (get W KRdConfig) = KRd /\ data (get W KRdConfig) = DConfig c /\
        (w_lo n <= c_next_epoch c /\ c_next_epoch c <= w_hi n) /\ c_next_epoch c < two64 /\
        c_init_grace_min c <> 0 /\ c_last_init_ts c + c_init_grace_min c * 60 <= now W /\
        owner (get W (KRdDist (c_next_epoch c))) = KSystem /\
        I15 (mkWin (sat_add two64 (c_next_epoch c) 1) (sat_add two64 (w_hi n) 1) (now W) (now W) true) W'
  | _ => I15 n W'
  end.
Proof.
  destruct ix; cbn [rd_process]; intros H HI.
  - eapply rd_initialize_program_15; eassumption.
  - eapply rd_migrate_15; eassumption.
  - eapply rd_set_admin_15; eassumption.
  - eapply rd_configure_program_15; eassumption.
  - eapply rd_initialize_journal_15; eassumption.
  - eapply rd_initialize_distribution_15; eassumption.
  - eapply rd_configure_debt_15; eassumption.
  - eapply rd_finalize_debt_15; eassumption.
  - eapply rd_configure_rewards_15; eassumption.
  - eapply rd_finalize_rewards_15; eassumption.
  - eapply rd_distribute_rewards_15; eassumption.
  - eapply I15_quiet; [eapply rd_initialize_contributor_quiet; exact H|exact HI].
  - eapply I15_quiet; [eapply rd_set_rewards_manager_quiet; exact H|exact HI].
  - eapply I15_quiet; [eapply rd_configure_contributor_quiet; exact H|exact HI].
  - eapply I15_quiet; [eapply rd_verify_root_quiet; exact H|exact HI].
  - eapply I15_quiet; [eapply rd_initialize_deposit_quiet; exact H|exact HI].
  - eapply rd_pay_debt_15; eassumption.
  - eapply rd_enable_write_off_15; eassumption.
  - eapply rd_write_off_15; eassumption.
  - eapply rd_initialize_swap_destination_15; eassumption.
  - eapply rd_sweep_15; eassumption.
  - eapply rd_withdraw_sol_15; eassumption.
Qed.

Lemma Inv15_from_quiet n0 b W W' : quiet W W' -> Inv15_from n0 b W -> Inv15_from n0 b W'.
Proof. intros Q (n & Hn & Hb & HI). exists n. split; [exact Hn|]. split; [exact Hb|eapply I15_quiet; eassumption]. Qed.
Lemma Inv15_from_rd n0 b cx W ix W' :
  cx_prog cx = KRd -> rd_ok15 ix -> rd_process cx W ix = Ok W' -> Inv15_from n0 b W -> Inv15_from n0 b W'.
Proof.
  intros _ _ H (n & Hn & Hb & HI). pose proof (rd_process_15 _ _ _ _ _ H HI) as P.
  destruct ix; try (exists n; split; [exact Hn|split; [exact Hb|exact P]]).
  destruct P as (c & _ & _ & (E1 & E2) & E3 & _ & _ & _ & HI'). eexists. split; [|split; [|exact HI']].
  - cbn [w_lo]. pose proof (sat1_ge _ E3). lia.
  - reflexivity.
Qed.
Lemma Inv15_from_purge n0 b W : Inv15_from n0 b W -> Inv15_from n0 b (purge W).
Proof. intros (n & Hn & Hb & HI). exists n. split; [exact Hn|]. split; [exact Hb|apply I15_purge; exact HI]. Qed.

Lemma ix_ok15 d : ix_ok rd_ok15 d.
Proof. induction d; cbn; auto; exact I. Qed.
Lemma tx_ok15 t : tx_ok rd_ok15 t.
Proof. apply Forall_forall. intros i _. apply ix_ok15. Qed.
Lemma op_ok15 o : op_args_ok rd_ok15 o.
Proof. destruct o; cbn; try exact I. apply tx_ok15. Qed.
Lemma Inv15_from_0 W : Inv15 W <-> Inv15_from 0 false W.
Proof.
  split; [intros (n & H); exists n; split; [lia|split; [discriminate|exact H]]|intros (n & _ & _ & H); exists n; exact H].
Qed.
Lemma Inv15_from_Inv n0 b W : Inv15_from n0 b W -> Inv15 W.
Proof. intros (n & _ & _ & H). exists n. exact H. Qed.

Theorem inv_C15_data_from n0 b d prog ms h sib W W' : exec_data prog d ms h sib W = Ok W' -> Inv15_from n0 b W -> Inv15_from n0 b W'.
Proof. apply (exec_data_inv (Inv15_from n0 b) rd_ok15 (Inv15_from_quiet n0 b) (Inv15_from_rd n0 b) (fun _ => I)). apply ix_ok15. Qed.
(* EVERY transaction (any programs, any instructions, any account lists, any signers) keeps the invariant *)
Theorem inv_C15_tx_from n0 b W t W' ok : Inv15_from n0 b W -> exec_tx W t = (W', ok) -> Inv15_from n0 b W'.
Proof.
  intros HI H.
  exact (exec_tx_inv (Inv15_from n0 b) rd_ok15 (Inv15_from_quiet n0 b) (Inv15_from_rd n0 b) (fun _ => I) (Inv15_from_purge n0 b)
           W t W' ok (tx_ok15 t) H HI).
Qed.
Theorem inv_C15_tx W t W' ok : Inv15 W -> exec_tx W t = (W', ok) -> Inv15 W'.
Proof. intros HI H. apply Inv15_from_0. eapply inv_C15_tx_from; [apply Inv15_from_0; exact HI|exact H]. Qed.
Corollary C15_tx W t W' ok : Inv15 W -> exec_tx W t = (W', ok) -> Inv_C15 W'.
Proof. intros HI H. apply Inv15_C15. eapply inv_C15_tx; eassumption. Qed.

Theorem inv_C15_op_from n0 b W o :
  honest_op o -> (forall p o_, o = OCreateAta p o_ -> ~ tk (get W p)) -> Inv15_from n0 b W -> Inv15_from n0 b (fst (exec_op W o)).
Proof.
  intros Ho Hp HI.
  apply (exec_op_inv (Inv15_from n0 b) rd_ok15 (Inv15_from_quiet n0 b) (Inv15_from_rd n0 b) (fun _ => I) (Inv15_from_purge n0 b)); try assumption.
  apply op_ok15.
Qed.
Theorem inv_C15_op W o :
  honest_op o -> (forall p o_, o = OCreateAta p o_ -> ~ tk (get W p)) -> Inv15 W -> Inv15 (fst (exec_op W o)).
Proof. intros Ho Hp HI. apply Inv15_from_0. apply inv_C15_op_from; try assumption. apply Inv15_from_0. exact HI. Qed.
Theorem inv_C15_history_from n0 b ops W :
  Forall honest_op ops -> Forall wallet_pays ops -> typed_canonical W -> Inv15_from n0 b W ->
  Inv15_from n0 b (fold_left (fun W o => fst (exec_op W o)) ops W).
Proof.
  intros Hh Hw HT HI.
  apply (history_inv (Inv15_from n0 b) rd_ok15 (Inv15_from_quiet n0 b) (Inv15_from_rd n0 b) (fun _ => I) (Inv15_from_purge n0 b)); try assumption.
  apply Forall_forall. intros o _. apply op_ok15.
Qed.
Theorem inv_C15_history ops W :
  Forall honest_op ops -> Forall wallet_pays ops -> typed_canonical W -> Inv15 W ->
  Inv15 (fold_left (fun W o => fst (exec_op W o)) ops W).
Proof. intros Hh Hw HT HI. apply Inv15_from_0. apply inv_C15_history_from; try assumption. apply Inv15_from_0. exact HI. Qed.
Corollary C15_history ops W :
  Forall honest_op ops -> Forall wallet_pays ops -> typed_canonical W -> Inv15 W ->
  Inv_C15 (fold_left (fun W o => fst (exec_op W o)) ops W).
Proof. intros. apply Inv15_C15. apply inv_C15_history; assumption. Qed.

(* initial worlds: the empty world, and any world without typed revenue-distribution accounts *)
Theorem inv_C15_init :
  Inv15 world0 /\ forall W, (forall k, owner (get W k) = KRd -> data (get W k) = DEmpty) -> Inv15 W.
Proof.
  split.
  - exists (mkWin 0 0 0 0 false). intros k. rewrite get_world0. split; [intros Ho; discriminate Ho|].
    intros _ Hn; cbn in Hn. destruct Hn as [Hn|[Hn|Hn]]; [lia|lia|discriminate].
  - intros W H. exists (mkWin 0 0 0 0 false). intros k. split; [intros Ho; rewrite (H k Ho); exact I|].
    intros _ Hn; cbn in Hn. destruct Hn as [Hn|[Hn|Hn]]; [lia|lia|discriminate].
Qed.
Corollary C15_reachable ops :
  Forall honest_op ops -> Forall wallet_pays ops -> Inv_C15 (fold_left (fun W o => fst (exec_op W o)) ops world0).
Proof. intros. apply C15_history; try assumption; [apply typed_canonical_world0|exact (proj1 inv_C15_init)]. Qed.

(* ------------------------------------------------------------------------------------------------------------------ *)
(* 5. the counter and the creation clock: moved only by initialize-distribution, the counter by exactly one;           *)
(*    monotone across transactions and histories; the config, once there, stays                                        *)

(* in a world satisfying the invariant the window can be narrowed to the config's current counter and clock *)
Lemma I15_window n W k c : I15 n W -> owner (get W k) = KRd -> data (get W k) = DConfig c ->
  I15 (mkWin (c_next_epoch c) (c_next_epoch c) (c_last_init_ts c) (c_last_init_ts c) true) W.
Proof.
  intros HI Ho Hd. destruct (HI k) as (G & _). specialize (G Ho). rewrite Hd in G. destruct G as (-> & (B1 & B2) & C & D & L).
  intros k'. destruct (HI k') as (G1 & G2). split.
  - intros Ho'. specialize (G1 Ho'). destruct (data (get W k')) eqn:Hd'; try exact I.
    + destruct G1 as (-> & _). rewrite Hd in Hd'. injection Hd' as <-. cbn [w_lo w_hi w_tlo w_thi]. repeat split; try assumption; lia.
    + destruct G1 as (A & B). split; [exact A|]. cbn [w_lo]. lia.
  - intros -> _. split; [exact Ho|]. eexists. exact Hd.
Qed.
Lemma I15_config_exists n W : I15 n W -> w_ex n = true ->
  exists c, owner (get W KRdConfig) = KRd /\ data (get W KRdConfig) = DConfig c.
Proof. intros HI Hx. destruct (HI KRdConfig) as (_ & G). destruct (G eq_refl (or_intror (or_intror Hx))) as (Ho & c & Hd). eauto. Qed.
Lemma I15_config_in n W k c : I15 n W -> owner (get W k) = KRd -> data (get W k) = DConfig c ->
  (w_lo n <= c_next_epoch c /\ c_next_epoch c <= w_hi n) /\ (w_tlo n <= c_last_init_ts c /\ c_last_init_ts c <= w_thi n).
Proof. intros HI Ho Hd. destruct (HI k) as (G & _). specialize (G Ho). rewrite Hd in G. tauto. Qed.

(* (b), (c) per processor: the counter and the creation clock after ANY revenue-distribution instruction *)
Theorem counter_step cx W ix W' k c :
  Inv15 W -> rd_process cx W ix = Ok W' -> owner (get W k) = KRd -> data (get W k) = DConfig c ->
  exists c', owner (get W' KRdConfig) = KRd /\ data (get W' KRdConfig) = DConfig c' /\
    c_next_epoch c' = match ix with RInitializeDistribution => sat_add two64 (c_next_epoch c) 1 | _ => c_next_epoch c end /\
    c_last_init_ts c' = match ix with RInitializeDistribution => now W | _ => c_last_init_ts c end /\
    match ix with
    | RInitializeDistribution => c_init_grace_min c <> 0 /\ c_last_init_ts c + c_init_grace_min c * 60 <= now W
    | _ => True
    end.
Proof.
  intros (n & HI) H Ho Hd. pose proof (I15_window _ _ _ _ HI Ho Hd) as Hw.
  pose proof (rd_process_15 _ _ _ _ _ H Hw) as P.
  assert (X : forall n', I15 n' W' -> w_ex n' = true -> exists c', owner (get W' KRdConfig) = KRd /\ data (get W' KRdConfig) = DConfig c' /\
                (w_lo n' <= c_next_epoch c' /\ c_next_epoch c' <= w_hi n') /\ (w_tlo n' <= c_last_init_ts c' /\ c_last_init_ts c' <= w_thi n')).
  { intros n' HI' Hx. destruct (I15_config_exists _ _ HI' Hx) as (c' & Ho' & Hd'). exists c'. split; [exact Ho'|]. split; [exact Hd'|].
    eapply I15_config_in; eassumption. }
  destruct ix; try (destruct (X _ P eq_refl) as (c' & Ho' & Hd' & (A1 & A2) & (A3 & A4)); cbn [w_lo w_hi w_tlo w_thi] in *;
                    exists c'; repeat split; try assumption; lia).
  destruct P as (c0 & Ho0 & Hd0 & (E1 & E2) & E3 & E4 & E5 & _ & HI').
  assert (k = KRdConfig) as -> by (eapply Inv15_config_key; [exists n; exact HI|exact Ho|exact Hd]).
  rewrite Hd in Hd0. injection Hd0 as <-.
  destruct (X _ HI' eq_refl) as (c' & Ho' & Hd' & (A1 & A2) & (A3 & A4)). cbn [w_lo w_hi w_tlo w_thi] in *.
  exists c'. repeat split; try assumption; lia.
Qed.

(* across any transaction: the config stays, the counter does not decrease *)
Theorem counter_monotone_tx W t W' ok k c :
  Inv15 W -> exec_tx W t = (W', ok) -> owner (get W k) = KRd -> data (get W k) = DConfig c ->
  exists c', owner (get W' KRdConfig) = KRd /\ data (get W' KRdConfig) = DConfig c' /\ c_next_epoch c <= c_next_epoch c'.
Proof.
  intros (n & HI) H Ho Hd. pose proof (I15_window _ _ _ _ HI Ho Hd) as Hw.
  destruct (inv_C15_tx_from (c_next_epoch c) true W t W' ok) as (n' & Hn' & Hx & HI');
    [eexists; split; [|split; [|exact Hw]]; cbn; [lia|reflexivity]|exact H|].
  destruct (I15_config_exists _ _ HI' (Hx eq_refl)) as (c' & Ho' & Hd'). exists c'. split; [exact Ho'|]. split; [exact Hd'|].
  pose proof (I15_config_in _ _ _ _ HI' Ho' Hd'). lia.
Qed.
Theorem counter_monotone_history ops W k c :
  Forall honest_op ops -> Forall wallet_pays ops -> typed_canonical W -> Inv15 W ->
  owner (get W k) = KRd -> data (get W k) = DConfig c ->
  let W' := fold_left (fun W o => fst (exec_op W o)) ops W in
  exists c', owner (get W' KRdConfig) = KRd /\ data (get W' KRdConfig) = DConfig c' /\ c_next_epoch c <= c_next_epoch c'.
Proof.
  intros Hh Hw HT (n & HI) Ho Hd W'. subst W'. pose proof (I15_window _ _ _ _ HI Ho Hd) as Hwin.
  destruct (inv_C15_history_from (c_next_epoch c) true ops W Hh Hw HT) as (n' & Hn' & Hx & HI');
    [eexists; split; [|split; [|exact Hwin]]; cbn; [lia|reflexivity]|].
  destruct (I15_config_exists _ _ HI' (Hx eq_refl)) as (c' & Ho' & Hd'). exists c'. split; [exact Ho'|]. split; [exact Hd'|].
  pose proof (I15_config_in _ _ _ _ HI' Ho' Hd'). lia.
Qed.

(* ------------------------------------------------------------------------------------------------------------------ *)
(* 6. one instruction frame = quiet steps around AT MOST ONE revenue-distribution processor                            *)

Definition one_rd (W W' : world) : Prop :=
  quiet W W' \/ exists cx W1 ix, cx_prog cx = KRd /\ quiet W W1 /\ rd_process cx W1 ix = Ok W'.

Lemma withdraw_sol_cpi_case cx W cfg auth jk dest sol sib W' :
  withdraw_sol_cpi cx W cfg auth jk dest sol sib = Ok W' ->
  exists cx', cx_prog cx' = KRd /\ rd_process cx' W (RWithdrawSol sol) = Ok W'.
Proof. unfold withdraw_sol_cpi. intros H. rg_inv H. eexists. split; [|exact H]. reflexivity. Qed.
Lemma sw_buy_sol_case cx W z sol W' : sw_buy_sol cx W z sol = Ok W' -> one_rd W W'.
Proof.
  unfold sw_buy_sol. intros H. q_start W. repeat q_step H.
  apply withdraw_sol_cpi_case in H as (cx' & Hp & H). right. eexists cx', _, _. split; [exact Hp|]. split; [eassumption|exact H].
Qed.

Theorem exec_data_cases d : forall prog ms h sib W W', exec_data prog d ms h sib W = Ok W' -> one_rd W W'.
Proof.
  induction d as [i|i|i|amt|lam space o|amt|amt dec|amt|inner IH|z sol|]; intros prog ms h sib W W' H;
    cbn [exec_data] in H; apply bind_ok in H as (W1 & E & H); apply bind_ok in H as (u & _ & H); injection H as <-.
  - destruct prog; try discriminate E. left. eapply pp_process_quiet; exact E.
  - destruct prog; try discriminate E. right. eexists _, W, i. split; [|split; [apply quiet_refl|exact E]]. reflexivity.
  - destruct prog; try discriminate E. destruct i; cbn [sw_process] in E.
    + left. eapply sw_initialize_quiet; exact E.
    + eapply sw_buy_sol_case; exact E.
    + rg_inv E. rg_inv E. injection E as <-. left. eapply sw_dequeue_fills_quiet; eassumption.
  - destruct prog; try discriminate E. rg_inv E. left. eapply sys_transfer_core_quiet; exact E.
  - destruct prog; try discriminate E. rg_inv E. left. eapply sys_create_account_core_q; [exact E|apply quiet_refl].
  - destruct prog; try discriminate E. rg_inv E. left. apply tokonly_quiet. eapply tok_transfer_core_tokonly; exact E.
  - destruct prog; try discriminate E. rg_inv E. left. apply tokonly_quiet. eapply tok_transfer_core_tokonly; exact E.
  - destruct prog; try discriminate E. rg_inv E. left. apply tokonly_quiet. eapply tok_burn_core_tokonly; exact E.
  - destruct prog; try discriminate E. destruct ms as [|callee rest]; [discriminate E|]. rg_inv E. eapply IH; exact E.
  - destruct prog; try discriminate E. rg_inv E.
    match type of E with (if ?b then _ else _) = Ok _ => destruct b end.
    + rg_inv E.
      apply withdraw_sol_cpi_case in E as (cx' & Hp & E). right. eexists cx', _, _. split; [exact Hp|]. split; [|exact E].
      apply tokonly_quiet. eapply tok_transfer_checked_tokonly; eassumption.
    + revert E. destruct (nthk ms 8); intros E; try discriminate E. rg_inv E.
      apply withdraw_sol_cpi_case in E as (cx' & Hp & E). right. eexists cx', _, _. split; [exact Hp|]. split; [|exact E].
      apply quiet_refl.
  - destruct prog; injection E as <-; left; apply quiet_refl.
Qed.

(* ------------------------------------------------------------------------------------------------------------------ *)
(* 7. (b) + (c), sharp, per instruction frame (top-level or through any CPI wrapper)                                   *)

Lemma quiet_dist_none W W' k : quiet W W' -> dist_at W k = None -> dist_at W' k = None.
Proof.
  intros Q Hn. destruct (dist_at W' k) as [[d t]|] eqn:E; [exfalso|reflexivity].
  pose proof (dist_at_some_owner _ _ _ E) as Ho. pose proof (dist_at_some_data _ _ _ _ E) as Hd.
  destruct (quiet_back _ _ k Q Ho) as (Ho0 & _ & Hd0 & _); [rewrite Hd; reflexivity|].
  rewrite dist_at_of in Hn. unfold dist_of in Hn. rewrite Ho0, <- Hd0, Hd in Hn. discriminate Hn.
Qed.
Lemma quiet_config W W' k c : quiet W W' -> owner (get W k) = KRd -> data (get W k) = DConfig c ->
  owner (get W' k) = KRd /\ data (get W' k) = DConfig c.
Proof.
  intros Q Ho Hd. destruct (quiet_at _ _ k Q Ho) as (A & _ & B & _); [rewrite Hd; reflexivity|]. split; [exact A|congruence].
Qed.
Lemma hdr_dist_of a a' : hdr a' = hdr a -> dist_of a' = dist_of a.
Proof. intros H. apply hdr_fields in H as (Ho & _ & Hd). unfold dist_of. rewrite Ho, Hd. reflexivity. Qed.

Lemma rd_process_no_new_dist cx W ix W' k :
  ix <> RInitializeDistribution -> rd_process cx W ix = Ok W' -> dist_at W k = None -> dist_at W' k = None.
Proof.
  intros Hix H Hn. apply rd_process_step in H as [_ Hk]. specialize (Hk k). rewrite Hn in Hk.
  destruct (dist_at W' k) as [[d t]|]; [|reflexivity]. cbn in Hk. destruct Hk as [Hp _].
  destruct ix; cbn in Hp; try discriminate Hp. contradiction.
Qed.
(* a creation makes exactly one new distribution *)
Lemma init_dist_no_other W W' ck c rate burn' payer jk k :
  init_dist_facts W W' ck c rate burn' payer jk -> k <> KRdDist (c_next_epoch c) -> dist_at W k = None -> dist_at W' k = None.
Proof.
  intros F Nk Hn. destruct F as [Fo Fd Fb Fg Fp Ffr Fnow Fu64 Fcfg Fdo Fda Fdd Fdr Fco Fca Fcd Fcr Fata Fframe].
  destruct (key_eq_dec k ck) as [->|N1].
  { apply dist_at_data_none. intros d t. rewrite Fcfg. discriminate. }
  destruct (key_eq_dec k (KTok2z (KRdDist (c_next_epoch c)))) as [->|N3].
  { eapply dist_at_owner; [exact Fco|discriminate]. }
  assert (X : tok_amount W (KAta jk KMint) = 0 \/ k <> KAta jk KMint -> dist_at W' k = None).
  { intros Y. destruct (Fframe k N1 Nk N3 Y) as (Hh & _). rewrite !dist_at_of in *. rewrite (hdr_dist_of _ _ Hh). exact Hn. }
  destruct (N.eq_dec (tok_amount W (KAta jk KMint)) 0) as [Ez|Enz]; [apply X; left; exact Ez|].
  destruct (key_eq_dec k (KAta jk KMint)) as [->|N4]; [|apply X; right; exact N4].
  destruct (Fata Enz) as (t & _ & _ & _ & _ & E). apply dist_at_data_none. intros d t0. rewrite E. discriminate.
Qed.

(* what one instruction frame does to the epoch counter, the creation clock and the set of distributions *)
Definition counter_kept (W W' : world) (c c' : rd_config) : Prop :=
  c_next_epoch c' = c_next_epoch c /\ c_last_init_ts c' = c_last_init_ts c /\
  forall k, dist_at W k = None -> dist_at W' k = None.
Definition counter_bumped (W W' : world) (c c' : rd_config) : Prop :=
  c_next_epoch c' = sat_add two64 (c_next_epoch c) 1 /\ c_last_init_ts c' = now W /\
  c_init_grace_min c <> 0 /\ c_last_init_ts c + c_init_grace_min c * 60 <= now W /\
  dist_at W (KRdDist (c_next_epoch c)) = None /\
  (exists d, dist_at W' (KRdDist (c_next_epoch c)) = Some (d, []) /\ d_epoch d = c_next_epoch c) /\
  forall k, k <> KRdDist (c_next_epoch c) -> dist_at W k = None -> dist_at W' k = None.

Theorem rd_process_counter cx W ix W' k c :
  Inv15 W -> rd_process cx W ix = Ok W' -> owner (get W k) = KRd -> data (get W k) = DConfig c ->
  exists c', owner (get W' KRdConfig) = KRd /\ data (get W' KRdConfig) = DConfig c' /\
    match ix with RInitializeDistribution => counter_bumped W W' c c' | _ => counter_kept W W' c c' end.
Proof.
  intros HI H Ho Hd. destruct (counter_step _ _ _ _ _ _ HI H Ho Hd) as (c' & Ho' & Hd' & E1 & E2 & E3).
  exists c'. split; [exact Ho'|]. split; [exact Hd'|].
  destruct ix; try (split; [exact E1|split; [exact E2|]]; intros ?; eapply rd_process_no_new_dist; [|exact H]; discriminate).
  cbn [rd_process] in H.
  apply rd_initialize_distribution_spec in H as (m0 & m1 & m2 & m3 & m4 & m5 & m6 & m7 & m8 & m9 & rest & c0 & rate & burn' & _ & F).
  assert (X : c0 = c).
  { pose proof (idf_cfg_owner _ _ _ _ _ _ _ _ F) as Ho0. pose proof (idf_cfg_data _ _ _ _ _ _ _ _ F) as Hd0.
    pose proof (Inv15_config_key _ _ _ HI Ho0 Hd0) as Ek0. pose proof (Inv15_config_key _ _ _ HI Ho Hd) as Ek.
    rewrite Ek0 in Hd0. rewrite Ek in Hd. congruence. }
  subst c0. destruct E3 as (E3 & E4).
  split; [exact E1|]. split; [exact E2|]. split; [exact E3|]. split; [exact E4|]. split; [|split].
  - eapply dist_at_owner; [exact (idf_dist_fresh _ _ _ _ _ _ _ _ F)|discriminate].
  - eexists. split; [rewrite dist_at_of; unfold dist_of;
      rewrite (idf_dist_owner _ _ _ _ _ _ _ _ F), (idf_dist_data _ _ _ _ _ _ _ _ F); reflexivity|reflexivity].
  - intros k0. eapply init_dist_no_other; exact F.
Qed.

Theorem exec_data_counter d prog ms h sib W W' k c :
  Inv15 W -> exec_data prog d ms h sib W = Ok W' -> owner (get W k) = KRd -> data (get W k) = DConfig c ->
  exists c', owner (get W' KRdConfig) = KRd /\ data (get W' KRdConfig) = DConfig c' /\
    (counter_kept W W' c c' \/ counter_bumped W W' c c').
Proof.
  intros HI H Ho Hd. pose proof (exec_data_step _ _ _ _ _ _ _ H) as [Hnow _].
  assert (Ek : k = KRdConfig) by (eapply Inv15_config_key; eassumption). subst k.
  destruct (exec_data_cases _ _ _ _ _ _ _ H) as [Q|(cx & W1 & ix & _ & Q & P)].
  - destruct (quiet_config _ _ _ _ Q Ho Hd) as (Ho' & Hd'). exists c. split; [exact Ho'|]. split; [exact Hd'|]. left.
    split; [reflexivity|]. split; [reflexivity|]. intros k0. apply quiet_dist_none. exact Q.
  - destruct (quiet_config _ _ _ _ Q Ho Hd) as (Ho1 & Hd1).
    assert (HI1 : Inv15 W1) by (destruct HI as (n & HI); exists n; eapply I15_quiet; eassumption).
    pose proof (rd_process_step _ _ _ _ P) as [Hn1 _].
    assert (Hnow1 : now W1 = now W) by congruence.
    destruct (rd_process_counter _ _ _ _ _ _ HI1 P Ho1 Hd1) as (c' & Ho' & Hd' & R).
    exists c'. split; [exact Ho'|]. split; [exact Hd'|].
    destruct ix; try (left; destruct R as (R1 & R2 & R3); split; [exact R1|split; [exact R2|]];
                      intros ? ?; apply R3; eapply quiet_dist_none; eassumption).
    right. destruct R as (R1 & R2 & R3 & R4 & R5 & R6 & R7). rewrite Hnow1 in *.
    split; [exact R1|]. split; [exact R2|]. split; [exact R3|]. split; [exact R4|]. split; [|split; [exact R6|]].
    + destruct (dist_at W (KRdDist (c_next_epoch c))) as [x|] eqn:E; [|reflexivity].
      exfalso. revert R5. assert (Y : dist_at W1 (KRdDist (c_next_epoch c)) = Some x); [|rewrite Y; discriminate].
      pose proof (dist_at_some_owner _ _ _ E) as Hox. destruct x as [dx tx]. pose proof (dist_at_some_data _ _ _ _ E) as Hdx.
      destruct (quiet_at _ _ _ Q Hox) as (A & _ & B & _); [rewrite Hdx; reflexivity|].
      rewrite dist_at_of. unfold dist_of. rewrite A, B, Hdx. reflexivity.
    + intros k0 Nk0 Hk0. apply R7; [exact Nk0|]. eapply quiet_dist_none; eassumption.
Qed.

(* ------------------------------------------------------------------------------------------------------------------ *)
(* 8. (b) + (c) per TRANSACTION: at most one creation, because a second one in the same transaction (same clock)      *)
(*    would have to wait a non-zero grace period after the first                                                       *)

(* the counter moved by one in a transaction started in W0: the creation clock is the transaction's clock, some non-zero
   grace period (the one configured at that moment) had elapsed since the previous creation, the new distribution is
   the one of the old counter, no other distribution appeared *)
Definition tx_bumped (W0 W : world) (c0 c : rd_config) : Prop :=
  c_next_epoch c = sat_add two64 (c_next_epoch c0) 1 /\ c_last_init_ts c = now W0 /\
  (exists g, g <> 0 /\ c_last_init_ts c0 + g * 60 <= now W0) /\
  dist_at W0 (KRdDist (c_next_epoch c0)) = None /\
  forall k, k <> KRdDist (c_next_epoch c0) -> dist_at W0 k = None -> dist_at W k = None.

Lemma exec_ixs_counter t W0 c0 ixs : forall prev W W' c,
  exec_ixs t ixs prev W = Ok W' -> Inv15 W -> now W = now W0 ->
  (forall k, dist_at W0 k <> None -> dist_at W k <> None) ->
  owner (get W KRdConfig) = KRd -> data (get W KRdConfig) = DConfig c ->
  counter_kept W0 W c0 c \/ tx_bumped W0 W c0 c ->
  Inv15 W' /\ now W' = now W0 /\ exists c', owner (get W' KRdConfig) = KRd /\ data (get W' KRdConfig) = DConfig c' /\
    (counter_kept W0 W' c0 c' \/ tx_bumped W0 W' c0 c').
Proof.
  induction ixs as [|i tl IH]; intros prev W W' c H HI Hnow Hper Ho Hd St; cbn [exec_ixs] in H.
  - injection H as <-. split; [exact HI|]. split; [exact Hnow|]. exists c. auto.
  - apply bind_ok in H as (W1 & E & H).
    assert (HI1 : Inv15 W1).
    { apply Inv15_from_0. eapply inv_C15_data_from; [exact E|]. apply Inv15_from_0. exact HI. }
    pose proof (exec_data_step _ _ _ _ _ _ _ E) as [Hn1 Hk1].
    destruct (exec_data_counter _ _ _ _ _ _ _ _ _ HI E Ho Hd) as (c1 & Ho1 & Hd1 & R).
    eapply (IH _ W1 W' c1); try eassumption; [congruence| |].
    + intros k Hk. specialize (Hper k Hk). specialize (Hk1 k). unfold krel in Hk1.
      destruct (dist_at W k) as [[d tl0]|]; [|contradiction]. destruct (dist_at W1 k) as [[d1 tl1]|]; [discriminate|contradiction].
    + destruct St as [(S1 & S2 & S3)|(S1 & S2 & S3 & S4 & S5)], R as [(R1 & R2 & R3)|(R1 & R2 & R3 & R4 & R5 & R6 & R7)].
      * left. split; [congruence|]. split; [congruence|]. intros k Hk. apply R3, S3, Hk.
      * right. split; [congruence|]. split; [congruence|]. split; [exists (c_init_grace_min c); split; [exact R3|]; rewrite <- S2, <- Hnow; exact R4|].
        split.
        { destruct (dist_at W0 (KRdDist (c_next_epoch c0))) eqn:E0; [|reflexivity].
          exfalso. apply (Hper (KRdDist (c_next_epoch c0))); [rewrite E0; discriminate|]. rewrite <- S1. exact R5. }
        intros k Nk Hk. apply R7; [rewrite S1; exact Nk|]. apply S3, Hk.
      * right. split; [congruence|]. split; [congruence|]. split; [exact S3|]. split; [exact S4|].
        intros k Nk Hk. apply R3. apply S5; assumption.
      * exfalso. rewrite S2, Hnow in R4. lia.
Qed.

(* the end-of-transaction purge keeps the config (it holds lamports) and creates no distribution *)
Theorem tx_counter W t W' ok k c :
  Inv15 W -> exec_tx W t = (W', ok) -> owner (get W k) = KRd -> data (get W k) = DConfig c ->
  exists c', owner (get W' KRdConfig) = KRd /\ data (get W' KRdConfig) = DConfig c' /\
    (counter_kept W W' c c' \/ tx_bumped W W' c c').
Proof.
  intros HI H Ho Hd. assert (Ek : k = KRdConfig) by (eapply Inv15_config_key; eassumption). subst k.
  assert (R : exists c', owner (get W KRdConfig) = KRd /\ data (get W KRdConfig) = DConfig c' /\
                (counter_kept W W c c' \/ tx_bumped W W c c')).
  { exists c. split; [exact Ho|]. split; [exact Hd|]. left. split; [reflexivity|]. split; [reflexivity|]. auto. }
  unfold exec_tx in H. destruct (negb (tx_wf t)); [injection H as <- _; exact R|].
  destruct (exec_ixs t (tx_ixs t) None W) as [W1|e] eqn:E; [|injection H as <- _; exact R].
  destruct (rent_ok t W W1); injection H as <- _; [|exact R]. clear R.
  destruct (exec_ixs_counter t W c (tx_ixs t) None W W1 c E HI eq_refl (fun k Hk => Hk) Ho Hd) as ((n & HI1) & Hn1 & c' & Ho' & Hd' & St).
  { left. split; [reflexivity|]. split; [reflexivity|]. auto. }
  assert (L : lamports (get W1 KRdConfig) <> 0).
  { destruct (HI1 KRdConfig) as (G & _). specialize (G Ho'). rewrite Hd' in G. tauto. }
  exists c'. rewrite Lemmas_Canon.get_purge. apply N.eqb_neq in L. rewrite L. split; [exact Ho'|]. split; [exact Hd'|].
  assert (P : forall k, dist_at W1 k = None -> dist_at (purge W1) k = None).
  { intros k0 Hk0. rewrite dist_at_purge, Hk0. destruct (lamports (get W1 k0) =? 0); reflexivity. }
  destruct St as [(S1 & S2 & S3)|(S1 & S2 & S3 & S4 & S5)].
  - left. split; [exact S1|]. split; [exact S2|]. intros k0 Hk0. apply P, S3, Hk0.
  - right. split; [exact S1|]. split; [exact S2|]. split; [exact S3|]. split; [exact S4|]. intros k0 Nk0 Hk0. apply P, S5; assumption.
Qed.

(* consecutive numbering, transaction level: a distribution that appears in a transaction is the one of the old counter,
   and the counter then moved past it *)
Corollary new_distribution_is_next W t W' ok k c kd d tl :
  Inv15 W -> exec_tx W t = (W', ok) -> owner (get W k) = KRd -> data (get W k) = DConfig c ->
  dist_at W kd = None -> dist_at W' kd = Some (d, tl) ->
  kd = KRdDist (c_next_epoch c) /\ d_epoch d = c_next_epoch c /\
  exists c', owner (get W' KRdConfig) = KRd /\ data (get W' KRdConfig) = DConfig c' /\
    c_next_epoch c' = sat_add two64 (c_next_epoch c) 1 /\ c_last_init_ts c' = now W /\
    exists g, g <> 0 /\ c_last_init_ts c + g * 60 <= now W.
Proof.
  intros HI H Ho Hd Hn Hs. destruct (tx_counter _ _ _ _ _ _ HI H Ho Hd) as (c' & Ho' & Hd' & [(S1 & S2 & S3)|(S1 & S2 & S3 & S4 & S5)]).
  - rewrite (S3 kd Hn) in Hs. discriminate Hs.
  - assert (Ek : kd = KRdDist (c_next_epoch c)).
    { destruct (key_eq_dec kd (KRdDist (c_next_epoch c))) as [E|E]; [exact E|]. rewrite (S5 kd E Hn) in Hs. discriminate Hs. }
    split; [exact Ek|]. split.
    + pose proof (inv_C15_tx _ _ _ _ HI H) as HI'.
      pose proof (Inv15_dist_key _ _ _ _ HI' (dist_at_some_owner _ _ _ Hs) (dist_at_some_data _ _ _ _ Hs)) as Ek'.
      rewrite Ek in Ek'. injection Ek' as Ek'. symmetry. exact Ek'.
    + exists c'. repeat split; assumption.
Qed.

(* the counter starts at 0 with a zero creation clock: the state InitializeProgram writes *)
Theorem counter_starts_at_zero cx W W' : rd_initialize_program cx W = Ok W' ->
  exists c, owner (get W' KRdConfig) = KRd /\ data (get W' KRdConfig) = DConfig c /\ c_next_epoch c = 0 /\ c_last_init_ts c = 0.
Proof.
  intros H. apply rd_initialize_program_eff in H as (W1 & _ & Hh & _ & ->). eexists. rewrite Lemmas_RdSpecs.get_put_same.
  unfold hdr in Hh. injection Hh as Ho _ _. split; [exact Ho|]. split; [reflexivity|]. split; reflexivity.
Qed.

Print Assumptions inv_C15_tx.
Print Assumptions inv_C15_history.
Print Assumptions counter_step.
Print Assumptions exec_data_counter.
Print Assumptions tx_counter.
Print Assumptions new_distribution_is_next.
Print Assumptions counter_monotone_history.

(* ==================================================================================================================
   INDEX (Lemmas_C15b.v; all closed under the global context).  cfg c @ k in W := owner (get W k) = KRd /\ data (get W k) = DConfig c.
   definitions
     Inv_C15 W                 every distribution d and every config c of W: sat_add two64 (d_epoch d) 1 <= c_next_epoch c
     win, good15 n k a, I15 n W, Inv15 W := exists n, I15 n W        the inductive form (see the comment at the definition)
     Inv15_from n0 b W         Inv15 with window lower bound >= n0 and (b = true ->) the config exists
     one_rd W W'               quiet W W' \/ (quiet W W1 /\ rd_process cx W1 ix = Ok W' with cx_prog cx = KRd)
     counter_kept W W' c c'    next and last_init_ts equal; no distribution appears
     counter_bumped W W' c c'  next' = sat_add next 1; last' = now W; grace <> 0; last + grace * 60 <= now W; KRdDist next was no
                               distribution and is DDist d [] with d_epoch d = next afterwards; no other distribution appears
     tx_bumped W0 W c0 c       the same across a transaction, with "exists g <> 0, last0 + g * 60 <= now W0" for the grace
   (a) Inv15_C15, epochs_below_next (strict form when next < u64::MAX), Inv15_config_key, Inv15_dist_key,
       one_distribution_per_epoch, next_epoch_not_created_yet
       inv_C15_tx / C15_tx       Inv15 W -> exec_tx W t = (W', ok) -> Inv15 W' (Inv_C15 W')      EVERY transaction, no side condition
       inv_C15_data_from, inv_C15_tx_from, inv_C15_op(_from), inv_C15_history(_from), C15_history, inv_C15_init, C15_reachable
   per processor
       rd_<name>_15 (17 lemmas) + rd_process_15       every instruction keeps the window, InitializeDistribution moves it
       counter_step              next / last_init_ts after ANY rd_process; pacing facts for InitializeDistribution
       rd_process_counter        the same plus the set of distributions (counter_kept / counter_bumped)
       counter_starts_at_zero    InitializeProgram writes next = 0, last_init_ts = 0
   (b), (c) per instruction frame / transaction / history
       exec_data_cases           every instruction frame is one_rd
       exec_data_counter         Inv15 W -> exec_data .. W = Ok W' -> cfg c @ k in W -> exists c' @ KRdConfig in W',
                                 counter_kept W W' c c' \/ counter_bumped W W' c c'
       tx_counter                the same for exec_tx with counter_kept \/ tx_bumped: AT MOST ONE creation per transaction
       new_distribution_is_next  a distribution appearing in a transaction sits at KRdDist next, has epoch next, and the counter
                                 moved to sat_add next 1 with last_init_ts = now and a non-zero grace period elapsed
       counter_monotone_tx / counter_monotone_history   the config stays and next never decreases
   ================================================================================================================== *)
