(* C04 — the distribution lifecycle only moves forward; finalized figures are immutable.
   Property theorems only (proofs in Lemmas_Inv.v, Lemmas_Inv2.v, Lemmas_Inv3.v).
   Model: the whole executable model (Exec.v): EVERY transaction of any instructions of any modelled program with any
   account lists (top-level System / Token instructions and rogue CPI wrappers included), and every finite history of
   honest operations (everything except OForge, the harness' arbitrary set_account) from ANY world.
   `dist_at W k` = the distribution stored in account k (owned by the revenue-distribution program), if any. *)
From DZ Require Import Base Keys Merkle State World RD Exec Lemmas_Inv Lemmas_Inv2 Lemmas_Inv3.

Theorem C04_dist_at_def : forall W k, dist_at W k =
  (let a := get W k in if key_eqb (owner a) KRd then match data a with DDist d t => Some (d, t) | _ => None end else None).
Proof. reflexivity. Qed.
Check C04_dist_at_def : forall W k, dist_at W k =
  (let a := get W k in if key_eqb (owner a) KRd then match data a with DDist d t => Some (d, t) | _ => None end else None).
Print Assumptions C04_dist_at_def.

Theorem C04_honest_op_def : forall o, honest_op o <-> (forall k a, o <> OForge k a).
Proof. intros o. destruct o; cbn; split; try tauto; try discriminate. intros H. eapply H. reflexivity. Qed.
Check C04_honest_op_def : forall o, honest_op o <-> (forall k a, o <> OForge k a).
Print Assumptions C04_honest_op_def.

(* ---- T1: a distribution stays a distribution through every transaction unless its lamports reach zero (purge) *)
Theorem C04_dist_persists : forall W t W' ok k d tl,
  dist_at W k = Some (d, tl) -> exec_tx W t = (W', ok) ->
  (exists d' tl', dist_at W' k = Some (d', tl') /\ mono (perm_tx t) (now W) d d') \/
  (dist_at W' k = None /\ get W' k = empty_acct).
Proof. exact dist_persists. Qed.
Check C04_dist_persists : forall W t W' ok k d tl,
  dist_at W k = Some (d, tl) -> exec_tx W t = (W', ok) ->
  (exists d' tl', dist_at W' k = Some (d', tl') /\ mono (perm_tx t) (now W) d d') \/
  (dist_at W' k = None /\ get W' k = empty_acct).
Print Assumptions C04_dist_persists.

Theorem C04_persistence_needs_lamports :
  ~ (forall W t W' ok k d tl, dist_at W k = Some (d, tl) -> exec_tx W t = (W', ok) -> exists d' tl', dist_at W' k = Some (d', tl')).
Proof. exact dist_persists_unconditional_refuted. Qed.
Check C04_persistence_needs_lamports :
  ~ (forall W t W' ok k d tl, dist_at W k = Some (d, tl) -> exec_tx W t = (W', ok) -> exists d' tl', dist_at W' k = Some (d', tl')).
Print Assumptions C04_persistence_needs_lamports.

(* ---- T2: the four stage flags only ever go from false to true; the epoch never changes *)
Theorem C04_flags_monotone : forall W t W' ok k d tl d' tl',
  exec_tx W t = (W', ok) -> dist_at W k = Some (d, tl) -> dist_at W' k = Some (d', tl') ->
  implb (d_debt_final d) (d_debt_final d') = true /\ implb (d_rewards_final d) (d_rewards_final d') = true /\
  implb (d_swept d) (d_swept d') = true /\ implb (d_writeoff_enabled d) (d_writeoff_enabled d') = true /\
  d_epoch d' = d_epoch d.
Proof. exact flags_monotone. Qed.
Check C04_flags_monotone : forall W t W' ok k d tl d' tl',
  exec_tx W t = (W', ok) -> dist_at W k = Some (d, tl) -> dist_at W' k = Some (d', tl') ->
  implb (d_debt_final d) (d_debt_final d') = true /\ implb (d_rewards_final d) (d_rewards_final d') = true /\
  implb (d_swept d) (d_swept d') = true /\ implb (d_writeoff_enabled d) (d_writeoff_enabled d') = true /\
  d_epoch d' = d_epoch d.
Print Assumptions C04_flags_monotone.

(* ---- T3: after finalization the figures never change under any later instruction *)
Theorem C04_debt_figures_frozen : forall W t W' ok k d tl d' tl',
  exec_tx W t = (W', ok) -> dist_at W k = Some (d, tl) -> dist_at W' k = Some (d', tl') -> d_debt_final d = true ->
  d_total_validators d' = d_total_validators d /\ d_total_debt d' = d_total_debt d /\ d_debt_root d' = d_debt_root d.
Proof. exact debt_figures_frozen. Qed.
Check C04_debt_figures_frozen : forall W t W' ok k d tl d' tl',
  exec_tx W t = (W', ok) -> dist_at W k = Some (d, tl) -> dist_at W' k = Some (d', tl') -> d_debt_final d = true ->
  d_total_validators d' = d_total_validators d /\ d_total_debt d' = d_total_debt d /\ d_debt_root d' = d_debt_root d.
Print Assumptions C04_debt_figures_frozen.

Theorem C04_rewards_figures_frozen : forall W t W' ok k d tl d' tl',
  exec_tx W t = (W', ok) -> dist_at W k = Some (d, tl) -> dist_at W' k = Some (d', tl') -> d_rewards_final d = true ->
  d_total_contributors d' = d_total_contributors d /\ d_rewards_root d' = d_rewards_root d.
Proof. exact rewards_figures_frozen. Qed.
Check C04_rewards_figures_frozen : forall W t W' ok k d tl d' tl',
  exec_tx W t = (W', ok) -> dist_at W k = Some (d, tl) -> dist_at W' k = Some (d', tl') -> d_rewards_final d = true ->
  d_total_contributors d' = d_total_contributors d /\ d_rewards_root d' = d_rewards_root d.
Print Assumptions C04_rewards_figures_frozen.

(* ---- gates: figures are written only before finalization and only once the calculation grace period has passed
   (calc_ok nw d = the distribution's calculation_allowed_timestamp is set and <= nw) *)
Theorem C04_calc_ok_def : forall nw d, calc_ok nw d = negb (d_calc_allowed_ts d =? 0) && (d_calc_allowed_ts d <=? nw).
Proof. reflexivity. Qed.
Check C04_calc_ok_def : forall nw d, calc_ok nw d = negb (d_calc_allowed_ts d =? 0) && (d_calc_allowed_ts d <=? nw).
Print Assumptions C04_calc_ok_def.

Theorem C04_debt_figures_gate : forall W t W' ok k d tl d' tl',
  exec_tx W t = (W', ok) -> dist_at W k = Some (d, tl) -> dist_at W' k = Some (d', tl') ->
  (d_debt_final d = false /\ calc_ok (now W) d = true) \/
  (d_total_validators d' = d_total_validators d /\ d_total_debt d' = d_total_debt d /\ d_debt_root d' = d_debt_root d).
Proof. exact debt_figures_gate. Qed.
Check C04_debt_figures_gate : forall W t W' ok k d tl d' tl',
  exec_tx W t = (W', ok) -> dist_at W k = Some (d, tl) -> dist_at W' k = Some (d', tl') ->
  (d_debt_final d = false /\ calc_ok (now W) d = true) \/
  (d_total_validators d' = d_total_validators d /\ d_total_debt d' = d_total_debt d /\ d_debt_root d' = d_debt_root d).
Print Assumptions C04_debt_figures_gate.

Theorem C04_rewards_figures_gate : forall W t W' ok k d tl d' tl',
  exec_tx W t = (W', ok) -> dist_at W k = Some (d, tl) -> dist_at W' k = Some (d', tl') ->
  (d_rewards_final d = false /\ calc_ok (now W) d = true) \/
  (d_total_contributors d' = d_total_contributors d /\ d_rewards_root d' = d_rewards_root d).
Proof. exact rewards_figures_gate. Qed.
Check C04_rewards_figures_gate : forall W t W' ok k d tl d' tl',
  exec_tx W t = (W', ok) -> dist_at W k = Some (d, tl) -> dist_at W' k = Some (d', tl') ->
  (d_rewards_final d = false /\ calc_ok (now W) d = true) \/
  (d_total_contributors d' = d_total_contributors d /\ d_rewards_root d' = d_rewards_root d).
Print Assumptions C04_rewards_figures_gate.

(* ---- the order of the stages: created -> debt finalized -> rewards finalized -> swept -> rewards distributed;
   finalization needs the grace period; write-off is enabled and debt is paid only after debt finalization *)
Theorem C04_stage_order : forall W t W' ok k d tl d' tl',
  exec_tx W t = (W', ok) -> dist_at W k = Some (d, tl) -> dist_at W' k = Some (d', tl') ->
  (d_debt_final d = false -> d_debt_final d' = true -> calc_ok (now W) d = true) /\
  (d_rewards_final d = false -> d_rewards_final d' = true -> calc_ok (now W) d = true /\ d_debt_final d' = true) /\
  (d_swept d = false -> d_swept d' = true -> d_rewards_final d' = true) /\
  (d_writeoff_enabled d = false -> d_writeoff_enabled d' = true -> d_debt_final d' = true) /\
  (d_distributed_count d' = d_distributed_count d \/ d_swept d' = true) /\
  (d_payments_count d' = d_payments_count d \/ d_debt_final d' = true).
Proof. exact stage_order. Qed.
Check C04_stage_order : forall W t W' ok k d tl d' tl',
  exec_tx W t = (W', ok) -> dist_at W k = Some (d, tl) -> dist_at W' k = Some (d', tl') ->
  (d_debt_final d = false -> d_debt_final d' = true -> calc_ok (now W) d = true) /\
  (d_rewards_final d = false -> d_rewards_final d' = true -> calc_ok (now W) d = true /\ d_debt_final d' = true) /\
  (d_swept d = false -> d_swept d' = true -> d_rewards_final d' = true) /\
  (d_writeoff_enabled d = false -> d_writeoff_enabled d' = true -> d_debt_final d' = true) /\
  (d_distributed_count d' = d_distributed_count d \/ d_swept d' = true) /\
  (d_payments_count d' = d_payments_count d \/ d_debt_final d' = true).
Print Assumptions C04_stage_order.

(* ---- T8: a stage is entered only by its own instruction (possibly inside rogue CPI wrappers) *)
Theorem C04_mentions_def : forall r d, mentions r d =
  match d with IxRd i => i = r | IxRogueCpi inner => mentions r inner | _ => False end.
Proof. intros r d. destruct d; reflexivity. Qed.
Check C04_mentions_def : forall r d, mentions r d =
  match d with IxRd i => i = r | IxRogueCpi inner => mentions r inner | _ => False end.
Print Assumptions C04_mentions_def.

Theorem C04_stage_def :
  (forall d, flag_of SDebtFinal d = d_debt_final d) /\ (forall d, flag_of SRewardsFinal d = d_rewards_final d) /\
  (forall d, flag_of SSwept d = d_swept d) /\ (forall d, flag_of SWriteOff d = d_writeoff_enabled d) /\
  stage_ix SDebtFinal = RFinalizeDebt /\ stage_ix SRewardsFinal = RFinalizeRewards /\ stage_ix SSwept = RSweep /\
  stage_ix SWriteOff = REnableWriteOff.
Proof. repeat split; reflexivity. Qed.
Check C04_stage_def :
  (forall d, flag_of SDebtFinal d = d_debt_final d) /\ (forall d, flag_of SRewardsFinal d = d_rewards_final d) /\
  (forall d, flag_of SSwept d = d_swept d) /\ (forall d, flag_of SWriteOff d = d_writeoff_enabled d) /\
  stage_ix SDebtFinal = RFinalizeDebt /\ stage_ix SRewardsFinal = RFinalizeRewards /\ stage_ix SSwept = RSweep /\
  stage_ix SWriteOff = REnableWriteOff.
Print Assumptions C04_stage_def.

Theorem C04_flag_set_only_by : forall W t W' ok k d tl d' tl' s,
  exec_tx W t = (W', ok) -> dist_at W k = Some (d, tl) -> dist_at W' k = Some (d', tl') ->
  flag_of s d = false -> flag_of s d' = true ->
  exists i, In i (tx_ixs t) /\ mentions (stage_ix s) (i_data i).
Proof. exact flag_set_only_by. Qed.
Check C04_flag_set_only_by : forall W t W' ok k d tl d' tl' s,
  exec_tx W t = (W', ok) -> dist_at W k = Some (d, tl) -> dist_at W' k = Some (d', tl') ->
  flag_of s d = false -> flag_of s d' = true ->
  exists i, In i (tx_ixs t) /\ mentions (stage_ix s) (i_data i).
Print Assumptions C04_flag_set_only_by.

Theorem C04_created_only_by : forall W t W' ok k d' tl',
  exec_tx W t = (W', ok) -> dist_at W k = None -> dist_at W' k = Some (d', tl') ->
  (exists i, In i (tx_ixs t) /\ mentions RInitializeDistribution (i_data i)) /\ good d'.
Proof. exact created_only_by. Qed.
Check C04_created_only_by : forall W t W' ok k d' tl',
  exec_tx W t = (W', ok) -> dist_at W k = None -> dist_at W' k = Some (d', tl') ->
  (exists i, In i (tx_ixs t) /\ mentions RInitializeDistribution (i_data i)) /\
  (d_uncollectible d' <= d_total_debt d' /\ (d_debt_final d' = false -> d_uncollectible d' = 0)).
Print Assumptions C04_created_only_by.

(* ---- T7: any honest history (transactions, clock changes, airdrops, mints, ATA creations) from any world, as long as
   account k is a distribution at every point of the history (the same incarnation of the account) *)
Theorem C04_flags_monotone_run : forall ops W k d d' tl tl', Forall honest_op ops -> alive W ops k ->
  dist_at W k = Some (d, tl) -> dist_at (run W ops) k = Some (d', tl') ->
  implb (d_debt_final d) (d_debt_final d') = true /\ implb (d_rewards_final d) (d_rewards_final d') = true /\
  implb (d_swept d) (d_swept d') = true /\ implb (d_writeoff_enabled d) (d_writeoff_enabled d') = true /\
  d_epoch d' = d_epoch d.
Proof. exact flags_monotone_run. Qed.
Check C04_flags_monotone_run : forall ops W k d d' tl tl', Forall honest_op ops ->
  (forall n, dist_at (fold_left (fun W o => fst (exec_op W o)) (firstn n ops) W) k <> None) ->
  dist_at W k = Some (d, tl) -> dist_at (fold_left (fun W o => fst (exec_op W o)) ops W) k = Some (d', tl') ->
  implb (d_debt_final d) (d_debt_final d') = true /\ implb (d_rewards_final d) (d_rewards_final d') = true /\
  implb (d_swept d) (d_swept d') = true /\ implb (d_writeoff_enabled d) (d_writeoff_enabled d') = true /\
  d_epoch d' = d_epoch d.
Print Assumptions C04_flags_monotone_run.

Theorem C04_debt_figures_frozen_run : forall ops W k d d' tl tl', Forall honest_op ops -> alive W ops k ->
  dist_at W k = Some (d, tl) -> dist_at (run W ops) k = Some (d', tl') -> d_debt_final d = true ->
  d_total_validators d' = d_total_validators d /\ d_total_debt d' = d_total_debt d /\ d_debt_root d' = d_debt_root d.
Proof. exact debt_figures_frozen_run. Qed.
Check C04_debt_figures_frozen_run : forall ops W k d d' tl tl', Forall honest_op ops ->
  (forall n, dist_at (fold_left (fun W o => fst (exec_op W o)) (firstn n ops) W) k <> None) ->
  dist_at W k = Some (d, tl) -> dist_at (fold_left (fun W o => fst (exec_op W o)) ops W) k = Some (d', tl') ->
  d_debt_final d = true ->
  d_total_validators d' = d_total_validators d /\ d_total_debt d' = d_total_debt d /\ d_debt_root d' = d_debt_root d.
Print Assumptions C04_debt_figures_frozen_run.

Theorem C04_rewards_figures_frozen_run : forall ops W k d d' tl tl', Forall honest_op ops -> alive W ops k ->
  dist_at W k = Some (d, tl) -> dist_at (run W ops) k = Some (d', tl') -> d_rewards_final d = true ->
  d_total_contributors d' = d_total_contributors d /\ d_rewards_root d' = d_rewards_root d.
Proof. exact rewards_figures_frozen_run. Qed.
Check C04_rewards_figures_frozen_run : forall ops W k d d' tl tl', Forall honest_op ops ->
  (forall n, dist_at (fold_left (fun W o => fst (exec_op W o)) (firstn n ops) W) k <> None) ->
  dist_at W k = Some (d, tl) -> dist_at (fold_left (fun W o => fst (exec_op W o)) ops W) k = Some (d', tl') ->
  d_rewards_final d = true ->
  d_total_contributors d' = d_total_contributors d /\ d_rewards_root d' = d_rewards_root d.
Print Assumptions C04_rewards_figures_frozen_run.

Theorem C04_stage_order_run : forall ops W k d d' tl tl', Forall honest_op ops -> alive W ops k ->
  dist_at W k = Some (d, tl) -> dist_at (run W ops) k = Some (d', tl') ->
  (d_rewards_final d = false -> d_rewards_final d' = true -> d_debt_final d' = true) /\
  (d_swept d = false -> d_swept d' = true -> d_rewards_final d' = true) /\
  (d_writeoff_enabled d = false -> d_writeoff_enabled d' = true -> d_debt_final d' = true) /\
  (d_distributed_count d' = d_distributed_count d \/ d_swept d' = true) /\
  (d_payments_count d' = d_payments_count d \/ d_debt_final d' = true).
Proof. exact stage_order_run. Qed.
Check C04_stage_order_run : forall ops W k d d' tl tl', Forall honest_op ops ->
  (forall n, dist_at (fold_left (fun W o => fst (exec_op W o)) (firstn n ops) W) k <> None) ->
  dist_at W k = Some (d, tl) -> dist_at (fold_left (fun W o => fst (exec_op W o)) ops W) k = Some (d', tl') ->
  (d_rewards_final d = false -> d_rewards_final d' = true -> d_debt_final d' = true) /\
  (d_swept d = false -> d_swept d' = true -> d_rewards_final d' = true) /\
  (d_writeoff_enabled d = false -> d_writeoff_enabled d' = true -> d_debt_final d' = true) /\
  (d_distributed_count d' = d_distributed_count d \/ d_swept d' = true) /\
  (d_payments_count d' = d_payments_count d \/ d_debt_final d' = true).
Print Assumptions C04_stage_order_run.

(* the same without `alive`: either the account was purged at some point of the history or the whole relation holds *)
Theorem C04_run_or_purged : forall ops W k d tl d' tl', Forall honest_op ops ->
  dist_at W k = Some (d, tl) -> dist_at (run W ops) k = Some (d', tl') ->
  (exists n, dist_at (run W (firstn n ops)) k = None) \/ monoL d d'.
Proof. exact run_monoL_or_purged. Qed.
Check C04_run_or_purged : forall ops W k d tl d' tl', Forall honest_op ops ->
  dist_at W k = Some (d, tl) -> dist_at (fold_left (fun W o => fst (exec_op W o)) ops W) k = Some (d', tl') ->
  (exists n, dist_at (fold_left (fun W o => fst (exec_op W o)) (firstn n ops) W) k = None) \/ monoL d d'.
Print Assumptions C04_run_or_purged.

(* without either form of the persistence hypothesis the statement is refuted (forged world: an under-funded distribution
   and its zero-lamport token account are purged, then a NEW distribution is created at the same address) *)
Theorem C04_run_needs_alive :
  ~ (forall ops W k d tl d' tl', Forall honest_op ops ->
       dist_at W k = Some (d, tl) -> dist_at (run W ops) k = Some (d', tl') ->
       implb (d_debt_final d) (d_debt_final d') = true /\ d_relay d' = d_relay d).
Proof. exact run_unconditional_refuted. Qed.
Check C04_run_needs_alive :
  ~ (forall ops W k d tl d' tl', Forall honest_op ops ->
       dist_at W k = Some (d, tl) -> dist_at (fold_left (fun W o => fst (exec_op W o)) ops W) k = Some (d', tl') ->
       implb (d_debt_final d) (d_debt_final d') = true /\ d_relay d' = d_relay d).
Print Assumptions C04_run_needs_alive.

(* ---- exported for C05 / C10: uncollectible debt *)
Theorem C04_uncollectible_frozen_after_sweep : forall W t W' ok k d tl d' tl',
  exec_tx W t = (W', ok) -> dist_at W k = Some (d, tl) -> dist_at W' k = Some (d', tl') -> d_swept d = true ->
  d_uncollectible d' = d_uncollectible d.
Proof. exact uncollectible_frozen_after_sweep. Qed.
Check C04_uncollectible_frozen_after_sweep : forall W t W' ok k d tl d' tl',
  exec_tx W t = (W', ok) -> dist_at W k = Some (d, tl) -> dist_at W' k = Some (d', tl') -> d_swept d = true ->
  d_uncollectible d' = d_uncollectible d.
Print Assumptions C04_uncollectible_frozen_after_sweep.

Theorem C04_uncollectible_frozen_after_sweep_run : forall ops W k d d' tl tl', Forall honest_op ops -> alive W ops k ->
  dist_at W k = Some (d, tl) -> dist_at (run W ops) k = Some (d', tl') -> d_swept d = true ->
  d_uncollectible d' = d_uncollectible d.
Proof. exact uncollectible_frozen_after_sweep_run. Qed.
Check C04_uncollectible_frozen_after_sweep_run : forall ops W k d d' tl tl', Forall honest_op ops ->
  (forall n, dist_at (fold_left (fun W o => fst (exec_op W o)) (firstn n ops) W) k <> None) ->
  dist_at W k = Some (d, tl) -> dist_at (fold_left (fun W o => fst (exec_op W o)) ops W) k = Some (d', tl') ->
  d_swept d = true -> d_uncollectible d' = d_uncollectible d.
Print Assumptions C04_uncollectible_frozen_after_sweep_run.

(* the inductive invariant: good d = uncollectible <= total debt, and nothing is written off before debt finalization *)
Theorem C04_good_def : forall d, good d <-> (d_uncollectible d <= d_total_debt d /\ (d_debt_final d = false -> d_uncollectible d = 0)).
Proof. intros d. reflexivity. Qed.
Check C04_good_def : forall d, good d <-> (d_uncollectible d <= d_total_debt d /\ (d_debt_final d = false -> d_uncollectible d = 0)).
Print Assumptions C04_good_def.

Theorem C04_all_good_tx : forall W t W' ok,
  (forall k d tl, dist_at W k = Some (d, tl) -> good d) -> exec_tx W t = (W', ok) ->
  (forall k d tl, dist_at W' k = Some (d, tl) -> good d).
Proof. exact all_good_tx. Qed.
Check C04_all_good_tx : forall W t W' ok,
  (forall k d tl, dist_at W k = Some (d, tl) -> good d) -> exec_tx W t = (W', ok) ->
  (forall k d tl, dist_at W' k = Some (d, tl) -> good d).
Print Assumptions C04_all_good_tx.

Theorem C04_uncollectible_le_total_run : forall ops W, Forall honest_op ops ->
  (forall k d tl, dist_at W k = Some (d, tl) -> good d) ->
  forall k d tl, dist_at (run W ops) k = Some (d, tl) -> d_uncollectible d <= d_total_debt d.
Proof. exact uncollectible_le_total_run. Qed.
Check C04_uncollectible_le_total_run : forall ops W, Forall honest_op ops ->
  (forall k d tl, dist_at W k = Some (d, tl) -> good d) ->
  forall k d tl, dist_at (fold_left (fun W o => fst (exec_op W o)) ops W) k = Some (d, tl) -> d_uncollectible d <= d_total_debt d.
Print Assumptions C04_uncollectible_le_total_run.

Theorem C04_uncollectible_le_total_alone_not_inductive :
  (forall k d tl, dist_at ex_W_bad k = Some (d, tl) -> d_uncollectible d <= d_total_debt d) /\
  exists W' d' tl', exec_tx ex_W_bad ex_tx_configure = (W', true) /\ dist_at W' (KRdDist 7) = Some (d', tl') /\
    d_total_debt d' < d_uncollectible d'.
Proof. exact uncollectible_le_total_alone_not_inductive. Qed.
Check C04_uncollectible_le_total_alone_not_inductive :
  (forall k d tl, dist_at ex_W_bad k = Some (d, tl) -> d_uncollectible d <= d_total_debt d) /\
  exists W' d' tl', exec_tx ex_W_bad ex_tx_configure = (W', true) /\ dist_at W' (KRdDist 7) = Some (d', tl') /\
    d_total_debt d' < d_uncollectible d'.
Print Assumptions C04_uncollectible_le_total_alone_not_inductive.

(* ---- non-vacuity: a literal history [set clock; ConfigureDebt; airdrop; FinalizeDebt through a rogue CPI wrapper] *)
Theorem C04_nonvacuous :
  (Forall honest_op ex_ops /\ alive ex_W ex_ops (KRdDist 7) /\
   exists d' tl', dist_at (run ex_W ex_ops) (KRdDist 7) = Some (d', tl') /\
     d_debt_final ex_dist = false /\ d_debt_final d' = true /\ d_total_validators d' = 3 /\ d_epoch d' = 7) /\
  (exists W W' d tl d' tl', exec_tx W ex_tx_finalize = (W', true) /\ dist_at W (KRdDist 7) = Some (d, tl) /\
     dist_at W' (KRdDist 7) = Some (d', tl') /\ flag_of SDebtFinal d = false /\ flag_of SDebtFinal d' = true /\
     mentions (stage_ix SDebtFinal) (i_data (hd (Build_instr KSystem IxNoop []) (tx_ixs ex_tx_finalize)))) /\
  exec_tx ex_W ex_tx_configure = (ex_W, false).
Proof. split; [exact run_monoL_nonvacuous|]. split; [exact flag_set_only_by_nonvacuous|exact calc_gate_nonvacuous]. Qed.
Check C04_nonvacuous :
  (Forall honest_op ex_ops /\ alive ex_W ex_ops (KRdDist 7) /\
   exists d' tl', dist_at (run ex_W ex_ops) (KRdDist 7) = Some (d', tl') /\
     d_debt_final ex_dist = false /\ d_debt_final d' = true /\ d_total_validators d' = 3 /\ d_epoch d' = 7) /\
  (exists W W' d tl d' tl', exec_tx W ex_tx_finalize = (W', true) /\ dist_at W (KRdDist 7) = Some (d, tl) /\
     dist_at W' (KRdDist 7) = Some (d', tl') /\ flag_of SDebtFinal d = false /\ flag_of SDebtFinal d' = true /\
     mentions (stage_ix SDebtFinal) (i_data (hd (Build_instr KSystem IxNoop []) (tx_ixs ex_tx_finalize)))) /\
  exec_tx ex_W ex_tx_configure = (ex_W, false).
Print Assumptions C04_nonvacuous.
