(* C14 — the community burn rate never decreases, never passes its limit (itself at most 100%) and follows the ramp.
   Property theorems only.  Model: BurnRate.v (CommunityBurnRateParameters::{new, checked_update, checked_compute},
   the ConfigureProgram arm and the stamping in try_initialize_distribution).  State = (next_completed_dz_epoch, block). *)
From DZ Require Import Base Generated BurnRate Lemmas_C14.

(* the constants the model assumes are the crate's current ones *)
Theorem C14_constants : BR_MAX = 1000000000 /\ G_CBR_PARAMS_SIZE = 6 * 4 /\ BR_MAX < two32.
Proof. exact br_constants. Qed.
Check C14_constants : BR_MAX = 1000000000 /\ G_CBR_PARAMS_SIZE = 6 * 4 /\ BR_MAX < two32.
Print Assumptions C14_constants.

(* ---- well-formedness is established by new / checked_update and kept by checked_compute *)
Theorem C14_new_wf : forall i l ni nlim p, l <= BR_MAX -> ni < two32 -> nlim < two32 -> br_new i l ni nlim = Some p -> wf p.
Proof. exact new_wf. Qed.
Check C14_new_wf : forall i l ni nlim p, l <= BR_MAX -> ni < two32 -> nlim < two32 -> br_new i l ni nlim = Some p -> wf p.
Print Assumptions C14_new_wf.

Theorem C14_update_wf : forall p nl ni nlim p', 0 < next p -> nl <= BR_MAX -> ni < two32 -> nlim < two32 ->
  br_update p nl ni nlim = Some p' -> wf p'.
Proof. exact update_wf. Qed.
Check C14_update_wf : forall p nl ni nlim p', 0 < next p -> nl <= BR_MAX -> ni < two32 -> nlim < two32 ->
  br_update p nl ni nlim = Some p' -> wf p'.
Print Assumptions C14_update_wf.

Theorem C14_compute_wf : forall p r p', wf p -> br_compute p = Some (r, p') ->
  wf p' /\ r <= next p' /\ next p' <= limit p' /\ limit p' = limit p.
Proof. exact compute_wf. Qed.
Check C14_compute_wf : forall p r p', wf p -> br_compute p = Some (r, p') ->
  wf p' /\ r <= next p' /\ next p' <= limit p' /\ limit p' = limit p.
Print Assumptions C14_compute_wf.

(* the checked arithmetic of checked_compute cannot fail on a well-formed block; the rate assigned is the cached one *)
Theorem C14_compute_never_fails : forall p, wf p -> br_compute p <> None.
Proof. exact compute_never_fails. Qed.
Check C14_compute_never_fails : forall p, wf p -> br_compute p <> None.
Print Assumptions C14_compute_never_fails.

Theorem C14_compute_returns_next : forall p r p', wf p -> br_compute p = Some (r, p') -> r = next p.
Proof. exact compute_returns_next. Qed.
Check C14_compute_returns_next : forall p r p', wf p -> br_compute p = Some (r, p') -> r = next p.
Print Assumptions C14_compute_returns_next.

(* ---- arbitrary finite interleavings of distributions and accepted / rejected reconfigurations, from any state
   that is well formed (e.g. produced by `new`) or never received an initial rate (the zeroed program config) *)
Theorem C14_rates_nondecreasing : forall ops e p, pre p -> Forall op_ok ops ->
  nondec_from 0 (rates (run br_step (e, p) ops)).
Proof. exact rates_nondecreasing. Qed.
Check C14_rates_nondecreasing : forall ops e p, (wf p \/ next p = 0) -> Forall (fun o => bop_okb o = true) ops ->
  nondec_from 0 (rates (run br_step (e, p) ops)).
Print Assumptions C14_rates_nondecreasing.

Theorem C14_rates_le_limit : forall ops e p, pre p -> Forall op_ok ops ->
  Forall (fun rl => fst rl <= snd rl /\ snd rl <= BR_MAX) (rate_limits (e, p) ops).
Proof. exact rates_le_limit. Qed.
Check C14_rates_le_limit : forall ops e p, (wf p \/ next p = 0) -> Forall (fun o => bop_okb o = true) ops ->
  Forall (fun rl => fst rl <= snd rl /\ snd rl <= 1000000000) (rate_limits (e, p) ops).
Print Assumptions C14_rates_le_limit.

Theorem C14_rate_limits_are_the_rates : forall ops s, map fst (rate_limits s ops) = rates (run br_step s ops).
Proof. exact rate_limits_rates. Qed.
Check C14_rate_limits_are_the_rates : forall ops s, map fst (rate_limits s ops) = rates (run br_step s ops).
Print Assumptions C14_rate_limits_are_the_rates.

Theorem C14_limit_le_max : forall ops e p, limit p <= BR_MAX -> limit (snd (run_state br_step (e, p) ops)) <= BR_MAX.
Proof. exact limit_le_max. Qed.
Check C14_limit_le_max : forall ops e p, limit p <= BR_MAX -> limit (snd (run_state br_step (e, p) ops)) <= BR_MAX.
Print Assumptions C14_limit_le_max.

(* ---- the block as coded is observably the closed-form schedule `ramp`, for every operation sequence *)
Theorem C14_model_refines_spec : forall ops, Forall op_ok ops -> run br_step m_init ops = run spec_step s_init ops.
Proof. exact model_refines_spec. Qed.
Check C14_model_refines_spec : forall ops, Forall (fun o => bop_okb o = true) ops ->
  run br_step (0, br_default) ops = run spec_step (0, None) ops.
Print Assumptions C14_model_refines_spec.

(* ---- the three phases after a fresh `new`, for a run of n consecutive distributions (k-th distribution, k = 0, 1, ...) *)
Theorem C14_fresh_run_closed_form : forall r l ti tl p e n, l <= BR_MAX -> ti < two32 -> tl < two32 ->
  br_new r l ti tl = Some p ->
  rates (run br_step (e, p) (repeat BCompute n)) = map (fun j => rate_at r l ti tl (N.of_nat j)) (seq 0 n).
Proof. exact fresh_run_closed_form. Qed.
Check C14_fresh_run_closed_form : forall r l ti tl p e n, l <= BR_MAX -> ti < two32 -> tl < two32 ->
  br_new r l ti tl = Some p ->
  rates (run br_step (e, p) (repeat BCompute n)) = map (fun j => rate_at r l ti tl (N.of_nat j)) (seq 0 n).
Print Assumptions C14_fresh_run_closed_form.

Theorem C14_static_phase : forall r l ti tl p e n k, l <= BR_MAX -> ti < two32 -> tl < two32 -> br_new r l ti tl = Some p ->
  (k < n)%nat -> N.of_nat k < ti ->
  nth_error (rates (run br_step (e, p) (repeat BCompute n))) k = Some r.
Proof. exact static_phase. Qed.
Check C14_static_phase : forall r l ti tl p e n k, l <= BR_MAX -> ti < two32 -> tl < two32 -> br_new r l ti tl = Some p ->
  (k < n)%nat -> N.of_nat k < ti ->
  nth_error (rates (run br_step (e, p) (repeat BCompute n))) k = Some r.
Print Assumptions C14_static_phase.

Theorem C14_ramp_step : forall r l ti tl p e n k, l <= BR_MAX -> ti < two32 -> tl < two32 -> br_new r l ti tl = Some p ->
  (S k < n)%nat -> ti <= N.of_nat k + 1 -> N.of_nat k + 1 < tl ->
  exists a b, nth_error (rates (run br_step (e, p) (repeat BCompute n))) k = Some a /\
              nth_error (rates (run br_step (e, p) (repeat BCompute n))) (S k) = Some b /\
              b = a + (l - r) / (tl - ti + 1) /\ b = N.min (a + (l - r) / (tl - ti + 1)) l.
Proof. exact ramp_step. Qed.
Check C14_ramp_step : forall r l ti tl p e n k, l <= BR_MAX -> ti < two32 -> tl < two32 -> br_new r l ti tl = Some p ->
  (S k < n)%nat -> ti <= N.of_nat k + 1 -> N.of_nat k + 1 < tl ->
  exists a b, nth_error (rates (run br_step (e, p) (repeat BCompute n))) k = Some a /\
              nth_error (rates (run br_step (e, p) (repeat BCompute n))) (S k) = Some b /\
              b = a + (l - r) / (tl - ti + 1) /\ b = N.min (a + (l - r) / (tl - ti + 1)) l.
Print Assumptions C14_ramp_step.

Theorem C14_limit_phase : forall r l ti tl p e n k, l <= BR_MAX -> ti < two32 -> tl < two32 -> br_new r l ti tl = Some p ->
  (k < n)%nat -> tl <= N.of_nat k ->
  nth_error (rates (run br_step (e, p) (repeat BCompute n))) k = Some l.
Proof. exact limit_phase. Qed.
Check C14_limit_phase : forall r l ti tl p e n k, l <= BR_MAX -> ti < two32 -> tl < two32 -> br_new r l ti tl = Some p ->
  (k < n)%nat -> tl <= N.of_nat k ->
  nth_error (rates (run br_step (e, p) (repeat BCompute n))) k = Some l.
Print Assumptions C14_limit_phase.

(* ---- reconfiguration: exact acceptance condition, rejected = unchanged, initial rate only before the first distribution *)
Theorem C14_update_accepts_iff : forall p nl ni nlim,
  (exists p', br_update p nl ni nlim = Some p') <-> (next p <= nl /\ ni <> 0 /\ ni <= nlim).
Proof. exact update_accepts_iff. Qed.
Check C14_update_accepts_iff : forall p nl ni nlim,
  (exists p', br_update p nl ni nlim = Some p') <-> (next p <= nl /\ ni <> 0 /\ ni <= nlim).
Print Assumptions C14_update_accepts_iff.

Theorem C14_configure_accepts_iff : forall e p l ti tl i,
  (exists p', configure_burn_rate e p l ti tl i = Some p') <->
  (l <= BR_MAX /\ ti <> 0 /\ ti <= tl /\
   match i with Some r => e = 0 /\ r <> 0 /\ r <= l | None => next p <= l end).
Proof. exact configure_accepts_iff. Qed.
Check C14_configure_accepts_iff : forall e p l ti tl i,
  (exists p', configure_burn_rate e p l ti tl i = Some p') <->
  (l <= BR_MAX /\ ti <> 0 /\ ti <= tl /\
   match i with Some r => e = 0 /\ r <> 0 /\ r <= l | None => next p <= l end).
Print Assumptions C14_configure_accepts_iff.

Theorem C14_update_rejected_unchanged : forall s o,
  snd (br_step s o) = RRej \/ snd (br_step s o) = RFail -> fst (br_step s o) = s.
Proof. exact update_rejected_unchanged. Qed.
Check C14_update_rejected_unchanged : forall s o,
  snd (br_step s o) = RRej \/ snd (br_step s o) = RFail -> fst (br_step s o) = s.
Print Assumptions C14_update_rejected_unchanged.

Theorem C14_initial_rate_only_at_epoch_0 : forall e p l ti tl r p',
  configure_burn_rate e p l ti tl (Some r) = Some p' -> e = 0 /\ br_new r l ti tl = Some p' /\ next p' = r /\ r <> 0.
Proof. exact initial_rate_only_at_epoch_0. Qed.
Check C14_initial_rate_only_at_epoch_0 : forall e p l ti tl r p',
  configure_burn_rate e p l ti tl (Some r) = Some p' -> e = 0 /\ br_new r l ti tl = Some p' /\ next p' = r /\ r <> 0.
Print Assumptions C14_initial_rate_only_at_epoch_0.

(* ---- the executable monitor and correspondence used on implementation traces accept every trace of the model *)
Theorem C14_monitor_accepts_model : forall ops, Forall op_ok ops -> mon_C14 (br_default, 0, mtrace m_init ops) = None.
Proof. exact mon_C14_accepts_model. Qed.
Check C14_monitor_accepts_model : forall ops, Forall (fun o => bop_okb o = true) ops ->
  mon_C14 (br_default, 0, mtrace (0, br_default) ops) = None.
Print Assumptions C14_monitor_accepts_model.

Theorem C14_corr_accepts_model : forall ops s i, Forall op_ok ops -> corr_go s (mtrace s ops) i = None.
Proof. exact corr_go_model. Qed.
Check C14_corr_accepts_model : forall ops s i, Forall (fun o => bop_okb o = true) ops -> corr_go s (mtrace s ops) i = None.
Print Assumptions C14_corr_accepts_model.

(* ---- non-vacuity / sharpness witnesses (vm_compute) *)
Theorem C14_nonvacuous :
  wf ex_p /\ br_new 100000000 500000000 2 5 = Some ex_p /\ Forall op_ok ex_ops /\
  rates (run br_step m_init ex_ops) = [100000000; 200000000; 200000000; 250000000; 300000000; 300000000] /\
  rates (run br_step (7, ex_p) (repeat BCompute 8)) =
    [100000000; 100000000; 200000000; 300000000; 400000000; 500000000; 500000000; 500000000] /\
  br_compute (mkP 1000000000 1 5 1000000000 1 1000000000) = None.
Proof.
  split; [exact wf_nonvacuous|]. split; [exact ex_p_new|]. split; [exact ex_ops_ok|].
  split; [vm_compute; reflexivity|]. split; [exact phases_nonvacuous|exact compute_needs_wf].
Qed.
Print Assumptions C14_nonvacuous.
