(* C13 progress theorems, part 3: write-off, distribute-rewards, sweep, initialize-distribution; examples; index. *)
From DZ Require Import Base Keys Merkle BurnRate Shares Swap_Ring State World SwapDeq RD Passport Swap Exec Corr Builders
  Lemmas_Merkle Lemmas_Shares Lemmas_RdSpecs5 Lemmas_C13 Lemmas_C13b.

Ltac getnorm ::=
  repeat (rewrite ?get_put, ?get_debit_w, ?get_credit_w; cbn [key_eqb andb orb];
          rewrite ?N.eqb_refl, ?N.leb_refl, ?key_eqb_refl, ?hash_eqb_refl, ?orb_true_r, ?orb_false_r, ?andb_true_r, ?andb_false_r; cbn [andb orb]).
Ltac rdread ::=
  cbv beta delta [leaf_idx rd_zc_config rd_zc_dist rd_zc_journal rd_zc_deposit rd_zc_contrib rd_verified require_unpaused
    next_any next_account put_dist rd_cx mk total_sol_debt checked_sub checked_add grow_and_fund
    next_2z_token_pda next_2z_mint next_token_program];
  cbn [bind require of_option role_key
    mkey msigner mwritable negb orb andb fst snd cx_metas cx_prog key_eqb existsb is_writable is_signer has_key map eff1].

(* ------------------------------------------------------------------------------------------------------------------ *)
(* write-off (into the same epoch, as the documented procedure does for a validator that cannot pay)                    *)
Record write_off_ready (W : world) (a e : N) (node : key) (amount : N) (p : proof) (idx : N)
  (c : rd_config) (d : dist) (tail : list N) (dp : deposit) : Prop := {
  wo_cfg_owner : owner (get W KRdConfig) = KRd;
  wo_cfg_data : data (get W KRdConfig) = DConfig c;
  wo_unpaused : c_paused c = false;
  wo_accountant : c_debt_accountant c = KUser a;
  wo_dist_owner : owner (get W (KRdDist e)) = KRd;
  wo_dist_data : data (get W (KRdDist e)) = DDist d tail;
  wo_dep_owner : owner (get W (KRdDeposit node)) = KRd;
  wo_dep_data : data (get W (KRdDeposit node)) = DDeposit dp;
  wo_dep_node : dp_node dp = node;
  wo_fits : dp_written_off dp + amount < two64;
  wo_cannot_pay : lamports (get W (KRdDeposit node)) - rent (alen (get W (KRdDeposit node))) < amount;
  wo_enabled : d_writeoff_enabled d = true;
  wo_debt_final : d_debt_final d = true;
  wo_unswept : d_swept d = false;
  wo_index : leaf_index p = Some idx;
  wo_window_w : d_wo_start d <= d_wo_end d /\ d_wo_end d <= N.of_nat (length tail);
  wo_window_d : d_debt_start d <= d_debt_end d /\ d_debt_end d <= N.of_nat (length tail);
  wo_disjoint : d_wo_end d <= d_debt_start d \/ d_debt_end d <= d_wo_start d;
  wo_in_range_w : idx / 8 < d_wo_end d - d_wo_start d;
  wo_in_range_d : idx / 8 < d_debt_end d - d_debt_start d;
  wo_clear_w : range_bit tail (d_wo_start d) idx = false;
  wo_clear_d : range_bit tail (d_debt_start d) idx = false;
  wo_proof : root_from_leaf p PRE_DEBT (LDebt node amount) = d_debt_root d;
  wo_total : d_uncollectible d + amount <= d_total_debt d;
  wo_total_fits : d_total_debt d < two64
}.
Definition write_off_acct (W : world) (e : N) (node : key) (amount idx : N) (d : dist) (tail : list N) (dp : deposit) (k : key) : acct :=
  if key_eqb k (KRdDist e) then
    get W (KRdDist e) <| data := DDist (wo_tgt (wo_src d) amount)
                                      (set_bit_at (set_bit_at tail (d_wo_start d) idx) (d_debt_start d) idx) |>
  else if key_eqb k (KRdDeposit node) then
    get W (KRdDeposit node) <| data := DDeposit (dp <| dp_written_off := dp_written_off dp + amount |>) |>
  else get W k.

Theorem write_off_progress W a e node amount p idx c d tail dp :
  write_off_ready W a e node amount p idx c d tail dp ->
  exists W', exec_tx W (rd_tx [KUser a] (RWriteOff amount p) (sdk_write_off (KUser a) e node e)) = (W', true) /\
    now W' = now W /\ forall k, get W' k = purge_acct (write_off_acct W e node amount idx d tail dp k).
Proof.
  intros R. destruct R. destruct wo_window_w0 as (Hw1 & Hw2). destruct wo_window_d0 as (Hd1 & Hd2).
  assert (process_leaf tail (d_wo_start d) (d_wo_end d) idx = Ok (set_bit_at tail (d_wo_start d) idx)) as Hpl1.
  { apply process_leaf_spec. unfold set_bit_at. tauto. }
  destruct (process_leaf_range_bits _ _ _ _ _ Hpl1) as (_ & _ & _ & Hdis).
  destruct (process_leaf_bits _ _ _ _ _ Hpl1) as (Hlen1 & _).
  assert (process_leaf (set_bit_at tail (d_wo_start d) idx) (d_debt_start d) (d_debt_end d) idx
          = Ok (set_bit_at (set_bit_at tail (d_wo_start d) idx) (d_debt_start d) idx)) as Hpl2.
  { apply process_leaf_spec. unfold set_bit_at at 3. rewrite Hlen1.
    rewrite (Hdis (d_debt_start d) (d_debt_end d) idx) by (assumption || tauto). tauto. }
  assert (dp_written_off dp + amount <? two64 = true) as Hf1 by (apply N.ltb_lt; assumption).
  assert (amount <=? lamports (get W (KRdDeposit node)) - rent (alen (get W (KRdDeposit node))) = false) as Hcp by (apply N.leb_gt; assumption).
  assert (d_uncollectible d + amount <? two64 = true) as Hf2 by (apply N.ltb_lt; lia).
  assert (d_uncollectible d + amount <=? d_total_debt d = true) as Hf3 by (apply N.leb_le; assumption).
  eapply rd_tx_progress.
  - unfold sdk_write_off, tx_wf, rd_tx, msg_signer. cbn. rewrite !N.eqb_refl, ?orb_true_r. reflexivity.
  - unfold sdk_write_off. cbn [rd_process]. unfold rd_write_off. rdgo. reflexivity.
  - rewrite ?now_put. reflexivity.
  - intros k. unfold write_off_acct, wo_tgt, wo_src.
    destruct (key_eqb_spec k (KRdDist e)) as [->|N1].
    { getnorm. proj_simpl. reflexivity. }
    destruct (key_eqb_spec k (KRdDeposit node)) as [->|N2].
    { getnorm. reflexivity. }
    repeat rewrite get_put. rewrite ?(key_eqb_neq (KRdDist e) k), ?(key_eqb_neq (KRdDeposit node) k) by congruence. reflexivity.
  - apply balanced_same. intros k. repeat rewrite get_put.
    destruct (key_eqb_spec (KRdDist e) k) as [<-|]; [reflexivity|].
    destruct (key_eqb_spec (KRdDeposit node) k) as [<-|]; reflexivity.
  - intros k. unfold write_off_acct.
    destruct (key_eqb_spec k (KRdDist e)) as [->|N1]; [apply rent_transition_same; reflexivity|].
    destruct (key_eqb_spec k (KRdDeposit node)) as [->|N2]; apply rent_transition_same; reflexivity.
Qed.

Ltac closed1 ::= lazymatch goal with
  | |- forall _, _ => fail
  | |- _ \/ _ => first [left; closed1 | right; closed1]
  | |- _ => first [reflexivity | (vm_compute; reflexivity) | (vm_compute; discriminate)]
  end.

(* validator 11 owes 300 but its deposit holds only rent + 100: written off into its own epoch *)
Definition ex13_wo_world : world :=
  put (ex13_world ex_dist5w [0; 0] 0) (KRdDeposit (KUser 11))
      (ex_acct (rent LEN_DEPOSIT + 100) LEN_DEPOSIT (DDeposit {| dp_node := KUser 11; dp_written_off := 7 |})).
Example write_off_progress_nonvacuous :
  let dp := {| dp_node := KUser 11; dp_written_off := 7 |} in
  write_off_ready ex13_wo_world 2 5 (KUser 11) 300 (proof_for PRE_DEBT ex_debts 0) 0 ex13_cfg ex_dist5w [0; 0] dp /\
  let '(W', ok) := exec_tx ex13_wo_world (rd_tx [KUser 2] (RWriteOff 300 (proof_for PRE_DEBT ex_debts 0)) (sdk_write_off (KUser 2) 5 (KUser 11) 5)) in
  ok = true /\
  forallb (fun k => acct_eqb (get W' k) (purge_acct (write_off_acct ex13_wo_world 5 (KUser 11) 300 0 ex_dist5w [0; 0] dp k)))
          (KRdDeposit (KUser 11) :: ex13_keys) = true /\
  data (get W' (KRdDist 5)) = DDist (wo_tgt (wo_src ex_dist5w) 300) [1; 1].
Proof. cbv zeta. split; [constructor; closed|]. vm_compute. repeat split. Qed.

(* ------------------------------------------------------------------------------------------------------------------ *)
(* Token CPIs succeed                                                                                                  *)
Lemma as_token_put_token_other W k t k' : k <> k' -> as_token (put_token W k t) k' = as_token W k'.
Proof. intros H. unfold as_token. rewrite get_put_token, key_eqb_neq by assumption. reflexivity. Qed.

Lemma tok_transfer_ok cx W src dst auth amt pdas s d :
  has_key (cx_metas cx) KToken = true -> has_key (cx_metas cx) src = true -> has_key (cx_metas cx) dst = true ->
  has_key (cx_metas cx) auth = true ->
  is_writable (cx_metas cx) src = true -> is_writable (cx_metas cx) dst = true ->
  is_signer (cx_metas cx) auth || pda_signs (cx_prog cx) auth pdas = true ->
  as_token W src = Ok s -> as_token W dst = Ok d -> amt <= t_amount s -> t_mint s = t_mint d -> t_owner s = auth ->
  src <> dst -> t_amount d + amt < two64 ->
  exists W', tok_transfer cx W src dst auth amt pdas = Ok W'.
Proof.
  intros Hk Hks Hkd Hka Hws Hwd Hsig Hs Hd Hle Hm Ho Hne Hov.
  unfold tok_transfer, cpi_metas.
  cbn [forallb mkey msigner mwritable mk negb orb andb map].
  rewrite Hk, Hks, Hkd, Hka, Hws, Hwd, Hsig. cbn [require bind andb orb].
  unfold tok_transfer_core. rewrite Hs, Hd. cbn [bind].
  apply N.leb_le in Hle. rewrite Hle, Hm, key_eqb_refl, Ho, key_eqb_refl. cbn [require bind].
  cbn [is_signer is_writable existsb mkey msigner mwritable].
  rewrite !key_eqb_refl, ?andb_false_r, ?andb_true_r, ?orb_true_r, ?orb_false_r. cbn [andb orb require bind].
  rewrite (key_eqb_neq src dst) by assumption.
  destruct (amt =? 0); [eauto|].
  rewrite ?andb_true_r, ?orb_true_r. cbn [andb orb require bind].
  rewrite as_token_put_token_other, Hd by assumption. cbn [bind].
  apply N.ltb_lt in Hov. rewrite Hov. cbn [require bind]. eauto.
Qed.

Lemma tok_burn_ok cx W acc mint auth amt pdas s m :
  has_key (cx_metas cx) KToken = true -> has_key (cx_metas cx) acc = true -> has_key (cx_metas cx) mint = true ->
  has_key (cx_metas cx) auth = true ->
  is_writable (cx_metas cx) acc = true -> is_writable (cx_metas cx) mint = true ->
  is_signer (cx_metas cx) auth || pda_signs (cx_prog cx) auth pdas = true ->
  as_token W acc = Ok s -> as_mint W mint = Ok m -> amt <= t_amount s -> t_mint s = mint -> t_owner s = auth ->
  amt <= m_supply m ->                                   (* mint.supply.checked_sub(amount) *)
  exists W', tok_burn cx W acc mint auth amt pdas = Ok W'.
Proof.
  intros Hk Hks Hkd Hka Hws Hwd Hsig Hs Hd Hle Hm Ho Hsup.
  unfold tok_burn, cpi_metas.
  cbn [forallb mkey msigner mwritable mk negb orb andb map].
  rewrite Hk, Hks, Hkd, Hka, Hws, Hwd, Hsig. cbn [require bind andb orb].
  unfold tok_burn_core. rewrite Hs, Hd. cbn [bind].
  apply N.leb_le in Hle. rewrite Hle, Hm, key_eqb_refl, Ho, key_eqb_refl. cbn [require bind].
  cbn [is_signer is_writable existsb mkey msigner mwritable].
  rewrite !key_eqb_refl, ?andb_false_r, ?andb_true_r, ?orb_true_r, ?orb_false_r. cbn [andb orb require bind].
  destruct (amt =? 0); [eauto|].
  rewrite ?andb_true_r, ?orb_true_r. cbn [andb orb require bind].
  apply N.leb_le in Hsup. rewrite Hsup. cbn [require bind]. eauto.
Qed.

(* ------------------------------------------------------------------------------------------------------------------ *)
(* the recipient loop succeeds                                                                                         *)
(* token-side invariant of the loop: the custody account covers what is still to be sent; every remaining recipient
   ATA is an initialised 2Z token account that cannot overflow *)
Definition loop_inv (W : world) (src auth : key) (remaining : N) (recips : list (key * N)) : Prop :=
  (exists s, as_token W src = Ok s /\ t_owner s = auth /\ t_mint s = KMint /\ sumN (amounts_k remaining recips) <= t_amount s) /\
  forall e, In e recips -> exists t, as_token W (KAta (fst e) KMint) = Ok t /\ t_mint t = KMint /\
                                     t_amount t + sumN (amounts_k remaining recips) < two64.

Lemma distribute_loop_ok cx remaining src auth pdas :
  remaining < two64 -> (forall rk, src <> KAta rk KMint) ->
  has_key (cx_metas cx) KToken = true -> has_key (cx_metas cx) src = true -> has_key (cx_metas cx) auth = true ->
  is_writable (cx_metas cx) src = true -> is_signer (cx_metas cx) auth || pda_signs (cx_prog cx) auth pdas = true ->
  forall recips W atas rest acc,
    map mkey atas = map (fun e => KAta (fst e) KMint) recips ->
    Forall (fun e => snd e <= US16_MAX) recips ->
    (forall e, In e recips -> has_key (cx_metas cx) (KAta (fst e) KMint) = true /\ is_writable (cx_metas cx) (KAta (fst e) KMint) = true) ->
    loop_inv W src auth remaining recips ->
    exists W' tr, distribute_loop cx W (atas ++ rest) recips remaining src auth pdas acc = Ok (W', tr, rest).
Proof.
  intros Hrem Hsrc Hk Hks Hka Hws Hsig.
  induction recips as [|[rk share] tl IH]; intros W atas rest acc Hat Hsh Hflags Hinv.
  - destruct atas; [|discriminate Hat]. cbn [distribute_loop app]. eauto.
  - destruct atas as [|m atas]; [discriminate Hat|]. cbn [map fst] in Hat. injection Hat as Hm Hat.
    cbn [distribute_loop app]. unfold next_any, next_account. cbn [negb orb require bind]. rewrite Hm, key_eqb_refl. cbn [require bind].
    inversion Hsh as [|? ? Hs1 Hs2]; subst. cbn [snd] in Hs1.
    destruct (mul_scalar_spec US16_MAX share remaining ltac:(unfold US16_MAX; lia) ltac:(unfold US16_MAX, two64; lia) Hs1 Hrem) as (Emul & Ele & Elt).
    unfold us16_mul_scalar. rewrite Emul. cbn [of_option bind].
    set (amt := floor_share US16_MAX share remaining) in *.
    destruct Hinv as ((s & Hs & Hso & Hsm & Hsum) & Hatas). cbn [amounts_k map sumN snd] in Hsum, Hatas. fold (amounts_k remaining tl) in Hsum, Hatas. fold amt in Hsum, Hatas.
    destruct (Hatas (rk, share) (or_introl eq_refl)) as (t & Ht & Htm & Hov). cbn [fst] in Ht.
    destruct (Hflags (rk, share) (or_introl eq_refl)) as (Hkd & Hwd). cbn [fst] in Hkd, Hwd.
    destruct (tok_transfer_ok cx W src (KAta rk KMint) auth amt pdas s t) as (W1 & HW1); try assumption; try congruence; try lia.
    rewrite HW1. cbn [bind].
    apply tok_transfer_spec in HW1. destruct HW1 as (_ & _ & _ & _ & s' & t' & Hs' & Ht' & _ & _ & _ & _ & _ & Hdiff).
    rewrite Hs in Hs'. injection Hs' as <-. rewrite Ht in Ht'. injection Ht' as <-.
    destruct (Hdiff (Hsrc rk)) as (_ & Hg).
    apply (IH W1 atas rest (wadd64 acc amt) Hat Hs2).
    + intros e He. apply Hflags. right. exact He.
    + pose proof Hs as Hs0. pose proof Ht as Ht0. apply as_token_ok in Hs0, Ht0. destruct Hs0 as (Hsd & Hsow), Ht0 as (Htd & Htow).
      split.
      * exists (s <| t_amount := t_amount s - amt |>). split; [|cbn; repeat split; try assumption; lia].
        apply as_token_ok. rewrite Hg, key_eqb_refl. cbn. auto.
      * intros e He. destruct (Hatas e (or_intror He)) as (te & Hte & Htem & Hove).
        pose proof Hte as Hte0. apply as_token_ok in Hte0. destruct Hte0 as (Hted & Hteo).
        destruct (key_eqb_spec (KAta rk KMint) (KAta (fst e) KMint)) as [Eq|Neq].
        -- exists (t <| t_amount := t_amount t + amt |>). rewrite <- Eq in *. rewrite Ht in Hte. injection Hte as <-.
           split; [|cbn; split; [assumption|lia]].
           apply as_token_ok. rewrite Hg, (key_eqb_neq src) by apply Hsrc. rewrite key_eqb_refl. cbn. auto.
        -- exists te. split; [|split; [assumption|lia]].
           apply as_token_ok. rewrite Hg, (key_eqb_neq src), (key_eqb_neq (KAta rk KMint)) by (assumption || apply Hsrc). auto.
Qed.

(* ------------------------------------------------------------------------------------------------------------------ *)
(* message-level flags of a single-instruction transaction, without computing the list                                 *)
Lemma is_writable_eff1 sg ms k : is_writable (eff1 sg ms) k = is_writable ms k.
Proof.
  destruct (is_writable ms k) eqn:E.
  - unfold is_writable in E. apply existsb_exists in E as (m & Hin & Hm). apply andb_true_iff in Hm as (Hk & Hw).
    unfold is_writable, eff1. apply existsb_exists. eexists. split; [apply in_map; exact Hin|]. cbn [mkey mwritable].
    rewrite Hk. apply key_eqb_eq in Hk. rewrite Hk. cbn [andb]. apply existsb_exists. exists m. rewrite Hk, key_eqb_refl, Hw. auto.
  - destruct (is_writable (eff1 sg ms) k) eqn:E'; [|reflexivity].
    unfold is_writable at 1, eff1 in E'. apply existsb_exists in E' as (m' & Hin & Hm). apply in_map_iff in Hin as (m & <- & Hin).
    cbn [mkey mwritable] in Hm. apply andb_true_iff in Hm as (Hk & Hw). apply key_eqb_eq in Hk. rewrite Hk in Hw. congruence.
Qed.
Lemma has_key_map (g : meta -> meta) ms k : (forall m, mkey (g m) = mkey m) -> has_key (map g ms) k = has_key ms k.
Proof. intros Hg. unfold has_key. induction ms as [|m tl IH]; cbn [map existsb]; [reflexivity|]. rewrite IH, Hg. reflexivity. Qed.
Lemma has_key_eff1 sg ms k : has_key (eff1 sg ms) k = has_key ms k.
Proof. unfold eff1. apply has_key_map. reflexivity. Qed.
Lemma has_key_app a b k : has_key (a ++ b) k = has_key a k || has_key b k.
Proof. apply existsb_app. Qed.
Lemma is_writable_app a b k : is_writable (a ++ b) k = is_writable a k || is_writable b k.
Proof. apply existsb_app. Qed.

(* ------------------------------------------------------------------------------------------------------------------ *)
(* distribute-rewards                                                                                                  *)
Lemma owner_tok_add a n : owner (tok_add a n) = owner a. Proof. unfold tok_add. destruct (data a); reflexivity. Qed.
Lemma lamports_tok_add a n : lamports (tok_add a n) = lamports a. Proof. unfold tok_add. destruct (data a); reflexivity. Qed.
Lemma alen_tok_add a n : alen (tok_add a n) = alen a. Proof. unfold tok_add. destruct (data a); reflexivity. Qed.
Lemma tok_add_other a n : (forall t, data a <> DToken t) -> tok_add a n = a.
Proof. unfold tok_add. intros H. destruct (data a) eqn:E; try reflexivity. exfalso. eapply H. reflexivity. Qed.

Record distribute_ready (W : world) (e : N) (svc relayer : key) (us ebr : N) (p : proof) (idx : N)
  (c : rd_config) (d : dist) (tail : list N) (cr : contrib) (s0 : token_acct) (m : mint_acct) : Prop := {
  dr_cfg_owner : owner (get W KRdConfig) = KRd;
  dr_cfg_data : data (get W KRdConfig) = DConfig c;
  dr_unpaused : c_paused c = false;
  dr_dist_owner : owner (get W (KRdDist e)) = KRd;
  dr_dist_data : data (get W (KRdDist e)) = DDist d tail;
  dr_epoch : d_epoch d = e;
  dr_left : d_distributed_count d < d_total_contributors d;
  dr_swept : d_swept d = true;
  dr_index : leaf_index p = Some idx;
  dr_window : d_rew_start d <= d_rew_end d /\ d_rew_end d <= N.of_nat (length tail);
  dr_in_range : idx / 8 < d_rew_end d - d_rew_start d;
  dr_bit_clear : range_bit tail (d_rew_start d) idx = false;
  dr_contrib_owner : owner (get W (KRdContrib svc)) = KRd;
  dr_contrib_data : data (get W (KRdContrib svc)) = DContrib cr;
  dr_service : cr_service cr = svc;
  dr_us : us <= US32_MAX;
  dr_ebr : ebr <= US32_MAX;
  dr_proof : root_from_leaf p PRE_REWARD (LReward svc us ebr) = d_rewards_root d;
  dr_total : d_prepaid_2z d + d_swept_2z d < two64;
  dr_cbr : d_cbr d <= US32_MAX;
  dr_recipients : cr_recipients cr <> [];
  dr_shares : sumN (map snd (cr_recipients cr)) <= US16_MAX;
  (* the custody account holds this leaf's share *)
  dr_custody : as_token W (KTok2z (KRdDist e)) = Ok s0 /\ t_owner s0 = KRdDist e /\ t_mint s0 = KMint /\
               floor_share US32_MAX us (d_prepaid_2z d + d_swept_2z d) <= t_amount s0;
  dr_mint : as_mint W KMint = Ok m;
  (* the mint's supply covers what this leaf may burn (SPL Token: supply.checked_sub) *)
  dr_supply : floor_share US32_MAX us (d_prepaid_2z d + d_swept_2z d) <= m_supply m;
  (* every recipient's ATA is an initialised 2Z token account (that cannot overflow) *)
  dr_atas : forall x, In x (cr_recipients cr) -> exists t, as_token W (KAta (fst x) KMint) = Ok t /\ t_mint t = KMint /\
               t_amount t + floor_share US32_MAX us (d_prepaid_2z d + d_swept_2z d) < two64;
  (* the relay lamports were prepaid on top of the rent (C11) *)
  dr_relay_covered : rent (alen (get W (KRdDist e))) + d_relay d <= lamports (get W (KRdDist e));
  dr_relayer_rent : rent (alen (get W relayer)) <= lamports (get W relayer) + d_relay d
}.

Record distribute_cx (cx : ctx) (e : N) (svc relayer : key) (recips : list (key * N)) : Prop := {
  dc_prog : cx_prog cx = KRd;
  dc_metas : exists mc md mcr mtk mmint mrel mtok atas,
      cx_metas cx = mc :: md :: mcr :: mtk :: mmint :: mrel :: mtok :: atas /\
      mkey mc = KRdConfig /\ mkey md = KRdDist e /\ mwritable md = true /\ mkey mcr = KRdContrib svc /\
      mkey mtk = KTok2z (KRdDist e) /\ mkey mmint = KMint /\ mkey mrel = relayer /\ mwritable mrel = true /\ mkey mtok = KToken /\
      map mkey atas = map (fun x => KAta (fst x) KMint) recips;
  dc_has : forall k, In k [KToken; KRdDist e; KTok2z (KRdDist e); KMint] -> has_key (cx_metas cx) k = true;
  dc_wr : forall k, In k [KRdDist e; KTok2z (KRdDist e); KMint; relayer] -> is_writable (cx_metas cx) k = true;
  dc_atas : forall x, In x recips -> has_key (cx_metas cx) (KAta (fst x) KMint) = true /\ is_writable (cx_metas cx) (KAta (fst x) KMint) = true
}.

Lemma rd_distribute_rewards_ok cx W e svc relayer us ebr p idx c d tail cr s0 m :
  distribute_ready W e svc relayer us ebr p idx c d tail cr s0 m -> distribute_cx cx e svc relayer (cr_recipients cr) ->
  relayer <> KRdDist e ->
  exists W', rd_distribute_rewards cx W us ebr p = Ok W'.
Proof.
  intros R C Hrel. destruct R, C.
  destruct dc_metas0 as (mc & md & mcr & mtk & mmint & mrel & mtok & atas & Hms & K0 & K1 & Wr1 & K2 & K3 & K4 & K5 & Wr5 & K6 & Hat).
  destruct dr_window0 as (Hw1 & Hw2). destruct dr_custody0 as (Hs0 & Hs0o & Hs0m & Hs0a).
  assert (d_total_contributors d - d_distributed_count d =? 0 = false) as E1 by (apply N.eqb_neq; lia).
  assert (process_leaf tail (d_rew_start d) (d_rew_end d) idx = Ok (set_bit_at tail (d_rew_start d) idx)) as Hpl.
  { apply process_leaf_spec. unfold set_bit_at. tauto. }
  apply N.leb_le in dr_us0, dr_ebr0.
  unfold rd_distribute_rewards, leaf_idx.
  unfold rd_zc_config, rd_zc_dist, rd_zc_contrib, next_2z_token_pda, next_2z_mint, next_token_program, next_any, next_account, require_unpaused.
  repeat (cbn [of_option negb orb andb require bind key_eqb fst snd]; hyps_rw; rewrite ?key_eqb_refl, ?hash_eqb_refl).
  set (total := d_prepaid_2z d + d_swept_2z d) in *.
  assert (checked_add two64 (d_prepaid_2z d) (d_swept_2z d) = Some total) as Etot.
  { unfold checked_add. fold total. apply N.ltb_lt in dr_total0. rewrite dr_total0. reflexivity. }
  rewrite Etot. cbn [of_option bind].
  destruct (mul_scalar_spec US32_MAX us total ltac:(unfold US32_MAX; lia) ltac:(unfold US32_MAX, two64; lia) ltac:(apply N.leb_le; assumption) dr_total0)
    as (Eshare & Hshare_le & Hshare_lt).
  unfold us32_mul_scalar. rewrite Eshare. cbn [of_option bind].
  set (share_amt := floor_share US32_MAX us total) in *.
  assert (N.max ebr (d_cbr d) <= US32_MAX) as Hmax by (apply N.leb_le in dr_ebr0; lia).
  destruct (mul_scalar_spec US32_MAX (N.max ebr (d_cbr d)) share_amt ltac:(unfold US32_MAX; lia) ltac:(unfold US32_MAX, two64; lia) Hmax Hshare_lt)
    as (Eburn & Hburn_le & Hburn_lt).
  rewrite Eburn. cbn [of_option bind].
  set (burn0 := floor_share US32_MAX (N.max ebr (d_cbr d)) share_amt) in *.
  assert (wsub64 share_amt burn0 = share_amt - burn0) as Erem by (unfold wsub64; apply wsub_small; assumption).
  rewrite Erem. set (remaining := share_amt - burn0) in *.
  assert (remaining < two64) as Hrem by lia.
  set (src := KTok2z (KRdDist e)) in *. set (dk := KRdDist e) in *.
  assert (forall rk, src <> KAta rk KMint) as Hsrc by (intros rk; discriminate).
  pose proof (sum_shares_each _ dr_shares0) as Hall.
  pose proof (amounts_k_sum_le remaining _ dr_shares0) as Hsum.
  assert (is_signer (cx_metas cx) dk || pda_signs (cx_prog cx) dk [dk] = true) as Hsig.
  { unfold pda_signs. rewrite dc_prog0. subst dk. cbn. rewrite N.eqb_refl. apply orb_true_r. }
  destruct (distribute_loop_ok cx remaining src dk [dk] Hrem Hsrc (dc_has0 KToken ltac:(cbn; tauto)) (dc_has0 src ltac:(cbn; tauto))
              (dc_has0 dk ltac:(cbn; tauto)) (dc_wr0 src ltac:(cbn; tauto)) Hsig (cr_recipients cr) W atas [] 0 Hat Hall dc_atas0)
    as (W0 & tr & Hloop).
  { split.
    - exists s0. repeat split; try assumption. lia.
    - intros x Hx. destruct (dr_atas0 x Hx) as (t & Ht & Htm & Hov). exists t. repeat split; try assumption. lia. }
  rewrite app_nil_r in Hloop. rewrite Hloop. cbn [bind].
  assert (Forall (fun x : key * N => snd x < two64) (cr_recipients cr)) as Hall64.
  { eapply Forall_impl; [|exact Hall]. cbn. intros. unfold US16_MAX, two64 in *. lia. }
  pose proof (distribute_loop_spec cx remaining src dk [dk] Hrem Hsrc (cr_recipients cr) W atas 0 W0 tr [] Hall64 Hloop) as Hspec.
  cbv zeta in Hspec. destruct Hspec as (_ & Etr & _ & _ & _ & Hg0).
  rewrite N.add_0_l, N.mod_small in Etr by lia. subst tr.
  set (sent := sumN (amounts_k remaining (cr_recipients cr))) in *.
  assert (negb (length (cr_recipients cr) =? 0)%nat = true) as Hne by (destruct (cr_recipients cr); [contradiction|reflexivity]).
  rewrite Hne. cbn [require bind]. proj_simpl.
  assert (wadd64 burn0 (wsub64 remaining sent) = share_amt - sent) as Eb.
  { unfold wsub64. rewrite wsub_small by lia. unfold wadd64. rewrite wadd_small by lia. lia. }
  rewrite Eb.
  assert (get W0 dk = get W dk) as G0dk.
  { rewrite Hg0, (key_eqb_neq src dk) by discriminate. apply tok_add_other. rewrite dr_dist_data0. discriminate. }
  unfold put_dist. rewrite write_data_go by (try apply dc_wr0; cbn; try tauto; rewrite G0dk, dc_prog0; assumption).
  set (W1 := put W0 dk _). cbn [bind].
  assert (exists s1, as_token W1 src = Ok s1 /\ t_owner s1 = dk /\ t_mint s1 = KMint /\ t_amount s1 = t_amount s0 - sent) as (s1 & Hs1 & Hs1o & Hs1m & Hs1a).
  { exists (s0 <| t_amount := t_amount s0 - sent |>). split; [|cbn; auto].
    apply as_token_ok. apply as_token_ok in Hs0. destruct Hs0 as (D & O).
    subst W1. rewrite get_put_other by discriminate. rewrite Hg0, key_eqb_refl, (tok_sub_token _ _ _ D). cbn. auto. }
  assert (as_mint W1 KMint = Ok m) as Hm1.
  { apply as_mint_ok. apply as_mint_ok in dr_mint0. destruct dr_mint0 as (D & O).
    subst W1. rewrite get_put_other by discriminate. rewrite Hg0, (key_eqb_neq src KMint) by discriminate.
    rewrite tok_add_other by (rewrite D; discriminate). auto. }
  destruct (tok_burn_ok cx W1 src KMint dk (share_amt - sent) [dk] s1 m) as (W2 & HW2); try assumption;
    try (apply dc_has0; cbn; tauto); try (apply dc_wr0; cbn; tauto); try lia.
  rewrite HW2. cbn [bind].
  pose proof (tok_burn_fields _ _ _ _ _ _ _ _ HW2) as Hf2.
  rewrite credit_go by (apply dc_wr0; cbn; tauto). cbn [bind].
  assert (get (credit_w W2 relayer (d_relay d)) dk = get W2 dk) as G3 by (rewrite get_credit_w, key_eqb_neq by assumption; reflexivity).
  destruct (Hf2 dk) as (L2 & O2 & _).
  assert (get W1 dk = get W0 dk <| data := DDist (d <| d_distributed_2z := wadd64 (d_distributed_2z d) sent |> <| d_burned_2z := wadd64 (d_burned_2z d) (share_amt - sent) |> <| d_distributed_count := wadd32 (d_distributed_count d) 1 |>) (set_bit_at tail (d_rew_start d) idx) |>) as G1
    by (subst W1; apply get_put_same).
  rewrite debit_go; [eauto| apply dc_wr0; cbn; tauto | |].
  - rewrite G3, O2, G1. proj_simpl. rewrite G0dk, dc_prog0. assumption.
  - rewrite G3, L2, G1. proj_simpl. rewrite G0dk. lia.
Qed.

(* success together with the exact outcome (the record of Lemmas_RdSpecs5: amounts, custody, mint, recipients, relay) *)
Lemma rd_distribute_rewards_full cx W e svc relayer us ebr p idx c d tail cr s0 m :
  distribute_ready W e svc relayer us ebr p idx c d tail cr s0 m -> distribute_cx cx e svc relayer (cr_recipients cr) ->
  relayer <> KRdDist e ->
  exists W1 share_amt burn0 transferred burn,
    rd_distribute_rewards cx W us ebr p = Ok W1 /\
    distribute_outcome W W1 us ebr (KRdDist e) d (set_bit_at tail (d_rew_start d) idx) cr relayer share_amt burn0 transferred burn s0 m.
Proof.
  intros R C Hrel. destruct (rd_distribute_rewards_ok cx W e svc relayer us ebr p idx c d tail cr s0 m R C Hrel) as (W1 & HW1).
  exists W1. destruct (rd_distribute_rewards_spec _ _ _ _ _ _ HW1) as (c' & dk' & d' & tail0 & crk' & cr' & relayer' & idx' & tail'' & G & O).
  destruct R, C. destruct G.
  destruct dc_metas0 as (mc & md & mcr & mtk & mmint & mrel & mtok & atas & Hms & K0 & K1 & Wr1 & K2 & K3 & K4 & K5 & Wr5 & K6 & Hat).
  destruct dg_metas as (mc' & md' & mcr' & mtk' & mmint' & mrel' & mtok' & atas' & rest' & Hms' & L1 & _ & L2 & _ & _ & L5 & _ & _ & _ & _ & _).
  rewrite Hms in Hms'. injection Hms' as -> -> -> -> -> -> -> _.
  assert (dk' = KRdDist e) as -> by congruence. assert (crk' = KRdContrib svc) as -> by congruence. assert (relayer' = relayer) as -> by congruence.
  rewrite dr_dist_data0 in dg_dist_data. injection dg_dist_data as <- <-.
  rewrite dr_contrib_data0 in dg_contrib_data. injection dg_contrib_data as <-.
  rewrite dr_index0 in dg_index. injection dg_index as <-.
  destruct dr_window0 as (Hw1 & Hw2).
  assert (process_leaf tail (d_rew_start d) (d_rew_end d) idx = Ok (set_bit_at tail (d_rew_start d) idx)) as Hpl.
  { apply process_leaf_spec. unfold set_bit_at. tauto. }
  rewrite Hpl in dg_tail'. injection dg_tail' as <-.
  destruct (O dr_cbr0 dr_shares0) as (share_amt & burn0 & transferred & burn & s0' & m' & Out).
  exists share_amt, burn0, transferred, burn. split; [exact HW1|].
  destruct dr_custody0 as (Hs0 & _). destruct (do_custody _ _ _ _ _ _ _ _ _ _ _ _ _ _ _ Out) as (Hs0' & _).
  rewrite Hs0 in Hs0'. injection Hs0' as <-.
  pose proof (do_mint _ _ _ _ _ _ _ _ _ _ _ _ _ _ _ Out) as Hm'. rewrite dr_mint0 in Hm'. injection Hm' as <-.
  exact Out.
Qed.

Lemma sdk_distribute_cx f r e svc (recips : list (key * N)) :
  distribute_cx (rd_cx (eff1 [KUser f] (sdk_distribute_rewards e svc KMint (KUser r) (map fst recips)))) e svc (KUser r) recips.
Proof.
  set (ms := sdk_distribute_rewards e svc KMint (KUser r) (map fst recips)).
  assert (forall k, In k [KRdDist e; KTok2z (KRdDist e); KMint; KUser r] -> is_writable ms k = true) as Hwr.
  { intros k Hk. subst ms. unfold sdk_distribute_rewards. rewrite is_writable_app. apply orb_true_iff. left.
    cbn [In] in Hk. repeat (destruct Hk as [<-|Hk]; [cbn; rewrite ?N.eqb_refl; cbn; reflexivity|]). contradiction. }
  assert (forall x, In x recips -> has_key ms (KAta (fst x) KMint) = true /\ is_writable ms (KAta (fst x) KMint) = true) as Hat.
  { intros x Hx. subst ms. unfold sdk_distribute_rewards. rewrite has_key_app, is_writable_app. split; apply orb_true_iff; right.
    - apply existsb_exists. exists (mk (KAta (fst x) KMint) false true). split; [|cbn; rewrite key_eqb_refl; reflexivity].
      apply in_map_iff. exists (fst x). split; [reflexivity|]. apply in_map. exact Hx.
    - apply existsb_exists. exists (mk (KAta (fst x) KMint) false true). split; [|cbn; rewrite key_eqb_refl; reflexivity].
      apply in_map_iff. exists (fst x). split; [reflexivity|]. apply in_map. exact Hx. }
  constructor.
  - reflexivity.
  - cbn [rd_cx cx_metas]. unfold eff1. fold ms. unfold ms at 2. unfold sdk_distribute_rewards. rewrite map_app. cbn [map app mk mkey].
    do 8 eexists. split; [reflexivity|]. cbn [mkey mwritable].
    repeat split; try (apply Hwr; cbn; tauto).
    rewrite !map_map. cbn [mkey]. reflexivity.
  - intros k Hk. cbn [rd_cx cx_metas]. rewrite has_key_eff1. subst ms. unfold sdk_distribute_rewards. rewrite has_key_app.
    apply orb_true_iff. left. cbn [In] in Hk. repeat (destruct Hk as [<-|Hk]; [cbn; rewrite ?N.eqb_refl; cbn; reflexivity|]). contradiction.
  - intros k Hk. cbn [rd_cx cx_metas]. rewrite is_writable_eff1. apply Hwr. exact Hk.
  - intros x Hx. cbn [rd_cx cx_metas]. rewrite has_key_eff1, is_writable_eff1. apply Hat. exact Hx.
Qed.

Lemma alen_set_lamports (a : acct) x : alen (a <| lamports := x |>) = alen a. Proof. reflexivity. Qed.

Theorem distribute_rewards_progress W f r e svc us ebr p idx c d tail cr s0 m :
  distribute_ready W e svc (KUser r) us ebr p idx c d tail cr s0 m ->
  exists W1 share_amt burn0 transferred burn,
    exec_tx W (rd_tx [KUser f] (RDistributeRewards us ebr p)
                 (sdk_distribute_rewards e svc KMint (KUser r) (map fst (cr_recipients cr)))) = (purge W1, true) /\
    distribute_outcome W W1 us ebr (KRdDist e) d (set_bit_at tail (d_rew_start d) idx) cr (KUser r)
                       share_amt burn0 transferred burn s0 m.
Proof.
  intros R.
  destruct (rd_distribute_rewards_full _ W e svc (KUser r) us ebr p idx c d tail cr s0 m R (sdk_distribute_cx f r e svc (cr_recipients cr)))
    as (W1 & share_amt & burn0 & transferred & burn & HW1 & Out); [discriminate|].
  exists W1, share_amt, burn0, transferred, burn. split; [|exact Out].
  pose proof (do_effect _ _ _ _ _ _ _ _ _ _ _ _ _ _ _ Out) as Hg.
  assert (forall k, lamports (get W1 k) = lamports (get W k) + (if key_eqb (KUser r) k then d_relay d else 0) - (if key_eqb (KRdDist e) k then d_relay d else 0)) as Hl.
  { intros k. rewrite Hg. reflexivity. }
  assert (forall k, alen (get W1 k) = alen (get W k)) as Ha.
  { intros k. rewrite Hg, alen_set_lamports.
    destruct (key_eqb_spec k (KRdDist e)) as [->|]; [reflexivity|]. destruct (key_eqb k (KTok2z (KRdDist e))); [reflexivity|].
    destruct (key_eqb k KMint); [reflexivity|]. apply alen_tok_add. }
  destruct R.
  apply exec_tx_rd_go.
  - unfold tx_wf. apply andb_true_iff. split; [|reflexivity].
    unfold rd_tx at 2. cbn [tx_ixs forallb i_metas]. rewrite andb_true_r. unfold sdk_distribute_rewards. rewrite forallb_app.
    apply andb_true_iff. split; [reflexivity|]. apply forallb_forall. intros x Hx. apply in_map_iff in Hx as (y & <- & _). reflexivity.
  - exact HW1.
  - apply (balanced_move _ _ _ (KRdDist e) (KUser r) (d_relay d)).
    + discriminate.
    + unfold sdk_distribute_rewards. cbn. tauto.
    + unfold sdk_distribute_rewards. cbn. tauto.
    + lia.
    + intros k. rewrite Hl, (key_eqb_sym (KUser r) k), (key_eqb_sym (KRdDist e) k).
      destruct (key_eqb_spec k (KRdDist e)) as [->|]; [cbn [key_eqb]; lia|]. destruct (key_eqb k (KUser r)); lia.
  - intros k _. destruct (key_eqb_spec k (KRdDist e)) as [->|N1].
    + apply rent_transition_exempt. rewrite Ha, Hl, key_eqb_refl. cbn [key_eqb]. lia.
    + destruct (key_eqb_spec k (KUser r)) as [->|N2].
      * apply rent_transition_exempt. rewrite Ha, Hl, key_eqb_refl. cbn [key_eqb]. lia.
      * apply rent_transition_same; [|apply Ha]. rewrite Hl, (key_eqb_neq (KUser r) k), (key_eqb_neq (KRdDist e) k) by congruence. lia.
Qed.

(* non-vacuity: contributor 22 (60 % of 10 000 2Z, 10 % economic burn) is distributed to its two recipients; the relayer
   is a funded wallet.  (A relayer account that is empty before could NOT be paid: 6 000 lamports are not rent exempt.) *)
Definition ex13_distribute_world : world := put ex_distribute_world (KUser 7) (ex_wallet 1000000).
Example distribute_rewards_progress_nonvacuous :
  let s0 := {| t_mint := KMint; t_owner := KRdDist 5; t_amount := 10000 |} in
  let m := {| m_supply := 1000000; m_decimals := 8 |} in
  let t := rd_tx [KUser 7] (RDistributeRewards 600000000 100000000 (proof_for PRE_REWARD ex_rewards 1))
                 (sdk_distribute_rewards 5 (KUser 22) KMint (KUser 7) (map fst (cr_recipients ex_contrib))) in
  distribute_ready ex13_distribute_world 5 (KUser 22) (KUser 7) 600000000 100000000 (proof_for PRE_REWARD ex_rewards 1) 1
                   ex_cfg ex_dist5d [0; 0] ex_contrib s0 m /\
  let '(W', ok) := exec_tx ex13_distribute_world t in
  ok = true /\
  data (get W' (KRdDist 5)) = DDist (dr_dist ex_dist5d 5399 601) [0; 2] /\
  lamports (get W' (KRdDist 5)) = rent (LEN_DIST + 2) + 6000 /\ lamports (get W' (KUser 7)) = 1006000 /\
  as_token W' (KTok2z (KRdDist 5)) = Ok {| t_mint := KMint; t_owner := KRdDist 5; t_amount := 4000 |} /\
  as_mint W' KMint = Ok {| m_supply := 999399; m_decimals := 8 |} /\
  as_token W' (KAta (KUser 31) KMint) = Ok {| t_mint := KMint; t_owner := KUser 31; t_amount := 1804 |} /\
  as_token W' (KAta (KUser 32) KMint) = Ok {| t_mint := KMint; t_owner := KUser 32; t_amount := 3600 |} /\
  (* an empty relayer account cannot receive the (non rent-exempt) relay fee: the rent-state rule rejects the transaction *)
  snd (exec_tx ex_distribute_world t) = false.
Proof.
  cbv zeta. split; [|vm_compute; repeat split].
  constructor; try closed.
  intros x Hx. unfold ex_contrib in Hx. cbn [cr_recipients In] in Hx. destruct Hx as [<-|[<-|[]]]; eexists; closed.
Qed.
