(* C12 at history level: 2Z can never become locked in a distribution whose rewards tree does not exist.
   `no_locked d`: rewards final with the null root => no collectible debt, no prepaid 2Z, no 2Z converted from SOL.
   `no_locked` alone is not inductive (see no_locked_alone_not_inductive); the inductive form is `linv`.  The step relation
   `mono12` (per distribution, any piece of execution) carries it through every RD processor, every instruction of every
   program (rogue CPI wrappers included), every transaction and every honest operation. *)
From DZ Require Import Base Keys Merkle BurnRate Shares Swap_Ring State World SwapDeq RD Passport Swap Exec
  Lemmas_Inv Lemmas_Inv2 Lemmas_Inv3.

(* ------------------------------------------------------------------ the property and its inductive form *)
Definition no_locked (d : dist) : Prop :=
  d_rewards_final d = true -> d_rewards_root d = null_hash ->
  d_total_debt d - d_uncollectible d = 0 /\ d_prepaid_2z d = 0 /\ d_swept_2z d = 0.

Record linv (d : dist) : Prop := {
  li_nl : no_locked d;
  li_rd : d_rewards_final d = true -> d_debt_final d = true;      (* rewards are finalized after the debt *)
  li_sr : d_swept d = true -> d_rewards_final d = true;           (* swept after rewards are final *)
  li_s2 : d_swept d = false -> d_swept_2z d = 0                   (* nothing converted before the sweep *)
}.

(* one distribution before / after any piece of execution *)
Record mono12 (d d' : dist) : Prop := {
  m12_inv : linv d -> linv d';
  m12_prepaid : d_prepaid_2z d' = d_prepaid_2z d;                 (* prepaid 2Z is written only at creation *)
  m12_swept : implb (d_swept d) (d_swept d') = true;
  m12_s2 : d_swept d = true -> d_swept_2z d' = d_swept_2z d       (* converted 2Z is written only by the sweep itself *)
}.

Lemma mono12_refl d : mono12 d d.
Proof. constructor; auto. destruct (d_swept d); reflexivity. Qed.
Lemma mono12_trans a b c : mono12 a b -> mono12 b c -> mono12 a c.
Proof.
  intros [I1 P1 S1 Z1] [I2 P2 S2 Z2]. constructor; auto; try congruence.
  - destruct (d_swept a), (d_swept b), (d_swept c); cbn in *; congruence.
  - intros Ha. rewrite Z2; [auto|]. eapply implb_true_l; eassumption.
Qed.

Definition krel12 (o o' : option (dist * list N)) : Prop :=
  match o, o' with
  | Some (d, _), Some (d', _) => mono12 d d'
  | Some _, None => False
  | None, Some (d', _) => linv d'
  | None, None => True
  end.
Definition dstep12 (W W' : world) : Prop := now W' = now W /\ forall k, krel12 (dist_at W k) (dist_at W' k).

Lemma krel12_refl o : krel12 o o.
Proof. destruct o as [[d t]|]; cbn; [apply mono12_refl|exact I]. Qed.
Lemma krel12_trans a b c : krel12 a b -> krel12 b c -> krel12 a c.
Proof.
  destruct a as [[a ta]|], b as [[b tb]|], c as [[c tc]|]; cbn; try tauto.
  - apply mono12_trans.
  - intros Hi Hm. apply (m12_inv _ _ Hm), Hi.
Qed.
Lemma dstep12_refl W : dstep12 W W.
Proof. split; [reflexivity|]. intros k. apply krel12_refl. Qed.
Lemma dstep12_trans W1 W2 W3 : dstep12 W1 W2 -> dstep12 W2 W3 -> dstep12 W1 W3.
Proof. intros [N1 H1] [N2 H2]. split; [congruence|]. intros k. eapply krel12_trans; [apply H1|apply H2]. Qed.
Lemma same_dstep12 W W' : same_dists W W' -> dstep12 W W'.
Proof. intros [N1 H1]. split; [exact N1|]. intros k. rewrite H1. apply krel12_refl. Qed.

(* ------------------------------------------------------------------ the chain tactic of Lemmas_Inv2 for krel12 *)
Ltac chain12 leaf :=
  keyhyps; prim_facts; split; [ congruence | ];
  let k := fresh "k" in intros k; rw_dists; use_facts; cbv beta iota; keycases; use_facts; use_facts_hyps; cbv beta iota; cbn [dd krel12];
  try discriminate; try congruence; try exact I; try apply krel12_refl; try (exfalso; congruence); leaf.

(* processors that never write a distribution *)
Lemma rd_set_admin_same cx W k W' : rd_set_admin cx W k = Ok W' -> same_dists W W'.
Proof. unfold rd_set_admin. intros H; invp. chain_same. Qed.
Lemma rd_migrate_same cx W W' : rd_migrate cx W = Ok W' -> same_dists W W'.
Proof. unfold rd_migrate. intros H; invp. chain_same. Qed.
Lemma rd_configure_program_same cx W s W' : rd_configure_program cx W s = Ok W' -> same_dists W W'.
Proof. unfold rd_configure_program. intros H; invp. chain_same. Qed.
Lemma rd_initialize_program_same cx W W' : rd_initialize_program cx W = Ok W' -> same_dists W W'.
Proof. unfold rd_initialize_program. intros H; invp. chain_same. Qed.
Lemma rd_initialize_journal_same cx W W' : rd_initialize_journal cx W = Ok W' -> same_dists W W'.
Proof. unfold rd_initialize_journal. intros H; invp. chain_same. Qed.
Lemma rd_initialize_contributor_same cx W svc W' : rd_initialize_contributor cx W svc = Ok W' -> same_dists W W'.
Proof. unfold rd_initialize_contributor. intros H; invp. chain_same. Qed.
Lemma rd_set_rewards_manager_same cx W k W' : rd_set_rewards_manager cx W k = Ok W' -> same_dists W W'.
Proof. unfold rd_set_rewards_manager. intros H; invp. chain_same. Qed.
Lemma rd_configure_contributor_same cx W s W' : rd_configure_contributor cx W s = Ok W' -> same_dists W W'.
Proof. unfold rd_configure_contributor. intros H; invp. destruct s; invp; chain_same. Qed.
Lemma rd_verify_root_same cx W kind pr W' : rd_verify_root cx W kind pr = Ok W' -> same_dists W W'.
Proof. unfold rd_verify_root. intros H; invp. destruct kind; invp; apply same_refl. Qed.
Lemma rd_initialize_deposit_same cx W node W' : rd_initialize_deposit cx W node = Ok W' -> same_dists W W'.
Proof. unfold rd_initialize_deposit. intros H; invp. chain_same. Qed.
Lemma rd_initialize_swap_destination_same cx W W' : rd_initialize_swap_destination cx W = Ok W' -> same_dists W W'.
Proof. unfold rd_initialize_swap_destination. intros H; invp. chain_same. Qed.

(* ------------------------------------------------------------------ the record updates the processors perform *)
Ltac linv_tac :=
  let L := fresh "L" in
  intros L; destruct L as [Lnl Lrd Lsr Ls2]; unfold no_locked in *; cbn in *;
  constructor; unfold no_locked; cbn; intros; auto; try congruence; try (exfalso; intuition congruence).
Ltac m12_tac :=
  constructor; cbn;
  [ linv_tac | try reflexivity | try (destruct (d_swept _); reflexivity) | intros; try reflexivity; try congruence ].

Lemma m12_configure_debt d n debt root :
  d_debt_final d = false ->
  mono12 d (d <| d_total_validators := n |> <| d_total_debt := debt |> <| d_debt_root := root |>).
Proof. intros G1. m12_tac. Qed.
Lemma m12_configure_rewards d n root :
  d_rewards_final d = false -> mono12 d (d <| d_total_contributors := n |> <| d_rewards_root := root |>).
Proof. intros G1. m12_tac. Qed.
Lemma m12_finalize_debt0 d : d_debt_final d = false -> mono12 d (d <| d_debt_final := true |>).
Proof. intros G1. m12_tac. Qed.
Lemma m12_finalize_debt1 d a b :
  d_debt_final d = false -> mono12 d (d <| d_debt_final := true |> <| d_debt_start := a |> <| d_debt_end := b |>).
Proof. intros G1. m12_tac. Qed.

Lemma null_guard_zero d debt : null_root_guard d debt = true -> d_rewards_root d = null_hash -> debt = 0 /\ d_prepaid_2z d = 0.
Proof.
  unfold null_root_guard. intros H Hr. rewrite Hr in H.
  assert (E : hash_eqb null_hash null_hash = true) by (vm_compute; reflexivity).
  rewrite E, andb_true_r in H. apply negb_true_iff, orb_false_iff in H. destruct H as [H1 H2].
  apply negb_false_iff in H1, H2. apply N.eqb_eq in H1, H2. auto.
Qed.
Lemma total_sol_debt_some d x : total_sol_debt d = Some x -> x = d_total_debt d - d_uncollectible d /\ d_uncollectible d <= d_total_debt d.
Proof. unfold total_sol_debt, checked_sub. destruct (_ <=? _) eqn:E; [|discriminate]. apply N.leb_le in E. intros H; injection H as <-. auto. Qed.

Lemma m12_finalize_rewards d debt a b :
  d_rewards_final d = false -> d_debt_final d = true ->
  total_sol_debt d = Some debt -> null_root_guard d debt = true ->
  mono12 d (d <| d_rewards_final := true |> <| d_rew_start := a |> <| d_rew_end := b |>).
Proof.
  intros G1 G2 G3 G4. apply total_sol_debt_some in G3. destruct G3 as [G3 _].
  constructor; cbn; [ | reflexivity | destruct (d_swept d); reflexivity | reflexivity ].
  intros [Lnl Lrd Lsr Ls2]. constructor; unfold no_locked; cbn; auto.
  intros _ Hr. destruct (null_guard_zero _ _ G4 Hr) as [Z1 Z2]. split; [congruence|]. split; [exact Z2|].
  apply Ls2. destruct (d_swept d) eqn:E; [|reflexivity]. rewrite Lsr in G1; [discriminate|reflexivity].
Qed.
Lemma m12_distribute d a b c :
  mono12 d (d <| d_distributed_2z := a |> <| d_burned_2z := b |> <| d_distributed_count := c |>).
Proof. m12_tac. Qed.
Lemma m12_pay d a b : mono12 d (d <| d_collected_sol := a |> <| d_payments_count := b |>).
Proof. m12_tac. Qed.
Lemma m12_enable_write_off d a b : mono12 d (d <| d_writeoff_enabled := true |> <| d_wo_start := a |> <| d_wo_end := b |>).
Proof. m12_tac. Qed.
Lemma m12_write_off_src d a : mono12 d (d <| d_writeoff_count := a |>).
Proof. m12_tac. Qed.
Lemma m12_write_off_tgt t amount unc :
  checked_add two64 (d_uncollectible t) amount = Some unc -> mono12 t (t <| d_uncollectible := unc |>).
Proof.
  intros G3. unfold checked_add in G3. destruct (_ <? _) in G3; [|discriminate]. injection G3 as <-.
  constructor; cbn; [ | reflexivity | destruct (d_swept t); reflexivity | reflexivity ].
  intros [Lnl Lrd Lsr Ls2]. constructor; unfold no_locked in *; cbn; auto.
  intros A B. destruct (Lnl A B) as (X & Y & Z). repeat split; [lia|exact Y|exact Z].
Qed.
Lemma m12_sweep0 d :
  d_swept d = false -> d_rewards_final d = true -> mono12 d (d <| d_swept := true |>).
Proof.
  intros G1 G2. constructor; cbn; [ | reflexivity | rewrite G1; reflexivity | congruence ].
  intros [Lnl Lrd Lsr Ls2]. constructor; unfold no_locked in *; cbn; auto; try congruence.
Qed.
Lemma m12_sweep1 d debt z :
  d_swept d = false -> d_rewards_final d = true -> total_sol_debt d = Some debt -> (debt =? 0) = false ->
  mono12 d (d <| d_swept := true |> <| d_swept_2z := z |>).
Proof.
  intros G1 G2 G3 G4. apply total_sol_debt_some in G3. destruct G3 as [G3 _]. apply N.eqb_neq in G4.
  constructor; cbn; [ | reflexivity | rewrite G1; reflexivity | congruence ].
  intros [Lnl Lrd Lsr Ls2]. constructor; unfold no_locked in *; cbn; auto; [|congruence].
  intros A B. destruct (Lnl A B) as (X & Y & Z). exfalso. lia.
Qed.
Lemma linv_fresh e rate fees relay ts :
  linv (dist_default <| d_epoch := e |> <| d_cbr := rate |> <| d_fees := fees |> <| d_relay := relay |> <| d_calc_allowed_ts := ts |>).
Proof. constructor; unfold no_locked; cbn; intros; try reflexivity; discriminate. Qed.
Lemma linv_prepaid d z : d_rewards_final d = false -> linv d -> linv (d <| d_prepaid_2z := z |>).
Proof. intros G [Lnl Lrd Lsr Ls2]. constructor; unfold no_locked in *; cbn; auto. congruence. Qed.

(* ------------------------------------------------------------------ processors that write a distribution *)
Ltac side12 := first [ assumption | eassumption
  | match goal with H : _ = ?b |- _ = ?b => cbn in H; exact H end ].
Lemma rd_configure_debt_step12 cx W n debt root W' : rd_configure_debt cx W n debt root = Ok W' -> dstep12 W W'.
Proof. unfold rd_configure_debt. intros H; invp. bools. chain12 ltac:(apply m12_configure_debt; side12). Qed.
Lemma rd_configure_rewards_step12 cx W n root W' : rd_configure_rewards cx W n root = Ok W' -> dstep12 W W'.
Proof. unfold rd_configure_rewards. intros H; invp. bools. chain12 ltac:(apply m12_configure_rewards; side12). Qed.
Lemma rd_finalize_debt_step12 cx W W' : rd_finalize_debt cx W = Ok W' -> dstep12 W W'.
Proof.
  unfold rd_finalize_debt. intros H; invp. bools. destruct (_ =? 0) in H.
  - chain12 ltac:(apply m12_finalize_debt0; side12).
  - chain12 ltac:(apply m12_finalize_debt1; side12).
Qed.
Lemma rd_finalize_rewards_step12 cx W W' : rd_finalize_rewards cx W = Ok W' -> dstep12 W W'.
Proof.
  unfold rd_finalize_rewards. intros H; invp. bools.
  chain12 ltac:(eapply m12_finalize_rewards; side12).
Qed.
Lemma rd_distribute_rewards_step12 cx W us ebr pr W' : rd_distribute_rewards cx W us ebr pr = Ok W' -> dstep12 W W'.
Proof. unfold rd_distribute_rewards. intros H; invp. bools. chain12 ltac:(apply m12_distribute). Qed.
Lemma rd_pay_debt_step12 cx W amount pr W' : rd_pay_debt cx W amount pr = Ok W' -> dstep12 W W'.
Proof. unfold rd_pay_debt. intros H; invp. bools. chain12 ltac:(apply m12_pay). Qed.
Lemma rd_enable_write_off_step12 cx W W' : rd_enable_write_off cx W = Ok W' -> dstep12 W W'.
Proof. unfold rd_enable_write_off. intros H; invp. bools. chain12 ltac:(apply m12_enable_write_off). Qed.
Lemma rd_write_off_step12 cx W amount pr W' : rd_write_off cx W amount pr = Ok W' -> dstep12 W W'.
Proof.
  unfold rd_write_off. intros H; invp. bools.
  chain12 ltac:(repeat match goal with H : Some (_, _) = Some (_, _) |- _ => injection H as ? ?; subst end;
    first [ apply m12_write_off_src
          | eapply m12_write_off_tgt; side12
          | eapply mono12_trans; [ | eapply m12_write_off_tgt; side12 ]; apply m12_write_off_src ]).
Qed.
Lemma rd_sweep_step12 cx W W' : rd_sweep cx W = Ok W' -> dstep12 W W'.
Proof.
  unfold rd_sweep. intros H; invp. bools. destruct (_ =? 0) eqn:Ez in H.
  - invp. chain12 ltac:(apply m12_sweep0; side12).
  - invp. repeat match goal with H : match ?x with _ => _ end = Ok _ |- _ => destruct x; try discriminate H end. invp.
    chain12 ltac:(eapply m12_sweep1; side12).
Qed.

Lemma rd_initialize_distribution_step12 cx W W' : rd_initialize_distribution cx W = Ok W' -> dstep12 W W'.
Proof.
  unfold rd_initialize_distribution. intros H; invp. bools.
  apply init_dist_tail in H.
  match goal with H : try_initialize _ _ _ _ (DDist ?d []) = Ok _ |- _ =>
    assert (G : linv d) by apply linv_fresh;
    assert (G' : d_rewards_final d = false) by reflexivity;
    remember d as d0 eqn:Ed in *; clear Ed end.
  destruct H as [->|(W1 & z & S1 & H)].
  - chain12 ltac:(exact G).
  - chain12 ltac:(first [ exact G | apply linv_prepaid; assumption | idtac ]).
Qed.

Theorem rd_process_step12 cx W ix W' : rd_process cx W ix = Ok W' -> dstep12 W W'.
Proof.
  destruct ix; cbn [rd_process]; intros H.
  - apply same_dstep12. eapply rd_initialize_program_same; eassumption.
  - apply same_dstep12. eapply rd_migrate_same; eassumption.
  - apply same_dstep12. eapply rd_set_admin_same; eassumption.
  - apply same_dstep12. eapply rd_configure_program_same; eassumption.
  - apply same_dstep12. eapply rd_initialize_journal_same; eassumption.
  - eapply rd_initialize_distribution_step12; eassumption.
  - eapply rd_configure_debt_step12; eassumption.
  - eapply rd_finalize_debt_step12; eassumption.
  - eapply rd_configure_rewards_step12; eassumption.
  - eapply rd_finalize_rewards_step12; eassumption.
  - eapply rd_distribute_rewards_step12; eassumption.
  - apply same_dstep12. eapply rd_initialize_contributor_same; eassumption.
  - apply same_dstep12. eapply rd_set_rewards_manager_same; eassumption.
  - apply same_dstep12. eapply rd_configure_contributor_same; eassumption.
  - apply same_dstep12. eapply rd_verify_root_same; eassumption.
  - apply same_dstep12. eapply rd_initialize_deposit_same; eassumption.
  - eapply rd_pay_debt_step12; eassumption.
  - eapply rd_enable_write_off_step12; eassumption.
  - eapply rd_write_off_step12; eassumption.
  - apply same_dstep12. eapply rd_initialize_swap_destination_same; eassumption.
  - eapply rd_sweep_step12; eassumption.
  - apply same_dstep12. eapply rd_withdraw_sol_same; eassumption.
Qed.

(* ------------------------------------------------------------------ instructions of any program, rogue CPI wrappers included *)
Theorem exec_data_step12 : forall d prog ms h sib W W', exec_data prog d ms h sib W = Ok W' -> dstep12 W W'.
Proof.
  induction d; intros prog ms h sib W W' H; destruct prog; cbn [exec_data] in H; invp.
  all: try solve [ eapply rd_process_step12; eassumption
                 | apply same_dstep12;
                   first [ eapply pp_process_same; eassumption
                         | eapply sw_process_same; eassumption
                         | eapply sys_transfer_core_same; eassumption
                         | eapply sys_create_account_core_same; eassumption
                         | eapply tok_transfer_core_same; eassumption
                         | eapply tok_burn_core_same; eassumption
                         | apply same_refl
                         | eapply same_trans; [eapply tok_transfer_checked_same; eassumption|eapply withdraw_sol_cpi_same; eassumption] ] ].
  - destruct ms; invp. eapply IHd; eassumption.
  - apply same_dstep12.
    match goal with Hb : (if ?b then _ else _) = Ok _ |- _ => destruct b; revert Hb end.
    + intros H; invp. eapply same_trans; [eapply tok_transfer_checked_same; eassumption|eapply withdraw_sol_cpi_same; eassumption].
    + destruct (nthk ms 8); intros H; invp. eapply withdraw_sol_cpi_same; eassumption.
Qed.
Theorem exec_ixs_step12 t : forall ixs prev W W', exec_ixs t ixs prev W = Ok W' -> dstep12 W W'.
Proof.
  induction ixs as [|i tl IH]; intros prev W W' H; cbn [exec_ixs] in H; invp; [apply dstep12_refl|].
  eapply dstep12_trans; [eapply exec_data_step12; eassumption|eapply IH; eassumption].
Qed.

(* a transaction seen from one key (a distribution whose lamports reached zero is purged) *)
Definition trel12 (W W' : world) (k : key) : Prop :=
  match dist_at W k, dist_at W' k with
  | Some (d, _), Some (d', _) => mono12 d d'
  | Some _, None => get W' k = empty_acct
  | None, Some (d', _) => linv d'
  | None, None => True
  end.
Theorem exec_tx_trel12 W t W' ok : exec_tx W t = (W', ok) -> forall k, trel12 W W' k.
Proof.
  assert (R : forall k, trel12 W W k).
  { intros k. unfold trel12. destruct (dist_at W k) as [[d tl]|]; [apply mono12_refl|exact I]. }
  unfold exec_tx. destruct (negb (tx_wf t)); [intros H; injection H as <- <-; exact R|].
  destruct (exec_ixs t (tx_ixs t) None W) as [W1|e] eqn:E; [|intros H; injection H as <- <-; exact R].
  destruct (rent_ok t W W1); [|intros H; injection H as <- <-; exact R].
  intros H; injection H as <- <-. apply exec_ixs_step12 in E. destruct E as [Hn Hk].
  intros k. specialize (Hk k). unfold trel12. rewrite dist_at_purge, get_purge.
  destruct (lamports (get W1 k) =? 0).
  - destruct (dist_at W k) as [[d tl]|]; [reflexivity|exact I].
  - unfold krel12 in Hk. destruct (dist_at W k) as [[d tl]|], (dist_at W1 k) as [[d' tl']|]; try exact Hk. contradiction.
Qed.

(* ------------------------------------------------------------------ the invariant over worlds *)
Definition all_linv (W : world) : Prop := forall k d tl, dist_at W k = Some (d, tl) -> linv d.
Definition all_no_locked (W : world) : Prop := forall k d tl, dist_at W k = Some (d, tl) -> no_locked d.
Lemma all_linv_no_locked W : all_linv W -> all_no_locked W.
Proof. intros H k d tl Hd. apply (li_nl _ (H k d tl Hd)). Qed.

Theorem all_linv_tx W t W' ok : all_linv W -> exec_tx W t = (W', ok) -> all_linv W'.
Proof.
  intros G H k d' tl' Hd'. pose proof (exec_tx_trel12 _ _ _ _ H k) as R. unfold trel12 in R. rewrite Hd' in R.
  destruct (dist_at W k) as [[d tl]|] eqn:Hd; [|exact R]. apply (m12_inv _ _ R). eapply G; eassumption.
Qed.

(* the operations that are not transactions never touch a distribution *)
Lemma step_nontx_dist_at W o k : honest_op o -> (forall t, o <> OTx t) -> dist_at (step W o) k = dist_at W k.
Proof.
  destruct o as [t|ts|ak lam|fk fa|mk_ amt|payer o_]; intros Ho Hn; unfold step; cbn [exec_op].
  - exfalso. eapply Hn. reflexivity.
  - reflexivity.
  - cbn [fst]. apply put_same. reflexivity.
  - contradiction.
  - destruct (as_token W mk_) as [tk|] eqn:E1; [|reflexivity].
    destruct (as_mint W KMint) as [m|] eqn:E2; [|reflexivity].
    cbn [fst].
    pose proof (put_token_same W mk_ (tk <| t_amount := t_amount tk + amt |>) (as_token_none _ _ _ E1)) as [_ S1].
    rewrite dist_at_put. destruct (key_eqb_spec KMint k) as [<-|Hne]; [|apply S1].
    rewrite (as_mint_none _ _ _ E2). unfold dist_of. cbn. destruct (key_eqb _ KRd); reflexivity.
  - destruct (_ && _) eqn:E; [|reflexivity]. cbn [fst].
    apply andb_true_iff in E. destruct E as [E _]. apply andb_true_iff in E. destruct E as [_ E]. apply key_eqb_eq in E.
    rewrite dist_at_put. destruct (key_eqb_spec (KAta o_ KMint) k) as [<-|Hne].
    + rewrite (dist_at_owner _ _ _ E) by discriminate. reflexivity.
    + rewrite dist_at_put. destruct (key_eqb_spec payer k) as [<-|Hne2]; reflexivity.
Qed.

Theorem all_linv_op W o : honest_op o -> all_linv W -> all_linv (fst (exec_op W o)).
Proof.
  intros Ho G. destruct o as [t| | | | | ] eqn:Eo.
  - cbn [exec_op]. destruct (exec_tx W t) as [W' ok] eqn:E. cbn [fst]. eapply all_linv_tx; eassumption.
  - intros k d tl Hd. change (fst (exec_op W (OSetClock ts))) with (step W (OSetClock ts)) in Hd.
    rewrite step_nontx_dist_at in Hd by (auto; discriminate). eapply G; eassumption.
  - intros k0 d tl Hd. change (fst (exec_op W (OAirdrop k lam))) with (step W (OAirdrop k lam)) in Hd.
    rewrite step_nontx_dist_at in Hd by (auto; discriminate). eapply G; eassumption.
  - contradiction.
  - intros k0 d tl Hd. change (fst (exec_op W (OMintTo k amt))) with (step W (OMintTo k amt)) in Hd.
    rewrite step_nontx_dist_at in Hd by (auto; discriminate). eapply G; eassumption.
  - intros k0 d tl Hd. change (fst (exec_op W (OCreateAta payer owner_))) with (step W (OCreateAta payer owner_)) in Hd.
    rewrite step_nontx_dist_at in Hd by (auto; discriminate). eapply G; eassumption.
Qed.

Theorem all_linv_run : forall ops W, Forall honest_op ops -> all_linv W -> all_linv (run W ops).
Proof.
  induction ops as [|o ops IH]; intros W Hh G; [exact G|]. rewrite run_cons. inversion Hh as [|o' ops' Ho Hops]; subst.
  apply IH; [exact Hops|]. apply all_linv_op; assumption.
Qed.

(* initially: a world without accounts owned by the revenue-distribution program (e.g. world0) *)
Theorem all_linv_initial W : (forall k, owner (get W k) <> KRd) -> all_linv W.
Proof. intros H k d tl Hd. apply dist_at_some_owner in Hd. exfalso. eapply H; eassumption. Qed.
Lemma all_linv_world0 : all_linv world0.
Proof. apply all_linv_initial. intros k. vm_compute. discriminate. Qed.

(* ------------------------------------------------------------------ C12, history level *)
Theorem no_locked_tx W t W' ok : all_linv W -> exec_tx W t = (W', ok) -> all_no_locked W'.
Proof. intros G H. eapply all_linv_no_locked, all_linv_tx; eassumption. Qed.
Theorem no_locked_run ops W : Forall honest_op ops -> all_linv W -> all_no_locked (run W ops).
Proof. intros Hh G. apply all_linv_no_locked, all_linv_run; assumption. Qed.
Theorem no_locked_reachable ops W : (forall k, owner (get W k) <> KRd) -> Forall honest_op ops -> all_no_locked (run W ops).
Proof. intros H0 Hh. apply no_locked_run; [exact Hh|apply all_linv_initial, H0]. Qed.

(* in every reachable state a distribution whose rewards are final and whose root is null holds no collected 2Z at all
   and has no SOL debt left to collect *)
Theorem null_root_final_holds_nothing ops W k d tl :
  (forall k, owner (get W k) <> KRd) -> Forall honest_op ops ->
  dist_at (run W ops) k = Some (d, tl) -> d_rewards_final d = true -> d_rewards_root d = null_hash ->
  total_collected_2z (d_prepaid_2z d) (d_swept_2z d) = Some 0 /\ total_sol_debt d = Some 0.
Proof.
  intros H0 Hh Hd Hf Hr. pose proof (all_linv_run ops W Hh (all_linv_initial W H0) k d tl Hd) as L.
  destruct (li_nl _ L Hf Hr) as (A & B & C). split.
  - rewrite B, C. vm_compute. reflexivity.
  - assert (G0 : all_good W) by (intros k0 d0 tl0 Hd0; apply dist_at_some_owner in Hd0; exfalso; eapply H0; eassumption).
    pose proof (uncollectible_le_total_run ops W Hh G0 k d tl Hd) as Hle.
    unfold total_sol_debt, checked_sub. apply N.leb_le in Hle. rewrite Hle, A. reflexivity.
Qed.

(* by-products at transaction level: the two "collected 2Z" fields are written only at creation / by the sweep itself *)
Theorem prepaid_2z_frozen W t W' ok k d tl d' tl' :
  exec_tx W t = (W', ok) -> dist_at W k = Some (d, tl) -> dist_at W' k = Some (d', tl') -> d_prepaid_2z d' = d_prepaid_2z d.
Proof. intros H Hd Hd'. pose proof (exec_tx_trel12 _ _ _ _ H k) as R. unfold trel12 in R. rewrite Hd, Hd' in R. apply R. Qed.
Theorem swept_2z_frozen_after_sweep W t W' ok k d tl d' tl' :
  exec_tx W t = (W', ok) -> dist_at W k = Some (d, tl) -> dist_at W' k = Some (d', tl') -> d_swept d = true ->
  d_swept_2z d' = d_swept_2z d.
Proof. intros H Hd Hd'. pose proof (exec_tx_trel12 _ _ _ _ H k) as R. unfold trel12 in R. rewrite Hd, Hd' in R. apply R. Qed.

(* ------------------------------------------------------------------ non-vacuity *)
(* deciding all_linv on a literal world *)
Lemma dist_at_in W k x : dist_at W k = Some x -> exists a, In (k, a) (accts W) /\ dist_of a = Some x.
Proof.
  rewrite dist_at_of. unfold get. destruct (lookup k (accts W)) as [a|] eqn:E; [|cbn; discriminate].
  intros H. exists a. split; [|exact H]. clear H. induction (accts W) as [|[k' a'] tl IH]; cbn in E; [discriminate|].
  destruct (key_eqb_spec k k') as [->|Hne]; [injection E as ->; left; reflexivity|right; auto].
Qed.
Lemma all_linv_literal W :
  Forall (fun ka => match dist_of (snd ka) with Some (d, _) => linv d | None => True end) (accts W) -> all_linv W.
Proof.
  intros F k d tl Hd. apply dist_at_in in Hd. destruct Hd as (a & Hin & Ha).
  rewrite Forall_forall in F. specialize (F _ Hin). cbn in F. rewrite Ha in F. exact F.
Qed.

Definition x12_cfg : rd_config := rd_config_default <| c_min_epochs := 1 |> <| c_next_epoch := 9 |>.
Definition x12_dist : dist :=
  dist_default <| d_epoch := 7 |> <| d_debt_final := true |> <| d_relay := 6000 |> <| d_calc_allowed_ts := 500 |>.
Definition x12_W (d : dist) : world :=
  {| accts := [ (KRdConfig, {| lamports := rent LEN_CONFIG_ALLOC; owner := KRd; alen := LEN_CONFIG_ALLOC; data := DConfig x12_cfg |});
                (KRdDist 7, {| lamports := rent LEN_DIST; owner := KRd; alen := LEN_DIST; data := DDist d [] |});
                (KUser 1, {| lamports := 1000000000; owner := KSystem; alen := 0; data := DEmpty |}) ];
     now := 1000 |}.
Definition x12_tx : tx :=
  {| tx_signers := [KUser 1];
     tx_ixs := [ {| i_prog := KRd; i_data := IxRd RFinalizeRewards;
                    i_metas := [mk KRdConfig false false; mk (KRdDist 7) false true; mk (KUser 1) true true; mk KSystem false false] |} ] |}.

Lemma x12_linv : linv x12_dist.
Proof. constructor; unfold no_locked; cbn; intros; try reflexivity; discriminate. Qed.
Lemma x12_all_linv : all_linv (x12_W x12_dist).
Proof.
  apply all_linv_literal. unfold x12_W; cbn [accts].
  apply Forall_cons; [exact I|]. apply Forall_cons; [exact x12_linv|]. apply Forall_cons; [exact I|]. apply Forall_nil.
Qed.

(* nothing to distribute: finalizing with the null root is accepted, and the result is final, rootless and empty *)
Example finalize_null_root_empty_accepted :
  exists W' d' tl', exec_tx (x12_W x12_dist) x12_tx = (W', true) /\ dist_at W' (KRdDist 7) = Some (d', tl') /\
    d_rewards_final d' = true /\ d_rewards_root d' = null_hash /\
    total_collected_2z (d_prepaid_2z d') (d_swept_2z d') = Some 0 /\ total_sol_debt d' = Some 0.
Proof.
  eexists _, _, _. split; [vm_compute; reflexivity|]. split; [vm_compute; reflexivity|]. repeat split; vm_compute; reflexivity.
Qed.
(* collectible debt or prepaid 2Z: the same transaction is refused *)
Example finalize_null_root_with_debt_refused :
  exec_tx (x12_W (x12_dist <| d_total_debt := 5 |>)) x12_tx = (x12_W (x12_dist <| d_total_debt := 5 |>), false).
Proof. vm_compute. reflexivity. Qed.
Example finalize_null_root_with_prepaid_refused :
  exec_tx (x12_W (x12_dist <| d_prepaid_2z := 5 |>)) x12_tx = (x12_W (x12_dist <| d_prepaid_2z := 5 |>), false).
Proof. vm_compute. reflexivity. Qed.
(* fully written-off debt counts as nothing to collect *)
Example finalize_null_root_written_off_accepted :
  snd (exec_tx (x12_W (x12_dist <| d_total_debt := 5 |> <| d_uncollectible := 5 |>)) x12_tx) = true.
Proof. vm_compute. reflexivity. Qed.
(* with a posted root the debt does not block finalization *)
Example finalize_with_root_accepted :
  snd (exec_tx (x12_W (x12_dist <| d_total_debt := 5 |> <| d_rewards_root := HOpaque 9 |>)) x12_tx) = true.
Proof. vm_compute. reflexivity. Qed.

Example all_linv_run_nonvacuous :
  let ops := [OAirdrop (KUser 2) 5; OTx x12_tx] in
  Forall honest_op ops /\ all_linv (x12_W x12_dist) /\
  exists d' tl', dist_at (run (x12_W x12_dist) ops) (KRdDist 7) = Some (d', tl') /\
    d_rewards_final x12_dist = false /\ d_rewards_final d' = true /\ d_rewards_root d' = null_hash /\ no_locked d'.
Proof.
  split; [repeat constructor|]. split; [exact x12_all_linv|].
  eexists _, _. split; [vm_compute; reflexivity|]. repeat split; try reflexivity.
Qed.

(* `no_locked` alone is not inductive from an arbitrary (forged) world: a not-yet-final distribution that already shows
   converted 2Z satisfies it vacuously, and the guard does not look at that field.  `linv` excludes such worlds: the field
   is written only by a sweep, which requires final rewards. *)
Example no_locked_alone_not_inductive :
  let W := x12_W (x12_dist <| d_swept_2z := 5 |>) in
  all_no_locked W /\
  exists W' d' tl', exec_tx W x12_tx = (W', true) /\ dist_at W' (KRdDist 7) = Some (d', tl') /\ ~ no_locked d'.
Proof.
  split.
  - intros k d tl Hd. apply dist_at_in in Hd. destruct Hd as (a & Hin & Ha). cbn in Hin.
    destruct Hin as [E|[E|[E|[]]]]; injection E as <- <-; vm_compute in Ha; try discriminate Ha.
    injection Ha as <- <-. intros Hf. vm_compute in Hf. discriminate Hf.
  - eexists _, _, _. split; [vm_compute; reflexivity|]. split; [vm_compute; reflexivity|].
    intros H. destruct H as (_ & _ & H); [reflexivity|reflexivity|]. vm_compute in H. discriminate H.
Qed.

(* ==================================================================================================================
   INDEX of Lemmas_C12h.v
     no_locked d            rewards final /\ root = null_hash -> collectible debt = 0 /\ d_prepaid_2z = 0 /\ d_swept_2z = 0
     linv d (Record)        li_nl (no_locked), li_rd (rewards final -> debt final), li_sr (swept -> rewards final),
                            li_s2 (not swept -> d_swept_2z = 0): the inductive form
     mono12 d d' (Record)   m12_inv (linv d -> linv d'), m12_prepaid (prepaid frozen), m12_swept, m12_s2 (converted 2Z frozen after sweep)
     krel12 / dstep12 / trel12   the world relations (as krel / dstep / trel of Lemmas_Inv*, creation yields linv)
     rd_<name>_same (11), rd_<name>_step12 (10), rd_process_step12, exec_data_step12, exec_ixs_step12, exec_tx_trel12
     all_linv W, all_no_locked W;  all_linv_tx, all_linv_op, all_linv_run, all_linv_initial, all_linv_world0
     no_locked_tx, no_locked_run, no_locked_reachable, null_root_final_holds_nothing (total_collected_2z = Some 0, total_sol_debt = Some 0)
     prepaid_2z_frozen, swept_2z_frozen_after_sweep (transaction level)
     examples: finalize_null_root_empty_accepted / _with_debt_refused / _with_prepaid_refused / _written_off_accepted,
               finalize_with_root_accepted, all_linv_run_nonvacuous, no_locked_alone_not_inductive
   ================================================================================================================== *)
