(* C15, part 1: the exact functional effect of a successful initialize-distribution (for ALL worlds, forged ones included).
   Part 2 (Lemmas_C15b.v): the history invariant "distributions lie below the config's next epoch" and the per-instruction
   movement of the epoch counter / creation clock.  Part 3 (Lemmas_C15c.v): literal examples. *)
From DZ Require Import Base Keys Merkle BurnRate Shares Swap_Ring State World SwapDeq RD Passport Swap Exec
  Lemmas_Merkle Lemmas_Inv Lemmas_Inv2 Lemmas_RdGuards Lemmas_Canon Lemmas_RdSpecs5 Lemmas_Hist.

(* ------------------------------------------------------------------------------------------------------------------ *)
(* 1. exact frames of the account-creating recipes                                                                     *)

Lemma set_lam_same a : a <| lamports := lamports a - 0 + 0 |> = a.
Proof. rewrite N.sub_0_r, N.add_0_r. apply set_lamports_id. Qed.

(* a System transfer changes the destination and, unless nothing moves, a System-owned source; nothing else *)
Lemma sys_transfer_core_frame W ms from to amt W' : sys_transfer_core W ms from to amt = Ok W' ->
  forall k, k <> to -> (k <> from \/ owner (get W k) <> KSystem) -> get W' k = get W k.
Proof.
  intros H k Hto Hfrom. apply sys_transfer_core_spec in H as (_ & _ & _ & Ho & _ & Hg). rewrite Hg.
  rewrite (key_eqb_neq to k) by congruence.
  destruct (key_eqb_spec from k) as [->|Hne]; [|apply set_lam_same].
  destruct Hfrom as [Hf|Hf]; [congruence|]. destruct Ho as [Ho| ->]; [congruence|]. apply set_lam_same.
Qed.

(* try_create_account: apart from the new account only a System-owned payer changes (it pays) *)
Lemma create_account_frame cx W payer new len own add W' :
  create_account cx W payer new len own add = Ok W' ->
  forall k, k <> new -> (k <> payer \/ owner (get W k) <> KSystem) -> get W' k = get W k.
Proof.
  unfold create_account. intros H k Hn Hp. destruct (lamports (get W new) =? 0).
  - unfold sys_create_account in H. rg_inv H. unfold sys_create_account_core in H. repeat rg_inv H.
    rewrite (sys_transfer_core_frame _ _ _ _ _ _ H k Hn).
    + apply get_put_other. congruence.
    + rewrite get_put_other by congruence. exact Hp.
  - apply bind_ok in H as (W1 & E1 & H). apply bind_ok in H as (W2 & E2 & H).
    assert (F1 : forall k, k <> new -> get W1 k = get W k).
    { unfold sys_allocate in E1. rg_inv E1. unfold sys_allocate_core in E1. repeat rg_inv E1. rg_norm. subst W1.
      intros k0 Hk0. apply get_put_other. congruence. }
    assert (F2 : forall k, k <> new -> get W2 k = get W1 k).
    { unfold sys_assign in E2. rg_inv E2. unfold sys_assign_core in E2.
      destruct (key_eqb (owner (get W1 new)) own); [rg_norm; subst; auto|].
      repeat rg_inv E2. rg_norm. subst W2. intros k0 Hk0. apply get_put_other. congruence. }
    destruct (_ =? 0) in H.
    + rg_norm. subst. rewrite F2, F1 by assumption. reflexivity.
    + unfold sys_transfer in H. rg_inv H. rewrite (sys_transfer_core_frame _ _ _ _ _ _ H k Hn).
      * rewrite F2, F1 by assumption. reflexivity.
      * rewrite F2, F1 by assumption. exact Hp.
Qed.

Lemma tok_init_account3_spec cx W acc mint own W' : tok_init_account3 cx W acc mint own = Ok W' ->
  owner (get W acc) = KToken /\ alen (get W acc) = LEN_TOKEN /\ rent LEN_TOKEN <= lamports (get W acc) /\
  W' = put W acc (get W acc <| data := DToken {| t_mint := mint; t_owner := own; t_amount := 0 |} |>).
Proof. unfold tok_init_account3. intros H. repeat rg_inv H. rg_norm. subst. auto. Qed.

Lemma create_token_account_spec cx W payer new mint town W' :
  create_token_account cx W payer new mint town = Ok W' ->
  owner (get W' new) = KToken /\ alen (get W' new) = LEN_TOKEN /\
  data (get W' new) = DToken {| t_mint := mint; t_owner := town; t_amount := 0 |} /\
  rent LEN_TOKEN <= lamports (get W' new) /\
  forall k, k <> new -> (k <> payer \/ owner (get W k) <> KSystem) -> get W' k = get W k.
Proof.
  unfold create_token_account. intros H. apply bind_ok in H as (W1 & E1 & H).
  pose proof (create_account_frame _ _ _ _ _ _ _ _ E1) as F1.
  apply tok_init_account3_spec in H as (Ho & Hl & Hr & ->).
  rewrite get_put_same. cbn [owner alen data lamports RecordSet.set]. proj_simpl.
  repeat split; try assumption.
  intros k Hk Hp. rewrite get_put_other by congruence. apply F1; assumption.
Qed.

(* ------------------------------------------------------------------------------------------------------------------ *)
(* 2. initialize-distribution                                                                                          *)

(* the config afterwards: creation clock, burn-rate state and epoch counter move; nothing else *)
Definition new_config (c : rd_config) (nw : N) (burn' : params) : rd_config :=
  c <| c_last_init_ts := nw |> <| c_burn := burn' |> <| c_next_epoch := sat_add two64 (c_next_epoch c) 1 |>.
(* the new distribution: the snapshot of the configuration in force, the prepaid 2Z collected, everything else default *)
Definition new_dist (c : rd_config) (nw rate amt : N) : dist :=
  dist_default <| d_epoch := c_next_epoch c |> <| d_cbr := rate |> <| d_fees := c_fees c |> <| d_relay := c_relay c |>
               <| d_calc_allowed_ts := nw + c_calc_grace_min c * 60 |> <| d_prepaid_2z := amt |>.
(* 2Z held by the account at k if it carries token-account data, else 0 *)
Definition tok_amount (W : world) (k : key) : N := match data (get W k) with DToken t => t_amount t | _ => 0 end.

Ltac inv_until_data H :=
  repeat (lazymatch type of H with
          | match data _ with _ => _ end = Ok _ => fail
          | _ => rg_inv H; cbv zeta in H
          end).


Record init_dist_facts (W W' : world) (ck : key) (c : rd_config) (rate : N) (burn' : params) (payer jk : key) : Prop := {
  idf_cfg_owner : owner (get W ck) = KRd;
  idf_cfg_data : data (get W ck) = DConfig c;
  idf_burn : br_compute (c_burn c) = Some (rate, burn');
  (* pacing: the initialization grace period is configured and has elapsed since the previous creation *)
  idf_grace : c_init_grace_min c <> 0;
  idf_pace : c_last_init_ts c + c_init_grace_min c * 60 <= now W;
  (* the address of the new distribution held no program account *)
  idf_dist_fresh : owner (get W (KRdDist (c_next_epoch c))) = KSystem;
  idf_now : now W' = now W;
  idf_amt_u64 : tok_amount W (KAta jk KMint) < two64;
  (* the config: same account, only the three fields move *)
  idf_config : get W' ck = get W ck <| data := DConfig (new_config c (now W) burn') |>;
  (* the new distribution: a revenue-distribution account of the canonical size, rent-exempt, no trailing bitmaps *)
  idf_dist_owner : owner (get W' (KRdDist (c_next_epoch c))) = KRd;
  idf_dist_alen : alen (get W' (KRdDist (c_next_epoch c))) = LEN_DIST;
  idf_dist_data : data (get W' (KRdDist (c_next_epoch c))) =
                  DDist (new_dist c (now W) rate (tok_amount W (KAta jk KMint))) [];
  idf_dist_rent : rent LEN_DIST <= lamports (get W' (KRdDist (c_next_epoch c)));
  (* its 2Z custody: a Token account of the 2Z mint owned by the distribution, holding exactly what was waiting *)
  idf_custody_owner : owner (get W' (KTok2z (KRdDist (c_next_epoch c)))) = KToken;
  idf_custody_alen : alen (get W' (KTok2z (KRdDist (c_next_epoch c)))) = LEN_TOKEN;
  idf_custody_data : data (get W' (KTok2z (KRdDist (c_next_epoch c)))) =
                     DToken {| t_mint := KMint; t_owner := KRdDist (c_next_epoch c); t_amount := tok_amount W (KAta jk KMint) |};
  idf_custody_rent : rent LEN_TOKEN <= lamports (get W' (KTok2z (KRdDist (c_next_epoch c))));
  (* the journal's ATA: emptied when it held something (it then is a Token account of the 2Z mint owned by the journal) *)
  idf_ata_moved : tok_amount W (KAta jk KMint) <> 0 ->
    exists t, owner (get W (KAta jk KMint)) = KToken /\ data (get W (KAta jk KMint)) = DToken t /\
              t_mint t = KMint /\ t_owner t = jk /\
              get W' (KAta jk KMint) = get W (KAta jk KMint) <| data := DToken (t <| t_amount := 0 |>) |>;
  (* frame: every other account keeps owner / size / data, and is untouched altogether unless it is the System-owned
     payer (which pays the rent of the two new accounts) *)
  idf_frame : forall k, k <> ck -> k <> KRdDist (c_next_epoch c) -> k <> KTok2z (KRdDist (c_next_epoch c)) ->
    (tok_amount W (KAta jk KMint) = 0 \/ k <> KAta jk KMint) ->
    hdr (get W' k) = hdr (get W k) /\ ((k <> payer \/ owner (get W k) <> KSystem) -> get W' k = get W k)
}.

Lemma hdr_eq a o l d : hdr a = (o, l, d) -> owner a = o /\ alen a = l /\ data a = d.
Proof. unfold hdr. intros H. injection H as -> -> ->. auto. Qed.
Lemma wadd64_0 a : a < two64 -> wadd64 0 a = a.
Proof. intros H. unfold wadd64. rewrite wadd_small by lia. lia. Qed.

Theorem rd_initialize_distribution_spec cx W W' : rd_initialize_distribution cx W = Ok W' ->
  exists m0 m1 m2 m3 m4 m5 m6 m7 m8 m9 rest c rate burn',
    cx_metas cx = m0 :: m1 :: m2 :: m3 :: m4 :: m5 :: m6 :: m7 :: m8 :: m9 :: rest /\
    init_dist_facts W W' (mkey m0) c rate burn' (mkey m2) (mkey m7).
Proof.
  intros H0. pose proof (rd_initialize_distribution_step _ _ _ H0) as [Hnow _].
  revert H0. unfold rd_initialize_distribution. intros H. cbv zeta in H. inv_until_data H.
  apply rd_verified_ok in E as (mc & ma & Ems & -> & _ & Hoc & Hdc & _ & _).
  apply of_option_ok in E7.
  apply next_any_ok in E9 as ->. apply next_any_ok in E10 as ->. rg_norm.
  apply write_data_spec in E12 as (_ & _ & Hn1 & Hg1).
  pose proof (create_account_same _ _ _ _ _ _ _ _ E13) as [Hn2 _].
  pose proof (create_account_frame _ _ _ _ _ _ _ _ E13) as F2.
  pose proof (Lemmas_RdGuards.create_account_ok _ _ _ _ _ _ _ _ E13) as (Hdo & _ & _ & _ & Hdh & Hh2).
  pose proof (create_account_ok_lam _ _ _ _ _ _ _ _ E13) as (_ & Hdl). specialize (Hdl ltac:(discriminate)).
  apply next_2z_token_pda_ok in E14 as (mt & -> & _ & ->).
  apply next_2z_mint_ok in E15 as (mm & -> & _). apply next_token_program_ok in E16 as (mp & -> & _).
  pose proof (create_token_account_same _ _ _ _ _ _ _ E17) as [Hn3 _].
  pose proof (Lemmas_RdGuards.create_token_account_ok _ _ _ _ _ _ _ E17) as (Hto & _ & _ & _ & _ & _ & _ & Hh3).
  apply create_token_account_spec in E17 as (Hto' & Hta' & Htd' & Htl' & F3).
  apply Lemmas_RdGuards.try_initialize_ok in E19 as (_ & _ & _ & _ & Ea14).
  assert (Hg4 : forall k, get a14 k = if key_eqb (KRdDist (c_next_epoch r)) k
            then get a12 (KRdDist (c_next_epoch r)) <| data := DDist (new_dist r (now W) n 0) [] |> else get a12 k).
  { intros k. rewrite Ea14, get_put. replace (now a12) with (now W) by congruence. reflexivity. }
  assert (Hn4 : now a14 = now W) by (rewrite Ea14, now_put; congruence).
  clear Ea14.
  apply rd_zc_journal_ok in E20 as (mj & -> & -> & _ & Hoj & Hdj).
  apply next_2z_token_pda_ok in E21 as (mjt & -> & _ & _). apply next_any_ok in E22 as ->.
  replace (now a12) with (now W) in * by congruence.
  rewrite E23 in H. clear E23.
  set (ck := mkey mc) in *. set (e := c_next_epoch r) in *. set (dk := KRdDist e) in *. set (tk := KTok2z dk) in *.
  set (jk := mkey mj) in *. set (ata := KAta jk KMint) in *. set (payer := mkey m) in *.
  exists mc, ma, m, m0, mt, mm, mp, mj, mjt, m1, l5, r, n, p. split; [exact Ems|].
  fold ck jk payer.
  (* keys *)
  assert (Oc8 : owner (get a8 ck) = KRd) by (rewrite Hg1, key_eqb_refl; exact Hoc).
  assert (Nck_dk : ck <> dk) by (intros Eq; rewrite Eq in Oc8; congruence).
  assert (G9c : get a9 ck = get a8 ck) by (apply F2; [exact Nck_dk|right; rewrite Oc8; discriminate]).
  assert (Nck_tk : ck <> tk) by (intros Eq; rewrite <- Eq, G9c, Oc8 in Hto; discriminate).
  assert (G12c : get a12 ck = get a9 ck) by (apply F3; [exact Nck_tk|right; rewrite G9c, Oc8; discriminate]).
  assert (G14c : get a14 ck = get W ck <| data := DConfig (new_config r (now W) p) |>).
  { rewrite Hg4, (key_eqb_neq dk ck), G12c, G9c, Hg1, key_eqb_refl by congruence. reflexivity. }
  assert (Od9 : owner (get a9 dk) = KRd) by (apply hdr_eq in Hdh as (X & _ & _); exact X).
  assert (G12d : get a12 dk = get a9 dk) by (apply F3; [discriminate|right; rewrite Od9; discriminate]).
  assert (G14d : get a14 dk = get a9 dk <| data := DDist (new_dist r (now W) n 0) [] |>).
  { rewrite Hg4, key_eqb_refl, G12d. reflexivity. }
  assert (G14t : get a14 tk = get a12 tk) by (rewrite Hg4; reflexivity).
  assert (Hfresh : owner (get W dk) = KSystem).
  { rewrite <- Hdo, Hg1, (key_eqb_neq ck dk) by exact Nck_dk. reflexivity. }
  (* every other account, up to the journal's ATA *)
  assert (Fr14 : forall k, k <> ck -> k <> dk -> k <> tk ->
            hdr (get a14 k) = hdr (get W k) /\ ((k <> payer \/ owner (get W k) <> KSystem) -> get a14 k = get W k)).
  { intros k N1 N2 N3.
    assert (X8 : get a8 k = get W k) by (rewrite Hg1, (key_eqb_neq ck k) by congruence; reflexivity).
    assert (X14 : get a14 k = get a12 k) by (rewrite Hg4, (key_eqb_neq dk k) by congruence; reflexivity).
    split.
    - rewrite X14, (Hh3 k N3), (Hh2 k N2), X8. reflexivity.
    - intros Hp. assert (Y9 : get a9 k = get a8 k) by (apply F2; [exact N2|rewrite X8; exact Hp]).
      rewrite X14, (F3 k N3), Y9, X8; [reflexivity|]. rewrite Y9, X8. exact Hp. }
  (* the case in which nothing is moved *)
  assert (Still : tok_amount W ata = 0 -> W' = a14 -> init_dist_facts W W' ck r n p payer jk).
  { intros Hz ->. constructor; fold e; fold dk; fold tk; fold ata; rewrite ?Hz; try assumption.
    - unfold two64. lia.
    - rewrite G14d. cbn. apply hdr_eq in Hdh as (X & _ & _). exact X.
    - rewrite G14d. cbn. apply hdr_eq in Hdh as (_ & X & _). exact X.
    - rewrite G14d. reflexivity.
    - rewrite G14d. cbn. unfold sat_add in Hdl. cbn in Hdl. exact Hdl.
    - rewrite G14t. exact Hto'.
    - rewrite G14t. exact Hta'.
    - rewrite G14t. exact Htd'.
    - rewrite G14t. exact Htl'.
    - intros X. contradiction.
    - intros k N1 N2 N3 _. apply Fr14; assumption. }
  (* what the journal's ATA holds when the tail of the processor looks at it *)
  destruct (key_eq_dec ata ck) as [Eac|Nac].
  { (* a (forged) config sitting at the ATA address: not token data *)
    rewrite Eac, G14c in H. cbn in H. apply Still; [|congruence].
    unfold tok_amount. rewrite Eac, Hdc. reflexivity. }
  destruct (Fr14 ata Nac ltac:(discriminate) ltac:(discriminate)) as (Hha & Fa).
  apply hdr_fields in Hha as (Hao & _ & Had).
  rewrite Had in H. unfold tok_amount in Still. fold ata in Still.
  destruct (data (get W ata)) as [| | | | | | | | |t| | | |] eqn:Edat; try (apply Still; [reflexivity|congruence]).
  destruct (N.eqb_spec (t_amount t) 0) as [Ez|Enz]; [apply Still; [exact Ez|congruence]|].
  clear Still.
  (* the transfer *)
  apply bind_ok in H as (W5 & E5t & H).
  apply tok_transfer_spec in E5t as (_ & _ & _ & _ & s & d & Es & Ed & _ & Hmint & Hauth & Hn5 & _ & Hdiff).
  destruct (Hdiff ltac:(discriminate)) as (Hov & Hg5). clear Hdiff. specialize (Hov Enz).
  apply as_token_ok in Es as (Esd & Eso). apply as_token_ok in Ed as (Edd & _).
  rewrite Had in Esd. injection Esd as <-.
  rewrite G14t, Htd' in Edd. injection Edd as <-. cbn [t_amount t_mint] in *.
  apply put_dist_spec in H as (_ & _ & Hn6 & Hg6).
  assert (Hao' : owner (get W ata) = KToken) by congruence.
  assert (G14a : get a14 ata = get W ata) by (apply Fa; right; rewrite Hao'; discriminate).
  constructor; fold e; fold dk; fold tk; fold ata; unfold tok_amount; rewrite ?Edat; try assumption.
  - rewrite Hg6, (key_eqb_neq dk ck), Hg5, (key_eqb_neq ata ck), (key_eqb_neq tk ck) by congruence. exact G14c.
  - rewrite Hg6, key_eqb_refl. cbn. rewrite Hg5. cbn [key_eqb ata dk tk]. rewrite G14d. cbn.
    apply hdr_eq in Hdh as (X & _ & _). exact X.
  - rewrite Hg6, key_eqb_refl. cbn. rewrite Hg5. cbn [key_eqb ata dk tk]. rewrite G14d. cbn.
    apply hdr_eq in Hdh as (_ & X & _). exact X.
  - rewrite Hg6, key_eqb_refl. cbn [data RecordSet.set]. rewrite wadd64_0 by lia. reflexivity.
  - rewrite Hg6, key_eqb_refl. cbn. rewrite Hg5. cbn [key_eqb ata dk tk]. rewrite G14d. cbn.
    unfold sat_add in Hdl. cbn in Hdl. exact Hdl.
  - rewrite Hg6. cbn [key_eqb dk tk]. rewrite Hg5. cbn [key_eqb ata tk]. rewrite key_eqb_refl. cbn. rewrite G14t. exact Hto'.
  - rewrite Hg6. cbn [key_eqb dk tk]. rewrite Hg5. cbn [key_eqb ata tk]. rewrite key_eqb_refl. cbn. rewrite G14t. exact Hta'.
  - rewrite Hg6. cbn [key_eqb dk tk]. rewrite Hg5. cbn [key_eqb ata tk]. rewrite key_eqb_refl. cbn. reflexivity.
  - rewrite Hg6. cbn [key_eqb dk tk]. rewrite Hg5. cbn [key_eqb ata tk]. rewrite key_eqb_refl. cbn. rewrite G14t. exact Htl'.
  - intros _. exists t. repeat split; try assumption.
    rewrite Hg6. cbn [key_eqb dk ata]. rewrite Hg5, key_eqb_refl, G14a, N.sub_diag. reflexivity.
  - intros k N1 N2 N3 [Hz|N4]; [contradiction|].
    assert (X : get W' k = get a14 k).
    { rewrite Hg6, (key_eqb_neq dk k), Hg5, (key_eqb_neq ata k), (key_eqb_neq tk k) by congruence. reflexivity. }
    rewrite X. apply Fr14; assumption.
Qed.

(* reading the new distribution: the snapshot, four false flags, default counters / roots / totals, the prepaid 2Z *)
Lemma new_dist_fields c nw rate amt :
  let d := new_dist c nw rate amt in
  d_epoch d = c_next_epoch c /\ d_fees d = c_fees c /\ d_relay d = c_relay c /\ d_cbr d = rate /\
  d_calc_allowed_ts d = nw + c_calc_grace_min c * 60 /\
  d_debt_final d = false /\ d_rewards_final d = false /\ d_swept d = false /\ d_writeoff_enabled d = false /\
  d_prepaid_2z d = amt /\
  d = dist_default <| d_epoch := d_epoch d |> <| d_fees := d_fees d |> <| d_relay := d_relay d |> <| d_cbr := d_cbr d |>
                   <| d_calc_allowed_ts := d_calc_allowed_ts d |> <| d_prepaid_2z := d_prepaid_2z d |>.
Proof. cbv zeta. repeat split; reflexivity. Qed.
(* reading the config afterwards: three fields move, the sixteen others are the old ones *)
Lemma new_config_fields c nw burn' :
  let c' := new_config c nw burn' in
  c_last_init_ts c' = nw /\ c_burn c' = burn' /\ c_next_epoch c' = sat_add two64 (c_next_epoch c) 1 /\
  c' = c <| c_last_init_ts := c_last_init_ts c' |> <| c_burn := c_burn c' |> <| c_next_epoch := c_next_epoch c' |>.
Proof. cbv zeta. repeat split; reflexivity. Qed.

(* the same in the `dist_at` vocabulary of Lemmas_Inv *)
Corollary rd_initialize_distribution_creates_dist cx W W' :
  rd_initialize_distribution cx W = Ok W' ->
  exists m0 m1 m2 m3 m4 m5 m6 m7 m8 m9 rest c rate burn',
    cx_metas cx = m0 :: m1 :: m2 :: m3 :: m4 :: m5 :: m6 :: m7 :: m8 :: m9 :: rest /\
    rd_acct W (mkey m0) (DConfig c) /\ br_compute (c_burn c) = Some (rate, burn') /\
    dist_at W (KRdDist (c_next_epoch c)) = None /\
    dist_at W' (KRdDist (c_next_epoch c)) =
      Some (new_dist c (now W) rate (tok_amount W (KAta (mkey m7) KMint)), []) /\
    rd_acct W' (mkey m0) (DConfig (new_config c (now W) burn')).
Proof.
  intros H. pose proof (rd_initialize_distribution_guards _ _ _ H) as G.
  apply rd_initialize_distribution_spec in H as (m0 & m1 & m2 & m3 & m4 & m5 & m6 & m7 & m8 & m9 & rest & c & rate & burn' & Ems & F).
  destruct G as (g0 & g1 & g2 & g3 & g4 & g5 & g6 & g7 & g8 & g9 & grest & gc & gj & grate & gburn & Gms & G). rg_norm.
  rewrite Ems in Gms. injection Gms as <- <- <- <- <- <- <- <- <- <- <-.
  destruct F. exists m0, m1, m2, m3, m4, m5, m6, m7, m8, m9, rest, c, rate, burn'.
  assert (gc = c) as -> by (match goal with X : rd_acct W (mkey m0) (DConfig gc) |- _ => destruct X as (_ & X); congruence end).
  split; [exact Ems|]. split; [split; assumption|]. split; [assumption|]. split; [|split].
  - match goal with X : fresh_acct W (KRdDist _) |- _ => destruct X as (X & _) end.
    eapply dist_at_owner; [eassumption|discriminate].
  - rewrite dist_at_of. unfold dist_of. rewrite idf_dist_owner0, idf_dist_data0. reflexivity.
  - unfold rd_acct. rewrite idf_config0. split; [exact idf_cfg_owner0|reflexivity].
Qed.
Print Assumptions rd_initialize_distribution_spec.
Print Assumptions rd_initialize_distribution_creates_dist.
