(* The DequeueFills side of swap programs as seen from revenue-distribution's sweep CPI.
   mock/swap-sol-2z try_dequeue_fills transcribed; harness-only scripted ("rogue") swap programs reply with whatever
   the account at the fills-registry position holds.  Executable definitions only. *)
From DZ Require Import Base Keys Merkle BurnRate Swap_Ring State World.

(* return data as the caller decodes it: exactly three u64 (24 bytes) or anything else *)
Definition reply := option (key * retdata).       (* (program id that set it, data); None = no return data *)

Definition sw_zc_fills (ms : list meta) (W : world) : result (key * ring * list meta) :=
  '(m, ms) <- next_account ms false true (Some KSwapMock) W ;;
  match data (get W (mkey m)) with
  | DFills r => Ok (mkey m, r, ms)
  | _ => Err EInvalidAccountData
  end.

Definition sw_dequeue_fills (cx : ctx) (W : world) (sol : N) : result (world * reply) :=
  '(c, ms) <- next_any (cx_metas cx) W ;;
  _ <- require (key_eqb (mkey c) KSwapCfg) EInvalidAccountData ;;
  '(s, ms) <- next_any ms W ;;
  _ <- require (key_eqb (mkey s) KSwapState) EInvalidAccountData ;;
  '(fk, r, ms) <- sw_zc_fills ms W ;;
  _ <- require (negb (Nat.eqb (count r) 0)) EInvalidAccountData ;;
  '(_, ms) <- next_account ms true false None W ;;
  match dequeue r sol with
  | Some (r', z) =>
      W <- write_data cx W fk (DFills r') ;;
      Ok (W, Some (KSwapMock, RTriple sol z 1))
  | None => Err EInvalidAccountData
  end.

(* the CPI issued by try_sweep_distribution_tokens: program `swap`, accounts (cfg ro, state ro, fills w, journal signer) *)
Definition swap_dequeue_cpi (cx : ctx) (W : world) (swap cfg st fills jk : key) (sol : N) (pdas : list key)
  : result (world * reply) :=
  ms <- cpi_metas cx swap [mk cfg false false; mk st false false; mk fills false true; mk jk true false] pdas ;;
  let cx' := {| cx_prog := swap; cx_metas := ms; cx_height := cx_height cx + 1; cx_sibling := None |} in
  match swap with
  | KSwapMock => sw_dequeue_fills cx' W sol
  | KRogue n =>
      (* scripted swap program: replies with the script stored (by the harness) in the account passed as fills registry *)
      match data (get W fills) with
      | DScript (Some r) => Ok (W, Some (KRogue n, r))
      | _ => Ok (W, None)
      end
  | _ => Err (ERuntime 10)        (* not an executable program known to the model *)
  end.
