(* programs/revenue-distribution/src/processor.rs transcribed helper-for-helper, in source order.
   Executable definitions only.  Arithmetic as the deployed (overflow-checks = off) build computes it. *)
From DZ Require Import Base Keys Merkle BurnRate Shares Swap_Ring State World SwapDeq.

Inductive rd_setting :=
| RSPaused (b : bool)
| RSDebtAccountant (k : key) | RSRewardsAccountant (k : key) | RSContributorManager (k : key) | RSPlaceholderKey (k : key)
| RSSwapProgram (k : key)
| RSFeeParams (base prio infl jito fixed : N)
| RSCalcGrace (minutes : N)
| RSBurnRate (limit to_inc to_lim : N) (initial : option N)
| RSPlaceholderRelay (n : N) | RSRelayLamports (n : N)
| RSMinEpochs (n : N)
| RSInitGrace (minutes : N)
| RSFeatureActivation (epoch : N).
Inductive contrib_setting := CSRecipients (l : list (key * N)) | CSBlock (b : bool).
Inductive root_kind := RKDebt (node : key) (amount : N) | RKReward (contributor : key) (unit_share packed : N).

Inductive rd_ix :=
| RInitializeProgram
| RMigrate
| RSetAdmin (k : key)
| RConfigureProgram (s : rd_setting)
| RInitializeJournal
| RInitializeDistribution
| RConfigureDebt (total_validators total_debt : N) (root : hash)
| RFinalizeDebt
| RConfigureRewards (total_contributors : N) (root : hash)
| RFinalizeRewards
| RDistributeRewards (unit_share ebr : N) (p : proof)
| RInitializeContributor (svc : key)
| RSetRewardsManager (k : key)
| RConfigureContributor (s : contrib_setting)
| RVerifyRoot (kind : root_kind) (p : proof)
| RInitializeDeposit (node : key)
| RPayDebt (amount : N) (p : proof)
| REnableWriteOff
| RWriteOff (amount : N) (p : proof)
| RInitializeSwapDestination
| RSweep
| RWithdrawSol (amount : N).

(* ---- typed account access (ZeroCopyAccount / ZeroCopyMutAccount with Some(&ID)) ---- *)
Definition rd_zc_config (ms : list meta) (must_write : bool) (W : world) : result (key * rd_config * list meta) :=
  '(m, ms) <- next_account ms false must_write (Some KRd) W ;;
  match data (get W (mkey m)) with DConfig c => Ok (mkey m, c, ms) | _ => Err EInvalidAccountData end.
Definition rd_zc_dist (ms : list meta) (must_write : bool) (W : world) : result (key * dist * list N * list meta) :=
  '(m, ms) <- next_account ms false must_write (Some KRd) W ;;
  match data (get W (mkey m)) with DDist d t => Ok (mkey m, d, t, ms) | _ => Err EInvalidAccountData end.
Definition rd_zc_journal (ms : list meta) (must_write : bool) (W : world) : result (key * journal * list meta) :=
  '(m, ms) <- next_account ms false must_write (Some KRd) W ;;
  match data (get W (mkey m)) with DJournal j => Ok (mkey m, j, ms) | _ => Err EInvalidAccountData end.
Definition rd_zc_deposit (ms : list meta) (must_write : bool) (W : world) : result (key * deposit * list meta) :=
  '(m, ms) <- next_account ms false must_write (Some KRd) W ;;
  match data (get W (mkey m)) with DDeposit d => Ok (mkey m, d, ms) | _ => Err EInvalidAccountData end.
Definition rd_zc_contrib (ms : list meta) (must_write : bool) (W : world) : result (key * contrib * list meta) :=
  '(m, ms) <- next_account ms false must_write (Some KRd) W ;;
  match data (get W (mkey m)) with DContrib c => Ok (mkey m, c, ms) | _ => Err EInvalidAccountData end.

Inductive rd_authority := AAdmin | ADebtAccountant | ARewardsAccountant | AContributorManager.
Definition role_key (c : rd_config) (who : rd_authority) : key :=
  match who with AAdmin => c_admin c | ADebtAccountant => c_debt_accountant c
               | ARewardsAccountant => c_rewards_accountant c | AContributorManager => c_contributor_manager c end.
(* VerifiedProgramAuthority(Mut)::try_next_accounts *)
Definition rd_verified (ms : list meta) (must_write : bool) (who : rd_authority) (W : world)
  : result (key * rd_config * list meta) :=
  '(ck, c, ms) <- rd_zc_config ms must_write W ;;
  '(a, ms) <- next_account ms true false None W ;;
  _ <- require (key_eqb (mkey a) (role_key c who)) EInvalidAccountData ;;
  Ok (ck, c, ms).
Definition require_unpaused (c : rd_config) : result unit := require (negb (c_paused c)) EInvalidAccountData.

(* try_next_2z_token_pda_info: both the cached-bump and the find branch name the canonical address *)
Definition next_2z_token_pda (ms : list meta) (token_owner : key) (W : world) : result (key * list meta) :=
  '(m, ms) <- next_any ms W ;;
  _ <- require (key_eqb (mkey m) (KTok2z token_owner)) EInvalidSeeds ;;
  Ok (mkey m, ms).
Definition next_2z_mint (ms : list meta) (W : world) : result (list meta) :=
  '(m, ms) <- next_any ms W ;; _ <- require (key_eqb (mkey m) KMint) EInvalidAccountData ;; Ok ms.
Definition next_token_program (ms : list meta) (W : world) : result (list meta) :=
  '(m, ms) <- next_any ms W ;; _ <- require (key_eqb (mkey m) KToken) EInvalidAccountData ;; Ok ms.

(* ---- bitmaps in the distribution's remaining data ---- *)
Definition set_bit_byte (b i : N) : N := N.lor b (N.shiftl 1 i).
(* try_process_remaining_data_leaf_index(&mut remaining_data[start..end], leaf_index) *)
Definition process_leaf (tail : list N) (start end_ : N) (idx : N) : result (list N) :=
  _ <- require ((start <=? end_) && (end_ <=? N.of_nat (length tail))) (ERuntime 20) ;;   (* slice index panic *)
  _ <- require (idx / 8 <? end_ - start) EInvalidInstructionData ;;
  let pos := N.to_nat (start + idx / 8) in
  let b := nth pos tail 0 in
  _ <- require (negb (N.testbit b (idx mod 8))) EInvalidAccountData ;;
  Ok (set_nth tail pos (set_bit_byte b (idx mod 8))).
Definition ceil8 (n : N) : N := if n mod 8 =? 0 then n / 8 else n / 8 + 1.
Definition zeros (n : N) : list N := repeat 0 (N.to_nat n).
Definition dist_len (tail : list N) : N := LEN_DIST + N.of_nat (length tail).

(* Distribution::checked_total_sol_debt *)
Definition total_sol_debt (d : dist) : option N := checked_sub (d_total_debt d) (d_uncollectible d).
Definition calc_allowed (d : dist) (W : world) : bool :=
  negb (d_calc_allowed_ts d =? 0) && (d_calc_allowed_ts d <=? now W).
Definition put_dist (cx : ctx) (W : world) (k : key) (d : dist) (tail : list N) : result world :=
  write_data cx W k (DDist d tail).

(* ---- processors ---- *)
Definition rd_initialize_program (cx : ctx) (W : world) : result world :=
  '(payer, ms) <- next_any (cx_metas cx) W ;;
  '(newc, ms) <- next_any ms W ;;
  _ <- require (key_eqb (mkey newc) KRdConfig) EInvalidSeeds ;;
  W <- create_account cx W (mkey payer) KRdConfig LEN_CONFIG_ALLOC KRd 0 ;;
  '(res, ms) <- next_2z_token_pda ms KRdConfig W ;;
  ms <- next_2z_mint ms W ;;
  ms <- next_token_program ms W ;;
  W <- create_token_account cx W (mkey payer) res KMint KRdConfig ;;
  try_initialize cx W KRdConfig 608 (DConfig (rd_config_default <| c_paused := true |>)).

Definition rd_set_admin (cx : ctx) (W : world) (admin : key) : result world :=
  '(_, ms) <- next_upgrade_authority (cx_metas cx) KRd W ;;
  '(ck, c, ms) <- rd_zc_config ms true W ;;
  write_data cx W ck (DConfig (c <| c_admin := admin |>)).
Definition rd_migrate (cx : ctx) (W : world) : result world :=
  '(_, ms) <- next_upgrade_authority (cx_metas cx) KRd W ;;
  '(ck, c, ms) <- rd_zc_config ms true W ;;
  write_data cx W ck (DConfig (c <| c_migrated := false |>)).

Definition valid_fee (x : N) : bool := x <=? US16_MAX.
Definition rd_apply_setting (c : rd_config) (s : rd_setting) : result rd_config :=
  match s with
  | RSPaused b => Ok (c <| c_paused := b |>)
  | RSDebtAccountant k => Ok (c <| c_debt_accountant := k |>)
  | RSRewardsAccountant k => Ok (c <| c_rewards_accountant := k |>)
  | RSContributorManager k => Ok (c <| c_contributor_manager := k |>)
  | RSPlaceholderKey _ => Err EInvalidInstructionData
  | RSSwapProgram k => Ok (c <| c_swap_program := k |> <| c_has_withdraw_bump := true |>)
  | RSFeeParams b p i j f =>
      _ <- require (valid_fee b && valid_fee p && valid_fee i && valid_fee j) EInvalidInstructionData ;;
      Ok (c <| c_fees := {| fp_base := b; fp_priority := p; fp_inflation := i; fp_jito := j; fp_fixed := f |} |>)
  | RSCalcGrace m =>
      _ <- require (negb (m =? 0) && (m <=? 1440)) EInvalidInstructionData ;;
      Ok (c <| c_calc_grace_min := m |>)
  | RSBurnRate lim ti tl initial =>
      match configure_burn_rate (c_next_epoch c) (c_burn c) lim ti tl initial with
      | Some p => Ok (c <| c_burn := p |>)
      | None => Err EInvalidInstructionData
      end
  | RSPlaceholderRelay _ => Err EInvalidInstructionData
  | RSRelayLamports n =>
      _ <- require (5001 <=? n) EInvalidInstructionData ;;
      Ok (c <| c_relay := n |>)
  | RSMinEpochs n =>
      _ <- require (negb (n =? 0)) EInvalidInstructionData ;;
      Ok (c <| c_min_epochs := n |>)
  | RSInitGrace m =>
      _ <- require (negb (m =? 0) && (m <=? 2880)) EInvalidInstructionData ;;
      Ok (c <| c_init_grace_min := m |>)
  | RSFeatureActivation e =>
      _ <- require (negb (e =? 0)) EInvalidInstructionData ;;
      Ok (c <| c_writeoff_activation := e |>)
  end.
Definition rd_configure_program (cx : ctx) (W : world) (s : rd_setting) : result world :=
  '(ck, c, ms) <- rd_verified (cx_metas cx) true AAdmin W ;;
  c' <- rd_apply_setting c s ;;
  write_data cx W ck (DConfig c').

Definition rd_initialize_journal (cx : ctx) (W : world) : result world :=
  '(payer, ms) <- next_any (cx_metas cx) W ;;
  '(newj, ms) <- next_any ms W ;;
  _ <- require (key_eqb (mkey newj) KRdJournal) EInvalidSeeds ;;
  W <- create_account cx W (mkey payer) KRdJournal LEN_CONFIG_ALLOC KRd 0 ;;
  '(tk, ms) <- next_2z_token_pda ms KRdJournal W ;;
  ms <- next_2z_mint ms W ;;
  ms <- next_token_program ms W ;;
  W <- create_token_account cx W (mkey payer) tk KMint KRdJournal ;;
  try_initialize cx W KRdJournal 72 (DJournal journal_default).

Definition fees_configured (f : fee_params) : bool := negb (fee_eqb f fee_default).

Definition rd_initialize_distribution (cx : ctx) (W : world) : result world :=
  '(ck, c, ms) <- rd_verified (cx_metas cx) true ADebtAccountant W ;;
  _ <- require_unpaused c ;;
  _ <- require (negb (c_init_grace_min c =? 0)) EInvalidAccountData ;;
  let allowed := c_last_init_ts c + c_init_grace_min c * 60 in
  _ <- require (allowed <? two32) (ERuntime 21) ;;                      (* checked_add(..).unwrap() *)
  _ <- require (allowed <=? now W) EInvalidAccountData ;;
  _ <- require (now W <? two32) (ERuntime 21) ;;                        (* try_into::<u32>().unwrap() *)
  _ <- require (negb (c_calc_grace_min c =? 0)) EInvalidAccountData ;;
  _ <- require (fees_configured (c_fees c)) EInvalidAccountData ;;
  '(rate, burn') <- of_option (br_compute (c_burn c)) EInvalidAccountData ;;
  _ <- require (negb (c_relay c =? 0)) EInvalidAccountData ;;
  '(payer, ms) <- next_any ms W ;;
  '(newd, ms) <- next_any ms W ;;
  let e := c_next_epoch c in
  let dk := KRdDist e in
  _ <- require (key_eqb (mkey newd) dk) EInvalidSeeds ;;
  let c' := c <| c_last_init_ts := now W |> <| c_burn := burn' |> <| c_next_epoch := sat_add two64 e 1 |> in
  W <- write_data cx W ck (DConfig c') ;;
  W <- create_account cx W (mkey payer) dk LEN_DIST KRd 0 ;;
  '(tk, ms) <- next_2z_token_pda ms dk W ;;
  ms <- next_2z_mint ms W ;;
  ms <- next_token_program ms W ;;
  W <- create_token_account cx W (mkey payer) tk KMint dk ;;
  let calc_ts := now W + c_calc_grace_min c * 60 in
  _ <- require (calc_ts <? two32) (ERuntime 21) ;;
  let d := dist_default <| d_epoch := e |> <| d_cbr := rate |> <| d_fees := c_fees c |> <| d_relay := c_relay c |>
                        <| d_calc_allowed_ts := calc_ts |> in
  W <- try_initialize cx W dk LEN_DIST (DDist d []) ;;
  '(jk, j, ms) <- rd_zc_journal ms true W ;;
  '(_, ms) <- next_2z_token_pda ms jk W ;;
  '(ata, ms) <- next_any ms W ;;
  _ <- require (key_eqb (mkey ata) (KAta jk KMint)) EInvalidAccountData ;;
  match data (get W (mkey ata)) with
  | DToken t =>
      if t_amount t =? 0 then Ok W else
      W <- tok_transfer cx W (mkey ata) tk jk (t_amount t) [KRdJournal] ;;
      put_dist cx W dk (d <| d_prepaid_2z := wadd64 0 (t_amount t) |>) []
  | _ => Ok W
  end.

Definition rd_configure_debt (cx : ctx) (W : world) (n debt : N) (root : hash) : result world :=
  '(ck, c, ms) <- rd_verified (cx_metas cx) false ADebtAccountant W ;;
  _ <- require_unpaused c ;;
  '(dk, d, tail, ms) <- rd_zc_dist ms true W ;;
  _ <- require (negb (d_debt_final d)) EInvalidAccountData ;;
  _ <- require (calc_allowed d W) EInvalidAccountData ;;
  put_dist cx W dk (d <| d_total_validators := n |> <| d_total_debt := debt |> <| d_debt_root := root |>) tail.

(* the three "append a bitmap" instructions share the resize-and-top-up tail *)
Definition grow_and_fund (cx : ctx) (W : world) (dk : key) (d : dist) (tail : list N) (extra : N) (ms : list meta) (more_lamports : N)
  : result world :=
  let tail' := tail ++ zeros extra in
  W <- put_dist cx W dk d tail' ;;
  W <- resize cx W dk (alen (get W dk) + extra) ;;
  let a := get W dk in
  let top_up := rent (alen a) - lamports a in                        (* saturating_sub *)
  '(payer, ms) <- next_any ms W ;;
  sys_transfer cx W (mkey payer) dk (sat_add two64 more_lamports top_up) [].

Definition rd_finalize_debt (cx : ctx) (W : world) : result world :=
  '(ck, c, ms) <- rd_verified (cx_metas cx) false ADebtAccountant W ;;
  _ <- require_unpaused c ;;
  '(dk, d, tail, ms) <- rd_zc_dist ms true W ;;
  _ <- require (negb (d_debt_final d)) EInvalidAccountData ;;
  _ <- require (calc_allowed d W) EInvalidAccountData ;;
  let d := d <| d_debt_final := true |> in
  debt <- of_option (total_sol_debt d) (ERuntime 22) ;;                 (* .unwrap() *)
  if debt =? 0 then put_dist cx W dk d tail else
  let extra := ceil8 (d_total_validators d) in
  let start := N.of_nat (length tail) in
  let d := d <| d_debt_start := start |> <| d_debt_end := sat_add two32 start extra |> in
  grow_and_fund cx W dk d tail extra ms 0.

Definition rd_configure_rewards (cx : ctx) (W : world) (k : N) (root : hash) : result world :=
  '(ck, c, ms) <- rd_verified (cx_metas cx) false ARewardsAccountant W ;;
  _ <- require_unpaused c ;;
  '(dk, d, tail, ms) <- rd_zc_dist ms true W ;;
  _ <- require (negb (d_rewards_final d)) EInvalidAccountData ;;
  _ <- require (calc_allowed d W) EInvalidAccountData ;;
  put_dist cx W dk (d <| d_total_contributors := k |> <| d_rewards_root := root |>) tail.

(* the null-root guard of try_finalize_distribution_rewards (fix: commit adds the prepaid-2Z disjunct) *)
Definition null_root_guard (d : dist) (debt : N) : bool :=
  negb ((negb (debt =? 0) || negb (d_prepaid_2z d =? 0)) && hash_eqb (d_rewards_root d) null_hash).

Definition rd_finalize_rewards (cx : ctx) (W : world) : result world :=
  '(ck, c, ms) <- rd_zc_config (cx_metas cx) false W ;;
  _ <- require_unpaused c ;;
  '(dk, d, tail, ms) <- rd_zc_dist ms true W ;;
  _ <- require (negb (d_rewards_final d)) EInvalidAccountData ;;
  _ <- require (calc_allowed d W) EInvalidAccountData ;;
  let d := d <| d_rewards_final := true |> in
  _ <- require (d_debt_final d) EInvalidAccountData ;;
  debt <- of_option (total_sol_debt d) (ERuntime 22) ;;
  _ <- require (null_root_guard d debt) EInvalidAccountData ;;
  _ <- require (negb (c_min_epochs c =? 0)) EInvalidAccountData ;;
  _ <- require (sat_add two64 (d_epoch d) (c_min_epochs c) <=? c_next_epoch c) EInvalidAccountData ;;
  let k := d_total_contributors d in
  let extra := ceil8 k in
  let start := N.of_nat (length tail) in
  let d := d <| d_rew_start := start |> <| d_rew_end := sat_add two32 start extra |> in
  grow_and_fund cx W dk d tail extra ms (sat_mul two64 (d_relay d) k).

Definition leaf_idx (p : proof) : result N := of_option (leaf_index p) EInvalidInstructionData.

(* recipient loop of try_distribute_rewards: one ATA per active recipient, Token transfer signed by the distribution PDA *)
Fixpoint distribute_loop (cx : ctx) (W : world) (ms : list meta) (recips : list (key * N)) (remaining : N)
         (src auth : key) (pdas : list key) (acc : N) : result (world * N * list meta) :=
  match recips with
  | [] => Ok (W, acc, ms)
  | (rk, share) :: tl =>
      '(ata, ms) <- next_any ms W ;;
      _ <- require (key_eqb (mkey ata) (KAta rk KMint)) EInvalidAccountData ;;
      amt <- of_option (us16_mul_scalar share remaining) (ERuntime 23) ;;
      W <- tok_transfer cx W src (mkey ata) auth amt pdas ;;
      distribute_loop cx W ms tl remaining src auth pdas (wadd64 acc amt)
  end.

Definition rd_distribute_rewards (cx : ctx) (W : world) (unit_share ebr : N) (p : proof) : result world :=
  idx <- leaf_idx p ;;
  '(ck, c, ms) <- rd_zc_config (cx_metas cx) false W ;;
  _ <- require_unpaused c ;;
  '(dk, d, tail, ms) <- rd_zc_dist ms true W ;;
  _ <- require (negb (d_total_contributors d - d_distributed_count d =? 0)) EInvalidAccountData ;;
  _ <- require (d_swept d) EInvalidAccountData ;;
  tail <- process_leaf tail (d_rew_start d) (d_rew_end d) idx ;;
  '(crk, cr, ms) <- rd_zc_contrib ms false W ;;
  _ <- require ((unit_share <=? US32_MAX) && (ebr <=? US32_MAX)) EInvalidInstructionData ;;
  _ <- require (hash_eqb (root_from_leaf p PRE_REWARD (LReward (cr_service cr) unit_share ebr)) (d_rewards_root d))
               EInvalidInstructionData ;;
  '(tk, ms) <- next_2z_token_pda ms dk W ;;
  ms <- next_2z_mint ms W ;;
  '(relayer, ms) <- next_account ms false true None W ;;
  ms <- next_token_program ms W ;;
  total <- of_option (checked_add two64 (d_prepaid_2z d) (d_swept_2z d)) (ERuntime 22) ;;
  share_amt <- of_option (us32_mul_scalar unit_share total) (ERuntime 23) ;;
  burn0 <- of_option (us32_mul_scalar (N.max ebr (d_cbr d)) share_amt) (ERuntime 23) ;;
  let remaining := wsub64 share_amt burn0 in
  let pdas := [KRdDist (d_epoch d)] in
  '(W, transferred, ms) <- distribute_loop cx W ms (cr_recipients cr) remaining tk dk pdas 0 ;;
  _ <- require (negb (Nat.eqb (length (cr_recipients cr)) 0)) EInvalidAccountData ;;
  let burn := wadd64 burn0 (wsub64 remaining transferred) in
  let d := d <| d_distributed_2z := wadd64 (d_distributed_2z d) transferred |>
             <| d_burned_2z := wadd64 (d_burned_2z d) burn |>
             <| d_distributed_count := wadd32 (d_distributed_count d) 1 |> in
  W <- put_dist cx W dk d tail ;;
  W <- tok_burn cx W tk KMint dk burn pdas ;;
  W <- credit cx W (mkey relayer) (d_relay d) ;;
  debit cx W dk (d_relay d).

Definition rd_initialize_contributor (cx : ctx) (W : world) (svc : key) : result world :=
  '(payer, ms) <- next_any (cx_metas cx) W ;;
  '(newc, ms) <- next_any ms W ;;
  _ <- require (key_eqb (mkey newc) (KRdContrib svc)) EInvalidSeeds ;;
  W <- create_account cx W (mkey payer) (KRdContrib svc) LEN_CONTRIB KRd 0 ;;
  try_initialize cx W (KRdContrib svc) LEN_CONTRIB
    (DContrib {| cr_manager := default_key; cr_service := svc; cr_blocked := false; cr_recipients := [] |}).

Definition rd_set_rewards_manager (cx : ctx) (W : world) (k : key) : result world :=
  '(ck, c, ms) <- rd_verified (cx_metas cx) false AContributorManager W ;;
  _ <- require_unpaused c ;;
  '(crk, cr, ms) <- rd_zc_contrib ms true W ;;
  _ <- require (negb (cr_blocked cr)) EInvalidAccountData ;;
  write_data cx W crk (DContrib (cr <| cr_manager := k |>)).

(* RecipientShares::new on structured keys *)
Fixpoint recipients_sum_ok (l : list (key * N)) (total : N) : option N :=
  match l with
  | [] => Some total
  | (k, s) :: tl =>
      if is_default k then None else
      if negb (s <=? US16_MAX) then None else
      if s =? 0 then None else
      match us16_checked_add total s with Some t => recipients_sum_ok tl t | None => None end
  end.
Definition recipients_new_k (l : list (key * N)) : bool :=
  (Nat.leb (length l) 8) && match recipients_sum_ok l 0 with Some t => t =? US16_MAX | None => false end.

Definition rd_configure_contributor (cx : ctx) (W : world) (s : contrib_setting) : result world :=
  '(ck, c, ms) <- rd_zc_config (cx_metas cx) false W ;;
  _ <- require_unpaused c ;;
  '(crk, cr, ms) <- rd_zc_contrib ms true W ;;
  '(mgr, ms) <- next_account ms true false None W ;;
  _ <- require (key_eqb (mkey mgr) (cr_manager cr)) EInvalidAccountData ;;
  match s with
  | CSRecipients l =>
      _ <- require (recipients_new_k l) EInvalidAccountData ;;
      write_data cx W crk (DContrib (cr <| cr_recipients := l |>))
  | CSBlock b => write_data cx W crk (DContrib (cr <| cr_blocked := b |>))
  end.

Definition rd_verify_root (cx : ctx) (W : world) (kind : root_kind) (p : proof) : result world :=
  _ <- leaf_idx p ;;
  '(dk, d, tail, ms) <- rd_zc_dist (cx_metas cx) false W ;;
  match kind with
  | RKDebt node amount =>
      _ <- require (hash_eqb (root_from_leaf p PRE_DEBT (LDebt node amount)) (d_debt_root d)) EInvalidInstructionData ;;
      Ok W
  | RKReward contributor us packed =>
      _ <- require (us <=? US32_MAX) EInvalidInstructionData ;;
      _ <- require (N.land packed ECONOMIC_BURN_RATE_MASK <=? US32_MAX) EInvalidInstructionData ;;
      _ <- require (hash_eqb (root_from_leaf p PRE_REWARD (LReward contributor us packed)) (d_rewards_root d)) EInvalidInstructionData ;;
      Ok W
  end.

Definition rd_initialize_deposit (cx : ctx) (W : world) (node : key) : result world :=
  '(newd, ms) <- next_any (cx_metas cx) W ;;
  _ <- require (key_eqb (mkey newd) (KRdDeposit node)) EInvalidAccountData ;;
  '(payer, ms) <- next_any ms W ;;
  let cur := lamports (get W (KRdDeposit node)) in
  W <- create_account cx W (mkey payer) (KRdDeposit node) LEN_DEPOSIT KRd cur ;;
  try_initialize cx W (KRdDeposit node) LEN_DEPOSIT (DDeposit {| dp_node := node; dp_written_off := 0 |}).

Definition rd_pay_debt (cx : ctx) (W : world) (amount : N) (p : proof) : result world :=
  idx <- leaf_idx p ;;
  '(ck, c, ms) <- rd_zc_config (cx_metas cx) false W ;;
  _ <- require_unpaused c ;;
  '(dk, d, tail, ms) <- rd_zc_dist ms true W ;;
  _ <- require (d_debt_final d) EInvalidAccountData ;;
  let d := d <| d_collected_sol := wadd64 (d_collected_sol d) amount |>
             <| d_payments_count := wadd32 (d_payments_count d) 1 |> in
  '(pk, dp, ms) <- rd_zc_deposit ms true W ;;
  tail <- process_leaf tail (d_debt_start d) (d_debt_end d) idx ;;
  _ <- require (hash_eqb (root_from_leaf p PRE_DEBT (LDebt (dp_node dp) amount)) (d_debt_root d)) EInvalidInstructionData ;;
  _ <- require (amount <=? lamports (get W pk) - rent LEN_DEPOSIT) EInvalidAccountData ;;
  W <- put_dist cx W dk d tail ;;
  '(jk, j, ms) <- rd_zc_journal ms true W ;;
  W <- debit cx W pk amount ;;
  W <- credit cx W jk amount ;;
  write_data cx W jk (DJournal (j <| j_total_sol := wadd64 (j_total_sol j) amount |>)).

Definition writeoff_activated (c : rd_config) : bool :=
  negb (c_writeoff_activation c =? 0) && (c_writeoff_activation c <=? c_next_epoch c).

(* lamports already prepaid for relaying the remaining reward distributions (fix: commit; they are not rent) *)
Definition outstanding_relay (d : dist) : N :=
  if d_rewards_final d then sat_mul two64 (d_relay d) (d_total_contributors d - d_distributed_count d) else 0.

Definition rd_enable_write_off (cx : ctx) (W : world) : result world :=
  '(ck, c, ms) <- rd_zc_config (cx_metas cx) false W ;;
  _ <- require_unpaused c ;;
  _ <- require (writeoff_activated c) EInvalidAccountData ;;
  '(dk, d, tail, ms) <- rd_zc_dist ms true W ;;
  _ <- require (negb (d_writeoff_enabled d)) EInvalidAccountData ;;
  let d := d <| d_writeoff_enabled := true |> in
  _ <- require (d_debt_final d) EInvalidAccountData ;;
  let extra := ceil8 (d_total_validators d) in
  let start := N.of_nat (length tail) in
  let d := d <| d_wo_start := start |> <| d_wo_end := sat_add two32 start extra |> in
  let tail' := tail ++ zeros extra in
  W <- put_dist cx W dk d tail' ;;
  W <- resize cx W dk (alen (get W dk) + extra) ;;
  let a := get W dk in
  let top_up := rent (alen a) - (lamports a - outstanding_relay d) in
  '(payer, ms) <- next_any ms W ;;
  sys_transfer cx W (mkey payer) dk top_up [].

Definition rd_write_off (cx : ctx) (W : world) (amount : N) (p : proof) : result world :=
  idx <- leaf_idx p ;;
  '(ck, c, ms) <- rd_verified (cx_metas cx) false ADebtAccountant W ;;
  _ <- require_unpaused c ;;
  '(dk, d, tail, ms) <- rd_zc_dist ms true W ;;
  '(pk, dp, ms) <- rd_zc_deposit ms true W ;;
  _ <- require (negb (key_eqb pk dk)) EAccountBorrowFailed ;;
  wo <- of_option (checked_add two64 (dp_written_off dp) amount) EArithmeticOverflow ;;
  W <- write_data cx W pk (DDeposit (dp <| dp_written_off := wo |>)) ;;
  let a := get W pk in
  _ <- require (negb (amount <=? lamports a - rent (alen a))) EInvalidAccountData ;;
  _ <- require (d_writeoff_enabled d) EInvalidAccountData ;;
  let d := d <| d_writeoff_count := wadd32 (d_writeoff_count d) 1 |> in
  tail <- process_leaf tail (d_wo_start d) (d_wo_end d) idx ;;
  tail <- process_leaf tail (d_debt_start d) (d_debt_end d) idx ;;
  _ <- require (hash_eqb (root_from_leaf p PRE_DEBT (LDebt (dp_node dp) amount)) (d_debt_root d)) EInvalidInstructionData ;;
  W <- put_dist cx W dk d tail ;;
  '(tk, t, ttail, ms) <- rd_zc_dist ms true W ;;
  _ <- require (d_epoch d <=? d_epoch t) EInvalidAccountData ;;
  _ <- require (negb (d_swept t)) EInvalidAccountData ;;
  _ <- require (d_debt_final t) EInvalidAccountData ;;
  unc <- of_option (checked_add two64 (d_uncollectible t) amount) EArithmeticOverflow ;;
  let t := t <| d_uncollectible := unc |> in
  _ <- of_option (total_sol_debt t) EArithmeticOverflow ;;
  put_dist cx W tk t ttail.

Definition rd_initialize_swap_destination (cx : ctx) (W : world) : result world :=
  '(ck, c, ms) <- rd_zc_config (cx_metas cx) true W ;;
  '(payer, ms) <- next_any ms W ;;
  '(sa, ms) <- next_any ms W ;;
  _ <- require (key_eqb (mkey sa) KRdSwapAuth) EInvalidSeeds ;;
  '(tk, ms) <- next_2z_token_pda ms KRdSwapAuth W ;;
  ms <- next_2z_mint ms W ;;
  ms <- next_token_program ms W ;;
  W <- write_data cx W ck (DConfig (c <| c_has_swap_auth_bump := true |> <| c_has_swap_dest_bump := true |>)) ;;
  create_token_account cx W (mkey payer) tk KMint KRdSwapAuth.

Definition rd_sweep (cx : ctx) (W : world) : result world :=
  '(ck, c, ms) <- rd_zc_config (cx_metas cx) false W ;;
  _ <- require_unpaused c ;;
  '(dk, d, tail, ms) <- rd_zc_dist ms true W ;;
  _ <- require (negb (d_swept d)) EInvalidAccountData ;;
  let d := d <| d_swept := true |> in
  _ <- require (d_rewards_final d) EInvalidAccountData ;;
  '(jk, j, ms) <- rd_zc_journal ms true W ;;
  _ <- require (negb (key_eqb jk dk)) EAccountBorrowFailed ;;
  _ <- require (j_next_sweep j =? d_epoch d) EInvalidAccountData ;;
  let j := j <| j_next_sweep := sat_add two64 (j_next_sweep j) 1 |> in
  debt <- of_option (total_sol_debt d) (ERuntime 22) ;;
  if debt =? 0 then
    W <- put_dist cx W dk d tail ;;
    write_data cx W jk (DJournal j)
  else
  _ <- require (debt <=? j_swapped_sol j) EInvalidAccountData ;;
  let j := j <| j_swapped_sol := j_swapped_sol j - debt |> in
  '(scfg, ms) <- next_any ms W ;;
  '(sst, ms) <- next_any ms W ;;
  '(sfills, ms) <- next_any ms W ;;
  '(sprog, ms) <- next_any ms W ;;
  _ <- require (key_eqb (mkey sprog) (c_swap_program c)) EInvalidAccountData ;;
  (* state written so far is visible to the callee only through account data it does not own: write it back first *)
  W <- put_dist cx W dk d tail ;;
  W <- write_data cx W jk (DJournal j) ;;
  '(W, rep) <- swap_dequeue_cpi cx W (c_swap_program c) (mkey scfg) (mkey sst) (mkey sfills) jk debt [KRdJournal] ;;
  '(rp, rd) <- of_option rep EInvalidAccountData ;;
  _ <- require (key_eqb rp (c_swap_program c)) EInvalidAccountData ;;
  '(rsol, z) <- match rd with RTriple a b _ => Ok (a, b) | RMalformed _ => Err EInvalidAccountData end ;;
  _ <- require (rsol =? debt) EInvalidAccountData ;;
  let d := d <| d_swept_2z := z |> in
  '(tk, ms) <- next_2z_token_pda ms dk W ;;
  '(sa, ms) <- next_any ms W ;;
  _ <- require (c_has_swap_auth_bump c) (ERuntime 22) ;;               (* checked_swap_authority_address().unwrap() *)
  _ <- require (key_eqb (mkey sa) KRdSwapAuth) EInvalidSeeds ;;
  '(sd, ms) <- next_2z_token_pda ms KRdSwapAuth W ;;
  W <- tok_transfer cx W sd tk (mkey sa) z [KRdSwapAuth] ;;
  bal <- of_option (checked_sub (j_swap_dest_balance j) z) EArithmeticOverflow ;;
  W <- put_dist cx W dk d tail ;;
  write_data cx W jk (DJournal (j <| j_swap_dest_balance := bal |>)).

Definition rd_withdraw_sol (cx : ctx) (W : world) (amount : N) : result world :=
  '(ck, c, ms) <- rd_zc_config (cx_metas cx) false W ;;
  _ <- require_unpaused c ;;
  _ <- require (c_has_withdraw_bump c) EInvalidAccountData ;;
  '(auth, ms) <- next_account ms true false None W ;;
  _ <- require (negb (is_default (c_swap_program c))) (ERuntime 22) ;;
  _ <- require (key_eqb (mkey auth) (KWithdrawAuth (c_swap_program c))) EInvalidAccountData ;;
  sib <- of_option (cx_sibling cx) EInvalidAccountData ;;
  _ <- require (key_eqb (sb_prog sib) KToken) EInvalidInstructionData ;;
  z <- match sb_kind sib with SibTransferChecked a => Ok a | SibOther => Err EInvalidInstructionData end ;;
  _ <- require (c_has_swap_auth_bump c) (ERuntime 22) ;;
  _ <- require (key_eqb (nth 1 (sb_accounts sib) default_key) KMint) EInvalidInstructionData ;;
  _ <- require (key_eqb (nth 2 (sb_accounts sib) default_key) (KTok2z KRdSwapAuth)) EInvalidInstructionData ;;
  '(jk, j, ms) <- rd_zc_journal ms true W ;;
  _ <- require (amount <=? j_total_sol j) EInvalidAccountData ;;
  let j := j <| j_total_sol := j_total_sol j - amount |>
             <| j_swapped_sol := wadd64 (j_swapped_sol j) amount |>
             <| j_swap_dest_balance := wadd64 (j_swap_dest_balance j) z |>
             <| j_lifetime_2z := wadd two128 (j_lifetime_2z j) z |> in
  W <- write_data cx W jk (DJournal j) ;;
  '(dest, ms) <- next_account ms false true None W ;;
  W <- debit cx W jk amount ;;
  credit cx W (mkey dest) amount.

Definition rd_process (cx : ctx) (W : world) (ix : rd_ix) : result world :=
  match ix with
  | RInitializeProgram => rd_initialize_program cx W
  | RMigrate => rd_migrate cx W
  | RSetAdmin k => rd_set_admin cx W k
  | RConfigureProgram s => rd_configure_program cx W s
  | RInitializeJournal => rd_initialize_journal cx W
  | RInitializeDistribution => rd_initialize_distribution cx W
  | RConfigureDebt n debt root => rd_configure_debt cx W n debt root
  | RFinalizeDebt => rd_finalize_debt cx W
  | RConfigureRewards k root => rd_configure_rewards cx W k root
  | RFinalizeRewards => rd_finalize_rewards cx W
  | RDistributeRewards us ebr p => rd_distribute_rewards cx W us ebr p
  | RInitializeContributor svc => rd_initialize_contributor cx W svc
  | RSetRewardsManager k => rd_set_rewards_manager cx W k
  | RConfigureContributor s => rd_configure_contributor cx W s
  | RVerifyRoot kind p => rd_verify_root cx W kind p
  | RInitializeDeposit node => rd_initialize_deposit cx W node
  | RPayDebt amount p => rd_pay_debt cx W amount p
  | REnableWriteOff => rd_enable_write_off cx W
  | RWriteOff amount p => rd_write_off cx W amount p
  | RInitializeSwapDestination => rd_initialize_swap_destination cx W
  | RSweep => rd_sweep cx W
  | RWithdrawSol amount => rd_withdraw_sol cx W amount
  end.
