(* C19 — proofs about the wire formats of Wire.v: every codec is lawful (Codec.v), hence round trip, canonicity,
   injectivity, strict parsing; selector tables duplicate-free; the head of try_process_instruction is strict. *)
From DZ Require Import Base Generated Codec Wire.

(* ---------------------------------------------------------------- small reflections used for the finite side conditions *)
Definition bytesb (l : bytes) : bool := forallb (fun b => b <? 256) l.
Lemma bytesb_ok l : bytesb l = true -> is_bytes l.
Proof. unfold bytesb, is_bytes. rewrite forallb_forall, Forall_forall. intros H x Hx. apply N.ltb_lt. auto. Qed.

(* ---------------------------------------------------------------- tactics *)
Ltac destruct_pairs := repeat match goal with a : (_ * _)%type |- _ => destruct a end.

(* syntactic dispatch only: `apply` of a lawfulness lemma to a goal about another named codec would try to unify the
   two records, which does not terminate in reasonable time *)
Ltac nonempty_tac :=
  repeat lazymatch goal with
  | |- nonempty (c_map _ _ _) => apply c_map_nonempty
  | |- nonempty (c_pair _ _) => apply c_pair_nonempty
  | |- nonempty (c_arr _) => apply c_arr_nonempty
  | |- nonempty (c_le _) => apply c_le_nonempty
  | |- nonempty c_bool => apply c_bool_nonempty
  | |- nonempty (c_vec _) => apply c_vec_nonempty
  | |- nonempty ?c => unfold c
  end.

(* `known` closes lawfulness goals of previously proved named codecs (and fails on anything else) *)
Ltac lawful_with known :=
  repeat lazymatch goal with
  | |- lawful (c_const _) => apply c_const_lawful
  | |- lawful c_unit => apply c_unit_lawful
  | |- lawful c_bool => apply c_bool_lawful
  | |- lawful (c_le _) => apply c_le_lawful
  | |- lawful (c_arr _) => apply c_arr_lawful
  | |- lawful (c_pair _ _) => apply c_pair_lawful
  | |- lawful (c_option _) => apply c_option_lawful
  | |- lawful (c_vec _) => apply c_vec_lawful; [ solve [nonempty_tac] | ]
  | |- lawful (c_map _ _ _) => apply c_map_lawful; [ solve [intros; destruct_pairs; reflexivity] | ]
  | |- lawful ?c => first [ known | unfold c ]
  end.

Ltac in_alts := repeat first [ left; reflexivity | right ].

(* union_ok, clause 3: a well-formed value is produced by (exactly the first fitting) alternative of the table *)
Ltac pick_alt Hx l :=
  lazymatch l with
  | (?t, ?c) :: ?tl =>
      first [ solve [ exists t, c; split; [ in_alts | split; [ first [ reflexivity | split; [ exact Hx | reflexivity ] ] | reflexivity ] ] ]
            | pick_alt Hx tl ]
  end.

(* union_ok, clause 4: whatever an alternative accepts is well formed and encoded under that alternative's tag *)
Ltac alt_back :=
  lazymatch goal with
  | Hw : wf (c_const _) ?x |- _ =>
      cbn [wf c_const] in Hw; subst x; split; [ exact I | first [ reflexivity | symmetry; apply app_nil_r ] ]
  | Hw : wf (c_map _ _ _) ?x |- _ =>
      cbn [wf c_map] in Hw; destruct Hw as [Hw Hx]; destruct x; cbv beta iota in Hx; try discriminate Hx;
      split; [ exact Hw | reflexivity ]
  end.

Ltac union_tac alts known :=
  unfold union_ok; split; [ | split; [ | split ] ];
  [ unfold alts; repeat (apply Forall_cons; [ split; [ reflexivity | split; [ apply bytesb_ok; vm_compute; reflexivity | cbn [snd]; lawful_with known ] ] | ]); apply Forall_nil
  | apply nodupb_nodup; vm_compute; reflexivity
  | let x := fresh "x" in let Hx := fresh "Hx" in intros x Hx; destruct x; let l := eval unfold alts in alts in pick_alt Hx l
  | let t := fresh "t" in let c := fresh "c" in let x := fresh "x" in let Hin := fresh "Hin" in let Hw := fresh "Hw" in
    intros t c x Hin Hw; unfold alts in Hin; cbn [In] in Hin;
    repeat (destruct Hin as [Hin|Hin]; [ (let Ht := fresh "Ht" in let Hc := fresh "Hc" in injection Hin as Ht Hc; subst t c; alt_back) | ]); contradiction ].

(* ---------------------------------------------------------------- the nested payload codecs are lawful *)
Lemma c_key_lawful : lawful c_key. Proof. apply c_arr_lawful. Qed.
Lemma c_hash_lawful : lawful c_hash. Proof. apply c_arr_lawful. Qed.
Ltac k0 := idtac; lazymatch goal with |- lawful c_key => exact c_key_lawful | |- lawful c_hash => exact c_hash_lawful end.

Lemma side_ok : union_ok 1 alts_side wf_side enc_side. Proof. union_tac alts_side k0. Qed.
Lemma c_side_lawful : lawful c_side. Proof. apply c_union_lawful, side_ok. Qed.
Lemma c_sibling_lawful : lawful c_sibling.
Proof. unfold c_sibling. lawful_with ltac:(idtac; first [ k0 | lazymatch goal with |- lawful c_side => exact c_side_lawful end ]). Qed.
Lemma c_sibling_nonempty : nonempty c_sibling.
Proof. unfold c_sibling, c_hash. nonempty_tac. Qed.
Lemma c_proof_lawful : lawful c_proof.
Proof. unfold c_proof. apply c_map_lawful; [intros [l i]; reflexivity|]. apply c_pair_lawful.
  - apply c_vec_lawful; [apply c_sibling_nonempty | apply c_sibling_lawful].
  - apply c_option_lawful, c_le_lawful. Qed.

Lemma rd_flag_ok : union_ok 1 alts_rd_flag wf_rd_flag enc_rd_flag. Proof. union_tac alts_rd_flag k0. Qed.
Lemma c_rd_flag_lawful : lawful c_rd_flag. Proof. apply c_union_lawful, rd_flag_ok. Qed.
Lemma rd_feature_ok : union_ok 1 alts_rd_feature wf_rd_feature enc_rd_feature. Proof. union_tac alts_rd_feature k0. Qed.
Lemma c_rd_feature_lawful : lawful c_rd_feature. Proof. apply c_union_lawful, rd_feature_ok. Qed.
Ltac k1 := idtac; first [ k0 | lazymatch goal with |- lawful c_rd_flag => exact c_rd_flag_lawful | |- lawful c_rd_feature => exact c_rd_feature_lawful end ].
Lemma rd_pcfg_ok : union_ok 1 alts_rd_pcfg wf_rd_pcfg enc_rd_pcfg. Proof. union_tac alts_rd_pcfg k1. Qed.
Lemma c_rd_pcfg_lawful : lawful c_rd_pcfg. Proof. apply c_union_lawful, rd_pcfg_ok. Qed.

Lemma c_recipient_nonempty : nonempty c_recipient. Proof. unfold c_recipient, c_key. nonempty_tac. Qed.
Lemma c_recipients_lawful : lawful (c_vec c_recipient).
Proof. apply c_vec_lawful; [apply c_recipient_nonempty|]. unfold c_recipient. lawful_with k0. Qed.
Ltac k2 := idtac; first [ k1 | lazymatch goal with |- lawful (c_vec c_recipient) => exact c_recipients_lawful end ].
Lemma cr_cfg_ok : union_ok 1 alts_cr_cfg wf_cr_cfg enc_cr_cfg. Proof. union_tac alts_cr_cfg k2. Qed.
Lemma c_cr_cfg_lawful : lawful c_cr_cfg. Proof. apply c_union_lawful, cr_cfg_ok. Qed.

Lemma c_debt_lawful : lawful c_debt. Proof. unfold c_debt. lawful_with k0. Qed.
Lemma c_share_lawful : lawful c_share. Proof. unfold c_share. lawful_with k0. Qed.
Ltac k3 := idtac; first [ k0 | lazymatch goal with |- lawful c_debt => exact c_debt_lawful | |- lawful c_share => exact c_share_lawful end ].
Lemma root_kind_ok : union_ok 1 alts_root_kind wf_root_kind enc_root_kind. Proof. union_tac alts_root_kind k3. Qed.
Lemma c_root_kind_lawful : lawful c_root_kind. Proof. apply c_union_lawful, root_kind_ok. Qed.

(* ---------------------------------------------------------------- the three instruction enums *)
Ltac k_rd := idtac; first [ k0 | lazymatch goal with |- lawful c_rd_pcfg => exact c_rd_pcfg_lawful | |- lawful c_cr_cfg => exact c_cr_cfg_lawful
  | |- lawful c_root_kind => exact c_root_kind_lawful | |- lawful c_proof => exact c_proof_lawful end ].
Lemma rd_ok : union_ok SEL_LEN alts_rd wf_rd encode_rd. Proof. union_tac alts_rd k_rd. Qed.
Lemma c_rd_lawful : lawful c_rd. Proof. apply c_union_lawful, rd_ok. Qed.

Lemma pp_flag_ok : union_ok 1 alts_pp_flag wf_pp_flag enc_pp_flag. Proof. union_tac alts_pp_flag k0. Qed.
Lemma c_pp_flag_lawful : lawful c_pp_flag. Proof. apply c_union_lawful, pp_flag_ok. Qed.
Ltac k4 := idtac; first [ k0 | lazymatch goal with |- lawful c_pp_flag => exact c_pp_flag_lawful end ].
Lemma pp_pcfg_ok : union_ok 1 alts_pp_pcfg wf_pp_pcfg enc_pp_pcfg. Proof. union_tac alts_pp_pcfg k4. Qed.
Lemma c_pp_pcfg_lawful : lawful c_pp_pcfg. Proof. apply c_union_lawful, pp_pcfg_ok. Qed.
Lemma c_att_lawful : lawful c_att. Proof. unfold c_att. lawful_with k0. Qed.
Lemma c_key_nonempty : nonempty c_key. Proof. unfold c_key. nonempty_tac. Qed.
Lemma c_keys_lawful : lawful (c_vec c_key). Proof. apply c_vec_lawful; [apply c_key_nonempty | apply c_key_lawful]. Qed.
Ltac k5 := idtac; first [ k0 | lazymatch goal with |- lawful c_att => exact c_att_lawful | |- lawful (c_vec c_key) => exact c_keys_lawful end ].
Lemma access_mode_ok : union_ok 1 alts_access_mode wf_access_mode enc_access_mode. Proof. union_tac alts_access_mode k5. Qed.
Lemma c_access_mode_lawful : lawful c_access_mode. Proof. apply c_union_lawful, access_mode_ok. Qed.
Ltac k_pp := idtac; first [ k0 | lazymatch goal with |- lawful c_pp_pcfg => exact c_pp_pcfg_lawful | |- lawful c_access_mode => exact c_access_mode_lawful end ].
Lemma pp_ok : union_ok SEL_LEN alts_pp wf_pp encode_pp. Proof. union_tac alts_pp k_pp. Qed.
Lemma c_pp_lawful : lawful c_pp. Proof. apply c_union_lawful, pp_ok. Qed.

Lemma sw_ok : union_ok SEL_LEN alts_sw wf_sw encode_sw. Proof. union_tac alts_sw k0. Qed.
Lemma c_sw_lawful : lawful c_sw. Proof. apply c_union_lawful, sw_ok. Qed.

(* ---------------------------------------------------------------- generic consequences for an instruction enum given as a lawful union *)
Section Enum.
  Context {T : Type} (alts : list (bytes * codec T)) (wfT : T -> Prop) (encT : T -> bytes) (id : bytes).
  Hypothesis ok : union_ok SEL_LEN alts wfT encT.
  Set Default Proof Using "All".   (* every lemma of the section takes the same five arguments *)
  Let decT := dec_union SEL_LEN alts.
  Let tfs := try_from_slice decT.
  Let L : lawful (c_union SEL_LEN alts wfT encT) := c_union_lawful _ _ _ _ ok.

  Lemma e_decode_encode x r : wfT x -> decT (encT x ++ r) = Some (x, r).
  Proof. exact (proj1 L x r). Qed.
  Lemma e_encode_decode bs x r : decT bs = Some (x, r) -> bs = encT x ++ r /\ wfT x.
  Proof. exact (proj2 L bs x r). Qed.
  Lemma e_roundtrip x : wfT x -> tfs (encT x) = Some x.
  Proof. exact (roundtrip _ L x). Qed.
  Lemma e_canonical bs x : tfs bs = Some x -> bs = encT x /\ wfT x.
  Proof. exact (parse_all_canonical _ L bs x). Qed.
  Lemma e_encode_inj x y : wfT x -> wfT y -> encT x = encT y -> x = y.
  Proof. exact (enc_inj _ L x y). Qed.
  Lemma e_reject_trailing x t : wfT x -> t <> [] -> tfs (encT x ++ t) = None.
  Proof. exact (reject_trailing _ L x t). Qed.
  Lemma e_reject_truncated x p s : wfT x -> encT x = p ++ s -> s <> [] -> tfs p = None.
  Proof. exact (reject_truncated _ L x p s). Qed.
  Lemma e_reject_unknown sel r : length sel = SEL_LEN -> ~ In sel (map fst alts) -> decT (sel ++ r) = None.
  Proof. apply dec_union_unknown. Qed.
  Lemma e_reject_short bs : (length bs < SEL_LEN)%nat -> decT bs = None.
  Proof. apply dec_union_short. Qed.
  Lemma e_selectors_nodup : NoDup (map fst alts).
  Proof. exact (proj1 (proj2 ok)). Qed.
  (* every encoding begins with the selector of its alternative *)
  Lemma e_encode_selector x : wfT x -> In (firstn SEL_LEN (encT x)) (map fst alts).
  Proof.
    intros Hx. pose proof ok as Hok. destruct Hok as (Hall & _ & Hfwd & _). destruct (Hfwd x Hx) as (t & c & Hin & _ & ->).
    rewrite Forall_forall in Hall. destruct (Hall _ Hin) as (Hlen & _). cbn [fst] in Hlen.
    rewrite firstn_app, <- Hlen, firstn_all, Nat.sub_diag. cbn [firstn]. rewrite app_nil_r.
    apply (in_map fst) in Hin. exact Hin.
  Qed.

  (* the head of try_process_instruction *)
  Let prefix := process_prefix id tfs.
  Lemma e_wrong_program_id pid data : pid <> id -> prefix pid data = Err EIncorrectProgramId.
  Proof. intros H. unfold prefix, process_prefix. destruct (bytes_eqb pid id) eqn:E; [apply bytes_eqb_eq in E; contradiction|reflexivity]. Qed.
  Lemma e_invalid_data data : tfs data = None -> prefix id data = Err EInvalidInstructionData.
  Proof. intros H. unfold prefix, process_prefix. rewrite bytes_eqb_refl, H. reflexivity. Qed.
  Lemma e_dispatch_exact pid data ix : prefix pid data = Ok ix -> pid = id /\ data = encT ix /\ wfT ix.
  Proof.
    unfold prefix, process_prefix. destruct (bytes_eqb pid id) eqn:E; cbn [negb]; [|discriminate].
    apply bytes_eqb_eq in E. destruct (tfs data) as [y|] eqn:D; [|discriminate]. intros H; inversion H; subst.
    apply e_canonical in D. tauto.
  Qed.
  Lemma e_dispatch_valid x : wfT x -> prefix id (encT x) = Ok x.
  Proof. intros Hx. unfold prefix, process_prefix. rewrite bytes_eqb_refl. cbn [negb]. rewrite e_roundtrip by auto. reflexivity. Qed.
  Lemma e_trailing_program x t : wfT x -> t <> [] -> prefix id (encT x ++ t) = Err EInvalidInstructionData.
  Proof. intros Hx Ht. apply e_invalid_data, e_reject_trailing; auto. Qed.
  Lemma e_truncated_program x p s : wfT x -> encT x = p ++ s -> s <> [] -> prefix id p = Err EInvalidInstructionData.
  Proof. intros Hx He Hs. apply e_invalid_data. eapply e_reject_truncated; eauto. Qed.
  Lemma e_unknown_program sel r : length sel = SEL_LEN -> ~ In sel (map fst alts) -> prefix id (sel ++ r) = Err EInvalidInstructionData.
  Proof. intros Hl Hn. apply e_invalid_data. unfold tfs, try_from_slice. fold decT. rewrite e_reject_unknown by auto. reflexivity. Qed.
  (* the outcome is one of exactly three, decided by the program id and the byte string alone *)
  Lemma e_dispatch_cases pid data :
    (pid <> id /\ prefix pid data = Err EIncorrectProgramId) \/
    (pid = id /\ tfs data = None /\ prefix pid data = Err EInvalidInstructionData) \/
    (pid = id /\ exists ix, tfs data = Some ix /\ prefix pid data = Ok ix).
  Proof.
    unfold prefix, process_prefix. destruct (bytes_eqb pid id) eqn:E; cbn [negb].
    - apply bytes_eqb_eq in E. right. destruct (tfs data) as [y|] eqn:D; [right; eauto | left; auto].
    - left. split; [|reflexivity]. intros Heq. rewrite Heq, bytes_eqb_refl in E. discriminate.
  Qed.
End Enum.

(* ---------------------------------------------------------------- concrete witnesses for the non-vacuity examples *)
Ltac wf_ex := cbn; repeat first [ reflexivity | exact I | apply bytesb_ok; reflexivity | apply Forall_nil | apply Forall_cons | split ].
Definition key0 : bytes := repeat 0 32.
Lemma key0_wf : wf c_key key0. Proof. wf_ex. Qed.
Definition proof1 : merkle_proof := MProof [Sib key0 SideRight] (Some 7).
Lemma proof1_wf : wf c_proof proof1. Proof. wf_ex. Qed.
Lemma rd_example_wf : wf_rd (RdPaySolanaValidatorDebt 5 proof1). Proof. wf_ex. Qed.
Lemma rd_example_cfg_wf : wf_rd_pcfg (RpCommunityBurnRateParameters 1000000000 1 2 (Some 3)). Proof. wf_ex. Qed.
Lemma cr_example_wf : wf_cr_cfg (CrRecipients [(key0, 10000)]). Proof. wf_ex. Qed.
Definition att0 : attestation := Att key0 key0 (repeat 0 64).
Lemma am_example_wf : wf_access_mode (AmSolanaValidatorWithBackupIds att0 [key0]). Proof. wf_ex. Qed.
Lemma pp_example_wf : wf_pp (PpRequestAccess (AmSolanaValidatorWithBackupIds att0 [key0])). Proof. exact am_example_wf. Qed.
Lemma sw_example_wf : wf_sw (SwBuySol 1 2). Proof. wf_ex. Qed.

(* ---------------------------------------------------------------- the three enums, statement by statement *)
Lemma rd_decode_encode : forall x r, wf_rd x -> decode_rd (encode_rd x ++ r) = Some (x, r).
Proof. exact (e_decode_encode alts_rd wf_rd encode_rd G_RD_ID rd_ok). Qed.
Lemma rd_encode_decode : forall bs x r, decode_rd bs = Some (x, r) -> bs = encode_rd x ++ r /\ wf_rd x.
Proof. exact (e_encode_decode alts_rd wf_rd encode_rd G_RD_ID rd_ok). Qed.
Lemma rd_roundtrip : forall x, wf_rd x -> try_from_slice_rd (encode_rd x) = Some x.
Proof. exact (e_roundtrip alts_rd wf_rd encode_rd G_RD_ID rd_ok). Qed.
Lemma rd_canonical : forall bs x, try_from_slice_rd bs = Some x -> bs = encode_rd x /\ wf_rd x.
Proof. exact (e_canonical alts_rd wf_rd encode_rd G_RD_ID rd_ok). Qed.
Lemma rd_encode_inj : forall x y, wf_rd x -> wf_rd y -> encode_rd x = encode_rd y -> x = y.
Proof. exact (e_encode_inj alts_rd wf_rd encode_rd G_RD_ID rd_ok). Qed.
Lemma rd_reject_trailing : forall x t, wf_rd x -> t <> [] -> try_from_slice_rd (encode_rd x ++ t) = None.
Proof. exact (e_reject_trailing alts_rd wf_rd encode_rd G_RD_ID rd_ok). Qed.
Lemma rd_reject_truncated : forall x p s, wf_rd x -> encode_rd x = p ++ s -> s <> [] -> try_from_slice_rd p = None.
Proof. exact (e_reject_truncated alts_rd wf_rd encode_rd G_RD_ID rd_ok). Qed.
Lemma rd_reject_unknown_selector : forall sel r, length sel = 8%nat -> ~ In sel selectors_rd -> decode_rd (sel ++ r) = None.
Proof. exact (e_reject_unknown alts_rd wf_rd encode_rd G_RD_ID rd_ok). Qed.
Lemma rd_reject_short : forall bs, (length bs < 8)%nat -> decode_rd bs = None.
Proof. exact (e_reject_short alts_rd wf_rd encode_rd G_RD_ID rd_ok). Qed.
Lemma rd_selectors_nodup : NoDup selectors_rd.
Proof. exact (e_selectors_nodup alts_rd wf_rd encode_rd G_RD_ID rd_ok). Qed.
Lemma rd_encode_selector : forall x, wf_rd x -> In (firstn 8 (encode_rd x)) selectors_rd.
Proof. exact (e_encode_selector alts_rd wf_rd encode_rd G_RD_ID rd_ok). Qed.
Lemma rd_wrong_program_id : forall pid data, pid <> G_RD_ID -> process_prefix_rd pid data = Err EIncorrectProgramId.
Proof. exact (e_wrong_program_id alts_rd wf_rd encode_rd G_RD_ID rd_ok). Qed.
Lemma rd_invalid_data : forall data, try_from_slice_rd data = None -> process_prefix_rd G_RD_ID data = Err EInvalidInstructionData.
Proof. exact (e_invalid_data alts_rd wf_rd encode_rd G_RD_ID rd_ok). Qed.
Lemma rd_dispatch_exact : forall pid data ix, process_prefix_rd pid data = Ok ix -> pid = G_RD_ID /\ data = encode_rd ix /\ wf_rd ix.
Proof. exact (e_dispatch_exact alts_rd wf_rd encode_rd G_RD_ID rd_ok). Qed.
Lemma rd_dispatch_valid : forall x, wf_rd x -> process_prefix_rd G_RD_ID (encode_rd x) = Ok x.
Proof. exact (e_dispatch_valid alts_rd wf_rd encode_rd G_RD_ID rd_ok). Qed.
Lemma rd_trailing_refused_by_program : forall x t, wf_rd x -> t <> [] -> process_prefix_rd G_RD_ID (encode_rd x ++ t) = Err EInvalidInstructionData.
Proof. exact (e_trailing_program alts_rd wf_rd encode_rd G_RD_ID rd_ok). Qed.
Lemma rd_truncated_refused_by_program : forall x p s, wf_rd x -> encode_rd x = p ++ s -> s <> [] -> process_prefix_rd G_RD_ID p = Err EInvalidInstructionData.
Proof. exact (e_truncated_program alts_rd wf_rd encode_rd G_RD_ID rd_ok). Qed.
Lemma rd_unknown_selector_refused_by_program : forall sel r, length sel = 8%nat -> ~ In sel selectors_rd -> process_prefix_rd G_RD_ID (sel ++ r) = Err EInvalidInstructionData.
Proof. exact (e_unknown_program alts_rd wf_rd encode_rd G_RD_ID rd_ok). Qed.
Lemma pp_decode_encode : forall x r, wf_pp x -> decode_pp (encode_pp x ++ r) = Some (x, r).
Proof. exact (e_decode_encode alts_pp wf_pp encode_pp G_PP_ID pp_ok). Qed.
Lemma pp_encode_decode : forall bs x r, decode_pp bs = Some (x, r) -> bs = encode_pp x ++ r /\ wf_pp x.
Proof. exact (e_encode_decode alts_pp wf_pp encode_pp G_PP_ID pp_ok). Qed.
Lemma pp_roundtrip : forall x, wf_pp x -> try_from_slice_pp (encode_pp x) = Some x.
Proof. exact (e_roundtrip alts_pp wf_pp encode_pp G_PP_ID pp_ok). Qed.
Lemma pp_canonical : forall bs x, try_from_slice_pp bs = Some x -> bs = encode_pp x /\ wf_pp x.
Proof. exact (e_canonical alts_pp wf_pp encode_pp G_PP_ID pp_ok). Qed.
Lemma pp_encode_inj : forall x y, wf_pp x -> wf_pp y -> encode_pp x = encode_pp y -> x = y.
Proof. exact (e_encode_inj alts_pp wf_pp encode_pp G_PP_ID pp_ok). Qed.
Lemma pp_reject_trailing : forall x t, wf_pp x -> t <> [] -> try_from_slice_pp (encode_pp x ++ t) = None.
Proof. exact (e_reject_trailing alts_pp wf_pp encode_pp G_PP_ID pp_ok). Qed.
Lemma pp_reject_truncated : forall x p s, wf_pp x -> encode_pp x = p ++ s -> s <> [] -> try_from_slice_pp p = None.
Proof. exact (e_reject_truncated alts_pp wf_pp encode_pp G_PP_ID pp_ok). Qed.
Lemma pp_reject_unknown_selector : forall sel r, length sel = 8%nat -> ~ In sel selectors_pp -> decode_pp (sel ++ r) = None.
Proof. exact (e_reject_unknown alts_pp wf_pp encode_pp G_PP_ID pp_ok). Qed.
Lemma pp_reject_short : forall bs, (length bs < 8)%nat -> decode_pp bs = None.
Proof. exact (e_reject_short alts_pp wf_pp encode_pp G_PP_ID pp_ok). Qed.
Lemma pp_selectors_nodup : NoDup selectors_pp.
Proof. exact (e_selectors_nodup alts_pp wf_pp encode_pp G_PP_ID pp_ok). Qed.
Lemma pp_encode_selector : forall x, wf_pp x -> In (firstn 8 (encode_pp x)) selectors_pp.
Proof. exact (e_encode_selector alts_pp wf_pp encode_pp G_PP_ID pp_ok). Qed.
Lemma pp_wrong_program_id : forall pid data, pid <> G_PP_ID -> process_prefix_pp pid data = Err EIncorrectProgramId.
Proof. exact (e_wrong_program_id alts_pp wf_pp encode_pp G_PP_ID pp_ok). Qed.
Lemma pp_invalid_data : forall data, try_from_slice_pp data = None -> process_prefix_pp G_PP_ID data = Err EInvalidInstructionData.
Proof. exact (e_invalid_data alts_pp wf_pp encode_pp G_PP_ID pp_ok). Qed.
Lemma pp_dispatch_exact : forall pid data ix, process_prefix_pp pid data = Ok ix -> pid = G_PP_ID /\ data = encode_pp ix /\ wf_pp ix.
Proof. exact (e_dispatch_exact alts_pp wf_pp encode_pp G_PP_ID pp_ok). Qed.
Lemma pp_dispatch_valid : forall x, wf_pp x -> process_prefix_pp G_PP_ID (encode_pp x) = Ok x.
Proof. exact (e_dispatch_valid alts_pp wf_pp encode_pp G_PP_ID pp_ok). Qed.
Lemma pp_trailing_refused_by_program : forall x t, wf_pp x -> t <> [] -> process_prefix_pp G_PP_ID (encode_pp x ++ t) = Err EInvalidInstructionData.
Proof. exact (e_trailing_program alts_pp wf_pp encode_pp G_PP_ID pp_ok). Qed.
Lemma pp_truncated_refused_by_program : forall x p s, wf_pp x -> encode_pp x = p ++ s -> s <> [] -> process_prefix_pp G_PP_ID p = Err EInvalidInstructionData.
Proof. exact (e_truncated_program alts_pp wf_pp encode_pp G_PP_ID pp_ok). Qed.
Lemma pp_unknown_selector_refused_by_program : forall sel r, length sel = 8%nat -> ~ In sel selectors_pp -> process_prefix_pp G_PP_ID (sel ++ r) = Err EInvalidInstructionData.
Proof. exact (e_unknown_program alts_pp wf_pp encode_pp G_PP_ID pp_ok). Qed.
Lemma sw_decode_encode : forall x r, wf_sw x -> decode_sw (encode_sw x ++ r) = Some (x, r).
Proof. exact (e_decode_encode alts_sw wf_sw encode_sw G_SW_ID sw_ok). Qed.
Lemma sw_encode_decode : forall bs x r, decode_sw bs = Some (x, r) -> bs = encode_sw x ++ r /\ wf_sw x.
Proof. exact (e_encode_decode alts_sw wf_sw encode_sw G_SW_ID sw_ok). Qed.
Lemma sw_roundtrip : forall x, wf_sw x -> try_from_slice_sw (encode_sw x) = Some x.
Proof. exact (e_roundtrip alts_sw wf_sw encode_sw G_SW_ID sw_ok). Qed.
Lemma sw_canonical : forall bs x, try_from_slice_sw bs = Some x -> bs = encode_sw x /\ wf_sw x.
Proof. exact (e_canonical alts_sw wf_sw encode_sw G_SW_ID sw_ok). Qed.
Lemma sw_encode_inj : forall x y, wf_sw x -> wf_sw y -> encode_sw x = encode_sw y -> x = y.
Proof. exact (e_encode_inj alts_sw wf_sw encode_sw G_SW_ID sw_ok). Qed.
Lemma sw_reject_trailing : forall x t, wf_sw x -> t <> [] -> try_from_slice_sw (encode_sw x ++ t) = None.
Proof. exact (e_reject_trailing alts_sw wf_sw encode_sw G_SW_ID sw_ok). Qed.
Lemma sw_reject_truncated : forall x p s, wf_sw x -> encode_sw x = p ++ s -> s <> [] -> try_from_slice_sw p = None.
Proof. exact (e_reject_truncated alts_sw wf_sw encode_sw G_SW_ID sw_ok). Qed.
Lemma sw_reject_unknown_selector : forall sel r, length sel = 8%nat -> ~ In sel selectors_sw -> decode_sw (sel ++ r) = None.
Proof. exact (e_reject_unknown alts_sw wf_sw encode_sw G_SW_ID sw_ok). Qed.
Lemma sw_reject_short : forall bs, (length bs < 8)%nat -> decode_sw bs = None.
Proof. exact (e_reject_short alts_sw wf_sw encode_sw G_SW_ID sw_ok). Qed.
Lemma sw_selectors_nodup : NoDup selectors_sw.
Proof. exact (e_selectors_nodup alts_sw wf_sw encode_sw G_SW_ID sw_ok). Qed.
Lemma sw_encode_selector : forall x, wf_sw x -> In (firstn 8 (encode_sw x)) selectors_sw.
Proof. exact (e_encode_selector alts_sw wf_sw encode_sw G_SW_ID sw_ok). Qed.
Lemma sw_wrong_program_id : forall pid data, pid <> G_SW_ID -> process_prefix_sw pid data = Err EIncorrectProgramId.
Proof. exact (e_wrong_program_id alts_sw wf_sw encode_sw G_SW_ID sw_ok). Qed.
Lemma sw_invalid_data : forall data, try_from_slice_sw data = None -> process_prefix_sw G_SW_ID data = Err EInvalidInstructionData.
Proof. exact (e_invalid_data alts_sw wf_sw encode_sw G_SW_ID sw_ok). Qed.
Lemma sw_dispatch_exact : forall pid data ix, process_prefix_sw pid data = Ok ix -> pid = G_SW_ID /\ data = encode_sw ix /\ wf_sw ix.
Proof. exact (e_dispatch_exact alts_sw wf_sw encode_sw G_SW_ID sw_ok). Qed.
Lemma sw_dispatch_valid : forall x, wf_sw x -> process_prefix_sw G_SW_ID (encode_sw x) = Ok x.
Proof. exact (e_dispatch_valid alts_sw wf_sw encode_sw G_SW_ID sw_ok). Qed.
Lemma sw_trailing_refused_by_program : forall x t, wf_sw x -> t <> [] -> process_prefix_sw G_SW_ID (encode_sw x ++ t) = Err EInvalidInstructionData.
Proof. exact (e_trailing_program alts_sw wf_sw encode_sw G_SW_ID sw_ok). Qed.
Lemma sw_truncated_refused_by_program : forall x p s, wf_sw x -> encode_sw x = p ++ s -> s <> [] -> process_prefix_sw G_SW_ID p = Err EInvalidInstructionData.
Proof. exact (e_truncated_program alts_sw wf_sw encode_sw G_SW_ID sw_ok). Qed.
Lemma sw_unknown_selector_refused_by_program : forall sel r, length sel = 8%nat -> ~ In sel selectors_sw -> process_prefix_sw G_SW_ID (sel ++ r) = Err EInvalidInstructionData.
Proof. exact (e_unknown_program alts_sw wf_sw encode_sw G_SW_ID sw_ok). Qed.


(* ---------------------------------------------------------------- nested payloads, stated directly *)
Lemma rd_pcfg_decode_encode : forall c r, wf_rd_pcfg c -> dec c_rd_pcfg (enc_rd_pcfg c ++ r) = Some (c, r).
Proof. exact (proj1 c_rd_pcfg_lawful). Qed.
Lemma rd_pcfg_encode_decode : forall bs c r, dec c_rd_pcfg bs = Some (c, r) -> bs = enc_rd_pcfg c ++ r /\ wf_rd_pcfg c.
Proof. exact (proj2 c_rd_pcfg_lawful). Qed.
Lemma cr_cfg_decode_encode : forall c r, wf_cr_cfg c -> dec c_cr_cfg (enc_cr_cfg c ++ r) = Some (c, r).
Proof. exact (proj1 c_cr_cfg_lawful). Qed.
Lemma cr_cfg_encode_decode : forall bs c r, dec c_cr_cfg bs = Some (c, r) -> bs = enc_cr_cfg c ++ r /\ wf_cr_cfg c.
Proof. exact (proj2 c_cr_cfg_lawful). Qed.
Lemma root_kind_decode_encode : forall k r, wf_root_kind k -> dec c_root_kind (enc_root_kind k ++ r) = Some (k, r).
Proof. exact (proj1 c_root_kind_lawful). Qed.
Lemma root_kind_encode_decode : forall bs k r, dec c_root_kind bs = Some (k, r) -> bs = enc_root_kind k ++ r /\ wf_root_kind k.
Proof. exact (proj2 c_root_kind_lawful). Qed.
Lemma pp_pcfg_decode_encode : forall c r, wf_pp_pcfg c -> dec c_pp_pcfg (enc_pp_pcfg c ++ r) = Some (c, r).
Proof. exact (proj1 c_pp_pcfg_lawful). Qed.
Lemma pp_pcfg_encode_decode : forall bs c r, dec c_pp_pcfg bs = Some (c, r) -> bs = enc_pp_pcfg c ++ r /\ wf_pp_pcfg c.
Proof. exact (proj2 c_pp_pcfg_lawful). Qed.
Lemma access_mode_decode_encode : forall m r, wf_access_mode m -> dec c_access_mode (enc_access_mode m ++ r) = Some (m, r).
Proof. exact (proj1 c_access_mode_lawful). Qed.
Lemma access_mode_encode_decode : forall bs m r, dec c_access_mode bs = Some (m, r) -> bs = enc_access_mode m ++ r /\ wf_access_mode m.
Proof. exact (proj2 c_access_mode_lawful). Qed.
Lemma proof_decode_encode : forall p r, wf c_proof p -> dec c_proof (enc c_proof p ++ r) = Some (p, r).
Proof. exact (proj1 c_proof_lawful). Qed.
Lemma proof_encode_decode : forall bs p r, dec c_proof bs = Some (p, r) -> bs = enc c_proof p ++ r /\ wf c_proof p.
Proof. exact (proj2 c_proof_lawful). Qed.
(* a proof of any depth below 2^32 whose hashes are 32 bytes and whose index fits u32 is well formed *)
Lemma proof_wf_iff p : wf c_proof p <->
  N.of_nat (length (siblings p)) < 4294967296 /\
  Forall (fun s => length (sib_hash s) = 32%nat /\ is_bytes (sib_hash s)) (siblings p) /\
  match leaf_index p with Some i => i < 4294967296 | None => True end.
Proof.
  destruct p as [l i]. cbn [wf c_proof c_map c_pair c_vec c_option siblings leaf_index].
  assert (forall s, wf c_sibling s <-> length (sib_hash s) = 32%nat /\ is_bytes (sib_hash s)) as Hs.
  { intros [h sd]. cbn. unfold wf_side. tauto. }
  change (256 ^ 4) with 4294967296.
  assert (forall a, wf c_u32 a <-> a < 4294967296) as Hu by (intros a; reflexivity).
  split.
  - intros [[[Hn Hf] Hi] _]. split; [exact Hn|]. split.
    + rewrite Forall_forall in Hf |- *. intros s Hin. exact (proj1 (Hs s) (Hf s Hin)).
    + destruct i; [apply Hu; exact Hi | exact I].
  - intros (Hn & Hf & Hi). split; [|reflexivity]. split; [split; [exact Hn|]|].
    + rewrite Forall_forall in Hf |- *. intros s Hin. exact (proj2 (Hs s) (Hf s Hin)).
    + destruct i; [apply Hu; exact Hi | exact I].
Qed.

(* ---------------------------------------------------------------- the model's widths and tables are the crates' *)
Lemma selectors_rd_are : selectors_rd =
  [ G_RD_SEL_INITIALIZE_PROGRAM; G_RD_SEL_MIGRATE_PROGRAM_ACCOUNTS; G_RD_SEL_SET_ADMIN; G_RD_SEL_CONFIGURE_PROGRAM;
    G_RD_SEL_INITIALIZE_JOURNAL; G_RD_SEL_INITIALIZE_DISTRIBUTION; G_RD_SEL_CONFIGURE_DISTRIBUTION_DEBT;
    G_RD_SEL_FINALIZE_DISTRIBUTION_DEBT; G_RD_SEL_CONFIGURE_DISTRIBUTION_REWARDS; G_RD_SEL_FINALIZE_DISTRIBUTION_REWARDS;
    G_RD_SEL_DISTRIBUTE_REWARDS; G_RD_SEL_INITIALIZE_CONTRIBUTOR_REWARDS; G_RD_SEL_SET_REWARDS_MANAGER;
    G_RD_SEL_CONFIGURE_CONTRIBUTOR_REWARDS; G_RD_SEL_VERIFY_DISTRIBUTION_MERKLE_ROOT;
    G_RD_SEL_INITIALIZE_SOLANA_VALIDATOR_DEPOSIT; G_RD_SEL_PAY_SOLANA_VALIDATOR_DEBT;
    G_RD_SEL_ENABLE_SOLANA_VALIDATOR_DEBT_WRITE_OFF; G_RD_SEL_WRITE_OFF_SOLANA_VALIDATOR_DEBT;
    G_RD_SEL_INITIALIZE_SWAP_DESTINATION; G_RD_SEL_SWEEP_DISTRIBUTION_TOKENS_V1; G_RD_SEL_WITHDRAW_SOL ].
Proof. reflexivity. Qed.
Lemma selectors_pp_are : selectors_pp =
  [ G_PP_SEL_INITIALIZE_PROGRAM; G_PP_SEL_SET_ADMIN; G_PP_SEL_CONFIGURE_PROGRAM; G_PP_SEL_REQUEST_ACCESS; G_PP_SEL_GRANT_ACCESS; G_PP_SEL_DENY_ACCESS ].
Proof. reflexivity. Qed.
Lemma selectors_sw_are : selectors_sw = [ G_SW_SEL_INITIALIZE_FILLS_TRACKER; G_SW_SEL_BUY_SOL; G_SW_SEL_DEQUEUE_FILLS ].
Proof. reflexivity. Qed.

Lemma widths_are_crate_constants :
  N.of_nat SEL_LEN = G_DISCRIMINATOR_LEN /\
  (forall k, wf c_key k -> N.of_nat (length (enc c_key k)) = G_PUBKEY_LEN) /\
  (forall h, wf c_hash h -> N.of_nat (length (enc c_hash h)) = G_HASH_LEN) /\
  (forall a, wf c_att a -> N.of_nat (length (enc c_att a)) = G_ATTESTATION_LEN) /\
  (forall s, wf c_share s -> N.of_nat (length (enc c_share s)) = G_REWARD_SHARE_LEN) /\
  (forall d, wf c_debt d -> N.of_nat (length (enc c_debt d)) = G_SOLANA_VALIDATOR_DEBT_LEN).
Proof.
  split; [reflexivity|]. split; [intros k [Hl _]; cbn; rewrite Hl; reflexivity|].
  split; [intros k [Hl _]; cbn; rewrite Hl; reflexivity|].
  split; [|split].
  - intros [v s g] [[[Hv _] [[Hs _] [Hg _]]] _]. cbn in *. rewrite !app_length, Hv, Hs, Hg. reflexivity.
  - intros [k u r] [[[Hk _] [_ [Hr _]]] _]. cbn [enc c_share c_map c_pair c_arr c_u32 c_le c_key contributor_key unit_share remaining_bytes] in *.
    rewrite !app_length, le_enc_length, Hk, Hr. reflexivity.
  - intros [k a] [[[Hk _] _] _]. cbn [enc c_debt c_map c_pair c_arr c_u64 c_le c_key node_id debt_amount] in *.
    rewrite !app_length, le_enc_length, Hk. reflexivity.
Qed.

Lemma unknown_selector_example : length [0; 0; 0; 0; 0; 0; 0; 0] = 8%nat /\
  ~ In [0; 0; 0; 0; 0; 0; 0; 0] selectors_rd /\ ~ In [0; 0; 0; 0; 0; 0; 0; 0] selectors_pp /\ ~ In [0; 0; 0; 0; 0; 0; 0; 0] selectors_sw.
Proof. repeat split; try (apply memb_false_not_in; vm_compute; reflexivity). Qed.

(* ---------------------------------------------------------------- the value comparison used by corr_C19 / mon_C19 decides equality *)
Lemma list_eqb_eq {A} (eqb : A -> A -> bool) : (forall x y, eqb x y = true -> x = y) -> forall a b, list_eqb eqb a b = true -> a = b.
Proof. intros He. induction a as [|x a IH]; intros [|y b] H; cbn [list_eqb] in H; try discriminate; [reflexivity|].
  apply andb_prop in H as [H1 H2]. f_equal; auto. Qed.
Lemma list_eqb_refl {A} (eqb : A -> A -> bool) : (forall x, eqb x x = true) -> forall a, list_eqb eqb a a = true.
Proof. intros He. induction a as [|x a IH]; cbn [list_eqb]; [reflexivity|]. rewrite He, IH. reflexivity. Qed.
Lemma option_eqb_eq {A} (eqb : A -> A -> bool) : (forall x y, eqb x y = true -> x = y) -> forall a b, option_eqb eqb a b = true -> a = b.
Proof. intros He [x|] [y|] H; cbn in H; try discriminate; [f_equal; auto|reflexivity]. Qed.
Lemma option_eqb_refl {A} (eqb : A -> A -> bool) : (forall x, eqb x x = true) -> forall a, option_eqb eqb a a = true.
Proof. intros He [x|]; cbn; auto. Qed.
Lemma Neqb_eq x y : N.eqb x y = true -> x = y. Proof. apply N.eqb_eq. Qed.
Lemma bytes_eqb_eq1 x y : bytes_eqb x y = true -> x = y. Proof. apply bytes_eqb_eq. Qed.

Ltac eqb_hyps :=
  repeat match goal with
  | H : _ && _ = true |- _ => apply andb_prop in H; destruct H
  | H : N.eqb _ _ = true |- _ => apply N.eqb_eq in H
  | H : bytes_eqb _ _ = true |- _ => apply bytes_eqb_eq in H
  | H : Bool.eqb _ _ = true |- _ => apply Bool.eqb_prop in H
  | H : option_eqb N.eqb _ _ = true |- _ => apply (option_eqb_eq _ Neqb_eq) in H
  | H : list_eqb bytes_eqb _ _ = true |- _ => apply (list_eqb_eq _ bytes_eqb_eq1) in H
  end.
Ltac split_scrutinees H :=
  repeat match type of H with context [match ?v with _ => _ end] => is_var v; destruct v end.
Ltac eqb_refl_tac :=
  repeat first [ rewrite N.eqb_refl | rewrite bytes_eqb_refl | rewrite Bool.eqb_reflx
               | rewrite (option_eqb_refl _ N.eqb_refl) | rewrite (list_eqb_refl _ bytes_eqb_refl) ]; cbn [andb]; try reflexivity.

Lemma side_eqb_eq a b : side_eqb a b = true -> a = b. Proof. destruct a, b; cbn; congruence. Qed.
Lemma side_eqb_refl a : side_eqb a a = true. Proof. destruct a; reflexivity. Qed.
Lemma sibling_eqb_eq a b : sibling_eqb a b = true -> a = b.
Proof. destruct a as [h1 s1], b as [h2 s2]. unfold sibling_eqb. cbn [sib_hash sib_side]. intros H. eqb_hyps. apply side_eqb_eq in H0. congruence. Qed.
Lemma sibling_eqb_refl a : sibling_eqb a a = true.
Proof. destruct a as [h1 s1]. unfold sibling_eqb. cbn [sib_hash sib_side]. rewrite bytes_eqb_refl, side_eqb_refl. reflexivity. Qed.
Lemma proof_eqb_eq a b : proof_eqb a b = true -> a = b.
Proof. destruct a as [l1 i1], b as [l2 i2]. unfold proof_eqb. cbn [siblings leaf_index]. intros H. eqb_hyps. apply (list_eqb_eq _ sibling_eqb_eq) in H. congruence. Qed.
Lemma proof_eqb_refl a : proof_eqb a a = true.
Proof. destruct a as [l1 i1]. unfold proof_eqb. cbn [siblings leaf_index]. rewrite (list_eqb_refl _ sibling_eqb_refl), (option_eqb_refl _ N.eqb_refl). reflexivity. Qed.

Lemma rd_pcfg_eqb_eq a b : rd_pcfg_eqb a b = true -> a = b.
Proof. destruct a, b; cbn [rd_pcfg_eqb]; intros H; try discriminate H; split_scrutinees H; try discriminate H; eqb_hyps; subst; reflexivity. Qed.
Lemma rd_pcfg_eqb_refl a : rd_pcfg_eqb a a = true.
Proof. destruct a; cbn [rd_pcfg_eqb]; repeat match goal with |- context [match ?v with _ => _ end] => is_var v; destruct v end; eqb_refl_tac. Qed.
Lemma recipient_eqb_eq (p q : bytes * N) : bytes_eqb (fst p) (fst q) && N.eqb (snd p) (snd q) = true -> p = q.
Proof. destruct p, q. cbn [fst snd]. intros H. eqb_hyps. congruence. Qed.
Lemma cr_cfg_eqb_eq a b : cr_cfg_eqb a b = true -> a = b.
Proof. destruct a, b; cbn [cr_cfg_eqb]; intros H; try discriminate H.
  - apply (list_eqb_eq _ recipient_eqb_eq) in H. congruence.
  - eqb_hyps. congruence. Qed.
Lemma cr_cfg_eqb_refl a : cr_cfg_eqb a a = true.
Proof. destruct a; cbn [cr_cfg_eqb]; [|apply Bool.eqb_reflx].
  apply list_eqb_refl. intros [k n]. cbn [fst snd]. rewrite bytes_eqb_refl, N.eqb_refl. reflexivity. Qed.
Lemma root_kind_eqb_eq a b : root_kind_eqb a b = true -> a = b.
Proof. destruct a as [[k1 a1]|[k1 u1 r1]], b as [[k2 a2]|[k2 u2 r2]]; cbn [root_kind_eqb node_id debt_amount contributor_key unit_share remaining_bytes];
  intros H; try discriminate H; eqb_hyps; subst; reflexivity. Qed.
Lemma root_kind_eqb_refl a : root_kind_eqb a a = true.
Proof. destruct a as [[k1 a1]|[k1 u1 r1]]; cbn [root_kind_eqb node_id debt_amount contributor_key unit_share remaining_bytes]; eqb_refl_tac. Qed.

Lemma rd_ix_eqb_eq a b : rd_ix_eqb a b = true -> a = b.
Proof.
  destruct a, b; cbn [rd_ix_eqb]; intros H; try discriminate H; try reflexivity; eqb_hyps;
  repeat match goal with
  | H : proof_eqb _ _ = true |- _ => apply proof_eqb_eq in H
  | H : rd_pcfg_eqb _ _ = true |- _ => apply rd_pcfg_eqb_eq in H
  | H : cr_cfg_eqb _ _ = true |- _ => apply cr_cfg_eqb_eq in H
  | H : root_kind_eqb _ _ = true |- _ => apply root_kind_eqb_eq in H
  end; subst; reflexivity.
Qed.
Lemma rd_ix_eqb_refl a : rd_ix_eqb a a = true.
Proof. destruct a; cbn [rd_ix_eqb]; try reflexivity;
  repeat first [ rewrite proof_eqb_refl | rewrite rd_pcfg_eqb_refl | rewrite cr_cfg_eqb_refl | rewrite root_kind_eqb_refl ]; eqb_refl_tac. Qed.

Lemma att_eqb_eq a b : att_eqb a b = true -> a = b.
Proof. destruct a as [v1 k1 g1], b as [v2 k2 g2]. unfold att_eqb. cbn [validator_id att_service_key ed25519_signature]. intros H. eqb_hyps. congruence. Qed.
Lemma att_eqb_refl a : att_eqb a a = true.
Proof. destruct a as [v1 k1 g1]. unfold att_eqb. cbn [validator_id att_service_key ed25519_signature]. eqb_refl_tac. Qed.
Lemma pp_ix_eqb_eq a b : pp_ix_eqb a b = true -> a = b.
Proof.
  destruct a, b; cbn [pp_ix_eqb]; intros H; try discriminate H; try reflexivity; split_scrutinees H; try discriminate H; eqb_hyps;
  repeat match goal with H : att_eqb _ _ = true |- _ => apply att_eqb_eq in H end; subst; reflexivity.
Qed.
Lemma pp_ix_eqb_refl a : pp_ix_eqb a a = true.
Proof. destruct a; cbn [pp_ix_eqb]; try reflexivity;
  repeat match goal with |- context [match ?v with _ => _ end] => is_var v; destruct v end; repeat rewrite att_eqb_refl; eqb_refl_tac. Qed.
Lemma sw_ix_eqb_eq a b : sw_ix_eqb a b = true -> a = b.
Proof. destruct a, b; cbn [sw_ix_eqb]; intros H; try discriminate H; try reflexivity; eqb_hyps; subst; reflexivity. Qed.
Lemma sw_ix_eqb_refl a : sw_ix_eqb a a = true.
Proof. destruct a; cbn [sw_ix_eqb]; eqb_refl_tac. Qed.
Lemma ixv_eqb_eq a b : ixv_eqb a b = true <-> a = b.
Proof. split.
  - destruct a, b; cbn [ixv_eqb]; intros H; try discriminate H; f_equal;
    first [ apply rd_ix_eqb_eq | apply pp_ix_eqb_eq | apply sw_ix_eqb_eq ]; exact H.
  - intros <-. destruct a; cbn [ixv_eqb]; [apply rd_ix_eqb_refl | apply pp_ix_eqb_refl | apply sw_ix_eqb_refl].
Qed.

(* ---------------------------------------------------------------- the monitor and the correspondence accept the model's own cases *)
Lemma first_bad_none {A} (f : A -> option N) l i : (forall a, In a l -> f a = None) -> first_bad f l i = None.
Proof. revert i. induction l as [|a tl IH]; intros i H; cbn [first_bad]; [reflexivity|].
  rewrite (H a (or_introl eq_refl)). apply IH. intros b Hb. apply H. right; exact Hb. Qed.
Lemma rclass_eqb_refl c : rclass_eqb c c = true. Proof. destruct c; reflexivity. Qed.
Lemma ixv_eqb_refl v : ixv_eqb v v = true. Proof. apply ixv_eqb_eq. reflexivity. Qed.

Lemma v_roundtrip v : wf_v v -> try_from_slice_v v (encode_v v) = Some v.
Proof. destruct v as [x|x|x]; cbn [wf_v try_from_slice_v encode_v]; intros H;
  [rewrite rd_roundtrip | rewrite pp_roundtrip | rewrite sw_roundtrip]; auto. Qed.
Lemma v_canonical v bs y : try_from_slice_v v bs = Some y ->
  bs = encode_v y /\ wf_v y /\ selectors_of y = selectors_of v /\ own_id y = own_id v.
Proof. destruct v as [x|x|x]; cbn [try_from_slice_v]; intros H.
  - destruct (try_from_slice_rd bs) as [z|] eqn:E; [|discriminate]. inversion H; subst. apply rd_canonical in E. cbn. tauto.
  - destruct (try_from_slice_pp bs) as [z|] eqn:E; [|discriminate]. inversion H; subst. apply pp_canonical in E. cbn. tauto.
  - destruct (try_from_slice_sw bs) as [z|] eqn:E; [|discriminate]. inversion H; subst. apply sw_canonical in E. cbn. tauto. Qed.
Lemma v_reject_trailing v t : wf_v v -> t <> [] -> try_from_slice_v v (encode_v v ++ t) = None.
Proof. destruct v as [x|x|x]; cbn [wf_v try_from_slice_v encode_v]; intros H Ht;
  [rewrite rd_reject_trailing | rewrite pp_reject_trailing | rewrite sw_reject_trailing]; auto. Qed.
Lemma v_reject_truncated v p s : wf_v v -> encode_v v = p ++ s -> s <> [] -> try_from_slice_v v p = None.
Proof. destruct v as [x|x|x]; cbn [wf_v try_from_slice_v encode_v]; intros H He Hs;
  [rewrite (rd_reject_truncated x p s) | rewrite (pp_reject_truncated x p s) | rewrite (sw_reject_truncated x p s)]; auto. Qed.
Lemma v_class_unparsed v bs : try_from_slice_v v bs = None -> process_class v (own_id v) bs = RInvalidData.
Proof. destruct v as [x|x|x]; cbn [try_from_slice_v process_class own_id]; intros H.
  - destruct (try_from_slice_rd bs) eqn:E; [discriminate|]. rewrite (rd_invalid_data bs E). reflexivity.
  - destruct (try_from_slice_pp bs) eqn:E; [discriminate|]. rewrite (pp_invalid_data bs E). reflexivity.
  - destruct (try_from_slice_sw bs) eqn:E; [discriminate|]. rewrite (sw_invalid_data bs E). reflexivity. Qed.
Lemma v_class_own_id v bs : rclass_eqb (process_class v (own_id v) bs) RIncorrectProgramId = false.
Proof. destruct v as [x|x|x]; cbn [process_class own_id].
  - unfold process_prefix_rd, process_prefix. rewrite bytes_eqb_refl. cbn [negb]. destruct (try_from_slice_rd bs) as [ix|]; [|reflexivity].
    cbn [bind]. destruct (handler_precheck_rd ix) as [u|e] eqn:E; [reflexivity|].
    destruct ix; cbn [handler_precheck_rd] in E; try discriminate E;
    match type of E with match ?o with _ => _ end = _ => destruct o end; inversion E; reflexivity.
  - unfold process_prefix_pp, process_prefix. rewrite bytes_eqb_refl. cbn [negb]. destruct (try_from_slice_pp bs); reflexivity.
  - unfold process_prefix_sw, process_prefix. rewrite bytes_eqb_refl. cbn [negb]. destruct (try_from_slice_sw bs); reflexivity. Qed.
Lemma v_class_foreign v pid data : pid <> own_id v -> process_class v pid data = RIncorrectProgramId.
Proof. destruct v as [x|x|x]; cbn [process_class own_id]; intros H;
  [rewrite (rd_wrong_program_id pid data H) | rewrite (pp_wrong_program_id pid data H) | rewrite (sw_wrong_program_id pid data H)]; reflexivity. Qed.
Lemma selectors_len8 v t : In t (selectors_of v) -> length t = 8%nat.
Proof. destruct v as [x|x|x]; cbn [selectors_of]; intros H.
  - pose proof rd_ok as (Hall & _). rewrite Forall_forall in Hall. apply in_map_iff in H as ([t' c] & <- & Hin). apply (Hall _ Hin).
  - pose proof pp_ok as (Hall & _). rewrite Forall_forall in Hall. apply in_map_iff in H as ([t' c] & <- & Hin). apply (Hall _ Hin).
  - pose proof sw_ok as (Hall & _). rewrite Forall_forall in Hall. apply in_map_iff in H as ([t' c] & <- & Hin). apply (Hall _ Hin). Qed.
Lemma v_selector y : wf_v y -> memb (firstn SEL_LEN (encode_v y)) (selectors_of y) = true /\ (SEL_LEN <= length (encode_v y))%nat.
Proof.
  intros H. assert (In (firstn SEL_LEN (encode_v y)) (selectors_of y)) as Hin.
  { destruct y as [x|x|x]; cbn [wf_v encode_v selectors_of] in *; [apply rd_encode_selector | apply pp_encode_selector | apply sw_encode_selector]; exact H. }
  split; [apply memb_in; exact Hin|]. apply selectors_len8 in Hin.
  pose proof (firstn_le_length SEL_LEN (encode_v y)) as Hle. unfold SEL_LEN in *.
  destruct (Nat.le_gt_cases 8 (length (encode_v y))) as [Hc|Hc]; [exact Hc|].
  rewrite firstn_all2 in Hin by lia. lia.
Qed.

Lemma mon_obs_model v pid es e : wf_v v -> mon_obs (model_case v pid es) (model_obs v e) = None.
Proof.
  intros Hv. unfold mon_obs, model_obs. cbn [o_edit o_dec o_class o_canon w_bytes w_val model_case].
  set (bs := apply_edit e (encode_v v)).
  rewrite v_class_own_id.
  destruct (try_from_slice_v v bs) as [y|] eqn:D.
  - (* parsed *)
    destruct (v_canonical v bs y D) as (Hbs & Hy & Hsel & _).
    destruct (v_selector y Hy) as [Hm Hl]. rewrite <- Hbs in Hm, Hl. rewrite Hsel in Hm.
    assert (bytes_eqb (encode_v y) bs = true) as Hc by (rewrite Hbs; apply bytes_eqb_refl).
    rewrite Hm. apply Nat.leb_le in Hl. rewrite Hl, Hc.
    cbn [negb andb].
    destruct e as [|n|ext|i x|r]; cbn [apply_edit] in bs.
    + (* ESame *) subst bs. rewrite v_roundtrip in D by exact Hv. inversion D; subst. cbn [option_eqb]. rewrite ixv_eqb_refl. reflexivity.
    + (* ETrunc *) destruct (n <? N.of_nat (length (encode_v v))) eqn:En; [|reflexivity]. exfalso.
      apply N.ltb_lt in En. subst bs.
      rewrite (v_reject_truncated v (firstn (N.to_nat n) (encode_v v)) (skipn (N.to_nat n) (encode_v v))) in D; [discriminate|exact Hv|symmetry; apply firstn_skipn|].
      intros Hs. pose proof (f_equal (@length N) (firstn_skipn (N.to_nat n) (encode_v v))) as Hlen.
      rewrite app_length, Hs, firstn_length in Hlen. cbn [length] in Hlen. lia.
    + (* EAppend *) destruct ext as [|b ext]; [reflexivity|]. exfalso. subst bs.
      rewrite v_reject_trailing in D; [discriminate|exact Hv|discriminate].
    + reflexivity.
    + reflexivity.
  - (* not parsed *)
    rewrite (v_class_unparsed v bs D). cbn [negb andb rclass_eqb].
    destruct e as [|n|ext|i x|r]; cbn [apply_edit] in bs.
    + subst bs. rewrite v_roundtrip in D by exact Hv. discriminate.
    + destruct (n <? N.of_nat (length (encode_v v))); reflexivity.
    + destruct (negb (Nat.eqb (length ext) 0)); reflexivity.
    + reflexivity.
    + reflexivity.
Qed.
Lemma mon_accepts_model v pid es : wf_v v -> mon_C19 (model_case v pid es) = None.
Proof.
  intros Hv. unfold mon_C19. cbn [w_pid w_val w_pid_class w_obs model_case].
  destruct (bytes_eqb pid (own_id v)) eqn:E; cbn [negb andb].
  - apply first_bad_none. intros o Ho. apply in_map_iff in Ho as (e & <- & _). apply mon_obs_model; exact Hv.
  - assert (pid <> own_id v) as Hne by (intros ->; rewrite bytes_eqb_refl in E; discriminate).
    rewrite (v_class_foreign v pid _ Hne). cbn [rclass_eqb negb].
    apply first_bad_none. intros o Ho. apply in_map_iff in Ho as (e & <- & _). apply mon_obs_model; exact Hv.
Qed.
Lemma corr_accepts_model v pid es : corr_C19 (model_case v pid es) = None.
Proof.
  unfold corr_C19. cbn [w_pid w_val w_pid_class w_obs w_bytes model_case]. rewrite bytes_eqb_refl, rclass_eqb_refl. cbn [negb].
  apply first_bad_none. intros o Ho. apply in_map_iff in Ho as (e & <- & _).
  unfold corr_obs, model_obs. cbn [o_edit o_len o_sum o_dec o_class w_bytes w_val model_case].
  rewrite !N.eqb_refl, rclass_eqb_refl. cbn [andb negb].
  rewrite (option_eqb_refl _ ixv_eqb_refl). reflexivity.
Qed.
