(* C15, part 3: literal worlds.  The bootstrap history of Lemmas_Canon (program + journal initialised, configured, epoch 0
   created at clock 100) is continued: the journal's associated token account is created and funded with 555 2Z, the clock
   moves to 200 and epoch 1 is created.  Everything is checked by computation AND matches the theorems of parts 1 and 2. *)
From DZ Require Import Base Keys Merkle BurnRate Shares Swap_Ring State World SwapDeq RD Passport Swap Exec
  Lemmas_Merkle Lemmas_Inv Lemmas_Inv2 Lemmas_Inv3 Lemmas_RdGuards Lemmas_Canon Lemmas_RdSpecs5 Lemmas_Hist Lemmas_C15 Lemmas_C15b.
Import CanonEx.

(* ------------------------------------------------------------------------------------------------------------------ *)
(* a decidable check of I15 for literal worlds (the first binding of a key shadows later ones)                         *)
Definition good15b (n : win) (ka : key * acct) : bool :=
  let '(k, a) := ka in
  negb (key_eqb (owner a) KRd) ||
  match data a with
  | DDist d _ => key_eqb k (KRdDist (d_epoch d)) && (sat_add two64 (d_epoch d) 1 <=? w_lo n)
  | DConfig c => key_eqb k KRdConfig && (w_lo n <=? c_next_epoch c) && (c_next_epoch c <=? w_hi n) && (c_next_epoch c <? two64) &&
                 (w_tlo n <=? c_last_init_ts c) && (c_last_init_ts c <=? w_thi n) && negb (lamports a =? 0)
  | _ => true
  end.
Definition cfg_presentb (W : world) : bool := key_eqb (owner (get W KRdConfig)) KRd && configb (data (get W KRdConfig)).
Lemma I15_check n W : forallb (good15b n) (accts W) = true -> cfg_presentb W = true -> I15 n W.
Proof.
  intros Hall Hc k. split.
  - unfold get. induction (accts W) as [|[k' a] tl IH]; cbn [forallb lookup] in *.
    + intros Ho. discriminate Ho.
    + apply andb_true_iff in Hall as (Ha & Htl). destruct (key_eqb k k') eqn:Ek; [|apply IH; exact Htl].
      apply key_eqb_eq in Ek. subst k'. intros Ho. cbn [good15b] in Ha. rewrite Ho in Ha. cbn [key_eqb negb orb] in Ha.
      destruct (data a); try exact I.
      * repeat (apply andb_true_iff in Ha as (Ha & ?)). rg_norm. repeat split; assumption.
      * apply andb_true_iff in Ha as (Ha & ?). rg_norm. split; assumption.
  - intros -> _. unfold cfg_presentb in Hc. apply andb_true_iff in Hc as (Ho & Hd). apply key_eqb_eq in Ho.
    split; [exact Ho|]. destruct (data (get W KRdConfig)); try discriminate Hd. eexists. reflexivity.
Qed.

(* ------------------------------------------------------------------------------------------------------------------ *)
(* the history                                                                                                         *)
Definition jata : key := KAta KRdJournal KMint.
Definition m_init (e : N) : list meta :=
  [wr KRdConfig; sg (KUser 2); sw (KUser 100); wr (KRdDist e); wr (KTok2z (KRdDist e)); ro KMint; ro KToken;
   wr KRdJournal; ro (KTok2z KRdJournal); wr jata; ro KSystem].
Definition create (e : N) : op := otx [KUser 2; KUser 100] [rdi RInitializeDistribution (m_init e)].
Definition ops_pre : list op := ex_ops ++ [OCreateAta (KUser 100) KRdJournal; OMintTo jata 555; OSetClock 200].
Definition W_pre : world := run_ops ex_fix ops_pre.
Definition W_post : world := fst (exec_op W_pre (create 1)).

Definition the_config (W : world) : rd_config := match data (get W KRdConfig) with DConfig c => c | _ => rd_config_default end.
Definition the_dist (W : world) (e : N) : dist := match data (get W (KRdDist e)) with DDist d _ => d | _ => dist_default end.

Lemma ops_pre_side : Forall honest_op (ops_pre ++ [create 1]) /\ Forall wallet_pays (ops_pre ++ [create 1]).
Proof.
  unfold ops_pre, ex_ops. cbn [app]. split; repeat (first [apply Forall_cons | apply Forall_nil]); cbn; try exact I; eauto.
Qed.
Lemma ex_fix_untyped15 : forall k, owner (get ex_fix k) = KRd -> data (get ex_fix k) = DEmpty.
Proof. intros k Ho. apply (untyped_world_check ex_fix); [vm_compute; reflexivity|left; exact Ho]. Qed.

(* G3: the processor itself on the literal world; the conclusions of rd_initialize_distribution_spec read off *)
Definition the_burn (c : rd_config) : N * params := match br_compute (c_burn c) with Some x => x | None => (0, br_default) end.
Definition cx_init1 : ctx := {| cx_prog := KRd; cx_metas := m_init 1; cx_height := 1; cx_sibling := None |}.
Definition W_proc : world := match rd_initialize_distribution cx_init1 W_pre with Ok W' => W' | Err _ => W_pre end.
Example rd_initialize_distribution_spec_nonvacuous :
  let c := the_config W_pre in
  let rate := fst (the_burn c) in let burn' := snd (the_burn c) in
  let W' := W_proc in
    all_ok ex_fix ops_pre = true /\
    rd_initialize_distribution cx_init1 W_pre = Ok W' /\
    now W_pre = 200 /\ c_next_epoch c = 1 /\ c_last_init_ts c = 100 /\ c_init_grace_min c = 1 /\ c_calc_grace_min c = 1 /\
    br_compute (c_burn c) = Some (rate, burn') /\
    tok_amount W_pre jata = 555 /\
    (* the new distribution is exactly new_dist; its snapshot and prepaid amount *)
    data (get W' (KRdDist 1)) = DDist (new_dist c 200 rate 555) [] /\ owner (get W' (KRdDist 1)) = KRd /\
    d_epoch (the_dist W' 1) = 1 /\ d_fees (the_dist W' 1) = c_fees c /\ d_relay (the_dist W' 1) = 10000 /\
    d_cbr (the_dist W' 1) = rate /\ d_calc_allowed_ts (the_dist W' 1) = 260 /\ d_prepaid_2z (the_dist W' 1) = 555 /\
    (* the config: counter, clock, burn-rate state *)
    data (get W' KRdConfig) = DConfig (new_config c 200 burn') /\ c_next_epoch (the_config W') = 2 /\ c_last_init_ts (the_config W') = 200 /\
    (* the 2Z moved in full *)
    data (get W' (KTok2z (KRdDist 1))) = DToken {| t_mint := KMint; t_owner := KRdDist 1; t_amount := 555 |} /\
    tok_amount W' jata = 0 /\
    (* frame: e.g. the first distribution, the journal and the mint are untouched *)
    get W' (KRdDist 0) = get W_pre (KRdDist 0) /\ get W' KRdJournal = get W_pre KRdJournal /\ get W' KMint = get W_pre KMint.
Proof. vm_compute. repeat split. Qed.

(* the same through a real transaction, with the invariant of part 2 obtained from the history theorem (no computation)
   and, independently, by the decidable check *)
Example inv_C15_nonvacuous :
  all_ok ex_fix (ops_pre ++ [create 1]) = true /\ Inv15 W_pre /\ Inv15 W_post /\ Inv_C15 W_post /\
  I15 (mkWin 2 2 200 200 true) W_post /\
  d_epoch (the_dist W_post 0) = 0 /\ d_epoch (the_dist W_post 1) = 1 /\ c_next_epoch (the_config W_post) = 2 /\
  dist_at W_pre (KRdDist 1) = None /\ dist_at W_post (KRdDist 1) = Some (the_dist W_post 1, []).
Proof.
  destruct ops_pre_side as (Hh & Hw).
  apply Forall_app in Hh as (Hh & _). apply Forall_app in Hw as (Hw & _).
  assert (I0 : Inv15 ex_fix) by (apply (proj2 inv_C15_init); exact ex_fix_untyped15).
  assert (T0 : typed_canonical ex_fix) by (apply typed_canonical_untyped; apply untyped_world_check; vm_compute; reflexivity).
  assert (I1 : Inv15 W_pre) by (apply inv_C15_history; assumption).
  assert (I2 : Inv15 W_post).
  { unfold W_post, create, otx. cbn [exec_op]. destruct (exec_tx W_pre _) as [W' ok] eqn:E. cbn [fst]. eapply inv_C15_tx; eassumption. }
  split; [vm_compute; reflexivity|]. split; [exact I1|]. split; [exact I2|]. split; [apply Inv15_C15; exact I2|].
  split; [apply I15_check; vm_compute; reflexivity|]. vm_compute. repeat split.
Qed.

(* (b) + (c) on the literal transaction: the counter moved by one, the clock is the transaction's clock, one grace period
   (1 minute) had elapsed since clock 100; tx_counter says so for EVERY transaction, here both sides are computed *)
Example tx_counter_nonvacuous :
  exists t W', create 1 = OTx t /\ exec_tx W_pre t = (W', true) /\
    tx_bumped W_pre W' (the_config W_pre) (the_config W') /\
    c_last_init_ts (the_config W_pre) + c_init_grace_min (the_config W_pre) * 60 <= now W_pre.
Proof.
  eexists _, _. split; [reflexivity|]. split; [vm_compute; reflexivity|].
  pose proof (proj1 (proj2 inv_C15_nonvacuous)) as I1.
  split; [|vm_compute; discriminate].
  match goal with |- tx_bumped _ ?W' _ _ => set (Wp := W') end.
  assert (E : exec_tx W_pre {| tx_signers := [KUser 2; KUser 100]; tx_ixs := [rdi RInitializeDistribution (m_init 1)] |} = (Wp, true))
    by (vm_compute; reflexivity).
  destruct (tx_counter _ _ _ _ KRdConfig (the_config W_pre) I1 E) as (c' & Ho' & Hd' & [K|B]); [vm_compute; reflexivity|vm_compute; reflexivity| |].
  - exfalso. destruct K as (K & _). replace (c_next_epoch c') with (c_next_epoch (the_config Wp)) in K by (unfold the_config; rewrite Hd'; reflexivity).
    vm_compute in K. discriminate K.
  - replace (the_config Wp) with c' by (unfold the_config; rewrite Hd'; reflexivity). exact B.
Qed.

(* pacing is not vacuous: the same creation before the grace period is over is refused (clock 159 < 100 + 60), and a
   second creation in the same transaction is refused as well (the whole transaction fails) *)
Example creation_too_early_refused :
  snd (exec_op (fst (exec_op W_pre (OSetClock 159))) (create 1)) = false /\
  snd (exec_op (fst (exec_op W_pre (OSetClock 160))) (create 1)) = true /\
  snd (exec_op W_pre (otx [KUser 2; KUser 100] [rdi RInitializeDistribution (m_init 1); rdi RInitializeDistribution (m_init 2)])) = false /\
  snd (exec_op W_post (create 1)) = false /\ snd (exec_op W_post (create 2)) = false /\
  snd (exec_op (fst (exec_op W_post (OSetClock 260))) (create 2)) = true.
Proof. vm_compute. repeat split. Qed.

(* ------------------------------------------------------------------------------------------------------------------ *)
(* REFUTED: the strict form "every distribution's epoch is < the config's next epoch" fails at the u64 ceiling, where   *)
(* the saturating counter stops: the distribution of epoch u64::MAX is created and the counter stays u64::MAX.          *)
Definition W_ceiling : world :=
  put W_pre KRdConfig (get W_pre KRdConfig <| data := DConfig (the_config W_pre <| c_next_epoch := u64_max |>) |>).
Example epochs_strictly_below_next_refuted :
  ~ (forall W dk ck d t c, Inv15 W -> owner (get W dk) = KRd -> data (get W dk) = DDist d t ->
       owner (get W ck) = KRd -> data (get W ck) = DConfig c -> d_epoch d < c_next_epoch c).
Proof.
  intros H.
  assert (I0 : I15 (mkWin u64_max u64_max 100 100 true) W_ceiling) by (apply I15_check; vm_compute; reflexivity).
  destruct (exec_tx W_ceiling {| tx_signers := [KUser 2; KUser 100]; tx_ixs := [rdi RInitializeDistribution (m_init u64_max)] |})
    as [W' ok] eqn:E.
  assert (I1 : Inv15 W') by (eapply inv_C15_tx; [exists (mkWin u64_max u64_max 100 100 true); exact I0|exact E]).
  assert (X : exists d c, owner (get W' (KRdDist u64_max)) = KRd /\ data (get W' (KRdDist u64_max)) = DDist d [] /\
                owner (get W' KRdConfig) = KRd /\ data (get W' KRdConfig) = DConfig c /\ d_epoch d = u64_max /\ c_next_epoch c = u64_max).
  { vm_compute in E. injection E as <- _. eexists _, _. vm_compute. repeat split. }
  destruct X as (d & c & A1 & A2 & A3 & A4 & A5 & A6).
  specialize (H W' _ _ d [] c I1 A1 A2 A3 A4). rewrite A5, A6 in H. lia.
Qed.

Print Assumptions rd_initialize_distribution_spec_nonvacuous.
Print Assumptions inv_C15_nonvacuous.
Print Assumptions tx_counter_nonvacuous.
Print Assumptions epochs_strictly_below_next_refuted.
