(* C13, composition: the debt phase of ONE epoch (configure-debt, finalize-debt, one payment per leaf) runs to completion. *)
From DZ Require Import Base Keys Merkle BurnRate Shares Swap_Ring State World SwapDeq RD Passport Swap Exec Corr Builders
  Lemmas_Merkle Lemmas_Shares Lemmas_RdSpecs5 Lemmas_C13 Lemmas_C13b.

Lemma ceil8_covers n : n <= 8 * ceil8 n.
Proof. unfold ceil8. destruct (n mod 8 =? 0) eqn:E; [apply N.eqb_eq in E|]; lia. Qed.
Lemma range_bit_zeros n s i : range_bit (zeros n) s i = false.
Proof. rewrite <- (app_nil_l (zeros n)), range_bit_app_zeros. unfold range_bit, byte_bit. destruct (N.to_nat (s + i / 8)); reflexivity. Qed.

(* the operators' inputs: the leaves (validator, amount), their proofs, the posted root and total *)
Record debt_plan (W : world) (a p e : N) (L : list (key * N)) (root : hash) (pf : N -> proof)
  (c : rd_config) (d : dist) (j : journal) : Prop := {
  dp_configure : configure_debt_ready W a e c d [];
  dp_fresh : d_uncollectible d = 0 /\ d_payments_count d = 0 /\ d_collected_sol d < two64 /\ d_rewards_final d = false;
  dp_total : sumN (map snd L) <> 0 /\ sumN (map snd L) < two64;
  dp_count : N.of_nat (length L) <= 81920;
  dp_dist_len : alen (get W (KRdDist e)) = LEN_DIST;
  dp_dist_rent : rent LEN_DIST <= lamports (get W (KRdDist e));
  dp_cfg_lam : lamports (get W KRdConfig) <> 0;
  dp_payer : wallet_funds W p (rent (LEN_DIST + ceil8 (N.of_nat (length L))) - lamports (get W (KRdDist e)));
  dp_proofs : forall n node amt, nth_error L n = Some (node, amt) ->
     leaf_index (pf (N.of_nat n)) = Some (N.of_nat n) /\ root_from_leaf (pf (N.of_nat n)) PRE_DEBT (LDebt node amt) = root;
  dp_deposits : forall node amt, In (node, amt) L ->
     exists dp, owner (get W (KRdDeposit node)) = KRd /\ data (get W (KRdDeposit node)) = DDeposit dp /\ dp_node dp = node /\
                alen (get W (KRdDeposit node)) = LEN_DEPOSIT /\
                rent LEN_DEPOSIT + owed node L <= lamports (get W (KRdDeposit node));
  dp_j_owner : owner (get W KRdJournal) = KRd;
  dp_j_data : data (get W KRdJournal) = DJournal j;
  dp_j_rent : rent (alen (get W KRdJournal)) <= lamports (get W KRdJournal);
  dp_j_range : j_total_sol j < two64
}.

Definition debt_phase_txs (a p f e : N) (L : list (key * N)) (root : hash) (pf : N -> proof) : list tx :=
  rd_tx [KUser a] (RConfigureDebt (N.of_nat (length L)) (sumN (map snd L)) root) (sdk_configure_debt (KUser a) e)
  :: rd_tx [KUser a; KUser p] RFinalizeDebt (sdk_finalize_debt (KUser a) e (KUser p))
  :: pay_txs f e L pf 0.

Lemma run_txs_cons W t tl W1 : exec_tx W t = (W1, true) -> run_txs W (t :: tl) = run_txs W1 tl.
Proof. intros H. cbn [run_txs]. rewrite H. reflexivity. Qed.

Theorem honest_debt_phase_completes W a p f e L root pf c d j :
  debt_plan W a p e L root pf c d j ->
  exists W' d' tail',
    run_txs W (debt_phase_txs a p f e L root pf) = (W', true) /\
    data (get W' (KRdDist e)) = DDist d' tail' /\
    d_debt_final d' = true /\ d_debt_root d' = root /\ d_total_debt d' = sumN (map snd L) /\
    d_payments_count d' = N.of_nat (length L) /\
    (forall idx, idx < N.of_nat (length L) -> range_bit tail' (d_debt_start d') idx = true) /\
    lamports (get W' KRdJournal) = lamports (get W KRdJournal) + sumN (map snd L).
Proof.
  intros P. destruct P. destruct dp_fresh0 as (Fu & Fc & Fs & Fr). destruct dp_total0 as (Tnz & Tlt).
  set (n := N.of_nat (length L)) in *. set (total := sumN (map snd L)) in *.
  (* 1. configure-debt *)
  destruct (configure_debt_progress W a e n total root c d [] dp_configure0) as (W1 & X1 & Hn1 & G1).
  unfold debt_phase_txs. rewrite (run_txs_cons _ _ _ _ X1).
  set (d1 := d <| d_total_validators := n |> <| d_total_debt := total |> <| d_debt_root := root |>) in *.
  destruct dp_configure0.
  assert (forall k, k <> KRdDist e -> lamports (get W k) <> 0 -> get W1 k = get W k) as Fr1.
  { intros k Hk Hl. rewrite G1. unfold configure_debt_acct. rewrite key_eqb_neq by assumption. apply purge_acct_id. assumption. }
  assert (get W1 (KRdDist e) = get W (KRdDist e) <| data := DDist d1 [] |>) as Gd1.
  { rewrite G1. unfold configure_debt_acct. rewrite key_eqb_refl. reflexivity. }
  assert (get W1 KRdConfig = get W KRdConfig) as Gc1 by (apply Fr1; [discriminate|assumption]).
  destruct dp_payer0.
  assert (get W1 (KUser p) = get W (KUser p)) as Gp1.
  { apply Fr1; [discriminate|]. pose proof (rent_pos 0). lia. }
  (* 2. finalize-debt (the collectible debt is not zero) *)
  assert (finalize_debt_ready W1 a e c d1 []) as R2.
  { constructor; rewrite ?Gc1, ?Gd1; proj_simpl; try assumption; try reflexivity.
    - unfold calc_allowed in *. rewrite Hn1. subst d1. proj_simpl. assumption.
    - subst d1. proj_simpl. lia. }
  assert (finalize_debt_topup W1 e d1 = rent (LEN_DIST + ceil8 n) - lamports (get W (KRdDist e))) as Et.
  { unfold finalize_debt_topup. rewrite Gd1. subst d1. proj_simpl. rewrite dp_dist_len0. reflexivity. }
  destruct (finalize_debt_progress W1 a p e c d1 [] R2) as (W2 & X2 & Hn2 & G2).
  { subst d1. proj_simpl. lia. }
  { subst d1. proj_simpl. assumption. }
  { rewrite Gd1. proj_simpl. rewrite dp_dist_len0. unfold LEN_DIST. lia. }
  { rewrite Et. constructor; rewrite Gp1; assumption. }
  rewrite (run_txs_cons _ _ _ _ X2).
  (* 3. one payment per leaf *)
  set (d2 := fd_dist d1 []) in *. set (tail2 := [] ++ zeros (ceil8 (d_total_validators d1))) in *.
  assert (d_total_validators d1 = n) as Etv by (subst d1; proj_simpl; reflexivity).
  assert (forall k, k <> KRdDist e -> k <> KUser p -> lamports (get W k) <> 0 -> get W2 k = get W k) as Fr2.
  { intros k Hk1 Hk2 Hl. rewrite G2. unfold finalize_debt_acct. rewrite !key_eqb_neq by assumption.
    rewrite Fr1 by assumption. apply purge_acct_id. assumption. }
  assert (get W2 (KRdDist e) = {| lamports := lamports (get W (KRdDist e)) + (rent (LEN_DIST + ceil8 n) - lamports (get W (KRdDist e)));
                                  owner := KRd; alen := LEN_DIST + ceil8 n; data := DDist d2 tail2 |}) as Gd2.
  { rewrite G2. unfold finalize_debt_acct. rewrite key_eqb_refl, Et, Gd1. proj_simpl. rewrite dp_dist_len0, Etv.
    apply purge_acct_id. cbn [lamports]. pose proof (rent_pos LEN_DIST). lia. }
  assert (ceil8 n < two32) as Hc32 by (pose proof (ceil8_le n 10240 ltac:(lia)); unfold two32; lia).
  assert (d_debt_start d2 = 0 /\ d_debt_end d2 = ceil8 n) as (Es & Ee).
  { subst d2. unfold fd_dist. proj_simpl. cbn [length N.of_nat]. rewrite Etv. split; [reflexivity|].
    unfold sat_add. rewrite N.add_0_l. apply N.ltb_lt in Hc32. rewrite Hc32. reflexivity. }
  assert (length tail2 = N.to_nat (ceil8 n)) as Elen by (subst tail2; cbn [app]; rewrite zeros_length, Etv; reflexivity).
  assert (pay_phase W2 e root pf 0 L c d2 tail2 j) as PP.
  { constructor; rewrite ?Gd2; cbn [owner data lamports alen]; try reflexivity.
    - rewrite Fr2 by (discriminate || assumption). assumption.
    - rewrite Fr2 by (discriminate || assumption). assumption.
    - rewrite Fr2 by (discriminate || assumption). assumption.
    - assumption.
    - lia.
    - rewrite Es, Ee, Elen. lia.
    - rewrite Es, Ee. fold n. pose proof (ceil8_covers n). lia.
    - intros idx _. subst tail2. cbn [app]. apply range_bit_zeros.
    - intros k node amt Hk. rewrite N.add_0_l. apply (dp_proofs0 k node amt Hk).
    - intros node amt Hin. destruct (dp_deposits0 node amt Hin) as (dp & A1 & A2 & A3 & A4 & A5). exists dp.
      rewrite Fr2 by (try discriminate; pose proof (rent_pos LEN_DEPOSIT); lia). auto.
    - rewrite Fr2 by (try discriminate; pose proof (rent_pos (alen (get W KRdJournal))); lia). assumption.
    - rewrite Fr2 by (try discriminate; pose proof (rent_pos (alen (get W KRdJournal))); lia). assumption.
    - rewrite Fr2 by (try discriminate; pose proof (rent_pos (alen (get W KRdJournal))); lia). assumption.
    - subst d2 d1. unfold fd_dist. proj_simpl. rewrite Fc. unfold two32. repeat split; try assumption; lia. }
  destruct (pay_all_complete f e root pf L W2 c d2 tail2 j PP) as (W' & d' & tail' & Hrun & Hdat & Hcnt & Hbits & Hjl).
  { subst d2 d1. unfold fd_dist. proj_simpl. assumption. }
  { fold n. unfold two32. lia. }
  exists W', d', tail'. split; [exact Hrun|]. split; [exact Hdat|].
  destruct (pay_all_ok f e root pf L W2 0 c d2 tail2 j PP) as (W'' & d'' & tail'' & j'' & Hrun' & Pend & Hd'' & _).
  rewrite Hrun in Hrun'. injection Hrun' as <-.
  pose proof (pp_dist_data _ _ _ _ _ _ _ _ _ _ Pend) as Hdat'. rewrite Hdat in Hdat'. injection Hdat' as <- <-.
  split; [rewrite Hd''; clear; subst d2 d1; unfold fd_dist; proj_simpl; reflexivity|].
  split; [rewrite Hd''; clear; subst d2 d1; unfold fd_dist; proj_simpl; reflexivity|].
  split; [rewrite Hd''; clear; subst d2 d1; unfold fd_dist; proj_simpl; reflexivity|].
  split; [exact Hcnt|]. split; [exact Hbits|].
  rewrite Hjl, Fr2 by (try discriminate; pose proof (rent_pos (alen (get W KRdJournal))); lia). reflexivity.
Qed.

Ltac closed ::= lazymatch goal with |- forall _, _ => fail | |- _ => repeat split; closed1 end.

(* non-vacuity: two validators (300 and 500 lamports), both deposits funded *)
Definition ex13_plan_world : world :=
  put (put (put (ex13_world ex13_fresh [] 0)
    (KRdDeposit (KUser 11)) (ex13_deposit (KUser 11) 300))
    (KRdDeposit (KUser 12)) (ex13_deposit (KUser 12) 700))
    KRdJournal (ex_acct (rent LEN_CONFIG_ALLOC) LEN_CONFIG_ALLOC (DJournal journal_default)).
Example honest_debt_phase_completes_nonvacuous :
  debt_plan ex13_plan_world 2 1 5 ex13_leaves (tree_root PRE_DEBT ex_debts) (proof_for PRE_DEBT ex_debts) ex13_cfg ex13_fresh journal_default /\
  let '(W', ok) := run_txs ex13_plan_world (debt_phase_txs 2 1 1 5 ex13_leaves (tree_root PRE_DEBT ex_debts) (proof_for PRE_DEBT ex_debts)) in
  ok = true /\
  (exists d', data (get W' (KRdDist 5)) = DDist d' [3] /\ d_payments_count d' = 2 /\ d_collected_sol d' = 800 /\ d_debt_final d' = true) /\
  lamports (get W' KRdJournal) = rent LEN_CONFIG_ALLOC + 800.
Proof.
  split; [|vm_compute; split; [reflexivity|]; split; [eexists; repeat split|reflexivity]].
  constructor; try closed.
  - intros [|[|[|n]]] node amt H; cbn in H; try discriminate H; injection H as <- <-; vm_compute; split; reflexivity.
  - intros node amt H. unfold ex13_leaves in H. cbn [In] in H. destruct H as [H|[H|[]]]; injection H as <- <-; eexists; closed.
Qed.

(* the checker of Builders.v is not vacuous: it accepts the transcribed list and reports a flipped flag, a swapped key and
   a dropped trailing program account *)
Example builders_agree_detects :
  let p := proof_for PRE_DEBT ex_debts 1 in
  let step (ix : rd_ix) (ms : list meta) : robs := (OTx (rd_tx [KUser 1] ix ms), true, []) in
  builders_agree [step (RPayDebt 500 p) (sdk_pay_debt 5 (KUser 12)); step RFinalizeDebt (sdk_finalize_debt (KUser 2) 5 (KUser 1))] = None /\
  builders_agree [step (RPayDebt 500 p) (sdk_pay_debt 5 (KUser 12));
                  step (RPayDebt 500 p) [mk KRdConfig false true; mk (KRdDist 5) false true; mk (KRdDeposit (KUser 12)) false true; mk KRdJournal false true]]
    = Some (1, sdk_pay_debt 5 (KUser 12)) /\
  builders_agree [step (RPayDebt 500 p) [mk KRdConfig false false; mk (KRdDist 5) false true; mk (KRdDeposit (KUser 12)) false true; mk KRdConfig false true]]
    = Some (0, sdk_pay_debt 5 (KUser 12)) /\
  builders_agree [step RFinalizeDebt (removelast (sdk_finalize_debt (KUser 2) 5 (KUser 1)))] = Some (0, sdk_finalize_debt (KUser 2) 5 (KUser 1)).
Proof. vm_compute. repeat split. Qed.

(* ==================================================================================================================
   THE WHOLE EPOCH (stated, NOT proved as one theorem): honest_epoch_completes_partial

     forall W (plan : the leaves of the debt tree with proofs, the leaves of the rewards tree with proofs, the contributor
               records, the wallets a (debt accountant), ra (rewards accountant), p (payer), r (relayer), the fills registry q),
       epoch e was created by initialize-distribution and its grace period is over, every deposit is funded for the
       leaves that name it (or the leaf is written off), shares total 10^9, the registry's oldest fill is the collectible
       debt, journal.next_sweep = e, enough later epochs exist (min_epochs), payer and relayer are funded wallets ->
       run_txs W ( configure-debt :: finalize-debt :: pay / write-off per debt leaf ++ configure-rewards :: finalize-rewards
                   :: sweep :: distribute per reward leaf ) = (W', true) /\
       in W': payments_count + writeoff_count = #debt leaves, all debt bits set, distributed_count = #reward leaves, all reward
              bits set, custody balance < #reward leaves (dust), relayer paid relay * #reward leaves.

   Proved:   every single step (list below) and the composition of the debt phase without write-offs
             (honest_debt_phase_completes: configure-debt, finalize-debt, one payment per leaf; counter = #leaves, all bits set,
             journal credited with the total).
   Missing:  the composition of the rewards phase (configure-rewards .. distribute per leaf needs an induction like pay_all_ok
             over the reward leaves with the custody / ATA / relay-lamport invariants), write-offs inside the loop, and the
             interleaving of several epochs.  These are decided operationally by the honest family (corr_C13 / mon_C13).

   INDEX of Lemmas_C13{,b,c,d,e,f}.v   (all closed under the global context; every theorem has an Example .._nonvacuous)
   shape:  <step>_ready W .. (a Record of readable preconditions) ->
           exists W', exec_tx W (rd_tx signers ix (sdk_<step> ..)) = (W', true) /\ now W' = now W /\
                      forall k, get W' k = purge_acct (<step>_acct W .. k)          (pointwise post-state)
   rd_tx signers ix ms = {| tx_signers := signers; tx_ixs := [{| i_prog := KRd; i_data := IxRd ix; i_metas := ms |}] |}
   -- Lemmas_C13.v   infrastructure: effective_single / eff1 (message-level flags), exec_tx_rd_go, rd_tx_progress,
                     balanced_same / balanced_move (per-instruction lamport balance from a pointwise description),
                     rent_transition_same / _exempt, debit_w / credit_w, write_data_go, debit_go, credit_go, resize_go,
                     sys_transfer_go, tactics rdgo (forward evaluation) / getnorm / hyps_rw
       pay_debt_progress        pay_ready -> RPayDebt with sdk_pay_debt e node succeeds; pay_debt_acct
       pay_all_ok               pay_phase W e root pf i rest -> one payment per leaf of `rest` succeeds (induction over the leaves):
                                counter + |rest| (mod 2^32), collected + sum (mod 2^64), bits [i, i+|rest|) set, others kept,
                                journal + sum, every deposit - owed, pay_phase again for the empty rest
       pay_all_complete         from count 0: counter = #leaves, every leaf bit set
   -- Lemmas_C13b.v  configure_debt_progress, configure_rewards_progress, finalize_debt_zero_progress,
                     finalize_debt_progress (grow-and-fund; needs total_validators <= 81 920), enable_write_off_progress,
                     finalize_rewards_progress (needs total_contributors <= 81 920)
       finalize_debt_large_refuted   WITNESS: 81 921 validators -> finalize-debt fails (one resize grows at most 10 240 bytes)
   -- Lemmas_C13c.v  write_off_progress (target = same epoch), tok_transfer_ok, tok_burn_ok, distribute_loop_ok (induction
                     over the recipients), is_writable_eff1 / has_key_eff1, rd_distribute_rewards_ok / _full,
       distribute_rewards_progress   distribute_ready -> success with the exact distribute_outcome of Lemmas_RdSpecs5
                                     (in the example: an EMPTY relayer account makes the transaction fail - rent-state rule)
   -- Lemmas_C13d.v  tok_transfer_go, swap_dequeue_cpi_mock_go, sweep_zero_progress, sweep_progress (mock swap program)
   -- Lemmas_C13e.v  sys_create_account_go, create_account_fresh_go, tok_init_account3_go, try_initialize_go, balanced_move2,
       initialize_distribution_progress   (journal ATA absent or empty; the prepaid-2Z transfer branch is not covered)
   -- Lemmas_C13f.v  honest_debt_phase_completes, builders_agree_detects
   ================================================================================================================== *)
