(* revenue-distribution: RecipientShares (state/contributor_rewards/recipient_shares.rs) transcribed as coded, and the
   case language / correspondence / monitor of the pure shares family (harness/src/direct_shares.rs).
   Executable definitions only. *)
From DZ Require Import Base Shares.

Definition MAX_RECIPIENTS : nat := 8.              (* recipient_shares.rs MAX_RECIPIENTS *)

(* RecipientShares([RecipientShare; 8]); RecipientShare { recipient_key: Pubkey, share: UnitShare16 } *)
Definition table := list (rkey * N).
Definition default_slot : rkey * N := (0, 0).
Definition empty_table : table := repeat default_slot MAX_RECIPIENTS.   (* RecipientShares::default() = zeroed account data *)

(* the `for (i, (recipient_key, share)) in recipients.iter().enumerate()` loop of RecipientShares::new *)
Fixpoint recipients_loop (l : list (rkey * N)) (i : nat) (out : table) (total : N) : option (table * N) :=
  match l with
  | [] => Some (out, total)
  | (k, s) :: tl =>
    if k =? 0 then None else                                   (* recipient_key == &Pubkey::default() *)
    match us16_new s with                                       (* UnitShare16::new( *share)? *)
    | None => None
    | Some sh =>
      if sh =? 0 then None else                                 (* share == UnitShare16::MIN *)
      match us16_checked_add total sh with                      (* total_share.checked_add(share)? *)
      | None => None
      | Some t' => recipients_loop tl (S i) (set_nth out i (k, sh)) t'
      end
    end
  end.

Definition recipients_new (l : list (rkey * N)) : option table :=
  if (MAX_RECIPIENTS <? length l)%nat then None else            (* recipients.len() > MAX_RECIPIENTS *)
  match recipients_loop l 0 empty_table 0 with
  | None => None
  | Some (out, total) => if total =? US16_MAX then Some out else None   (* total_share != UnitShare16::MAX *)
  end.

(* active_iter: self.0.iter().filter(|share| share.recipient_key != Pubkey::default()) *)
Definition active (t : table) : list (rkey * N) := filter (fun e => negb (fst e =? 0)) t.

(* try_configure_contributor_rewards, Recipients(..) arm, on the table alone:
   RecipientShares::new(&recipients).ok_or(..)?; contributor_rewards.recipient_shares = recipient_shares *)
Definition table_update (old : table) (l : list (rkey * N)) : table * bool :=
  match recipients_new l with Some t => (t, true) | None => (old, false) end.
Fixpoint table_run (t : table) (ups : list (list (rkey * N))) : table :=
  match ups with [] => t | l :: tl => table_run (fst (table_update t l)) tl end.

(* the specification of an acceptable recipient list (C16) as a boolean *)
Definition recipients_valid (l : list (rkey * N)) : bool :=
  (1 <=? length l)%nat && (length l <=? MAX_RECIPIENTS)%nat
  && forallb (fun e => negb (fst e =? 0)) l
  && forallb (fun e => negb (snd e =? 0)) l
  && (sumN (map snd l) =? US16_MAX).

(* ------------------------------------------------------------------------------------------------------------
   cases printed by `dzh direct-shares`: inputs and the results observed on the real crate *)
Inductive uswidth := W16 | W32.
Definition w_max (w : uswidth) : N := match w with W16 => US16_MAX | W32 => US32_MAX end.
Definition w_mod (w : uswidth) : N := match w with W16 => two16 | W32 => two32 end.

Inductive shcase :=
(* UnitShareNN::new(s) (raw = false) or a Pod cast of s (raw = true), then mul_scalar(x: u64); None = new -> None or panic *)
| CMul (w : uswidth) (raw : bool) (s x : N) (res : option N)
(* a, b through a Pod cast: checked_add, checked_sub, saturating_add, saturating_sub *)
| CArith (w : uswidth) (a b : N) (cadd csub : option N) (sadd ssub : N)
(* RewardShare::new(key, us, block, ebr): observed (unit_share, remaining_bytes as u32 LE, is_blocked(), economic_burn_rate()) *)
| CPack (us : N) (block : bool) (ebr : N) (res : option (N * N * bool * N))
(* RewardShare { unit_share: us, remaining_bytes: rem } built from its public fields:
   (checked_unit_share().is_some, is_blocked, economic_burn_rate, checked_economic_burn_rate().is_some),
   then set_is_blocked(b2) -> remaining, then set_economic_burn_rate(UnitShare32::new(e2).unwrap()) -> remaining *)
| CGetSet (us rem : N) (b2 : bool) (e2 : N) (obs : bool * bool * N * bool) (rem1 rem2 : N)
(* Distribution { community_burn_rate: cbr (Pod cast), collected_prepaid_2z_payments, collected_2z_converted_from_sol }
   .split_2z_amount(&RewardShare { unit_share: us, remaining_bytes: rem }) -> split (None = None or panic);
   slots = the 8 stored entries of a RecipientShares (Pod cast); amounts = share.mul_scalar(remaining) over the real
   active_iter() (None = a panic or no split); glue = (burn_share_amount, total_transferred_share_amount) after the
   three u64 statements of try_distribute_rewards replayed by the harness (None when no active recipient / no amounts) *)
| CSplit (us rem cbr prepaid converted : N) (slots : list (rkey * N))
         (split : option (N * N)) (amounts : option (list N)) (glue : option (N * N))
(* RecipientShares::new(l): None, or Some(all 8 entries via iter(), the entries of active_iter()) *)
| CRecip (l : list (rkey * N)) (res : option (list (rkey * N) * list (rkey * N))).

Definition optN_eqb (a b : option N) : bool :=
  match a, b with Some x, Some y => x =? y | None, None => true | _, _ => false end.
Definition pairN_eqb (a b : N * N) : bool := (fst a =? fst b) && (snd a =? snd b).
Fixpoint listN_eqb (a b : list N) : bool :=
  match a, b with [] , [] => true | x :: a', y :: b' => (x =? y) && listN_eqb a' b' | _, _ => false end.
Fixpoint listNN_eqb (a b : list (N * N)) : bool :=
  match a, b with [] , [] => true | x :: a', y :: b' => pairN_eqb x y && listNN_eqb a' b' | _, _ => false end.
Definition opt_eqb {A} (eq : A -> A -> bool) (a b : option A) : bool :=
  match a, b with Some x, Some y => eq x y | None, None => true | _, _ => false end.

(* what the model predicts for a case, in the shape of the observation *)
Inductive shpred :=
| PMul (res : option N)
| PArith (cadd csub : option N) (sadd ssub : N)
| PPack (res : option (N * N * bool * N))
| PGetSet (obs : bool * bool * N * bool) (rem1 rem2 : N)
| PSplit (split : option (N * N)) (amounts : option (list N)) (glue : option (N * N)) (full_agrees : bool)
| PRecip (res : option (list (rkey * N) * list (rkey * N))).

Definition model_split (us rem cbr prepaid converted : N) (slots : list (rkey * N)) : shpred :=
  let rs := {| rs_key := 0; rs_unit_share := us; rs_remaining := rem |} in
  let total := total_collected_2z prepaid converted in
  let split := match total with Some t => split_2z_amount cbr t rs | None => None end in
  let act := active slots in
  let loop := match split with Some (_, remaining) => transfer_loop remaining act 0 | None => None end in
  let amounts := match loop with Some (_, l) => Some l | None => None end in
  let glue := match split, loop, act with
              | Some (burn0, remaining), Some (tr, _), _ :: _ => Some (wadd64 burn0 (wsub64 remaining tr), tr)
              | _, _, _ => None end in
  (* when the leaf is one RewardShare::new(.., false, ebr) produces, the one-piece function must say the same *)
  let full_agrees :=
    if (us <=? US32_MAX) && (rem <=? US32_MAX) then
      match total with
      | None => true
      | Some t =>
        match distribute_amounts_full us rem cbr t act, glue, amounts with
        | Some (b, tr, l), Some (b', tr'), Some l' => (b =? b') && (tr =? tr') && listN_eqb l l'
        | None, None, _ => true
        | _, _, _ => false
        end
      end
    else true in
  PSplit split amounts glue full_agrees.

Definition predict (c : shcase) : shpred :=
  match c with
  | CMul w raw s x _ =>
      PMul (if raw then us_mul_scalar (w_max w) s x
            else match us_new (w_max w) s with Some v => us_mul_scalar (w_max w) v x | None => None end)
  | CArith w a b _ _ _ _ =>
      PArith (us_checked_add (w_mod w) (w_max w) a b) (us_checked_sub a b)
             (us_saturating_add (w_mod w) (w_max w) a b) (us_saturating_sub a b)
  | CPack us block ebr _ =>
      PPack (match reward_share_new 0 us block ebr with
             | Some r => Some (rs_unit_share r, rs_remaining r, rs_is_blocked r, rs_economic_burn_rate r)
             | None => None end)
  | CGetSet us rem b2 e2 _ _ _ =>
      let r := {| rs_key := 0; rs_unit_share := us; rs_remaining := rem |} in
      let r1 := rs_set_is_blocked r b2 in
      let r2 := rs_set_economic_burn_rate r1 e2 in
      PGetSet (match rs_checked_unit_share r with Some _ => true | None => false end, rs_is_blocked r,
               rs_economic_burn_rate r, match rs_checked_economic_burn_rate r with Some _ => true | None => false end)
              (rs_remaining r1) (rs_remaining r2)
  | CSplit us rem cbr prepaid converted slots _ _ _ => model_split us rem cbr prepaid converted slots
  | CRecip l _ => PRecip (match recipients_new l with Some t => Some (t, active t) | None => None end)
  end.

Definition agrees (c : shcase) (p : shpred) : bool :=
  match c, p with
  | CMul _ _ _ _ r, PMul r' => optN_eqb r r'
  | CArith _ _ _ ca cs sa ss, PArith ca' cs' sa' ss' => optN_eqb ca ca' && optN_eqb cs cs' && (sa =? sa') && (ss =? ss')
  | CPack _ _ _ r, PPack r' =>
      opt_eqb (fun a b => match a, b with (u, m, bl, e), (u', m', bl', e') => (u =? u') && (m =? m') && Bool.eqb bl bl' && (e =? e') end) r r'
  | CGetSet _ _ _ _ (a, b, e, d) r1 r2, PGetSet (a', b', e', d') r1' r2' =>
      Bool.eqb a a' && Bool.eqb b b' && (e =? e') && Bool.eqb d d' && (r1 =? r1') && (r2 =? r2')
  | CSplit _ _ _ _ _ _ s a g, PSplit s' a' g' ok =>
      opt_eqb pairN_eqb s s' && opt_eqb listN_eqb a a' && opt_eqb pairN_eqb g g' && ok
  | CRecip _ r, PRecip r' => opt_eqb (fun a b => listNN_eqb (fst a) (fst b) && listNN_eqb (snd a) (snd b)) r r'
  | _, _ => false
  end.

(* correspondence: None = the model predicts the observation exactly, Some p = the model's prediction *)
Definition corr_shares (c : shcase) : option shpred :=
  let p := predict c in if agrees c p then None else Some p.

(* ------------------------------------------------------------------------------------------------------------
   monitor: the property clauses (C02/C03/C16 arithmetic) evaluated on the observed results alone, written with
   floor_share / sumN / recipients_valid, not with the model functions.  None = accepted, Some n = clause n violated. *)
Definition clause (n : N) (b : bool) : option N := if b then None else Some n.
Fixpoint first_clause (l : list (option N)) : option N :=
  match l with [] => None | Some n :: _ => Some n | None :: tl => first_clause tl end.

Definition mon_shares (c : shcase) : option N :=
  match c with
  | CMul w raw s x res =>
      let m := w_max w in
      if s <=? m then (* 101: a valid share of a u64 is exactly floor(s*x/MAX), never a failure; 102: and at most x *)
        first_clause [clause 101 (optN_eqb res (Some (floor_share m s x)));
                      clause 102 (match res with Some r => r <=? x | None => false end)]
      else if raw then None            (* a stored share above MAX: outside every property *)
      else clause 103 (optN_eqb res None)       (* new rejects > MAX *)
  | CArith w a b ca cs sa ss =>
      let m := w_max w in
      if (a <=? m) && (b <=? m) then
        first_clause [clause 111 (optN_eqb ca (if a + b <=? m then Some (a + b) else None));
                      clause 112 (optN_eqb cs (if b <=? a then Some (a - b) else None));
                      clause 113 (sa =? N.min (a + b) m);
                      clause 114 (ss =? a - b)]
      else None
  | CPack us block ebr res =>
      (* 121: accepted iff both rates are <= 10^9; 122: getters return what was packed; 123: layout = ebr + 2^31*flag *)
      match res with
      | None => clause 121 (negb ((us <=? US32_MAX) && (ebr <=? US32_MAX)))
      | Some (u, m, bl, e) =>
        first_clause [clause 121 ((us <=? US32_MAX) && (ebr <=? US32_MAX));
                      clause 122 ((u =? us) && Bool.eqb bl block && (e =? ebr));
                      clause 123 (m =? ebr + (if block then 2147483648 else 0))]
      end
  | CGetSet us rem b2 e2 (uok, bl, e, eok) rem1 rem2 =>
      (* the flag is bit 31 and independent of the low 30 bits; setters touch only their own field *)
      first_clause [clause 131 (Bool.eqb uok (us <=? US32_MAX));
                    clause 132 (Bool.eqb bl (2147483648 <=? rem));
                    clause 133 (e =? rem mod 1073741824);
                    clause 134 (Bool.eqb eok (e <=? US32_MAX));
                    clause 135 ((rem1 mod 2147483648 =? rem mod 2147483648) && Bool.eqb (2147483648 <=? rem1) b2);
                    clause 136 ((rem2 / 1073741824 =? rem1 / 1073741824) && (rem2 mod 1073741824 =? e2))]
  | CSplit us rem cbr prepaid converted slots split amounts glue =>
      let ebr := rem mod 1073741824 in
      let act := filter (fun e => negb (fst e =? 0)) slots in
      if (us <=? US32_MAX) && (ebr <=? US32_MAX) && (cbr <=? US32_MAX) && (prepaid + converted <? two64) then
        let total := prepaid + converted in
        let share := floor_share US32_MAX us total in
        let rate := N.max cbr ebr in
        match split with
        | None => Some 141                                       (* every valid leaf splits *)
        | Some (burn0, remaining) =>
          first_clause [
            clause 142 (floor_share US32_MAX rate share <=? burn0);          (* C03: burn >= floor(rate * share) *)
            clause 143 (burn0 + remaining =? share);                          (* C02: exactly the share leaves *)
            if recipients_valid act then
              match amounts, glue with
              | Some l, Some (burn, transferred) =>
                first_clause [
                  clause 144 (listN_eqb l (map (fun e => floor_share US16_MAX (snd e) remaining) act));  (* C03 *)
                  clause 145 (sumN l <=? remaining);
                  clause 146 (transferred =? sumN l);
                  clause 147 (burn + sumN l =? share);                        (* dust burned, nothing else leaves *)
                  clause 148 (floor_share US32_MAX rate share <=? burn)]
              | _, _ => Some 149
              end
            else None ]
        end
      else None
  | CRecip l res =>
      (* C16: accepted iff valid; an accepted table stores exactly l (then zero entries) and iterates exactly l *)
      match res with
      | None => clause 151 (negb (recipients_valid l))
      | Some (slots, act) =>
        first_clause [clause 152 (recipients_valid l);
                      clause 153 (listNN_eqb act l);
                      clause 154 (listNN_eqb slots (l ++ repeat default_slot (MAX_RECIPIENTS - length l)))]
      end
  end.
