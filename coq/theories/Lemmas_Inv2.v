(* Part 2: footprint of the 22 revenue-distribution processors on distributions. *)
From DZ Require Import Base Keys Merkle BurnRate Shares Swap_Ring State World SwapDeq RD Passport Swap Exec Lemmas_Inv.

Ltac invp := repeat first [ inv1 | match goal with u : unit |- _ => destruct u | a : (_ * _)%type |- _ => destruct a end ]; subst.

(* ------------------------------------------------------------------ typed access *)
Lemma next_account_owner ms s w p W m tl : next_account ms s w (Some p) W = Ok (m, tl) -> owner (get W (mkey m)) = p.
Proof. unfold next_account. destruct ms; [discriminate|]. intros H; invp. keqs. assumption. Qed.

Lemma rd_zc_config_none ms w W ck c ms' : rd_zc_config ms w W = Ok (ck, c, ms') -> dist_at W ck = None.
Proof. unfold rd_zc_config. intros H; invp. destruct (data (get W (mkey m))) eqn:E; try discriminate. invp.
  apply dist_at_data_none. intros; rewrite E; discriminate. Qed.
Lemma rd_zc_journal_none ms w W ck c ms' : rd_zc_journal ms w W = Ok (ck, c, ms') -> dist_at W ck = None.
Proof. unfold rd_zc_journal. intros H; invp. destruct (data (get W (mkey m))) eqn:E; try discriminate. invp.
  apply dist_at_data_none. intros; rewrite E; discriminate. Qed.
Lemma rd_zc_deposit_none ms w W ck c ms' : rd_zc_deposit ms w W = Ok (ck, c, ms') -> dist_at W ck = None.
Proof. unfold rd_zc_deposit. intros H; invp. destruct (data (get W (mkey m))) eqn:E; try discriminate. invp.
  apply dist_at_data_none. intros; rewrite E; discriminate. Qed.
Lemma rd_zc_contrib_none ms w W ck c ms' : rd_zc_contrib ms w W = Ok (ck, c, ms') -> dist_at W ck = None.
Proof. unfold rd_zc_contrib. intros H; invp. destruct (data (get W (mkey m))) eqn:E; try discriminate. invp.
  apply dist_at_data_none. intros; rewrite E; discriminate. Qed.
Lemma rd_zc_dist_some ms w W dk d t ms' : rd_zc_dist ms w W = Ok (dk, d, t, ms') -> dist_at W dk = Some (d, t).
Proof. unfold rd_zc_dist. intros H; invp. destruct (data (get W (mkey m))) eqn:E; try discriminate. invp.
  apply next_account_owner in Hm. rewrite dist_at_of. unfold dist_of. rewrite Hm, E. reflexivity. Qed.
Lemma rd_verified_none ms w who W ck c ms' : rd_verified ms w who W = Ok (ck, c, ms') -> dist_at W ck = None.
Proof. unfold rd_verified. intros H; invp. eapply rd_zc_config_none; eassumption. Qed.

(* ------------------------------------------------------------------ the chain tactic *)
Lemma put_dist_char cx W k d t W' : put_dist cx W k d t = Ok W' ->
  now W' = now W /\ forall k', dist_at W' k' = if key_eqb k k' then wr W k (DDist d t) else dist_at W k'.
Proof. apply write_data_char. Qed.

(* turn every world-changing call into equations on `now` and `dist_at` *)
Ltac prim_extra := fail.
Ltac prim_step :=
  match goal with
  | H : credit _ _ _ _ = Ok _ |- _ => apply credit_same in H
  | H : debit _ _ _ _ = Ok _ |- _ => apply debit_same in H
  | H : set_lamports_to_zero _ _ _ = Ok _ |- _ => apply set_lamports_to_zero_same in H
  | H : resize _ _ _ _ = Ok _ |- _ => apply resize_same in H
  | H : sys_transfer _ _ _ _ _ _ = Ok _ |- _ => apply sys_transfer_same in H
  | H : create_account _ _ _ _ _ _ _ = Ok _ |- _ => apply create_account_same in H
  | H : create_token_account _ _ _ _ _ _ = Ok _ |- _ => apply create_token_account_same in H
  | H : tok_transfer _ _ _ _ _ _ _ = Ok _ |- _ => apply tok_transfer_same in H
  | H : tok_transfer_checked _ _ _ _ _ _ _ _ _ = Ok _ |- _ => apply tok_transfer_checked_same in H
  | H : tok_burn _ _ _ _ _ _ _ = Ok _ |- _ => apply tok_burn_same in H
  | H : write_data _ _ _ _ = Ok _ |- _ => apply write_data_char in H
  | H : put_dist _ _ _ _ _ = Ok _ |- _ => apply put_dist_char in H
  | H : try_initialize _ _ _ _ _ = Ok _ |- _ => apply try_initialize_char in H
  | H : rd_zc_config _ _ _ = Ok _ |- _ => apply rd_zc_config_none in H
  | H : rd_zc_journal _ _ _ = Ok _ |- _ => apply rd_zc_journal_none in H
  | H : rd_zc_deposit _ _ _ = Ok _ |- _ => apply rd_zc_deposit_none in H
  | H : rd_zc_contrib _ _ _ = Ok _ |- _ => apply rd_zc_contrib_none in H
  | H : rd_zc_dist _ _ _ = Ok _ |- _ => apply rd_zc_dist_some in H
  | H : rd_verified _ _ _ _ = Ok _ |- _ => apply rd_verified_none in H
  | H : same_dists _ _ |- _ => destruct H
  | H : _ /\ _ |- _ => destruct H
  end.
Ltac prim_facts := repeat first [ prim_step | prim_extra ].

Ltac rw_dists :=
  repeat first
  [ progress (unfold wr in * )
  | match goal with
    | H : forall k, dist_at ?W k = _ |- context [dist_at ?W _] => rewrite !H
    | H : forall k, dist_at ?W k = _, H2 : context [dist_at ?W _] |- _ =>
        lazymatch type of H2 with forall _, _ => fail | _ => rewrite !H in H2 end
    end ].

Ltac keysplit a b :=
  let E := fresh "E" in
  destruct (key_eqb a b) eqn:E; try rewrite E in *;
  [ apply key_eqb_eq in E; try subst | apply key_eqb_false in E ].
Ltac keycases :=
  repeat first
  [ rewrite key_eqb_refl in *
  | match goal with
    | n : ?a <> ?b |- context [key_eqb ?a ?b] => rewrite (key_eqb_neq a b n)
    | n : ?a <> ?b, H : context [key_eqb ?a ?b] |- _ =>
        lazymatch type of H with forall _, _ => fail | _ => rewrite (key_eqb_neq a b n) in H end
    | |- context [key_eqb ?a ?b] => keysplit a b
    | H : context [key_eqb ?a ?b] |- _ =>
        lazymatch type of H with forall _, _ => fail | _ => keysplit a b end
    end ].
Ltac keyhyps :=
  keqs; repeat match goal with H : key_eqb _ _ = false |- _ => apply key_eqb_false in H end.

Ltac use_facts :=
  repeat match goal with
  | H : dist_at ?W ?k = _ |- context [dist_at ?W ?k] => rewrite H
  end.

Ltac use_facts_hyps :=
  repeat match goal with
  | H : dist_at ?W ?k = _, H2 : context [dist_at ?W ?k] |- _ =>
      lazymatch type of H2 with
      | forall _, _ => fail
      | dist_at W k = _ => fail
      | _ => rewrite H in H2; cbv beta iota in H2; cbn [dd] in H2
      end
  end.
(* leaves: `leaf` proves the `mono` / `good` goals *)
Ltac chain leaf :=
  keyhyps; prim_facts; split; [ congruence | ];
  let k := fresh "k" in intros k; rw_dists; use_facts; cbv beta iota; keycases; use_facts; use_facts_hyps; cbv beta iota; cbn [dd krel];
  try discriminate; try congruence; try exact I; try apply krel_refl; try (exfalso; congruence); leaf.

Ltac chain_same :=
  keyhyps; prim_facts; split; [ congruence | ];
  let k := fresh "k" in intros k; rw_dists; use_facts; cbv beta iota; keycases; use_facts; use_facts_hyps; cbv beta iota; cbn [dd];
  try reflexivity; try congruence; try (exfalso; congruence).

Lemma rd_set_admin_step p cx W k W' : rd_set_admin cx W k = Ok W' -> dstep p W W'.
Proof. unfold rd_set_admin. intros H; invp. chain idtac. Qed.

Lemma rd_migrate_step p cx W W' : rd_migrate cx W = Ok W' -> dstep p W W'.
Proof. unfold rd_migrate. intros H; invp. chain idtac. Qed.
Lemma rd_configure_program_step p cx W s W' : rd_configure_program cx W s = Ok W' -> dstep p W W'.
Proof. unfold rd_configure_program. intros H; invp. chain idtac. Qed.
Lemma rd_initialize_program_step p cx W W' : rd_initialize_program cx W = Ok W' -> dstep p W W'.
Proof. unfold rd_initialize_program. intros H; invp. chain idtac. Qed.
Lemma rd_initialize_journal_step p cx W W' : rd_initialize_journal cx W = Ok W' -> dstep p W W'.
Proof. unfold rd_initialize_journal. intros H; invp. chain idtac. Qed.
Lemma rd_initialize_contributor_step p cx W svc W' : rd_initialize_contributor cx W svc = Ok W' -> dstep p W W'.
Proof. unfold rd_initialize_contributor. intros H; invp. chain idtac. Qed.
Lemma rd_set_rewards_manager_step p cx W k W' : rd_set_rewards_manager cx W k = Ok W' -> dstep p W W'.
Proof. unfold rd_set_rewards_manager. intros H; invp. chain idtac. Qed.
Lemma rd_configure_contributor_step p cx W s W' : rd_configure_contributor cx W s = Ok W' -> dstep p W W'.
Proof. unfold rd_configure_contributor. intros H; invp. destruct s; invp; chain idtac. Qed.
Lemma rd_verify_root_step p cx W kind pr W' : rd_verify_root cx W kind pr = Ok W' -> dstep p W W'.
Proof. unfold rd_verify_root. intros H; invp. destruct kind; invp; apply dstep_refl. Qed.
Lemma rd_initialize_deposit_step p cx W node W' : rd_initialize_deposit cx W node = Ok W' -> dstep p W W'.
Proof. unfold rd_initialize_deposit. intros H; invp. chain idtac. Qed.
Lemma rd_initialize_swap_destination_step p cx W W' : rd_initialize_swap_destination cx W = Ok W' -> dstep p W W'.
Proof. unfold rd_initialize_swap_destination. intros H; invp. chain idtac. Qed.
(* ------------------------------------------------------------------ the record updates the processors perform *)
Definition perm_of_rd (ix : rd_ix) : perm := fun s =>
  match ix, s with
  | RInitializeDistribution, SCreated => true
  | RFinalizeDebt, SDebtFinal => true
  | RFinalizeRewards, SRewardsFinal => true
  | RSweep, SSwept => true
  | REnableWriteOff, SWriteOff => true
  | _, _ => false
  end.

Lemma calc_allowed_ok d W : calc_allowed d W = calc_ok (now W) d.
Proof. reflexivity. Qed.

Ltac flags_tac := let s := fresh "s" in intros s; destruct s; cbn;
  repeat match goal with |- context [implb ?b _] =>
    lazymatch b with true => fail | false => fail | _ => destruct b; cbn end end; reflexivity.
Ltac perm_tac := let s := fresh "s" in let Hs := fresh "Hs" in
  intros s Hs; destruct s; cbn in Hs |- *; try discriminate Hs; reflexivity.
Ltac mono_tac :=
  constructor; [ flags_tac | perm_tac | .. ]; unfold good, snapshot, debt_figs, rew_figs; cbn; intros;
  try reflexivity; try congruence; try lia; try (right; reflexivity); try (left; split; assumption); try tauto; auto;
  try match goal with H : _ /\ (_ -> _) |- _ /\ _ =>
    let A := fresh "A" in let B := fresh "B" in
    destruct H as [A B]; split; [ try (rewrite B by assumption); try lia | intros; try congruence; auto ] end.

Lemma mono_configure_debt p nw d n debt root :
  d_debt_final d = false -> calc_ok nw d = true ->
  mono p nw d (d <| d_total_validators := n |> <| d_total_debt := debt |> <| d_debt_root := root |>).
Proof. intros G1 G2. mono_tac. Qed.
Lemma mono_configure_rewards p nw d n root :
  d_rewards_final d = false -> calc_ok nw d = true ->
  mono p nw d (d <| d_total_contributors := n |> <| d_rewards_root := root |>).
Proof. intros G1 G2. mono_tac. Qed.
Lemma mono_finalize_debt0 nw d :
  d_debt_final d = false -> calc_ok nw d = true ->
  mono (perm_of_rd RFinalizeDebt) nw d (d <| d_debt_final := true |>).
Proof. intros G1 G2. mono_tac. Qed.
Lemma mono_finalize_debt1 nw d a b :
  d_debt_final d = false -> calc_ok nw d = true ->
  mono (perm_of_rd RFinalizeDebt) nw d (d <| d_debt_final := true |> <| d_debt_start := a |> <| d_debt_end := b |>).
Proof. intros G1 G2. mono_tac. Qed.
Lemma mono_finalize_rewards nw d a b :
  d_rewards_final d = false -> calc_ok nw d = true -> d_debt_final d = true ->
  mono (perm_of_rd RFinalizeRewards) nw d (d <| d_rewards_final := true |> <| d_rew_start := a |> <| d_rew_end := b |>).
Proof. intros G1 G2 G3. mono_tac. Qed.
Lemma mono_distribute p nw d a b c :
  d_swept d = true ->
  mono p nw d (d <| d_distributed_2z := a |> <| d_burned_2z := b |> <| d_distributed_count := c |>).
Proof. intros G1. mono_tac. Qed.
Lemma mono_pay p nw d a b :
  d_debt_final d = true ->
  mono p nw d (d <| d_collected_sol := a |> <| d_payments_count := b |>).
Proof. intros G1. mono_tac. Qed.
Lemma mono_enable_write_off nw d a b :
  d_writeoff_enabled d = false -> d_debt_final d = true ->
  mono (perm_of_rd REnableWriteOff) nw d (d <| d_writeoff_enabled := true |> <| d_wo_start := a |> <| d_wo_end := b |>).
Proof. intros G1 G2. mono_tac. Qed.
Lemma mono_write_off_src p nw d a : mono p nw d (d <| d_writeoff_count := a |>).
Proof. mono_tac. Qed.
Lemma mono_write_off_tgt p nw t amount unc x :
  d_swept t = false -> d_debt_final t = true ->
  checked_add two64 (d_uncollectible t) amount = Some unc ->
  total_sol_debt (t <| d_uncollectible := unc |>) = Some x ->
  mono p nw t (t <| d_uncollectible := unc |>).
Proof.
  intros G1 G2 G3 G4. unfold checked_add in G3. destruct (_ <? _) in G3; [|discriminate]. injection G3 as <-.
  unfold total_sol_debt, checked_sub in G4. cbn in G4. destruct (_ <=? _) eqn:E in G4; [|discriminate]. apply N.leb_le in E.
  mono_tac.
Qed.
Lemma mono_sweep0 nw d :
  d_swept d = false -> d_rewards_final d = true ->
  mono (perm_of_rd RSweep) nw d (d <| d_swept := true |>).
Proof. intros G1 G2. mono_tac. Qed.
Lemma mono_sweep1 nw d z :
  d_swept d = false -> d_rewards_final d = true ->
  mono (perm_of_rd RSweep) nw d (d <| d_swept := true |> <| d_swept_2z := z |>).
Proof. intros G1 G2. mono_tac. Qed.
Lemma mono_prepaid p nw d z : mono p nw d (d <| d_prepaid_2z := z |>).
Proof. mono_tac. Qed.

(* ------------------------------------------------------------------ shared tails *)
Lemma grow_and_fund_char cx W dk d tail extra ms more W' : grow_and_fund cx W dk d tail extra ms more = Ok W' ->
  now W' = now W /\ forall k', dist_at W' k' = if key_eqb dk k' then wr W dk (DDist d (tail ++ zeros extra)) else dist_at W k'.
Proof.
  unfold grow_and_fund. intros H; invp. prim_facts. split; [congruence|]. intros k'. rw_dists. reflexivity.
Qed.
Lemma distribute_loop_same cx recips : forall W ms remaining src auth pdas acc W' acc' ms',
  distribute_loop cx W ms recips remaining src auth pdas acc = Ok (W', acc', ms') -> same_dists W W'.
Proof.
  induction recips as [|[rk share] tl IH]; intros W ms remaining src auth pdas acc W' acc' ms' H; cbn [distribute_loop] in H.
  - invp. apply same_refl.
  - invp. eapply same_trans; [eapply tok_transfer_same; eassumption|eapply IH; eassumption].
Qed.
Lemma sw_zc_fills_none ms W fk r ms' : sw_zc_fills ms W = Ok (fk, r, ms') -> dist_at W fk = None.
Proof. unfold sw_zc_fills. intros H; invp. destruct (data (get W (mkey m))) eqn:E; try discriminate. invp.
  apply dist_at_data_none. intros; rewrite E; discriminate. Qed.
Lemma sw_dequeue_fills_same cx W sol W' rep : sw_dequeue_fills cx W sol = Ok (W', rep) -> same_dists W W'.
Proof.
  unfold sw_dequeue_fills. intros H; invp. destruct (dequeue _ _) as [[r' z]|]; [|discriminate]. invp.
  eapply write_nondist_same; [eassumption|reflexivity|]. eapply sw_zc_fills_none; eassumption.
Qed.
Lemma swap_dequeue_cpi_same cx W swap cfg st fills jk sol pdas W' rep :
  swap_dequeue_cpi cx W swap cfg st fills jk sol pdas = Ok (W', rep) -> same_dists W W'.
Proof.
  unfold swap_dequeue_cpi. intros H; invp. destruct swap; try discriminate.
  - eapply sw_dequeue_fills_same; eassumption.
  - destruct (data (get W fills)) as [| | | | | | | | | | | |[r|]|]; invp; apply same_refl.
Qed.
Ltac prim_extra ::=
  match goal with
  | H : grow_and_fund _ _ _ _ _ _ _ _ = Ok _ |- _ => apply grow_and_fund_char in H
  | H : distribute_loop _ _ _ _ _ _ _ _ _ = Ok _ |- _ => apply distribute_loop_same in H
  | H : swap_dequeue_cpi _ _ _ _ _ _ _ _ _ = Ok _ |- _ => apply swap_dequeue_cpi_same in H
  end.

(* ------------------------------------------------------------------ processors that write a distribution *)
Ltac side := first [ assumption | rewrite <- calc_allowed_ok; assumption | eassumption
  | match goal with H : _ = ?b |- _ = ?b => cbn in H; exact H end ].
Lemma rd_configure_debt_step p cx W n debt root W' : rd_configure_debt cx W n debt root = Ok W' -> dstep p W W'.
Proof. unfold rd_configure_debt. intros H; invp. bools. chain ltac:(apply mono_configure_debt; side). Qed.
Lemma rd_configure_rewards_step p cx W n root W' : rd_configure_rewards cx W n root = Ok W' -> dstep p W W'.
Proof. unfold rd_configure_rewards. intros H; invp. bools. chain ltac:(apply mono_configure_rewards; side). Qed.
Lemma rd_finalize_debt_step cx W W' : rd_finalize_debt cx W = Ok W' -> dstep (perm_of_rd RFinalizeDebt) W W'.
Proof.
  unfold rd_finalize_debt. intros H; invp. bools. destruct (_ =? 0) in H.
  - chain ltac:(apply mono_finalize_debt0; side).
  - chain ltac:(apply mono_finalize_debt1; side).
Qed.
Lemma rd_finalize_rewards_step cx W W' : rd_finalize_rewards cx W = Ok W' -> dstep (perm_of_rd RFinalizeRewards) W W'.
Proof.
  unfold rd_finalize_rewards. intros H; invp. bools.
  chain ltac:(apply mono_finalize_rewards; side).
Qed.

Lemma rd_distribute_rewards_step p cx W us ebr pr W' : rd_distribute_rewards cx W us ebr pr = Ok W' -> dstep p W W'.
Proof. unfold rd_distribute_rewards. intros H; invp. bools. chain ltac:(apply mono_distribute; side). Qed.
Lemma rd_pay_debt_step p cx W amount pr W' : rd_pay_debt cx W amount pr = Ok W' -> dstep p W W'.
Proof. unfold rd_pay_debt. intros H; invp. bools. chain ltac:(apply mono_pay; side). Qed.
Lemma rd_enable_write_off_step cx W W' : rd_enable_write_off cx W = Ok W' -> dstep (perm_of_rd REnableWriteOff) W W'.
Proof. unfold rd_enable_write_off. intros H; invp. bools. chain ltac:(apply mono_enable_write_off; side). Qed.
Lemma rd_write_off_step p cx W amount pr W' : rd_write_off cx W amount pr = Ok W' -> dstep p W W'.
Proof.
  unfold rd_write_off. intros H; invp. bools.
  chain ltac:(repeat match goal with H : Some (_, _) = Some (_, _) |- _ => injection H as ? ?; subst end;
    first [ apply mono_write_off_src
          | eapply mono_write_off_tgt; side
          | eapply mono_trans; [ | eapply mono_write_off_tgt; side ]; apply mono_write_off_src ]).
Qed.
Lemma rd_sweep_step cx W W' : rd_sweep cx W = Ok W' -> dstep (perm_of_rd RSweep) W W'.
Proof.
  unfold rd_sweep. intros H; invp. bools. destruct (_ =? 0) in H.
  - invp. chain ltac:(apply mono_sweep0; side).
  - invp. repeat match goal with H : match ?x with _ => _ end = Ok _ |- _ => destruct x; try discriminate H end. invp.
    chain ltac:(apply mono_sweep1; side).
Qed.

Lemma init_dist_tail cx W ata tk jk dk d W' :
  match data (get W ata) with
  | DToken t =>
      if t_amount t =? 0 then Ok W else
      W <- tok_transfer cx W ata tk jk (t_amount t) [KRdJournal] ;;
      put_dist cx W dk (d <| d_prepaid_2z := wadd64 0 (t_amount t) |>) []
  | _ => Ok W
  end = Ok W' ->
  W' = W \/ exists W1 z, same_dists W W1 /\ put_dist cx W1 dk (d <| d_prepaid_2z := z |>) [] = Ok W'.
Proof.
  destruct (data (get W ata)); intros H; try (left; congruence).
  destruct (_ =? 0) in H; [left; congruence|]. invp. right. eexists _, _. split; [eapply tok_transfer_same|]; eassumption.
Qed.

Lemma good_fresh e rate fees relay ts :
  good (dist_default <| d_epoch := e |> <| d_cbr := rate |> <| d_fees := fees |> <| d_relay := relay |> <| d_calc_allowed_ts := ts |>).
Proof. unfold good. cbn. split; [lia|reflexivity]. Qed.

Lemma good_prepaid d z : good d -> good (d <| d_prepaid_2z := z |>).
Proof. unfold good. cbn. auto. Qed.

Lemma rd_initialize_distribution_step cx W W' :
  rd_initialize_distribution cx W = Ok W' -> dstep (perm_of_rd RInitializeDistribution) W W'.
Proof.
  unfold rd_initialize_distribution. intros H; invp. bools.
  apply init_dist_tail in H.
  match goal with H : try_initialize _ _ _ _ (DDist ?d []) = Ok _ |- _ =>
    assert (G : good d) by apply good_fresh; remember d as d0 eqn:Ed in *; clear Ed end.
  destruct H as [->|(W1 & z & S1 & H)].
  - chain ltac:(split; [reflexivity | exact G]).
  - chain ltac:(first [ split; [reflexivity | first [ exact G | apply good_prepaid, G ] ] | apply mono_prepaid ]).
Qed.

Lemma rd_withdraw_sol_same cx W amt W' : rd_withdraw_sol cx W amt = Ok W' -> same_dists W W'.
Proof. unfold rd_withdraw_sol. intros H; invp. destruct (sb_kind _); invp. chain_same. Qed.

Lemma rd_process_step cx W ix W' : rd_process cx W ix = Ok W' -> dstep (perm_of_rd ix) W W'.
Proof.
  destruct ix; cbn [rd_process]; intros H.
  - eapply rd_initialize_program_step; eassumption.
  - eapply rd_migrate_step; eassumption.
  - eapply rd_set_admin_step; eassumption.
  - eapply rd_configure_program_step; eassumption.
  - eapply rd_initialize_journal_step; eassumption.
  - eapply rd_initialize_distribution_step; eassumption.
  - eapply rd_configure_debt_step; eassumption.
  - eapply rd_finalize_debt_step; eassumption.
  - eapply rd_configure_rewards_step; eassumption.
  - eapply rd_finalize_rewards_step; eassumption.
  - eapply rd_distribute_rewards_step; eassumption.
  - eapply rd_initialize_contributor_step; eassumption.
  - eapply rd_set_rewards_manager_step; eassumption.
  - eapply rd_configure_contributor_step; eassumption.
  - eapply rd_verify_root_step; eassumption.
  - eapply rd_initialize_deposit_step; eassumption.
  - eapply rd_pay_debt_step; eassumption.
  - eapply rd_enable_write_off_step; eassumption.
  - eapply rd_write_off_step; eassumption.
  - eapply rd_initialize_swap_destination_step; eassumption.
  - eapply rd_sweep_step; eassumption.
  - apply same_dstep. eapply rd_withdraw_sol_same; eassumption.
Qed.

(* ------------------------------------------------------------------ passport and the mock swap program *)
Lemma pp_zc_config_none ms w W ck c ms' : pp_zc_config ms w W = Ok (ck, c, ms') -> dist_at W ck = None.
Proof. unfold pp_zc_config. intros H; invp. destruct (data (get W (mkey m))) eqn:E; try discriminate. invp.
  apply dist_at_data_none. intros; rewrite E; discriminate. Qed.
Lemma pp_verified_none ms w who W ck c a ms' : pp_verified ms w who W = Ok (ck, c, a, ms') -> dist_at W ck = None.
Proof. unfold pp_verified. intros H; invp. eapply pp_zc_config_none; eassumption. Qed.
Ltac prim_extra ::=
  match goal with
  | H : grow_and_fund _ _ _ _ _ _ _ _ = Ok _ |- _ => apply grow_and_fund_char in H
  | H : distribute_loop _ _ _ _ _ _ _ _ _ = Ok _ |- _ => apply distribute_loop_same in H
  | H : swap_dequeue_cpi _ _ _ _ _ _ _ _ _ = Ok _ |- _ => apply swap_dequeue_cpi_same in H
  | H : pp_zc_config _ _ _ = Ok _ |- _ => apply pp_zc_config_none in H
  | H : pp_verified _ _ _ _ = Ok _ |- _ => apply pp_verified_none in H
  | H : sw_zc_fills _ _ = Ok _ |- _ => apply sw_zc_fills_none in H
  | H : rd_withdraw_sol _ _ _ = Ok _ |- _ => apply rd_withdraw_sol_same in H
  end.

Lemma pp_process_same cx W ix W' : pp_process cx W ix = Ok W' -> same_dists W W'.
Proof.
  destruct ix; cbn [pp_process]; intros H.
  - unfold pp_initialize_program in H. invp. chain_same.
  - unfold pp_set_admin in H. invp. chain_same.
  - unfold pp_configure_program in H. invp. chain_same.
  - unfold pp_request_access in H. invp. chain_same.
  - unfold pp_grant_access in H. invp. chain_same.
  - unfold pp_deny_access in H. invp. chain_same.
Qed.

Lemma withdraw_sol_cpi_same cx W cfg auth jk dest sol sib W' : withdraw_sol_cpi cx W cfg auth jk dest sol sib = Ok W' -> same_dists W W'.
Proof. unfold withdraw_sol_cpi. intros H; invp. eapply rd_withdraw_sol_same; eassumption. Qed.
Lemma sw_process_same cx W ix W' : sw_process cx W ix = Ok W' -> same_dists W W'.
Proof.
  destruct ix; cbn [sw_process]; intros H.
  - unfold sw_initialize in H. invp. chain_same.
  - unfold sw_buy_sol, withdraw_sol_cpi in H. invp. chain_same.
  - invp. eapply sw_dequeue_fills_same; eassumption.
Qed.
