(* C13, composition, part 3: the debt phase with its frame, and ONE WHOLE EPOCH (debt phase, swap, rewards phase).
   Index at the end of Lemmas_C13k.v. *)
From DZ Require Import Base Keys Merkle BurnRate Shares Swap_Ring State World SwapDeq RD Passport Swap Exec Corr Builders
  Lemmas_Merkle Lemmas_Shares Lemmas_RdSpecs5 Lemmas_C13 Lemmas_C13b Lemmas_C13c Lemmas_C13d Lemmas_C13f Lemmas_C13g Lemmas_C13h.

(* ------------------------------------------------------------------------------------------------------------------ *)
(* one payment keeps the loop invariant (the step inside pay_all_ok, exported)                                          *)
Lemma pay_step f W e root pf i node amt tl c d tail j :
  pay_phase W e root pf i ((node, amt) :: tl) c d tail j ->
  exists W1, exec_tx W (rd_tx [KUser f] (RPayDebt amt (pf i)) (sdk_pay_debt e node)) = (W1, true) /\ now W1 = now W /\
    (forall k, get W1 k = pay_debt_acct W e node amt i d tail j k) /\
    pay_phase W1 e root pf (i + 1) tl c (pay_debt_dist d amt) (set_bit_at tail (d_debt_start d) i)
              (j <| j_total_sol := wadd64 (j_total_sol j) amt |>).
Proof.
  intros P. destruct P as [pp_cfg_owner0 pp_cfg_data0 pp_cfg_lam0 pp_unpaused0 pp_dist_owner0 pp_dist_data0 pp_dist_rent0 pp_debt_final0
    pp_root0 pp_window0 pp_fits0 pp_clear0 pp_proofs0 pp_deposits0 pp_j_owner0 pp_j_data0 pp_j_rent0 pp_ranges0].
  destruct (pp_deposits0 node amt (or_introl eq_refl)) as (dp & Do & Dd & Dn & Dl & Df).
  destruct (pp_proofs0 0%nat node amt eq_refl) as (Pi & Pr). cbn [N.of_nat] in Pi, Pr. rewrite N.add_0_r in Pi, Pr.
  cbn [length] in pp_fits0, pp_clear0. cbn [owed] in Df. rewrite key_eqb_refl in Df.
  destruct pp_window0 as (Hw1 & Hw2). destruct pp_ranges0 as (R1 & R2 & R3).
  assert (i / 8 < d_debt_end d - d_debt_start d) as Hin by lia.
  assert (range_bit tail (d_debt_start d) i = false) as Hclr by (apply pp_clear0; lia).
  assert (pay_ready W e node amt (pf i) i c d tail dp j) as R.
  { constructor; try assumption; try tauto; try lia. congruence. }
  destruct (pay_debt_progress W f e node amt (pf i) i c d tail dp j R) as (W1 & Hx & Hnow & Hg).
  destruct (set_bit_at_bits tail _ _ i Hw1 Hw2 Hin Hclr) as (Hlen & Hset & Hoth).
  exists W1. split; [exact Hx|]. split; [exact Hnow|]. split; [exact Hg|].
  set (d1 := pay_debt_dist d amt) in *. set (tail1 := set_bit_at tail (d_debt_start d) i) in *.
  set (j1 := j <| j_total_sol := wadd64 (j_total_sol j) amt |>) in *.
  assert (get W1 KRdConfig = get W KRdConfig) as G0.
  { rewrite Hg. unfold pay_debt_acct. cbn [key_eqb]. apply purge_acct_id. assumption. }
  assert (get W1 (KRdDist e) = get W (KRdDist e) <| data := DDist d1 tail1 |>) as G1.
  { rewrite Hg. unfold pay_debt_acct. cbn [key_eqb]. rewrite N.eqb_refl. reflexivity. }
  assert (get W1 KRdJournal = get W KRdJournal <| lamports := lamports (get W KRdJournal) + amt |> <| data := DJournal j1 |>) as G2.
  { rewrite Hg. unfold pay_debt_acct. cbn [key_eqb]. reflexivity. }
  assert (forall n, get W1 (KRdDeposit n) = if key_eqb n node then get W (KRdDeposit n) <| lamports := lamports (get W (KRdDeposit n)) - amt |>
                                             else purge_acct (get W (KRdDeposit n))) as G3.
  { intros n. rewrite Hg. unfold pay_debt_acct. cbn [key_eqb]. reflexivity. }
  constructor; rewrite ?G0, ?G1, ?G2; proj_simpl; try assumption; try reflexivity.
  - subst d1. unfold pay_debt_dist. proj_simpl. lia.
  - subst d1. unfold pay_debt_dist. proj_simpl. lia.
  - subst d1. unfold pay_debt_dist. proj_simpl. intros idx Hidx. unfold tail1. rewrite Hoth by lia. apply pp_clear0. lia.
  - intros n node' amt' Hn. destruct (pp_proofs0 (S n) node' amt' Hn) as (A & B).
    replace (i + 1 + N.of_nat n) with (i + N.of_nat (S n)) by lia. auto.
  - intros node' amt' Hin'. destruct (pp_deposits0 node' amt' (or_intror Hin')) as (dp' & Do' & Dd' & Dn' & Dl' & Df').
    exists dp'. rewrite G3. cbn [owed] in Df'. rewrite (key_eqb_sym node node') in Df'.
    destruct (key_eqb_spec node' node) as [->|Hne].
    + proj_simpl. cbn [lamports]. repeat split; try assumption; try lia.
    + rewrite purge_acct_id by (pose proof (rent_pos LEN_DEPOSIT); lia). repeat split; try assumption; try lia.
  - cbn [lamports]. lia.
  - subst d1 j1. unfold pay_debt_dist. proj_simpl. cbn [j_total_sol]. unfold wadd32, wadd64.
    repeat split; apply wadd_lt; discriminate.
Qed.

(* the payments touch only the distribution, the journal and the deposits; of the journal only the pool total *)
Lemma pay_all_frame f e root pf : forall rest W i c d tail j W',
  pay_phase W e root pf i rest c d tail j -> run_txs W (pay_txs f e rest pf i) = (W', true) ->
  (forall k, k <> KRdDist e -> k <> KRdJournal -> (forall n, k <> KRdDeposit n) -> lamports (get W k) <> 0 -> get W' k = get W k) /\
  (exists j', data (get W' KRdJournal) = DJournal j' /\ j' = j <| j_total_sol := j_total_sol j' |>) /\
  lamports (get W' (KRdDist e)) = lamports (get W (KRdDist e)) /\ alen (get W' (KRdDist e)) = alen (get W (KRdDist e)) /\
  now W' = now W /\ alen (get W' KRdJournal) = alen (get W KRdJournal).
Proof.
  induction rest as [|[node amt] tl IH]; intros W i c d tail j W' P Hrun.
  - cbn [pay_txs run_txs] in Hrun. injection Hrun as <-. split; [auto|]. split; [|auto].
    exists j. split; [exact (pp_j_data _ _ _ _ _ _ _ _ _ _ P)|destruct j; reflexivity].
  - destruct (pay_step f W e root pf i node amt tl c d tail j P) as (W1 & Hx & Hn1 & Hg & P1).
    cbn [pay_txs run_txs] in Hrun. rewrite Hx in Hrun.
    destruct (IH W1 (i + 1) c _ _ _ W' P1 Hrun) as (Fr & (j' & Hj' & Ej') & Hl & Ha & Hn & Haj).
    assert (get W1 (KRdDist e) = get W (KRdDist e) <| data := DDist (pay_debt_dist d amt) (set_bit_at tail (d_debt_start d) i) |>) as G1.
    { rewrite Hg. unfold pay_debt_acct. cbn [key_eqb]. rewrite N.eqb_refl. reflexivity. }
    assert (get W1 KRdJournal = get W KRdJournal <| lamports := lamports (get W KRdJournal) + amt |>
                                  <| data := DJournal (j <| j_total_sol := wadd64 (j_total_sol j) amt |>) |>) as G2.
    { rewrite Hg. unfold pay_debt_acct. cbn [key_eqb]. reflexivity. }
    split; [|split; [|split; [|split; [|split]]]].
    6:{ rewrite Haj, G2. reflexivity. }
    + intros k K1 K2 K3 K4.
      assert (get W1 k = get W k) as E.
      { rewrite Hg. unfold pay_debt_acct. rewrite !key_eqb_neq by (assumption || apply K3). apply purge_acct_id. assumption. }
      rewrite Fr by (try assumption; rewrite E; assumption). exact E.
    + exists j'. split; [exact Hj'|]. rewrite Ej'. destruct j; reflexivity.
    + rewrite Hl, G1. reflexivity.
    + rewrite Ha, G1. reflexivity.
    + congruence.
Qed.

(* ------------------------------------------------------------------------------------------------------------------ *)
(* the debt phase again, now with everything a later phase needs: the exact distribution account, the frame, the payer,
   the journal (same run as honest_debt_phase_completes: run_txs is a function)                                          *)
Definition dp_d1 (d : dist) (n total : N) (root : hash) : dist :=
  d <| d_total_validators := n |> <| d_total_debt := total |> <| d_debt_root := root |>.
Definition dp_topup (W : world) (e n : N) : N := rent (LEN_DIST + ceil8 n) - lamports (get W (KRdDist e)).

Theorem honest_debt_phase_frame W a p f e L root pf c d j :
  debt_plan W a p e L root pf c d j ->
  let n := N.of_nat (length L) in let total := sumN (map snd L) in
  exists W' d' tail' j',
    run_txs W (debt_phase_txs a p f e L root pf) = (W', true) /\
    get W' (KRdDist e) = {| lamports := lamports (get W (KRdDist e)) + dp_topup W e n; owner := KRd; alen := LEN_DIST + ceil8 n;
                            data := DDist d' tail' |} /\
    d' = fd_dist (dp_d1 d n total root) [] <| d_collected_sol := d_collected_sol d' |> <| d_payments_count := d_payments_count d' |> /\
    d_payments_count d' = n /\ length tail' = N.to_nat (ceil8 n) /\
    (forall idx, idx < n -> range_bit tail' (d_debt_start d') idx = true) /\
    (forall k, k <> KRdDist e -> k <> KUser p -> k <> KRdJournal -> (forall nd, k <> KRdDeposit nd) ->
               lamports (get W k) <> 0 -> get W' k = get W k) /\
    get W' (KUser p) = get W (KUser p) <| lamports := lamports (get W (KUser p)) - dp_topup W e n |> /\
    owner (get W' KRdJournal) = KRd /\ data (get W' KRdJournal) = DJournal j' /\ j' = j <| j_total_sol := j_total_sol j' |> /\
    lamports (get W' KRdJournal) = lamports (get W KRdJournal) + total /\
    now W' = now W /\
    alen (get W' KRdJournal) = alen (get W KRdJournal) /\ j_total_sol j' = (j_total_sol j + total) mod two64.
Proof.
  intros P n total. destruct P as [dp_configure0 dp_fresh0 dp_total0 dp_count0 dp_dist_len0 dp_dist_rent0 dp_cfg_lam0 dp_payer0
    dp_proofs0 dp_deposits0 dp_j_owner0 dp_j_data0 dp_j_rent0 dp_j_range0].
  destruct dp_fresh0 as (Fu & Fc & Fs & Fr). destruct dp_total0 as (Tnz & Tlt). fold n in dp_count0, dp_payer0. fold total in Tnz, Tlt.
  destruct (configure_debt_progress W a e n total root c d [] dp_configure0) as (W1 & X1 & Hn1 & G1).
  unfold debt_phase_txs. fold n total. rewrite (run_txs_cons _ _ _ _ X1).
  set (d1 := dp_d1 d n total root) in *.
  destruct dp_configure0 as [cd_cfg_owner0 cd_cfg_data0 cd_unpaused0 cd_accountant0 cd_dist_owner0 cd_dist_data0 cd_dist_lam0 cd_not_final0 cd_grace_over0].
  assert (forall k, k <> KRdDist e -> lamports (get W k) <> 0 -> get W1 k = get W k) as Fr1.
  { intros k Hk Hl. rewrite G1. unfold configure_debt_acct. rewrite key_eqb_neq by assumption. apply purge_acct_id. assumption. }
  assert (get W1 (KRdDist e) = get W (KRdDist e) <| data := DDist d1 [] |>) as Gd1.
  { rewrite G1. unfold configure_debt_acct. rewrite key_eqb_refl. reflexivity. }
  assert (get W1 KRdConfig = get W KRdConfig) as Gc1 by (apply Fr1; [discriminate|assumption]).
  destruct dp_payer0 as [Wo Wl Wfu].
  assert (get W1 (KUser p) = get W (KUser p)) as Gp1.
  { apply Fr1; [discriminate|]. pose proof (rent_pos 0). lia. }
  assert (finalize_debt_ready W1 a e c d1 []) as R2.
  { constructor; rewrite ?Gc1, ?Gd1; proj_simpl; try assumption; try reflexivity.
    - unfold calc_allowed in *. rewrite Hn1. subst d1. unfold dp_d1. proj_simpl. assumption.
    - subst d1. unfold dp_d1. proj_simpl. lia. }
  assert (finalize_debt_topup W1 e d1 = dp_topup W e n) as Et.
  { unfold finalize_debt_topup, dp_topup. rewrite Gd1. subst d1. unfold dp_d1. proj_simpl. rewrite dp_dist_len0. reflexivity. }
  destruct (finalize_debt_progress W1 a p e c d1 [] R2) as (W2 & X2 & Hn2 & G2).
  { subst d1. unfold dp_d1. proj_simpl. lia. }
  { subst d1. unfold dp_d1. proj_simpl. assumption. }
  { rewrite Gd1. proj_simpl. rewrite dp_dist_len0. unfold LEN_DIST. lia. }
  { rewrite Et. unfold dp_topup. constructor; rewrite Gp1; assumption. }
  rewrite (run_txs_cons _ _ _ _ X2).
  set (d2 := fd_dist d1 []) in *. set (tail2 := [] ++ zeros (ceil8 (d_total_validators d1))) in *.
  assert (d_total_validators d1 = n) as Etv by (subst d1; unfold dp_d1; proj_simpl; reflexivity).
  assert (forall k, k <> KRdDist e -> k <> KUser p -> lamports (get W k) <> 0 -> get W2 k = get W k) as Fr2.
  { intros k Hk1 Hk2 Hl. rewrite G2. unfold finalize_debt_acct. rewrite !key_eqb_neq by assumption.
    rewrite Fr1 by assumption. apply purge_acct_id. assumption. }
  assert (get W2 (KRdDist e) = {| lamports := lamports (get W (KRdDist e)) + dp_topup W e n;
                                  owner := KRd; alen := LEN_DIST + ceil8 n; data := DDist d2 tail2 |}) as Gd2.
  { rewrite G2. unfold finalize_debt_acct. rewrite key_eqb_refl, Et, Gd1. proj_simpl. rewrite dp_dist_len0, Etv.
    apply purge_acct_id. cbn [lamports]. pose proof (rent_pos LEN_DIST). lia. }
  assert (get W2 (KUser p) = get W (KUser p) <| lamports := lamports (get W (KUser p)) - dp_topup W e n |>) as Gp2.
  { rewrite G2. unfold finalize_debt_acct. rewrite (key_eqb_neq (KUser p) (KRdDist e)) by discriminate. rewrite key_eqb_refl, Et, Gp1.
    apply purge_acct_id. proj_simpl. cbn [lamports]. unfold dp_topup in *. pose proof (rent_pos 0). lia. }
  assert (ceil8 n < two32) as Hc32 by (pose proof (ceil8_le n 10240 ltac:(lia)); unfold two32; lia).
  assert (d_debt_start d2 = 0 /\ d_debt_end d2 = ceil8 n) as (Es & Ee).
  { subst d2. unfold fd_dist. proj_simpl. cbn [length N.of_nat]. rewrite Etv. split; [reflexivity|].
    unfold sat_add. rewrite N.add_0_l. apply N.ltb_lt in Hc32. rewrite Hc32. reflexivity. }
  assert (length tail2 = N.to_nat (ceil8 n)) as Elen by (subst tail2; cbn [app]; rewrite zeros_length, Etv; reflexivity).
  assert (pay_phase W2 e root pf 0 L c d2 tail2 j) as PP.
  { constructor; rewrite ?Gd2; cbn [owner data lamports alen]; try reflexivity.
    - rewrite Fr2 by (discriminate || assumption). assumption.
    - rewrite Fr2 by (discriminate || assumption). assumption.
    - rewrite Fr2 by (discriminate || assumption). assumption.
    - assumption.
    - unfold dp_topup. lia.
    - rewrite Es, Ee, Elen. lia.
    - rewrite Es, Ee. fold n. pose proof (ceil8_covers n). lia.
    - intros idx _. subst tail2. cbn [app]. apply range_bit_zeros.
    - intros k node amt Hk. rewrite N.add_0_l. apply (dp_proofs0 k node amt Hk).
    - intros node amt Hin. destruct (dp_deposits0 node amt Hin) as (dp & A1 & A2 & A3 & A4 & A5). exists dp.
      rewrite Fr2 by (try discriminate; pose proof (rent_pos LEN_DEPOSIT); lia). auto.
    - rewrite Fr2 by (try discriminate; pose proof (rent_pos (alen (get W KRdJournal))); lia). assumption.
    - rewrite Fr2 by (try discriminate; pose proof (rent_pos (alen (get W KRdJournal))); lia). assumption.
    - rewrite Fr2 by (try discriminate; pose proof (rent_pos (alen (get W KRdJournal))); lia). assumption.
    - subst d2 d1. unfold fd_dist, dp_d1. proj_simpl. rewrite Fc. unfold two32. repeat split; try assumption; lia. }
  destruct (pay_all_ok f e root pf L W2 0 c d2 tail2 j PP)
    as (W' & d' & tail' & j' & Hrun & Pend & Hd' & Hcnt & _ & Hlen' & Hbits & _ & Hjl & Hjt & _ & Hnow').
  destruct (pay_all_frame f e root pf L W2 0 c d2 tail2 j W' PP Hrun) as (Fr3 & (j'' & Hj'' & Ej'') & Hdl & Hda & _ & Haj).
  pose proof (pp_j_data _ _ _ _ _ _ _ _ _ _ Pend) as Hj'. rewrite Hj' in Hj''. injection Hj'' as <-.
  exists W', d', tail', j'. split; [exact Hrun|].
  split.
  { apply acct_ext; cbn [lamports owner alen data].
    - rewrite Hdl, Gd2. reflexivity.
    - exact (pp_dist_owner _ _ _ _ _ _ _ _ _ _ Pend).
    - rewrite Hda, Gd2. reflexivity.
    - exact (pp_dist_data _ _ _ _ _ _ _ _ _ _ Pend). }
  split; [exact Hd'|].
  split. { rewrite Hcnt. subst d2 d1. unfold fd_dist, dp_d1. proj_simpl. rewrite Fc, N.add_0_l. apply N.mod_small. unfold two32. lia. }
  split; [congruence|].
  split. { intros idx Hidx. rewrite Hd'. proj_simpl. apply Hbits. lia. }
  split.
  { intros k K1 K2 K3 K4 K5. rewrite Fr3 by (try assumption; rewrite Fr2 by assumption; assumption). apply Fr2; assumption. }
  split.
  { rewrite Fr3 by (try discriminate; rewrite Gp2; proj_simpl; cbn [lamports]; unfold dp_topup in *; pose proof (rent_pos 0); lia). exact Gp2. }
  split; [exact (pp_j_owner _ _ _ _ _ _ _ _ _ _ Pend)|]. split; [exact Hj'|]. split; [exact Ej''|].
  split; [rewrite Hjl, Fr2 by (try discriminate; pose proof (rent_pos (alen (get W KRdJournal))); lia); reflexivity|].
  split; [congruence|]. split; [|exact Hjt].
  rewrite Haj, Fr2 by (try discriminate; pose proof (rent_pos (alen (get W KRdJournal))); lia). reflexivity.
Qed.

(* ------------------------------------------------------------------------------------------------------------------ *)
(* ONE WHOLE EPOCH                                                                                                     *)
Lemma run_txs_app W a b : run_txs W (a ++ b) = let '(W1, ok) := run_txs W a in if ok then run_txs W1 b else (W1, false).
Proof.
  revert W. induction a as [|t tl IH]; intros W; cbn [app run_txs]; [reflexivity|].
  destruct (exec_tx W t) as [W1 ok]. destruct ok; [apply IH|reflexivity].
Qed.

(* the accounts of epoch e that the swap (a foreign program's transaction) must leave alone *)
Definition epoch_key (e p r : N) (Lr : list rleaf) (crof : key -> contrib) (k : key) : Prop :=
  k = KRdConfig \/ k = KRdDist e \/ k = KTok2z (KRdDist e) \/ k = KMint \/ k = KUser p \/ k = KUser r \/
  (exists svc us ebr, In (svc, us, ebr) Lr /\
     (k = KRdContrib svc \/ exists x, In x (cr_recipients (crof svc)) /\ k = KAta (fst x) KMint)).

(* what the swap between the two phases achieves (C05/C06 describe the real instruction pair): `debt` lamports of the
   journal's pool were bought for z 2Z, the fill sits at the head of the registry, the 2Z in the swap destination *)
Record swap_effect (W1 W1' : world) (e p r q : N) (Lr : list rleaf) (crof : key -> contrib) (debt z : N) (j1 j1' : journal)
  (rg rg' : ring) (sd : token_acct) : Prop := {
  se_now : now W1 <= now W1';
  se_frame : forall k, epoch_key e p r Lr crof k -> get W1' k = get W1 k;
  se_j_owner : owner (get W1' KRdJournal) = KRd;
  se_j_data : data (get W1' KRdJournal) = DJournal j1';
  se_j_lam : lamports (get W1' KRdJournal) <> 0;
  se_j_order : j_next_sweep j1' = j_next_sweep j1;
  se_swapped : debt <= j_swapped_sol j1';
  se_tracked : z <= j_swap_dest_balance j1';
  se_fills_owner : owner (get W1' (KUser q)) = KSwapMock;
  se_fills_data : data (get W1' (KUser q)) = DFills rg;
  se_fills_lam : lamports (get W1' (KUser q)) <> 0;
  se_head : dequeue rg debt = Some (rg', z);
  se_dest : as_token W1' (KTok2z KRdSwapAuth) = Ok sd /\ t_owner sd = KRdSwapAuth /\ t_mint sd = KMint /\ z <= t_amount sd /\
            lamports (get W1' (KTok2z KRdSwapAuth)) <> 0
}.

(* lamports the payer needs for finalize-rewards once finalize-debt has grown and funded the distribution *)
Definition ep_rewards_need (W : world) (e : N) (d : dist) (nv n : N) : N :=
  d_relay d * n + (rent (LEN_DIST + ceil8 nv + ceil8 n) - (lamports (get W (KRdDist e)) + dp_topup W e nv)).

Record epoch_plan (W : world) (a ra p r e : N) (Ld : list (key * N)) (rootd : hash) (pfd : N -> proof)
  (Lr : list rleaf) (rootr : hash) (pfr : N -> proof) (crof : key -> contrib) (z : N)
  (c : rd_config) (d : dist) (j : journal) (s0 : token_acct) (m : mint_acct) : Prop := {
  ep_debt : debt_plan W a p e Ld rootd pfd c d j;             (* <= 81 920 debt leaves, funded deposits, payer, journal .. *)
  ep_payer : rent 0 + dp_topup W e (N.of_nat (length Ld)) + ep_rewards_need W e d (N.of_nat (length Ld)) (N.of_nat (length Lr))
             <= lamports (get W (KUser p));
  ep_accountant : c_rewards_accountant c = KUser ra;
  ep_swap_cfg : c_swap_program c = KSwapMock /\ c_has_swap_auth_bump c = true;
  ep_epoch : d_epoch d = e;
  ep_unswept : d_swept d = false;
  ep_fresh : d_distributed_count d = 0 /\ d_distributed_2z d = 0 /\ d_burned_2z d = 0 /\ d_swept_2z d = 0;
  ep_ranges : d_relay d < two32 /\ d_cbr d <= US32_MAX /\ d_prepaid_2z d + z < two64;
  ep_leaves : Lr <> [] /\ N.of_nat (length Lr) <= 81920;
  ep_shares : sumN (map (fun l : rleaf => snd (fst l)) Lr) = US32_MAX;
  ep_min_epochs : c_min_epochs c <> 0 /\ sat_add two64 e (c_min_epochs c) <= c_next_epoch c;
  ep_proofs : forall n svc us ebr, nth_error Lr n = Some (svc, us, ebr) ->
     leaf_index (pfr (N.of_nat n)) = Some (N.of_nat n) /\
     root_from_leaf (pfr (N.of_nat n)) PRE_REWARD (LReward svc us ebr) = rootr /\ us <= US32_MAX /\ ebr <= US32_MAX;
  ep_contribs : forall svc us ebr, In (svc, us, ebr) Lr ->
     owner (get W (KRdContrib svc)) = KRd /\ data (get W (KRdContrib svc)) = DContrib (crof svc) /\
     lamports (get W (KRdContrib svc)) <> 0 /\ cr_service (crof svc) = svc /\ cr_recipients (crof svc) <> [] /\
     sumN (map snd (cr_recipients (crof svc))) <= US16_MAX;
  ep_custody : as_token W (KTok2z (KRdDist e)) = Ok s0 /\ t_owner s0 = KRdDist e /\ t_mint s0 = KMint /\
               t_amount s0 = d_prepaid_2z d /\ lamports (get W (KTok2z (KRdDist e))) <> 0;
  ep_mint : as_mint W KMint = Ok m /\ lamports (get W KMint) <> 0 /\ d_prepaid_2z d + z <= m_supply m;
  ep_atas : forall svc us ebr x, In (svc, us, ebr) Lr -> In x (cr_recipients (crof svc)) ->
     exists t, as_token W (KAta (fst x) KMint) = Ok t /\ t_mint t = KMint /\ t_amount t + (d_prepaid_2z d + z) < two64 /\
               lamports (get W (KAta (fst x) KMint)) <> 0;
  ep_relayer : rent (alen (get W (KUser r))) <= lamports (get W (KUser r));
  ep_order : j_next_sweep j = e
}.

Definition epoch_txs (a ra p f r e q : N) (Ld : list (key * N)) (rootd : hash) (pfd : N -> proof)
  (mid : list tx) (Lr : list rleaf) (rootr : hash) (pfr : N -> proof) (crof : key -> contrib) : list tx :=
  debt_phase_txs a p f e Ld rootd pfd ++ mid ++ rewards_phase_txs ra p f r e q Lr rootr pfr crof.

Lemma dp_fields d n total root x y :
  let d1 := fd_dist (dp_d1 d n total root) [] <| d_collected_sol := x |> <| d_payments_count := y |> in
  d_epoch d1 = d_epoch d /\ d_debt_final d1 = true /\ d_rewards_final d1 = d_rewards_final d /\ d_swept d1 = d_swept d /\
  d_distributed_count d1 = d_distributed_count d /\ d_distributed_2z d1 = d_distributed_2z d /\ d_burned_2z d1 = d_burned_2z d /\
  d_swept_2z d1 = d_swept_2z d /\ d_uncollectible d1 = d_uncollectible d /\ d_total_debt d1 = total /\ d_relay d1 = d_relay d /\
  d_cbr d1 = d_cbr d /\ d_prepaid_2z d1 = d_prepaid_2z d /\ d_calc_allowed_ts d1 = d_calc_allowed_ts d /\ d_debt_start d1 = 0 /\
  d_debt_root d1 = root /\ d_payments_count d1 = y.
Proof. cbv zeta. destruct d. repeat split; reflexivity. Qed.
Lemma rw_fields d1 n root tail z x y w :
  let dF := sw_dist2 (fr_dist (rp_d1 d1 n root) tail) z <| d_distributed_2z := x |> <| d_burned_2z := y |> <| d_distributed_count := w |> in
  d_debt_start dF = d_debt_start d1 /\ d_debt_final dF = d_debt_final d1 /\ d_debt_root dF = d_debt_root d1 /\
  d_payments_count dF = d_payments_count d1 /\ d_rewards_final dF = true /\ d_rewards_root dF = root /\ d_swept dF = true /\ d_swept_2z dF = z.
Proof. cbv zeta. destruct d1. repeat split; reflexivity. Qed.
Lemma lamports_set_lamports (a : acct) x : lamports (a <| lamports := x |>) = x. Proof. reflexivity. Qed.
Lemma owner_set_lamports (a : acct) x : owner (a <| lamports := x |>) = owner a. Proof. reflexivity. Qed.

Theorem honest_epoch_completes W a ra p f r e q Ld rootd pfd Lr rootr pfr crof z c d j s0 m (mid : list tx) rg rg' sd :
  epoch_plan W a ra p r e Ld rootd pfd Lr rootr pfr crof z c d j s0 m ->
  (* what happens between the two phases - the swap, possibly other epochs' transactions -, characterised by its effect on
     the world the debt phase leaves: the accounts of this epoch are left alone, the swap is in place *)
  (forall W1 j1, run_txs W (debt_phase_txs a p f e Ld rootd pfd) = (W1, true) -> data (get W1 KRdJournal) = DJournal j1 ->
     exists W1' j1', run_txs W1 mid = (W1', true) /\
                     swap_effect W1 W1' e p r q Lr crof (sumN (map snd Ld)) z j1 j1' rg rg' sd) ->
  exists W' dF tailF sF mF,
    run_txs W (epoch_txs a ra p f r e q Ld rootd pfd mid Lr rootr pfr crof) = (W', true) /\
    data (get W' (KRdDist e)) = DDist dF tailF /\
    (* every debt leaf is settled *)
    d_debt_final dF = true /\ d_debt_root dF = rootd /\ d_payments_count dF = N.of_nat (length Ld) /\
    (forall idx, idx < N.of_nat (length Ld) -> range_bit tailF (d_debt_start dF) idx = true) /\
    (* every reward leaf is distributed *)
    d_rewards_final dF = true /\ d_rewards_root dF = rootr /\ d_swept dF = true /\ d_swept_2z dF = z /\
    d_distributed_count dF = N.of_nat (length Lr) /\
    (forall idx, idx < N.of_nat (length Lr) -> range_bit tailF (d_rew_start dF) idx = true) /\
    (* all collected 2Z except sub-leaf-count dust was transferred or burned *)
    as_token W' (KTok2z (KRdDist e)) = Ok sF /\ t_amount sF < N.of_nat (length Lr) /\
    d_distributed_2z dF + d_burned_2z dF + t_amount sF = d_prepaid_2z d + z /\
    as_mint W' KMint = Ok mF /\ m_supply mF = m_supply m - d_burned_2z dF /\
    (* the relayer was paid once per reward leaf *)
    (r <> p -> lamports (get W' (KUser r)) = lamports (get W (KUser r)) + d_relay d * N.of_nat (length Lr)).
Proof.
  intros P Hswap. destruct P as [ep_debt0 ep_payer0 ep_accountant0 ep_swap_cfg0 ep_epoch0 ep_unswept0 ep_fresh0 ep_ranges0 ep_leaves0
    ep_shares0 ep_min_epochs0 ep_proofs0 ep_contribs0 ep_custody0 ep_mint0 ep_atas0 ep_relayer0 ep_order0].
  set (nv := N.of_nat (length Ld)) in *. set (n := N.of_nat (length Lr)) in *. set (total := sumN (map snd Ld)) in *.
  destruct (honest_debt_phase_frame W a p f e Ld rootd pfd c d j ep_debt0)
    as (W1 & d1 & tail1 & j1 & Hrun1 & Gd1 & Ed1 & Hcnt1 & Hlen1 & Hbits1 & Fr1 & Gp1 & Jo1 & Jd1 & Ej1 & Jl1 & Hn1 & _ & _).
  fold nv total in Gd1, Ed1, Hcnt1, Hlen1, Hbits1, Gp1, Jl1.
  destruct (Hswap W1 j1 Hrun1 Jd1) as (W1' & j1' & Xs & SE). destruct SE.
  destruct ep_debt0 as [dp_configure0 dp_fresh0 dp_total0 dp_count0 dp_dist_len0 dp_dist_rent0 dp_cfg_lam0 dp_payer0
    dp_proofs0 dp_deposits0 dp_j_owner0 dp_j_data0 dp_j_rent0 dp_j_range0].
  destruct dp_configure0 as [cd_cfg_owner0 cd_cfg_data0 cd_unpaused0 cd_accountant0 cd_dist_owner0 cd_dist_data0 cd_dist_lam0 cd_not_final0 cd_grace_over0].
  destruct dp_fresh0 as (Fu & Fc & Fs & Frf). destruct dp_total0 as (Tnz & Tlt). fold nv in dp_count0. fold total in Tnz, Tlt.
  destruct dp_payer0 as [Wo Wl Wfu]. destruct ep_fresh0 as (F1 & F2 & F3 & F4). destruct ep_ranges0 as (Rrel & Rcbr & Rtot).
  destruct ep_custody0 as (Cs & Co & Cm & Ca & Cl). destruct ep_mint0 as (Hm & Hml & Hms). destruct ep_swap_cfg0 as (Sc1 & Sc2).
  assert (ceil8 nv <= 10240) as Hc8 by (apply ceil8_81920; assumption).
  assert (lamports (get W (KUser r)) <> 0) as Hrl by (pose proof (rent_pos (alen (get W (KUser r)))); lia).
  (* the accounts of the epoch after debt phase and swap *)
  assert (forall k, epoch_key e p r Lr crof k -> k <> KRdDist e -> k <> KUser p -> lamports (get W k) <> 0 -> get W1' k = get W k) as FrE.
  { intros k Hk K1 K2 K3. rewrite se_frame0 by exact Hk. apply Fr1; try assumption.
    - destruct Hk as [->|[->|[->|[->|[->|[->|(s & u & b & _ & [->|(x & _ & ->)])]]]]]]; discriminate.
    - intros nd. destruct Hk as [->|[->|[->|[->|[->|[->|(s & u & b & _ & [->|(x & _ & ->)])]]]]]]; discriminate. }
  assert (get W1' (KRdDist e) = get W1 (KRdDist e)) as GdE by (apply se_frame0; unfold epoch_key; auto).
  assert (get W1' (KUser p) = get W (KUser p) <| lamports := lamports (get W (KUser p)) - dp_topup W e nv |>) as GpE
    by (rewrite se_frame0 by (unfold epoch_key; auto 6); exact Gp1).
  assert (get W1' KRdConfig = get W KRdConfig) as GcE by (apply FrE; [unfold epoch_key; auto|discriminate|discriminate|assumption]).
  assert (rent (alen (get W1' (KUser r))) <= lamports (get W1' (KUser r)) /\ (r <> p -> get W1' (KUser r) = get W (KUser r))) as (RelE & RelE').
  { destruct (N.eq_dec r p) as [->|Hne].
    - split; [|contradiction]. rewrite GpE. rewrite lamports_set_lamports, alen_set_lamports, Wl. unfold ep_rewards_need in ep_payer0. lia.
    - assert (get W1' (KUser r) = get W (KUser r)) as E by (apply FrE; [unfold epoch_key; auto 7|discriminate|congruence|assumption]).
      rewrite E. auto. }
  destruct (dp_fields d nv total rootd (d_collected_sol d1) (d_payments_count d1))
    as (D1 & D2 & D3 & D4 & D5 & D6 & D7 & D8 & D9 & D10 & D11 & D12 & D13 & D14 & D15 & D16 & _).
  cbv zeta in D1, D2, D3, D4, D5, D6, D7, D8, D9, D10, D11, D12, D13, D14, D15, D16.
  rewrite <- Ed1 in D1, D2, D3, D4, D5, D6, D7, D8, D9, D10, D11, D12, D13, D14, D15, D16.
  assert (d_total_debt d1 - d_uncollectible d1 = total) as Edebt by (rewrite D9, D10, Fu; apply N.sub_0_r).
  (* the rewards plan holds in the world after the swap *)
  assert (rewards_plan W1' ra p r e Lr rootr pfr crof z c d1 tail1 j1' s0 m) as RP.
  { constructor.
    - constructor; rewrite ?GcE, ?GdE, ?Gd1; cbn [owner data lamports]; try assumption; try reflexivity.
      + pose proof (rent_pos LEN_DIST). lia.
      + rewrite D3. assumption.
      + unfold calc_allowed in *. rewrite D14.
        apply andb_true_iff in cd_grace_over0 as (G1 & G2). rewrite G1. cbn [andb]. apply N.leb_le. apply N.leb_le in G2. lia.
    - rewrite D1. assumption.
    - exact D2.
    - rewrite D4. assumption.
    - rewrite D5, D6, D7, D8. auto.
    - rewrite D9, D10, Fu. lia.
    - rewrite D11, D12, D13. auto.
    - assumption.
    - assumption.
    - assumption.
    - rewrite GdE, Gd1. cbn [alen]. rewrite Hlen1. unfold LEN_DIST. lia.
    - rewrite GcE. assumption.
    - rewrite GdE, Gd1. cbn [alen lamports]. fold n.
      constructor; rewrite GpE; rewrite ?lamports_set_lamports, ?owner_set_lamports, ?alen_set_lamports; try assumption.
      rewrite D11. unfold ep_rewards_need in ep_payer0. lia.
    - assumption.
    - intros svc us ebr Hin. destruct (ep_contribs0 svc us ebr Hin) as (A1 & A2 & A3 & A4 & A5 & A6).
      rewrite FrE by (try discriminate; try assumption; unfold epoch_key; do 6 right; exists svc, us, ebr; auto). auto 7.
    - assert (get W1' (KTok2z (KRdDist e)) = get W (KTok2z (KRdDist e))) as E
        by (apply FrE; [unfold epoch_key; auto 6|discriminate|discriminate|assumption]).
      split; [apply as_token_ok; apply as_token_ok in Cs; rewrite E; assumption|]. rewrite E, D13.
      repeat split; assumption.
    - assert (get W1' KMint = get W KMint) as E by (apply FrE; [unfold epoch_key; auto 6|discriminate|discriminate|assumption]).
      split; [apply as_mint_ok; apply as_mint_ok in Hm; rewrite E; assumption|split; [rewrite E; assumption|rewrite D13; exact Hms]].
    - intros svc us ebr x Hin Hx. destruct (ep_atas0 svc us ebr x Hin Hx) as (t & A1 & A2 & A3 & A4).
      assert (get W1' (KAta (fst x) KMint) = get W (KAta (fst x) KMint)) as E.
      { apply FrE; try discriminate; try assumption. unfold epoch_key. do 6 right. exists svc, us, ebr. split; [assumption|]. right. eauto. }
      exists t. split; [apply as_token_ok; apply as_token_ok in A1; rewrite E; assumption|]. rewrite E, D13. auto.
    - assumption.
    - assumption.
    - assumption.
    - assumption.
    - rewrite se_j_order0, Ej1. cbn. assumption. }
  assert (swap_plan W1' e q c d1 j1' rg rg' z sd) as SP.
  { constructor; rewrite ?Edebt; assumption. }
  destruct (honest_rewards_phase_swap W1' ra p f r e q Lr rootr pfr crof z c d1 tail1 j1' s0 m rg rg' sd RP SP)
    as (W' & dF & tailF & sF & mF & Hrun2 & HdatF & HcntF & HbitsF & HsF & Hdust & Hbooks & HmF & Hsup & Hrel & _ & EdF & Hlow).
  exists W', dF, tailF, sF, mF. unfold epoch_txs. rewrite run_txs_app, Hrun1, run_txs_app, Xs.
  split; [exact Hrun2|]. split; [exact HdatF|].
  fold n in EdF.
  destruct (rw_fields d1 n rootr tail1 z (d_distributed_2z dF) (d_burned_2z dF) (d_distributed_count dF))
    as (Q1 & Q2 & Q3 & Q4 & Q5 & Q6 & Q7 & Q8).
  cbv zeta in Q1, Q2, Q3, Q4, Q5, Q6, Q7, Q8. rewrite <- EdF in Q1, Q2, Q3, Q4, Q5, Q6, Q7, Q8.
  split; [rewrite Q2; exact D2|]. split; [rewrite Q3; exact D16|]. split; [rewrite Q4; exact Hcnt1|].
  split.
  { intros idx Hidx. rewrite Q1, D15. unfold range_bit. rewrite N.add_0_l.
    rewrite Hlow by (rewrite Hlen1, N2Nat.id; pose proof (ceil8_covers nv); lia).
    specialize (Hbits1 idx Hidx). rewrite D15 in Hbits1. unfold range_bit in Hbits1. rewrite N.add_0_l in Hbits1. exact Hbits1. }
  split; [exact Q5|]. split; [exact Q6|]. split; [exact Q7|]. split; [exact Q8|]. split; [exact HcntF|].
  split; [exact HbitsF|]. split; [exact HsF|]. split; [exact Hdust|]. split; [rewrite Hbooks, D13; reflexivity|].
  split; [exact HmF|]. split; [exact Hsup|].
  intros Hne. rewrite (Hrel Hne), (RelE' Hne), D11. reflexivity.
Qed.

(* ------------------------------------------------------------------------------------------------------------------ *)
(* non-vacuity: epoch 5, two validators (300 + 500 lamports), a buyer swaps the 800 lamports for 5 000 2Z through the mock
   swap program (BuySol = TransferChecked + WithdrawSol CPI), two contributors (40 % / 60 % with 10 % economic burn)     *)
Definition ex13_j5 : journal := journal_default <| j_next_sweep := 5 |>.
Definition ex13_epoch_world : world :=
  put (put (put (put (put (put (put (put (put (put (put (put (put (put (ex13_world ex13_fresh [] 0)
    (KRdDeposit (KUser 11)) (ex13_deposit (KUser 11) 300))
    (KRdDeposit (KUser 12)) (ex13_deposit (KUser 12) 700))
    KRdJournal (ex_acct (rent LEN_CONFIG_ALLOC) LEN_CONFIG_ALLOC (DJournal ex13_j5)))
    (KRdContrib (KUser 21)) (ex_acct (rent LEN_CONTRIB) LEN_CONTRIB (DContrib ex13_contrib21)))
    (KRdContrib (KUser 22)) (ex_acct (rent LEN_CONTRIB) LEN_CONTRIB (DContrib ex_contrib)))
    (KTok2z (KRdDist 5)) (ex_tok (KRdDist 5) 0))
    KMint (ex_mint 1000000))
    (KAta (KUser 31) KMint) (ex_tok (KUser 31) 5))
    (KAta (KUser 32) KMint) (ex_tok (KUser 32) 0))
    (KUser 7) (ex_wallet 1000000))
    (KUser 9) {| lamports := rent LEN_FILLS; owner := KSwapMock; alen := LEN_FILLS; data := DFills ring_init |})
    (KTok2z KRdSwapAuth) (ex_tok KRdSwapAuth 0))
    (KUser 70) (ex_wallet 1000000))
    (KAta (KUser 70) KMint) (ex_tok (KUser 70) 6000).
Definition ex13_buy_tx : tx :=
  {| tx_signers := [KUser 70];
     tx_ixs := [{| i_prog := KSwapMock; i_data := IxSwap (SBuySol 5000 800);
                   i_metas := [mk (KUser 9) false true; mk (KAta (KUser 70) KMint) false true; mk KMint false false;
                               mk (KTok2z KRdSwapAuth) false true; mk (KUser 70) true false; mk KRdConfig false false;
                               mk (KWithdrawAuth KSwapMock) false false; mk KRdJournal false true; mk (KUser 70) false true;
                               mk KToken false false; mk KRd false false] |}] |}.
Definition ex13_epoch_txs : list tx :=
  epoch_txs 2 3 1 7 7 5 9 ex13_leaves (tree_root PRE_DEBT ex_debts) (proof_for PRE_DEBT ex_debts) [ex13_buy_tx]
            ex13_rleaves (tree_root PRE_REWARD ex_rewards) (proof_for PRE_REWARD ex_rewards) ex13_crof.
Definition ex13_W1 : world := fst (run_txs ex13_epoch_world (debt_phase_txs 2 1 7 5 ex13_leaves (tree_root PRE_DEBT ex_debts) (proof_for PRE_DEBT ex_debts))).
Definition ex13_W1' : world := fst (exec_tx ex13_W1 ex13_buy_tx).
Definition ex13_rg : ring := match buy ring_init {| sol_in := 800; z_out := 5000 |} with Some r => r | None => ring_init end.

Example honest_epoch_completes_nonvacuous :
  let s0 := {| t_mint := KMint; t_owner := KRdDist 5; t_amount := 0 |} in
  let m := {| m_supply := 1000000; m_decimals := 8 |} in
  let sd := {| t_mint := KMint; t_owner := KRdSwapAuth; t_amount := 5000 |} in
  let rg' := {| slots := slots ex13_rg; head := 1; count := 0 |} in
  epoch_plan ex13_epoch_world 2 3 1 7 5 ex13_leaves (tree_root PRE_DEBT ex_debts) (proof_for PRE_DEBT ex_debts)
             ex13_rleaves (tree_root PRE_REWARD ex_rewards) (proof_for PRE_REWARD ex_rewards) ex13_crof 5000
             ex13_cfg ex13_fresh ex13_j5 s0 m /\
  (forall W1 j1, run_txs ex13_epoch_world (debt_phase_txs 2 1 7 5 ex13_leaves (tree_root PRE_DEBT ex_debts) (proof_for PRE_DEBT ex_debts)) = (W1, true) ->
     data (get W1 KRdJournal) = DJournal j1 ->
     exists W1' j1', run_txs W1 [ex13_buy_tx] = (W1', true) /\
                     swap_effect W1 W1' 5 1 7 9 ex13_rleaves ex13_crof (sumN (map snd ex13_leaves)) 5000 j1 j1' ex13_rg rg' sd) /\
  let '(W', ok) := run_txs ex13_epoch_world ex13_epoch_txs in
  ok = true /\
  (exists dF, data (get W' (KRdDist 5)) = DDist dF [3; 3] /\ d_payments_count dF = 2 /\ d_collected_sol dF = 800 /\
              d_distributed_count dF = 2 /\ d_swept_2z dF = 5000 /\ d_distributed_2z dF + d_burned_2z dF = 5000) /\
  as_token W' (KTok2z (KRdDist 5)) = Ok {| t_mint := KMint; t_owner := KRdDist 5; t_amount := 0 |} /\
  lamports (get W' (KUser 7)) = 1012000 /\ lamports (get W' (KRdDeposit (KUser 12))) = rent LEN_DEPOSIT + 200 /\
  lamports (get W' KRdJournal) = rent LEN_CONFIG_ALLOC /\ lamports (get W' (KUser 70)) = 1000800.
Proof.
  cbv zeta. split; [|split].
  - constructor; plan_goals.
    constructor; try closed.
    + intros [|[|[|n]]] node amt H; cbn in H; try discriminate H; injection H as <- <-; vm_compute; split; reflexivity.
    + intros node amt H. unfold ex13_leaves in H. cbn [In] in H. destruct H as [H|[H|[]]]; injection H as <- <-; eexists; closed.
  - intros W1 j1 H1 Hj.
    assert (W1 = ex13_W1) as -> by (unfold ex13_W1; rewrite H1; reflexivity). clear H1.
    assert (j1 = ex13_j5 <| j_total_sol := 800 |>) as -> by (vm_compute in Hj; injection Hj as <-; reflexivity). clear Hj.
    exists ex13_W1', (ex13_j5 <| j_swapped_sol := 800 |> <| j_swap_dest_balance := 5000 |> <| j_lifetime_2z := 5000 |>).
    split; [vm_compute; reflexivity|].
    constructor; try closed.
    intros k Hk. unfold epoch_key in Hk.
    repeat (destruct Hk as [->|Hk]; [vm_compute; reflexivity|]).
    destruct Hk as (svc & us & ebr & Hin & Hk). unfold ex13_rleaves in Hin. cbn [In] in Hin.
    destruct Hin as [Hin|[Hin|[]]]; injection Hin as <- <- <-;
      (destruct Hk as [->|(x & Hx & ->)]; [vm_compute; reflexivity|]);
      vm_compute in Hx; repeat (destruct Hx as [<-|Hx]; [vm_compute; reflexivity|]); contradiction.
  - vm_compute. split; [reflexivity|]. split; [eexists; repeat split|repeat split].
Qed.
