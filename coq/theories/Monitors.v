(* Property monitors: the properties' own statements as executable checks over the implementation's observed trace
   (operation, accepted?, accounts left behind), independent of the model's transition functions.
   The view V is the last observed content of every account seen so far.  Executable definitions only. *)
From DZ Require Import Base Keys Merkle BurnRate Shares Swap_Ring State World SwapDeq RD Passport Swap Exec Corr.

(* a violation: step number, the account concerned, a clause number and a witness value *)
Definition viol := (N * key * N * N)%type.

Definition dist_of (a : acct) : option (dist * list N) :=
  match data a with DDist d t => if key_eqb (owner a) KRd then Some (d, t) else None | _ => None end.
Definition collectible (d : dist) : N := d_total_debt d - d_uncollectible d.

Section Mon.
Variable step_check : view -> obs -> list (key * N * N).    (* per-step clauses: (account, clause, witness) *)
Fixpoint mon_go (V : view) (tr : list obs) (i : N) : option viol :=
  match tr with
  | [] => None
  | ((o, ok, post) as ob) :: tl =>
      match step_check V ob with
      | (k, c, w) :: _ => Some (i, k, c, w)
      | [] => mon_go (vupd V post) tl (i + 1)
      end
  end.
End Mon.

(* the instruction a single-instruction transaction carries *)
Definition single_rd (o : op) : option (rd_ix * list meta) :=
  match o with
  | OTx t => match tx_ixs t with
             | [i] => match i_data i with IxRd r => if key_eqb (i_prog i) KRd then Some (r, i_metas i) else None | _ => None end
             | _ => None end
  | _ => None end.
Definition is_tx (o : op) : bool := match o with OTx _ => true | _ => false end.

(* ---- C11: from rewards finalization on, lamports >= rent(size) + fee x (contributors - distributed) ---- *)
Definition c11_account (k : key) (a : acct) : list (key * N * N) :=
  match dist_of a with
  | Some (d, _) =>
      if d_rewards_final d then
        let need := rent (alen a) + d_relay d * (d_total_contributors d - d_distributed_count d) in
        if need <=? lamports a then [] else [(k, 1, need - lamports a)]
      else []
  | None => [] end.
Definition c11_step (V : view) (ob : obs) : list (key * N * N) :=
  let '(o, ok, post) := ob in
  if negb (ok && is_tx o) then [] else
  flat_map (fun '(k, a) => c11_account k a) post ++
  match single_rd o with
  | Some (RFinalizeRewards, ms) =>
      (* clause 2: the payer is debited exactly fee x contributors plus the rent top-up of the grown account *)
      let dk := nthk ms 1 in let pk := nthk ms 2 in
      match dist_of (vget V dk), lookup dk post, lookup pk post with
      | Some (d0, t0), Some a1, Some p1 =>
          let p0 := vget V pk in
          let want := d_relay d0 * d_total_contributors d0 + (rent (alen a1) - lamports (vget V dk)) in
          if key_eqb pk dk then [] else
          if lamports p0 - lamports p1 =? want then [] else [(pk, 2, want)]
      | _, _, _ => [] end
  | Some (RDistributeRewards _ _ _, ms) =>
      (* clause 3: the relayer receives exactly the fee snapshotted at creation; the distribution pays it *)
      let dk := nthk ms 1 in let rk := nthk ms 5 in
      match dist_of (vget V dk), lookup dk post, lookup rk post with
      | Some (d0, _), Some a1, Some r1 =>
          if key_eqb rk dk then [] else
          (if lamports r1 - lamports (vget V rk) =? d_relay d0 then [] else [(rk, 3, d_relay d0)]) ++
          (if lamports (vget V dk) - lamports a1 =? d_relay d0 then [] else [(dk, 4, d_relay d0)])
      | _, _, _ => [] end
  | _ => [] end.
Definition mon_C11 (tr : list robs) : option viol := mon_go c11_step [] (expand [] tr) 0.

(* ---- C12: rewards finalization with the null root succeeds only when there is nothing to distribute ---- *)
Definition c12_step (V : view) (ob : obs) : list (key * N * N) :=
  let '(o, ok, post) := ob in
  if negb (ok && is_tx o) then [] else
  flat_map (fun '(k, a) =>
    match dist_of a, dist_of (vget V k) with
    | Some (d, _), Some (d0, _) =>
        if d_rewards_final d && negb (d_rewards_final d0) && hash_eqb (d_rewards_root d) null_hash then
          (if collectible d =? 0 then [] else [(k, 1, collectible d)]) ++
          (if d_prepaid_2z d =? 0 then [] else [(k, 2, d_prepaid_2z d)])
        else []
    | _, _ => [] end) post.
Definition mon_C12 (tr : list robs) : option viol := mon_go c12_step [] (expand [] tr) 0.
