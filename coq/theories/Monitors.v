(* Property monitors: the properties' own statements as executable checks over the implementation's observed trace
   (operation, accepted?, accounts left behind), independent of the model's processors.
   The view V is the last observed content of every account seen so far; a ghost state G records the history.
   Executable definitions only. *)
From DZ Require Import Base Keys Merkle BurnRate Shares Swap_Ring State World SwapDeq RD Passport Swap Exec Corr.

(* a violation: step number, the account concerned, a clause number and a witness value *)
Definition viol := (N * key * N * N)%type.
Definition clauses := list (key * N * N).
Definition chk (b : bool) (k : key) (clause w : N) : clauses := if b then [] else [(k, clause, w)].

Section Mon.
Context {G : Type}.
Variable step : G -> view -> obs -> G * clauses.
Fixpoint mon_go (g : G) (V : view) (tr : list obs) (i : N) : option viol :=
  match tr with
  | [] => None
  | ((o, ok, post) as ob) :: tl =>
      let '(g', cs) := step g V ob in
      match cs with
      | (k, c, w) :: _ => Some (i, k, c, w)
      | [] => mon_go g' (vupd V post) tl (i + 1)
      end
  end.
End Mon.
Definition mon_run {G} (step : G -> view -> obs -> G * clauses) (g0 : G) (tr : list robs) : option viol :=
  mon_go step g0 [] (expand [] tr) 0.
Definition stateless (f : view -> obs -> clauses) : unit -> view -> obs -> unit * clauses := fun _ V ob => (tt, f V ob).

(* ---- reading the trace ---- *)
Definition dist_of (a : acct) : option (dist * list N) :=
  match data a with DDist d t => if key_eqb (owner a) KRd then Some (d, t) else None | _ => None end.
Definition config_of (a : acct) : option rd_config :=
  match data a with DConfig c => if key_eqb (owner a) KRd then Some c else None | _ => None end.
Definition journal_of (a : acct) : option journal :=
  match data a with DJournal j => if key_eqb (owner a) KRd then Some j else None | _ => None end.
Definition deposit_of (a : acct) : option deposit :=
  match data a with DDeposit d => if key_eqb (owner a) KRd then Some d else None | _ => None end.
Definition contrib_of (a : acct) : option contrib :=
  match data a with DContrib c => if key_eqb (owner a) KRd then Some c else None | _ => None end.
Definition token_of (a : acct) : option token_acct :=
  match data a with DToken t => if key_eqb (owner a) KToken then Some t else None | _ => None end.
Definition tok_amount (a : acct) : N := match token_of a with Some t => t_amount t | None => 0 end.
Definition mint_supply (a : acct) : N := match data a with DMint m => m_supply m | _ => 0 end.
Definition ppconfig_of (a : acct) : option pp_config :=
  match data a with DPpConfig c => if key_eqb (owner a) KPassport then Some c else None | _ => None end.
Definition request_of (a : acct) : option access_request :=
  match data a with DAccessReq r => if key_eqb (owner a) KPassport then Some r else None | _ => None end.
Definition collectible (d : dist) : N := d_total_debt d - d_uncollectible d.

Definition is_tx (o : op) : bool := match o with OTx _ => true | _ => false end.
(* the single instruction of a transaction, unwrapping harness CPI wrappers; `via_cpi` tells whether it was wrapped *)
Fixpoint unwrap (d : ixdata) (ms : list meta) : ixdata * list meta * bool :=
  match d with
  | IxRogueCpi inner => let '(d', ms', _) := unwrap inner (tl ms) in (d', ms', true)
  | _ => (d, ms, false) end.
Definition single (o : op) : option (key * ixdata * list meta * bool * tx) :=
  match o with
  | OTx t => match tx_ixs t with
             | [i] => let '(d, ms, cpi) := unwrap (i_data i) (i_metas i) in
                      Some ((if cpi then nthk (i_metas i) 0 else i_prog i), d, ms, cpi, t)
             | _ => None end
  | _ => None end.
Definition single_rd (o : op) : option (rd_ix * list meta * tx) :=
  match single o with Some (KRd, IxRd r, ms, _, t) => Some (r, ms, t) | _ => None end.
Definition single_pp (o : op) : option (pp_ix * list meta * bool * tx) :=
  match single o with Some (KPassport, IxPassport r, ms, cpi, t) => Some (r, ms, cpi, t) | _ => None end.
Definition post_of (V : view) (post : list (key * acct)) (k : key) : acct :=
  match lookup k post with Some a => a | None => vget V k end.
Definition changed (V : view) (post : list (key * acct)) : list key :=
  map fst (filter (fun '(k, a) => negb (acct_eqb (vget V k) a)) post).
Definition signed (t : tx) (k : key) : bool := msg_signer t k.

(* bits of a bitmap range of the distribution's remaining data *)
Definition range_bytes (tail : list N) (s e : N) : list N := firstn (N.to_nat (e - s)) (skipn (N.to_nat s) tail).
Definition bit_of (tail : list N) (s e idx : N) : bool :=
  (idx / 8 <? e - s) && N.testbit (nth (N.to_nat (s + idx / 8)) tail 0) (idx mod 8).
Fixpoint popcount8 (fuel : nat) (b : N) : N := match fuel with O => 0 | S f => (b mod 2) + popcount8 f (b / 2) end.
Definition popcount (l : list N) : N := sumN (map (popcount8 8) l).
Definition subset_bits (a b : list N) : bool :=        (* every bit of a is set in b, byte-wise *)
  forallb (fun '(x, y) => N.land x y =? x) (combine a b).
Definition ranges_disjoint (s1 e1 s2 e2 : N) : bool := (e1 <=? s1) || (e2 <=? s2) || (e1 <=? s2) || (e2 <=? s1).

(* accounts the harness leaves out of every observation (sim.rs, op_keys) *)
Definition is_program_key (k : key) : bool :=
  match k with KSystem | KToken | KAtaProg | KLoader | KRd | KPassport | KSwapMock | KRogue _ => true | _ => false end.

(* ================= C11 ================= *)
Definition c11_account (k : key) (a : acct) : clauses :=
  match dist_of a with
  | Some (d, _) =>
      if d_rewards_final d then
        let need := rent (alen a) + d_relay d * (d_total_contributors d - d_distributed_count d) in
        chk (need <=? lamports a) k 1 (need - lamports a)
      else []
  | None => [] end.
Definition c11_step (V : view) (ob : obs) : clauses :=
  let '(o, ok, post) := ob in
  if negb (ok && is_tx o) then [] else
  flat_map (fun '(k, a) => c11_account k a) post ++
  match single_rd o with
  | Some (RFinalizeRewards, ms, _) =>
      let dk := nthk ms 1 in let pk := nthk ms 2 in
      match dist_of (vget V dk) with
      | Some (d0, t0) =>
          let a1 := post_of V post dk in
          let want := d_relay d0 * d_total_contributors d0 + (rent (alen a1) - lamports (vget V dk)) in
          if key_eqb pk dk then [] else
          chk (lamports (vget V pk) - lamports (post_of V post pk) =? want) pk 2 want
      | None => [] end
  | Some (RDistributeRewards _ _ _, ms, _) =>
      let dk := nthk ms 1 in let rk := nthk ms 5 in
      match dist_of (vget V dk) with
      | Some (d0, _) =>
          if key_eqb rk dk then [] else
          (* the harness does not observe program accounts (the model has none): a program id named as relayer is paid,
             but its balance is not in the trace; the debit of the distribution (clause 4) is still checked *)
          (if is_program_key rk then [] else
           chk (lamports (post_of V post rk) - lamports (vget V rk) =? d_relay d0) rk 3 (d_relay d0)) ++
          chk (lamports (vget V dk) - lamports (post_of V post dk) =? d_relay d0) dk 4 (d_relay d0) ++
          (* in total never more than fee x contributors: one payout per counted leaf, never more leaves than declared *)
          match dist_of (post_of V post dk) with
          | Some (d1, _) => chk ((d_distributed_count d1 =? d_distributed_count d0 + 1) && (d_distributed_count d1 <=? d_total_contributors d1)) dk 5 (d_distributed_count d1)
          | None => [] end
      | None => [] end
  | _ => [] end.
Definition mon_C11 := mon_run (stateless c11_step) tt.

(* ================= C12 ================= *)
(* ghost: the amounts written off into each distribution, summed by the monitor itself from the accepted WriteOff instructions
   (independent of the uncollectible figure the account records) *)
Definition written_into (g : list (key * N)) (k : key) : N := sumN (map (fun '(k', a) => if key_eqb k' k then a else 0) g).
Definition c12_step (g : list (key * N)) (V : view) (ob : obs) : list (key * N) * clauses :=
  let '(o, ok, post) := ob in
  if negb (ok && is_tx o) then (g, []) else
  let g' := match single_rd o with Some (RWriteOff amount _, ms, _) => (nthk ms 4, amount) :: g | _ => g end in
  (g',
  match single_rd o with
  | Some (RFinalizeRewards, ms, _) =>
      match dist_of (post_of V post (nthk ms 1)) with
      | Some (d, _) => if hash_eqb (d_rewards_root d) null_hash
                       then chk (d_total_debt d - written_into g (nthk ms 1) =? 0) (nthk ms 1) 4 (d_total_debt d - written_into g (nthk ms 1)) ++
                            (* nothing collectible means nothing was collected either: a paid leaf cannot also have been written off *)
                            chk (d_collected_sol d =? 0) (nthk ms 1) 5 (d_collected_sol d)
                       else []
      | None => [] end
  | _ => [] end ++
  flat_map (fun '(k, a) =>
    match dist_of a, dist_of (vget V k) with
    | Some (d, _), Some (d0, _) =>
        (if d_rewards_final d && negb (d_rewards_final d0) && hash_eqb (d_rewards_root d) null_hash then
          chk (collectible d =? 0) k 1 (collectible d) ++ chk (d_prepaid_2z d =? 0) k 2 (d_prepaid_2z d)
        else []) ++
        (* the consequence, in every state (the invariant C12_no_locked_reachable on the implementation's trace): a rewards-final
           distribution whose root is null holds nothing to share, whichever instruction wrote the root *)
        (if d_rewards_final d && hash_eqb (d_rewards_root d) null_hash then
          chk ((collectible d =? 0) && (d_prepaid_2z d =? 0) && (d_swept_2z d =? 0)) k 3 (collectible d + d_prepaid_2z d + d_swept_2z d)
        else [])
    | _, _ => [] end) post).
Definition mon_C12 := mon_run c12_step [].

(* ================= C01 ================= *)
(* ghost: settled leaves (distribution, index, paid?, amount) *)
Definition g01 := list (key * N * bool * N).
Definition settled (g : g01) (dk : key) (idx : N) : bool := existsb (fun '(k, i, _, _) => key_eqb k dk && (i =? idx)) g.
Definition paid_sum (g : g01) (dk : key) : N := sumN (map (fun '(k, _, p, a) => if key_eqb k dk && p then a else 0) g).
Definition count_of (g : g01) (dk : key) (paid : bool) : N :=
  sumN (map (fun '(k, _, p, _) => if key_eqb k dk && Bool.eqb p paid then 1 else 0) g).
Definition c01_dist_consistent (g : g01) (k : key) (a : acct) : clauses :=
  match dist_of a with
  | Some (d, t) =>
      let db := range_bytes t (d_debt_start d) (d_debt_end d) in
      let wb := range_bytes t (d_wo_start d) (d_wo_end d) in
      chk (popcount db =? d_payments_count d + d_writeoff_count d) k 10 (popcount db) ++
      chk (popcount wb =? d_writeoff_count d) k 11 (popcount wb) ++
      chk (subset_bits wb db || (d_debt_end d <=? d_debt_start d)) k 12 0 ++
      chk (ranges_disjoint (d_debt_start d) (d_debt_end d) (d_rew_start d) (d_rew_end d) &&
           ranges_disjoint (d_debt_start d) (d_debt_end d) (d_wo_start d) (d_wo_end d) &&
           ranges_disjoint (d_rew_start d) (d_rew_end d) (d_wo_start d) (d_wo_end d)) k 13 0 ++
      chk (d_debt_end d <=? N.of_nat (length t)) k 14 0 ++
      chk (d_payments_count d =? count_of g k true) k 15 (count_of g k true) ++
      chk (d_writeoff_count d =? count_of g k false) k 16 (count_of g k false) ++
      chk (d_collected_sol d =? paid_sum g k) k 17 (paid_sum g k)
  | None => [] end.
Definition c01_step (g : g01) (V : view) (ob : obs) : g01 * clauses :=
  let '(o, ok, post) := ob in
  if negb (ok && is_tx o) then (g, []) else
  (* SOL leaves a deposit only through a successful payment naming it *)
  let leak := flat_map (fun '(k, a) =>
      match deposit_of (vget V k) with
      | Some _ => if lamports a <? lamports (vget V k) then
                    match single_rd o with
                    | Some (RPayDebt _ _, ms, _) => chk (key_eqb (nthk ms 2) k) k 1 0
                    | _ => [(k, 1, lamports (vget V k) - lamports a)] end
                  else []
      | None => [] end) post ++
    (* "the distribution's finalized debt root": once debt is final, root, count and total never change again *)
    flat_map (fun '(k, a) =>
      match dist_of (vget V k), dist_of a with
      | Some (d0, _), Some (d1, _) =>
          if d_debt_final d0 then
            chk ((d_total_validators d0 =? d_total_validators d1) && (d_total_debt d0 =? d_total_debt d1) &&
                 hash_eqb (d_debt_root d0) (d_debt_root d1) && d_debt_final d1) k 30 0
          else []
      | _, _ => [] end) post in
  let '(g', cs) :=
    match single_rd o with
    | Some (RPayDebt amount p, ms, _) =>
        let dk := nthk ms 1 in let pk := nthk ms 2 in let jk := nthk ms 3 in
        match dist_of (vget V dk), deposit_of (vget V pk), leaf_index p with
        | Some (d0, t0), Some dp, Some idx =>
            let a1 := post_of V post pk in
            (g ++ [(dk, idx, true, amount)],
             chk (negb (settled g dk idx)) dk 2 idx ++
             chk (d_debt_final d0) dk 3 0 ++
             chk (hash_eqb (root_from_leaf p PRE_DEBT (LDebt (dp_node dp) amount)) (d_debt_root d0)) dk 4 idx ++
             chk (lamports (vget V pk) - lamports a1 =? amount) pk 5 amount ++
             chk ((lamports (post_of V post jk) - lamports (vget V jk) =? amount) || key_eqb jk pk) jk 6 amount ++
             (* "to the journal": the credited account is the program's journal *)
             chk (key_eqb jk KRdJournal && match journal_of (vget V jk) with Some _ => true | None => false end) jk 31 0 ++
             chk (rent (alen a1) <=? lamports a1) pk 7 (lamports a1) ++
             match dist_of (post_of V post dk) with
             | Some (d1, t1) => chk (bit_of t1 (d_debt_start d1) (d_debt_end d1) idx) dk 8 idx
             | None => [(dk, 8, idx)] end)
        | _, _, _ => (g, [(dk, 9, 0)]) end
    | Some (RWriteOff amount p, ms, _) =>
        let dk := nthk ms 2 in
        match leaf_index p with
        | Some idx => (g ++ [(dk, idx, false, amount)], chk (negb (settled g dk idx)) dk 2 idx)
        | None => (g, [(dk, 9, 1)]) end
    | _ => (g, []) end in
  (g', leak ++ cs ++ flat_map (fun '(k, a) => c01_dist_consistent g' k a) post).
Definition mon_C01 := mon_run c01_step [].

(* ================= C02 / C03: reward distribution ================= *)
(* ghost: distributed leaves (distribution, index) *)
Definition g02 := list (key * N).
Definition distributed (g : g02) (dk : key) (idx : N) : bool := existsb (fun '(k, i) => key_eqb k dk && (i =? idx)) g.
(* expected per-ATA credit: the sum over the recipient entries that name this ATA *)
Definition expected_credit (recips : list (key * N)) (remainder : N) (ata : key) : N :=
  sumN (map (fun '(r, s) => if key_eqb (KAta r KMint) ata then s * remainder / 10000 else 0) recips).
Definition SWEPT_MARK : N := 18446744073709551616.     (* 2^64: not a leaf index *)
Definition c02_step (g : g02) (V : view) (ob : obs) : g02 * clauses :=
  let '(o, ok, post) := ob in
  if negb (ok && is_tx o) then (g, []) else
  (* 2Z leaves a distribution's custody account only through a reward distribution of that distribution *)
  let leak := flat_map (fun '(k, a) =>
      match k with
      | KTok2z (KRdDist e) =>
          if tok_amount a <? tok_amount (vget V k) then
            match single_rd o with
            | Some (RDistributeRewards _ _ _, ms, _) => chk (key_eqb (nthk ms 1) (KRdDist e)) k 1 e
            | _ => [(k, 1, tok_amount (vget V k) - tok_amount a)] end
          else []
      | _ => [] end) post in
  let '(g', cs) :=
    match single_rd o with
    | Some (RSweep, ms, _) => (g ++ [(nthk ms 1, SWEPT_MARK)], [])      (* remember, in the ghost, that this distribution was swept *)
    | Some (RDistributeRewards us ebr p, ms, _) =>
        let dk := nthk ms 1 in let ck := nthk ms 2 in let tk := nthk ms 3 in
        match dist_of (vget V dk), contrib_of (vget V ck), leaf_index p, dist_of (post_of V post dk) with
        | Some (d0, t0), Some cr, Some idx, Some (d1, t1) =>
            let total := d_prepaid_2z d0 + d_swept_2z d0 in
            let share := us * total / 1000000000 in
            let rate := N.max ebr (d_cbr d0) in
            let burn_floor := rate * share / 1000000000 in
            let remainder := share - burn_floor in
            let recips := cr_recipients cr in
            let atas := dedup_keys (map (fun '(r, _) => KAta r KMint) recips) in
            let credited := sumN (map (fun a => tok_amount (post_of V post a) - tok_amount (vget V a)) atas) in
            let burned := mint_supply (vget V KMint) - mint_supply (post_of V post KMint) in
            (g ++ [(dk, idx)],
             chk (negb (distributed g dk idx)) dk 2 idx ++
             chk (negb (bit_of t0 (d_rew_start d0) (d_rew_end d0) idx)) dk 3 idx ++
             chk (bit_of t1 (d_rew_start d1) (d_rew_end d1) idx) dk 4 idx ++
             chk (d_swept d0) dk 5 0 ++
             (* ... and swept by an accepted sweep of this very distribution earlier in the history, whatever the flag says *)
             chk (distributed g dk SWEPT_MARK) dk 14 0 ++
             chk (hash_eqb (root_from_leaf p PRE_REWARD (LReward (cr_service cr) us ebr)) (d_rewards_root d0)) dk 6 idx ++
             chk (key_eqb tk (KTok2z dk)) tk 7 0 ++
             (* exactly floor(unit_share x total / 10^9) leaves custody; all of it is transferred or burned *)
             chk (tok_amount (vget V tk) - tok_amount (post_of V post tk) =? share) tk 8 share ++
             chk (credited + burned =? share) dk 9 (credited + burned) ++
             chk (d_distributed_2z d1 =? d_distributed_2z d0 + credited) dk 10 credited ++
             chk (d_burned_2z d1 =? d_burned_2z d0 + burned) dk 11 burned ++
             chk (d_distributed_count d1 =? d_distributed_count d0 + 1) dk 12 0 ++
             (* C03: burn floor, exact recipient amounts into the canonical ATAs, at least one recipient *)
             chk (burn_floor <=? burned) dk 20 burn_floor ++
             chk (negb (Nat.eqb (length recips) 0)) ck 21 0 ++
             flat_map (fun a => chk (tok_amount (post_of V post a) - tok_amount (vget V a) =? expected_credit recips remainder a) a 22
                                    (expected_credit recips remainder a)) atas ++
             flat_map (fun '(i, (r, _)) => chk (key_eqb (nthk ms (7 + i)) (KAta r KMint)) (nthk ms (7 + i)) 23 0)
                      (combine (seq 0 (length recips)) recips) ++
             (* nobody else receives tokens: every other observed token account did not gain *)
             flat_map (fun '(k, a) => if existsb (key_eqb k) atas then [] else
                                     chk (tok_amount a <=? tok_amount (vget V k)) k 24 (tok_amount a)) post)
        | _, _, _, _ => (g, [(dk, 19, 0)]) end
    | _ => (g, []) end in
  (* "once-per-leaf" is relative to ONE tree: once rewards are final, root and contributor count never change again *)
  let frozen := flat_map (fun '(k, a) =>
      match dist_of (vget V k), dist_of a with
      | Some (d0, _), Some (d1, _) =>
          if d_rewards_final d0 then
            chk ((d_total_contributors d0 =? d_total_contributors d1) && hash_eqb (d_rewards_root d0) (d_rewards_root d1) && d_rewards_final d1) k 15 0
          else []
      | _, _ => [] end) post in
  (* cumulative outflow never exceeds what was collected (trees with total share <= 100%) *)
  let cap := flat_map (fun '(k, a) => match dist_of a with
      | Some (d, _) => if d_swept d then chk (d_distributed_2z d + d_burned_2z d <=? d_prepaid_2z d + d_swept_2z d) k 13 (d_distributed_2z d + d_burned_2z d) else []
      | None => [] end) post in
  (g', leak ++ cs ++ frozen ++ cap).
Definition mon_C02 := mon_run c02_step [].
(* clauses 20-24 belong to C03; the driver attributes by clause number (mon_C03 is mon_C02 filtered) *)

(* ================= C04: lifecycle forward only; finalized figures immutable; gates ================= *)
(* ghost: the clock (OSetClock) and, per distribution seen being created, the end of its calculation grace period as the monitor
   computes it itself (creation clock + the configured grace at that moment), independently of what the account stores *)
Definition tx_mentions_rd (o : op) (p : rd_ix -> bool) : bool :=
  match o with
  | OTx t => existsb (fun i => match unwrap (i_data i) (i_metas i) with (IxRd r, _, _) => p r | _ => false end) (tx_ixs t)
  | _ => false end.
Definition rises (b0 b1 : bool) : bool := negb b0 && b1.
Definition grace_ok (born : list (key * N)) (k : key) (clk : N) : bool :=
  match lookup k born with Some t => t <=? clk | None => true end.
Definition c04_step (g : N * list (key * N)) (V : view) (ob : obs) : (N * list (key * N)) * clauses :=
  let '(clk, born) := g in
  let '(o, ok, post) := ob in
  let clk' := match o with OSetClock t => t | _ => clk end in
  if negb (ok && is_tx o) then ((clk', born), []) else
  let born' := match single_rd o with
               | Some (RInitializeDistribution, ms, _) =>
                   match config_of (vget V (nthk ms 0)) with
                   | Some c => (nthk ms 3, clk + c_calc_grace_min c * 60) :: born
                   | None => born end
               | _ => born end in
  let mono := flat_map (fun '(k, a) =>
    match dist_of (vget V k), dist_of a with
    | Some (d0, _), Some (d1, _) =>
        (* a stage is entered only by its own instruction *)
        chk (implb (rises (d_debt_final d0) (d_debt_final d1)) (tx_mentions_rd o (fun r => match r with RFinalizeDebt => true | _ => false end))) k 21 0 ++
        chk (implb (rises (d_rewards_final d0) (d_rewards_final d1)) (tx_mentions_rd o (fun r => match r with RFinalizeRewards => true | _ => false end))) k 22 0 ++
        chk (implb (rises (d_swept d0) (d_swept d1)) (tx_mentions_rd o (fun r => match r with RSweep => true | _ => false end))) k 23 0 ++
        chk (implb (rises (d_writeoff_enabled d0) (d_writeoff_enabled d1)) (tx_mentions_rd o (fun r => match r with REnableWriteOff => true | _ => false end))) k 24 0 ++
        chk (implb (d_debt_final d0) (d_debt_final d1)) k 1 0 ++
        chk (implb (d_rewards_final d0) (d_rewards_final d1)) k 2 0 ++
        chk (implb (d_swept d0) (d_swept d1)) k 3 0 ++
        chk (implb (d_writeoff_enabled d0) (d_writeoff_enabled d1)) k 4 0 ++
        chk (d_distributed_count d0 <=? d_distributed_count d1) k 5 0 ++
        (if d_debt_final d0 then
           chk ((d_total_validators d0 =? d_total_validators d1) && (d_total_debt d0 =? d_total_debt d1) &&
                hash_eqb (d_debt_root d0) (d_debt_root d1)) k 6 0 else []) ++
        (if d_rewards_final d0 then
           chk ((d_total_contributors d0 =? d_total_contributors d1) && hash_eqb (d_rewards_root d0) (d_rewards_root d1)) k 7 0 else [])
    | _, _ => [] end) post in
  let gates :=
    match single_rd o with
    | Some (ix, ms, _) =>
        let dist_at_pos (i : nat) := dist_of (vget V (nthk ms i)) in
        let cfg := config_of (vget V (nthk ms 0)) in
        match ix with
        | RPayDebt _ _ => match dist_at_pos 1%nat with Some (d, _) => chk (d_debt_final d) (nthk ms 1) 10 0 | None => [] end
        | REnableWriteOff => match dist_at_pos 1%nat with Some (d, _) => chk (d_debt_final d && negb (d_writeoff_enabled d)) (nthk ms 1) 11 0 | None => [] end
        | RFinalizeRewards =>
            match dist_at_pos 1%nat, cfg with
            | Some (d, _), Some c =>
                chk (d_debt_final d && negb (d_rewards_final d)) (nthk ms 1) 12 0 ++
                chk (negb (c_min_epochs c =? 0) && (d_epoch d + c_min_epochs c <=? c_next_epoch c)) (nthk ms 1) 13 (d_epoch d) ++
                chk (negb (d_calc_allowed_ts d =? 0) && (d_calc_allowed_ts d <=? clk)) (nthk ms 1) 14 clk ++
                chk (grace_ok born (nthk ms 1) clk) (nthk ms 1) 25 clk
            | _, _ => [] end
        | RSweep => match dist_at_pos 1%nat with Some (d, _) => chk (d_rewards_final d && negb (d_swept d)) (nthk ms 1) 15 0 | None => [] end
        | RDistributeRewards _ _ _ => match dist_at_pos 1%nat with Some (d, _) => chk (d_swept d) (nthk ms 1) 16 0 | None => [] end
        | RConfigureDebt _ _ _ | RFinalizeDebt =>
            match dist_at_pos 2%nat with Some (d, _) =>
              chk (negb (d_debt_final d)) (nthk ms 2) 17 0 ++
              chk (negb (d_calc_allowed_ts d =? 0) && (d_calc_allowed_ts d <=? clk)) (nthk ms 2) 18 clk ++
              chk (grace_ok born (nthk ms 2) clk) (nthk ms 2) 25 clk | None => [] end
        | RConfigureRewards _ _ =>
            match dist_at_pos 2%nat with Some (d, _) =>
              chk (negb (d_rewards_final d)) (nthk ms 2) 19 0 ++
              chk (negb (d_calc_allowed_ts d =? 0) && (d_calc_allowed_ts d <=? clk)) (nthk ms 2) 18 clk ++
              chk (grace_ok born (nthk ms 2) clk) (nthk ms 2) 25 clk | None => [] end
        | RWriteOff _ _ => match dist_at_pos 2%nat with Some (d, _) => chk (d_debt_final d && d_writeoff_enabled d) (nthk ms 2) 20 0 | None => [] end
        | _ => [] end
    | None => [] end in
  ((clk', born'), mono ++ gates).
Definition mon_C04 := mon_run c04_step (0, []).

(* ================= C15: consecutive, paced creation; immutable snapshots ================= *)
Definition c15_step (clk : N) (V : view) (ob : obs) : N * clauses :=
  let '(o, ok, post) := ob in
  let clk' := match o with OSetClock t => t | _ => clk end in
  if negb (ok && is_tx o) then (clk', []) else
  let snap := flat_map (fun '(k, a) =>
    match dist_of (vget V k), dist_of a with
    | Some (d0, _), Some (d1, _) =>
        chk ((d_epoch d0 =? d_epoch d1) && fee_eqb (d_fees d0) (d_fees d1) && (d_relay d0 =? d_relay d1) &&
             (d_cbr d0 =? d_cbr d1) && (d_calc_allowed_ts d0 =? d_calc_allowed_ts d1)) k 1 (d_epoch d0)
    | _, _ => [] end) post in
  let create :=
    match single_rd o with
    | Some (RInitializeDistribution, ms, t) =>
        let ck := nthk ms 0 in let acc := nthk ms 1 in let dk := nthk ms 3 in let tk := nthk ms 4 in
        let jk := nthk ms 7 in let ata := nthk ms 9 in
        match config_of (vget V ck), config_of (post_of V post ck), dist_of (post_of V post dk) with
        | Some c0, Some c1, Some (d1, t1) =>
            let e := c_next_epoch c0 in
            let waiting := match token_of (vget V ata) with Some tt_ => t_amount tt_ | None => 0 end in
            chk (key_eqb acc (c_debt_accountant c0) && signed t acc) acc 2 0 ++
            chk (negb (c_paused c0)) ck 3 0 ++
            chk (key_eqb dk (KRdDist e) && (d_epoch d1 =? e)) dk 4 e ++
            chk (c_next_epoch c1 =? e + 1) ck 5 e ++
            chk (match dist_of (vget V dk) with None => true | Some _ => false end) dk 6 e ++
            chk (negb (c_init_grace_min c0 =? 0) && (c_last_init_ts c0 + c_init_grace_min c0 * 60 <=? clk)) ck 7 clk ++
            chk (c_last_init_ts c1 =? clk) ck 8 clk ++
            chk (negb (c_calc_grace_min c0 =? 0) && negb (fee_eqb (c_fees c0) fee_default) && negb (c_relay c0 =? 0) &&
                 negb (next (c_burn c0) =? 0)) ck 9 0 ++
            chk (fee_eqb (d_fees d1) (c_fees c0) && (d_relay d1 =? c_relay c0) && (d_cbr d1 =? next (c_burn c0)) &&
                 (d_calc_allowed_ts d1 =? clk + c_calc_grace_min c0 * 60)) dk 10 e ++
            chk (key_eqb ata (KAta jk KMint) && key_eqb tk (KTok2z dk)) ata 11 0 ++
            chk ((d_prepaid_2z d1 =? waiting) && (tok_amount (post_of V post tk) =? waiting) &&
                 ((waiting =? 0) || (tok_amount (post_of V post ata) =? 0))) dk 12 waiting
        | _, _, _ => [(dk, 13, 0)] end
    | Some (RConfigureProgram (RSBurnRate l ti tl ini), ms, _) =>
        (* "the community burn rate ... in force at that moment": an accepted change of the schedule is in force afterwards *)
        match config_of (post_of V post (nthk ms 0)) with
        | Some c1 => chk ((limit (c_burn c1) =? l) && (to_inc (c_burn c1) =? ti) && (to_lim (c_burn c1) =? tl) &&
                          match ini with Some r => next (c_burn c1) =? r | None => true end) (nthk ms 0) 14 l
        | None => [] end
    | _ => [] end in
  (clk', snap ++ create).
Definition mon_C15 := mon_run c15_step 0.

(* ================= C10: write-offs ================= *)
Definition c10_step (V : view) (ob : obs) : clauses :=
  let '(o, ok, post) := ob in
  if negb (ok && is_tx o) then [] else
  flat_map (fun '(k, a) => match dist_of a with Some (d, _) => chk (d_uncollectible d <=? d_total_debt d) k 1 (d_uncollectible d) | None => [] end) post ++
  match single_rd o with
  | Some (RWriteOff amount p, ms, t) =>
      let ck := nthk ms 0 in let acc := nthk ms 1 in let dk := nthk ms 2 in let pk := nthk ms 3 in let tk := nthk ms 4 in
      match config_of (vget V ck), dist_of (vget V dk), deposit_of (vget V pk), dist_of (vget V tk), leaf_index p with
      | Some c, Some (d0, t0), Some dp, Some (tg0, _), Some idx =>
          let dep := vget V pk in
          chk (key_eqb acc (c_debt_accountant c) && signed t acc) acc 2 0 ++
          chk (d_writeoff_enabled d0 && d_debt_final d0) dk 3 0 ++
          chk (negb (bit_of t0 (d_debt_start d0) (d_debt_end d0) idx) && negb (bit_of t0 (d_wo_start d0) (d_wo_end d0) idx)) dk 4 idx ++
          chk (hash_eqb (root_from_leaf p PRE_DEBT (LDebt (dp_node dp) amount)) (d_debt_root d0)) dk 5 idx ++
          chk (lamports dep - rent (alen dep) <? amount) pk 6 (lamports dep) ++
          chk (d_epoch d0 <=? d_epoch tg0) tk 7 (d_epoch tg0) ++
          chk (d_debt_final tg0 && negb (d_swept tg0)) tk 8 0 ++
          match dist_of (post_of V post tk), deposit_of (post_of V post pk) with
          | Some (tg1, _), Some dp1 =>
              chk (d_uncollectible tg1 =? d_uncollectible tg0 + amount) tk 9 amount ++
              chk (dp_written_off dp1 =? dp_written_off dp + amount) pk 10 amount
          | _, _ => [(tk, 11, 0)] end ++
          (* the leaf is marked in BOTH bitmaps of the debt's own distribution; when the debt is absorbed by a later epoch, that
             epoch's bitmaps are not touched *)
          match dist_of (post_of V post dk) with
          | Some (d1, t1) => chk (bit_of t1 (d_debt_start d1) (d_debt_end d1) idx && bit_of t1 (d_wo_start d1) (d_wo_end d1) idx) dk 16 idx
          | None => [(dk, 16, idx)] end ++
          (if key_eqb tk dk then [] else
           match dist_of (vget V tk), dist_of (post_of V post tk) with
           | Some (_, tt0), Some (_, tt1) => chk (list_eqb N.eqb tt0 tt1) tk 17 idx
           | _, _ => [] end) ++
          (* touches no lamports and no tokens *)
          flat_map (fun '(k, a) => chk ((lamports a =? lamports (vget V k)) && (tok_amount a =? tok_amount (vget V k))) k 12 (lamports a)) post
      | _, _, _, _, _ => [(dk, 13, 0)] end
  | Some (REnableWriteOff, ms, _) =>
      match config_of (vget V (nthk ms 0)), dist_of (vget V (nthk ms 1)) with
      | Some c, Some (d0, _) =>
          chk (negb (c_writeoff_activation c =? 0) && (c_writeoff_activation c <=? c_next_epoch c)) (nthk ms 0) 14 (c_writeoff_activation c) ++
          chk (d_debt_final d0 && negb (d_writeoff_enabled d0)) (nthk ms 1) 15 0
      | _, _ => [] end
  | _ => [] end.
Definition mon_C10 := mon_run (stateless c10_step) tt.

(* ================= C16: recipient tables; manager assignment ================= *)
Definition table_valid (l : list (key * N)) : bool :=
  (Nat.leb 1 (length l)) && (Nat.leb (length l) 8) &&
  forallb (fun '(k, s) => negb (key_eqb k default_key) && negb (s =? 0)) l && (sumN (map snd l) =? 10000).
Definition c16_step (V : view) (ob : obs) : clauses :=
  let '(o, ok, post) := ob in
  if negb (ok && is_tx o) then [] else
  flat_map (fun '(k, a) => match contrib_of a with
     | Some cr => chk (match cr_recipients cr with [] => true | l => table_valid l end) k 1 0 ++
                  (* the table / manager / flag of a record change only through the two instructions below *)
                  match contrib_of (vget V k), single_rd o with
                  | Some cr0, Some (RSetRewardsManager _, _, _) | Some cr0, Some (RConfigureContributor _, _, _) => []
                  | Some cr0, _ => chk (contrib_eqb cr0 cr) k 2 0
                  (* a record that appears in a transaction starts with no rewards manager, no block and an empty table: only the
                     contributor manager can assign the first manager *)
                  | None, _ => chk (key_eqb (cr_manager cr) default_key && negb (cr_blocked cr) &&
                                    match cr_recipients cr with [] => true | _ => false end) k 13 0 end
     | None => [] end) post ++
  match single_rd o with
  | Some (RConfigureContributor s, ms, t) =>
      let crk := nthk ms 1 in let mgr := nthk ms 2 in
      match contrib_of (vget V crk), contrib_of (post_of V post crk) with
      | Some cr0, Some cr1 =>
          chk (key_eqb mgr (cr_manager cr0) && signed t mgr) mgr 3 0 ++
          match s with
          | CSRecipients l => chk (table_valid l) crk 4 0 ++ chk (list_eqb keyN_eqb (cr_recipients cr1) l) crk 5 0 ++
                              chk (key_eqb (cr_manager cr1) (cr_manager cr0) && Bool.eqb (cr_blocked cr1) (cr_blocked cr0)) crk 6 0
          | CSBlock b => chk (Bool.eqb (cr_blocked cr1) b && list_eqb keyN_eqb (cr_recipients cr1) (cr_recipients cr0) &&
                              key_eqb (cr_manager cr1) (cr_manager cr0)) crk 7 0
          end
      | _, _ => [(crk, 8, 0)] end
  | Some (RSetRewardsManager k, ms, t) =>
      let ck := nthk ms 0 in let cm := nthk ms 1 in let crk := nthk ms 2 in
      match config_of (vget V ck), contrib_of (vget V crk), contrib_of (post_of V post crk) with
      | Some c, Some cr0, Some cr1 =>
          chk (key_eqb cm (c_contributor_manager c) && signed t cm) cm 9 0 ++
          chk (negb (cr_blocked cr0)) crk 10 0 ++
          chk (key_eqb (cr_manager cr1) k && list_eqb keyN_eqb (cr_recipients cr1) (cr_recipients cr0) &&
               Bool.eqb (cr_blocked cr1) (cr_blocked cr0)) crk 11 0
      | _, _, _ => [(crk, 12, 0)] end
  | _ => [] end.
Definition mon_C16 := mon_run (stateless c16_step) tt.

(* ================= C05: sweeps in epoch order, once, exact accounting ================= *)
Definition fills_of (a : acct) : option ring := match data a with DFills r => Some r | _ => None end.
Definition c05_step (V : view) (ob : obs) : clauses :=
  let '(o, ok, post) := ob in
  if negb (ok && is_tx o) then [] else
  (* after a sweep the uncollectible debt can no longer change; the pointer never moves except by a sweep *)
  flat_map (fun '(k, a) =>
    match dist_of (vget V k), dist_of a with
    | Some (d0, _), Some (d1, _) => if d_swept d0 then chk (d_uncollectible d1 =? d_uncollectible d0) k 1 (d_uncollectible d1) else []
    | _, _ => [] end ++
    match journal_of (vget V k), journal_of a, single_rd o with
    | Some j0, Some j1, Some (RSweep, _, _) => []
    | Some j0, Some j1, _ => chk (j_next_sweep j1 =? j_next_sweep j0) k 2 (j_next_sweep j1)
    | _, _, _ => [] end) post ++
  match single_rd o with
  | Some (RSweep, ms, _) =>
      let ck := nthk ms 0 in let dk := nthk ms 1 in let jk := nthk ms 2 in let fk := nthk ms 5 in
      let tk := nthk ms 7 in let sd := nthk ms 9 in
      match config_of (vget V ck), dist_of (vget V dk), journal_of (vget V jk), dist_of (post_of V post dk), journal_of (post_of V post jk) with
      | Some c, Some (d0, _), Some j0, Some (d1, _), Some j1 =>
          let debt := collectible d0 in
          chk (negb (d_swept d0) && d_rewards_final d0 && d_swept d1) dk 3 0 ++
          chk ((j_next_sweep j0 =? d_epoch d0) && (j_next_sweep j1 =? d_epoch d0 + 1)) jk 4 (j_next_sweep j0) ++
          if debt =? 0 then
            chk ((j_swapped_sol j1 =? j_swapped_sol j0) && (j_swap_dest_balance j1 =? j_swap_dest_balance j0) &&
                 (d_swept_2z d1 =? d_swept_2z d0)) jk 5 0 ++
            flat_map (fun '(k, a) => chk ((tok_amount a =? tok_amount (vget V k)) && (lamports a =? lamports (vget V k))) k 6 0) post
          else
            let z := d_swept_2z d1 in
            chk (debt <=? j_swapped_sol j0) jk 7 debt ++
            chk (j_swapped_sol j1 =? j_swapped_sol j0 - debt) jk 8 debt ++
            chk (key_eqb tk (KTok2z dk) && key_eqb sd (KTok2z KRdSwapAuth)) tk 9 0 ++
            chk (tok_amount (post_of V post tk) =? tok_amount (vget V tk) + z) tk 10 z ++
            chk (tok_amount (vget V sd) =? tok_amount (post_of V post sd) + z) sd 11 z ++
            chk (j_swap_dest_balance j0 =? j_swap_dest_balance j1 + z) jk 12 z ++
            (* exactly what the configured swap program returns for exactly that SOL amount: the program called (account 6) is the
               configured one and the registry / script it answers from is its own *)
            chk (key_eqb (nthk ms 6) (c_swap_program c)) (nthk ms 6) 17 0 ++
            chk (key_eqb (owner (vget V fk)) (c_swap_program c)) fk 18 0 ++
            match c_swap_program c, data (vget V fk) with
            | KSwapMock, DFills r =>
                match q_dequeue (abs r) debt with
                | Some (_, zq) => chk (z =? zq) fk 13 zq
                | None => [(fk, 13, 0)] end
            | KRogue _, DScript (Some (RTriple a b _)) => chk ((a =? debt) && (z =? b)) fk 14 b
            | _, _ => [(fk, 15, 0)] end
      | _, _, _, _, _ => [(dk, 16, 0)] end
  | _ => [] end.
Definition mon_C05 := mon_run (stateless c05_step) tt.

(* ================= C06: journal SOL custody ================= *)
(* ghost: (SOL paid in by validators, the swept distributions); the identity reads their collectible debt in the state after
   the step, so a write-off that lowers it after the sweep breaks clause 2 *)
Definition swap_buy_of (o : op) : option (key * N * N * list meta * tx) :=      (* swap program, 2Z, SOL *)
  match single o with
  | Some (KSwapMock, IxSwap (SBuySol z sol), ms, _, t) =>
      Some (KSwapMock, z, sol, [nth 5 ms (mk default_key false false); nth 6 ms (mk default_key false false);
                                nth 7 ms (mk default_key false false); nth 8 ms (mk default_key false false);
                                nth 2 ms (mk default_key false false); nth 3 ms (mk default_key false false)], t)
  | Some (KRogue n, IxRogueBuy z sol, ms, _, t) =>
      Some (KRogue n, z, sol, [nth 4 ms (mk default_key false false); nth 5 ms (mk default_key false false);
                               nth 6 ms (mk default_key false false); nth 7 ms (mk default_key false false);
                               nth 1 ms (mk default_key false false); nth 2 ms (mk default_key false false)], t)
  | _ => None end.
Definition c06_step (g : N * list key) (V : view) (ob : obs) : (N * list key) * clauses :=
  let '(o, ok, post) := ob in
  if negb (ok && is_tx o) then (g, []) else
  let '(paid_in, swept) := g in
  let g' := match single_rd o with
            | Some (RPayDebt amount _, _, _) => (paid_in + amount, swept)
            | Some (RSweep, ms, _) => match dist_of (vget V (nthk ms 1)) with Some _ => (paid_in, nthk ms 1 :: swept) | None => g end
            | _ => g end in
  let swept_debt := sumN (map (fun k => match dist_of (post_of V post k) with Some (d, _) => collectible d | None => 0 end) (snd g')) in
  let jpost := post_of V post KRdJournal in
  (* the conservation identity, after every accepted transaction (whichever accounts it touched) *)
  let ident := match journal_of jpost with
               | Some j => if negb (key_eqb (owner jpost) KRd) then [] else
                           chk (fst g' =? j_total_sol j + j_swapped_sol j + swept_debt) KRdJournal 2 (fst g')
               | None => [] end in
  let inv := flat_map (fun '(k, a) =>
    match journal_of a with
    | Some j =>
        chk (rent (alen a) + j_total_sol j <=? lamports a) k 1 (lamports a) ++
        (* SOL leaves the journal only through a swap-program withdrawal *)
        (if lamports a <? lamports (vget V k) then
           match swap_buy_of o with
           | Some (_, _, sol, _, _) => chk (lamports (vget V k) - lamports a =? sol) k 3 sol
           | None => [(k, 3, lamports (vget V k) - lamports a)] end
         else [])
    | None => [] end) post in
  let wd :=
    match swap_buy_of o with
    | Some (swap, z, sol, ms, _) =>
        let ck := nthk ms 0 in let wa := nthk ms 1 in let jk := nthk ms 2 in let dest := nthk ms 3 in
        let mint := nthk ms 4 in let sd := nthk ms 5 in
        match config_of (vget V ck), journal_of (vget V jk), journal_of (post_of V post jk) with
        | Some c, Some j0, Some j1 =>
            chk (negb (c_paused c) && key_eqb (c_swap_program c) swap && key_eqb wa (KWithdrawAuth swap)) wa 4 0 ++
            chk (key_eqb mint KMint && key_eqb sd (KTok2z KRdSwapAuth)) sd 5 0 ++
            chk (sol <=? j_total_sol j0) jk 6 sol ++
            chk ((j_total_sol j1 =? j_total_sol j0 - sol) && (j_swapped_sol j1 =? j_swapped_sol j0 + sol) &&
                 (j_swap_dest_balance j1 =? j_swap_dest_balance j0 + z) && (j_lifetime_2z j1 =? j_lifetime_2z j0 + z)) jk 7 sol ++
            chk (tok_amount (post_of V post sd) =? tok_amount (vget V sd) + z) sd 8 z ++
            chk (key_eqb dest jk || match lookup dest post with None => true | Some a => lamports a =? lamports (vget V dest) + sol end) dest 9 sol
        | _, _, _ => [(jk, 10, 0)] end
    | None =>
        (* a bare top-level WithdrawSol never succeeds: there is no PDA signature at the top level *)
        match single_rd o with Some (RWithdrawSol a, ms, _) => [(nthk ms 2, 11, a)] | _ => [] end
    end in
  (g', ident ++ inv ++ wd).
Definition mon_C06 := mon_run c06_step (0, []).

(* ================= C07: privileged actions need the current role's signature ================= *)
Inductive role := RoleUpgrade (prog : key) | RoleAdmin | RoleDebt | RoleRewards | RoleContribMgr | RoleRewardsMgr
                | RolePpAdmin | RolePpSentinel.
(* (role, position of the config / record account, position of the presented authority) *)
Definition role_of_rd (i : rd_ix) : option (role * nat * nat) :=
  match i with
  | RSetAdmin _ | RMigrate => Some (RoleUpgrade KRd, 0%nat, 1%nat)
  | RConfigureProgram _ => Some (RoleAdmin, 0%nat, 1%nat)
  | RInitializeDistribution | RConfigureDebt _ _ _ | RFinalizeDebt | RWriteOff _ _ => Some (RoleDebt, 0%nat, 1%nat)
  | RConfigureRewards _ _ => Some (RoleRewards, 0%nat, 1%nat)
  | RSetRewardsManager _ => Some (RoleContribMgr, 0%nat, 1%nat)
  | RConfigureContributor _ => Some (RoleRewardsMgr, 1%nat, 2%nat)
  | _ => None end.
Definition role_of_pp (i : pp_ix) : option (role * nat * nat) :=
  match i with
  | PSetAdmin _ => Some (RoleUpgrade KPassport, 0%nat, 1%nat)
  | PConfigureProgram _ => Some (RolePpAdmin, 0%nat, 1%nat)
  | PGrantAccess | PDenyAccess => Some (RolePpSentinel, 0%nat, 1%nat)
  | _ => None end.
Definition holder (V : view) (r : role) (rec : key) : option key :=
  match r with
  | RoleUpgrade p => if key_eqb rec (KProgData p) then match data (vget V rec) with DProgData (Some a) => Some a | _ => None end else None
  | RoleAdmin => option_map c_admin (config_of (vget V rec))
  | RoleDebt => option_map c_debt_accountant (config_of (vget V rec))
  | RoleRewards => option_map c_rewards_accountant (config_of (vget V rec))
  | RoleContribMgr => option_map c_contributor_manager (config_of (vget V rec))
  | RoleRewardsMgr => option_map cr_manager (contrib_of (vget V rec))
  | RolePpAdmin => option_map pc_admin (ppconfig_of (vget V rec))
  | RolePpSentinel => option_map pc_sentinel (ppconfig_of (vget V rec))
  end.
Definition tx_mentions_rd_early (o : op) (p : rd_ix -> bool) : bool :=
  match o with
  | OTx t => existsb (fun i => match unwrap (i_data i) (i_metas i) with (IxRd r, _, _) => p r | _ => false end) (tx_ixs t)
  | _ => false end.
Definition c07_step (V : view) (ob : obs) : clauses :=
  let '(o, ok, post) := ob in
  if negb (is_tx o) then [] else
  if negb ok then
    (* a refused transaction changes nothing *)
    flat_map (fun '(k, a) => chk (acct_eqb (vget V k) a) k 1 0) post
  else
    let check (r : option (role * nat * nat)) (ms : list meta) (t : tx) : clauses :=
      match r with
      | Some (rl, rp, ap) =>
          let auth := nthk ms ap in
          match holder V rl (nthk ms rp) with
          | Some h => chk (key_eqb auth h) auth 2 0 ++ chk (signed t auth) auth 3 0 ++
                      chk (negb (key_eqb auth default_key)) auth 4 0
          | None => [(nthk ms rp, 5, 0)] end
      | None => [] end in
    (* the role keys themselves: an admin key changes only in a transaction containing SetAdmin, and a configuration that appears in
       a transaction has no admin yet (initialisation is permissionless and appoints nobody) *)
    let is_set_admin_rd := tx_mentions_rd_early o (fun r => match r with RSetAdmin _ => true | _ => false end) in
    let is_set_admin_pp := match o with
      | OTx t' => existsb (fun i => match unwrap (i_data i) (i_metas i) with (IxPassport (PSetAdmin _), _, _) => true | _ => false end) (tx_ixs t')
      | _ => false end in
    flat_map (fun '(k, a) =>
      match config_of a, config_of (vget V k) with
      | Some c1, Some c0 => chk (key_eqb (c_admin c1) (c_admin c0) || is_set_admin_rd) k 6 0
      | Some c1, None => chk (key_eqb (c_admin c1) default_key) k 7 0
      | _, _ => [] end ++
      match ppconfig_of a, ppconfig_of (vget V k) with
      | Some c1, Some c0 => chk (key_eqb (pc_admin c1) (pc_admin c0) || is_set_admin_pp) k 6 0
      | Some c1, None => chk (key_eqb (pc_admin c1) default_key) k 7 0
      | _, _ => [] end) post ++
    match single o with
    | Some (KRd, IxRd i, ms, _, t) => check (role_of_rd i) ms t
    | Some (KPassport, IxPassport i, ms, _, t) => check (role_of_pp i) ms t
    | _ => [] end.
Definition mon_C07 := mon_run (stateless c07_step) tt.

(* ================= C08: paused => only administration and bootstrap ================= *)
Definition rd_pause_exempt (i : rd_ix) : bool :=
  match i with
  | RInitializeProgram | RMigrate | RSetAdmin _ | RConfigureProgram _ | RInitializeJournal | RInitializeContributor _
  | RInitializeDeposit _ | RInitializeSwapDestination | RVerifyRoot _ _ => true
  | _ => false end.
Definition pp_pause_exempt (i : pp_ix) : bool :=
  match i with PInitializeProgram | PSetAdmin _ | PConfigureProgram _ => true | _ => false end.
Definition c08_step (V : view) (ob : obs) : clauses :=
  let '(o, ok, post) := ob in
  if negb (ok && is_tx o) then [] else
  match o with
  | OTx t =>
      flat_map (fun i =>
        let '(d, ms, _) := unwrap (i_data i) (i_metas i) in
        match d with
        | IxRd r => match config_of (vget V KRdConfig) with
                    | Some c => chk (negb (c_paused c) || rd_pause_exempt r) KRdConfig 1 (rd_tag r)
                    | None => [] end
        | IxPassport p => match ppconfig_of (vget V KPpConfig) with
                          | Some c => chk (negb (pc_paused c) || pp_pause_exempt p) KPpConfig 2 (pp_tag p) ++
                                      match p with PRequestAccess _ => chk (negb (pc_request_paused c)) KPpConfig 3 0 | _ => [] end ++
                                      (* "the request-only pause blocks requests alone": each switch drives its own flag only *)
                                      match p, ppconfig_of (post_of V post KPpConfig) with
                                      | PConfigureProgram (PSFlag (PFIsPaused b)), Some c1 =>
                                          chk (Bool.eqb (pc_paused c1) b && Bool.eqb (pc_request_paused c1) (pc_request_paused c)) KPpConfig 5 0
                                      | PConfigureProgram (PSFlag (PFIsRequestAccessPaused b)), Some c1 =>
                                          chk (Bool.eqb (pc_request_paused c1) b && Bool.eqb (pc_paused c1) (pc_paused c)) KPpConfig 5 0
                                      | _, _ => [] end
                          | None => [] end
        | IxSwap (SBuySol _ _) | IxRogueBuy _ _ =>
                    match config_of (vget V KRdConfig) with Some c => chk (negb (c_paused c)) KRdConfig 4 0 | None => [] end
        | _ => [] end) (tx_ixs t)
  | _ => [] end.
Definition mon_C08 := mon_run (stateless c08_step) tt.

(* ================= C09: identity of every trusted account; no re-initialisation ================= *)
Definition uninit (V : view) (k : key) : bool := match data (vget V k) with DEmpty => true | _ => false end.
Definition canon_key (a : acct) : option key :=     (* the canonical address of a typed account, from its content *)
  if key_eqb (owner a) KRd then
    match data a with
    | DConfig _ => Some KRdConfig | DJournal _ => Some KRdJournal | DDist d _ => Some (KRdDist (d_epoch d))
    | DDeposit d => Some (KRdDeposit (dp_node d)) | DContrib c => Some (KRdContrib (cr_service c)) | _ => None end
  else if key_eqb (owner a) KPassport then
    match data a with DPpConfig _ => Some KPpConfig | DAccessReq r => Some (KPpRequest (ar_service r)) | _ => None end
  else None.
(* positions that must hold exactly this key *)
Definition expect_rd (V : view) (i : rd_ix) (ms : list meta) : list (N * key) :=
  let k (n : N) := nthk ms (N.to_nat n) in
  match i with
  | RInitializeProgram => [(1, KRdConfig); (2, KTok2z KRdConfig); (3, KMint); (4, KToken)]
  | RSetAdmin _ | RMigrate => [(0, KProgData KRd); (2, KRdConfig)]
  | RConfigureProgram _ => [(0, KRdConfig)]
  | RInitializeJournal => [(1, KRdJournal); (2, KTok2z KRdJournal); (3, KMint); (4, KToken)]
  | RInitializeDistribution =>
      let e := match config_of (vget V (k 0)) with Some c => c_next_epoch c | None => 0 end in
      [(0, KRdConfig); (3, KRdDist e); (4, KTok2z (KRdDist e)); (5, KMint); (6, KToken); (7, KRdJournal);
       (8, KTok2z KRdJournal); (9, KAta KRdJournal KMint)]
  | RConfigureDebt _ _ _ | RFinalizeDebt | RConfigureRewards _ _ => [(0, KRdConfig)]
  | RFinalizeRewards | REnableWriteOff => [(0, KRdConfig)]
  | RDistributeRewards _ _ _ =>
      let recips := match contrib_of (vget V (k 2)) with Some cr => cr_recipients cr | None => [] end in
      [(0, KRdConfig); (3, KTok2z (k 1)); (4, KMint); (6, KToken)] ++
      map (fun '(n, (r, _)) => (7 + N.of_nat n, KAta r KMint)) (combine (seq 0 (length recips)) recips)
  | RInitializeContributor svc => [(1, KRdContrib svc)]
  | RSetRewardsManager _ | RConfigureContributor _ => [(0, KRdConfig)]
  | RVerifyRoot _ _ => []
  | RInitializeDeposit node => [(0, KRdDeposit node)]
  | RPayDebt _ _ => [(0, KRdConfig); (3, KRdJournal)]
  | RWriteOff _ _ => [(0, KRdConfig)]
  | RInitializeSwapDestination => [(0, KRdConfig); (2, KRdSwapAuth); (3, KTok2z KRdSwapAuth); (4, KMint); (5, KToken)]
  | RSweep =>
      let sp := match config_of (vget V (k 0)) with Some c => c_swap_program c | None => default_key end in
      (* a sweep with zero collectible debt returns before it reads (or trusts) the swap and token accounts *)
      let zero := match dist_of (vget V (k 1)) with Some (d, _) => collectible d =? 0 | None => false end in
      if zero then [(0, KRdConfig); (2, KRdJournal)] else
      [(0, KRdConfig); (2, KRdJournal); (6, sp); (7, KTok2z (k 1)); (8, KRdSwapAuth); (9, KTok2z KRdSwapAuth)]
  | RWithdrawSol _ =>
      let sp := match config_of (vget V (k 0)) with Some c => c_swap_program c | None => default_key end in
      [(0, KRdConfig); (1, KWithdrawAuth sp); (2, KRdJournal)]
  end.
(* positions that must hold a typed account of the program (owner + tag) sitting at its canonical address *)
Definition typed_rd (i : rd_ix) : list N :=
  match i with
  | RSetAdmin _ | RMigrate => [2]
  | RConfigureProgram _ => [0]
  | RInitializeDistribution => [0; 7]
  | RConfigureDebt _ _ _ | RFinalizeDebt | RConfigureRewards _ _ => [0; 2]
  | RFinalizeRewards | REnableWriteOff => [0; 1]
  | RDistributeRewards _ _ _ => [0; 1; 2]
  | RSetRewardsManager _ => [0; 2]
  | RConfigureContributor _ => [0; 1]
  | RVerifyRoot _ _ => [0]
  | RPayDebt _ _ => [0; 1; 2; 3]
  | RWriteOff _ _ => [0; 2; 3; 4]
  | RInitializeSwapDestination => [0]
  | RSweep => [0; 1; 2]
  | RWithdrawSol _ => [0; 2]
  | _ => [] end.
Definition init_target_rd (i : rd_ix) : list N :=      (* accounts that must have been uninitialised *)
  match i with
  | RInitializeProgram => [1; 2] | RInitializeJournal => [1; 2] | RInitializeDistribution => [3; 4]
  | RInitializeContributor _ => [1] | RInitializeDeposit _ => [0] | RInitializeSwapDestination => [3]
  | _ => [] end.
Definition expect_pp (V : view) (i : pp_ix) (ms : list meta) : list (N * key) :=
  match i with
  | PInitializeProgram => [(1, KPpConfig)]
  | PSetAdmin _ => [(0, KProgData KPassport); (2, KPpConfig)]
  | PConfigureProgram _ => [(0, KPpConfig)]
  | PRequestAccess m => [(0, KPpConfig); (2, KPpRequest (access_mode_service m))]
  | PGrantAccess => [(0, KPpConfig)] ++ match request_of (vget V (nthk ms 2%nat)) with Some r => [(3, ar_beneficiary r)] | None => [] end
  | PDenyAccess => [(0, KPpConfig)]
  end.
Definition typed_pp (i : pp_ix) : list N :=
  match i with PSetAdmin _ => [2] | PConfigureProgram _ => [0] | PRequestAccess _ => [0]
             | PGrantAccess | PDenyAccess => [0; 2] | _ => [] end.
Definition init_target_pp (i : pp_ix) : list N :=
  match i with PInitializeProgram => [1] | PRequestAccess _ => [2] | _ => [] end.
Definition c09_step (V : view) (ob : obs) : clauses :=
  let '(o, ok, post) := ob in
  if negb (is_tx o) then [] else
  if negb ok then flat_map (fun '(k, a) => chk (acct_eqb (vget V k) a) k 1 0) post else
  let go (exp : list (N * key)) (typed inits : list N) (ms : list meta) : clauses :=
    flat_map (fun '(n, k) => chk (key_eqb (nthk ms (N.to_nat n)) k) (nthk ms (N.to_nat n)) 2 n) exp ++
    flat_map (fun n => let k := nthk ms (N.to_nat n) in
                       match canon_key (vget V k) with
                       | Some ck => chk (key_eqb ck k) k 3 n
                       | None => [(k, 4, n)] end) typed ++
    flat_map (fun n => chk (uninit V (nthk ms (N.to_nat n))) (nthk ms (N.to_nat n)) 5 n) inits in
  match single o with
  | Some (KRd, IxRd i, ms, _, _) => go (expect_rd V i ms) (typed_rd i) (init_target_rd i) ms
  | Some (KPassport, IxPassport i, ms, _, _) => go (expect_pp V i ms) (typed_pp i) (init_target_pp i) ms
  | _ => [] end.
Definition mon_C09 := mon_run (stateless c09_step) tt.

(* ================= C17 / C18: passport ================= *)
Definition sum_lamports (V : view) (post : list (key * acct)) (pre : bool) : N :=
  sumN (map (fun k => lamports (if pre then vget V k else post_of V post k)) (dedup_keys (map fst post))).
Definition c17_step (V : view) (ob : obs) : clauses :=
  let '(o, ok, post) := ob in
  if negb (ok && is_tx o) then [] else
  match single_pp o with
  | Some (ix, ms, cpi, t) =>
      (* total lamports are conserved by every passport instruction *)
      chk (sum_lamports V post true =? sum_lamports V post false) KPpConfig 1 (sum_lamports V post false) ++
      match ix with
      | PRequestAccess mode =>
          let payer := nthk ms 1 in let rk := nthk ms 2 in
          match ppconfig_of (vget V (nthk ms 0)), request_of (post_of V post rk) with
          | Some c, Some r =>
              let a1 := post_of V post rk in
              chk (key_eqb rk (KPpRequest (access_mode_service mode))) rk 2 0 ++
              chk (rent LEN_ACCESS_REQ + pc_deposit c <=? lamports a1) rk 3 (lamports a1) ++
              chk (key_eqb payer rk || (lamports (vget V payer) - lamports (post_of V post payer) =? lamports a1 - lamports (vget V rk))) payer 4 0 ++
              chk (key_eqb (ar_beneficiary r) payer && (ar_fee r =? pc_fee c) && key_eqb (ar_service r) (access_mode_service mode)) rk 5 0 ++
              chk (match request_of (vget V rk) with None => true | Some _ => false end) rk 6 0 ++
              flat_map (fun '(k, a) => if key_eqb k payer || key_eqb k rk then [] else chk (acct_eqb (vget V k) a) k 7 0) post
          | _, _ => [(rk, 8, 0)] end
      | PGrantAccess =>
          let se := nthk ms 1 in let rk := nthk ms 2 in let ben := nthk ms 3 in
          (* the sentinel is the one the program's own configuration names *)
          match ppconfig_of (vget V KPpConfig) with
          | Some c => chk (key_eqb se (pc_sentinel c) && key_eqb (nthk ms 0) KPpConfig) se 20 0
          | None => [(se, 20, 0)] end ++
          match request_of (vget V rk) with
          | Some r =>
              let bal := lamports (vget V rk) in let fee := ar_fee r in
              let gain k := lamports (post_of V post k) - lamports (vget V k) in
              chk (key_eqb ben (ar_beneficiary r)) ben 9 0 ++
              chk (lamports (post_of V post rk) =? 0) rk 10 0 ++
              (if key_eqb se ben then chk (gain se =? bal) se 11 bal
               else chk (gain se =? fee) se 12 fee ++ chk (gain ben =? bal - fee) ben 13 (bal - fee)) ++
              chk (fee <=? bal) rk 14 fee ++
              flat_map (fun '(k, a) => if key_eqb k se || key_eqb k ben || key_eqb k rk then [] else chk (acct_eqb (vget V k) a) k 15 0) post
          | None => [(rk, 16, 0)] end
      | PDenyAccess =>
          let se := nthk ms 1 in let rk := nthk ms 2 in
          match ppconfig_of (vget V KPpConfig) with
          | Some c => chk (key_eqb se (pc_sentinel c) && key_eqb (nthk ms 0) KPpConfig) se 20 0
          | None => [(se, 20, 0)] end ++
          chk (lamports (post_of V post se) - lamports (vget V se) =? lamports (vget V rk)) se 17 (lamports (vget V rk)) ++
          chk (lamports (post_of V post rk) =? 0) rk 18 0
      | PConfigureProgram _ =>
          (* reconfiguration never touches a pending request *)
          flat_map (fun '(k, a) => match request_of (vget V k) with Some _ => chk (acct_eqb (vget V k) a) k 19 0 | None => [] end) post ++
          (* ... and never leaves a fee that a deposit could not pay ("fee to sentinel, remainder to requester" needs fee < deposit) *)
          match ppconfig_of (post_of V post KPpConfig) with
          | Some c1 => chk ((pc_deposit c1 =? 0) || (pc_fee c1 <? pc_deposit c1)) KPpConfig 21 (pc_fee c1)
          | None => [] end
      | _ => [] end
  | None => [] end.
Definition mon_C17 := mon_run (stateless c17_step) tt.

Definition c18_step (V : view) (ob : obs) : clauses :=
  let '(o, ok, post) := ob in
  if negb (ok && is_tx o) then [] else
  match single_pp o with
  | Some (PRequestAccess mode, ms, cpi, t) =>
      let rk := nthk ms 2 in
      match ppconfig_of (vget V (nthk ms 0)), request_of (post_of V post rk) with
      | Some c, Some r =>
          chk (key_eqb (nthk ms 0) KPpConfig) (nthk ms 0) 13 0 ++
          chk (negb cpi) rk 1 0 ++
          chk (negb (pc_paused c) && negb (pc_request_paused c)) KPpConfig 2 0 ++
          chk (negb (pc_deposit c =? 0)) KPpConfig 3 0 ++
          chk (negb (key_eqb (access_mode_service mode) default_key)) rk 4 0 ++
          match mode with
          | AMValidator _ => []
          | AMValidatorWithBackups _ b => chk (negb (Nat.eqb (length b) 0) && (N.of_nat (length b) <=? pc_backup_limit c)) rk 5 (N.of_nat (length b))
          end ++
          chk (access_mode_eqb (ar_mode r) mode) rk 6 0 ++
          chk (ar_fee r <? pc_deposit c) rk 7 (ar_fee r)
      | _, _ => [(rk, 8, 0)] end
  | Some (PConfigureProgram s, ms, _, _) =>
      match ppconfig_of (post_of V post (nthk ms 0)) with
      | Some c1 =>
          match s with
          | PSAccessRequestDeposit dep fee => chk (negb (dep =? 0) && (fee <? dep)) KPpConfig 9 dep
          | PSBackupIdsLimit l => chk (negb (l =? 0)) KPpConfig 10 l
          (* the two pause flags are independent: writing one leaves the other as it was *)
          | PSFlag (PFIsPaused b) =>
              match ppconfig_of (vget V (nthk ms 0)) with
              | Some c0 => chk (Bool.eqb (pc_paused c1) b && Bool.eqb (pc_request_paused c1) (pc_request_paused c0)) KPpConfig 12 0
              | None => [] end
          | PSFlag (PFIsRequestAccessPaused b) =>
              match ppconfig_of (vget V (nthk ms 0)) with
              | Some c0 => chk (Bool.eqb (pc_request_paused c1) b && Bool.eqb (pc_paused c1) (pc_paused c0)) KPpConfig 12 0
              | None => [] end
          | _ => [] end ++
          chk ((pc_deposit c1 =? 0) || (pc_fee c1 <? pc_deposit c1)) KPpConfig 11 (pc_fee c1)
      | None => [] end
  | _ => [] end.
Definition mon_C18 := mon_run (stateless c18_step) tt.

(* ================= C13: a correctly operated epoch always runs to completion (family `honest`) ================= *)
Fixpoint final_view (V : view) (tr : list obs) : view :=
  match tr with [] => V | (_, _, post) :: tl => final_view (vupd V post) tl end.
Fixpoint first_refused (tr : list obs) (i : N) : option viol :=
  match tr with
  | [] => None
  | (o, ok, _) :: tl => if is_tx o && negb ok then Some (i, default_key, 1, 0) else first_refused tl (i + 1)
  end.
Definition c13_end (V : view) : clauses :=
  flat_map (fun '(k, a) =>
    match dist_of a with
    | Some (d, t) =>
        if d_swept d then
          let residue := d_prepaid_2z d + d_swept_2z d - d_distributed_2z d - d_burned_2z d in
          chk (d_distributed_count d =? d_total_contributors d) k 2 (d_distributed_count d) ++
          chk ((d_debt_end d <=? d_debt_start d) || (d_payments_count d + d_writeoff_count d =? d_total_validators d)) k 3 (d_payments_count d) ++
          chk (residue <? N.max 1 (d_total_contributors d)) k 4 residue ++
          chk (tok_amount (vget V (KTok2z k)) =? residue) k 5 (tok_amount (vget V (KTok2z k))) ++
          chk (rent (alen a) <=? lamports a) k 6 (lamports a)
        else []
    | None => [] end) V.
Definition mon_C13 (tr : list robs) : option viol :=
  let tr' := expand [] tr in
  match first_refused tr' 0 with
  | Some v => Some v
  | None => match c13_end (final_view [] tr') with
            | (k, c, w) :: _ => Some (N.of_nat (length tr'), k, c, w)
            | [] => None end
  end.
