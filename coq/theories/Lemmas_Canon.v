(* Reachability invariant behind property C09: every typed revenue-distribution / passport state account sits at the
   canonical (derived) address for the identity its own content carries.  The processors identify their state accounts
   at USE sites by owner + type tag only (see rd_use_site_canonical_keys_refuted in Lemmas_RdGuards2.v); this file shows
   that in every world reachable without `OForge` that is enough.
   Part 1 (this file): the invariant, the footprint of every primitive and every processor, transactions, histories.
   Part 2 (Lemmas_Canon2.v): use-site corollaries, examples. *)
From DZ Require Import Base Keys Merkle BurnRate Shares Swap_Ring State World SwapDeq RD Passport Swap Exec
  Lemmas_Merkle Lemmas_RdGuards.

(* ------------------------------------------------------------------------------------------------------------------ *)
(* the invariant                                                                                                      *)

(* canonical address of a typed program account, read off its content *)
Definition canon_key_of (a : acct) : option key :=
  if key_eqb (owner a) KRd then
    match data a with
    | DConfig _ => Some KRdConfig
    | DJournal _ => Some KRdJournal
    | DDist d _ => Some (KRdDist (d_epoch d))
    | DDeposit d => Some (KRdDeposit (dp_node d))
    | DContrib c => Some (KRdContrib (cr_service c))
    | _ => None
    end
  else if key_eqb (owner a) KPassport then
    match data a with
    | DPpConfig _ => Some KPpConfig
    | DAccessReq r => Some (KPpRequest (ar_service r))
    | _ => None
    end
  else None.
Definition typed_canonical (W : world) : Prop := forall k ck, canon_key_of (get W k) = Some ck -> ck = k.

(* the same, owner-independent: the address a piece of typed data belongs to, whoever owns the account *)
Definition data_key (d : adata) : option key :=
  match d with
  | DConfig _ => Some KRdConfig
  | DJournal _ => Some KRdJournal
  | DDist d _ => Some (KRdDist (d_epoch d))
  | DDeposit d => Some (KRdDeposit (dp_node d))
  | DContrib c => Some (KRdContrib (cr_service c))
  | DPpConfig _ => Some KPpConfig
  | DAccessReq r => Some (KPpRequest (ar_service r))
  | _ => None
  end.
(* "writing d at k is harmless": d is untyped or k is the address d names *)
Definition wr_ok (k : key) (d : adata) : Prop := forall c, data_key d = Some c -> c = k.

Lemma canon_key_data_key a c : canon_key_of a = Some c -> data_key (data a) = Some c.
Proof.
  unfold canon_key_of. destruct (key_eqb (owner a) KRd); [|destruct (key_eqb (owner a) KPassport)];
    destruct (data a); cbn [data_key]; congruence.
Qed.
Lemma canon_key_hdr a b : hdr a = hdr b -> canon_key_of a = canon_key_of b.
Proof. intros H. apply hdr_fields in H as (Ho & _ & Hd). unfold canon_key_of. rewrite Ho, Hd. reflexivity. Qed.
Lemma canon_key_od a b : owner a = owner b -> data a = data b -> canon_key_of a = canon_key_of b.
Proof. intros Ho Hd. unfold canon_key_of. rewrite Ho, Hd. reflexivity. Qed.
Lemma canon_key_empty : canon_key_of empty_acct = None.
Proof. reflexivity. Qed.

Lemma tc_put W k a : typed_canonical W -> (forall c, canon_key_of a = Some c -> c = k) -> typed_canonical (put W k a).
Proof.
  intros HT Ha k' c. rewrite get_put. destruct (key_eqb k k') eqn:Ek.
  - apply key_eqb_eq in Ek. subst k'. apply Ha.
  - apply HT.
Qed.
Lemma tc_put_wr W k a : typed_canonical W -> wr_ok k (data a) -> typed_canonical (put W k a).
Proof. intros HT Ha. apply tc_put; [exact HT|]. intros c Hc. apply Ha. apply canon_key_data_key. exact Hc. Qed.
Lemma tc_put_same W k a : typed_canonical W -> canon_key_of a = canon_key_of (get W k) -> typed_canonical (put W k a).
Proof. intros HT Ha. apply tc_put; [exact HT|]. intros c Hc. apply HT. rewrite <- Ha. exact Hc. Qed.
Lemma tc_hdr W W' : (forall k, hdr (get W' k) = hdr (get W k)) -> typed_canonical W -> typed_canonical W'.
Proof. intros Hh HT k c Hc. apply HT. rewrite <- (canon_key_hdr _ _ (Hh k)). exact Hc. Qed.

(* what the invariant says at a use site *)
Lemma rd_acct_canonical W k c :
  typed_canonical W -> owner (get W k) = KRd -> canon_key_of (get W k) = Some c -> c = k.
Proof. intros HT _ Hc. apply HT. exact Hc. Qed.
Lemma rd_config_canonical W k c : typed_canonical W -> rd_acct W k (DConfig c) -> k = KRdConfig.
Proof. intros HT (Ho & Hd). symmetry. apply HT. unfold canon_key_of. rewrite Ho, Hd. reflexivity. Qed.
Lemma rd_journal_canonical W k j : typed_canonical W -> rd_acct W k (DJournal j) -> k = KRdJournal.
Proof. intros HT (Ho & Hd). symmetry. apply HT. unfold canon_key_of. rewrite Ho, Hd. reflexivity. Qed.
Lemma rd_dist_canonical W k d t : typed_canonical W -> rd_acct W k (DDist d t) -> k = KRdDist (d_epoch d).
Proof. intros HT (Ho & Hd). symmetry. apply HT. unfold canon_key_of. rewrite Ho, Hd. reflexivity. Qed.
Lemma rd_deposit_canonical W k d : typed_canonical W -> rd_acct W k (DDeposit d) -> k = KRdDeposit (dp_node d).
Proof. intros HT (Ho & Hd). symmetry. apply HT. unfold canon_key_of. rewrite Ho, Hd. reflexivity. Qed.
Lemma rd_contrib_canonical W k c : typed_canonical W -> rd_acct W k (DContrib c) -> k = KRdContrib (cr_service c).
Proof. intros HT (Ho & Hd). symmetry. apply HT. unfold canon_key_of. rewrite Ho, Hd. reflexivity. Qed.
Lemma pp_config_canonical W k c :
  typed_canonical W -> owner (get W k) = KPassport -> data (get W k) = DPpConfig c -> k = KPpConfig.
Proof. intros HT Ho Hd. symmetry. apply HT. unfold canon_key_of. rewrite Ho, Hd. reflexivity. Qed.
Lemma pp_request_canonical W k r :
  typed_canonical W -> owner (get W k) = KPassport -> data (get W k) = DAccessReq r -> k = KPpRequest (ar_service r).
Proof. intros HT Ho Hd. symmetry. apply HT. unfold canon_key_of. rewrite Ho, Hd. reflexivity. Qed.
(* the generic per-type statements, in the `owner = .. -> data = ..` form *)
Lemma rd_acct_canonical_config W k c :
  typed_canonical W -> owner (get W k) = KRd -> data (get W k) = DConfig c -> k = KRdConfig.
Proof. intros HT Ho Hd. eapply rd_config_canonical; [exact HT|split; eassumption]. Qed.
Lemma rd_acct_canonical_journal W k j :
  typed_canonical W -> owner (get W k) = KRd -> data (get W k) = DJournal j -> k = KRdJournal.
Proof. intros HT Ho Hd. eapply rd_journal_canonical; [exact HT|split; eassumption]. Qed.
Lemma rd_acct_canonical_dist W k d t :
  typed_canonical W -> owner (get W k) = KRd -> data (get W k) = DDist d t -> k = KRdDist (d_epoch d).
Proof. intros HT Ho Hd. eapply rd_dist_canonical; [exact HT|split; eassumption]. Qed.
Lemma rd_acct_canonical_deposit W k d :
  typed_canonical W -> owner (get W k) = KRd -> data (get W k) = DDeposit d -> k = KRdDeposit (dp_node d).
Proof. intros HT Ho Hd. eapply rd_deposit_canonical; [exact HT|split; eassumption]. Qed.
Lemma rd_acct_canonical_contrib W k c :
  typed_canonical W -> owner (get W k) = KRd -> data (get W k) = DContrib c -> k = KRdContrib (cr_service c).
Proof. intros HT Ho Hd. eapply rd_contrib_canonical; [exact HT|split; eassumption]. Qed.

(* ------------------------------------------------------------------------------------------------------------------ *)
(* 1. initial worlds                                                                                                  *)

Lemma get_world0 k : get world0 k = empty_acct.
Proof. reflexivity. Qed.
Theorem typed_canonical_world0 : typed_canonical world0.
Proof. intros k c. rewrite get_world0, canon_key_empty. discriminate. Qed.
Theorem typed_canonical_untyped W :
  (forall k, owner (get W k) = KRd \/ owner (get W k) = KPassport -> data (get W k) = DEmpty) -> typed_canonical W.
Proof.
  intros H k c Hc. exfalso. specialize (H k). unfold canon_key_of in Hc.
  destruct (key_eqb (owner (get W k)) KRd) eqn:E1.
  - apply key_eqb_eq in E1. rewrite (H (or_introl E1)) in Hc. discriminate.
  - destruct (key_eqb (owner (get W k)) KPassport) eqn:E2; [|discriminate].
    apply key_eqb_eq in E2. rewrite (H (or_intror E2)) in Hc. discriminate.
Qed.
Theorem typed_canonical_init :
  typed_canonical world0 /\
  forall W, (forall k, owner (get W k) = KRd \/ owner (get W k) = KPassport -> data (get W k) = DEmpty) -> typed_canonical W.
Proof. split; [exact typed_canonical_world0|exact typed_canonical_untyped]. Qed.

(* ------------------------------------------------------------------------------------------------------------------ *)
(* 2. footprint of the runtime primitives: each one keeps the invariant                                               *)

Lemma wr_ok_untyped k d : data_key d = None -> wr_ok k d.
Proof. intros H c Hc. congruence. Qed.

Lemma credit_tc cx W k amt W' : credit cx W k amt = Ok W' -> typed_canonical W -> typed_canonical W'.
Proof. intros H. apply tc_hdr. eapply credit_hdr; eassumption. Qed.
Lemma debit_tc cx W k amt W' : debit cx W k amt = Ok W' -> typed_canonical W -> typed_canonical W'.
Proof. intros H. apply tc_hdr. eapply debit_hdr; eassumption. Qed.
Lemma set_lamports_to_zero_tc cx W k W' : set_lamports_to_zero cx W k = Ok W' -> typed_canonical W -> typed_canonical W'.
Proof. apply debit_tc. Qed.
Lemma resize_tc cx W k n W' : resize cx W k n = Ok W' -> typed_canonical W -> typed_canonical W'.
Proof. intros H HT. apply resize_ok in H as (_ & _ & ->). apply tc_put_same; [exact HT|reflexivity]. Qed.
Lemma write_data_tc cx W k d W' : write_data cx W k d = Ok W' -> typed_canonical W -> wr_ok k d -> typed_canonical W'.
Proof. intros H HT Hd. apply write_data_ok in H as (_ & _ & ->). apply tc_put_wr; [exact HT|exact Hd]. Qed.
Lemma put_dist_tc cx W k d t W' :
  put_dist cx W k d t = Ok W' -> typed_canonical W -> k = KRdDist (d_epoch d) -> typed_canonical W'.
Proof. intros H HT Hk. eapply write_data_tc; [exact H|exact HT|]. intros c Hc. cbn in Hc. congruence. Qed.
Lemma try_initialize_tc cx W k len d W' :
  try_initialize cx W k len d = Ok W' -> typed_canonical W -> wr_ok k d -> typed_canonical W'.
Proof. intros H HT Hd. apply try_initialize_ok in H as (_ & _ & _ & _ & ->). apply tc_put_wr; [exact HT|exact Hd]. Qed.

(* System program *)
Lemma sys_transfer_core_tc W ms from to amt W' :
  sys_transfer_core W ms from to amt = Ok W' -> typed_canonical W -> typed_canonical W'.
Proof. intros H. apply tc_hdr. eapply sys_transfer_core_hdr; eassumption. Qed.
Lemma sys_transfer_tc cx W from to amt pdas W' :
  sys_transfer cx W from to amt pdas = Ok W' -> typed_canonical W -> typed_canonical W'.
Proof. intros H. apply tc_hdr. eapply sys_transfer_hdr; eassumption. Qed.
Lemma sys_allocate_core_tc W ms k space W' :
  sys_allocate_core W ms k space = Ok W' -> typed_canonical W -> typed_canonical W'.
Proof.
  unfold sys_allocate_core. intros H HT. repeat rg_inv H. rg_norm. subst.
  apply tc_put_wr; [exact HT|]. apply wr_ok_untyped. reflexivity.
Qed.
Lemma sys_create_account_core_tc W ms from to lam space own W' :
  sys_create_account_core W ms from to lam space own = Ok W' -> typed_canonical W -> typed_canonical W'.
Proof.
  unfold sys_create_account_core. intros H HT. repeat rg_inv H.
  eapply sys_transfer_core_tc; [exact H|]. apply tc_put_wr; [exact HT|]. apply wr_ok_untyped. reflexivity.
Qed.
(* try_create_account: allocate resets the data before assign hands the account over *)
Lemma create_account_tc cx W payer new len own add W' :
  create_account cx W payer new len own add = Ok W' -> typed_canonical W -> typed_canonical W'.
Proof.
  intros H HT. apply create_account_ok in H as (_ & _ & _ & _ & Hn & Hf). intros k c Hc.
  destruct (key_eq_dec k new) as [->|Hne].
  - apply canon_key_data_key in Hc. unfold hdr in Hn. injection Hn as _ _ Hd. rewrite Hd in Hc. discriminate.
  - apply HT. rewrite <- (canon_key_hdr _ _ (Hf k Hne)). exact Hc.
Qed.

(* SPL Token: writes DToken / DMint only *)
Lemma put_token_tc W k t : typed_canonical W -> typed_canonical (put_token W k t).
Proof. intros HT. unfold put_token. apply tc_put_wr; [exact HT|]. apply wr_ok_untyped. reflexivity. Qed.
Lemma tok_transfer_core_tc W ms src dst auth amt chk W' :
  tok_transfer_core W ms src dst auth amt chk = Ok W' -> typed_canonical W -> typed_canonical W'.
Proof.
  unfold tok_transfer_core. intros H HT. repeat rg_inv H; rg_norm; subst; try assumption.
  all: apply put_token_tc, put_token_tc; exact HT.
Qed.
Lemma tok_transfer_tc cx W src dst auth amt pdas W' :
  tok_transfer cx W src dst auth amt pdas = Ok W' -> typed_canonical W -> typed_canonical W'.
Proof. unfold tok_transfer. intros H. rg_inv H. eapply tok_transfer_core_tc; eassumption. Qed.
Lemma tok_transfer_checked_tc cx W src mint dst auth amt dec pdas W' :
  tok_transfer_checked cx W src mint dst auth amt dec pdas = Ok W' -> typed_canonical W -> typed_canonical W'.
Proof. unfold tok_transfer_checked. intros H. rg_inv H. eapply tok_transfer_core_tc; eassumption. Qed.
Lemma tok_burn_core_tc W ms acc mint auth amt W' :
  tok_burn_core W ms acc mint auth amt = Ok W' -> typed_canonical W -> typed_canonical W'.
Proof.
  unfold tok_burn_core. intros H HT. repeat rg_inv H; rg_norm; subst; try assumption.
  apply tc_put_wr; [apply put_token_tc; exact HT|]. apply wr_ok_untyped. reflexivity.
Qed.
Lemma tok_burn_tc cx W acc mint auth amt pdas W' :
  tok_burn cx W acc mint auth amt pdas = Ok W' -> typed_canonical W -> typed_canonical W'.
Proof. unfold tok_burn. intros H. rg_inv H. eapply tok_burn_core_tc; eassumption. Qed.
Lemma tok_init_account3_tc cx W acc mint own W' :
  tok_init_account3 cx W acc mint own = Ok W' -> typed_canonical W -> typed_canonical W'.
Proof.
  unfold tok_init_account3. intros H HT. repeat rg_inv H. rg_norm. subst.
  apply tc_put_wr; [exact HT|]. apply wr_ok_untyped. reflexivity.
Qed.
Lemma create_token_account_tc cx W payer new mint town W' :
  create_token_account cx W payer new mint town = Ok W' -> typed_canonical W -> typed_canonical W'.
Proof.
  unfold create_token_account. intros H HT. rg_inv H.
  eapply tok_init_account3_tc; [exact H|]. eapply create_account_tc; eassumption.
Qed.

(* ------------------------------------------------------------------------------------------------------------------ *)
(* 3. use-site reads under the invariant, composite recipes, the inversion tactic                                      *)

Lemma rd_zc_config_canon ms wr W k c tl :
  rd_zc_config ms wr W = Ok (k, c, tl) -> typed_canonical W -> k = KRdConfig.
Proof. intros H HT. apply rd_zc_config_ok in H as (m & _ & _ & _ & Ha). eapply rd_config_canonical; eassumption. Qed.
Lemma rd_zc_dist_canon ms wr W k d t tl :
  rd_zc_dist ms wr W = Ok (k, d, t, tl) -> typed_canonical W -> k = KRdDist (d_epoch d).
Proof. intros H HT. apply rd_zc_dist_ok in H as (m & _ & _ & _ & Ha). eapply rd_dist_canonical; eassumption. Qed.
Lemma rd_zc_journal_canon ms wr W k j tl :
  rd_zc_journal ms wr W = Ok (k, j, tl) -> typed_canonical W -> k = KRdJournal.
Proof. intros H HT. apply rd_zc_journal_ok in H as (m & _ & _ & _ & Ha). eapply rd_journal_canonical; eassumption. Qed.
Lemma rd_zc_deposit_canon ms wr W k d tl :
  rd_zc_deposit ms wr W = Ok (k, d, tl) -> typed_canonical W -> k = KRdDeposit (dp_node d).
Proof. intros H HT. apply rd_zc_deposit_ok in H as (m & _ & _ & _ & Ha). eapply rd_deposit_canonical; eassumption. Qed.
Lemma rd_zc_contrib_canon ms wr W k c tl :
  rd_zc_contrib ms wr W = Ok (k, c, tl) -> typed_canonical W -> k = KRdContrib (cr_service c).
Proof. intros H HT. apply rd_zc_contrib_ok in H as (m & _ & _ & _ & Ha). eapply rd_contrib_canonical; eassumption. Qed.
Lemma rd_verified_canon ms wr who W k c tl :
  rd_verified ms wr who W = Ok (k, c, tl) -> typed_canonical W -> k = KRdConfig.
Proof.
  intros H HT. apply rd_verified_ok in H as (m & a & _ & _ & _ & Ha & _). eapply rd_config_canonical; eassumption.
Qed.

Lemma pp_zc_config_ok ms wr W k c tl :
  pp_zc_config ms wr W = Ok (k, c, tl) ->
  exists m, ms = m :: tl /\ k = mkey m /\ owner (get W k) = KPassport /\ data (get W k) = DPpConfig c.
Proof.
  unfold pp_zc_config. intros H. repeat rg_inv H. rg_norm. subst.
  apply next_account_ok in E as (-> & _ & _ & Ho). eexists; repeat split; eauto.
Qed.
Lemma pp_zc_request_ok ms W k r tl :
  pp_zc_request ms W = Ok (k, r, tl) ->
  exists m, ms = m :: tl /\ k = mkey m /\ owner (get W k) = KPassport /\ data (get W k) = DAccessReq r.
Proof.
  unfold pp_zc_request. intros H. repeat rg_inv H. rg_norm. subst.
  apply next_account_ok in E as (-> & _ & _ & Ho). eexists; repeat split; eauto.
Qed.
Lemma pp_verified_ok ms wr who W k c a tl :
  pp_verified ms wr who W = Ok (k, c, a, tl) ->
  exists m0 m1, ms = m0 :: m1 :: tl /\ k = mkey m0 /\ a = mkey m1 /\ msigner m1 = true /\
    owner (get W k) = KPassport /\ data (get W k) = DPpConfig c /\
    a = match who with PAAdmin => pc_admin c | PASentinel => pc_sentinel c end.
Proof.
  unfold pp_verified. intros H. repeat rg_inv H. rg_norm. subst.
  apply pp_zc_config_ok in E as (m0 & -> & -> & Ho & Hd). apply next_account_ok in E0 as (-> & Hs & _ & _).
  do 2 eexists; repeat split; eauto.
Qed.
Lemma pp_zc_config_canon ms wr W k c tl :
  pp_zc_config ms wr W = Ok (k, c, tl) -> typed_canonical W -> k = KPpConfig.
Proof. intros H HT. apply pp_zc_config_ok in H as (m & _ & _ & Ho & Hd). eapply pp_config_canonical; eassumption. Qed.
Lemma pp_zc_request_canon ms W k r tl :
  pp_zc_request ms W = Ok (k, r, tl) -> typed_canonical W -> k = KPpRequest (ar_service r).
Proof. intros H HT. apply pp_zc_request_ok in H as (m & _ & _ & Ho & Hd). eapply pp_request_canonical; eassumption. Qed.
Lemma pp_verified_canon ms wr who W k c a tl :
  pp_verified ms wr who W = Ok (k, c, a, tl) -> typed_canonical W -> k = KPpConfig.
Proof.
  intros H HT. apply pp_verified_ok in H as (m0 & m1 & _ & _ & _ & _ & Ho & Hd & _). eapply pp_config_canonical; eassumption.
Qed.

(* side conditions `wr_ok k d` / `k = KRdDist (d_epoch d)` after the keys read under the invariant were substituted *)
Ltac tc_side :=
  try solve [ reflexivity
            | cbn; reflexivity
            | cbn; congruence
            | let c := fresh "c" in let Hc := fresh "Hc" in intros c Hc; cbn in Hc; congruence ].

Ltac tc_read E :=
  first
  [ eapply rd_verified_canon in E; [|eassumption]
  | eapply rd_zc_config_canon in E; [|eassumption]
  | eapply rd_zc_dist_canon in E; [|eassumption]
  | eapply rd_zc_journal_canon in E; [|eassumption]
  | eapply rd_zc_deposit_canon in E; [|eassumption]
  | eapply rd_zc_contrib_canon in E; [|eassumption]
  | eapply pp_verified_canon in E; [|eassumption]
  | eapply pp_zc_config_canon in E; [|eassumption]
  | eapply pp_zc_request_canon in E; [|eassumption] ];
  try (match type of E with ?k = _ => is_var k; subst k end).

(* the primitives proved so far; composite recipes are added below by redefinition *)
Ltac tc_prim E :=
  first
  [ eapply write_data_tc in E; [|eassumption|tc_side]
  | eapply put_dist_tc in E; [|eassumption|tc_side]
  | eapply try_initialize_tc in E; [|eassumption|tc_side]
  | eapply credit_tc in E; [|eassumption]
  | eapply debit_tc in E; [|eassumption]
  | eapply set_lamports_to_zero_tc in E; [|eassumption]
  | eapply resize_tc in E; [|eassumption]
  | eapply sys_transfer_tc in E; [|eassumption]
  | eapply create_account_tc in E; [|eassumption]
  | eapply create_token_account_tc in E; [|eassumption]
  | eapply tok_transfer_tc in E; [|eassumption]
  | eapply tok_transfer_checked_tc in E; [|eassumption]
  | eapply tok_burn_tc in E; [|eassumption] ].
Ltac tc_comp E := fail.
Ltac tc_char E := first [ tc_read E | tc_prim E | tc_comp E | idtac ].

Ltac tc_step H :=
  cbv zeta in H;
  lazymatch type of H with
  | bind ?m _ = Ok _ =>
      let E := fresh "E" in destruct m eqn:E; cbn [bind] in H; [|discriminate H];
      repeat lazymatch type of H with (let '(_, _) := ?p in _) = Ok _ => destruct p end;
      tc_char E
  | (if ?b then _ else _) = Ok _ => destruct b eqn:?
  | match ?x with _ => _ end = Ok _ => destruct x eqn:?; try discriminate H
  end.
Ltac tc_final H :=
  first [ assumption
        | injection H as <-; assumption
        | tc_char H; exact H ].
Ltac tc_go H := repeat tc_step H; tc_final H.

(* grow-and-fund tail of the three "append a bitmap" instructions *)
Lemma grow_and_fund_tc cx W dk d tail extra ms more W' :
  grow_and_fund cx W dk d tail extra ms more = Ok W' -> typed_canonical W -> dk = KRdDist (d_epoch d) -> typed_canonical W'.
Proof. unfold grow_and_fund. intros H HT Hk. tc_go H. Qed.
