(* Reachability invariant behind property C09: every typed revenue-distribution / passport state account sits at the
   canonical (derived) address for the identity its own content carries.  The processors identify their state accounts
   at USE sites by owner + type tag only (see rd_use_site_canonical_keys_refuted in Lemmas_RdGuards2.v); this file shows
   that in every world reachable without `OForge` that is enough.
   Contents: the invariant, the footprint of every primitive and every processor (22 RD + 6 passport + 3 mock swap),
   instructions / transactions / histories, use-site corollaries, examples.  Index at the end of the file.
   Why `typed_canonical` alone is inductive: typed data is written only by write_data / try_initialize (which demand
   owner = executing program) and every such write names the address the data belongs to; the owner of an account changes
   only in System create / allocate+assign, which reset the data to DEmpty first, and in `purge` (-> empty_acct). *)
From DZ Require Import Base Keys Merkle BurnRate Shares Swap_Ring State World SwapDeq RD Passport Swap Exec
  Lemmas_Merkle Lemmas_RdGuards.

(* ------------------------------------------------------------------------------------------------------------------ *)
(* the invariant                                                                                                      *)

(* canonical address of a typed program account, read off its content *)
Definition canon_key_of (a : acct) : option key :=
  if key_eqb (owner a) KRd then
    match data a with
    | DConfig _ => Some KRdConfig
    | DJournal _ => Some KRdJournal
    | DDist d _ => Some (KRdDist (d_epoch d))
    | DDeposit d => Some (KRdDeposit (dp_node d))
    | DContrib c => Some (KRdContrib (cr_service c))
    | _ => None
    end
  else if key_eqb (owner a) KPassport then
    match data a with
    | DPpConfig _ => Some KPpConfig
    | DAccessReq r => Some (KPpRequest (ar_service r))
    | _ => None
    end
  else None.
Definition typed_canonical (W : world) : Prop := forall k ck, canon_key_of (get W k) = Some ck -> ck = k.

(* the same, owner-independent: the address a piece of typed data belongs to, whoever owns the account *)
Definition data_key (d : adata) : option key :=
  match d with
  | DConfig _ => Some KRdConfig
  | DJournal _ => Some KRdJournal
  | DDist d _ => Some (KRdDist (d_epoch d))
  | DDeposit d => Some (KRdDeposit (dp_node d))
  | DContrib c => Some (KRdContrib (cr_service c))
  | DPpConfig _ => Some KPpConfig
  | DAccessReq r => Some (KPpRequest (ar_service r))
  | _ => None
  end.
(* "writing d at k is harmless": d is untyped or k is the address d names *)
Definition wr_ok (k : key) (d : adata) : Prop := forall c, data_key d = Some c -> c = k.

Lemma canon_key_data_key a c : canon_key_of a = Some c -> data_key (data a) = Some c.
Proof.
  unfold canon_key_of. destruct (key_eqb (owner a) KRd); [|destruct (key_eqb (owner a) KPassport)];
    destruct (data a); cbn [data_key]; congruence.
Qed.
Lemma canon_key_hdr a b : hdr a = hdr b -> canon_key_of a = canon_key_of b.
Proof. intros H. apply hdr_fields in H as (Ho & _ & Hd). unfold canon_key_of. rewrite Ho, Hd. reflexivity. Qed.
Lemma canon_key_od a b : owner a = owner b -> data a = data b -> canon_key_of a = canon_key_of b.
Proof. intros Ho Hd. unfold canon_key_of. rewrite Ho, Hd. reflexivity. Qed.
Lemma canon_key_empty : canon_key_of empty_acct = None.
Proof. reflexivity. Qed.

Lemma tc_put W k a : typed_canonical W -> (forall c, canon_key_of a = Some c -> c = k) -> typed_canonical (put W k a).
Proof.
  intros HT Ha k' c. rewrite get_put. destruct (key_eqb k k') eqn:Ek.
  - apply key_eqb_eq in Ek. subst k'. apply Ha.
  - apply HT.
Qed.
Lemma tc_put_wr W k a : typed_canonical W -> wr_ok k (data a) -> typed_canonical (put W k a).
Proof. intros HT Ha. apply tc_put; [exact HT|]. intros c Hc. apply Ha. apply canon_key_data_key. exact Hc. Qed.
Lemma tc_put_same W k a : typed_canonical W -> canon_key_of a = canon_key_of (get W k) -> typed_canonical (put W k a).
Proof. intros HT Ha. apply tc_put; [exact HT|]. intros c Hc. apply HT. rewrite <- Ha. exact Hc. Qed.
Lemma tc_hdr W W' : (forall k, hdr (get W' k) = hdr (get W k)) -> typed_canonical W -> typed_canonical W'.
Proof. intros Hh HT k c Hc. apply HT. rewrite <- (canon_key_hdr _ _ (Hh k)). exact Hc. Qed.

(* what the invariant says at a use site *)
Lemma typed_canonical_at W k c : typed_canonical W -> canon_key_of (get W k) = Some c -> c = k.
Proof. intros HT Hc. apply HT. exact Hc. Qed.
(* the identity a typed account carries cannot differ between two worlds satisfying the invariant (same address) *)
Lemma canon_identity_stable W W' k c c' :
  typed_canonical W -> typed_canonical W' -> canon_key_of (get W k) = Some c -> canon_key_of (get W' k) = Some c' -> c = c'.
Proof. intros HT HT' Hc Hc'. rewrite (HT _ _ Hc), (HT' _ _ Hc'). reflexivity. Qed.
Lemma rd_config_canonical W k c : typed_canonical W -> rd_acct W k (DConfig c) -> k = KRdConfig.
Proof. intros HT (Ho & Hd). symmetry. apply HT. unfold canon_key_of. rewrite Ho, Hd. reflexivity. Qed.
Lemma rd_journal_canonical W k j : typed_canonical W -> rd_acct W k (DJournal j) -> k = KRdJournal.
Proof. intros HT (Ho & Hd). symmetry. apply HT. unfold canon_key_of. rewrite Ho, Hd. reflexivity. Qed.
Lemma rd_dist_canonical W k d t : typed_canonical W -> rd_acct W k (DDist d t) -> k = KRdDist (d_epoch d).
Proof. intros HT (Ho & Hd). symmetry. apply HT. unfold canon_key_of. rewrite Ho, Hd. reflexivity. Qed.
Lemma rd_deposit_canonical W k d : typed_canonical W -> rd_acct W k (DDeposit d) -> k = KRdDeposit (dp_node d).
Proof. intros HT (Ho & Hd). symmetry. apply HT. unfold canon_key_of. rewrite Ho, Hd. reflexivity. Qed.
Lemma rd_contrib_canonical W k c : typed_canonical W -> rd_acct W k (DContrib c) -> k = KRdContrib (cr_service c).
Proof. intros HT (Ho & Hd). symmetry. apply HT. unfold canon_key_of. rewrite Ho, Hd. reflexivity. Qed.
Lemma pp_config_canonical W k c :
  typed_canonical W -> owner (get W k) = KPassport -> data (get W k) = DPpConfig c -> k = KPpConfig.
Proof. intros HT Ho Hd. symmetry. apply HT. unfold canon_key_of. rewrite Ho, Hd. reflexivity. Qed.
Lemma pp_request_canonical W k r :
  typed_canonical W -> owner (get W k) = KPassport -> data (get W k) = DAccessReq r -> k = KPpRequest (ar_service r).
Proof. intros HT Ho Hd. symmetry. apply HT. unfold canon_key_of. rewrite Ho, Hd. reflexivity. Qed.
(* the generic per-type statements, in the `owner = .. -> data = ..` form *)
Lemma rd_acct_canonical_config W k c :
  typed_canonical W -> owner (get W k) = KRd -> data (get W k) = DConfig c -> k = KRdConfig.
Proof. intros HT Ho Hd. eapply rd_config_canonical; [exact HT|split; eassumption]. Qed.
Lemma rd_acct_canonical_journal W k j :
  typed_canonical W -> owner (get W k) = KRd -> data (get W k) = DJournal j -> k = KRdJournal.
Proof. intros HT Ho Hd. eapply rd_journal_canonical; [exact HT|split; eassumption]. Qed.
Lemma rd_acct_canonical_dist W k d t :
  typed_canonical W -> owner (get W k) = KRd -> data (get W k) = DDist d t -> k = KRdDist (d_epoch d).
Proof. intros HT Ho Hd. eapply rd_dist_canonical; [exact HT|split; eassumption]. Qed.
Lemma rd_acct_canonical_deposit W k d :
  typed_canonical W -> owner (get W k) = KRd -> data (get W k) = DDeposit d -> k = KRdDeposit (dp_node d).
Proof. intros HT Ho Hd. eapply rd_deposit_canonical; [exact HT|split; eassumption]. Qed.
Lemma rd_acct_canonical_contrib W k c :
  typed_canonical W -> owner (get W k) = KRd -> data (get W k) = DContrib c -> k = KRdContrib (cr_service c).
Proof. intros HT Ho Hd. eapply rd_contrib_canonical; [exact HT|split; eassumption]. Qed.
Definition rd_acct_canonical := rd_acct_canonical_dist.

(* ------------------------------------------------------------------------------------------------------------------ *)
(* 1. initial worlds                                                                                                  *)

Lemma get_world0 k : get world0 k = empty_acct.
Proof. reflexivity. Qed.
Theorem typed_canonical_world0 : typed_canonical world0.
Proof. intros k c. rewrite get_world0, canon_key_empty. discriminate. Qed.
Theorem typed_canonical_untyped W :
  (forall k, owner (get W k) = KRd \/ owner (get W k) = KPassport -> data (get W k) = DEmpty) -> typed_canonical W.
Proof.
  intros H k c Hc. exfalso. specialize (H k). unfold canon_key_of in Hc.
  destruct (key_eqb (owner (get W k)) KRd) eqn:E1.
  - apply key_eqb_eq in E1. rewrite (H (or_introl E1)) in Hc. discriminate.
  - destruct (key_eqb (owner (get W k)) KPassport) eqn:E2; [|discriminate].
    apply key_eqb_eq in E2. rewrite (H (or_intror E2)) in Hc. discriminate.
Qed.
Theorem typed_canonical_init :
  typed_canonical world0 /\
  forall W, (forall k, owner (get W k) = KRd \/ owner (get W k) = KPassport -> data (get W k) = DEmpty) -> typed_canonical W.
Proof. split; [exact typed_canonical_world0|exact typed_canonical_untyped]. Qed.

(* ------------------------------------------------------------------------------------------------------------------ *)
(* 2. footprint of the runtime primitives: each one keeps the invariant                                               *)

Lemma wr_ok_untyped k d : data_key d = None -> wr_ok k d.
Proof. intros H c Hc. congruence. Qed.

Lemma credit_tc cx W k amt W' : credit cx W k amt = Ok W' -> typed_canonical W -> typed_canonical W'.
Proof. intros H. apply tc_hdr. eapply credit_hdr; eassumption. Qed.
Lemma debit_tc cx W k amt W' : debit cx W k amt = Ok W' -> typed_canonical W -> typed_canonical W'.
Proof. intros H. apply tc_hdr. eapply debit_hdr; eassumption. Qed.
Lemma set_lamports_to_zero_tc cx W k W' : set_lamports_to_zero cx W k = Ok W' -> typed_canonical W -> typed_canonical W'.
Proof. apply debit_tc. Qed.
Lemma resize_tc cx W k n W' : resize cx W k n = Ok W' -> typed_canonical W -> typed_canonical W'.
Proof. intros H HT. apply resize_ok in H as (_ & _ & ->). apply tc_put_same; [exact HT|reflexivity]. Qed.
Lemma write_data_tc cx W k d W' : write_data cx W k d = Ok W' -> typed_canonical W -> wr_ok k d -> typed_canonical W'.
Proof. intros H HT Hd. apply write_data_ok in H as (_ & _ & ->). apply tc_put_wr; [exact HT|exact Hd]. Qed.
Lemma put_dist_tc cx W k d t W' :
  put_dist cx W k d t = Ok W' -> typed_canonical W -> k = KRdDist (d_epoch d) -> typed_canonical W'.
Proof. intros H HT Hk. eapply write_data_tc; [exact H|exact HT|]. intros c Hc. cbn in Hc. congruence. Qed.
Lemma try_initialize_tc cx W k len d W' :
  try_initialize cx W k len d = Ok W' -> typed_canonical W -> wr_ok k d -> typed_canonical W'.
Proof. intros H HT Hd. apply try_initialize_ok in H as (_ & _ & _ & _ & ->). apply tc_put_wr; [exact HT|exact Hd]. Qed.

(* System program *)
Lemma sys_transfer_core_tc W ms from to amt W' :
  sys_transfer_core W ms from to amt = Ok W' -> typed_canonical W -> typed_canonical W'.
Proof. intros H. apply tc_hdr. eapply sys_transfer_core_hdr; eassumption. Qed.
Lemma sys_transfer_tc cx W from to amt pdas W' :
  sys_transfer cx W from to amt pdas = Ok W' -> typed_canonical W -> typed_canonical W'.
Proof. intros H. apply tc_hdr. eapply sys_transfer_hdr; eassumption. Qed.
Lemma sys_allocate_core_tc W ms k space W' :
  sys_allocate_core W ms k space = Ok W' -> typed_canonical W -> typed_canonical W'.
Proof.
  unfold sys_allocate_core. intros H HT. repeat rg_inv H. rg_norm. subst.
  apply tc_put_wr; [exact HT|]. apply wr_ok_untyped. reflexivity.
Qed.
Lemma sys_create_account_core_tc W ms from to lam space own W' :
  sys_create_account_core W ms from to lam space own = Ok W' -> typed_canonical W -> typed_canonical W'.
Proof.
  unfold sys_create_account_core. intros H HT. repeat rg_inv H.
  eapply sys_transfer_core_tc; [exact H|]. apply tc_put_wr; [exact HT|]. apply wr_ok_untyped. reflexivity.
Qed.
(* try_create_account: allocate resets the data before assign hands the account over *)
Lemma create_account_tc cx W payer new len own add W' :
  create_account cx W payer new len own add = Ok W' -> typed_canonical W -> typed_canonical W'.
Proof.
  intros H HT. apply create_account_ok in H as (_ & _ & _ & _ & Hn & Hf). intros k c Hc.
  destruct (key_eq_dec k new) as [->|Hne].
  - apply canon_key_data_key in Hc. unfold hdr in Hn. injection Hn as _ _ Hd. rewrite Hd in Hc. discriminate.
  - apply HT. rewrite <- (canon_key_hdr _ _ (Hf k Hne)). exact Hc.
Qed.

(* SPL Token: writes DToken / DMint only *)
Lemma put_token_tc W k t : typed_canonical W -> typed_canonical (put_token W k t).
Proof. intros HT. unfold put_token. apply tc_put_wr; [exact HT|]. apply wr_ok_untyped. reflexivity. Qed.
Lemma tok_transfer_core_tc W ms src dst auth amt chk W' :
  tok_transfer_core W ms src dst auth amt chk = Ok W' -> typed_canonical W -> typed_canonical W'.
Proof.
  unfold tok_transfer_core. intros H HT. repeat rg_inv H; rg_norm; subst; try assumption.
  all: apply put_token_tc, put_token_tc; exact HT.
Qed.
Lemma tok_transfer_tc cx W src dst auth amt pdas W' :
  tok_transfer cx W src dst auth amt pdas = Ok W' -> typed_canonical W -> typed_canonical W'.
Proof. unfold tok_transfer. intros H. rg_inv H. eapply tok_transfer_core_tc; eassumption. Qed.
Lemma tok_transfer_checked_tc cx W src mint dst auth amt dec pdas W' :
  tok_transfer_checked cx W src mint dst auth amt dec pdas = Ok W' -> typed_canonical W -> typed_canonical W'.
Proof. unfold tok_transfer_checked. intros H. rg_inv H. eapply tok_transfer_core_tc; eassumption. Qed.
Lemma tok_burn_core_tc W ms acc mint auth amt W' :
  tok_burn_core W ms acc mint auth amt = Ok W' -> typed_canonical W -> typed_canonical W'.
Proof.
  unfold tok_burn_core. intros H HT. repeat rg_inv H; rg_norm; subst; try assumption.
  apply tc_put_wr; [apply put_token_tc; exact HT|]. apply wr_ok_untyped. reflexivity.
Qed.
Lemma tok_burn_tc cx W acc mint auth amt pdas W' :
  tok_burn cx W acc mint auth amt pdas = Ok W' -> typed_canonical W -> typed_canonical W'.
Proof. unfold tok_burn. intros H. rg_inv H. eapply tok_burn_core_tc; eassumption. Qed.
Lemma tok_init_account3_tc cx W acc mint own W' :
  tok_init_account3 cx W acc mint own = Ok W' -> typed_canonical W -> typed_canonical W'.
Proof.
  unfold tok_init_account3. intros H HT. repeat rg_inv H. rg_norm. subst.
  apply tc_put_wr; [exact HT|]. apply wr_ok_untyped. reflexivity.
Qed.
Lemma create_token_account_tc cx W payer new mint town W' :
  create_token_account cx W payer new mint town = Ok W' -> typed_canonical W -> typed_canonical W'.
Proof.
  unfold create_token_account. intros H HT. rg_inv H.
  eapply tok_init_account3_tc; [exact H|]. eapply create_account_tc; eassumption.
Qed.

(* ------------------------------------------------------------------------------------------------------------------ *)
(* 3. use-site reads under the invariant, composite recipes, the inversion tactic                                      *)

Lemma rd_zc_config_canon ms wr W k c tl :
  rd_zc_config ms wr W = Ok (k, c, tl) -> typed_canonical W -> k = KRdConfig.
Proof. intros H HT. apply rd_zc_config_ok in H as (m & _ & _ & _ & Ha). eapply rd_config_canonical; eassumption. Qed.
Lemma rd_zc_dist_canon ms wr W k d t tl :
  rd_zc_dist ms wr W = Ok (k, d, t, tl) -> typed_canonical W -> k = KRdDist (d_epoch d).
Proof. intros H HT. apply rd_zc_dist_ok in H as (m & _ & _ & _ & Ha). eapply rd_dist_canonical; eassumption. Qed.
Lemma rd_zc_journal_canon ms wr W k j tl :
  rd_zc_journal ms wr W = Ok (k, j, tl) -> typed_canonical W -> k = KRdJournal.
Proof. intros H HT. apply rd_zc_journal_ok in H as (m & _ & _ & _ & Ha). eapply rd_journal_canonical; eassumption. Qed.
Lemma rd_zc_deposit_canon ms wr W k d tl :
  rd_zc_deposit ms wr W = Ok (k, d, tl) -> typed_canonical W -> k = KRdDeposit (dp_node d).
Proof. intros H HT. apply rd_zc_deposit_ok in H as (m & _ & _ & _ & Ha). eapply rd_deposit_canonical; eassumption. Qed.
Lemma rd_zc_contrib_canon ms wr W k c tl :
  rd_zc_contrib ms wr W = Ok (k, c, tl) -> typed_canonical W -> k = KRdContrib (cr_service c).
Proof. intros H HT. apply rd_zc_contrib_ok in H as (m & _ & _ & _ & Ha). eapply rd_contrib_canonical; eassumption. Qed.
Lemma rd_verified_canon ms wr who W k c tl :
  rd_verified ms wr who W = Ok (k, c, tl) -> typed_canonical W -> k = KRdConfig.
Proof.
  intros H HT. apply rd_verified_ok in H as (m & a & _ & _ & _ & Ha & _). eapply rd_config_canonical; eassumption.
Qed.

Lemma pp_zc_config_ok ms wr W k c tl :
  pp_zc_config ms wr W = Ok (k, c, tl) ->
  exists m, ms = m :: tl /\ k = mkey m /\ owner (get W k) = KPassport /\ data (get W k) = DPpConfig c.
Proof.
  unfold pp_zc_config. intros H. repeat rg_inv H. rg_norm. subst.
  apply next_account_ok in E as (-> & _ & _ & Ho). eexists; repeat split; eauto.
Qed.
Lemma pp_zc_request_ok ms W k r tl :
  pp_zc_request ms W = Ok (k, r, tl) ->
  exists m, ms = m :: tl /\ k = mkey m /\ owner (get W k) = KPassport /\ data (get W k) = DAccessReq r.
Proof.
  unfold pp_zc_request. intros H. repeat rg_inv H. rg_norm. subst.
  apply next_account_ok in E as (-> & _ & _ & Ho). eexists; repeat split; eauto.
Qed.
Lemma pp_verified_ok ms wr who W k c a tl :
  pp_verified ms wr who W = Ok (k, c, a, tl) ->
  exists m0 m1, ms = m0 :: m1 :: tl /\ k = mkey m0 /\ a = mkey m1 /\ msigner m1 = true /\
    owner (get W k) = KPassport /\ data (get W k) = DPpConfig c /\
    a = match who with PAAdmin => pc_admin c | PASentinel => pc_sentinel c end.
Proof.
  unfold pp_verified. intros H. repeat rg_inv H. rg_norm. subst.
  apply pp_zc_config_ok in E as (m0 & -> & -> & Ho & Hd). apply next_account_ok in E0 as (-> & Hs & _ & _).
  do 2 eexists; repeat split; eauto.
Qed.
Lemma pp_zc_config_canon ms wr W k c tl :
  pp_zc_config ms wr W = Ok (k, c, tl) -> typed_canonical W -> k = KPpConfig.
Proof. intros H HT. apply pp_zc_config_ok in H as (m & _ & _ & Ho & Hd). eapply pp_config_canonical; eassumption. Qed.
Lemma pp_zc_request_canon ms W k r tl :
  pp_zc_request ms W = Ok (k, r, tl) -> typed_canonical W -> k = KPpRequest (ar_service r).
Proof. intros H HT. apply pp_zc_request_ok in H as (m & _ & _ & Ho & Hd). eapply pp_request_canonical; eassumption. Qed.
Lemma pp_verified_canon ms wr who W k c a tl :
  pp_verified ms wr who W = Ok (k, c, a, tl) -> typed_canonical W -> k = KPpConfig.
Proof.
  intros H HT. apply pp_verified_ok in H as (m0 & m1 & _ & _ & _ & _ & Ho & Hd & _). eapply pp_config_canonical; eassumption.
Qed.

(* side conditions `wr_ok k d` / `k = KRdDist (d_epoch d)` after the keys read under the invariant were substituted *)
Ltac tc_side :=
  try solve [ reflexivity
            | cbn; reflexivity
            | cbn; congruence
            | let c := fresh "c" in let Hc := fresh "Hc" in intros c Hc; cbn in Hc; congruence ].

Ltac tc_read E :=
  first
  [ eapply rd_verified_canon in E; [|eassumption]
  | eapply rd_zc_config_canon in E; [|eassumption]
  | eapply rd_zc_dist_canon in E; [|eassumption]
  | eapply rd_zc_journal_canon in E; [|eassumption]
  | eapply rd_zc_deposit_canon in E; [|eassumption]
  | eapply rd_zc_contrib_canon in E; [|eassumption]
  | eapply pp_verified_canon in E; [|eassumption]
  | eapply pp_zc_config_canon in E; [|eassumption]
  | eapply pp_zc_request_canon in E; [|eassumption] ];
  try (match type of E with ?k = _ => is_var k; subst k end).

(* the primitives proved so far; composite recipes are added below by redefinition *)
Ltac tc_prim E :=
  first
  [ eapply write_data_tc in E; [|eassumption|tc_side]
  | eapply put_dist_tc in E; [|eassumption|tc_side]
  | eapply try_initialize_tc in E; [|eassumption|tc_side]
  | eapply credit_tc in E; [|eassumption]
  | eapply debit_tc in E; [|eassumption]
  | eapply set_lamports_to_zero_tc in E; [|eassumption]
  | eapply resize_tc in E; [|eassumption]
  | eapply sys_transfer_tc in E; [|eassumption]
  | eapply create_account_tc in E; [|eassumption]
  | eapply create_token_account_tc in E; [|eassumption]
  | eapply tok_transfer_tc in E; [|eassumption]
  | eapply tok_transfer_checked_tc in E; [|eassumption]
  | eapply tok_burn_tc in E; [|eassumption] ].
Ltac tc_comp E := fail.
Ltac tc_char E := first [ tc_read E | tc_prim E | tc_comp E | idtac ].

Ltac tc_step H :=
  cbv zeta in H;
  lazymatch type of H with
  | bind ?m _ = Ok _ =>
      let E := fresh "E" in destruct m eqn:E; cbn [bind] in H; [|discriminate H];
      repeat lazymatch type of H with (let '(_, _) := ?p in _) = Ok _ => destruct p end;
      tc_char E
  | (if ?b then _ else _) = Ok _ => destruct b eqn:?
  | match ?x with _ => _ end = Ok _ => destruct x eqn:?; try discriminate H
  end.
Ltac tc_final H :=
  first [ assumption
        | injection H as <-; assumption
        | tc_char H; exact H ].
Ltac tc_go H := repeat tc_step H; tc_final H.

(* grow-and-fund tail of the three "append a bitmap" instructions *)
Lemma grow_and_fund_tc cx W dk d tail extra ms more W' :
  grow_and_fund cx W dk d tail extra ms more = Ok W' -> typed_canonical W -> dk = KRdDist (d_epoch d) -> typed_canonical W'.
Proof. unfold grow_and_fund. intros H HT Hk. tc_go H. Qed.

Lemma distribute_loop_tc cx recips : forall W ms remaining src auth pdas acc W' tot ms',
  distribute_loop cx W ms recips remaining src auth pdas acc = Ok (W', tot, ms') -> typed_canonical W -> typed_canonical W'.
Proof.
  induction recips as [|[rk share] tl IH]; intros W ms remaining src auth pdas acc W' tot ms' H HT; cbn [distribute_loop] in H.
  - injection H as <- _ _. exact HT.
  - repeat tc_step H. eapply IH; eassumption.
Qed.

(* the DequeueFills CPI: the mock writes DFills onto an account it owns; scripted programs write nothing *)
Lemma sw_dequeue_fills_tc cx W sol W' rep :
  sw_dequeue_fills cx W sol = Ok (W', rep) -> typed_canonical W -> typed_canonical W'.
Proof. unfold sw_dequeue_fills. intros H HT. repeat tc_step H. injection H as <- _. assumption. Qed.
Lemma swap_dequeue_cpi_tc cx W swap cfg st fills jk sol pdas W' rep :
  swap_dequeue_cpi cx W swap cfg st fills jk sol pdas = Ok (W', rep) -> typed_canonical W -> typed_canonical W'.
Proof.
  unfold swap_dequeue_cpi. intros H HT. tc_step H. destruct swap; try discriminate H.
  - eapply sw_dequeue_fills_tc; eassumption.
  - destruct (data (get W fills)) as [| | | | | | | | | | | |[r|]|]; injection H as <- _; exact HT.
Qed.

Ltac tc_comp E ::=
  first
  [ eapply grow_and_fund_tc in E; [|eassumption|tc_side]
  | eapply distribute_loop_tc in E; [|eassumption]
  | eapply swap_dequeue_cpi_tc in E; [|eassumption]
  | eapply sw_dequeue_fills_tc in E; [|eassumption] ].

(* ------------------------------------------------------------------------------------------------------------------ *)
(* 4. every revenue-distribution processor keeps the invariant                                                        *)

Lemma rd_initialize_program_tc cx W W' : rd_initialize_program cx W = Ok W' -> typed_canonical W -> typed_canonical W'.
Proof. unfold rd_initialize_program. intros H HT. tc_go H. Qed.
Lemma rd_set_admin_tc cx W k W' : rd_set_admin cx W k = Ok W' -> typed_canonical W -> typed_canonical W'.
Proof. unfold rd_set_admin. intros H HT. tc_go H. Qed.
Lemma rd_migrate_tc cx W W' : rd_migrate cx W = Ok W' -> typed_canonical W -> typed_canonical W'.
Proof. unfold rd_migrate. intros H HT. tc_go H. Qed.
Lemma rd_configure_program_tc cx W s W' : rd_configure_program cx W s = Ok W' -> typed_canonical W -> typed_canonical W'.
Proof. unfold rd_configure_program. intros H HT. tc_go H. Qed.
Lemma rd_initialize_journal_tc cx W W' : rd_initialize_journal cx W = Ok W' -> typed_canonical W -> typed_canonical W'.
Proof. unfold rd_initialize_journal. intros H HT. tc_go H. Qed.
Lemma rd_initialize_distribution_tc cx W W' :
  rd_initialize_distribution cx W = Ok W' -> typed_canonical W -> typed_canonical W'.
Proof. unfold rd_initialize_distribution. intros H HT. tc_go H. Qed.
Lemma rd_configure_debt_tc cx W n debt root W' :
  rd_configure_debt cx W n debt root = Ok W' -> typed_canonical W -> typed_canonical W'.
Proof. unfold rd_configure_debt. intros H HT. tc_go H. Qed.
Lemma rd_finalize_debt_tc cx W W' : rd_finalize_debt cx W = Ok W' -> typed_canonical W -> typed_canonical W'.
Proof. unfold rd_finalize_debt. intros H HT. tc_go H. Qed.
Lemma rd_configure_rewards_tc cx W n root W' :
  rd_configure_rewards cx W n root = Ok W' -> typed_canonical W -> typed_canonical W'.
Proof. unfold rd_configure_rewards. intros H HT. tc_go H. Qed.
Lemma rd_finalize_rewards_tc cx W W' : rd_finalize_rewards cx W = Ok W' -> typed_canonical W -> typed_canonical W'.
Proof. unfold rd_finalize_rewards. intros H HT. tc_go H. Qed.
Lemma rd_distribute_rewards_tc cx W us ebr p W' :
  rd_distribute_rewards cx W us ebr p = Ok W' -> typed_canonical W -> typed_canonical W'.
Proof. unfold rd_distribute_rewards. intros H HT. tc_go H. Qed.
Lemma rd_initialize_contributor_tc cx W svc W' :
  rd_initialize_contributor cx W svc = Ok W' -> typed_canonical W -> typed_canonical W'.
Proof. unfold rd_initialize_contributor. intros H HT. tc_go H. Qed.
Lemma rd_set_rewards_manager_tc cx W k W' :
  rd_set_rewards_manager cx W k = Ok W' -> typed_canonical W -> typed_canonical W'.
Proof. unfold rd_set_rewards_manager. intros H HT. tc_go H. Qed.
Lemma rd_configure_contributor_tc cx W s W' :
  rd_configure_contributor cx W s = Ok W' -> typed_canonical W -> typed_canonical W'.
Proof. unfold rd_configure_contributor. intros H HT. tc_go H. Qed.
Lemma rd_verify_root_tc cx W kind p W' : rd_verify_root cx W kind p = Ok W' -> typed_canonical W -> typed_canonical W'.
Proof. unfold rd_verify_root. intros H HT. tc_go H. Qed.
Lemma rd_initialize_deposit_tc cx W node W' :
  rd_initialize_deposit cx W node = Ok W' -> typed_canonical W -> typed_canonical W'.
Proof. unfold rd_initialize_deposit. intros H HT. tc_go H. Qed.
Lemma rd_pay_debt_tc cx W amount p W' : rd_pay_debt cx W amount p = Ok W' -> typed_canonical W -> typed_canonical W'.
Proof. unfold rd_pay_debt. intros H HT. tc_go H. Qed.
Lemma rd_enable_write_off_tc cx W W' : rd_enable_write_off cx W = Ok W' -> typed_canonical W -> typed_canonical W'.
Proof. unfold rd_enable_write_off. intros H HT. tc_go H. Qed.
Lemma rd_write_off_tc cx W amount p W' : rd_write_off cx W amount p = Ok W' -> typed_canonical W -> typed_canonical W'.
Proof. unfold rd_write_off. intros H HT. tc_go H. Qed.
Lemma rd_initialize_swap_destination_tc cx W W' :
  rd_initialize_swap_destination cx W = Ok W' -> typed_canonical W -> typed_canonical W'.
Proof. unfold rd_initialize_swap_destination. intros H HT. tc_go H. Qed.
Lemma rd_sweep_tc cx W W' : rd_sweep cx W = Ok W' -> typed_canonical W -> typed_canonical W'.
Proof. unfold rd_sweep. intros H HT. tc_go H. Qed.
Lemma rd_withdraw_sol_tc cx W amount W' : rd_withdraw_sol cx W amount = Ok W' -> typed_canonical W -> typed_canonical W'.
Proof. unfold rd_withdraw_sol. intros H HT. tc_go H. Qed.

Theorem rd_process_tc cx W ix W' : rd_process cx W ix = Ok W' -> typed_canonical W -> typed_canonical W'.
Proof.
  destruct ix; cbn [rd_process].
  - apply rd_initialize_program_tc.
  - apply rd_migrate_tc.
  - apply rd_set_admin_tc.
  - apply rd_configure_program_tc.
  - apply rd_initialize_journal_tc.
  - apply rd_initialize_distribution_tc.
  - apply rd_configure_debt_tc.
  - apply rd_finalize_debt_tc.
  - apply rd_configure_rewards_tc.
  - apply rd_finalize_rewards_tc.
  - apply rd_distribute_rewards_tc.
  - apply rd_initialize_contributor_tc.
  - apply rd_set_rewards_manager_tc.
  - apply rd_configure_contributor_tc.
  - apply rd_verify_root_tc.
  - apply rd_initialize_deposit_tc.
  - apply rd_pay_debt_tc.
  - apply rd_enable_write_off_tc.
  - apply rd_write_off_tc.
  - apply rd_initialize_swap_destination_tc.
  - apply rd_sweep_tc.
  - apply rd_withdraw_sol_tc.
Qed.

(* ------------------------------------------------------------------------------------------------------------------ *)
(* 5. passport and the mock swap program                                                                              *)

Lemma pp_initialize_program_tc cx W W' : pp_initialize_program cx W = Ok W' -> typed_canonical W -> typed_canonical W'.
Proof. unfold pp_initialize_program. intros H HT. tc_go H. Qed.
Lemma pp_set_admin_tc cx W k W' : pp_set_admin cx W k = Ok W' -> typed_canonical W -> typed_canonical W'.
Proof. unfold pp_set_admin. intros H HT. tc_go H. Qed.
Lemma pp_configure_program_tc cx W s W' : pp_configure_program cx W s = Ok W' -> typed_canonical W -> typed_canonical W'.
Proof. unfold pp_configure_program. intros H HT. tc_go H. Qed.
Lemma pp_request_access_tc cx W m W' : pp_request_access cx W m = Ok W' -> typed_canonical W -> typed_canonical W'.
Proof. unfold pp_request_access. intros H HT. tc_go H. Qed.
Lemma pp_grant_access_tc cx W W' : pp_grant_access cx W = Ok W' -> typed_canonical W -> typed_canonical W'.
Proof. unfold pp_grant_access. intros H HT. tc_go H. Qed.
Lemma pp_deny_access_tc cx W W' : pp_deny_access cx W = Ok W' -> typed_canonical W -> typed_canonical W'.
Proof. unfold pp_deny_access. intros H HT. tc_go H. Qed.
Theorem pp_process_tc cx W ix W' : pp_process cx W ix = Ok W' -> typed_canonical W -> typed_canonical W'.
Proof.
  destruct ix; cbn [pp_process].
  - apply pp_initialize_program_tc.
  - apply pp_set_admin_tc.
  - apply pp_configure_program_tc.
  - apply pp_request_access_tc.
  - apply pp_grant_access_tc.
  - apply pp_deny_access_tc.
Qed.

Lemma withdraw_sol_cpi_tc cx W cfg auth jk dest sol sib W' :
  withdraw_sol_cpi cx W cfg auth jk dest sol sib = Ok W' -> typed_canonical W -> typed_canonical W'.
Proof. unfold withdraw_sol_cpi. intros H HT. tc_step H. eapply rd_withdraw_sol_tc; eassumption. Qed.
Ltac tc_comp E ::=
  first
  [ eapply grow_and_fund_tc in E; [|eassumption|tc_side]
  | eapply distribute_loop_tc in E; [|eassumption]
  | eapply swap_dequeue_cpi_tc in E; [|eassumption]
  | eapply sw_dequeue_fills_tc in E; [|eassumption]
  | eapply withdraw_sol_cpi_tc in E; [|eassumption] ].

Lemma sw_initialize_tc cx W W' : sw_initialize cx W = Ok W' -> typed_canonical W -> typed_canonical W'.
Proof. unfold sw_initialize. intros H HT. tc_go H. Qed.
Lemma sw_buy_sol_tc cx W z sol W' : sw_buy_sol cx W z sol = Ok W' -> typed_canonical W -> typed_canonical W'.
Proof. unfold sw_buy_sol. intros H HT. tc_go H. Qed.
Theorem sw_process_tc cx W ix W' : sw_process cx W ix = Ok W' -> typed_canonical W -> typed_canonical W'.
Proof.
  destruct ix; cbn [sw_process].
  - apply sw_initialize_tc.
  - apply sw_buy_sol_tc.
  - intros H HT. tc_go H.
Qed.

(* ------------------------------------------------------------------------------------------------------------------ *)
(* 6. instructions (top-level System / Token instructions and rogue CPI wrappers included), transactions              *)

Theorem exec_data_tc d : forall prog ms h sib W W',
  exec_data prog d ms h sib W = Ok W' -> typed_canonical W -> typed_canonical W'.
Proof.
  induction d as [i|i|i|amt|lam space o|amt|amt dec|amt|inner IH|z sol|]; intros prog ms h sib W W' H HT;
    cbn [exec_data] in H; apply bind_ok in H as (W1 & E & H); apply bind_ok in H as (u & _ & H); injection H as <-.
  - destruct prog; try discriminate E. eapply pp_process_tc; eassumption.
  - destruct prog; try discriminate E. eapply rd_process_tc; eassumption.
  - destruct prog; try discriminate E. eapply sw_process_tc; eassumption.
  - destruct prog; try discriminate E. tc_step E. eapply sys_transfer_core_tc; eassumption.
  - destruct prog; try discriminate E. tc_step E. eapply sys_create_account_core_tc; eassumption.
  - destruct prog; try discriminate E. tc_step E. eapply tok_transfer_core_tc; eassumption.
  - destruct prog; try discriminate E. tc_step E. eapply tok_transfer_core_tc; eassumption.
  - destruct prog; try discriminate E. tc_step E. eapply tok_burn_core_tc; eassumption.
  - destruct prog; try discriminate E. destruct ms as [|callee rest]; [discriminate E|].
    tc_step E. eapply IH; eassumption.
  - destruct prog; try discriminate E. tc_go E.
  - destruct prog; injection E as <-; exact HT.
Qed.

Lemma exec_ixs_tc t ixs : forall prev W W', exec_ixs t ixs prev W = Ok W' -> typed_canonical W -> typed_canonical W'.
Proof.
  induction ixs as [|i tl IH]; intros prev W W' H HT; cbn [exec_ixs] in H.
  - injection H as <-. exact HT.
  - apply bind_ok in H as (W1 & E & H). eapply IH; [exact H|]. eapply exec_data_tc; eassumption.
Qed.

Lemma get_purge W k : get (purge W) k = if lamports (get W k) =? 0 then empty_acct else get W k.
Proof.
  unfold get, purge. cbn. induction (accts W) as [|[k' a] tl IH]; cbn [map lookup].
  - reflexivity.
  - destruct (lamports a =? 0) eqn:El; cbn [lookup]; destruct (key_eqb k k'); try exact IH; rewrite ?El; reflexivity.
Qed.
Lemma purge_tc W : typed_canonical W -> typed_canonical (purge W).
Proof.
  intros HT k c. rewrite get_purge. destruct (lamports (get W k) =? 0); [rewrite canon_key_empty; discriminate|apply HT].
Qed.

(* Step: EVERY transaction (any instructions, any account lists) keeps the invariant *)
Theorem exec_tx_tc W t W' ok : exec_tx W t = (W', ok) -> typed_canonical W -> typed_canonical W'.
Proof.
  unfold exec_tx. intros H HT. destruct (negb (tx_wf t)); [injection H as <- _; exact HT|].
  destruct (exec_ixs t (tx_ixs t) None W) as [W1|e] eqn:E; [|injection H as <- _; exact HT].
  destruct (rent_ok t W W1); injection H as <- _; [|exact HT].
  apply purge_tc. eapply exec_ixs_tc; eassumption.
Qed.
Theorem typed_canonical_step W t W' ok : typed_canonical W -> exec_tx W t = (W', ok) -> typed_canonical W'.
Proof. intros HT H. eapply exec_tx_tc; eassumption. Qed.

(* ------------------------------------------------------------------------------------------------------------------ *)
(* 7. histories of scenario operations; OForge (arbitrary set_account) is the only operation excluded                 *)

Definition honest_op (o : op) : Prop := match o with OForge _ _ => False | _ => True end.
Definition honest_opb (o : op) : bool := match o with OForge _ _ => false | _ => true end.
Lemma honest_opb_spec o : honest_opb o = true <-> honest_op o.
Proof. destruct o; cbn; intuition discriminate. Qed.

Theorem exec_op_tc W o : honest_op o -> typed_canonical W -> typed_canonical (fst (exec_op W o)).
Proof.
  intros Ho HT. destruct o as [t|ts|k lam|k a|k amt|payer o_]; cbn [exec_op].
  - destruct (exec_tx W t) as [W' ok] eqn:E. cbn [fst]. eapply exec_tx_tc; eassumption.
  - exact HT.
  - cbn [fst]. apply tc_put_same; [exact HT|reflexivity].
  - destruct Ho.
  - destruct (as_token W k) as [t|]; [|exact HT]. destruct (as_mint W KMint) as [m|]; [|exact HT]. cbn [fst].
    apply tc_put_wr; [apply put_token_tc; exact HT|]. apply wr_ok_untyped. reflexivity.
  - destruct (_ && _); [|exact HT]. cbn [fst]. apply tc_put.
    + apply tc_put_same; [exact HT|reflexivity].
    + intros c Hc. discriminate Hc.
Qed.

Definition run_ops (W : world) (ops : list op) : world := fold_left (fun W o => fst (exec_op W o)) ops W.
Theorem typed_canonical_history ops : forall W,
  Forall honest_op ops -> typed_canonical W -> typed_canonical (fold_left (fun W o => fst (exec_op W o)) ops W).
Proof.
  induction ops as [|o tl IH]; intros W Hf HT; cbn [fold_left]; [exact HT|].
  inversion Hf as [|? ? Ho Htl]; subst. apply IH; [exact Htl|]. apply exec_op_tc; assumption.
Qed.
(* worlds reachable from the empty world *)
Corollary typed_canonical_reachable ops :
  Forall honest_op ops -> typed_canonical (fold_left (fun W o => fst (exec_op W o)) ops world0).
Proof. intros Hf. apply typed_canonical_history; [exact Hf|exact typed_canonical_world0]. Qed.

(* ------------------------------------------------------------------------------------------------------------------ *)
(* 8. use-site corollaries (C09): in a world satisfying the invariant, the state accounts a successful processor     *)
(*    accepted by owner + type tag ARE the canonical ones for the identity they carry                                 *)

Ltac canon_key :=
  first [ eapply rd_config_canonical | eapply rd_dist_canonical | eapply rd_journal_canonical
        | eapply rd_deposit_canonical | eapply rd_contrib_canonical ]; eassumption.
Ltac canon_fin := rg_norm; rg_exs; rg_splits; try eassumption; canon_key.

Corollary rd_pay_debt_canonical cx W amount p W' :
  rd_pay_debt cx W amount p = Ok W' -> typed_canonical W ->
  exists m0 m1 m2 m3 rest c d tail dp j,
    cx_metas cx = m0 :: m1 :: m2 :: m3 :: rest /\
    rd_acct W (mkey m0) (DConfig c) /\ rd_acct W (mkey m1) (DDist d tail) /\
    rd_acct W (mkey m2) (DDeposit dp) /\ rd_acct W (mkey m3) (DJournal j) /\
    mkey m0 = KRdConfig /\ mkey m1 = KRdDist (d_epoch d) /\ mkey m2 = KRdDeposit (dp_node dp) /\ mkey m3 = KRdJournal.
Proof. intros H HT. apply rd_pay_debt_guards in H. canon_fin. Qed.

(* source distribution, deposit, and the distribution absorbing the loss *)
Corollary rd_write_off_canonical cx W amount p W' :
  rd_write_off cx W amount p = Ok W' -> typed_canonical W ->
  exists m0 m1 m2 m3 m4 rest c d tail dp t ttail,
    cx_metas cx = m0 :: m1 :: m2 :: m3 :: m4 :: rest /\
    rd_acct W (mkey m0) (DConfig c) /\ rd_acct W (mkey m2) (DDist d tail) /\
    rd_acct W (mkey m3) (DDeposit dp) /\ rd_acct W (mkey m4) (DDist t ttail) /\
    mkey m0 = KRdConfig /\ mkey m2 = KRdDist (d_epoch d) /\ mkey m3 = KRdDeposit (dp_node dp) /\
    mkey m4 = KRdDist (d_epoch t).
Proof. intros H HT. apply rd_write_off_guards in H. canon_fin. Qed.

Corollary rd_distribute_rewards_canonical cx W us ebr p W' :
  rd_distribute_rewards cx W us ebr p = Ok W' -> typed_canonical W ->
  exists m0 m1 m2 rest c d tail cr,
    cx_metas cx = m0 :: m1 :: m2 :: rest /\
    rd_acct W (mkey m0) (DConfig c) /\ rd_acct W (mkey m1) (DDist d tail) /\ rd_acct W (mkey m2) (DContrib cr) /\
    mkey m0 = KRdConfig /\ mkey m1 = KRdDist (d_epoch d) /\ mkey m2 = KRdContrib (cr_service cr).
Proof. intros H HT. apply rd_distribute_rewards_guards in H. canon_fin. Qed.

Corollary rd_sweep_canonical cx W W' :
  rd_sweep cx W = Ok W' -> typed_canonical W ->
  exists m0 m1 m2 rest c d tail j,
    cx_metas cx = m0 :: m1 :: m2 :: rest /\
    rd_acct W (mkey m0) (DConfig c) /\ rd_acct W (mkey m1) (DDist d tail) /\ rd_acct W (mkey m2) (DJournal j) /\
    mkey m0 = KRdConfig /\ mkey m1 = KRdDist (d_epoch d) /\ mkey m2 = KRdJournal.
Proof. intros H HT. apply rd_sweep_guards in H. canon_fin. Qed.

Corollary rd_withdraw_sol_canonical cx W amount W' :
  rd_withdraw_sol cx W amount = Ok W' -> typed_canonical W ->
  exists m0 m1 m2 rest c j,
    cx_metas cx = m0 :: m1 :: m2 :: rest /\
    rd_acct W (mkey m0) (DConfig c) /\ rd_acct W (mkey m2) (DJournal j) /\
    mkey m0 = KRdConfig /\ mkey m2 = KRdJournal.
Proof. intros H HT. apply rd_withdraw_sol_guards in H. canon_fin. Qed.

Corollary rd_configure_debt_canonical cx W n debt root W' :
  rd_configure_debt cx W n debt root = Ok W' -> typed_canonical W ->
  exists m0 m1 m2 rest c d tail,
    cx_metas cx = m0 :: m1 :: m2 :: rest /\
    rd_acct W (mkey m0) (DConfig c) /\ rd_acct W (mkey m2) (DDist d tail) /\
    mkey m0 = KRdConfig /\ mkey m2 = KRdDist (d_epoch d).
Proof. intros H HT. apply rd_configure_debt_guards in H. canon_fin. Qed.
Corollary rd_finalize_debt_canonical cx W W' :
  rd_finalize_debt cx W = Ok W' -> typed_canonical W ->
  exists m0 m1 m2 rest c d tail,
    cx_metas cx = m0 :: m1 :: m2 :: rest /\
    rd_acct W (mkey m0) (DConfig c) /\ rd_acct W (mkey m2) (DDist d tail) /\
    mkey m0 = KRdConfig /\ mkey m2 = KRdDist (d_epoch d).
Proof. intros H HT. apply rd_finalize_debt_guards in H. canon_fin. Qed.
Corollary rd_configure_rewards_canonical cx W n root W' :
  rd_configure_rewards cx W n root = Ok W' -> typed_canonical W ->
  exists m0 m1 m2 rest c d tail,
    cx_metas cx = m0 :: m1 :: m2 :: rest /\
    rd_acct W (mkey m0) (DConfig c) /\ rd_acct W (mkey m2) (DDist d tail) /\
    mkey m0 = KRdConfig /\ mkey m2 = KRdDist (d_epoch d).
Proof. intros H HT. apply rd_configure_rewards_guards in H. canon_fin. Qed.
Corollary rd_finalize_rewards_canonical cx W W' :
  rd_finalize_rewards cx W = Ok W' -> typed_canonical W ->
  exists m0 m1 rest c d tail,
    cx_metas cx = m0 :: m1 :: rest /\
    rd_acct W (mkey m0) (DConfig c) /\ rd_acct W (mkey m1) (DDist d tail) /\
    mkey m0 = KRdConfig /\ mkey m1 = KRdDist (d_epoch d).
Proof. intros H HT. apply rd_finalize_rewards_guards in H. canon_fin. Qed.
Corollary rd_enable_write_off_canonical cx W W' :
  rd_enable_write_off cx W = Ok W' -> typed_canonical W ->
  exists m0 m1 rest c d tail,
    cx_metas cx = m0 :: m1 :: rest /\
    rd_acct W (mkey m0) (DConfig c) /\ rd_acct W (mkey m1) (DDist d tail) /\
    mkey m0 = KRdConfig /\ mkey m1 = KRdDist (d_epoch d).
Proof. intros H HT. apply rd_enable_write_off_guards in H. canon_fin. Qed.
Corollary rd_verify_root_canonical cx W kind p W' :
  rd_verify_root cx W kind p = Ok W' -> typed_canonical W ->
  exists m0 rest d tail, cx_metas cx = m0 :: rest /\ rd_acct W (mkey m0) (DDist d tail) /\ mkey m0 = KRdDist (d_epoch d).
Proof. intros H HT. apply rd_verify_root_guards in H. canon_fin. Qed.

Corollary rd_set_rewards_manager_canonical cx W k W' :
  rd_set_rewards_manager cx W k = Ok W' -> typed_canonical W ->
  exists m0 m1 m2 rest c cr,
    cx_metas cx = m0 :: m1 :: m2 :: rest /\
    rd_acct W (mkey m0) (DConfig c) /\ rd_acct W (mkey m2) (DContrib cr) /\
    mkey m0 = KRdConfig /\ mkey m2 = KRdContrib (cr_service cr).
Proof. intros H HT. apply rd_set_rewards_manager_guards in H. canon_fin. Qed.
Corollary rd_configure_contributor_canonical cx W s W' :
  rd_configure_contributor cx W s = Ok W' -> typed_canonical W ->
  exists m0 m1 rest c cr,
    cx_metas cx = m0 :: m1 :: rest /\
    rd_acct W (mkey m0) (DConfig c) /\ rd_acct W (mkey m1) (DContrib cr) /\
    mkey m0 = KRdConfig /\ mkey m1 = KRdContrib (cr_service cr).
Proof. intros H HT. apply rd_configure_contributor_guards in H. canon_fin. Qed.

Corollary rd_set_admin_canonical cx W k W' :
  rd_set_admin cx W k = Ok W' -> typed_canonical W ->
  exists m0 m1 m2 rest c, cx_metas cx = m0 :: m1 :: m2 :: rest /\ rd_acct W (mkey m2) (DConfig c) /\ mkey m2 = KRdConfig.
Proof. intros H HT. apply rd_set_admin_guards in H. canon_fin. Qed.
Corollary rd_migrate_canonical cx W W' :
  rd_migrate cx W = Ok W' -> typed_canonical W ->
  exists m0 m1 m2 rest c, cx_metas cx = m0 :: m1 :: m2 :: rest /\ rd_acct W (mkey m2) (DConfig c) /\ mkey m2 = KRdConfig.
Proof. intros H HT. apply rd_migrate_guards in H. canon_fin. Qed.
Corollary rd_configure_program_canonical cx W s W' :
  rd_configure_program cx W s = Ok W' -> typed_canonical W ->
  exists m0 rest c, cx_metas cx = m0 :: rest /\ rd_acct W (mkey m0) (DConfig c) /\ mkey m0 = KRdConfig.
Proof. intros H HT. apply rd_configure_program_guards in H. canon_fin. Qed.
Corollary rd_initialize_swap_destination_canonical cx W W' :
  rd_initialize_swap_destination cx W = Ok W' -> typed_canonical W ->
  exists m0 rest c, cx_metas cx = m0 :: rest /\ rd_acct W (mkey m0) (DConfig c) /\ mkey m0 = KRdConfig.
Proof. intros H HT. apply rd_initialize_swap_destination_guards in H. canon_fin. Qed.
(* the new distribution is created at the address of the epoch it records; config and journal are the canonical ones *)
Corollary rd_initialize_distribution_canonical cx W W' :
  rd_initialize_distribution cx W = Ok W' -> typed_canonical W ->
  exists m0 m1 m2 m3 m4 m5 m6 m7 rest c j,
    cx_metas cx = m0 :: m1 :: m2 :: m3 :: m4 :: m5 :: m6 :: m7 :: rest /\
    rd_acct W (mkey m0) (DConfig c) /\ rd_acct W (mkey m7) (DJournal j) /\
    mkey m0 = KRdConfig /\ mkey m3 = KRdDist (c_next_epoch c) /\ mkey m7 = KRdJournal.
Proof. intros H HT. apply rd_initialize_distribution_guards in H. rg_norm. rg_exs. rg_splits; try eassumption; canon_key. Qed.

(* passport: configuration and access request *)
Corollary pp_grant_access_canonical cx W W' :
  pp_grant_access cx W = Ok W' -> typed_canonical W ->
  exists m0 m1 m2 rest c r,
    cx_metas cx = m0 :: m1 :: m2 :: rest /\
    owner (get W (mkey m0)) = KPassport /\ data (get W (mkey m0)) = DPpConfig c /\
    owner (get W (mkey m2)) = KPassport /\ data (get W (mkey m2)) = DAccessReq r /\
    msigner m1 = true /\ mkey m1 = pc_sentinel c /\
    mkey m0 = KPpConfig /\ mkey m2 = KPpRequest (ar_service r).
Proof.
  unfold pp_grant_access. intros H HT.
  apply bind_ok in H as ([[[ck c] sentinel] ms] & E & H). cbv beta iota in H.
  apply pp_verified_ok in E as (m0 & m1 & Hm & -> & -> & Hs & Ho & Hd & Hk).
  apply bind_ok in H as (u & _ & H). apply bind_ok in H as ([[rk r] ms'] & E2 & _).
  apply pp_zc_request_ok in E2 as (m2 & -> & -> & Ho2 & Hd2).
  exists m0, m1, m2, ms', c, r. repeat split; auto.
  - eapply pp_config_canonical; eassumption.
  - eapply pp_request_canonical; eassumption.
Qed.
Corollary pp_deny_access_canonical cx W W' :
  pp_deny_access cx W = Ok W' -> typed_canonical W ->
  exists m0 m1 m2 rest c r,
    cx_metas cx = m0 :: m1 :: m2 :: rest /\
    owner (get W (mkey m0)) = KPassport /\ data (get W (mkey m0)) = DPpConfig c /\
    owner (get W (mkey m2)) = KPassport /\ data (get W (mkey m2)) = DAccessReq r /\
    msigner m1 = true /\ mkey m1 = pc_sentinel c /\
    mkey m0 = KPpConfig /\ mkey m2 = KPpRequest (ar_service r).
Proof.
  unfold pp_deny_access. intros H HT.
  apply bind_ok in H as ([[[ck c] sentinel] ms] & E & H). cbv beta iota in H.
  apply pp_verified_ok in E as (m0 & m1 & Hm & -> & -> & Hs & Ho & Hd & Hk).
  apply bind_ok in H as (u & _ & H). apply bind_ok in H as ([[rk r] ms'] & E2 & _).
  apply pp_zc_request_ok in E2 as (m2 & -> & -> & Ho2 & Hd2).
  exists m0, m1, m2, ms', c, r. repeat split; auto.
  - eapply pp_config_canonical; eassumption.
  - eapply pp_request_canonical; eassumption.
Qed.

(* ------------------------------------------------------------------------------------------------------------------ *)
(* 9. reachable worlds, a decidable check for literal worlds, examples                                                *)

(* reachable: from a fixture world holding no typed RD / passport account (mints, wallets, program-data accounts, ...)
   by any history of operations other than OForge *)
Definition untyped_world (W : world) : Prop :=
  forall k, owner (get W k) = KRd \/ owner (get W k) = KPassport -> data (get W k) = DEmpty.
Definition reachable (W : world) : Prop :=
  exists W0 ops, untyped_world W0 /\ Forall honest_op ops /\ W = run_ops W0 ops.
Theorem reachable_typed_canonical W : reachable W -> typed_canonical W.
Proof.
  intros (W0 & ops & H0 & Hf & ->). apply typed_canonical_history; [exact Hf|]. apply typed_canonical_untyped. exact H0.
Qed.
Lemma reachable_step W o : reachable W -> honest_op o -> reachable (fst (exec_op W o)).
Proof.
  intros (W0 & ops & H0 & Hf & ->) Ho. exists W0, (ops ++ [o]). split; [exact H0|]. split.
  - apply Forall_app. split; [exact Hf|]. constructor; [exact Ho|constructor].
  - unfold run_ops. rewrite fold_left_app. reflexivity.
Qed.

(* sufficient boolean check on the association list (the first binding of a key shadows later ones) *)
Definition canon_entry_ok (ka : key * acct) : bool :=
  match canon_key_of (snd ka) with Some c => key_eqb c (fst ka) | None => true end.
Lemma typed_canonical_check W : forallb canon_entry_ok (accts W) = true -> typed_canonical W.
Proof.
  unfold typed_canonical, get. induction (accts W) as [|[k' a] tl IH]; cbn [forallb lookup]; intros H k c Hc.
  - rewrite canon_key_empty in Hc. discriminate.
  - apply andb_true_iff in H as (Ha & Htl). destruct (key_eqb k k') eqn:Ek.
    + apply key_eqb_eq in Ek. subst k'. unfold canon_entry_ok in Ha. cbn [fst snd] in Ha. rewrite Hc in Ha.
      apply key_eqb_eq. exact Ha.
    + apply IH; assumption.
Qed.
Definition no_typed_entry (ka : key * acct) : bool :=
  negb (key_eqb (owner (snd ka)) KRd || key_eqb (owner (snd ka)) KPassport).
Lemma untyped_world_check W : forallb no_typed_entry (accts W) = true -> untyped_world W.
Proof.
  unfold untyped_world, get. induction (accts W) as [|[k' a] tl IH]; cbn [forallb lookup]; intros H k Ho.
  - reflexivity.
  - apply andb_true_iff in H as (Ha & Htl). destruct (key_eqb k k') eqn:Ek.
    + exfalso. unfold no_typed_entry in Ha. cbn [snd] in Ha. destruct Ho as [Ho|Ho]; rewrite Ho in Ha; cbn in Ha; discriminate.
    + apply IH; assumption.
Qed.

Module CanonEx.
Definition ro k := mk k false false. Definition wr k := mk k false true.
Definition sg k := mk k true false.  Definition sw k := mk k true true.
Definition wallet (lam : N) : acct := {| lamports := lam; owner := KSystem; alen := 0; data := DEmpty |}.
(* fixtures: a funded wallet, the 2Z mint, the two program-data accounts (upgrade authority KUser 9) *)
Definition ex_fix : world := {| accts := [
  (KUser 100, wallet 1000000000000);
  (KMint, {| lamports := rent LEN_MINT; owner := KToken; alen := LEN_MINT;
             data := DMint {| m_supply := 1000000; m_decimals := 8 |} |});
  (KProgData KRd, {| lamports := 1; owner := KLoader; alen := 45; data := DProgData (Some (KUser 9)) |});
  (KProgData KPassport, {| lamports := 1; owner := KLoader; alen := 45; data := DProgData (Some (KUser 9)) |})];
  now := 0 |}.
Definition rdi (d : rd_ix) (ms : list meta) : instr := {| i_prog := KRd; i_data := IxRd d; i_metas := ms |}.
Definition ppi (d : pp_ix) (ms : list meta) : instr := {| i_prog := KPassport; i_data := IxPassport d; i_metas := ms |}.
Definition otx (signers : list key) (ixs : list instr) : op := OTx {| tx_signers := signers; tx_ixs := ixs |}.
Definition m_cfg := [wr KRdConfig; sg (KUser 1)].
(* bootstrap both programs through real transactions: program config, journal, admin, settings, first distribution,
   a contributor record, a validator deposit, an ATA, passport config and an access request *)
Definition ex_ops : list op := [
  otx [KUser 100] [rdi RInitializeProgram [sw (KUser 100); wr KRdConfig; wr (KTok2z KRdConfig); ro KMint; ro KToken; ro KSystem];
                   rdi RInitializeJournal [sw (KUser 100); wr KRdJournal; wr (KTok2z KRdJournal); ro KMint; ro KToken; ro KSystem]];
  otx [KUser 9] [rdi (RSetAdmin (KUser 1)) [ro (KProgData KRd); sg (KUser 9); wr KRdConfig]];
  otx [KUser 1] [rdi (RConfigureProgram (RSDebtAccountant (KUser 2))) m_cfg;
                 rdi (RConfigureProgram (RSContributorManager (KUser 4))) m_cfg;
                 rdi (RConfigureProgram (RSFeeParams 100 0 0 0 0)) m_cfg;
                 rdi (RConfigureProgram (RSCalcGrace 1)) m_cfg;
                 rdi (RConfigureProgram (RSInitGrace 1)) m_cfg;
                 rdi (RConfigureProgram (RSRelayLamports 10000)) m_cfg;
                 rdi (RConfigureProgram (RSBurnRate 500000000 2 5 (Some 100000000))) m_cfg;
                 rdi (RConfigureProgram (RSPaused false)) m_cfg];
  OSetClock 100;
  otx [KUser 2; KUser 100] [rdi RInitializeDistribution
     [wr KRdConfig; sg (KUser 2); sw (KUser 100); wr (KRdDist 0); wr (KTok2z (KRdDist 0)); ro KMint; ro KToken;
      wr KRdJournal; ro (KTok2z KRdJournal); ro (KAta KRdJournal KMint); ro KSystem]];
  otx [KUser 100] [rdi (RInitializeContributor (KUser 60)) [sw (KUser 100); wr (KRdContrib (KUser 60)); ro KSystem];
                   rdi (RInitializeDeposit (KUser 50)) [wr (KRdDeposit (KUser 50)); sw (KUser 100); ro KSystem]];
  OAirdrop (KUser 50) 5;
  OCreateAta (KUser 100) (KUser 70);
  OMintTo (KAta (KUser 70) KMint) 77;
  otx [KUser 100] [ppi PInitializeProgram [sw (KUser 100); wr KPpConfig; ro KSystem]];
  otx [KUser 9] [ppi (PSetAdmin (KUser 1)) [ro (KProgData KPassport); sg (KUser 9); wr KPpConfig]];
  otx [KUser 1] [ppi (PConfigureProgram (PSAccessRequestDeposit 1000000 1000)) [wr KPpConfig; sg (KUser 1)]];
  otx [KUser 100] [ppi (PRequestAccess (AMValidator {| at_validator := KUser 30; at_service := KUser 31; at_sig := 7 |}))
                       [ro KPpConfig; sw (KUser 100); wr (KPpRequest (KUser 31)); ro KSystem]]
].
Fixpoint all_ok (W : world) (ops : list op) : bool :=
  match ops with [] => true | o :: tl => let '(W', ok) := exec_op W o in ok && all_ok W' tl end.
Definition ex_W : world := run_ops ex_fix ex_ops.
End CanonEx.
Import CanonEx.

Lemma ex_ops_honest : Forall honest_op ex_ops.
Proof.
  apply Forall_forall. intros o Ho. apply honest_opb_spec. revert o Ho. apply forallb_forall. vm_compute. reflexivity.
Qed.
Lemma ex_W_reachable : reachable ex_W.
Proof.
  exists ex_fix, ex_ops. split; [|split; [exact ex_ops_honest|reflexivity]].
  apply untyped_world_check. vm_compute. reflexivity.
Qed.
(* a literal reachable world: every operation of the history succeeds, the world holds one account of each of the seven
   typed kinds, each at its canonical address; the invariant follows from theorems 1 + 3 (and, independently, by computation) *)
Example typed_canonical_nonvacuous :
  all_ok ex_fix ex_ops = true /\ typed_canonical ex_W /\
  canon_key_of (get ex_W KRdConfig) = Some KRdConfig /\
  canon_key_of (get ex_W KRdJournal) = Some KRdJournal /\
  canon_key_of (get ex_W (KRdDist 0)) = Some (KRdDist 0) /\
  canon_key_of (get ex_W (KRdContrib (KUser 60))) = Some (KRdContrib (KUser 60)) /\
  canon_key_of (get ex_W (KRdDeposit (KUser 50))) = Some (KRdDeposit (KUser 50)) /\
  canon_key_of (get ex_W KPpConfig) = Some KPpConfig /\
  canon_key_of (get ex_W (KPpRequest (KUser 31))) = Some (KPpRequest (KUser 31)).
Proof.
  split; [vm_compute; reflexivity|]. split; [exact (reachable_typed_canonical _ ex_W_reachable)|].
  vm_compute. repeat split.
Qed.
Example typed_canonical_check_nonvacuous : forallb canon_entry_ok (accts ex_W) = true.
Proof. vm_compute. reflexivity. Qed.

(* a use-site corollary fires on it: ConfigureDebt against the reachable world succeeds, on the canonical accounts *)
Example rd_configure_debt_canonical_nonvacuous :
  let cx := {| cx_prog := KRd; cx_metas := [ro KRdConfig; sg (KUser 2); wr (KRdDist 0)]; cx_height := 1; cx_sibling := None |} in
  is_ok (rd_configure_debt cx (ex_W <| now := 1000 |>) 2 1000 null_hash) = true.
Proof. vm_compute. reflexivity. Qed.

(* OForge (set_account) can plant a look-alike: a KRd-owned ProgramConfig at a wallet address.  That is why it is excluded. *)
Definition ex_forged_acct : acct :=
  {| lamports := rent LEN_CONFIG_ALLOC; owner := KRd; alen := LEN_CONFIG_ALLOC; data := DConfig rd_config_default |}.
Theorem typed_canonical_forge_breaks :
  typed_canonical world0 /\ ~ typed_canonical (fst (exec_op world0 (OForge (KUser 66) ex_forged_acct))).
Proof.
  split; [exact typed_canonical_world0|]. intros H. specialize (H (KUser 66) KRdConfig eq_refl). discriminate H.
Qed.
(* ... also on top of a reachable world, and the forged account then passes the owner + tag check of a use site *)
Theorem typed_canonical_forge_breaks_use_site :
  let W := fst (exec_op ex_W (OForge (KUser 66) (ex_forged_acct <| data := DConfig (rd_config_default <| c_admin := KUser 5 |>) |>))) in
  ~ typed_canonical W /\
  is_ok (rd_configure_program {| cx_prog := KRd; cx_metas := [wr (KUser 66); sg (KUser 5)]; cx_height := 1; cx_sibling := None |}
           W (RSPaused false)) = true.
Proof.
  split; [|vm_compute; reflexivity]. intros H. specialize (H (KUser 66) KRdConfig). 
  assert (Hc : KRdConfig = KUser 66) by (apply H; vm_compute; reflexivity). discriminate Hc.
Qed.

(* ==================================================================================================================
   INDEX.   TC := typed_canonical.   `rd_acct W k d` := owner (get W k) = KRd /\ data (get W k) = d  (Lemmas_RdGuards).
   definitions
     canon_key_of a            canonical address named by the content of a typed KRd- / KPassport-owned account (else None)
     typed_canonical W         forall k ck, canon_key_of (get W k) = Some ck -> ck = k
     data_key d, wr_ok k d     owner-independent address of typed data; "d is untyped or names k"
     honest_op o               every op but OForge;  honest_opb, honest_opb_spec (boolean form)
     run_ops W ops             fold_left (fun W o => fst (exec_op W o)) ops W
     untyped_world W           KRd- / KPassport-owned accounts all hold DEmpty;  reachable W := run_ops of honest ops from such a world
   1 init
     typed_canonical_world0    TC world0
     typed_canonical_untyped   untyped_world W -> TC W
     typed_canonical_init      both of the above
   generic use-site lemmas (TC W ->)
     rd_config_canonical / rd_journal_canonical / rd_dist_canonical / rd_deposit_canonical / rd_contrib_canonical
                               rd_acct W k (D.. x) -> k = KRdConfig | KRdJournal | KRdDist (d_epoch d) | KRdDeposit (dp_node d) | KRdContrib (cr_service c)
     rd_acct_canonical (= rd_acct_canonical_dist), rd_acct_canonical_{config,journal,deposit,contrib}
                               same with separate  owner (get W k) = KRd -> data (get W k) = D.. x  premises
     pp_config_canonical, pp_request_canonical      KPassport-owned DPpConfig -> KPpConfig; DAccessReq r -> KPpRequest (ar_service r)
     rd_zc_{config,dist,journal,deposit,contrib}_canon, rd_verified_canon, pp_zc_config_canon, pp_zc_request_canon, pp_verified_canon
                               a successful typed read in a TC world returns the canonical key
     typed_canonical_at, canon_identity_stable      TC at one key; two TC worlds agree on the identity carried at an address
   2 footprints:  <op> .. W .. = Ok W' -> TC W -> TC W'
     primitives   credit_tc, debit_tc, set_lamports_to_zero_tc, resize_tc, write_data_tc (needs wr_ok k d), put_dist_tc (needs
                  k = KRdDist (d_epoch d)), try_initialize_tc (wr_ok), sys_transfer(_core)_tc, sys_allocate_core_tc,
                  sys_create_account_core_tc, create_account_tc, put_token_tc, tok_transfer(_core|_checked)_tc, tok_burn(_core)_tc,
                  tok_init_account3_tc, create_token_account_tc, grow_and_fund_tc (needs dk = KRdDist (d_epoch d)),
                  distribute_loop_tc, sw_dequeue_fills_tc, swap_dequeue_cpi_tc, withdraw_sol_cpi_tc
     processors   rd_<name>_tc for all 22, rd_process_tc; pp_<name>_tc for all 6, pp_process_tc; sw_initialize_tc, sw_buy_sol_tc,
                  sw_process_tc
     step         exec_data_tc (any program id, any ixdata incl. top-level System / Token and rogue CPI / rogue buy), exec_ixs_tc,
                  get_purge, purge_tc
                  exec_tx_tc / typed_canonical_step     TC W -> exec_tx W t = (W', ok) -> TC W'      (every transaction)
   3 histories
     exec_op_tc                honest_op o -> TC W -> TC (fst (exec_op W o))
     typed_canonical_history   Forall honest_op ops -> TC W -> TC (fold_left (fun W o => fst (exec_op W o)) ops W)
     typed_canonical_reachable the same from world0;   reachable_typed_canonical  reachable W -> TC W;   reachable_step
     typed_canonical_check     forallb canon_entry_ok (accts W) = true -> TC W   (decidable, for literal worlds)
     untyped_world_check       forallb no_typed_entry (accts W) = true -> untyped_world W
   4 use-site corollaries:  rd_<name> .. = Ok W' -> TC W -> exists metas / state, cx_metas cx = .. /\ rd_acct .. /\ canonical keys
     rd_pay_debt_canonical                 m0 = KRdConfig, m1 = KRdDist (d_epoch d), m2 = KRdDeposit (dp_node dp), m3 = KRdJournal
     rd_write_off_canonical                m0 config, m2 = KRdDist (d_epoch d), m3 = KRdDeposit (dp_node dp), m4 = KRdDist (d_epoch t)
     rd_distribute_rewards_canonical       m0 config, m1 = KRdDist (d_epoch d), m2 = KRdContrib (cr_service cr)
     rd_sweep_canonical                    m0 config, m1 = KRdDist (d_epoch d), m2 = KRdJournal
     rd_withdraw_sol_canonical             m0 config, m2 = KRdJournal
     rd_configure_debt_canonical / rd_finalize_debt_canonical / rd_configure_rewards_canonical       m0 config, m2 = KRdDist (d_epoch d)
     rd_finalize_rewards_canonical / rd_enable_write_off_canonical                                   m0 config, m1 = KRdDist (d_epoch d)
     rd_verify_root_canonical              m0 = KRdDist (d_epoch d)
     rd_set_rewards_manager_canonical      m0 config, m2 = KRdContrib (cr_service cr)
     rd_configure_contributor_canonical    m0 config, m1 = KRdContrib (cr_service cr)
     rd_set_admin_canonical / rd_migrate_canonical (m2 config), rd_configure_program_canonical / rd_initialize_swap_destination_canonical (m0)
     rd_initialize_distribution_canonical  m0 config, m3 = KRdDist (c_next_epoch c), m7 = KRdJournal
     pp_grant_access_canonical / pp_deny_access_canonical   m0 = KPpConfig, m1 signer = pc_sentinel c, m2 = KPpRequest (ar_service r)
   5 examples
     typed_canonical_nonvacuous            literal history ex_ops from fixture ex_fix: all 13 ops succeed, TC ex_W (via 1 + 3), one
                                           account of each of the 7 typed kinds at its canonical address
     ex_ops_honest, ex_W_reachable, typed_canonical_check_nonvacuous, rd_configure_debt_canonical_nonvacuous
     typed_canonical_forge_breaks          TC world0 /\ ~ TC (fst (exec_op world0 (OForge (KUser 66) look-alike config)))
     typed_canonical_forge_breaks_use_site forged config on top of ex_W: ~ TC, and rd_configure_program accepts it
   nothing refuted: no way was found (and none exists, by 2 + 3) to obtain a typed RD / passport account at a non-canonical
   address without OForge.
   ================================================================================================================== *)
