(* C13 progress theorems, part 4: sweep (both branches, mock swap program), initialize-distribution. *)
From DZ Require Import Base Keys Merkle BurnRate Shares Swap_Ring State World SwapDeq RD Passport Swap Exec Corr Builders
  Lemmas_Merkle Lemmas_Shares Lemmas_RdSpecs5 Lemmas_C13 Lemmas_C13b Lemmas_C13c.

(* ------------------------------------------------------------------------------------------------------------------ *)
(* explicit worlds of the two CPIs of sweep                                                                            *)
Definition tok_move_w (W : world) (src dst : key) (s d : token_acct) (amt : N) : world :=
  if amt =? 0 then W
  else put_token (put_token W src (s <| t_amount := t_amount s - amt |>)) dst (d <| t_amount := t_amount d + amt |>).
Lemma get_tok_move_w W src dst s d amt k :
  as_token W src = Ok s -> as_token W dst = Ok d -> src <> dst ->
  get (tok_move_w W src dst s d amt) k =
    if key_eqb src k then get W src <| data := DToken (s <| t_amount := t_amount s - amt |>) |>
    else if key_eqb dst k then get W dst <| data := DToken (d <| t_amount := t_amount d + amt |>) |>
    else get W k.
Proof.
  intros Hs Hd Hne. apply as_token_ok in Hs, Hd. destruct Hs as (Ds & _), Hd as (Dd & _). unfold tok_move_w.
  destruct (N.eqb_spec amt 0) as [->|_].
  - rewrite N.sub_0_r, N.add_0_r, !set_tamount_id.
    destruct (key_eqb_spec src k) as [<-|]; [rewrite set_data_id by assumption; reflexivity|].
    destruct (key_eqb_spec dst k) as [<-|]; [rewrite set_data_id by assumption; reflexivity|reflexivity].
  - rewrite !get_put_token. rewrite (key_eqb_neq src dst) by assumption.
    destruct (key_eqb_spec dst k) as [<-|Hk].
    + rewrite (key_eqb_neq src dst) by assumption. reflexivity.
    + destruct (key_eqb_spec src k) as [<-|]; reflexivity.
Qed.
Lemma now_tok_move_w W src dst s d amt : now (tok_move_w W src dst s d amt) = now W.
Proof. unfold tok_move_w. destruct (amt =? 0); reflexivity. Qed.

Lemma tok_transfer_go cx W src dst auth amt pdas s d :
  has_key (cx_metas cx) KToken = true -> has_key (cx_metas cx) src = true -> has_key (cx_metas cx) dst = true ->
  has_key (cx_metas cx) auth = true ->
  is_writable (cx_metas cx) src = true -> is_writable (cx_metas cx) dst = true ->
  is_signer (cx_metas cx) auth || pda_signs (cx_prog cx) auth pdas = true ->
  as_token W src = Ok s -> as_token W dst = Ok d -> amt <= t_amount s -> t_mint s = t_mint d -> t_owner s = auth ->
  src <> dst -> t_amount d + amt < two64 ->
  tok_transfer cx W src dst auth amt pdas = Ok (tok_move_w W src dst s d amt).
Proof.
  intros Hk Hks Hkd Hka Hws Hwd Hsig Hs Hd Hle Hm Ho Hne Hov.
  unfold tok_transfer, cpi_metas, tok_move_w.
  cbn [forallb mkey msigner mwritable mk negb orb andb map].
  rewrite Hk, Hks, Hkd, Hka, Hws, Hwd, Hsig. cbn [require bind andb orb].
  unfold tok_transfer_core. rewrite Hs, Hd. cbn [bind].
  apply N.leb_le in Hle. rewrite Hle, Hm, key_eqb_refl, Ho, key_eqb_refl. cbn [require bind].
  cbn [is_signer is_writable existsb mkey msigner mwritable].
  rewrite !key_eqb_refl, ?andb_false_r, ?andb_true_r, ?orb_true_r, ?orb_false_r. cbn [andb orb require bind].
  rewrite (key_eqb_neq src dst) by assumption.
  destruct (amt =? 0); [reflexivity|].
  rewrite ?andb_true_r, ?orb_true_r. cbn [andb orb require bind].
  rewrite as_token_put_token_other, Hd by assumption. cbn [bind].
  apply N.ltb_lt in Hov. rewrite Hov. cbn [require bind]. reflexivity.
Qed.

(* DequeueFills through the mock swap program: the head fill carries exactly `sol` *)
Lemma swap_dequeue_cpi_mock_go cx W fills jk sol pdas r r' z :
  has_key (cx_metas cx) KSwapMock = true -> has_key (cx_metas cx) KSwapCfg = true -> has_key (cx_metas cx) KSwapState = true ->
  has_key (cx_metas cx) fills = true -> has_key (cx_metas cx) jk = true -> is_writable (cx_metas cx) fills = true ->
  is_signer (cx_metas cx) jk || pda_signs (cx_prog cx) jk pdas = true ->
  fills <> jk -> owner (get W fills) = KSwapMock -> data (get W fills) = DFills r -> dequeue r sol = Some (r', z) ->
  swap_dequeue_cpi cx W KSwapMock KSwapCfg KSwapState fills jk sol pdas =
  Ok (put W fills (get W fills <| data := DFills r' |>), Some (KSwapMock, RTriple sol z 1)).
Proof.
  intros Hp Hc Hs Hf Hj Hwf Hsig Hne Ho Hd Hdq.
  unfold swap_dequeue_cpi, cpi_metas.
  cbn [forallb mkey msigner mwritable mk negb orb andb map].
  rewrite Hp, Hc, Hs, Hf, Hj, Hwf, Hsig. cbn [require bind andb orb].
  unfold sw_dequeue_fills, sw_zc_fills, next_any, next_account.
  cbn [cx_metas mkey msigner mwritable negb orb require bind key_eqb is_signer is_writable existsb].
  rewrite !key_eqb_refl, ?andb_false_r, ?andb_true_r, ?orb_true_r, ?orb_false_r. cbn [andb orb negb require bind].
  assert (count r <> 0%nat) as Hc0 by (apply dequeue_spec in Hdq; tauto).
  assert (negb (count r =? 0)%nat = true) as Hc1 by (destruct (Nat.eqb_spec (count r) 0); [contradiction|reflexivity]).
  unfold write_data.
  repeat (cbn [key_eqb require bind mkey msigner mwritable mk cx_metas cx_prog is_writable existsb andb orb]; rewrite ?Ho, ?Hd, ?Hc1, ?Hdq, ?key_eqb_refl, ?orb_true_r, ?andb_true_r).
  reflexivity.
Qed.

Lemma as_token_put_other W k a k' : k <> k' -> as_token (put W k a) k' = as_token W k'.
Proof. intros H. unfold as_token. rewrite get_put_other by assumption. reflexivity. Qed.

(* no lamports move: balance and rent rule hold when lamports and length are unchanged pointwise *)
Lemma rd_tx_progress_same W signers ix ms (F : key -> acct) :
  tx_wf (rd_tx signers ix ms) = true ->
  (exists W1, rd_process (rd_cx (eff1 signers ms)) W ix = Ok W1 /\ now W1 = now W /\ forall k, get W1 k = F k) ->
  (forall k, lamports (F k) = lamports (get W k) /\ alen (F k) = alen (get W k)) ->
  exists W', exec_tx W (rd_tx signers ix ms) = (W', true) /\ now W' = now W /\ forall k, get W' k = purge_acct (F k).
Proof.
  intros Hwf (W1 & Hrun & Hnow & HF) Hsame. eapply rd_tx_progress; try eassumption.
  - apply balanced_same. intros k. rewrite HF. apply Hsame.
  - intros k. apply rent_transition_same; apply Hsame.
Qed.

(* ------------------------------------------------------------------------------------------------------------------ *)
(* sweep                                                                                                               *)
Record sweep_ready (W : world) (e : N) (c : rd_config) (d : dist) (tail : list N) (j : journal) : Prop := {
  sr_cfg_owner : owner (get W KRdConfig) = KRd;
  sr_cfg_data : data (get W KRdConfig) = DConfig c;
  sr_unpaused : c_paused c = false;
  sr_dist_owner : owner (get W (KRdDist e)) = KRd;
  sr_dist_data : data (get W (KRdDist e)) = DDist d tail;
  sr_unswept : d_swept d = false;
  sr_rewards_final : d_rewards_final d = true;
  sr_j_owner : owner (get W KRdJournal) = KRd;
  sr_j_data : data (get W KRdJournal) = DJournal j;
  sr_order : j_next_sweep j = d_epoch d;                       (* epochs are swept in order *)
  sr_unc : d_uncollectible d <= d_total_debt d
}.
Definition sweep_zero_acct (W : world) (e : N) (d : dist) (tail : list N) (j : journal) (k : key) : acct :=
  if key_eqb k KRdJournal then get W KRdJournal <| data := DJournal (sw_journal0 j) |>
  else if key_eqb k (KRdDist e) then get W (KRdDist e) <| data := DDist (sw_dist1 d) tail |>
  else get W k.

Theorem sweep_zero_progress W f q e c d tail j :
  sweep_ready W e c d tail j -> d_total_debt d - d_uncollectible d = 0 ->
  exists W', exec_tx W (rd_tx [KUser f] RSweep (sdk_sweep e (KUser q))) = (W', true) /\
    now W' = now W /\ forall k, get W' k = purge_acct (sweep_zero_acct W e d tail j k).
Proof.
  intros R Hz. destruct R.
  assert (d_uncollectible d <=? d_total_debt d = true) as Hle by (apply N.leb_le; assumption).
  assert (d_total_debt d - d_uncollectible d =? 0 = true) as Hz' by (apply N.eqb_eq; assumption).
  eapply rd_tx_progress.
  - reflexivity.
  - unfold sdk_sweep, sdk_sweep_at, sdk_dequeue_fills_cpi. cbn [rd_process removelast app]. unfold rd_sweep. rdgo. reflexivity.
  - rewrite ?now_put. reflexivity.
  - intros k. unfold sweep_zero_acct, sw_journal0, sw_dist1. rewrite ?sr_order0.
    destruct (key_eqb_spec k KRdJournal) as [->|N1]; [getnorm; reflexivity|].
    destruct (key_eqb_spec k (KRdDist e)) as [->|N2]; [getnorm; reflexivity|].
    repeat rewrite get_put. rewrite ?(key_eqb_neq (KRdDist e) k), ?(key_eqb_neq KRdJournal k) by congruence. reflexivity.
  - apply balanced_same. intros k. repeat rewrite get_put.
    destruct (key_eqb_spec KRdJournal k) as [<-|]; [getnorm; reflexivity|].
    destruct (key_eqb_spec (KRdDist e) k) as [<-|]; reflexivity.
  - intros k. unfold sweep_zero_acct.
    destruct (key_eqb_spec k KRdJournal) as [->|N1]; [apply rent_transition_same; reflexivity|].
    destruct (key_eqb_spec k (KRdDist e)) as [->|N2]; apply rent_transition_same; reflexivity.
Qed.

Record sweep_swap_ready (W : world) (e q : N) (c : rd_config) (d : dist) (j : journal) (r r' : ring) (z : N)
  (s t : token_acct) : Prop := {
  ss_swapped : d_total_debt d - d_uncollectible d <= j_swapped_sol j;      (* the SOL was bought from the journal *)
  ss_program : c_swap_program c = KSwapMock;
  ss_auth_bump : c_has_swap_auth_bump c = true;                            (* the swap destination was initialised *)
  ss_fills_owner : owner (get W (KUser q)) = KSwapMock;
  ss_fills_data : data (get W (KUser q)) = DFills r;
  ss_head : dequeue r (d_total_debt d - d_uncollectible d) = Some (r', z);  (* the oldest fill is exactly this debt *)
  ss_dest : as_token W (KTok2z KRdSwapAuth) = Ok s /\ t_owner s = KRdSwapAuth /\ t_mint s = KMint /\ z <= t_amount s;
  ss_custody : as_token W (KTok2z (KRdDist e)) = Ok t /\ t_mint t = KMint /\ t_amount t + z < two64;
  ss_tracked : z <= j_swap_dest_balance j
}.
Definition sweep_acct (W : world) (e q : N) (d : dist) (tail : list N) (j : journal) (r' : ring) (z : N) (s t : token_acct) (k : key) : acct :=
  if key_eqb k KRdJournal then get W KRdJournal <| data := DJournal (sw_journal2 j (d_total_debt d - d_uncollectible d) z) |>
  else if key_eqb k (KRdDist e) then get W (KRdDist e) <| data := DDist (sw_dist2 d z) tail |>
  else if key_eqb k (KUser q) then get W (KUser q) <| data := DFills r' |>
  else if key_eqb k (KTok2z KRdSwapAuth) then get W (KTok2z KRdSwapAuth) <| data := DToken (s <| t_amount := t_amount s - z |>) |>
  else if key_eqb k (KTok2z (KRdDist e)) then get W (KTok2z (KRdDist e)) <| data := DToken (t <| t_amount := t_amount t + z |>) |>
  else get W k.

Theorem sweep_progress W f q e c d tail j r r' z s t :
  sweep_ready W e c d tail j -> d_total_debt d - d_uncollectible d <> 0 -> sweep_swap_ready W e q c d j r r' z s t ->
  exists W', exec_tx W (rd_tx [KUser f] RSweep (sdk_sweep e (KUser q))) = (W', true) /\
    now W' = now W /\ forall k, get W' k = purge_acct (sweep_acct W e q d tail j r' z s t k).
Proof.
  intros R Hnz S. destruct R, S. destruct ss_dest0 as (Hs & Hso & Hsm & Hsz). destruct ss_custody0 as (Ht & Htm & Hto).
  set (debt := d_total_debt d - d_uncollectible d) in *.
  assert (d_uncollectible d <=? d_total_debt d = true) as Hle by (apply N.leb_le; assumption).
  assert (debt =? 0 = false) as Hz' by (apply N.eqb_neq; assumption).
  assert (debt <=? j_swapped_sol j = true) as Hsw by (apply N.leb_le; assumption).
  assert (z <=? j_swap_dest_balance j = true) as Htr by (apply N.leb_le; assumption).
  apply rd_tx_progress_same.
  - reflexivity.
  - eexists. split; [|split].
  + unfold sdk_sweep, sdk_sweep_at, sdk_dequeue_fills_cpi. cbn [rd_process removelast app]. unfold rd_sweep. rdgo. fold debt.
    rewrite (swap_dequeue_cpi_mock_go _ _ _ _ _ _ r r' z) by (rdside; try (unfold pda_signs; reflexivity)).
    rdgo.
    rewrite (tok_transfer_go _ _ _ _ _ _ _ s t);
      try (rdside; try (unfold pda_signs; reflexivity)); try (rewrite !as_token_put_other by discriminate; assumption); try congruence.
    rdgo.
    match goal with |- context [tok_move_w ?W3 ?a ?b s t z] =>
      assert (forall k, get (tok_move_w W3 a b s t z) k =
                if key_eqb a k then get W3 a <| data := DToken (s <| t_amount := t_amount s - z |>) |>
                else if key_eqb b k then get W3 b <| data := DToken (t <| t_amount := t_amount t + z |>) |> else get W3 k) as Gm
        by (intros k; apply get_tok_move_w; [rewrite !as_token_put_other by discriminate; assumption ..|discriminate])
    end.
    rewrite write_data_go by (cbn [cx_metas cx_prog is_writable existsb mkey mwritable key_eqb andb orb]; rewrite ?N.eqb_refl, ?Gm; getnorm; proj_simpl; (reflexivity || assumption)).
    cbn [bind].
    rewrite write_data_go by (cbn [cx_metas cx_prog is_writable existsb mkey mwritable key_eqb andb orb]; rewrite ?N.eqb_refl, ?get_put, ?Gm; getnorm; proj_simpl; (reflexivity || assumption)).
    reflexivity.
  + rewrite ?now_put, now_tok_move_w, ?now_put. reflexivity.
  + intros k. unfold sweep_acct, sw_journal2, sw_journal1, sw_journal0, sw_dist2, sw_dist1. rewrite ?sr_order0. fold debt.
    match goal with |- context [tok_move_w ?W3 ?a ?b s t z] =>
      assert (forall k, get (tok_move_w W3 a b s t z) k =
                if key_eqb a k then get W3 a <| data := DToken (s <| t_amount := t_amount s - z |>) |>
                else if key_eqb b k then get W3 b <| data := DToken (t <| t_amount := t_amount t + z |>) |> else get W3 k) as Gm
        by (intros k0; apply get_tok_move_w; [rewrite !as_token_put_other by discriminate; assumption ..|discriminate])
    end.
    destruct (key_eqb_spec k KRdJournal) as [->|N1]; [repeat (rewrite get_put || rewrite Gm); getnorm; proj_simpl; reflexivity|].
    destruct (key_eqb_spec k (KRdDist e)) as [->|N2]; [repeat (rewrite get_put || rewrite Gm); getnorm; proj_simpl; reflexivity|].
    destruct (key_eqb_spec k (KUser q)) as [->|N3]; [repeat (rewrite get_put || rewrite Gm); getnorm; reflexivity|].
    destruct (key_eqb_spec k (KTok2z KRdSwapAuth)) as [->|N4]; [repeat (rewrite get_put || rewrite Gm); getnorm; reflexivity|].
    destruct (key_eqb_spec k (KTok2z (KRdDist e))) as [->|N5]; [repeat (rewrite get_put || rewrite Gm); getnorm; reflexivity|].
    repeat (rewrite get_put || rewrite Gm).
    rewrite ?(key_eqb_neq KRdJournal k), ?(key_eqb_neq (KRdDist e) k), ?(key_eqb_neq (KUser q) k),
            ?(key_eqb_neq (KTok2z KRdSwapAuth) k), ?(key_eqb_neq (KTok2z (KRdDist e)) k) by congruence.
    reflexivity.
  - intros k. unfold sweep_acct.
    destruct (key_eqb k KRdJournal) eqn:E1; [apply key_eqb_eq in E1; subst k; split; reflexivity|].
    destruct (key_eqb k (KRdDist e)) eqn:E2; [apply key_eqb_eq in E2; subst k; split; reflexivity|].
    destruct (key_eqb k (KUser q)) eqn:E3; [apply key_eqb_eq in E3; subst k; split; reflexivity|].
    destruct (key_eqb k (KTok2z KRdSwapAuth)) eqn:E4; [apply key_eqb_eq in E4; subst k; split; reflexivity|].
    destruct (key_eqb k (KTok2z (KRdDist e))) eqn:E5; [apply key_eqb_eq in E5; subst k; split; reflexivity|].
    split; reflexivity.
Qed.

(* non-vacuity: epoch 5 owes 800 lamports; the oldest fill of the mock's registry is (800 SOL-lamports -> 5000 2Z) *)
Definition ex13_sweep_keys : list key :=
  [KRdConfig; KRdDist 5; KRdJournal; KUser 9; KTok2z (KRdDist 5); KTok2z KRdSwapAuth; KUser 1; KSwapCfg; KToken].
Example sweep_progress_nonvacuous :
  let W := ex_sweep_world ex_dist5s in
  let s := {| t_mint := KMint; t_owner := KRdSwapAuth; t_amount := 9000 |} in
  let t := {| t_mint := KMint; t_owner := KRdDist 5; t_amount := 10 |} in
  let r' := {| slots := slots ex_ring; head := 1; count := 1 |} in
  sweep_ready W 5 ex_cfg ex_dist5s [0] ex_sweep_journal /\
  sweep_swap_ready W 5 9 ex_cfg ex_dist5s ex_sweep_journal ex_ring r' 5000 s t /\
  let '(W', ok) := exec_tx W (rd_tx [KUser 1] RSweep (sdk_sweep 5 (KUser 9))) in
  ok = true /\
  forallb (fun k => acct_eqb (get W' k) (purge_acct (sweep_acct W 5 9 ex_dist5s [0] ex_sweep_journal r' 5000 s t k))) ex13_sweep_keys = true /\
  as_token W' (KTok2z (KRdDist 5)) = Ok {| t_mint := KMint; t_owner := KRdDist 5; t_amount := 5010 |} /\
  j_swapped_sol (sw_journal2 ex_sweep_journal 800 5000) = 200.
Proof. cbv zeta. split; [constructor; closed|]. split; [constructor; closed|]. vm_compute. repeat split. Qed.
Example sweep_zero_progress_nonvacuous :
  let d0 := ex_dist5s <| d_uncollectible := 800 |> in let W := ex_sweep_world d0 in
  sweep_ready W 5 ex_cfg d0 [0] ex_sweep_journal /\
  let '(W', ok) := exec_tx W (rd_tx [KUser 1] RSweep (sdk_sweep 5 (KUser 9))) in
  ok = true /\
  forallb (fun k => acct_eqb (get W' k) (purge_acct (sweep_zero_acct W 5 d0 [0] ex_sweep_journal k))) ex13_sweep_keys = true.
Proof. cbv zeta. split; [constructor; closed|]. vm_compute. repeat split. Qed.
