(* C13 progress theorems, part 5: initialize-distribution. *)
From DZ Require Import Base Keys Merkle BurnRate Shares Swap_Ring State World SwapDeq RD Passport Swap Exec Corr Builders
  Lemmas_Merkle Lemmas_Shares Lemmas_RdSpecs5 Lemmas_C13 Lemmas_C13b Lemmas_C13c Lemmas_C13d.

(* ------------------------------------------------------------------------------------------------------------------ *)
(* creating a fresh program account / token account                                                                    *)
Definition created (a : acct) (space : N) (new_owner : key) (lam : N) : acct :=
  {| lamports := lamports a + lam; owner := new_owner; alen := space; data := DEmpty |}.

Lemma sys_create_account_go cx W from to lam space new_owner pdas :
  from <> to ->
  has_key (cx_metas cx) KSystem = true -> has_key (cx_metas cx) from = true -> has_key (cx_metas cx) to = true ->
  is_writable (cx_metas cx) from = true -> is_writable (cx_metas cx) to = true ->
  is_signer (cx_metas cx) from || pda_signs (cx_prog cx) from pdas = true ->
  is_signer (cx_metas cx) to || pda_signs (cx_prog cx) to pdas = true ->
  lamports (get W to) = 0 -> alen (get W to) = 0 -> owner (get W to) = KSystem -> space <= 10485760 ->
  alen (get W from) = 0 -> owner (get W from) = KSystem -> lam <= lamports (get W from) ->
  sys_create_account cx W from to lam space new_owner pdas =
  Ok (put (put (put W to (get W to <| alen := space |> <| owner := new_owner |> <| data := DEmpty |>))
               from (get W from <| lamports := lamports (get W from) - lam |>))
          to (created (get W to) space new_owner lam)).
Proof.
  intros Hne Hs Hf Ht Hwf Hwt Hsf Hst Hl0 Ha0 Ho0 Hsp Hfa Hfo Hle.
  unfold sys_create_account, cpi_metas.
  cbn [forallb mkey msigner mwritable mk negb orb andb map is_signer is_writable existsb].
  rewrite Hs, Hf, Ht, Hwf, Hwt, Hsf, Hst. cbn [require bind andb orb].
  unfold sys_create_account_core. cbn [is_signer is_writable existsb mkey msigner mwritable andb orb].
  rewrite ?key_eqb_refl, ?(key_eqb_neq to from), ?(key_eqb_neq from to) by congruence. cbn [andb orb].
  rewrite Hl0, Ha0, Ho0, !N.eqb_refl. apply N.leb_le in Hsp. rewrite Hsp. cbn [key_eqb andb require bind].
  unfold sys_transfer_core. cbn [is_signer is_writable existsb mkey msigner mwritable andb orb].
  rewrite ?key_eqb_refl, ?(key_eqb_neq to from), ?(key_eqb_neq from to) by congruence. cbn [andb orb require bind].
  rewrite !(get_put_other _ to from) by congruence. apply N.leb_le in Hle. rewrite Hfa, Hfo, Hle, N.eqb_refl. cbn [key_eqb orb require bind].
  rewrite (get_put_other _ from to) by congruence. rewrite get_put_same. unfold created. do 2 f_equal; try (apply acct_ext; cbn; rewrite ?Hl0; reflexivity).
Qed.

Lemma create_account_fresh_go cx W payer new_ len new_owner :
  payer <> new_ ->
  has_key (cx_metas cx) KSystem = true -> has_key (cx_metas cx) payer = true -> has_key (cx_metas cx) new_ = true ->
  is_writable (cx_metas cx) payer = true -> is_writable (cx_metas cx) new_ = true ->
  is_signer (cx_metas cx) payer || pda_signs (cx_prog cx) payer [new_] = true ->
  is_signer (cx_metas cx) new_ || pda_signs (cx_prog cx) new_ [new_] = true ->
  lamports (get W new_) = 0 -> alen (get W new_) = 0 -> owner (get W new_) = KSystem -> len <= 10485760 ->
  alen (get W payer) = 0 -> owner (get W payer) = KSystem -> rent len <= lamports (get W payer) ->
  create_account cx W payer new_ len new_owner 0 =
  Ok (put (put (put W new_ (get W new_ <| alen := len |> <| owner := new_owner |> <| data := DEmpty |>))
               payer (get W payer <| lamports := lamports (get W payer) - rent len |>))
          new_ (created (get W new_) len new_owner (rent len))).
Proof.
  intros. unfold create_account. rewrite H7, N.eqb_refl.
  rewrite sat_add_0_small by (apply rent_lt_two64; lia).
  apply sys_create_account_go; assumption.
Qed.

Lemma tok_init_account3_go cx W acc mint owner_ m :
  has_key (cx_metas cx) KToken = true -> has_key (cx_metas cx) acc = true -> has_key (cx_metas cx) mint = true ->
  is_writable (cx_metas cx) acc = true ->
  alen (get W acc) = LEN_TOKEN -> data (get W acc) = DEmpty -> rent LEN_TOKEN <= lamports (get W acc) ->
  owner (get W acc) = KToken -> as_mint W mint = Ok m ->
  tok_init_account3 cx W acc mint owner_ =
  Ok (put W acc (get W acc <| data := DToken {| t_mint := mint; t_owner := owner_; t_amount := 0 |} |>)).
Proof.
  intros Hk Ha Hm Hw Hl Hd Hr Ho Hmint. unfold tok_init_account3, cpi_metas.
  cbn [forallb mkey msigner mwritable mk negb orb andb map]. rewrite Hk, Ha, Hm, Hw. cbn [require bind andb orb].
  apply N.leb_le in Hr. rewrite Hl, N.eqb_refl, Hd, Hr, Hmint, Ho. cbn [require bind key_eqb]. reflexivity.
Qed.

Lemma try_initialize_go cx W k min_len d :
  min_len <= alen (get W k) -> data (get W k) = DEmpty ->
  is_writable (cx_metas cx) k = true -> owner (get W k) = cx_prog cx ->
  try_initialize cx W k min_len d = Ok (put W k (get W k <| data := d |>)).
Proof.
  intros Hl Hd Hw Ho. unfold try_initialize. apply N.leb_le in Hl. rewrite Hl, Hd. cbn [require bind].
  apply write_data_go; assumption.
Qed.

(* one payer funds two accounts *)
Lemma balanced_move2 ms W W' from to1 to2 a b :
  from <> to1 -> from <> to2 -> to1 <> to2 ->
  In from (keys_of ms) -> In to1 (keys_of ms) -> In to2 (keys_of ms) -> a + b <= lamports (get W from) ->
  (forall k, lamports (get W' k) = if key_eqb k from then lamports (get W k) - (a + b)
                                   else if key_eqb k to1 then lamports (get W k) + a
                                   else if key_eqb k to2 then lamports (get W k) + b else lamports (get W k)) ->
  balanced ms W W' = true.
Proof.
  intros N1 N2 N3 I0 I1 I2 Hle H. unfold balanced, lamports_sum. apply N.eqb_eq.
  set (f := fun k => lamports (get W k)). set (f' := fun k => lamports (get W' k)).
  set (g := fun k => if key_eqb k from then f k - a else if key_eqb k to1 then f k + a else f k).
  pose proof (dedup_keys_nodup (keys_of ms)) as Hnd.
  assert (a <= f from) as Ha by (unfold f; lia).
  pose proof (sum_move f g from to1 a N1 Ha (fun k => eq_refl) _ Hnd) as S1.
  assert (b <= g from) as Hb by (unfold g, f; rewrite key_eqb_refl; lia).
  assert (forall k, f' k = if key_eqb k from then g k - b else if key_eqb k to2 then g k + b else g k) as Hg.
  { intros k. unfold f', g, f. rewrite H. destruct (key_eqb_spec k from) as [->|]; [lia|].
    destruct (key_eqb_spec k to1) as [->|]; [rewrite (key_eqb_neq to1 to2) by assumption; reflexivity|reflexivity]. }
  pose proof (sum_move g f' from to2 b N2 Hb Hg _ Hnd) as S2.
  rewrite !existsb_key_in in S1, S2 by (apply dedup_keys_in; assumption).
  fold f. fold f'. lia.
Qed.

(* ------------------------------------------------------------------------------------------------------------------ *)
(* initialize-distribution (nothing prepaid in the journal's ATA)                                                      *)
Record init_dist_ready (W : world) (a e : N) (c : rd_config) (rate : N) (burn' : params) (m : mint_acct) (j : journal) : Prop := {
  id_cfg_owner : owner (get W KRdConfig) = KRd;
  id_cfg_data : data (get W KRdConfig) = DConfig c;
  id_accountant : c_debt_accountant c = KUser a;
  id_unpaused : c_paused c = false;
  id_epoch : c_next_epoch c = e;
  id_init_grace : c_init_grace_min c <> 0;
  id_wait : c_last_init_ts c + c_init_grace_min c * 60 <= now W;        (* the initialisation grace period is over *)
  id_clock : now W + c_calc_grace_min c * 60 < two32;
  id_calc_grace : c_calc_grace_min c <> 0;
  id_fees : fees_configured (c_fees c) = true;
  id_burn : br_compute (c_burn c) = Some (rate, burn');
  id_relay : c_relay c <> 0;
  id_fresh_dist : lamports (get W (KRdDist e)) = 0 /\ alen (get W (KRdDist e)) = 0 /\ owner (get W (KRdDist e)) = KSystem;
  id_fresh_tok : lamports (get W (KTok2z (KRdDist e))) = 0 /\ alen (get W (KTok2z (KRdDist e))) = 0 /\
                 owner (get W (KTok2z (KRdDist e))) = KSystem;
  id_mint : as_mint W KMint = Ok m;
  id_j_owner : owner (get W KRdJournal) = KRd;
  id_j_data : data (get W KRdJournal) = DJournal j;
  id_nothing_prepaid : match data (get W (KAta KRdJournal KMint)) with DToken t => t_amount t = 0 | _ => True end
}.
Definition init_dist_new (c : rd_config) (W : world) (rate : N) : dist :=
  dist_default <| d_epoch := c_next_epoch c |> <| d_cbr := rate |> <| d_fees := c_fees c |> <| d_relay := c_relay c |>
               <| d_calc_allowed_ts := now W + c_calc_grace_min c * 60 |>.
Definition init_dist_acct (W : world) (p e : N) (c : rd_config) (rate : N) (burn' : params) (k : key) : acct :=
  if key_eqb k KRdConfig then
    get W KRdConfig <| data := DConfig (c <| c_last_init_ts := now W |> <| c_burn := burn' |> <| c_next_epoch := sat_add two64 e 1 |>) |>
  else if key_eqb k (KUser p) then get W (KUser p) <| lamports := lamports (get W (KUser p)) - (rent LEN_DIST + rent LEN_TOKEN) |>
  else if key_eqb k (KRdDist e) then
    {| lamports := rent LEN_DIST; owner := KRd; alen := LEN_DIST; data := DDist (init_dist_new c W rate) [] |}
  else if key_eqb k (KTok2z (KRdDist e)) then
    {| lamports := rent LEN_TOKEN; owner := KToken; alen := LEN_TOKEN;
       data := DToken {| t_mint := KMint; t_owner := KRdDist e; t_amount := 0 |} |}
  else get W k.

Ltac side := rdside;
  first [ (unfold pda_signs; cbn [existsb key_eqb pda_program andb orb]; rewrite ?N.eqb_refl, ?orb_true_r; reflexivity)
        | (unfold LEN_DIST, LEN_TOKEN in *; lia) | idtac ].

Ltac side2 := cbn [cx_metas cx_prog is_writable is_signer has_key existsb mkey msigner mwritable key_eqb andb orb];
  getnorm; unfold created; cbn [lamports owner alen data]; proj_simpl; hyps_rw; cbn [lamports alen owner data];
  first [reflexivity | assumption | discriminate | lia | (unfold LEN_DIST, LEN_TOKEN in *; lia) | idtac].

Theorem initialize_distribution_progress W a p e c rate burn' m j :
  init_dist_ready W a e c rate burn' m j -> wallet_funds W p (rent LEN_DIST + rent LEN_TOKEN) ->
  exists W', exec_tx W (rd_tx [KUser a; KUser p] RInitializeDistribution
                          (sdk_initialize_distribution (KUser a) (KUser p) e KMint)) = (W', true) /\
    now W' = now W /\ forall k, get W' k = purge_acct (init_dist_acct W p e c rate burn' k).
Proof.
  intros R Wf. destruct R, Wf. destruct id_fresh_dist0 as (Fd1 & Fd2 & Fd3). destruct id_fresh_tok0 as (Ft1 & Ft2 & Ft3).
  assert (c_init_grace_min c =? 0 = false) as E1 by (apply N.eqb_neq; assumption).
  assert (c_calc_grace_min c =? 0 = false) as E2 by (apply N.eqb_neq; assumption).
  assert (c_relay c =? 0 = false) as E3 by (apply N.eqb_neq; assumption).
  assert (c_last_init_ts c + c_init_grace_min c * 60 <? two32 = true) as E4 by (apply N.ltb_lt; lia).
  assert (c_last_init_ts c + c_init_grace_min c * 60 <=? now W = true) as E5 by (apply N.leb_le; assumption).
  assert (now W <? two32 = true) as E6 by (apply N.ltb_lt; lia).
  assert (now W + c_calc_grace_min c * 60 <? two32 = true) as E7 by (apply N.ltb_lt; assumption).
  eapply rd_tx_progress.
  - unfold sdk_initialize_distribution, tx_wf, rd_tx, msg_signer. cbn. rewrite !N.eqb_refl, ?orb_true_r. reflexivity.
  - unfold sdk_initialize_distribution. cbn [rd_process]. unfold rd_initialize_distribution. rdgo.
    rewrite create_account_fresh_go by side. cbn [bind].
    unfold create_token_account.
    rewrite create_account_fresh_go by side. cbn [bind].
    pose proof id_mint0 as Hmint. apply as_mint_ok in Hmint. destruct Hmint as (Hmd & Hmo).
    rewrite (tok_init_account3_go _ _ _ _ _ m) by first [apply as_mint_ok; split; getnorm; assumption | side2].
    cbn [bind]. rewrite ?now_put. rdgo.
    rewrite try_initialize_go by side2. cbn [bind]. rdgo.
    destruct (data (get W (KAta KRdJournal KMint))) as [| | | | | | | | |t| | | |]; try reflexivity.
    rewrite id_nothing_prepaid0, N.eqb_refl. reflexivity.
  - rewrite ?now_put. reflexivity.
  - intros k. unfold init_dist_acct, init_dist_new. rewrite id_epoch0.
    destruct (key_eqb_spec k KRdConfig) as [->|N1]; [getnorm; reflexivity|].
    destruct (key_eqb_spec k (KUser p)) as [->|N2]; [getnorm; rewrite N.sub_add_distr; reflexivity|].
    destruct (key_eqb_spec k (KRdDist e)) as [->|N3]; [getnorm; unfold created; apply acct_ext; cbn; rewrite ?Fd1; reflexivity|].
    destruct (key_eqb_spec k (KTok2z (KRdDist e))) as [->|N4]; [getnorm; unfold created; apply acct_ext; cbn; rewrite ?Ft1; reflexivity|].
    repeat rewrite get_put.
    rewrite ?(key_eqb_neq KRdConfig k), ?(key_eqb_neq (KUser p) k), ?(key_eqb_neq (KRdDist e) k), ?(key_eqb_neq (KTok2z (KRdDist e)) k) by congruence.
    reflexivity.
  - apply (balanced_move2 _ _ _ (KUser p) (KRdDist e) (KTok2z (KRdDist e)) (rent LEN_DIST) (rent LEN_TOKEN)); try discriminate.
    + unfold sdk_initialize_distribution. cbn. tauto.
    + unfold sdk_initialize_distribution. cbn. tauto.
    + unfold sdk_initialize_distribution. cbn. tauto.
    + lia.
    + intros k.
      destruct (key_eqb_spec k (KUser p)) as [->|N2]; [getnorm; proj_simpl; cbn [lamports]; lia|].
      destruct (key_eqb_spec k (KRdDist e)) as [->|N3]; [getnorm; unfold created; proj_simpl; cbn [lamports]; reflexivity|].
      destruct (key_eqb_spec k (KTok2z (KRdDist e))) as [->|N4]; [getnorm; unfold created; proj_simpl; cbn [lamports]; reflexivity|].
      repeat rewrite get_put.
      rewrite ?(key_eqb_neq (KUser p) k), ?(key_eqb_neq (KRdDist e) k), ?(key_eqb_neq (KTok2z (KRdDist e)) k) by congruence.
      destruct (key_eqb KRdConfig k) eqn:E; [apply key_eqb_eq in E; subst k; proj_simpl|]; reflexivity.
  - intros k. unfold init_dist_acct.
    destruct (key_eqb_spec k KRdConfig) as [->|N1]; [apply rent_transition_same; reflexivity|].
    destruct (key_eqb_spec k (KUser p)) as [->|N2]; [apply rent_transition_exempt; proj_simpl; cbn [lamports]; rewrite wf_len; lia|].
    destruct (key_eqb_spec k (KRdDist e)) as [->|N3]; [apply rent_transition_exempt; cbn [lamports alen]; lia|].
    destruct (key_eqb_spec k (KTok2z (KRdDist e))) as [->|N4]; [apply rent_transition_exempt; cbn [lamports alen]; lia|].
    apply rent_transition_same; reflexivity.
Qed.

(* non-vacuity: epoch 8 is created one grace period after the previous one; the journal's ATA does not exist *)
Definition ex13_burn : params := mkP 500000000 3 5 1 2 100000000.
Definition ex13_icfg : rd_config :=
  ex_cfg <| c_init_grace_min := 2 |> <| c_calc_grace_min := 3 |> <| c_last_init_ts := 800 |> <| c_burn := ex13_burn |>
         <| c_fees := {| fp_base := 500; fp_priority := 0; fp_inflation := 0; fp_jito := 5; fp_fixed := 2 |} |>.
Definition ex13_init_world : world :=
  put (put (put (put (world0 <| now := 1000 |>)
    KRdConfig (ex_acct (rent LEN_CONFIG_ALLOC) LEN_CONFIG_ALLOC (DConfig ex13_icfg)))
    KRdJournal (ex_acct (rent LEN_CONFIG_ALLOC) LEN_CONFIG_ALLOC (DJournal journal_default)))
    KMint (ex_mint 1000000))
    (KUser 1) (ex_wallet 1000000000).
Example initialize_distribution_progress_nonvacuous :
  let W := ex13_init_world in
  let burn' := mkP 500000000 2 4 1 2 100000000 in
  init_dist_ready W 2 8 ex13_icfg 100000000 burn' {| m_supply := 1000000; m_decimals := 8 |} journal_default /\
  wallet_funds W 1 (rent LEN_DIST + rent LEN_TOKEN) /\
  let '(W', ok) := exec_tx W (rd_tx [KUser 2; KUser 1] RInitializeDistribution (sdk_initialize_distribution (KUser 2) (KUser 1) 8 KMint)) in
  ok = true /\
  forallb (fun k => acct_eqb (get W' k) (purge_acct (init_dist_acct W 1 8 ex13_icfg 100000000 burn' k)))
          [KRdConfig; KUser 1; KUser 2; KRdDist 8; KTok2z (KRdDist 8); KRdJournal; KMint; KAta KRdJournal KMint; KSystem] = true /\
  d_calc_allowed_ts (init_dist_new ex13_icfg W 100000000) = 1180.
Proof. cbv zeta. split; [constructor; closed|]. split; [constructor; closed|]. vm_compute. repeat split. Qed.
