(* C13, composition of the rewards side, part 2: the rewards phase of ONE epoch (configure-rewards, finalize-rewards, sweep -
   both branches -, one distribute-rewards per leaf) runs to completion.  Index at the end of Lemmas_C13k.v. *)
From DZ Require Import Base Keys Merkle BurnRate Shares Swap_Ring State World SwapDeq RD Passport Swap Exec Corr Builders
  Lemmas_Merkle Lemmas_Shares Lemmas_RdSpecs5 Lemmas_C13 Lemmas_C13b Lemmas_C13c Lemmas_C13d Lemmas_C13f Lemmas_C13g.

(* the operators' inputs for the rewards side: the leaves (contributor, unit share, economic burn rate), their proofs, the
   posted root, the contributors' records; z = the 2Z the sweep brings in (0 when nothing is owed) *)
Record rewards_plan (W : world) (ra p r e : N) (L : list rleaf) (root : hash) (pf : N -> proof) (crof : key -> contrib) (z : N)
  (c : rd_config) (d : dist) (tail : list N) (j : journal) (s0 : token_acct) (m : mint_acct) : Prop := {
  rp_configure : configure_rewards_ready W ra e c d tail;
  rp_epoch : d_epoch d = e;
  rp_debt_final : d_debt_final d = true;
  rp_unswept : d_swept d = false;
  rp_fresh : d_distributed_count d = 0 /\ d_distributed_2z d = 0 /\ d_burned_2z d = 0 /\ d_swept_2z d = 0;
  rp_unc : d_uncollectible d <= d_total_debt d;
  rp_ranges : d_relay d < two32 /\ d_cbr d <= US32_MAX /\ d_prepaid_2z d + z < two64;
  rp_leaves : L <> [] /\ N.of_nat (length L) <= 81920;
  rp_shares : sumN (map (fun l : rleaf => snd (fst l)) L) = US32_MAX;                    (* the shares total 100 % *)
  rp_min_epochs : c_min_epochs c <> 0 /\ sat_add two64 e (c_min_epochs c) <= c_next_epoch c;   (* enough later epochs exist *)
  rp_size : alen (get W (KRdDist e)) <= 10485760 /\ N.of_nat (length tail) <= 10485760;
  rp_cfg_lam : lamports (get W KRdConfig) <> 0;
  rp_payer : wallet_funds W p (d_relay d * N.of_nat (length L) +
                               (rent (alen (get W (KRdDist e)) + ceil8 (N.of_nat (length L))) - lamports (get W (KRdDist e))));
  rp_proofs : forall n svc us ebr, nth_error L n = Some (svc, us, ebr) ->
     leaf_index (pf (N.of_nat n)) = Some (N.of_nat n) /\
     root_from_leaf (pf (N.of_nat n)) PRE_REWARD (LReward svc us ebr) = root /\ us <= US32_MAX /\ ebr <= US32_MAX;
  rp_contribs : forall svc us ebr, In (svc, us, ebr) L ->
     owner (get W (KRdContrib svc)) = KRd /\ data (get W (KRdContrib svc)) = DContrib (crof svc) /\
     lamports (get W (KRdContrib svc)) <> 0 /\ cr_service (crof svc) = svc /\ cr_recipients (crof svc) <> [] /\
     sumN (map snd (cr_recipients (crof svc))) <= US16_MAX;
  rp_custody : as_token W (KTok2z (KRdDist e)) = Ok s0 /\ t_owner s0 = KRdDist e /\ t_mint s0 = KMint /\
               t_amount s0 = d_prepaid_2z d /\ lamports (get W (KTok2z (KRdDist e))) <> 0;
  rp_mint : as_mint W KMint = Ok m /\ lamports (get W KMint) <> 0 /\
            d_prepaid_2z d + z <= m_supply m;              (* the supply covers what may be burned (SPL: supply.checked_sub) *)
  rp_atas : forall svc us ebr x, In (svc, us, ebr) L -> In x (cr_recipients (crof svc)) ->
     exists t, as_token W (KAta (fst x) KMint) = Ok t /\ t_mint t = KMint /\ t_amount t + (d_prepaid_2z d + z) < two64 /\
               lamports (get W (KAta (fst x) KMint)) <> 0;
  rp_relayer : rent (alen (get W (KUser r))) <= lamports (get W (KUser r));
  rp_j_owner : owner (get W KRdJournal) = KRd;
  rp_j_data : data (get W KRdJournal) = DJournal j;
  rp_j_lam : lamports (get W KRdJournal) <> 0;
  rp_order : j_next_sweep j = e                                                          (* epochs are swept in order *)
}.

Definition rewards_phase_txs (ra p f r e q : N) (L : list rleaf) (root : hash) (pf : N -> proof) (crof : key -> contrib) : list tx :=
  rd_tx [KUser ra] (RConfigureRewards (N.of_nat (length L)) root) (sdk_configure_rewards (KUser ra) e)
  :: rd_tx [KUser p] RFinalizeRewards (sdk_finalize_rewards (KUser p) e)
  :: rd_tx [KUser f] RSweep (sdk_sweep e (KUser q))
  :: distribute_txs f r e crof L pf 0.

Definition rp_d1 (d : dist) (n : N) (root : hash) : dist := d <| d_total_contributors := n |> <| d_rewards_root := root |>.
Definition rp_topup (W : world) (e : N) (d : dist) (n : N) : N :=
  d_relay d * n + (rent (alen (get W (KRdDist e)) + ceil8 n) - lamports (get W (KRdDist e))).

Lemma ceil8_81920 n : n <= 81920 -> ceil8 n <= 10240.
Proof. intros H. apply ceil8_le. lia. Qed.

(* configure-rewards and finalize-rewards: the world before the sweep *)
Lemma rewards_prefix W ra p r e L root pf crof z c d tail j s0 m :
  rewards_plan W ra p r e L root pf crof z c d tail j s0 m ->
  let n := N.of_nat (length L) in
  let d2 := fr_dist (rp_d1 d n root) tail in let tail2 := tail ++ zeros (ceil8 n) in
  exists W1 W2,
    exec_tx W (rd_tx [KUser ra] (RConfigureRewards n root) (sdk_configure_rewards (KUser ra) e)) = (W1, true) /\
    exec_tx W1 (rd_tx [KUser p] RFinalizeRewards (sdk_finalize_rewards (KUser p) e)) = (W2, true) /\
    now W2 = now W /\
    get W2 (KRdDist e) = {| lamports := lamports (get W (KRdDist e)) + rp_topup W e d n; owner := KRd;
                            alen := alen (get W (KRdDist e)) + ceil8 n; data := DDist d2 tail2 |} /\
    (forall k, k <> KRdDist e -> k <> KUser p -> lamports (get W k) <> 0 -> get W2 k = get W k) /\
    get W2 (KUser p) = get W (KUser p) <| lamports := lamports (get W (KUser p)) - rp_topup W e d n |> /\
    rent (alen (get W (KRdDist e)) + ceil8 n) + d_relay d * n <= lamports (get W (KRdDist e)) + rp_topup W e d n.
Proof.
  intros P n d2 tail2. destruct P. destruct rp_leaves0 as (Lne & Lcnt). destruct rp_ranges0 as (Rrel & Rcbr & Rtot).
  destruct rp_min_epochs0 as (Me1 & Me2). destruct rp_size0 as (Sz1 & Sz2). fold n in Lcnt, rp_payer0.
  destruct (configure_rewards_progress W ra e n root c d tail rp_configure0) as (W1 & X1 & Hn1 & G1).
  set (d1 := rp_d1 d n root) in *.
  destruct rp_configure0.
  assert (forall k, k <> KRdDist e -> lamports (get W k) <> 0 -> get W1 k = get W k) as Fr1.
  { intros k Hk Hl. rewrite G1. unfold configure_rewards_acct. rewrite key_eqb_neq by assumption. apply purge_acct_id. assumption. }
  assert (get W1 (KRdDist e) = get W (KRdDist e) <| data := DDist d1 tail |>) as Gd1.
  { rewrite G1. unfold configure_rewards_acct. rewrite key_eqb_refl. reflexivity. }
  assert (get W1 KRdConfig = get W KRdConfig) as Gc1 by (apply Fr1; [discriminate|assumption]).
  destruct rp_payer0.
  assert (get W1 (KUser p) = get W (KUser p)) as Gp1.
  { apply Fr1; [discriminate|]. pose proof (rent_pos 0). lia. }
  assert (root <> null_hash) as Hroot.
  { destruct L as [|[[svc us] ebr] tl]; [contradiction|]. destruct (rp_proofs0 0%nat svc us ebr eq_refl) as (_ & <- & _).
    apply root_from_leaf_not_null. }
  assert (ceil8 n <= 10240) as Hc8 by (apply ceil8_81920; assumption).
  assert (d_relay d * n <= 4294967296 * 81920) as Hmul by (unfold two32 in *; nia).
  assert (rent (alen (get W (KRdDist e)) + ceil8 n) < two64) as Hr by (apply rent_lt_two64; lia).
  assert (finalize_rewards_amount W1 e d1 = rp_topup W e d n) as EA.
  { unfold finalize_rewards_amount, rp_topup. rewrite Gd1. subst d1. unfold rp_d1. proj_simpl.
    rewrite sat_mul_exact by (unfold two64; lia). apply sat_add_exact.
    assert (rent (alen (get W (KRdDist e)) + ceil8 n) <= (128 + 10496000) * 6960) as Hr' by (unfold rent; nia). unfold two64. lia. }
  assert (finalize_rewards_ready W1 e c d1 tail) as R2.
  { constructor; rewrite ?Gc1, ?Gd1; proj_simpl; try assumption; try reflexivity.
    - unfold calc_allowed in *. rewrite Hn1. subst d1. unfold rp_d1. proj_simpl. assumption.
    - unfold null_root_guard. subst d1. unfold rp_d1. proj_simpl.
      destruct (hash_eqb_spec root null_hash) as [E|_]; [contradiction|]. rewrite andb_false_r. reflexivity.
    - subst d1. unfold rp_d1. proj_simpl. rewrite rp_epoch0. assumption. }
  destruct (finalize_rewards_progress W1 p e c d1 tail R2) as (W2 & X2 & Hn2 & G2).
  { rewrite EA. constructor; rewrite Gp1; assumption. }
  exists W1, W2. split; [exact X1|]. split; [exact X2|]. split; [congruence|].
  assert (d_total_contributors d1 = n) as Etc by (subst d1; unfold rp_d1; proj_simpl; reflexivity).
  split.
  { rewrite G2. unfold finalize_rewards_acct. rewrite key_eqb_refl, EA, Gd1. proj_simpl. rewrite Etc.
    apply purge_acct_id. cbn [lamports]. lia. }
  split.
  { intros k Hk1 Hk2 Hl. rewrite G2. unfold finalize_rewards_acct. rewrite !key_eqb_neq by assumption.
    rewrite Fr1 by assumption. apply purge_acct_id. assumption. }
  split.
  { rewrite G2. unfold finalize_rewards_acct. rewrite (key_eqb_neq (KUser p) (KRdDist e)) by discriminate. rewrite key_eqb_refl, EA, Gp1.
    apply purge_acct_id. proj_simpl. cbn [lamports]. unfold rp_topup in *. pose proof (rent_pos 0). lia. }
  unfold rp_topup. lia.
Qed.

Lemma sw_dist2_zero d : d_swept_2z d = 0 -> sw_dist2 d 0 = sw_dist1 d.
Proof. unfold sw_dist2, sw_dist1. destruct d; cbn. intros ->. reflexivity. Qed.

(* the world after the sweep satisfies the loop invariant of distribute_all_ok for the whole list of leaves *)
Lemma rewards_phase_ready W W3 ra p r e L root pf crof z c d tail j s0 m s3 :
  rewards_plan W ra p r e L root pf crof z c d tail j s0 m ->
  let n := N.of_nat (length L) in
  let d3 := sw_dist2 (fr_dist (rp_d1 d n root) tail) z in let tail2 := tail ++ zeros (ceil8 n) in
  get W3 (KRdDist e) = {| lamports := lamports (get W (KRdDist e)) + rp_topup W e d n; owner := KRd;
                          alen := alen (get W (KRdDist e)) + ceil8 n; data := DDist d3 tail2 |} ->
  rent (alen (get W (KRdDist e)) + ceil8 n) + d_relay d * n <= lamports (get W (KRdDist e)) + rp_topup W e d n ->
  (forall k, k <> KRdDist e -> k <> KRdJournal -> (forall u, k <> KUser u) -> (forall o, k <> KTok2z o) ->
             lamports (get W k) <> 0 -> get W3 k = get W k) ->
  as_token W3 (KTok2z (KRdDist e)) = Ok s3 /\ t_owner s3 = KRdDist e /\ t_mint s3 = KMint /\ t_amount s3 = d_prepaid_2z d + z /\
    lamports (get W3 (KTok2z (KRdDist e))) <> 0 ->
  rent (alen (get W3 (KUser r))) <= lamports (get W3 (KUser r)) ->
  distribute_phase W3 e r root pf crof 0 L c d3 tail2 s3 m /\ dist_total d3 = d_prepaid_2z d + z /\ d_distributed_count d3 = 0 /\
  d_rewards_final d3 = true /\ d_relay d3 = d_relay d /\ d_distributed_2z d3 = 0 /\ d_burned_2z d3 = 0 /\
  d_rew_start d3 = N.of_nat (length tail).
Proof.
  intros P n d3 tail2 Gd Hcov Fr Hc Hrel. destruct P.
  destruct rp_leaves0 as (Lne & Lcnt). destruct rp_ranges0 as (Rrel & Rcbr & Rtot). destruct rp_size0 as (Sz1 & Sz2).
  destruct rp_fresh0 as (F1 & F2 & F3 & F4). destruct rp_configure0. destruct rp_mint0 as (Hm & Hml & Hms). fold n in Lcnt.
  assert (ceil8 n <= 10240) as Hc8 by (apply ceil8_81920; assumption).
  assert (dist_total d3 = d_prepaid_2z d + z) as ET by (subst d3; unfold dist_total, sw_dist2, sw_dist1, fr_dist, rp_d1; proj_simpl; reflexivity).
  assert (d_rew_start d3 = N.of_nat (length tail) /\ d_rew_end d3 = N.of_nat (length tail) + ceil8 n) as (Es & Ee).
  { subst d3. unfold sw_dist2, sw_dist1, fr_dist, rp_d1. proj_simpl. split; [reflexivity|]. apply sat_add_exact. unfold two32. lia. }
  assert (length tail2 = (length tail + N.to_nat (ceil8 n))%nat) as Elen by (subst tail2; rewrite app_length, zeros_length; reflexivity).
  pose proof (distribute_dust L (d_prepaid_2z d + z) rp_shares0 Lne) as (_ & Hout).
  split; [|split; [exact ET|split; [|split; [|split; [|split; [|split; [|exact Es]]]]]; subst d3; unfold sw_dist2, sw_dist1, fr_dist, rp_d1; proj_simpl; auto]].
  constructor; rewrite ?Gd, ?ET; cbn [owner data lamports alen]; try assumption; try reflexivity.
  - rewrite Fr by (discriminate || assumption). assumption.
  - rewrite Fr by (discriminate || assumption). assumption.
  - rewrite Fr by (discriminate || assumption). assumption.
  - subst d3. unfold sw_dist2, sw_dist1, fr_dist, rp_d1. proj_simpl. fold n. rewrite F1. unfold two32. lia.
  - rewrite Es, Ee, Elen. lia.
  - rewrite Es, Ee. fold n. pose proof (ceil8_covers n). lia.
  - intros idx _. rewrite Es. subst tail2. rewrite range_bit_app_zeros. apply range_bit_beyond. lia.
  - intros svc us ebr Hin. destruct (rp_contribs0 svc us ebr Hin) as (A1 & A2 & A3 & A4 & A5 & A6).
    rewrite Fr by (discriminate || assumption). auto 7.
  - destruct Hc as (C1 & C2 & C3 & C4 & C5). repeat split; try assumption. lia.
  - split; [|split; [rewrite Fr by (discriminate || assumption); assumption|lia]].
    apply as_mint_ok. apply as_mint_ok in Hm. rewrite Fr by (discriminate || assumption). assumption.
  - intros svc us ebr x Hin Hx. destruct (rp_atas0 svc us ebr x Hin Hx) as (t & A1 & A2 & A3 & A4).
    exists t. split; [|split; [assumption|split; [lia|rewrite Fr by (discriminate || assumption); assumption]]].
    apply as_token_ok. apply as_token_ok in A1. rewrite Fr by (discriminate || assumption). assumption.
  - lia.
  - subst d3. unfold sw_dist2, sw_dist1, fr_dist, rp_d1. proj_simpl. rewrite F2, F3. unfold two64 in *. lia.
Qed.

(* the loop over the leaves from the freshly swept distribution, with the dust bound *)
Lemma rewards_finish f W3 e r root pf crof L c d3 tail2 s3 m T :
  distribute_phase W3 e r root pf crof 0 L c d3 tail2 s3 m ->
  dist_total d3 = T -> d_distributed_count d3 = 0 -> d_distributed_2z d3 = 0 -> d_burned_2z d3 = 0 -> t_amount s3 = T ->
  sumN (map (fun l : rleaf => snd (fst l)) L) = US32_MAX -> L <> [] ->
  exists W' d' tail' s' m',
    run_txs W3 (distribute_txs f r e crof L pf 0) = (W', true) /\
    data (get W' (KRdDist e)) = DDist d' tail' /\
    d_distributed_count d' = N.of_nat (length L) /\
    (forall idx, idx < N.of_nat (length L) -> range_bit tail' (d_rew_start d') idx = true) /\
    as_token W' (KTok2z (KRdDist e)) = Ok s' /\ t_amount s' < N.of_nat (length L) /\
    d_distributed_2z d' + d_burned_2z d' + t_amount s' = T /\
    as_mint W' KMint = Ok m' /\ m_supply m' = m_supply m - d_burned_2z d' /\
    lamports (get W' (KUser r)) = lamports (get W3 (KUser r)) + d_relay d3 * N.of_nat (length L) /\
    (forall k, k <> KRdDist e -> k <> KTok2z (KRdDist e) -> k <> KMint -> k <> KUser r -> (forall rk, k <> KAta rk KMint) ->
               lamports (get W3 k) <> 0 -> get W' k = get W3 k) /\
    d' = d3 <| d_distributed_2z := d_distributed_2z d' |> <| d_burned_2z := d_burned_2z d' |> <| d_distributed_count := d_distributed_count d' |> /\
    (forall pos b, pos < d_rew_start d3 -> byte_bit tail' pos b = byte_bit tail2 pos b).
Proof.
  intros P ET E0 E1 E2 Es Hsh Lne.
  destruct (distribute_all_complete f e r root pf crof L W3 c d3 tail2 s3 m P E0)
    as (W' & d' & tail' & s' & m' & Hrun & Hdat & Hcnt & Hbits & Hrl & Hs' & Hsa & Hle & Hm' & Hma & Hd1 & Hd2 & Hsb & Hfr & Hd' & Hlow).
  rewrite ET in *. destruct (distribute_dust L T Hsh Lne) as (Hdust & Hout).
  exists W', d', tail', s', m'. split; [exact Hrun|]. split; [exact Hdat|]. split; [exact Hcnt|]. split; [exact Hbits|].
  split; [exact Hs'|]. split; [rewrite Hsa, Es; exact Hdust|]. split; [rewrite Hsa, Hd1, Hd2, E1, E2, Es; lia|].
  split; [exact Hm'|]. split; [rewrite Hma, Hd2, E2; reflexivity|]. split; [exact Hrl|]. split; [exact Hfr|]. split; [exact Hd'|exact Hlow].
Qed.

Lemma run_txs_cons3 W t1 t2 t3 tl W1 W2 W3 :
  exec_tx W t1 = (W1, true) -> exec_tx W1 t2 = (W2, true) -> exec_tx W2 t3 = (W3, true) ->
  run_txs W (t1 :: t2 :: t3 :: tl) = run_txs W3 tl.
Proof. intros H1 H2 H3. rewrite (run_txs_cons _ _ _ _ H1), (run_txs_cons _ _ _ _ H2), (run_txs_cons _ _ _ _ H3). reflexivity. Qed.

(* the relayer's account stays rent exempt across configure-rewards and finalize-rewards (it may be the payer) *)
Lemma relayer_after_prefix W W2 p r amt :
  wallet_funds W p amt -> rent (alen (get W (KUser r))) <= lamports (get W (KUser r)) ->
  (forall k, k <> KUser p -> k = KUser r -> get W2 k = get W k) ->
  get W2 (KUser p) = get W (KUser p) <| lamports := lamports (get W (KUser p)) - amt |> ->
  rent (alen (get W2 (KUser r))) <= lamports (get W2 (KUser r)) /\
  (r <> p -> get W2 (KUser r) = get W (KUser r)).
Proof.
  intros Wf Hr Fr Gp. destruct Wf as [Wo Wl Wfu]. destruct (N.eq_dec r p) as [->|Hne].
  - split; [|contradiction]. rewrite Gp. proj_simpl. cbn [lamports]. rewrite Wl. lia.
  - assert (get W2 (KUser r) = get W (KUser r)) as E by (apply Fr; [congruence|reflexivity]). rewrite E. auto.
Qed.

(* ---- branch 1: nothing is owed (zero collectible debt): the sweep only flips the flag and advances the journal ---- *)
Theorem honest_rewards_phase_zero W ra p f r e q L root pf crof c d tail j s0 m :
  rewards_plan W ra p r e L root pf crof 0 c d tail j s0 m ->
  d_total_debt d - d_uncollectible d = 0 ->
  exists W' d' tail' s' m',
    run_txs W (rewards_phase_txs ra p f r e q L root pf crof) = (W', true) /\
    data (get W' (KRdDist e)) = DDist d' tail' /\
    d_distributed_count d' = N.of_nat (length L) /\
    (forall idx, idx < N.of_nat (length L) -> range_bit tail' (d_rew_start d') idx = true) /\
    as_token W' (KTok2z (KRdDist e)) = Ok s' /\ t_amount s' < N.of_nat (length L) /\
    d_distributed_2z d' + d_burned_2z d' + t_amount s' = d_prepaid_2z d /\
    as_mint W' KMint = Ok m' /\ m_supply m' = m_supply m - d_burned_2z d' /\
    (r <> p -> lamports (get W' (KUser r)) = lamports (get W (KUser r)) + d_relay d * N.of_nat (length L)) /\
    data (get W' KRdJournal) = DJournal (sw_journal0 j) /\
    d' = sw_dist1 (fr_dist (rp_d1 d (N.of_nat (length L)) root) tail)
           <| d_distributed_2z := d_distributed_2z d' |> <| d_burned_2z := d_burned_2z d' |> <| d_distributed_count := d_distributed_count d' |> /\
    (forall pos b, pos < N.of_nat (length tail) -> byte_bit tail' pos b = byte_bit tail pos b).
Proof.
  intros P Hz. pose proof P as P0.
  destruct (rewards_prefix W ra p r e L root pf crof 0 c d tail j s0 m P) as (W1 & W2 & X1 & X2 & Hn2 & Gd2 & Fr2 & Gp2 & Hcov).
  set (n := N.of_nat (length L)) in *. set (d2 := fr_dist (rp_d1 d n root) tail) in *. set (tail2 := tail ++ zeros (ceil8 n)) in *.
  destruct P0. destruct rp_configure0. destruct rp_fresh0 as (F1 & F2 & F3 & F4).
  destruct rp_custody0 as (Cs & Co & Cm & Ca & Cl).
  assert (lamports (get W (KUser r)) <> 0) as Hrl by (pose proof (rent_pos (alen (get W (KUser r)))); lia).
  destruct (relayer_after_prefix W W2 p r _ rp_payer0 rp_relayer0) as (Hrel2 & Hrel2');
    [intros k Hk ->; apply Fr2; [discriminate|assumption|assumption]|exact Gp2|].
  assert (sweep_ready W2 e c d2 tail2 j) as R3.
  { constructor; rewrite ?Gd2; cbn [owner data]; try reflexivity; rewrite ?Fr2 by (discriminate || assumption); try assumption.
    subst d2. unfold fr_dist, rp_d1. proj_simpl. congruence. }
  destruct (sweep_zero_progress W2 f q e c d2 tail2 j R3) as (W3 & X3 & Hn3 & G3).
  { subst d2. unfold fr_dist, rp_d1. proj_simpl. assumption. }
  assert (forall k, k <> KRdDist e -> k <> KRdJournal -> get W3 k = purge_acct (get W2 k)) as Fr3.
  { intros k H1 H2. rewrite G3. unfold sweep_zero_acct. rewrite !key_eqb_neq by assumption. reflexivity. }
  assert (d_swept_2z d2 = 0) as Esw by (subst d2; unfold fr_dist, rp_d1; proj_simpl; assumption).
  destruct (rewards_phase_ready W W3 ra p r e L root pf crof 0 c d tail j s0 m s0 P) as (PP & ET & E0 & Ef & Erel & E1 & E2 & Ers).
  { fold n d2 tail2. rewrite (sw_dist2_zero d2 Esw). rewrite G3. unfold sweep_zero_acct. cbn [key_eqb]. rewrite N.eqb_refl.
    rewrite Gd2. apply purge_acct_id. proj_simpl. cbn [lamports]. lia. }
  { exact Hcov. }
  { intros k H1 H2 H3 H4 Hl. rewrite Fr3 by assumption. rewrite Fr2 by (assumption || apply H3). apply purge_acct_id. assumption. }
  { assert (get W3 (KTok2z (KRdDist e)) = get W (KTok2z (KRdDist e))) as E.
    { rewrite Fr3 by discriminate. rewrite Fr2 by (discriminate || assumption). apply purge_acct_id. assumption. }
    split; [apply as_token_ok; apply as_token_ok in Cs; rewrite E; assumption|]. rewrite E. repeat split; try assumption. lia. }
  { rewrite Fr3 by discriminate. rewrite purge_acct_id by (pose proof (rent_pos (alen (get W2 (KUser r)))); lia). assumption. }
  fold n d2 tail2 in PP, ET, E0, Ef, Erel, E1, E2, Ers.
  destruct (rewards_finish f W3 e r root pf crof L c _ tail2 s0 m (d_prepaid_2z d + 0) PP ET E0 E1 E2) as
    (W' & d' & tail' & s' & m' & Hrun & Hdat & Hcnt & Hbits & Hs' & Hdust & Hbooks & Hm' & Hma & Hrl' & Hfr' & Hd' & Hlow).
  { lia. } { assumption. } { tauto. }
  exists W', d', tail', s', m'. unfold rewards_phase_txs. fold n. rewrite (run_txs_cons3 _ _ _ _ _ _ _ _ X1 X2 X3).
  split; [exact Hrun|]. split; [exact Hdat|]. split; [exact Hcnt|]. split; [exact Hbits|]. split; [exact Hs'|].
  split; [exact Hdust|]. split; [rewrite Hbooks; lia|]. split; [exact Hm'|]. split; [exact Hma|].
  split.
  { intros Hne. rewrite Hrl', Erel. f_equal.
    rewrite Fr3 by discriminate. rewrite lamports_purge_acct. rewrite (Hrel2' Hne). reflexivity. }
  assert (get W3 KRdJournal = get W KRdJournal <| data := DJournal (sw_journal0 j) |>) as Gj3.
  { rewrite G3. unfold sweep_zero_acct. cbn [key_eqb]. rewrite Fr2 by (discriminate || assumption).
    apply purge_acct_id. exact rp_j_lam0. }
  split. { rewrite Hfr' by (try discriminate; rewrite Gj3; exact rp_j_lam0). rewrite Gj3. reflexivity. }
  split. { rewrite Hd' at 1. rewrite (sw_dist2_zero d2 Esw). reflexivity. }
  intros pos b Hp. rewrite Hlow by (rewrite Ers; exact Hp).
  subst tail2. apply byte_bit_app_zeros.
Qed.

(* ---- branch 2: the collectible debt was swapped; the sweep dequeues the matching fill of the (mock) swap program's
        registry and moves its 2Z from the swap destination into the custody account ---- *)
Record swap_plan (W : world) (e q : N) (c : rd_config) (d : dist) (j : journal) (rg rg' : ring) (z : N) (sd : token_acct) : Prop := {
  sp_debt : d_total_debt d - d_uncollectible d <> 0;
  sp_swapped : d_total_debt d - d_uncollectible d <= j_swapped_sol j;          (* the SOL was bought from the journal *)
  sp_program : c_swap_program c = KSwapMock;
  sp_auth_bump : c_has_swap_auth_bump c = true;                                (* the swap destination was initialised *)
  sp_fills_owner : owner (get W (KUser q)) = KSwapMock;
  sp_fills_data : data (get W (KUser q)) = DFills rg;
  sp_fills_lam : lamports (get W (KUser q)) <> 0;
  sp_head : dequeue rg (d_total_debt d - d_uncollectible d) = Some (rg', z);   (* the registry's oldest fill is this debt *)
  sp_dest : as_token W (KTok2z KRdSwapAuth) = Ok sd /\ t_owner sd = KRdSwapAuth /\ t_mint sd = KMint /\ z <= t_amount sd /\
            lamports (get W (KTok2z KRdSwapAuth)) <> 0;
  sp_tracked : z <= j_swap_dest_balance j
}.

Theorem honest_rewards_phase_swap W ra p f r e q L root pf crof z c d tail j s0 m rg rg' sd :
  rewards_plan W ra p r e L root pf crof z c d tail j s0 m ->
  swap_plan W e q c d j rg rg' z sd ->
  exists W' d' tail' s' m',
    run_txs W (rewards_phase_txs ra p f r e q L root pf crof) = (W', true) /\
    data (get W' (KRdDist e)) = DDist d' tail' /\
    d_distributed_count d' = N.of_nat (length L) /\
    (forall idx, idx < N.of_nat (length L) -> range_bit tail' (d_rew_start d') idx = true) /\
    as_token W' (KTok2z (KRdDist e)) = Ok s' /\ t_amount s' < N.of_nat (length L) /\
    d_distributed_2z d' + d_burned_2z d' + t_amount s' = d_prepaid_2z d + z /\
    as_mint W' KMint = Ok m' /\ m_supply m' = m_supply m - d_burned_2z d' /\
    (r <> p -> lamports (get W' (KUser r)) = lamports (get W (KUser r)) + d_relay d * N.of_nat (length L)) /\
    data (get W' KRdJournal) = DJournal (sw_journal2 j (d_total_debt d - d_uncollectible d) z) /\
    d' = sw_dist2 (fr_dist (rp_d1 d (N.of_nat (length L)) root) tail) z
           <| d_distributed_2z := d_distributed_2z d' |> <| d_burned_2z := d_burned_2z d' |> <| d_distributed_count := d_distributed_count d' |> /\
    (forall pos b, pos < N.of_nat (length tail) -> byte_bit tail' pos b = byte_bit tail pos b).
Proof.
  intros P S. pose proof P as P0.
  destruct (rewards_prefix W ra p r e L root pf crof z c d tail j s0 m P) as (W1 & W2 & X1 & X2 & Hn2 & Gd2 & Fr2 & Gp2 & Hcov).
  set (n := N.of_nat (length L)) in *. set (d2 := fr_dist (rp_d1 d n root) tail) in *. set (tail2 := tail ++ zeros (ceil8 n)) in *.
  destruct P0. destruct rp_configure0. destruct rp_fresh0 as (F1 & F2 & F3 & F4).
  destruct rp_custody0 as (Cs & Co & Cm & Ca & Cl). destruct rp_ranges0 as (Rrel & Rcbr & Rtot).
  destruct S. destruct sp_dest0 as (Ds & Do & Dm & Da & Dl).
  assert (lamports (get W (KUser r)) <> 0) as Hrl by (pose proof (rent_pos (alen (get W (KUser r)))); lia).
  destruct (relayer_after_prefix W W2 p r _ rp_payer0 rp_relayer0) as (Hrel2 & Hrel2');
    [intros k Hk ->; apply Fr2; [discriminate|assumption|assumption]|exact Gp2|].
  assert (q <> p) as Hqp.
  { intros ->. destruct rp_payer0 as [Wo _ _]. rewrite Wo in sp_fills_owner0. discriminate. }
  assert (get W2 (KUser q) = get W (KUser q)) as Gq2 by (apply Fr2; [discriminate|congruence|assumption]).
  assert (get W2 (KTok2z KRdSwapAuth) = get W (KTok2z KRdSwapAuth)) as Gsd2 by (apply Fr2; [discriminate|discriminate|assumption]).
  assert (get W2 (KTok2z (KRdDist e)) = get W (KTok2z (KRdDist e))) as Gcu2 by (apply Fr2; [discriminate|discriminate|assumption]).
  assert (d_total_debt d2 - d_uncollectible d2 = d_total_debt d - d_uncollectible d) as Edebt
    by (subst d2; unfold fr_dist, rp_d1; proj_simpl; reflexivity).
  assert (sweep_ready W2 e c d2 tail2 j) as R3.
  { constructor; rewrite ?Gd2; cbn [owner data]; try reflexivity; rewrite ?Fr2 by (discriminate || assumption); try assumption.
    subst d2. unfold fr_dist, rp_d1. proj_simpl. congruence. }
  assert (sweep_swap_ready W2 e q c d2 j rg rg' z sd s0) as S3.
  { constructor; rewrite ?Edebt, ?Gq2; try assumption.
    - repeat split; try assumption. apply as_token_ok. apply as_token_ok in Ds. rewrite Gsd2. assumption.
    - repeat split; try assumption; [|lia]. apply as_token_ok. apply as_token_ok in Cs. rewrite Gcu2. assumption. }
  destruct (sweep_progress W2 f q e c d2 tail2 j rg rg' z sd s0 R3) as (W3 & X3 & Hn3 & G3); [rewrite Edebt; assumption|exact S3|].
  set (s3 := s0 <| t_amount := t_amount s0 + z |>) in *.
  assert (forall k, k <> KRdDist e -> k <> KRdJournal -> k <> KUser q -> (forall o, k <> KTok2z o) -> get W3 k = purge_acct (get W2 k)) as Fr3.
  { intros k H1 H2 H3 H4. rewrite G3. unfold sweep_acct. rewrite !key_eqb_neq by (assumption || apply H4). reflexivity. }
  assert (lamports (get W3 (KUser r)) = lamports (get W2 (KUser r)) /\ alen (get W3 (KUser r)) = alen (get W2 (KUser r))) as (Lr3 & Ar3).
  { rewrite G3. unfold sweep_acct. cbn [key_eqb]. destruct (N.eqb_spec r q) as [->|Hne].
    - rewrite purge_acct_id by (proj_simpl; rewrite Gq2; assumption). split; reflexivity.
    - rewrite purge_acct_id by (pose proof (rent_pos (alen (get W2 (KUser r)))); lia). split; reflexivity. }
  destruct (rewards_phase_ready W W3 ra p r e L root pf crof z c d tail j s0 m s3 P) as (PP & ET & E0 & Ef & Erel & E1 & E2 & Ers).
  { fold n d2 tail2. rewrite G3. unfold sweep_acct. cbn [key_eqb]. rewrite N.eqb_refl.
    rewrite Gd2. apply purge_acct_id. proj_simpl. cbn [lamports]. lia. }
  { exact Hcov. }
  { intros k H1 H2 H3 H4 Hl. rewrite Fr3 by (assumption || apply H3). rewrite Fr2 by (assumption || apply H3). apply purge_acct_id. assumption. }
  { assert (get W3 (KTok2z (KRdDist e)) = get W (KTok2z (KRdDist e)) <| data := DToken s3 |>) as E.
    { rewrite G3. unfold sweep_acct. cbn [key_eqb]. rewrite N.eqb_refl. rewrite Gcu2. apply purge_acct_id. proj_simpl. assumption. }
    split; [apply as_token_ok; apply as_token_ok in Cs; rewrite E; proj_simpl; tauto|]. rewrite E. unfold s3. proj_simpl.
    repeat split; try assumption. lia. }
  { rewrite Lr3, Ar3. assumption. }
  fold n d2 tail2 in PP, ET, E0, Ef, Erel, E1, E2, Ers.
  destruct (rewards_finish f W3 e r root pf crof L c _ tail2 s3 m (d_prepaid_2z d + z) PP ET E0 E1 E2) as
    (W' & d' & tail' & s' & m' & Hrun & Hdat & Hcnt & Hbits & Hs' & Hdust & Hbooks & Hm' & Hma & Hrl' & Hfr' & Hd' & Hlow).
  { unfold s3. proj_simpl. lia. } { assumption. } { tauto. }
  exists W', d', tail', s', m'. unfold rewards_phase_txs. fold n. rewrite (run_txs_cons3 _ _ _ _ _ _ _ _ X1 X2 X3).
  split; [exact Hrun|]. split; [exact Hdat|]. split; [exact Hcnt|]. split; [exact Hbits|]. split; [exact Hs'|].
  split; [exact Hdust|]. split; [exact Hbooks|]. split; [exact Hm'|]. split; [exact Hma|].
  split.
  { intros Hne. rewrite Hrl', Erel. f_equal. rewrite Lr3. rewrite (Hrel2' Hne). reflexivity. }
  assert (get W3 KRdJournal = get W KRdJournal <| data := DJournal (sw_journal2 j (d_total_debt d - d_uncollectible d) z) |>) as Gj3.
  { rewrite G3. unfold sweep_acct. cbn [key_eqb]. rewrite Fr2 by (discriminate || assumption). rewrite Edebt.
    apply purge_acct_id. exact rp_j_lam0. }
  split. { rewrite Hfr' by (try discriminate; rewrite Gj3; exact rp_j_lam0). rewrite Gj3. reflexivity. }
  split; [exact Hd'|].
  intros pos b Hp. rewrite Hlow by (rewrite Ers; exact Hp).
  subst tail2. apply byte_bit_app_zeros.
Qed.

(* ------------------------------------------------------------------------------------------------------------------ *)
(* non-vacuity: epoch 5 (debt final), contributors 21 (40 %) and 22 (60 %, 10 % economic burn), accountant KUser 3,
   payer KUser 1, relayer KUser 7                                                                                       *)
Definition ex13_rw_world (d : dist) (tail : list N) (custody : N) (jr : journal) : world :=
  put (put (put (put (put (put (put (put (put (put (ex13_world d tail 0)
    (KRdContrib (KUser 21)) (ex_acct (rent LEN_CONTRIB) LEN_CONTRIB (DContrib ex13_contrib21)))
    (KRdContrib (KUser 22)) (ex_acct (rent LEN_CONTRIB) LEN_CONTRIB (DContrib ex_contrib)))
    (KTok2z (KRdDist 5)) (ex_tok (KRdDist 5) custody))
    KMint (ex_mint 1000000))
    (KAta (KUser 31) KMint) (ex_tok (KUser 31) 5))
    (KAta (KUser 32) KMint) (ex_tok (KUser 32) 0))
    (KUser 7) (ex_wallet 1000000))
    KRdJournal (ex_acct (rent LEN_CONFIG_ALLOC + 900) LEN_CONFIG_ALLOC (DJournal jr)))
    (KUser 9) {| lamports := 1; owner := KSwapMock; alen := LEN_FILLS; data := DFills ex_ring |})
    (KTok2z KRdSwapAuth) (ex_tok KRdSwapAuth 9000).
Definition ex13_cfg_sw : rd_config := ex13_cfg.

Ltac plan_goals :=
  try closed;
  try (intros [|[|[|n]]] svc us ebr H; cbn in H; try discriminate H; injection H as <- <- <-; vm_compute; repeat split; discriminate);
  try (intros svc us ebr H; unfold ex13_rleaves in H; cbn [In] in H; destruct H as [H|[H|[]]]; injection H as <- <- <-; closed);
  try (intros svc us ebr x H Hx; unfold ex13_rleaves in H; cbn [In] in H; destruct H as [H|[H|[]]]; injection H as <- <- <-;
       vm_compute in Hx; repeat (destruct Hx as [<-|Hx]; [eexists; closed|]); contradiction).

(* nothing owed: 10 000 prepaid 2Z are distributed *)
Definition ex13_dz : dist := ex13_fresh <| d_debt_final := true |> <| d_prepaid_2z := 10000 |> <| d_cbr := 50000000 |>.
Example honest_rewards_phase_zero_nonvacuous :
  let W := ex13_rw_world ex13_dz [] 10000 ex_journal in
  rewards_plan W 3 1 7 5 ex13_rleaves (tree_root PRE_REWARD ex_rewards) (proof_for PRE_REWARD ex_rewards) ex13_crof 0
               ex13_cfg ex13_dz [] ex_journal {| t_mint := KMint; t_owner := KRdDist 5; t_amount := 10000 |}
               {| m_supply := 1000000; m_decimals := 8 |} /\
  d_total_debt ex13_dz - d_uncollectible ex13_dz = 0 /\
  let '(W', ok) := run_txs W (rewards_phase_txs 3 1 7 7 5 9 ex13_rleaves (tree_root PRE_REWARD ex_rewards) (proof_for PRE_REWARD ex_rewards) ex13_crof) in
  ok = true /\
  (exists d', data (get W' (KRdDist 5)) = DDist d' [3] /\ d_distributed_count d' = 2 /\ d_swept d' = true /\
              d_distributed_2z d' + d_burned_2z d' = 10000) /\
  as_token W' (KTok2z (KRdDist 5)) = Ok {| t_mint := KMint; t_owner := KRdDist 5; t_amount := 0 |} /\
  lamports (get W' (KUser 7)) = 1012000 /\ lamports (get W' (KRdDist 5)) = rent (LEN_DIST + 1) /\
  data (get W' KRdJournal) = DJournal (ex_journal <| j_next_sweep := 6 |>).
Proof.
  cbv zeta. split; [|split; [reflexivity|vm_compute; split; [reflexivity|]; split; [eexists; repeat split|repeat split]]].
  constructor; [constructor; closed|..]; plan_goals.
Qed.

(* 800 lamports of debt were swapped into 5 000 2Z (the oldest fill of the mock's registry) *)
Definition ex13_ds : dist := ex_dist5 <| d_cbr := 50000000 |> <| d_payments_count := 2 |> <| d_collected_sol := 800 |>.
Example honest_rewards_phase_swap_nonvacuous :
  let W := ex13_rw_world ex13_ds [3] 0 ex_sweep_journal in
  rewards_plan W 3 1 7 5 ex13_rleaves (tree_root PRE_REWARD ex_rewards) (proof_for PRE_REWARD ex_rewards) ex13_crof 5000
               ex13_cfg ex13_ds [3] ex_sweep_journal {| t_mint := KMint; t_owner := KRdDist 5; t_amount := 0 |}
               {| m_supply := 1000000; m_decimals := 8 |} /\
  swap_plan W 5 9 ex13_cfg ex13_ds ex_sweep_journal ex_ring {| slots := slots ex_ring; head := 1; count := 1 |} 5000
            {| t_mint := KMint; t_owner := KRdSwapAuth; t_amount := 9000 |} /\
  let '(W', ok) := run_txs W (rewards_phase_txs 3 1 7 7 5 9 ex13_rleaves (tree_root PRE_REWARD ex_rewards) (proof_for PRE_REWARD ex_rewards) ex13_crof) in
  ok = true /\
  (exists d', data (get W' (KRdDist 5)) = DDist d' [3; 3] /\ d_distributed_count d' = 2 /\ d_swept d' = true /\ d_swept_2z d' = 5000 /\
              d_distributed_2z d' + d_burned_2z d' = 5000) /\
  as_token W' (KTok2z (KRdDist 5)) = Ok {| t_mint := KMint; t_owner := KRdDist 5; t_amount := 0 |} /\
  as_token W' (KTok2z KRdSwapAuth) = Ok {| t_mint := KMint; t_owner := KRdSwapAuth; t_amount := 4000 |} /\
  lamports (get W' (KUser 7)) = 1012000 /\ lamports (get W' (KRdDist 5)) = rent (LEN_DIST + 2).
Proof.
  cbv zeta. split; [|split; [constructor; closed|vm_compute; split; [reflexivity|]; split; [eexists; repeat split|repeat split]]].
  constructor; [constructor; closed|..]; plan_goals.
Qed.
