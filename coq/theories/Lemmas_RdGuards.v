(* "success => guard" theorems for the revenue-distribution processors of RD.v.
   For ALL worlds (forged look-alike accounts included), all contexts, all arguments: if a processor returns Ok then every
   check it performs held.  Part 1 (this file): helper characterisations, effect/frame lemmas of the runtime recipes and
   the per-processor theorems.  Part 2 (Lemmas_RdGuards2.v): dispatch-level tables, transaction level, examples. *)
From DZ Require Import Base Keys Merkle BurnRate Shares Swap_Ring State World SwapDeq RD Lemmas_Merkle.

(* ------------------------------------------------------------------------------------------------------------------ *)
(* tactics                                                                                                            *)

(* one step of inversion of a successful monadic computation `H : ... = Ok _` *)
Ltac rg_inv H :=
  lazymatch type of H with
  | bind ?m _ = Ok _ => let E := fresh "E" in destruct m eqn:E; cbn [bind] in H; [|discriminate H]
  | (let '(_, _) := ?p in _) = Ok _ => destruct p
  | match ?x with _ => _ end = Ok _ => first [is_var x; destruct x | destruct x eqn:?]; try discriminate H
  end.

Ltac rg_norm1 :=
  match goal with
  | H : _ /\ _ |- _ => destruct H
  | H : exists _, _ |- _ => destruct H
  | u : unit |- _ => destruct u
  | H : require _ _ = Ok tt |- _ => apply require_ok in H
  | H : _ && _ = true |- _ => apply andb_true_iff in H
  | H : negb _ = true |- _ => apply negb_true_iff in H
  | H : negb _ = false |- _ => apply negb_false_iff in H
  | H : key_eqb _ _ = true |- _ => apply key_eqb_eq in H
  | H : key_eqb _ _ = false |- _ => apply key_eqb_false in H
  | H : hash_eqb _ _ = true |- _ => apply hash_eqb_eq in H
  | H : N.leb _ _ = true |- _ => apply N.leb_le in H
  | H : N.ltb _ _ = true |- _ => apply N.ltb_lt in H
  | H : N.eqb _ _ = true |- _ => apply N.eqb_eq in H
  | H : N.leb _ _ = false |- _ => apply N.leb_gt in H
  | H : N.ltb _ _ = false |- _ => apply N.ltb_ge in H
  | H : N.eqb _ _ = false |- _ => apply N.eqb_neq in H
  | H : true = true -> _ |- _ => specialize (H eq_refl)
  | H : false = true -> _ |- _ => clear H
  | H : Ok _ = Ok _ |- _ => injection H as H
  | H : (_, _) = (_, _) |- _ => injection H as ? ?
  | H : Some _ = Some _ |- _ => injection H as H
  end.
Ltac rg_norm := repeat rg_norm1.

(* ------------------------------------------------------------------------------------------------------------------ *)
(* worlds                                                                                                             *)

Lemma get_put W k a k' : get (put W k a) k' = if key_eqb k k' then a else get W k'.
Proof. unfold get, put. cbn. rewrite lookup_upd. destruct (key_eqb k k'); reflexivity. Qed.
Lemma get_put_same W k a : get (put W k a) k = a.
Proof. rewrite get_put, key_eqb_refl. reflexivity. Qed.
Lemma get_put_other W k a k' : k <> k' -> get (put W k a) k' = get W k'.
Proof. intros. rewrite get_put, key_eqb_neq by assumption. reflexivity. Qed.
Lemma now_put W k a : now (put W k a) = now W.
Proof. reflexivity. Qed.

(* "the account at k is a revenue-distribution state account holding d": owner check + typed (discriminator) check *)
Definition rd_acct (W : world) (k : key) (d : adata) : Prop := owner (get W k) = KRd /\ data (get W k) = d.

(* ------------------------------------------------------------------------------------------------------------------ *)
(* 1. helper characterisations                                                                                        *)

Lemma next_account_ok ms s w own W m tl :
  next_account ms s w own W = Ok (m, tl) ->
  ms = m :: tl /\ (s = true -> msigner m = true) /\ (w = true -> mwritable m = true) /\
  (forall p, own = Some p -> owner (get W (mkey m)) = p).
Proof.
  unfold next_account. destruct ms as [|m0 tl0]; [discriminate|]. intros H.
  repeat rg_inv H. rg_norm. subst. repeat split.
  - intros ->. exact E.
  - intros ->. exact E0.
  - intros p ->. apply key_eqb_eq. exact E1.
Qed.
Lemma next_any_ok ms W m tl : next_any ms W = Ok (m, tl) -> ms = m :: tl.
Proof. intros H. apply next_account_ok in H. tauto. Qed.

Lemma rd_zc_config_ok ms wr W k c tl :
  rd_zc_config ms wr W = Ok (k, c, tl) ->
  exists m, ms = m :: tl /\ k = mkey m /\ (wr = true -> mwritable m = true) /\ rd_acct W k (DConfig c).
Proof.
  unfold rd_zc_config, rd_acct. intros H. repeat rg_inv H. rg_norm. subst.
  apply next_account_ok in E as (-> & _ & Hw & Ho). eexists; repeat split; eauto.
Qed.
Lemma rd_zc_dist_ok ms wr W k d t tl :
  rd_zc_dist ms wr W = Ok (k, d, t, tl) ->
  exists m, ms = m :: tl /\ k = mkey m /\ (wr = true -> mwritable m = true) /\ rd_acct W k (DDist d t).
Proof.
  unfold rd_zc_dist, rd_acct. intros H. repeat rg_inv H. rg_norm. subst.
  apply next_account_ok in E as (-> & _ & Hw & Ho). eexists; repeat split; eauto.
Qed.
Lemma rd_zc_journal_ok ms wr W k j tl :
  rd_zc_journal ms wr W = Ok (k, j, tl) ->
  exists m, ms = m :: tl /\ k = mkey m /\ (wr = true -> mwritable m = true) /\ rd_acct W k (DJournal j).
Proof.
  unfold rd_zc_journal, rd_acct. intros H. repeat rg_inv H. rg_norm. subst.
  apply next_account_ok in E as (-> & _ & Hw & Ho). eexists; repeat split; eauto.
Qed.
Lemma rd_zc_deposit_ok ms wr W k d tl :
  rd_zc_deposit ms wr W = Ok (k, d, tl) ->
  exists m, ms = m :: tl /\ k = mkey m /\ (wr = true -> mwritable m = true) /\ rd_acct W k (DDeposit d).
Proof.
  unfold rd_zc_deposit, rd_acct. intros H. repeat rg_inv H. rg_norm. subst.
  apply next_account_ok in E as (-> & _ & Hw & Ho). eexists; repeat split; eauto.
Qed.
Lemma rd_zc_contrib_ok ms wr W k c tl :
  rd_zc_contrib ms wr W = Ok (k, c, tl) ->
  exists m, ms = m :: tl /\ k = mkey m /\ (wr = true -> mwritable m = true) /\ rd_acct W k (DContrib c).
Proof.
  unfold rd_zc_contrib, rd_acct. intros H. repeat rg_inv H. rg_norm. subst.
  apply next_account_ok in E as (-> & _ & Hw & Ho). eexists; repeat split; eauto.
Qed.

(* VerifiedProgramAuthority: the second account is a signer and is the key stored for the role in the config read *)
Lemma rd_verified_ok ms wr who W k c tl :
  rd_verified ms wr who W = Ok (k, c, tl) ->
  exists m a, ms = m :: a :: tl /\ k = mkey m /\ (wr = true -> mwritable m = true) /\ rd_acct W k (DConfig c) /\
              msigner a = true /\ mkey a = role_key c who.
Proof.
  unfold rd_verified. intros H. repeat rg_inv H. rg_norm. subst.
  apply rd_zc_config_ok in E as (m0 & -> & -> & Hw & Hc).
  apply next_account_ok in E0 as (-> & Hs & _ & _).
  do 2 eexists; repeat split; eauto; apply Hc.
Qed.
Lemma require_unpaused_ok c u : require_unpaused c = Ok u -> c_paused c = false.
Proof. unfold require_unpaused. intros H. rg_norm. assumption. Qed.

Lemma next_2z_token_pda_ok ms o W k tl :
  next_2z_token_pda ms o W = Ok (k, tl) -> exists m, ms = m :: tl /\ mkey m = KTok2z o /\ k = KTok2z o.
Proof.
  unfold next_2z_token_pda. intros H. repeat rg_inv H. rg_norm. subst.
  apply next_any_ok in E as ->. eexists; repeat split; eauto.
Qed.
Lemma next_2z_mint_ok ms W tl : next_2z_mint ms W = Ok tl -> exists m, ms = m :: tl /\ mkey m = KMint.
Proof.
  unfold next_2z_mint. intros H. repeat rg_inv H. rg_norm. subst.
  apply next_any_ok in E as ->. eexists; repeat split; eauto.
Qed.
Lemma next_token_program_ok ms W tl : next_token_program ms W = Ok tl -> exists m, ms = m :: tl /\ mkey m = KToken.
Proof.
  unfold next_token_program. intros H. repeat rg_inv H. rg_norm. subst.
  apply next_any_ok in E as ->. eexists; repeat split; eauto.
Qed.

(* UpgradeAuthority: account 0 is the program-data address of `prog`, it records Some authority, account 1 signs and is it *)
Lemma next_upgrade_authority_ok ms prog W a tl :
  next_upgrade_authority ms prog W = Ok (a, tl) ->
  exists pd ow, ms = pd :: ow :: tl /\ mkey pd = KProgData prog /\ data (get W (KProgData prog)) = DProgData (Some a) /\
                msigner ow = true /\ mkey ow = a.
Proof.
  unfold next_upgrade_authority. intros H. repeat rg_inv H. rg_norm. subst.
  apply next_any_ok in E as ->. apply next_account_ok in E1 as (-> & Hs & _ & _).
  rewrite E0 in *. do 2 eexists; repeat split; eauto.
Qed.

(* bitmaps *)
Lemma testbit_set_bit_byte b i j : N.testbit (set_bit_byte b i) j = N.testbit b j || (j =? i).
Proof. unfold set_bit_byte. rewrite N.lor_spec, N.shiftl_1_l, N.pow2_bits_eqb, (N.eqb_sym i j). reflexivity. Qed.

Lemma process_leaf_ok tail s e idx tail' :
  process_leaf tail s e idx = Ok tail' ->
  let pos := N.to_nat (s + idx / 8) in
  s <= e /\ e <= N.of_nat (length tail) /\ idx / 8 < e - s /\
  N.testbit (nth pos tail 0) (idx mod 8) = false /\
  tail' = set_nth tail pos (set_bit_byte (nth pos tail 0) (idx mod 8)).
Proof. unfold process_leaf. intros H. repeat rg_inv H. rg_norm. subst. repeat split; auto. Qed.

(* the result differs from the input in exactly that one bit, which is now set *)
Lemma process_leaf_bits tail s e idx tail' :
  process_leaf tail s e idx = Ok tail' ->
  let pos := N.to_nat (s + idx / 8) in
  length tail' = length tail /\ (pos < length tail)%nat /\
  N.testbit (nth pos tail' 0) (idx mod 8) = true /\
  (forall p j, (p, j) <> (pos, idx mod 8) -> N.testbit (nth p tail' 0) j = N.testbit (nth p tail 0) j).
Proof.
  intros H pos. apply process_leaf_ok in H. cbv zeta in H. fold pos in H. destruct H as (Hse & Hel & Hi & Hb & ->).
  assert (Hp : (pos < length tail)%nat) by (unfold pos; lia).
  split; [apply set_nth_length|]. split; [exact Hp|]. split.
  - rewrite nth_set_nth_same by exact Hp. rewrite testbit_set_bit_byte, N.eqb_refl, orb_true_r. reflexivity.
  - intros p j Hne. destruct (Nat.eq_dec pos p) as [<-|Hpp].
    + rewrite nth_set_nth_same by exact Hp. rewrite testbit_set_bit_byte.
      destruct (N.eqb_spec j (idx mod 8)) as [->|]; [congruence|apply orb_false_r].
    + rewrite nth_set_nth_other by exact Hpp. reflexivity.
Qed.
(* hence a leaf index can be processed at most once *)
Lemma process_leaf_once tail s e idx tail' :
  process_leaf tail s e idx = Ok tail' -> process_leaf tail' s e idx = Err EInvalidAccountData.
Proof.
  intros H. pose proof (process_leaf_bits _ _ _ _ _ H) as (Hl & _ & Hb & _).
  apply process_leaf_ok in H as (Hse & Hel & Hi & _ & _).
  unfold process_leaf. rewrite Hl.
  replace ((s <=? e) && (e <=? N.of_nat (length tail))) with true
    by (symmetry; apply andb_true_iff; split; apply N.leb_le; assumption).
  replace (idx / 8 <? e - s) with true by (symmetry; apply N.ltb_lt; assumption).
  cbn [require bind]. rewrite Hb. reflexivity.
Qed.

(* ------------------------------------------------------------------------------------------------------------------ *)
(* effects of the runtime primitives and program-tools recipes                                                        *)

(* everything about an account but its balance *)
Definition hdr (a : acct) : key * N * adata := (owner a, alen a, data a).
Lemma hdr_owner a b : hdr a = hdr b -> owner a = owner b. Proof. unfold hdr; congruence. Qed.
Lemma hdr_alen a b : hdr a = hdr b -> alen a = alen b. Proof. unfold hdr; congruence. Qed.
Lemma hdr_data a b : hdr a = hdr b -> data a = data b. Proof. unfold hdr; congruence. Qed.

Lemma write_data_ok cx W k d W' :
  write_data cx W k d = Ok W' ->
  is_writable (cx_metas cx) k = true /\ owner (get W k) = cx_prog cx /\ W' = put W k (get W k <| data := d |>).
Proof. unfold write_data. intros H. repeat rg_inv H. rg_norm. subst. auto. Qed.
Lemma put_dist_ok cx W k d t W' :
  put_dist cx W k d t = Ok W' ->
  is_writable (cx_metas cx) k = true /\ owner (get W k) = cx_prog cx /\ W' = put W k (get W k <| data := DDist d t |>).
Proof. apply write_data_ok. Qed.
Lemma try_initialize_ok cx W k min_len d W' :
  try_initialize cx W k min_len d = Ok W' ->
  min_len <= alen (get W k) /\ data (get W k) = DEmpty /\
  is_writable (cx_metas cx) k = true /\ owner (get W k) = cx_prog cx /\ W' = put W k (get W k <| data := d |>).
Proof.
  unfold try_initialize. intros H. repeat rg_inv H. rg_norm. apply write_data_ok in H as (? & ? & ?).
  destruct (data (get W k)); try discriminate E0. auto.
Qed.
Lemma resize_ok cx W k n W' :
  resize cx W k n = Ok W' ->
  is_writable (cx_metas cx) k = true /\ owner (get W k) = cx_prog cx /\ W' = put W k (get W k <| alen := n |>).
Proof. unfold resize. intros H. repeat rg_inv H. rg_norm. subst. auto. Qed.

Lemma credit_hdr cx W k amt W' : credit cx W k amt = Ok W' -> forall k', hdr (get W' k') = hdr (get W k').
Proof.
  unfold credit. intros H k'. repeat rg_inv H; rg_norm; subst; [reflexivity|].
  rewrite get_put. destruct (key_eqb k k') eqn:Ek; [apply key_eqb_eq in Ek; subst|]; reflexivity.
Qed.
Lemma debit_hdr cx W k amt W' : debit cx W k amt = Ok W' -> forall k', hdr (get W' k') = hdr (get W k').
Proof.
  unfold debit. intros H k'. repeat rg_inv H; rg_norm; subst; [reflexivity|].
  rewrite get_put. destruct (key_eqb k k') eqn:Ek; [apply key_eqb_eq in Ek; subst|]; reflexivity.
Qed.
Lemma sys_transfer_core_hdr W ms from to amt W' :
  sys_transfer_core W ms from to amt = Ok W' -> forall k, hdr (get W' k) = hdr (get W k).
Proof.
  unfold sys_transfer_core. intros H k. repeat rg_inv H. rg_norm. subst.
  rewrite !get_put. destruct (key_eqb to k) eqn:Et; [apply key_eqb_eq in Et; subst k|].
  - destruct (key_eqb from to) eqn:Ef; [apply key_eqb_eq in Ef; subst|]; reflexivity.
  - destruct (key_eqb from k) eqn:Ef; [apply key_eqb_eq in Ef; subst|]; reflexivity.
Qed.
Lemma sys_transfer_hdr cx W from to amt pdas W' :
  sys_transfer cx W from to amt pdas = Ok W' -> forall k, hdr (get W' k) = hdr (get W k).
Proof. unfold sys_transfer. intros H. rg_inv H. eapply sys_transfer_core_hdr; eassumption. Qed.

(* what a CPI needs from the caller's account list *)
Lemma cpi_metas_ok cx callee want pdas ms :
  cpi_metas cx callee want pdas = Ok ms ->
  has_key (cx_metas cx) callee = true /\
  forall m, In m want ->
    has_key (cx_metas cx) (mkey m) = true /\
    (mwritable m = true -> is_writable (cx_metas cx) (mkey m) = true) /\
    (msigner m = true -> is_signer (cx_metas cx) (mkey m) = true \/ pda_signs (cx_prog cx) (mkey m) pdas = true).
Proof.
  unfold cpi_metas. intros H. repeat rg_inv H. rg_norm. split; [assumption|]. intros m Hin.
  rewrite forallb_forall in E0, E1, E2. specialize (E0 _ Hin). specialize (E1 _ Hin). specialize (E2 _ Hin).
  repeat split.
  - exact E0.
  - intros Hw. rewrite Hw in E1. exact E1.
  - intros Hs. rewrite Hs in E2. cbn in E2. apply orb_true_iff in E2. exact E2.
Qed.

(* try_create_account: the target must be a system-owned account without data; afterwards it belongs to `own`, has `len`
   zero bytes; no other account changes owner, length or data (the payer only pays) *)
Lemma create_account_ok cx W payer new len own add W' :
  create_account cx W payer new len own add = Ok W' ->
  owner (get W new) = KSystem /\ alen (get W new) = 0 /\
  has_key (cx_metas cx) KSystem = true /\ is_writable (cx_metas cx) new = true /\
  hdr (get W' new) = (own, len, DEmpty) /\ (forall k, k <> new -> hdr (get W' k) = hdr (get W k)).
Proof.
  unfold create_account. intros H. destruct (lamports (get W new) =? 0) eqn:Ecur.
  - unfold sys_create_account in H. rg_inv H. apply cpi_metas_ok in E as (Hsys & Hin).
    destruct (Hin (mk new true true)) as (_ & Hw & _); [right; left; reflexivity|]. specialize (Hw eq_refl).
    unfold sys_create_account_core in H. repeat rg_inv H. rg_norm.
    pose proof (sys_transfer_core_hdr _ _ _ _ _ _ H) as Hh.
    repeat split; auto.
    + rewrite Hh, get_put_same. reflexivity.
    + intros k Hk. rewrite Hh, get_put_other by congruence. reflexivity.
  - apply bind_ok in H as (w & E & H). apply bind_ok in H as (w0 & E0 & H).
    unfold sys_allocate in E. apply bind_ok in E as (ms1 & E1 & E). apply cpi_metas_ok in E1 as (Hsys & Hin).
    destruct (Hin (mk new true true)) as (_ & Hw & _); [left; reflexivity|]. specialize (Hw eq_refl).
    unfold sys_allocate_core in E. repeat rg_inv E. rg_norm. subst w.
    assert (Hw0 : hdr (get w0 new) = (own, len, DEmpty) /\ forall k, k <> new -> hdr (get w0 k) = hdr (get W k)).
    { unfold sys_assign in E0. apply bind_ok in E0 as (ms2 & _ & E0).
      unfold sys_assign_core in E0. rewrite get_put_same in E0. cbn in E0.
      destruct (key_eqb (owner (get W new)) own) eqn:Eo.
      - rg_norm. subst w0. split.
        + rewrite get_put_same. unfold hdr. cbn. congruence.
        + intros k Hk. rewrite get_put_other by congruence. reflexivity.
      - repeat rg_inv E0. rg_norm. subst w0. split.
        + rewrite get_put_same. reflexivity.
        + intros k Hk. rewrite !get_put_other by congruence. reflexivity. }
    destruct Hw0 as (Hn & Ho).
    assert (Hh : forall k, hdr (get W' k) = hdr (get w0 k)).
    { destruct (_ =? 0) in H; [rg_norm; subst; reflexivity|]. eapply sys_transfer_hdr; eassumption. }
    repeat split; auto.
    + rewrite Hh. exact Hn.
    + intros k Hk. rewrite Hh. apply Ho. exact Hk.
Qed.

Lemma as_mint_ok W k m : as_mint W k = Ok m -> owner (get W k) = KToken /\ data (get W k) = DMint m.
Proof. unfold as_mint. intros H. repeat rg_inv H. rg_norm. subst. auto. Qed.
Lemma as_token_ok W k t : as_token W k = Ok t -> owner (get W k) = KToken /\ data (get W k) = DToken t.
Proof. unfold as_token. intros H. repeat rg_inv H. rg_norm. subst. auto. Qed.

(* create a token account at a fresh address: same pre-condition; `mint` must be a Token-owned mint *)
Lemma create_token_account_ok cx W payer new mint towner W' :
  create_token_account cx W payer new mint towner = Ok W' ->
  owner (get W new) = KSystem /\ alen (get W new) = 0 /\
  has_key (cx_metas cx) KSystem = true /\ has_key (cx_metas cx) KToken = true /\ is_writable (cx_metas cx) new = true /\
  (exists mi, owner (get W mint) = KToken /\ data (get W mint) = DMint mi) /\
  hdr (get W' new) = (KToken, LEN_TOKEN, DToken {| t_mint := mint; t_owner := towner; t_amount := 0 |}) /\
  (forall k, k <> new -> hdr (get W' k) = hdr (get W k)).
Proof.
  unfold create_token_account. intros H. apply bind_ok in H as (W1 & E & H).
  apply create_account_ok in E as (Ho & Hl & Hsys & Hw & Hn & Hf).
  unfold tok_init_account3 in H. repeat rg_inv H. rg_norm. subst.
  apply cpi_metas_ok in E as (Htok & _). apply as_mint_ok in E3 as (Hmo & Hmd).
  assert (Hne : mint <> new).
  { intros ->. unfold hdr in Hn. congruence. }
  rewrite (hdr_owner _ _ (Hf _ Hne)) in Hmo. rewrite (hdr_data _ _ (Hf _ Hne)) in Hmd.
  repeat split; eauto.
  - rewrite get_put_same. unfold hdr in *. cbn. congruence.
  - intros k Hk. rewrite get_put_other by congruence. apply Hf. exact Hk.
Qed.

(* ------------------------------------------------------------------------------------------------------------------ *)
(* processor inversion                                                                                                *)

Lemma of_option_ok {A} (o : option A) e a : of_option o e = Ok a -> o = Some a.
Proof. destruct o; cbn; congruence. Qed.
Lemma leaf_idx_ok p i : leaf_idx p = Ok i -> leaf_index p = Some i.
Proof. apply of_option_ok. Qed.

Ltac rg_char E :=
  first
  [ apply rd_verified_ok in E | apply leaf_idx_ok in E | apply of_option_ok in E
  | apply rd_zc_config_ok in E | apply rd_zc_dist_ok in E | apply rd_zc_journal_ok in E
  | apply rd_zc_deposit_ok in E | apply rd_zc_contrib_ok in E
  | apply next_2z_token_pda_ok in E | apply next_2z_mint_ok in E | apply next_token_program_ok in E
  | apply next_upgrade_authority_ok in E
  | apply require_unpaused_ok in E
  | apply next_account_ok in E
  | apply put_dist_ok in E | apply write_data_ok in E | apply try_initialize_ok in E
  | apply create_account_ok in E | apply create_token_account_ok in E
  | progress (repeat rg_inv E)
  | idtac ].
(* invert the leading bind of H, destructure the bound tuple, characterise the helper that succeeded *)
Ltac rg_step H :=
  lazymatch type of H with
  | bind ?m _ = Ok _ =>
      let E := fresh "E" in destruct m eqn:E; cbn [bind] in H; [|discriminate H];
      repeat lazymatch type of H with (let '(_, _) := ?p in _) = Ok _ => destruct p end;
      rg_char E
  end.
Ltac rg_steps H := repeat rg_step H; rg_norm; cbn [role_key] in *.
Ltac rg_exs := repeat match goal with |- exists _, _ => eexists end.
Ltac rg_splits := repeat match goal with |- _ /\ _ => split end.
Ltac rg_fin := subst; rg_exs; rg_splits; eauto.

Lemma calc_allowed_spec d W : calc_allowed d W = true <-> d_calc_allowed_ts d <> 0 /\ d_calc_allowed_ts d <= now W.
Proof. unfold calc_allowed. rewrite andb_true_iff, negb_true_iff, N.eqb_neq, N.leb_le. tauto. Qed.

Theorem rd_configure_debt_guards cx W n debt root W' :
  rd_configure_debt cx W n debt root = Ok W' ->
  exists m0 m1 m2 rest c d tail,
    cx_metas cx = m0 :: m1 :: m2 :: rest /\
    rd_acct W (mkey m0) (DConfig c) /\
    msigner m1 = true /\ mkey m1 = c_debt_accountant c /\
    c_paused c = false /\
    mwritable m2 = true /\ rd_acct W (mkey m2) (DDist d tail) /\
    d_debt_final d = false /\ calc_allowed d W = true /\
    W' = put W (mkey m2) (get W (mkey m2) <| data := DDist (d <| d_total_validators := n |> <| d_total_debt := debt |> <| d_debt_root := root |>) tail |>).
Proof.
  unfold rd_configure_debt. intros H. rg_steps H.
  apply put_dist_ok in H as (_ & _ & ->). rg_fin.
Qed.

(* ------------------------------------------------------------------------------------------------------------------ *)
(* 2. one theorem per processor (simple ones first)                                                                   *)

Theorem rd_set_admin_guards cx W admin W' :
  rd_set_admin cx W admin = Ok W' ->
  exists m0 m1 m2 rest a c,
    cx_metas cx = m0 :: m1 :: m2 :: rest /\
    mkey m0 = KProgData KRd /\ data (get W (KProgData KRd)) = DProgData (Some a) /\
    msigner m1 = true /\ mkey m1 = a /\
    mwritable m2 = true /\ rd_acct W (mkey m2) (DConfig c) /\
    W' = put W (mkey m2) (get W (mkey m2) <| data := DConfig (c <| c_admin := admin |>) |>).
Proof.
  unfold rd_set_admin. intros H. rg_steps H. apply write_data_ok in H as (_ & _ & ->). rg_fin.
Qed.
Theorem rd_migrate_guards cx W W' :
  rd_migrate cx W = Ok W' ->
  exists m0 m1 m2 rest a c,
    cx_metas cx = m0 :: m1 :: m2 :: rest /\
    mkey m0 = KProgData KRd /\ data (get W (KProgData KRd)) = DProgData (Some a) /\
    msigner m1 = true /\ mkey m1 = a /\
    mwritable m2 = true /\ rd_acct W (mkey m2) (DConfig c) /\
    W' = put W (mkey m2) (get W (mkey m2) <| data := DConfig (c <| c_migrated := false |>) |>).
Proof.
  unfold rd_migrate. intros H. rg_steps H. apply write_data_ok in H as (_ & _ & ->). rg_fin.
Qed.

Theorem rd_configure_program_guards cx W s W' :
  rd_configure_program cx W s = Ok W' ->
  exists m0 m1 rest c c',
    cx_metas cx = m0 :: m1 :: rest /\
    mwritable m0 = true /\ rd_acct W (mkey m0) (DConfig c) /\
    msigner m1 = true /\ mkey m1 = c_admin c /\
    rd_apply_setting c s = Ok c' /\
    W' = put W (mkey m0) (get W (mkey m0) <| data := DConfig c' |>).
Proof.
  unfold rd_configure_program. intros H. rg_steps H. apply write_data_ok in H as (_ & _ & ->). rg_fin.
Qed.

Theorem rd_configure_rewards_guards cx W n root W' :
  rd_configure_rewards cx W n root = Ok W' ->
  exists m0 m1 m2 rest c d tail,
    cx_metas cx = m0 :: m1 :: m2 :: rest /\
    rd_acct W (mkey m0) (DConfig c) /\
    msigner m1 = true /\ mkey m1 = c_rewards_accountant c /\
    c_paused c = false /\
    mwritable m2 = true /\ rd_acct W (mkey m2) (DDist d tail) /\
    d_rewards_final d = false /\ calc_allowed d W = true /\
    W' = put W (mkey m2) (get W (mkey m2) <| data := DDist (d <| d_total_contributors := n |> <| d_rewards_root := root |>) tail |>).
Proof.
  unfold rd_configure_rewards. intros H. rg_steps H. apply put_dist_ok in H as (_ & _ & ->). rg_fin.
Qed.

Theorem rd_set_rewards_manager_guards cx W k W' :
  rd_set_rewards_manager cx W k = Ok W' ->
  exists m0 m1 m2 rest c cr,
    cx_metas cx = m0 :: m1 :: m2 :: rest /\
    rd_acct W (mkey m0) (DConfig c) /\
    msigner m1 = true /\ mkey m1 = c_contributor_manager c /\
    c_paused c = false /\
    mwritable m2 = true /\ rd_acct W (mkey m2) (DContrib cr) /\
    cr_blocked cr = false /\
    W' = put W (mkey m2) (get W (mkey m2) <| data := DContrib (cr <| cr_manager := k |>) |>).
Proof.
  unfold rd_set_rewards_manager. intros H. rg_steps H. apply write_data_ok in H as (_ & _ & ->). rg_fin.
Qed.

Theorem rd_configure_contributor_guards cx W s W' :
  rd_configure_contributor cx W s = Ok W' ->
  exists m0 m1 m2 rest c cr,
    cx_metas cx = m0 :: m1 :: m2 :: rest /\
    rd_acct W (mkey m0) (DConfig c) /\ c_paused c = false /\
    mwritable m1 = true /\ rd_acct W (mkey m1) (DContrib cr) /\
    msigner m2 = true /\ mkey m2 = cr_manager cr /\
    match s with
    | CSRecipients l => recipients_new_k l = true /\
        W' = put W (mkey m1) (get W (mkey m1) <| data := DContrib (cr <| cr_recipients := l |>) |>)
    | CSBlock b => W' = put W (mkey m1) (get W (mkey m1) <| data := DContrib (cr <| cr_blocked := b |>) |>)
    end.
Proof.
  unfold rd_configure_contributor. intros H. rg_steps H.
  destruct s; rg_steps H; apply write_data_ok in H as (_ & _ & ->); rg_fin.
Qed.

Theorem rd_verify_root_guards cx W kind p W' :
  rd_verify_root cx W kind p = Ok W' ->
  exists m0 rest d tail idx,
    cx_metas cx = m0 :: rest /\ leaf_index p = Some idx /\
    rd_acct W (mkey m0) (DDist d tail) /\
    match kind with
    | RKDebt node amount => root_from_leaf p PRE_DEBT (LDebt node amount) = d_debt_root d
    | RKReward contributor us packed =>
        us <= US32_MAX /\ N.land packed ECONOMIC_BURN_RATE_MASK <= US32_MAX /\
        root_from_leaf p PRE_REWARD (LReward contributor us packed) = d_rewards_root d
    end /\
    W' = W.
Proof.
  unfold rd_verify_root. intros H. rg_steps H. destruct kind; rg_steps H; rg_fin.
Qed.

Lemma total_sol_debt_ok d x :
  total_sol_debt d = Some x -> d_uncollectible d <= d_total_debt d /\ x = d_total_debt d - d_uncollectible d.
Proof.
  unfold total_sol_debt, checked_sub. destruct (N.leb_spec (d_uncollectible d) (d_total_debt d)) as [Hle|Hgt]; [|discriminate].
  intros Hx. injection Hx as <-. auto.
Qed.
Lemma checked_add_ok m a b x : checked_add m a b = Some x -> a + b < m /\ x = a + b.
Proof. unfold checked_add. destruct (N.ltb_spec (a + b) m) as [Hlt|Hge]; [|discriminate]. intros Hx. injection Hx as <-. auto. Qed.

(* the resize-and-top-up tail shared by finalize-debt and finalize-rewards needs a payer next in the list *)
Lemma grow_and_fund_ok cx W dk d tail extra ms more W' :
  grow_and_fund cx W dk d tail extra ms more = Ok W' ->
  is_writable (cx_metas cx) dk = true /\ owner (get W dk) = cx_prog cx /\ has_key (cx_metas cx) KSystem = true /\
  (exists payer rest, ms = payer :: rest) /\
  hdr (get W' dk) = (owner (get W dk), alen (get W dk) + extra, DDist d (tail ++ zeros extra)) /\
  (forall k, k <> dk -> hdr (get W' k) = hdr (get W k)).
Proof.
  unfold grow_and_fund. intros H.
  apply bind_ok in H as (W1 & E1 & H). apply put_dist_ok in E1 as (Hw & Ho & ->).
  apply bind_ok in H as (W2 & E2 & H). apply resize_ok in E2 as (_ & _ & ->).
  rg_step H. destruct E as (-> & _). unfold sys_transfer in H. apply bind_ok in H as (ms' & Ec & H).
  apply cpi_metas_ok in Ec as (Hsys & _). pose proof (sys_transfer_core_hdr _ _ _ _ _ _ H) as Hh.
  rg_splits; eauto.
  - rewrite Hh, !get_put_same. reflexivity.
  - intros k Hk. rewrite Hh, !get_put_other by congruence. reflexivity.
Qed.

Theorem rd_finalize_debt_guards cx W W' :
  rd_finalize_debt cx W = Ok W' ->
  exists m0 m1 m2 rest c d tail,
    cx_metas cx = m0 :: m1 :: m2 :: rest /\
    rd_acct W (mkey m0) (DConfig c) /\
    msigner m1 = true /\ mkey m1 = c_debt_accountant c /\
    c_paused c = false /\
    mwritable m2 = true /\ rd_acct W (mkey m2) (DDist d tail) /\
    d_debt_final d = false /\ calc_allowed d W = true /\
    d_uncollectible d <= d_total_debt d /\
    (d_total_debt d - d_uncollectible d <> 0 -> exists payer rest', rest = payer :: rest').
Proof.
  unfold rd_finalize_debt. intros H. rg_steps H.
  apply total_sol_debt_ok in E4 as (Hle & ->). cbn in Hle, H.
  destruct (N.eqb_spec (d_total_debt d - d_uncollectible d) 0) as [Hz|Hz].
  - rg_fin. intros; contradiction.
  - apply grow_and_fund_ok in H as (_ & _ & _ & Hp & _). rg_fin.
Qed.

(* C12: finalising rewards under the null root is possible only when nothing is owed and nothing was prepaid *)
Lemma null_root_guard_ok d debt :
  null_root_guard d debt = true -> d_rewards_root d = null_hash -> debt = 0 /\ d_prepaid_2z d = 0.
Proof.
  unfold null_root_guard. intros H Hr. rewrite Hr, hash_eqb_refl, andb_true_r in H.
  apply negb_true_iff, orb_false_iff in H as (H1 & H2).
  apply negb_false_iff, N.eqb_eq in H1, H2. auto.
Qed.

Theorem rd_finalize_rewards_guards cx W W' :
  rd_finalize_rewards cx W = Ok W' ->
  exists m0 m1 m2 rest c d tail,
    cx_metas cx = m0 :: m1 :: m2 :: rest /\
    rd_acct W (mkey m0) (DConfig c) /\ c_paused c = false /\
    mwritable m1 = true /\ rd_acct W (mkey m1) (DDist d tail) /\
    d_rewards_final d = false /\ calc_allowed d W = true /\
    d_debt_final d = true /\
    d_uncollectible d <= d_total_debt d /\
    null_root_guard d (d_total_debt d - d_uncollectible d) = true /\
    c_min_epochs c <> 0 /\
    sat_add two64 (d_epoch d) (c_min_epochs c) <= c_next_epoch c.
Proof.
  unfold rd_finalize_rewards. intros H. rg_steps H.
  apply total_sol_debt_ok in E5 as (Hle & ->). cbn in *.
  apply grow_and_fund_ok in H as (_ & _ & _ & (payer & rest' & ->) & _). rg_fin.
Qed.
Corollary rd_finalize_rewards_null_root cx W W' :
  rd_finalize_rewards cx W = Ok W' ->
  exists m0 m1 rest d tail,
    cx_metas cx = m0 :: m1 :: rest /\ rd_acct W (mkey m1) (DDist d tail) /\
    (d_rewards_root d = null_hash -> d_total_debt d - d_uncollectible d = 0 /\ d_prepaid_2z d = 0).
Proof.
  intros H. apply rd_finalize_rewards_guards in H as (m0 & m1 & m2 & rest & c & d & tail & H). rg_norm.
  rg_exs; rg_splits; eauto. apply null_root_guard_ok. assumption.
Qed.
(* the saturating sum is the plain sum unless the epoch counter is at its maximum *)
Lemma sat_add_le_plain a b x : sat_add two64 a b <= x -> x < u64_max -> a + b <= x.
Proof. unfold sat_add, two64, u64_max. destruct (N.ltb_spec (a + b) 18446744073709551616); lia. Qed.

Theorem rd_enable_write_off_guards cx W W' :
  rd_enable_write_off cx W = Ok W' ->
  exists m0 m1 m2 rest c d tail,
    cx_metas cx = m0 :: m1 :: m2 :: rest /\
    rd_acct W (mkey m0) (DConfig c) /\ c_paused c = false /\
    c_writeoff_activation c <> 0 /\ c_writeoff_activation c <= c_next_epoch c /\
    mwritable m1 = true /\ rd_acct W (mkey m1) (DDist d tail) /\
    d_writeoff_enabled d = false /\ d_debt_final d = true.
Proof.
  unfold rd_enable_write_off, writeoff_activated. intros H. rg_steps H. cbn in *. rg_fin.
Qed.

Theorem rd_withdraw_sol_guards cx W amount W' :
  rd_withdraw_sol cx W amount = Ok W' ->
  exists m0 m1 m2 m3 rest c j sib z,
    cx_metas cx = m0 :: m1 :: m2 :: m3 :: rest /\
    rd_acct W (mkey m0) (DConfig c) /\ c_paused c = false /\
    c_has_withdraw_bump c = true /\ c_has_swap_auth_bump c = true /\ c_swap_program c <> default_key /\
    msigner m1 = true /\ mkey m1 = KWithdrawAuth (c_swap_program c) /\
    cx_sibling cx = Some sib /\ sb_prog sib = KToken /\ sb_kind sib = SibTransferChecked z /\
    nth 1 (sb_accounts sib) default_key = KMint /\
    nth 2 (sb_accounts sib) default_key = KTok2z KRdSwapAuth /\
    mwritable m2 = true /\ rd_acct W (mkey m2) (DJournal j) /\
    amount <= j_total_sol j /\
    mwritable m3 = true.
Proof.
  unfold rd_withdraw_sol, is_default. intros H. rg_steps H.
  rg_fin.
Qed.

Lemma owner_put_data W k d k' : owner (get (put W k (get W k <| data := d |>)) k') = owner (get W k').
Proof. rewrite get_put. destruct (key_eqb k k') eqn:E; [apply key_eqb_eq in E; subst|]; reflexivity. Qed.
Lemma alen_put_data W k d k' : alen (get (put W k (get W k <| data := d |>)) k') = alen (get W k').
Proof. rewrite get_put. destruct (key_eqb k k') eqn:E; [apply key_eqb_eq in E; subst|]; reflexivity. Qed.
Lemma lamports_put_data W k d k' : lamports (get (put W k (get W k <| data := d |>)) k') = lamports (get W k').
Proof. rewrite get_put. destruct (key_eqb k k') eqn:E; [apply key_eqb_eq in E; subst|]; reflexivity. Qed.
Lemma data_put_data W k d k' :
  data (get (put W k (get W k <| data := d |>)) k') = if key_eqb k k' then d else data (get W k').
Proof. rewrite get_put. destruct (key_eqb k k') eqn:E; reflexivity. Qed.

(* reading a typed account after another account's data was rewritten *)
Lemma rd_acct_after_write W k d0 k' d :
  rd_acct (put W k (get W k <| data := d0 |>)) k' d -> (k' = k /\ d = d0) \/ (k' <> k /\ rd_acct W k' d).
Proof.
  unfold rd_acct. rewrite get_put. destruct (key_eqb k k') eqn:Ek.
  - apply key_eqb_eq in Ek. subst k'. cbn. intros (_ & <-). left. auto.
  - apply key_eqb_false in Ek. intros Hr. right. split; [congruence|exact Hr].
Qed.

Theorem rd_pay_debt_guards cx W amount p W' :
  rd_pay_debt cx W amount p = Ok W' ->
  exists m0 m1 m2 m3 rest c d tail dp j idx tail',
    cx_metas cx = m0 :: m1 :: m2 :: m3 :: rest /\ leaf_index p = Some idx /\
    rd_acct W (mkey m0) (DConfig c) /\ c_paused c = false /\
    mwritable m1 = true /\ rd_acct W (mkey m1) (DDist d tail) /\
    d_debt_final d = true /\
    mwritable m2 = true /\ rd_acct W (mkey m2) (DDeposit dp) /\
    process_leaf tail (d_debt_start d) (d_debt_end d) idx = Ok tail' /\
    root_from_leaf p PRE_DEBT (LDebt (dp_node dp) amount) = d_debt_root d /\
    amount <= lamports (get W (mkey m2)) - rent LEN_DEPOSIT /\
    mwritable m3 = true /\ rd_acct W (mkey m3) (DJournal j) /\ mkey m3 <> mkey m1.
Proof.
  unfold rd_pay_debt. intros H. rg_steps H. cbn in *. subst.
  match goal with Hj : rd_acct (put _ _ _) _ (DJournal _) |- _ =>
    apply rd_acct_after_write in Hj as [(_ & Hj)|(Hne & Hj)]; [discriminate Hj|] end.
  rg_fin.
Qed.

Theorem rd_write_off_guards cx W amount p W' :
  rd_write_off cx W amount p = Ok W' ->
  exists m0 m1 m2 m3 m4 rest c d tail dp idx tail1 tail2 t ttail,
    cx_metas cx = m0 :: m1 :: m2 :: m3 :: m4 :: rest /\ leaf_index p = Some idx /\
    rd_acct W (mkey m0) (DConfig c) /\
    msigner m1 = true /\ mkey m1 = c_debt_accountant c /\
    c_paused c = false /\
    mwritable m2 = true /\ rd_acct W (mkey m2) (DDist d tail) /\
    mwritable m3 = true /\ rd_acct W (mkey m3) (DDeposit dp) /\
    dp_written_off dp + amount < two64 /\
    lamports (get W (mkey m3)) - rent (alen (get W (mkey m3))) < amount /\
    d_writeoff_enabled d = true /\
    process_leaf tail (d_wo_start d) (d_wo_end d) idx = Ok tail1 /\
    process_leaf tail1 (d_debt_start d) (d_debt_end d) idx = Ok tail2 /\
    root_from_leaf p PRE_DEBT (LDebt (dp_node dp) amount) = d_debt_root d /\
    (* the distribution that absorbs the loss (may be the same account), as it stood before the instruction *)
    mwritable m4 = true /\ rd_acct W (mkey m4) (DDist t ttail) /\
    d_epoch d <= d_epoch t /\ d_swept t = false /\ d_debt_final t = true /\
    d_uncollectible t + amount < two64 /\ d_uncollectible t + amount <= d_total_debt t.
Proof.
  unfold rd_write_off. intros H. rg_steps H. subst.
  repeat match goal with Hc : checked_add _ _ _ = Some _ |- _ => apply checked_add_ok in Hc as (? & ->) end.
  match goal with Ht : total_sol_debt _ = Some _ |- _ => apply total_sol_debt_ok in Ht as (Hle & _) end.
  rewrite ?get_put_same in *. cbn in *.
  match goal with Ht : rd_acct (put _ _ _) _ (DDist _ _) |- _ =>
    apply rd_acct_after_write in Ht as [(Hk & Hd)|(Hne & Hd)] end.
  - injection Hd as -> ->. cbn in *. rg_exs. rg_splits; eauto; try (rewrite Hk; eauto).
  - apply rd_acct_after_write in Hd as [(_ & Hd)|(Hne' & Hd)]; [discriminate Hd|]. rg_fin.
Qed.

(* ------------------------------------------------------------------------------------------------------------------ *)
(* initialisers                                                                                                       *)

(* what try_create_account demands of its target: never assigned to a program, no data *)
Definition fresh_acct (W : world) (k : key) : Prop := owner (get W k) = KSystem /\ alen (get W k) = 0.
Definition token_mint (W : world) (k : key) : Prop := exists mi, owner (get W k) = KToken /\ data (get W k) = DMint mi.

Lemma hdr_fields a b : hdr a = hdr b -> owner a = owner b /\ alen a = alen b /\ data a = data b.
Proof. unfold hdr. intros H. injection H as -> -> ->. auto. Qed.
(* move facts about key k from the world after a create back to the world before it *)
Ltac rg_back Hf k :=
  let Ho := fresh in let Hl := fresh in let Hd := fresh in
  destruct (hdr_fields _ _ (Hf k ltac:(congruence))) as (Ho & Hl & Hd);
  rewrite ?Ho, ?Hl, ?Hd in *; clear Ho Hl Hd.

Ltac rg_backs :=
  repeat match goal with
  | Hf : forall k, k <> ?new -> hdr (get ?W1 k) = hdr (get ?W0 k), H : context [get ?W1 ?k] |- _ =>
      let Hne := fresh in assert (Hne : k <> new) by congruence;
      let Ho := fresh in let Hl := fresh in let Hd := fresh in
      destruct (hdr_fields _ _ (Hf k Hne)) as (Ho & Hl & Hd);
      progress (rewrite ?Ho, ?Hl, ?Hd in * ); clear Hne Ho Hl Hd
  end.

Theorem rd_initialize_program_guards cx W W' :
  rd_initialize_program cx W = Ok W' ->
  exists m0 m1 m2 m3 m4 rest,
    cx_metas cx = m0 :: m1 :: m2 :: m3 :: m4 :: rest /\
    mkey m1 = KRdConfig /\ mkey m2 = KTok2z KRdConfig /\ mkey m3 = KMint /\ mkey m4 = KToken /\
    fresh_acct W KRdConfig /\ fresh_acct W (KTok2z KRdConfig) /\ token_mint W KMint.
Proof.
  unfold rd_initialize_program, fresh_acct, token_mint. intros H. rg_steps H. subst.
  rg_backs. rg_fin.
Qed.

Theorem rd_initialize_journal_guards cx W W' :
  rd_initialize_journal cx W = Ok W' ->
  exists m0 m1 m2 m3 m4 rest,
    cx_metas cx = m0 :: m1 :: m2 :: m3 :: m4 :: rest /\
    mkey m1 = KRdJournal /\ mkey m2 = KTok2z KRdJournal /\ mkey m3 = KMint /\ mkey m4 = KToken /\
    fresh_acct W KRdJournal /\ fresh_acct W (KTok2z KRdJournal) /\ token_mint W KMint.
Proof.
  unfold rd_initialize_journal, fresh_acct, token_mint. intros H. rg_steps H. subst. rg_backs. rg_fin.
Qed.

Theorem rd_initialize_contributor_guards cx W svc W' :
  rd_initialize_contributor cx W svc = Ok W' ->
  exists m0 m1 rest,
    cx_metas cx = m0 :: m1 :: rest /\ mkey m1 = KRdContrib svc /\ fresh_acct W (KRdContrib svc).
Proof.
  unfold rd_initialize_contributor, fresh_acct. intros H. rg_steps H. subst. rg_fin.
Qed.

Theorem rd_initialize_deposit_guards cx W node W' :
  rd_initialize_deposit cx W node = Ok W' ->
  exists m0 m1 rest,
    cx_metas cx = m0 :: m1 :: rest /\ mkey m0 = KRdDeposit node /\ fresh_acct W (KRdDeposit node).
Proof.
  unfold rd_initialize_deposit, fresh_acct. intros H. rg_steps H. subst. rg_fin.
Qed.

Theorem rd_initialize_swap_destination_guards cx W W' :
  rd_initialize_swap_destination cx W = Ok W' ->
  exists m0 m1 m2 m3 m4 m5 rest c,
    cx_metas cx = m0 :: m1 :: m2 :: m3 :: m4 :: m5 :: rest /\
    mwritable m0 = true /\ rd_acct W (mkey m0) (DConfig c) /\
    mkey m2 = KRdSwapAuth /\ mkey m3 = KTok2z KRdSwapAuth /\ mkey m4 = KMint /\ mkey m5 = KToken /\
    fresh_acct W (KTok2z KRdSwapAuth) /\ token_mint W KMint.
Proof.
  unfold rd_initialize_swap_destination, fresh_acct, token_mint. intros H. rg_steps H. subst.
  apply create_token_account_ok in H as (Ho & Hl & _ & _ & _ & (mi & Hmo & Hmd) & _).
  rewrite ?owner_put_data, ?alen_put_data, ?data_put_data in *.
  match goal with Hc : rd_acct W ?k (DConfig _) |- _ =>
    destruct (key_eqb k KMint) eqn:Ekm; [discriminate|] end.
  rg_fin.
Qed.

Theorem rd_initialize_distribution_guards cx W W' :
  rd_initialize_distribution cx W = Ok W' ->
  exists m0 m1 m2 m3 m4 m5 m6 m7 m8 m9 rest c j rate burn',
    cx_metas cx = m0 :: m1 :: m2 :: m3 :: m4 :: m5 :: m6 :: m7 :: m8 :: m9 :: rest /\
    mwritable m0 = true /\ rd_acct W (mkey m0) (DConfig c) /\
    msigner m1 = true /\ mkey m1 = c_debt_accountant c /\
    c_paused c = false /\
    c_init_grace_min c <> 0 /\ c_last_init_ts c + c_init_grace_min c * 60 <= now W /\ now W < two32 /\
    c_calc_grace_min c <> 0 /\ fees_configured (c_fees c) = true /\
    br_compute (c_burn c) = Some (rate, burn') /\ c_relay c <> 0 /\
    mkey m3 = KRdDist (c_next_epoch c) /\ mkey m4 = KTok2z (KRdDist (c_next_epoch c)) /\
    mkey m5 = KMint /\ mkey m6 = KToken /\
    fresh_acct W (KRdDist (c_next_epoch c)) /\ fresh_acct W (KTok2z (KRdDist (c_next_epoch c))) /\ token_mint W KMint /\
    mwritable m7 = true /\ rd_acct W (mkey m7) (DJournal j) /\
    mkey m8 = KTok2z (mkey m7) /\ mkey m9 = KAta (mkey m7) KMint.
Proof.
  unfold rd_initialize_distribution, fresh_acct, token_mint. intros H. rg_steps H. subst.
  clear H.
  match goal with
  | Hf1 : forall k, k <> KRdDist ?e -> hdr (get ?W2 k) = hdr (get ?W1 k),
    Hf2 : forall k, k <> KTok2z (KRdDist ?e) -> hdr (get ?W3 k) = hdr (get ?W2 k),
    Hn2 : hdr (get ?W3 (KTok2z (KRdDist ?e))) = _,
    Hj : rd_acct (put ?W3 _ _) (mkey ?mj) (DJournal _) |- _ =>
      apply rd_acct_after_write in Hj as [(_ & Hd)|(Hjd & (Hjo & Hjdat))]; [discriminate Hd|];
      assert (Hjt : mkey mj <> KTok2z (KRdDist e))
        by (intros Heq; rewrite Heq in Hjo; unfold hdr in Hn2; congruence);
      destruct (hdr_fields _ _ (Hf2 _ Hjt)) as (Ho2 & _ & Hd2); rewrite Ho2 in Hjo; rewrite Hd2 in Hjdat;
      destruct (hdr_fields _ _ (Hf1 _ Hjd)) as (Ho1 & _ & Hd1); rewrite Ho1 in Hjo; rewrite Hd1 in Hjdat;
      clear Ho2 Hd2 Ho1 Hd1
  end.
  rg_backs. rewrite ?owner_put_data, ?alen_put_data, ?data_put_data in *.
  repeat match goal with
  | Hx : (if key_eqb ?a ?b then DConfig _ else _) = _ |- _ => destruct (key_eqb a b); [discriminate Hx|]
  end.
  unfold rd_acct at 2. rg_fin.
Qed.

(* ------------------------------------------------------------------------------------------------------------------ *)
(* distribute rewards: one associated token account per recipient, in table order                                      *)

Lemma distribute_loop_ok cx recips : forall W ms remaining src auth pdas acc W' tot ms',
  distribute_loop cx W ms recips remaining src auth pdas acc = Ok (W', tot, ms') ->
  exists atas, ms = atas ++ ms' /\ map mkey atas = map (fun r => KAta (fst r) KMint) recips.
Proof.
  induction recips as [|[rk share] tl IH]; intros W ms remaining src auth pdas acc W' tot ms' H; cbn [distribute_loop] in H.
  - rg_norm. subst. exists []. split; reflexivity.
  - rg_steps H. subst. apply IH in H as (atas & -> & Hmap).
    match goal with Hk : mkey ?m = KAta rk KMint |- _ => exists (m :: atas); split; [reflexivity|cbn; rewrite Hk, Hmap; reflexivity] end.
Qed.

Theorem rd_distribute_rewards_guards cx W unit_share ebr p W' :
  rd_distribute_rewards cx W unit_share ebr p = Ok W' ->
  exists m0 m1 m2 m3 m4 m5 m6 atas rest c d tail cr idx tail',
    cx_metas cx = m0 :: m1 :: m2 :: m3 :: m4 :: m5 :: m6 :: atas ++ rest /\
    leaf_index p = Some idx /\
    rd_acct W (mkey m0) (DConfig c) /\ c_paused c = false /\
    mwritable m1 = true /\ rd_acct W (mkey m1) (DDist d tail) /\
    d_total_contributors d - d_distributed_count d <> 0 /\
    d_swept d = true /\
    process_leaf tail (d_rew_start d) (d_rew_end d) idx = Ok tail' /\
    rd_acct W (mkey m2) (DContrib cr) /\
    unit_share <= US32_MAX /\ ebr <= US32_MAX /\
    root_from_leaf p PRE_REWARD (LReward (cr_service cr) unit_share ebr) = d_rewards_root d /\
    mkey m3 = KTok2z (mkey m1) /\ mkey m4 = KMint /\ mwritable m5 = true /\ mkey m6 = KToken /\
    d_prepaid_2z d + d_swept_2z d < two64 /\
    map mkey atas = map (fun r => KAta (fst r) KMint) (cr_recipients cr) /\
    cr_recipients cr <> [].
Proof.
  unfold rd_distribute_rewards. intros H. rg_steps H.
  match goal with E : distribute_loop _ _ _ _ _ _ _ _ _ = Ok _ |- _ => apply distribute_loop_ok in E as (atas & -> & Hat) end.
  match goal with Hc : checked_add _ _ _ = Some _ |- _ => apply checked_add_ok in Hc as (Hlt & _) end.
  assert (Hne : cr_recipients c <> []).
  { intros Heq. match goal with Hl : Nat.eqb _ 0 = false |- _ => rewrite Heq in Hl; discriminate Hl end. }
  clear H. rg_fin.
Qed.

(* ------------------------------------------------------------------------------------------------------------------ *)
(* sweep                                                                                                               *)

Theorem rd_sweep_guards cx W W' :
  rd_sweep cx W = Ok W' ->
  exists m0 m1 m2 rest c d tail j,
    cx_metas cx = m0 :: m1 :: m2 :: rest /\
    rd_acct W (mkey m0) (DConfig c) /\ c_paused c = false /\
    mwritable m1 = true /\ rd_acct W (mkey m1) (DDist d tail) /\
    d_swept d = false /\ d_rewards_final d = true /\
    mwritable m2 = true /\ rd_acct W (mkey m2) (DJournal j) /\ mkey m2 <> mkey m1 /\
    j_next_sweep j = d_epoch d /\
    d_uncollectible d <= d_total_debt d /\
    let debt := d_total_debt d - d_uncollectible d in
    (debt <> 0 ->
       debt <= j_swapped_sol j /\
       exists m3 m4 m5 m6 m7 m8 m9 rest' W2 W3 z third,
         rest = m3 :: m4 :: m5 :: m6 :: m7 :: m8 :: m9 :: rest' /\
         mkey m6 = c_swap_program c /\
         (* the reply: present, set by the configured swap program, three u64, the first echoes the SOL amount *)
         swap_dequeue_cpi cx W2 (c_swap_program c) (mkey m3) (mkey m4) (mkey m5) (mkey m2) debt [KRdJournal]
           = Ok (W3, Some (c_swap_program c, RTriple debt z third)) /\
         mkey m7 = KTok2z (mkey m1) /\
         c_has_swap_auth_bump c = true /\ mkey m8 = KRdSwapAuth /\ mkey m9 = KTok2z KRdSwapAuth /\
         z <= j_swap_dest_balance j).
Proof.
  unfold rd_sweep. intros H. rg_steps H.
  match goal with Ht : total_sol_debt _ = Some _ |- _ => apply total_sol_debt_ok in Ht as (Hle & ->) end.
  cbn in Hle, H. cbv zeta.
  destruct (N.eqb_spec (d_total_debt d - d_uncollectible d) 0) as [Hz|Hz].
  - clear H. cbn in *. rg_fin. intros; contradiction.
  - rg_steps H. cbn in *.
    match goal with Hs : checked_sub _ _ = Some _ |- _ =>
      unfold checked_sub in Hs;
      match type of Hs with (if ?b then _ else _) = _ => destruct b eqn:Hzb; [|discriminate Hs] end end.
    rg_norm. clear H. rg_fin. intros _. split; [assumption|]. rg_exs. rg_splits; eauto.
Qed.

(* the DequeueFills CPI: the swap program is among the accounts, the fills registry is writable, and the journal signs it:
   either it carries the caller's signature already or it is THE journal PDA of this program *)
Lemma pda_signs_journal prog k : pda_signs prog k [KRdJournal] = true -> k = KRdJournal /\ prog = KRd.
Proof.
  unfold pda_signs. cbn [existsb]. rewrite orb_false_r. intros H. apply andb_true_iff in H as (Hk & Hp).
  apply key_eqb_eq in Hk. subst k. cbn [pda_program] in Hp. apply key_eqb_eq in Hp. auto.
Qed.
Lemma swap_dequeue_cpi_ok cx W swap cfg st fills jk sol W' rep :
  swap_dequeue_cpi cx W swap cfg st fills jk sol [KRdJournal] = Ok (W', rep) ->
  has_key (cx_metas cx) swap = true /\ is_writable (cx_metas cx) fills = true /\
  (is_signer (cx_metas cx) jk = true \/ (jk = KRdJournal /\ cx_prog cx = KRd)) /\
  (swap = KSwapMock \/ exists n, swap = KRogue n).
Proof.
  unfold swap_dequeue_cpi. intros H. apply bind_ok in H as (ms & Ec & H). apply cpi_metas_ok in Ec as (Hk & Hin).
  destruct (Hin (mk fills false true)) as (_ & Hw & _); [cbn; tauto|].
  destruct (Hin (mk jk true false)) as (_ & _ & Hs); [cbn; tauto|].
  rg_splits; auto.
  - destruct (Hs eq_refl) as [Hs1|Hs1]; [left; exact Hs1|right; apply pda_signs_journal; exact Hs1].
  - destruct swap; try discriminate H; eauto.
Qed.
Corollary rd_sweep_journal_signs cx W W' m0 m1 m2 rest d tail :
  rd_sweep cx W = Ok W' -> cx_metas cx = m0 :: m1 :: m2 :: rest -> data (get W (mkey m1)) = DDist d tail ->
  d_total_debt d - d_uncollectible d <> 0 ->
  is_signer (cx_metas cx) (mkey m2) = true \/ (mkey m2 = KRdJournal /\ cx_prog cx = KRd).
Proof.
  intros H Hm Hd Hz. apply rd_sweep_guards in H as (m0' & m1' & m2' & rest' & c & d' & tail' & j & Hm' & H). rg_norm.
  rewrite Hm in Hm'. injection Hm' as <- <- <- <-.
  match goal with Hr : rd_acct W (mkey m1) (DDist _ _) |- _ => destruct Hr as (_ & Hr); rewrite Hd in Hr; injection Hr as <- <- end.
  match goal with Hx : let debt := _ in _ |- _ => cbv zeta in Hx; destruct (Hx Hz) as (_ & Hx') end.
  rg_norm. match goal with Hq : swap_dequeue_cpi _ _ _ _ _ _ _ _ _ = Ok _ |- _ => apply swap_dequeue_cpi_ok in Hq end.
  tauto.
Qed.

(* ==================================================================================================================
   INDEX (Part 1).  `rd_acct W k d` := owner (get W k) = KRd /\ data (get W k) = d.   `fresh_acct W k` := system-owned, alen 0.
   `token_mint W k` := Token-owned DMint.   `hdr a` := (owner a, alen a, data a).   All statements: for all cx, W, args.

   helpers
     next_account_ok            Ok (m, tl)  ->  ms = m :: tl, signer / writable flags if requested, owner if requested
     next_any_ok                ms = m :: tl
     rd_zc_config_ok / rd_zc_dist_ok / rd_zc_journal_ok / rd_zc_deposit_ok / rd_zc_contrib_ok
                                Ok (k, x, tl) -> ms = m :: tl, k = mkey m, writable if requested, rd_acct W k (D.. x)
     rd_verified_ok             ms = m :: a :: tl, rd_acct W (mkey m) (DConfig c), msigner a, mkey a = role_key c who
     require_unpaused_ok        c_paused c = false
     next_2z_token_pda_ok       mkey m = KTok2z owner;  next_2z_mint_ok  mkey m = KMint;  next_token_program_ok  mkey m = KToken
     next_upgrade_authority_ok  ms = pd :: ow :: tl, mkey pd = KProgData prog, data = DProgData (Some a), ow signs, mkey ow = a
     process_leaf_ok            start <= end <= |tail|, idx/8 < end - start, the bit was clear, result = set_nth .. set_bit_byte
     process_leaf_bits          length kept; that bit now set; every other bit unchanged
     process_leaf_once          a second process_leaf of the same index on the result fails
     testbit_set_bit_byte, calc_allowed_spec, total_sol_debt_ok, checked_add_ok, of_option_ok, leaf_idx_ok
     null_root_guard_ok         guard true and root = null_hash -> debt = 0 and prepaid = 0
     sat_add_le_plain           sat_add two64 a b <= x < u64_max -> a + b <= x
   effects / frames
     get_put, get_put_same, get_put_other, owner_put_data, alen_put_data, lamports_put_data, data_put_data
     write_data_ok, put_dist_ok, try_initialize_ok, resize_ok   (pre-conditions + W' = put ..)
     credit_hdr, debit_hdr, sys_transfer_core_hdr, sys_transfer_hdr   (only balances change)
     cpi_metas_ok               callee and accounts present, no writable / signer escalation
     create_account_ok          target owner = KSystem, alen = 0; after: hdr = (own, len, DEmpty); other accounts keep hdr
     create_token_account_ok    same + mint is a Token mint; after: Token account of (mint, owner, 0)
     as_mint_ok, as_token_ok, grow_and_fund_ok, rd_acct_after_write
     distribute_loop_ok         consumed metas = atas ++ rest with map mkey atas = map (KAta recipient KMint) recipients
     swap_dequeue_cpi_ok, pda_signs_journal   swap program present, fills writable, journal signs (signer flag or THE journal PDA)
   processors:  rd_<name> cx W args = Ok W'  ->  exists m0 m1 .. rest <state>, cx_metas cx = m0 :: m1 :: .. :: rest /\ guards
     rd_initialize_program_guards              m1 = KRdConfig, m2 = KTok2z KRdConfig, m3 = KMint, m4 = KToken; both fresh; KMint is a mint
     rd_set_admin_guards / rd_migrate_guards   m0 = KProgData KRd holding Some a; m1 signer = a; m2 writable config; W' explicit
     rd_configure_program_guards               m0 writable config; m1 signer = c_admin; rd_apply_setting c s = Ok c'; W' explicit
     rd_initialize_journal_guards              m1 = KRdJournal, m2 = KTok2z KRdJournal, KMint, KToken; both fresh
     rd_initialize_distribution_guards         config writable; m1 signer = debt accountant; unpaused; grace/timing/fees/burn/relay gates;
                                               m3 = KRdDist next_epoch, m4 = KTok2z of it, KMint, KToken, both fresh;
                                               m7 writable journal (in W); m8 = KTok2z (mkey m7); m9 = KAta (mkey m7) KMint
     rd_configure_debt_guards                  debt accountant; unpaused; dist writable; not debt-final; calc_allowed; W' explicit
     rd_finalize_debt_guards                   same gates; uncollectible <= total; payer present if debt <> 0
     rd_configure_rewards_guards               rewards accountant; unpaused; not rewards-final; calc_allowed; W' explicit
     rd_finalize_rewards_guards                unpaused; not rewards-final; calc_allowed; debt-final; null_root_guard; min_epochs <> 0;
                                               sat_add two64 epoch min_epochs <= next_epoch; payer present
     rd_finalize_rewards_null_root             (C12) null root -> collectible debt = 0 /\ prepaid = 0
     rd_distribute_rewards_guards              unpaused; swept; some contributor left; leaf bit clear; contributor record; shares <= MAX;
                                               proof folds to rewards root; m3 = KTok2z dist, KMint, relayer writable, KToken;
                                               one KAta recipient KMint per recipient in order; recipients <> []
     rd_initialize_contributor_guards          m1 = KRdContrib svc, fresh
     rd_set_rewards_manager_guards             contributor manager; unpaused; record writable and not blocked; W' explicit
     rd_configure_contributor_guards           unpaused; m2 signer = cr_manager of the record at m1; recipients_new_k; W' explicit
     rd_verify_root_guards                     dist account; proof folds to the debt / rewards root; W' = W
     rd_initialize_deposit_guards              m0 = KRdDeposit node, fresh
     rd_pay_debt_guards                        unpaused; debt-final; deposit; bit clear; proof for (dp_node, amount); amount <= lamports - rent;
                                               journal writable (in W), distinct from the distribution
     rd_enable_write_off_guards                unpaused; activation <> 0 and <= next_epoch; not enabled; debt-final
     rd_write_off_guards                       debt accountant; unpaused; source dist + deposit; written_off + amount < 2^64;
                                               lamports - rent(alen) < amount; enabled; both bits clear; proof; target (as in W):
                                               epoch >= source, not swept, debt-final, uncollectible + amount <= total (< 2^64)
     rd_initialize_swap_destination_guards     config writable; m2 = KRdSwapAuth; m3 = KTok2z KRdSwapAuth fresh; KMint; KToken
     rd_sweep_guards                           unpaused; not swept; rewards-final; journal <> dist; next_sweep = epoch; if debt <> 0:
                                               debt <= swapped_sol, m6 = c_swap_program, reply Some (c_swap_program, RTriple debt z _),
                                               m7 = KTok2z dist, swap-auth bump, m8 = KRdSwapAuth, m9 = KTok2z KRdSwapAuth, z <= dest balance
     rd_sweep_journal_signs                    debt <> 0 -> journal is a signer of the instruction or is KRdJournal (and cx_prog = KRd)
     rd_withdraw_sol_guards                    unpaused; withdraw bump; swap program <> default; m1 signer = KWithdrawAuth swap; sibling is
                                               Token TransferChecked with accounts[1] = KMint, [2] = KTok2z KRdSwapAuth; journal writable;
                                               amount <= j_total_sol; destination writable
   ================================================================================================================== *)
