(* C06, last clause: "total SOL ever paid in by validators = tracked balance + swapped pool + collectible debt of all swept
   distributions", as an identity on the state:
       SUM over KRd-owned distributions of d_collected_sol
         = SUM over KRd-owned journals of (j_total_sol + j_swapped_sol) + SUM over swept KRd-owned distributions of (d_total_debt - d_uncollectible)
   Part 1 (this file): sums over a world, the invariant, preservation by every revenue-distribution processor.
   Part 2 (Lemmas_C06id2.v): transactions, operations, histories, corollaries, examples, the refutation of the exact form.
   Index at the end of Lemmas_C06id2.v. *)
From Coq Require Import Permutation.
From DZ Require Import Base Keys Merkle BurnRate Shares Swap_Ring State World SwapDeq RD Passport Swap Exec
  Lemmas_Merkle Lemmas_RdGuards Lemmas_Canon Lemmas_RdSpecs5 Lemmas_Hist Lemmas_Hist2 Lemmas_Hist3.

(* ------------------------------------------------------------------------------------------------------------------ *)
(* 1. sums over all accounts of a world                                                                               *)

(* The account map is an association list in which the first binding of a key is the live one (`lookup`), so a fold over
   the raw list would count shadowed bindings.  The sum is therefore taken over the duplicate-free list of bound keys,
   reading each account through `get`; `tot_on` shows that it equals the sum over ANY duplicate-free key list that
   contains every account on which the summand is non-zero, i.e. the definition does not depend on the representation. *)
Definition wkeys (W : world) : list key := dedup_keys (map fst (accts W)).
Definition tot (f : acct -> N) (W : world) : N := sumN (map (fun k => f (get W k)) (wkeys W)).

Lemma dedup_in l k : In k (dedup_keys l) <-> In k l.
Proof.
  induction l as [|x tl IH]; cbn [dedup_keys]; [tauto|].
  destruct (existsb (key_eqb x) tl) eqn:E.
  - rewrite IH. cbn [In]. split; [auto|]. intros [<-|H]; [|exact H].
    apply existsb_exists in E as (y & Hy & Hxy). apply key_eqb_eq in Hxy. subst y. exact Hy.
  - cbn [In]. rewrite IH. tauto.
Qed.
Lemma dedup_nodup l : NoDup (dedup_keys l).
Proof.
  induction l as [|x tl IH]; cbn [dedup_keys]; [constructor|].
  destruct (existsb (key_eqb x) tl) eqn:E; [exact IH|]. constructor; [|exact IH].
  rewrite dedup_in. intros Hin. assert (existsb (key_eqb x) tl = true) as E'; [|congruence].
  apply existsb_exists. exists x. split; [exact Hin|apply key_eqb_refl].
Qed.

Lemma lookup_not_in {A} k (w : kmap A) : ~ In k (map fst w) -> lookup k w = None.
Proof.
  induction w as [|[k' a] tl IH]; cbn [map fst In lookup]; [reflexivity|]. intros H.
  destruct (key_eqb_spec k k') as [->|_]; [exfalso; apply H; left; reflexivity|]. apply IH. tauto.
Qed.
Lemma get_unbound W k : ~ In k (wkeys W) -> get W k = empty_acct.
Proof. unfold wkeys, get. rewrite dedup_in. intros H. rewrite (lookup_not_in _ _ H). reflexivity. Qed.

Lemma nodup_app {A} (l1 l2 : list A) : NoDup l1 -> NoDup l2 -> (forall k, In k l1 -> ~ In k l2) -> NoDup (l1 ++ l2).
Proof.
  induction l1 as [|x tl IH]; cbn [app]; intros N1 N2 D; [exact N2|]. inversion N1 as [|? ? Hx Ht]; subst. constructor.
  - rewrite in_app_iff. intros [H|H]; [contradiction|]. apply (D x); [left; reflexivity|exact H].
  - apply IH; [exact Ht|exact N2|]. intros k Hk. apply D. right. exact Hk.
Qed.
Lemma sumN_perm l l' : Permutation l l' -> sumN l = sumN l'.
Proof. induction 1; cbn [sumN]; lia. Qed.
Lemma sumN_filter (g : key -> N) l : sumN (map g (filter (fun k => negb (g k =? 0)) l)) = sumN (map g l).
Proof.
  induction l as [|x tl IH]; cbn [filter map sumN]; [reflexivity|].
  destruct (N.eqb_spec (g x) 0) as [E|E]; cbn [negb map sumN]; lia.
Qed.
(* a sum over a duplicate-free list only depends on the keys where the summand is non-zero *)
Lemma sum_support (g : key -> N) l1 l2 :
  NoDup l1 -> NoDup l2 -> (forall k, g k <> 0 -> In k l1) -> (forall k, g k <> 0 -> In k l2) ->
  sumN (map g l1) = sumN (map g l2).
Proof.
  intros N1 N2 C1 C2. rewrite <- (sumN_filter g l1), <- (sumN_filter g l2).
  apply sumN_perm, Permutation_map, NoDup_Permutation; try (apply NoDup_filter; assumption).
  intros k. rewrite !filter_In. split; intros (_ & E); (split; [|exact E]);
    apply negb_true_iff, N.eqb_neq in E; auto.
Qed.

Theorem tot_on f W l : f empty_acct = 0 -> NoDup l -> (forall k, f (get W k) <> 0 -> In k l) ->
  tot f W = sumN (map (fun k => f (get W k)) l).
Proof.
  intros H0 Nl Cl. unfold tot. apply (sum_support (fun k => f (get W k))); try assumption; [apply dedup_nodup|].
  intros k Hk. destruct (in_dec key_eq_dec k (wkeys W)) as [Hi|Hn]; [exact Hi|].
  rewrite (get_unbound _ _ Hn) in Hk. contradiction.
Qed.

(* two worlds that agree (through the summand) outside a duplicate-free list of keys *)
Definition sum_at (f : acct -> N) (W : world) (ks : list key) : N := sumN (map (fun k => f (get W k)) ks).
Theorem tot_delta f W W' ks : f empty_acct = 0 -> NoDup ks -> (forall k, ~ In k ks -> f (get W' k) = f (get W k)) ->
  tot f W' + sum_at f W ks = tot f W + sum_at f W' ks.
Proof.
  intros H0 Nk Hsame.
  set (rest := filter (fun k => negb (existsb (key_eqb k) ks)) (dedup_keys (wkeys W ++ wkeys W'))).
  assert (Hrest : forall k, In k rest <-> (In k (wkeys W) \/ In k (wkeys W')) /\ ~ In k ks).
  { intros k. unfold rest. rewrite filter_In, dedup_in, in_app_iff, negb_true_iff. split; intros (A & B); (split; [exact A|]).
    - intros Hi. assert (existsb (key_eqb k) ks = true); [|congruence]. apply existsb_exists. exists k. split; [exact Hi|apply key_eqb_refl].
    - destruct (existsb (key_eqb k) ks) eqn:E; [|reflexivity]. exfalso. apply B.
      apply existsb_exists in E as (y & Hy & Hxy). apply key_eqb_eq in Hxy. subst y. exact Hy. }
  assert (Nall : NoDup (ks ++ rest)).
  { apply nodup_app; [exact Nk|apply NoDup_filter, dedup_nodup|]. intros k Hi Hr. apply Hrest in Hr. tauto. }
  rewrite (tot_on f W (ks ++ rest)), (tot_on f W' (ks ++ rest)); try assumption.
  - rewrite !map_app, !sumN_app. unfold sum_at.
    assert (E : sumN (map (fun k => f (get W' k)) rest) = sumN (map (fun k => f (get W k)) rest)).
    { f_equal. apply map_ext_in. intros k Hk. apply Hsame. apply Hrest in Hk. tauto. }
    lia.
  - intros k Hk. apply in_app_iff. destruct (in_dec key_eq_dec k ks) as [Hi|Hn]; [left; exact Hi|right].
    apply Hrest. split; [|exact Hn]. right. destruct (in_dec key_eq_dec k (wkeys W')) as [Hi'|Hn']; [exact Hi'|].
    rewrite (get_unbound _ _ Hn') in Hk. contradiction.
  - intros k Hk. apply in_app_iff. destruct (in_dec key_eq_dec k ks) as [Hi|Hn]; [left; exact Hi|right].
    apply Hrest. split; [|exact Hn]. left. destruct (in_dec key_eq_dec k (wkeys W)) as [Hi'|Hn']; [exact Hi'|].
    rewrite (get_unbound _ _ Hn') in Hk. contradiction.
Qed.

(* ------------------------------------------------------------------------------------------------------------------ *)
(* 2. the three summands and the invariant                                                                            *)

Definition rdb (a : acct) : bool := key_eqb (owner a) KRd.
(* what the validators paid into a distribution *)
Definition fC (a : acct) : N := if rdb a then match data a with DDist d _ => d_collected_sol d | _ => 0 end else 0.
(* tracked SOL balance + swapped-SOL pool of a journal *)
Definition fJ (a : acct) : N := if rdb a then match data a with DJournal j => j_total_sol j + j_swapped_sol j | _ => 0 end else 0.
(* collectible debt of a swept distribution *)
Definition sdebt (d : dist) : N := if d_swept d then d_total_debt d - d_uncollectible d else 0.
Definition fS (a : acct) : N := if rdb a then match data a with DDist d _ => sdebt d | _ => 0 end else 0.

Definition paid_in (W : world) : N := tot fC W.
Definition journal_sol (W : world) : N := tot fJ W.
Definition swept_debt (W : world) : N := tot fS W.

(* the identity, exactly and modulo 2^64 (the three program counters involved are advanced with wrapping u64 additions) *)
Definition Id_exact (W : world) : Prop := paid_in W = journal_sol W + swept_debt W.
Definition Id_mod (W : world) : Prop := paid_in W mod two64 = (journal_sol W + swept_debt W) mod two64.

(* companion, per account: a swept distribution is rewards-final, and a distribution that is not rewards-final holds
   lamports (rewards-final ones are covered by Inv11, journals by Inv06: none of the summed accounts can be purged) *)
Definition goodS (a : acct) : Prop :=
  owner a = KRd ->
  match data a with
  | DDist d _ => (d_swept d = true -> d_rewards_final d = true) /\ (d_rewards_final d = false -> lamports a <> 0)
  | _ => True
  end.
Definition InvS (W : world) : Prop := forall k, goodS (get W k).

(* the inductive bundle: journal cover (C06, Lemmas_Hist3), distribution cover and lifecycle (C11, Lemmas_Hist2), InvS,
   and the identity modulo 2^64 *)
Definition Inv_C06id (W : world) : Prop := Inv06 W /\ Inv11 W /\ InvS W /\ Id_mod W.

Lemma rdb_true a : rdb a = true <-> owner a = KRd.
Proof. unfold rdb. split; [apply key_eqb_eq|intros ->; apply key_eqb_refl]. Qed.
Lemma fC_empty : fC empty_acct = 0. Proof. reflexivity. Qed.
Lemma fJ_empty : fJ empty_acct = 0. Proof. reflexivity. Qed.
Lemma fS_empty : fS empty_acct = 0. Proof. reflexivity. Qed.

(* ------------------------------------------------------------------------------------------------------------------ *)
(* 3. neutral changes of one account                                                                                  *)

Definition R (a a' : acct) : Prop := (goodS a -> goodS a') /\ fC a' = fC a /\ fJ a' = fJ a /\ fS a' = fS a.

Lemma R_refl a : R a a.
Proof. unfold R. auto. Qed.
Lemma R_trans a b c : R a b -> R b c -> R a c.
Proof. intros (A1 & B1 & C1 & D1) (A2 & B2 & C2 & D2). unfold R. repeat split; try congruence. auto. Qed.

Lemma f_untyped a : typedb (data a) = false -> fC a = 0 /\ fJ a = 0 /\ fS a = 0.
Proof. intros H. unfold fC, fJ, fS. destruct (rdb a); [|auto]. destruct (data a); try discriminate H; auto. Qed.
Lemma f_nonrd a : owner a <> KRd -> fC a = 0 /\ fJ a = 0 /\ fS a = 0.
Proof. intros H. unfold fC, fJ, fS. destruct (rdb a) eqn:E; [apply rdb_true in E; contradiction|auto]. Qed.
Lemma f_not_tk a : ~ tk a -> fC a = 0 /\ fJ a = 0 /\ fS a = 0.
Proof.
  intros H. destruct (key_eq_dec (owner a) KRd) as [Ho|Ho]; [|apply f_nonrd; exact Ho].
  apply f_untyped. destruct (typedb (data a)) eqn:E; [|reflexivity]. exfalso. apply H. split; assumption.
Qed.
Lemma goodS_not_tk a : ~ tk a -> goodS a.
Proof. intros H Ho. destruct (data a) eqn:Hd; try exact I. exfalso. apply H. split; [exact Ho|rewrite Hd; reflexivity]. Qed.
Lemma R_untk a a' : ~ tk a -> ~ tk a' -> R a a'.
Proof.
  intros H H'. destruct (f_not_tk _ H) as (A & B & C), (f_not_tk _ H') as (A' & B' & C').
  unfold R. repeat split; try congruence. intros _. apply goodS_not_tk. exact H'.
Qed.
Lemma R_hdr a a' : hdr a' = hdr a -> (owner a = KRd -> lamports a <= lamports a') -> R a a'.
Proof.
  unfold hdr. intros E L. injection E as Eo Ea Ed. unfold R, fC, fJ, fS, rdb, goodS. rewrite Eo, Ed. repeat split; try reflexivity.
  intros G Ho. specialize (G Ho). specialize (L Ho). destruct (data a); try exact I. destruct G as (G1 & G2). split; [exact G1|].
  intros Hf. specialize (G2 Hf). lia.
Qed.
Lemma classic_tk a : tk a \/ ~ tk a.
Proof.
  unfold tk. destruct (key_eq_dec (owner a) KRd) as [Ho|Ho]; [|right; tauto].
  destruct (typedb (data a)); [left; auto|right; intros [_ H]; discriminate H].
Qed.
Lemma R_qa a a' : qa a a' -> R a a'.
Proof.
  intros [H1 H2]. destruct (classic_tk a) as [Ht|Ht].
  - destruct (H1 Ht) as (E & L). apply R_hdr; [exact E|intros _; exact L].
  - apply R_untk; [exact Ht|]. intros Ht'. apply Ht. apply H2. exact Ht'.
Qed.

Definition djb (d : adata) : bool := match d with DDist _ _ | DJournal _ => true | _ => false end.
Lemma R_lam a n : (owner a = KRd -> lamports a <= n) -> R a (a <| lamports := n |>).
Proof. intros H. apply R_hdr; [reflexivity|exact H]. Qed.
Lemma R_alen a n : R a (a <| alen := n |>).
Proof. unfold R, goodS, fC, fJ, fS, rdb. cbn. auto. Qed.
(* data that is neither a distribution nor a journal, over such data *)
Lemma R_plain a d : djb (data a) = false -> djb d = false -> R a (a <| data := d |>).
Proof.
  intros H H'. unfold R, goodS, fC, fJ, fS, rdb. cbn.
  destruct (data a); try discriminate H; destruct d; try discriminate H'; destruct (key_eqb (owner a) KRd); auto.
Qed.
(* a distribution rewritten: what was paid, the swept flag and (once swept) the debt figures are kept, rewards-final is
   not cleared *)
Definition sameS (d d' : dist) : Prop :=
  d_collected_sol d' = d_collected_sol d /\ d_swept d' = d_swept d /\
  (d_swept d = true -> d_total_debt d' = d_total_debt d /\ d_uncollectible d' = d_uncollectible d) /\
  (d_rewards_final d = true -> d_rewards_final d' = true).
Lemma sdebt_same d d' : sameS d d' -> sdebt d' = sdebt d.
Proof. intros (_ & B & C & _). unfold sdebt. rewrite B. destruct (d_swept d); [|reflexivity]. destruct (C eq_refl) as (-> & ->). reflexivity. Qed.
Lemma R_dist a d t d' t' : data a = DDist d t -> sameS d d' -> R a (a <| data := DDist d' t' |>).
Proof.
  intros Hd S. pose proof (sdebt_same _ _ S) as E. destruct S as (A & B & C & F).
  unfold R, goodS, fC, fJ, fS, rdb. cbn. rewrite Hd. split; [|destruct (key_eqb (owner a) KRd); auto].
  intros G Ho. destruct (G Ho) as (G1 & G2). split.
  - rewrite B. auto.
  - intros Hf. apply G2. destruct (d_rewards_final d); [specialize (F eq_refl); congruence|reflexivity].
Qed.
Ltac sameS_tac := unfold sameS; cbn; repeat split; auto.
(* typed data written over an untyped program account *)
Lemma R_new_dist a d t : djb (data a) = false -> d_collected_sol d = 0 -> d_swept d = false -> lamports a <> 0 ->
  R a (a <| data := DDist d t |>).
Proof.
  intros H Hc Hs Hl. unfold R, goodS, fC, fJ, fS, rdb, sdebt. cbn. rewrite Hc, Hs.
  split; [intros _ _; split; [discriminate|auto]|].
  destruct (data a); try discriminate H; destruct (key_eqb (owner a) KRd); auto.
Qed.
Lemma R_new_journal a j : djb (data a) = false -> j_total_sol j = 0 -> j_swapped_sol j = 0 -> R a (a <| data := DJournal j |>).
Proof.
  intros H Ht Hs. unfold R, goodS, fC, fJ, fS, rdb. cbn. rewrite Ht, Hs.
  split; [auto|]. destruct (data a); try discriminate H; destruct (key_eqb (owner a) KRd); auto.
Qed.
(* a journal rewritten with the same two balances *)
Lemma R_journal a j j' : data a = DJournal j -> j_total_sol j' = j_total_sol j -> j_swapped_sol j' = j_swapped_sol j ->
  R a (a <| data := DJournal j' |>).
Proof.
  intros Hd Ht Hs. unfold R, goodS, fC, fJ, fS, rdb. cbn. rewrite Hd, Ht, Hs. destruct (key_eqb (owner a) KRd); auto.
Qed.

(* ------------------------------------------------------------------------------------------------------------------ *)
(* 4. neutral steps between worlds                                                                                    *)

Definition NS (W W' : world) : Prop := forall k, R (get W k) (get W' k).
Lemma NS_refl W : NS W W.
Proof. intros k. apply R_refl. Qed.
Lemma NS_trans W1 W2 W3 : NS W1 W2 -> NS W2 W3 -> NS W1 W3.
Proof. intros H1 H2 k. eapply R_trans; [apply H1|apply H2]. Qed.
Lemma NS_quiet W W' : quiet W W' -> NS W W'.
Proof. intros H k. apply R_qa. apply H. Qed.
Lemma NS_put W k a : R (get W k) a -> NS W (put W k a).
Proof. intros H k'. rewrite Lemmas_RdSpecs.get_put. destruct (key_eqb_spec k k') as [<-|]; [exact H|apply R_refl]. Qed.
Lemma NS_pointwise W (W' : world) (F : key -> acct) : (forall k, get W' k = F k) -> (forall k, R (get W k) (F k)) -> NS W W'.
Proof. intros Hg HF k. rewrite Hg. apply HF. Qed.
Ltac pointwiseNS Hg := eapply NS_pointwise; [exact Hg|]; cbv beta.

Lemma InvS_step W W' ks : (forall k, ~ In k ks -> R (get W k) (get W' k)) -> (forall k, In k ks -> goodS (get W' k)) ->
  InvS W -> InvS W'.
Proof.
  intros HR HG HI k. destruct (in_dec key_eq_dec k ks) as [Hi|Hn]; [apply HG; exact Hi|].
  destruct (HR k Hn) as (A & _). apply A. apply HI.
Qed.
Lemma tots_step W W' ks : NoDup ks -> (forall k, ~ In k ks -> R (get W k) (get W' k)) ->
  paid_in W' + sum_at fC W ks = paid_in W + sum_at fC W' ks /\
  journal_sol W' + sum_at fJ W ks = journal_sol W + sum_at fJ W' ks /\
  swept_debt W' + sum_at fS W ks = swept_debt W + sum_at fS W' ks.
Proof.
  intros Nk HR. unfold paid_in, journal_sol, swept_debt. repeat split; apply tot_delta; try assumption; try reflexivity;
    intros k Hk; destruct (HR k Hk) as (_ & A & B & C); assumption.
Qed.
Theorem NS_tots W W' : NS W W' -> paid_in W' = paid_in W /\ journal_sol W' = journal_sol W /\ swept_debt W' = swept_debt W.
Proof.
  intros H. destruct (tots_step W W' [] (NoDup_nil _) (fun k _ => H k)) as (A & B & C). cbn [sum_at map sumN] in *. lia.
Qed.
Theorem NS_inv W W' : NS W W' -> InvS W -> Id_mod W -> InvS W' /\ Id_mod W'.
Proof.
  intros H HS HI. split.
  - eapply (InvS_step W W' []); [intros k _; apply H|intros k []|exact HS].
  - destruct (NS_tots _ _ H) as (A & B & C). unfold Id_mod. rewrite A, B, C. exact HI.
Qed.

(* values of the summands on a typed account *)
Lemma f_dist a d t : owner a = KRd -> data a = DDist d t -> fC a = d_collected_sol d /\ fJ a = 0 /\ fS a = sdebt d.
Proof. intros Ho Hd. unfold fC, fJ, fS. rewrite (proj2 (rdb_true a) Ho), Hd. auto. Qed.
Lemma f_journal a j : owner a = KRd -> data a = DJournal j -> fC a = 0 /\ fJ a = j_total_sol j + j_swapped_sol j /\ fS a = 0.
Proof. intros Ho Hd. unfold fC, fJ, fS. rewrite (proj2 (rdb_true a) Ho), Hd. auto. Qed.

(* lifecycle read off the bundle: a distribution whose debt is not final is neither rewards-final nor swept *)
Lemma unfinal_unswept W k d t : Inv11 W -> InvS W -> owner (get W k) = KRd -> data (get W k) = DDist d t ->
  d_debt_final d = false -> d_rewards_final d = false /\ d_swept d = false.
Proof.
  intros H11 HS Ho Hd Hf. pose proof (H11 k Ho) as G. rewrite Hd in G. destruct G as (_ & _ & G & _).
  pose proof (HS k Ho) as G'. rewrite Hd in G'. destruct G' as (G' & _).
  destruct (d_rewards_final d); [specialize (G eq_refl); congruence|]. split; [reflexivity|].
  destruct (d_swept d); [specialize (G' eq_refl); congruence|reflexivity].
Qed.
Lemma unfinal_rewards_unswept W k d t : InvS W -> owner (get W k) = KRd -> data (get W k) = DDist d t ->
  d_rewards_final d = false -> d_swept d = false.
Proof.
  intros HS Ho Hd Hf. pose proof (HS k Ho) as G'. rewrite Hd in G'. destruct G' as (G' & _).
  destruct (d_swept d); [specialize (G' eq_refl); congruence|reflexivity].
Qed.
Lemma sameS_unswept d d' : d_swept d = false -> d_swept d' = false -> d_collected_sol d' = d_collected_sol d ->
  (d_rewards_final d = true -> d_rewards_final d' = true) -> sameS d d'.
Proof. intros A B C D. unfold sameS. rewrite A, B. repeat split; auto; discriminate. Qed.

(* ------------------------------------------------------------------------------------------------------------------ *)
(* 5. the processors that leave the three sums alone                                                                  *)

Lemma djb_empty a : data a = DEmpty -> djb (data a) = false.
Proof. intros ->. reflexivity. Qed.

Lemma rd_initialize_program_NS cx W W' : rd_initialize_program cx W = Ok W' -> NS W W'.
Proof.
  intros H. apply rd_initialize_program_eff in H as (W1 & Q & Hh & _ & ->). unfold hdr in Hh. injection Hh as _ _ Hd.
  eapply NS_trans; [apply NS_quiet; exact Q|]. apply NS_put. apply R_plain; [rewrite Hd|]; reflexivity.
Qed.
Lemma rd_initialize_journal_NS cx W W' : rd_initialize_journal cx W = Ok W' -> NS W W'.
Proof.
  intros H. apply rd_initialize_journal_eff in H as (W1 & Q & Hh & _ & ->). unfold hdr in Hh. injection Hh as _ _ Hd.
  eapply NS_trans; [apply NS_quiet; exact Q|]. apply NS_put. apply R_new_journal; [rewrite Hd|..]; reflexivity.
Qed.
Lemma R_config W k c c' : data (get W k) = DConfig c -> R (get W k) (get W k <| data := DConfig c' |>).
Proof. intros Hd. apply R_plain; [rewrite Hd|]; reflexivity. Qed.
Lemma rd_set_admin_NS cx W k W' : rd_set_admin cx W k = Ok W' -> NS W W'.
Proof.
  intros H. apply rd_set_admin_guards in H as (m0 & m1 & m2 & rest & a & c & _ & _ & _ & _ & _ & _ & (Ho & Hd) & ->).
  apply NS_put. eapply R_config; eauto.
Qed.
Lemma rd_migrate_NS cx W W' : rd_migrate cx W = Ok W' -> NS W W'.
Proof.
  intros H. apply rd_migrate_guards in H as (m0 & m1 & m2 & rest & a & c & _ & _ & _ & _ & _ & _ & (Ho & Hd) & ->).
  apply NS_put. eapply R_config; eauto.
Qed.
Lemma rd_configure_program_NS cx W s W' : rd_configure_program cx W s = Ok W' -> NS W W'.
Proof.
  intros H. apply rd_configure_program_guards in H as (m0 & m1 & rest & c & c' & _ & _ & (Ho & Hd) & _ & _ & Hs & ->).
  apply NS_put. eapply R_config; eauto.
Qed.
Lemma rd_initialize_swap_destination_NS cx W W' : rd_initialize_swap_destination cx W = Ok W' -> NS W W'.
Proof.
  intros H. apply rd_initialize_swap_destination_eff in H as (ck & c & Ho & Hd & Q).
  eapply NS_trans; [|apply NS_quiet; exact Q]. apply NS_put. eapply R_config; eauto.
Qed.
(* the debt total of a distribution can only be reconfigured before the debt is final, hence before the sweep *)
Lemma rd_configure_debt_NS cx W n debt root W' : rd_configure_debt cx W n debt root = Ok W' -> Inv11 W -> InvS W -> NS W W'.
Proof.
  intros H H11 HS.
  apply rd_configure_debt_guards in H as (m0 & m1 & m2 & rest & c & d & tail & _ & _ & _ & _ & _ & _ & (Ho & Hd) & Hf & _ & ->).
  destruct (unfinal_unswept _ _ _ _ H11 HS Ho Hd Hf) as (_ & Hs).
  apply NS_put. eapply R_dist; [exact Hd|]. apply sameS_unswept; auto.
Qed.
Lemma rd_configure_rewards_NS cx W n root W' : rd_configure_rewards cx W n root = Ok W' -> NS W W'.
Proof.
  intros H.
  apply rd_configure_rewards_guards in H as (m0 & m1 & m2 & rest & c & d & tail & _ & _ & _ & _ & _ & _ & (Ho & Hd) & Hf & _ & ->).
  apply NS_put. eapply R_dist; [exact Hd|]. sameS_tac.
Qed.

(* the resize-and-top-up tail: the payer is a System account (or pays nothing) *)
Lemma grow_other_R W k payer amt : owner (get W payer) = KSystem \/ amt = 0 ->
  R (get W k) ((get W k) <| lamports := lamports (get W k) - (if key_eqb payer k then amt else 0) + 0 |>).
Proof.
  intros Hs. apply R_lam. intros Ho. destruct (key_eqb_spec payer k) as [->|]; [destruct Hs as [Hs| ->]; [congruence|lia]|lia].
Qed.
Lemma grow_dist_R W dk d tail d' extra payer amt : owner (get W dk) = KRd -> data (get W dk) = DDist d tail -> sameS d d' ->
  owner (get W payer) = KSystem \/ amt = 0 ->
  R (get W dk) (grown (get W dk) d' tail extra <| lamports := lamports (get W dk) - (if key_eqb payer dk then amt else 0) + amt |>).
Proof.
  intros Ho Hd S Hs. unfold grown. eapply R_trans; [apply (R_alen _ (alen (get W dk) + extra))|].
  eapply R_trans; [eapply R_dist; [exact Hd|exact S]|]. apply R_lam. cbn. intros _.
  destruct (key_eqb_spec payer dk) as [->|]; [destruct Hs as [Hs| ->]; [congruence|lia]|lia].
Qed.
Lemma grow_NS cx W dk d tail d' extra more ms payer amt W' :
  grow_facts cx W dk d' tail extra more ms payer amt W' -> owner (get W dk) = KRd -> data (get W dk) = DDist d tail -> sameS d d' ->
  NS W W'.
Proof.
  intros G Ho Hd S. pose proof (gf_payer_system _ _ _ _ _ _ _ _ _ _ _ G) as Hs.
  pointwiseNS (gf_effect _ _ _ _ _ _ _ _ _ _ _ G). intros k. destruct (key_eqb_spec dk k) as [<-|Hne].
  - eapply grow_dist_R; eassumption.
  - apply grow_other_R. exact Hs.
Qed.

Lemma rd_finalize_debt_NS cx W W' : rd_finalize_debt cx W = Ok W' -> NS W W'.
Proof.
  intros H. apply rd_finalize_debt_spec in H as (c & dk & d & tail & F).
  pose proof (fd_dist_owner _ _ _ _ _ _ _ F) as Ho. pose proof (fd_dist_data _ _ _ _ _ _ _ F) as Hd.
  destruct (N.eq_dec (d_total_debt d - d_uncollectible d) 0) as [Ez|Enz].
  - pointwiseNS (fd_zero _ _ _ _ _ _ _ F Ez). intros k. destruct (key_eqb_spec dk k) as [<-|]; [|apply R_refl].
    eapply R_dist; [exact Hd|]. sameS_tac.
  - destruct (fd_nonzero _ _ _ _ _ _ _ F Enz) as (payer & amt & ms & G).
    eapply grow_NS; [exact G|exact Ho|exact Hd|]. unfold fd_dist. sameS_tac.
Qed.
Lemma rd_finalize_rewards_NS cx W W' : rd_finalize_rewards cx W = Ok W' -> NS W W'.
Proof.
  intros H. apply rd_finalize_rewards_spec in H as (c & dk & d & tail & payer & amt & F).
  pose proof (fr_dist_owner _ _ _ _ _ _ _ _ _ F) as Ho. pose proof (fr_dist_data _ _ _ _ _ _ _ _ _ F) as Hd.
  destruct (finalize_rewards_grow _ _ _ _ _ _ _ _ _ F) as (ms & G).
  eapply grow_NS; [exact G|exact Ho|exact Hd|]. unfold fr_dist. sameS_tac.
Qed.
Lemma rd_enable_write_off_NS cx W W' : rd_enable_write_off cx W = Ok W' -> NS W W'.
Proof.
  intros H. apply rd_enable_write_off_spec in H as (c & dk & d & tail & payer & amt & F).
  pose proof (ew_dist_owner _ _ _ _ _ _ _ _ _ F) as Ho. pose proof (ew_dist_data _ _ _ _ _ _ _ _ _ F) as Hd.
  pose proof (ew_payer_system _ _ _ _ _ _ _ _ _ F) as Hs.
  pointwiseNS (ew_effect _ _ _ _ _ _ _ _ _ F). intros k. destruct (key_eqb_spec dk k) as [<-|Hne].
  - eapply grow_dist_R; try eassumption. unfold ew_dist. sameS_tac.
  - apply grow_other_R. exact Hs.
Qed.

(* creation: a distribution with nothing collected, not swept, rent-exempt *)
Lemma rd_initialize_distribution_NS cx W W' : rd_initialize_distribution cx W = Ok W' -> NS W W'.
Proof.
  intros H. apply rd_initialize_distribution_eff in H as (ck & c & c' & W2 & W4 & d & Ho & Hd & Hrel & Q1 & Hh & Hl & Hfr & Q4 & Hg).
  set (dk := KRdDist (c_next_epoch c)) in *.
  assert (N2 : NS W W2).
  { eapply NS_trans; [|apply NS_quiet; exact Q1]. apply NS_put. eapply R_config; eauto. }
  unfold hdr in Hh. injection Hh as Ho2 Ha2 Hd2.
  assert (N4 : NS W2 W4).
  { eapply NS_trans; [|apply NS_quiet; exact Q4]. apply NS_put.
    apply R_new_dist; [rewrite Hd2; reflexivity|rewrite Hfr; reflexivity|rewrite Hfr; reflexivity|].
    unfold rent, LEN_DIST in Hl. lia. }
  assert (X : owner (get W4 dk) = KRd /\ data (get W4 dk) = DDist (d <| d_prepaid_2z := 0 |>) []).
  { destruct (quiet_at _ _ dk Q4) as (A & _ & B & _).
    - rewrite Lemmas_RdSpecs.get_put_same. exact Ho2.
    - rewrite Lemmas_RdSpecs.get_put_same. reflexivity.
    - rewrite Lemmas_RdSpecs.get_put_same in B. auto. }
  destruct X as (Ho4 & Hd4).
  eapply NS_trans; [exact N2|]. eapply NS_trans; [exact N4|].
  pointwiseNS Hg. intros k. destruct (key_eqb_spec dk k) as [<-|]; [|apply R_refl].
  eapply R_dist; [exact Hd4|]. sameS_tac.
Qed.

(* distribute-rewards: the (swept, hence rewards-final) distribution pays the relay fee; Token accounts stay Token accounts *)
Lemma rd_distribute_rewards_NS cx W us ebr p W' : rd_distribute_rewards cx W us ebr p = Ok W' -> InvS W -> NS W W'.
Proof.
  intros H HS. apply rd_distribute_rewards_eff in H as (dk & d & tail & relayer & tr & bu & tail' & Ho & Hd & _ & Hsw & _ & Hg & Htok).
  assert (Hf : d_rewards_final d = true).
  { pose proof (HS dk Ho) as G. rewrite Hd in G. destruct G as (G & _). auto. }
  intros k. destruct (key_eq_dec (owner (get W k)) KToken) as [Et|Et].
  { apply R_untk; apply not_tk_owner; [rewrite Et|rewrite (Htok k Et)]; discriminate. }
  rewrite (Hg k Et). destruct (key_eqb_spec dk k) as [<-|Hne].
  - eapply R_trans; [eapply (R_dist _ d tail (dr_dist d tr bu) tail'); [exact Hd|unfold dr_dist; sameS_tac]|].
    unfold R, goodS, fC, fJ, fS, rdb. cbn. split; [intros _ _; split; [auto|congruence]|auto].
  - apply R_lam. intros _. lia.
Qed.

(* write-off: the target is not swept (the processor checks it), so its uncollectible debt is not (yet) in the third sum *)
Lemma rd_write_off_NS cx W amount p W' : rd_write_off cx W amount p = Ok W' -> NS W W'.
Proof.
  intros H. apply rd_write_off_spec in H as (c & dk & d & tail & pk & dp & idx & tail1 & tail2 & tk & t & ttail & F).
  pose proof (wo_dist_owner _ _ _ _ _ _ _ _ _ _ _ _ _ _ _ _ _ F) as Ho. pose proof (wo_dist_data _ _ _ _ _ _ _ _ _ _ _ _ _ _ _ _ _ F) as Hd.
  pose proof (wo_target_unswept _ _ _ _ _ _ _ _ _ _ _ _ _ _ _ _ _ F) as Hu.
  pointwiseNS (wo_effect _ _ _ _ _ _ _ _ _ _ _ _ _ _ _ _ _ F). intros k.
  destruct (key_eqb_spec k pk) as [->|_].
  { apply R_plain; [rewrite (wo_deposit_data _ _ _ _ _ _ _ _ _ _ _ _ _ _ _ _ _ F)|]; reflexivity. }
  destruct (key_eqb_spec k tk) as [->|_].
  { pose proof (wo_target_read _ _ _ _ _ _ _ _ _ _ _ _ _ _ _ _ _ F) as Ht.
    destruct (key_eqb_spec tk dk) as [->|Hne].
    - destruct Ht as (-> & ->). eapply R_dist; [exact Hd|]. apply sameS_unswept; auto.
    - eapply R_dist; [exact Ht|]. apply sameS_unswept; auto. }
  destruct (key_eqb_spec k dk) as [->|_]; [|apply R_refl].
  eapply R_dist; [exact Hd|]. unfold wo_src. sameS_tac.
Qed.

(* ------------------------------------------------------------------------------------------------------------------ *)
(* 6. the three processors that move the sums: pay-debt, withdraw-sol, sweep                                          *)

(* a step that is neutral outside the keys `ks`: the identity (mod 2^64) is kept when the changes on `ks` balance (mod 2^64) *)
Lemma Id_step W W' ks : NoDup ks -> (forall k, ~ In k ks -> R (get W k) (get W' k)) -> (forall k, In k ks -> goodS (get W' k)) ->
  (sum_at fC W' ks + sum_at fJ W ks + sum_at fS W ks) mod two64 = (sum_at fC W ks + sum_at fJ W' ks + sum_at fS W' ks) mod two64 ->
  InvS W -> Id_mod W -> InvS W' /\ Id_mod W'.
Proof.
  intros Nk HR HG Hbal HS HI. split; [eapply InvS_step; eassumption|].
  destruct (tots_step W W' ks Nk HR) as (A & B & C). unfold Id_mod, two64 in *. lia.
Qed.

Lemma two_keys (a b : key) : a <> b -> NoDup [a; b].
Proof. intros H. constructor; [intros [E|[]]; congruence|]. constructor; [intros []|constructor]. Qed.
Lemma not_in2 (k a b : key) : ~ In k [a; b] -> k <> a /\ k <> b.
Proof. cbn. intros H. split; intros ->; tauto. Qed.

Lemma goodS_dist_flags a d t d' t' : data a = DDist d t -> d_swept d' = d_swept d -> d_rewards_final d' = d_rewards_final d ->
  goodS a -> goodS (a <| data := DDist d' t' |>).
Proof. intros Hd A B G Ho. cbn in *. specialize (G Ho). rewrite Hd in G. rewrite A, B. exact G. Qed.

(* pay-debt: the distribution records `amount` more (wrapping u64), the journal tracks `amount` more (wrapping u64) *)
Lemma rd_pay_debt_id cx W amount p W' : rd_pay_debt cx W amount p = Ok W' -> InvS W -> Id_mod W -> InvS W' /\ Id_mod W'.
Proof.
  intros H HS HI. apply rd_pay_debt_spec in H as (c & dk & d & tail & pk & dp & jk & j & idx & tail' & F).
  pose proof (pd_effect _ _ _ _ _ _ _ _ _ _ _ _ _ _ _ F) as Hg.
  pose proof (pd_dist_owner _ _ _ _ _ _ _ _ _ _ _ _ _ _ _ F) as Hod. pose proof (pd_dist_data _ _ _ _ _ _ _ _ _ _ _ _ _ _ _ F) as Hdd.
  pose proof (pd_journal_owner _ _ _ _ _ _ _ _ _ _ _ _ _ _ _ F) as Hoj. pose proof (pd_journal_data _ _ _ _ _ _ _ _ _ _ _ _ _ _ _ F) as Hdj.
  destruct (pd_distinct _ _ _ _ _ _ _ _ _ _ _ _ _ _ _ F) as (Hdp & Hdj' & Hpj).
  assert (Gd : get W' dk = (get W dk) <| data := DDist (pay_debt_dist d amount) tail' |>).
  { rewrite Hg, (key_eqb_neq dk pk), (key_eqb_neq dk jk), key_eqb_refl by assumption. reflexivity. }
  assert (Gj : get W' jk = (get W jk) <| lamports := lamports (get W jk) + amount |>
                                      <| data := DJournal (j <| j_total_sol := wadd64 (j_total_sol j) amount |>) |>).
  { rewrite Hg, (key_eqb_neq jk pk), key_eqb_refl by congruence. reflexivity. }
  apply (Id_step W W' [dk; jk]); try assumption.
  - apply two_keys. exact Hdj'.
  - intros k Hk. apply not_in2 in Hk as (K1 & K2). rewrite Hg, (key_eqb_neq k jk), (key_eqb_neq k dk) by assumption.
    destruct (key_eqb_spec k pk) as [->|_]; [|apply R_refl].
    apply R_untk; apply not_tk_data; cbn; rewrite (pd_deposit_data _ _ _ _ _ _ _ _ _ _ _ _ _ _ _ F); reflexivity.
  - intros k [<-|[<-|[]]].
    + rewrite Gd. eapply goodS_dist_flags; [exact Hdd|reflexivity|reflexivity|apply HS].
    + rewrite Gj. intros _. exact I.
  - unfold sum_at. cbn [map sumN].
    destruct (f_dist _ _ _ Hod Hdd) as (C1 & J1 & S1). destruct (f_journal _ _ Hoj Hdj) as (C2 & J2 & S2).
    destruct (f_dist (get W' dk) (pay_debt_dist d amount) tail') as (C1' & J1' & S1'); [rewrite Gd; exact Hod|rewrite Gd; reflexivity|].
    destruct (f_journal (get W' jk) (j <| j_total_sol := wadd64 (j_total_sol j) amount |>)) as (C2' & J2' & S2');
      [rewrite Gj; exact Hoj|rewrite Gj; reflexivity|].
    rewrite C1, J1, S1, C2, J2, S2, C1', J1', S1', C2', J2', S2'.
    assert (Es : sdebt (pay_debt_dist d amount) = sdebt d) by reflexivity. rewrite Es.
    unfold pay_debt_dist. cbn [d_collected_sol j_total_sol j_swapped_sol RecordSet.set]. proj_simpl.
    unfold wadd64, wadd, two64. lia.
Qed.

(* withdraw-sol: `amount` leaves the tracked balance (checked) and enters the swapped pool (wrapping u64) *)
Lemma rd_withdraw_sol_id cx W amount W' : rd_withdraw_sol cx W amount = Ok W' -> InvS W -> Id_mod W -> InvS W' /\ Id_mod W'.
Proof.
  intros H HS HI. apply rd_withdraw_sol_spec in H as (c & jk & j & dest & z & F).
  pose proof (ws_effect _ _ _ _ _ _ _ _ _ F) as Hg.
  pose proof (ws_journal_owner _ _ _ _ _ _ _ _ _ F) as Hoj. pose proof (ws_journal_data _ _ _ _ _ _ _ _ _ F) as Hdj.
  pose proof (ws_amount_tracked _ _ _ _ _ _ _ _ _ F) as Hle.
  assert (Gj : owner (get W' jk) = KRd /\ data (get W' jk) = DJournal (ws_journal j amount z)).
  { rewrite Hg, key_eqb_refl. split; [exact Hoj|reflexivity]. }
  destruct Gj as (Hoj' & Hdj').
  apply (Id_step W W' [jk]); try assumption.
  - constructor; [intros []|constructor].
  - intros k Hk. assert (Hne : jk <> k) by (intros ->; apply Hk; left; reflexivity).
    rewrite Hg, (key_eqb_neq jk k) by exact Hne. apply R_lam. intros _. lia.
  - intros k [<-|[]]. intros _. rewrite Hdj'. exact I.
  - unfold sum_at. cbn [map sumN].
    destruct (f_journal _ _ Hoj Hdj) as (C2 & J2 & S2). destruct (f_journal _ _ Hoj' Hdj') as (C2' & J2' & S2').
    rewrite C2, J2, S2, C2', J2', S2'. unfold ws_journal. cbn [j_total_sol j_swapped_sol RecordSet.set]. proj_simpl.
    unfold wadd64, wadd, two64. lia.
Qed.

(* sweep with no collectible debt: the distribution turns swept and adds 0 to the third sum *)
Lemma R_sweep_zero a d t : data a = DDist d t -> d_rewards_final d = true -> d_swept d = false ->
  d_total_debt d - d_uncollectible d = 0 -> R a (a <| data := DDist (sw_dist1 d) t |>).
Proof.
  intros Hd Hf Hs Ez. unfold R, goodS, fC, fJ, fS, rdb, sdebt, sw_dist1. cbn. rewrite Hd, Hs, Ez.
  split; [intros _ _; split; [auto|congruence]|]. destruct (key_eqb (owner a) KRd); auto.
Qed.

Lemma rd_sweep_id cx W W' : rd_sweep cx W = Ok W' -> InvS W -> Id_mod W -> InvS W' /\ Id_mod W'.
Proof.
  intros H HS HI. apply rd_sweep_full_spec in H as (c & dk & d & tail & jk & j & rest & C & Hz & Hnz).
  pose proof (sc_dist_owner _ _ _ _ _ _ _ _ _ C) as Hod. pose proof (sc_dist_data _ _ _ _ _ _ _ _ _ C) as Hdd.
  pose proof (sc_journal_owner _ _ _ _ _ _ _ _ _ C) as Hoj. pose proof (sc_journal_data _ _ _ _ _ _ _ _ _ C) as Hdj.
  pose proof (sc_unswept _ _ _ _ _ _ _ _ _ C) as Hus. pose proof (sc_rewards_final _ _ _ _ _ _ _ _ _ C) as Hrf.
  pose proof (sc_distinct _ _ _ _ _ _ _ _ _ C) as Hjd. pose proof (sc_debt_ok _ _ _ _ _ _ _ _ _ C) as Hok.
  destruct (N.eq_dec (d_total_debt d - d_uncollectible d) 0) as [Ez|Enz].
  - destruct (Hz Ez) as (_ & Hg). apply (NS_inv W W'); try assumption. pointwiseNS Hg. intros k.
    destruct (key_eqb_spec k jk) as [->|_]; [eapply R_journal; [exact Hdj|reflexivity|reflexivity]|].
    destruct (key_eqb_spec k dk) as [->|_]; [|apply R_refl]. apply R_sweep_zero; assumption.
  - destruct (Hnz Enz) as (z & cfg & st & fills & W2 & W3 & s & t & F).
    destruct (sf_W2 _ _ _ _ _ _ _ _ _ _ _ _ _ _ _ _ _ _ F) as (_ & Hg2).
    pose proof (sf_pool _ _ _ _ _ _ _ _ _ _ _ _ _ _ _ _ _ _ F) as Hpool.
    set (debt := d_total_debt d - d_uncollectible d) in *.
    (* W -> W2: the pool gives `debt`, the distribution turns swept with collectible debt `debt` *)
    assert (Gd2 : get W2 dk = (get W dk) <| data := DDist (sw_dist1 d) tail |>).
    { rewrite Hg2, (key_eqb_neq dk jk), key_eqb_refl by congruence. reflexivity. }
    assert (Gj2 : get W2 jk = (get W jk) <| data := DJournal (sw_journal1 j debt) |>).
    { rewrite Hg2, key_eqb_refl. reflexivity. }
    assert (I2 : InvS W2 /\ Id_mod W2).
    { apply (Id_step W W2 [dk; jk]); try assumption.
      - apply two_keys. congruence.
      - intros k Hk. apply not_in2 in Hk as (K1 & K2). rewrite Hg2, (key_eqb_neq k jk), (key_eqb_neq k dk) by assumption. apply R_refl.
      - intros k [<-|[<-|[]]].
        + rewrite Gd2. intros _. cbn. split; [auto|congruence].
        + rewrite Gj2. intros _. exact I.
      - unfold sum_at. cbn [map sumN].
        destruct (f_dist _ _ _ Hod Hdd) as (C1 & J1 & S1). destruct (f_journal _ _ Hoj Hdj) as (C2 & J2 & S2).
        destruct (f_dist (get W2 dk) (sw_dist1 d) tail) as (C1' & J1' & S1'); [rewrite Gd2; exact Hod|rewrite Gd2; reflexivity|].
        destruct (f_journal (get W2 jk) (sw_journal1 j debt)) as (C2' & J2' & S2'); [rewrite Gj2; exact Hoj|rewrite Gj2; reflexivity|].
        rewrite C1, J1, S1, C2, J2, S2, C1', J1', S1', C2', J2', S2'.
        unfold sdebt, sw_dist1, sw_journal1, sw_journal0. cbn [d_swept d_total_debt d_uncollectible d_collected_sol j_total_sol j_swapped_sol RecordSet.set].
        proj_simpl. rewrite Hus. fold debt. f_equal. lia. }
    destruct I2 as (S2 & I2).
    (* W2 -> W3: the swap program's CPI is quiet; W3 -> W': bookkeeping of 2Z only *)
    destruct (sf_cpi _ _ _ _ _ _ _ _ _ _ _ _ _ _ _ _ _ _ F) as (n & Hcpi). apply swap_dequeue_cpi_quiet in Hcpi.
    assert (Xd : owner (get W3 dk) = KRd /\ data (get W3 dk) = DDist (sw_dist1 d) tail).
    { destruct (quiet_at _ _ dk Hcpi) as (A & _ & B & _).
      - rewrite Gd2. exact Hod.
      - rewrite Gd2. reflexivity.
      - rewrite Gd2 in B. auto. }
    assert (Xj : owner (get W3 jk) = KRd /\ data (get W3 jk) = DJournal (sw_journal1 j debt)).
    { destruct (quiet_at _ _ jk Hcpi) as (A & _ & B & _).
      - rewrite Gj2. exact Hoj.
      - rewrite Gj2. reflexivity.
      - rewrite Gj2 in B. auto. }
    destruct Xd as (Ho3 & Hd3), Xj as (Hoj3 & Hdj3).
    apply (NS_inv W2 W'); try assumption. eapply NS_trans; [apply NS_quiet; exact Hcpi|].
    pose proof (sf_src _ _ _ _ _ _ _ _ _ _ _ _ _ _ _ _ _ _ F) as Hsrc. apply as_token_ok in Hsrc as (Hsd & _).
    pose proof (sf_dst _ _ _ _ _ _ _ _ _ _ _ _ _ _ _ _ _ _ F) as Hdst. apply as_token_ok in Hdst as (Htd & _).
    pointwiseNS (sf_effect _ _ _ _ _ _ _ _ _ _ _ _ _ _ _ _ _ _ F). intros k.
    destruct (key_eqb_spec k jk) as [->|_]; [eapply R_journal; [exact Hdj3|reflexivity|reflexivity]|].
    destruct (key_eqb_spec k dk) as [->|_]; [eapply R_dist; [exact Hd3|]; unfold sw_dist2; sameS_tac|].
    destruct (key_eqb dk KRdSwapAuth); [apply R_refl|].
    destruct (key_eqb_spec k (KTok2z KRdSwapAuth)) as [->|_]; [apply R_plain; [rewrite Hsd|]; reflexivity|].
    destruct (key_eqb_spec k (KTok2z dk)) as [->|_]; [apply R_plain; [rewrite Htd|]; reflexivity|apply R_refl].
Qed.
