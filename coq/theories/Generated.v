(* GENERATED on every run by `dzh dump-constants` from the crates linked from /repo. Do not edit. *)
From Coq Require Import NArith List.
Import ListNotations.
Open Scope N_scope.

Definition G_FILLS_CAPACITY : N := 8.
Definition G_FILLS_REGISTRY_SIZE : N := 136.
