(* Pure arithmetic/data cores of C02, C03 and C16 (revenue-distribution: unit shares, RewardShare packing,
   split_2z_amount + recipient loop of try_distribute_rewards, RecipientShares).  Property theorems only;
   Props_C02 / Props_C03 / Props_C16 re-export these. *)
From DZ Require Import Base Generated Shares Recipients Lemmas_Shares.

(* the constants the model assumes are the crate's current ones *)
Theorem Shares_constants_are_crate_constants :
  US32_MAX = G_UNIT_SHARE32_MAX /\ US16_MAX = G_UNIT_SHARE16_MAX /\ N.of_nat MAX_RECIPIENTS = G_MAX_RECIPIENTS /\
  FLAG_IS_BLOCKED_BIT = G_REWARD_SHARE_FLAG_IS_BLOCKED_BIT /\ FLAG_IS_BLOCKED_MASK = G_REWARD_SHARE_FLAG_IS_BLOCKED_MASK /\
  ECONOMIC_BURN_RATE_MASK = G_REWARD_SHARE_ECONOMIC_BURN_RATE_MASK /\
  G_RECIPIENT_SHARES_SIZE = 34 * G_MAX_RECIPIENTS /\ G_REWARD_SHARE_SIZE = 40.
Proof. exact shares_constants_generated. Qed.
Check Shares_constants_are_crate_constants :
  US32_MAX = 1000000000 /\ US16_MAX = 10000 /\ N.of_nat MAX_RECIPIENTS = 8 /\
  FLAG_IS_BLOCKED_BIT = 31 /\ FLAG_IS_BLOCKED_MASK = 2147483648 /\ ECONOMIC_BURN_RATE_MASK = 1073741823 /\
  G_RECIPIENT_SHARES_SIZE = 34 * 8 /\ G_REWARD_SHARE_SIZE = 40.
Print Assumptions Shares_constants_are_crate_constants.

(* mul_scalar (u128 intermediate, saturating ops, try_into::<u64>().expect): for a valid share of a u64 it is exactly
   floor(share * x / MAX), never panics, and never exceeds x *)
Theorem Shares_mul_scalar_spec : forall m s x, 0 < m -> m < two64 -> s <= m -> x < two64 ->
  us_mul_scalar m s x = Some (s * x / m) /\ s * x / m <= x /\ s * x / m < two64.
Proof. exact mul_scalar_spec. Qed.
Check Shares_mul_scalar_spec : forall m s x, 0 < m -> m < two64 -> s <= m -> x < two64 ->
  us_mul_scalar m s x = Some (s * x / m) /\ s * x / m <= x /\ s * x / m < two64.
Print Assumptions Shares_mul_scalar_spec.

(* C02: sums of floors *)
Theorem Shares_sum_floor_le : forall m T l, 0 < m -> sumN l <= m -> sumN (map (fun s => s * T / m) l) <= T.
Proof. exact sum_floor_le. Qed.
Check Shares_sum_floor_le : forall m T l, 0 < m -> sumN l <= m -> sumN (map (fun s => s * T / m) l) <= T.
Print Assumptions Shares_sum_floor_le.

Theorem Shares_outflow_le_collected : forall T l, sumN l <= 1000000000 ->
  sumN (map (fun s => s * T / 1000000000) l) <= T.
Proof. exact outflow_le_collected. Qed.
Check Shares_outflow_le_collected : forall T l, sumN l <= 1000000000 ->
  sumN (map (fun s => s * T / 1000000000) l) <= T.
Print Assumptions Shares_outflow_le_collected.

Theorem Shares_residue_lt_leaves : forall T l, sumN l = 1000000000 -> l <> [] ->
  T - sumN (map (fun s => s * T / 1000000000) l) < N.of_nat (length l).
Proof. exact residue_lt_leaves. Qed.
Check Shares_residue_lt_leaves : forall T l, sumN l = 1000000000 -> l <> [] ->
  T - sumN (map (fun s => s * T / 1000000000) l) < N.of_nat (length l).
Print Assumptions Shares_residue_lt_leaves.

(* RewardShare: what new builds and what the getters read back; layout = economic_burn_rate + 2^31 * is_blocked *)
Theorem Shares_pack_unpack : forall key us block ebr, us <= US32_MAX -> ebr <= US32_MAX ->
  exists r, reward_share_new key us block ebr = Some r /\
    rs_key r = key /\ rs_unit_share r = us /\ rs_checked_unit_share r = Some us /\
    rs_is_blocked r = block /\ rs_economic_burn_rate r = ebr /\ rs_checked_economic_burn_rate r = Some ebr /\
    rs_remaining r = ebr + (if block then 2 ^ 31 else 0) /\ rs_remaining r < two32.
Proof. exact pack_unpack. Qed.
Check Shares_pack_unpack : forall key us block ebr, us <= US32_MAX -> ebr <= US32_MAX ->
  exists r, reward_share_new key us block ebr = Some r /\
    rs_key r = key /\ rs_unit_share r = us /\ rs_checked_unit_share r = Some us /\
    rs_is_blocked r = block /\ rs_economic_burn_rate r = ebr /\ rs_checked_economic_burn_rate r = Some ebr /\
    rs_remaining r = ebr + (if block then 2 ^ 31 else 0) /\ rs_remaining r < two32.
Print Assumptions Shares_pack_unpack.

Theorem Shares_pack_accepts_iff : forall key us block ebr,
  (exists r, reward_share_new key us block ebr = Some r) <-> us <= 1000000000 /\ ebr <= 1000000000.
Proof. exact pack_accepts_iff. Qed.
Check Shares_pack_accepts_iff : forall key us block ebr,
  (exists r, reward_share_new key us block ebr = Some r) <-> us <= 1000000000 /\ ebr <= 1000000000.
Print Assumptions Shares_pack_accepts_iff.

Theorem Shares_pack_inj : forall k us b e k' us' b' e' r,
  reward_share_new k us b e = Some r -> reward_share_new k' us' b' e' = Some r -> k = k' /\ us = us' /\ b = b' /\ e = e'.
Proof. exact pack_inj. Qed.
Check Shares_pack_inj : forall k us b e k' us' b' e' r,
  reward_share_new k us b e = Some r -> reward_share_new k' us' b' e' = Some r -> k = k' /\ us = us' /\ b = b' /\ e = e'.
Print Assumptions Shares_pack_inj.

(* the flag and the rate are independent fields of any stored value *)
Theorem Shares_set_is_blocked : forall r b,
  rs_is_blocked (rs_set_is_blocked r b) = b /\
  rs_economic_burn_rate (rs_set_is_blocked r b) = rs_economic_burn_rate r /\
  rs_unit_share (rs_set_is_blocked r b) = rs_unit_share r.
Proof. exact set_is_blocked_spec. Qed.
Check Shares_set_is_blocked : forall r b,
  rs_is_blocked (rs_set_is_blocked r b) = b /\
  rs_economic_burn_rate (rs_set_is_blocked r b) = rs_economic_burn_rate r /\
  rs_unit_share (rs_set_is_blocked r b) = rs_unit_share r.
Print Assumptions Shares_set_is_blocked.

Theorem Shares_set_economic_burn_rate : forall r e, e <= US32_MAX ->
  rs_economic_burn_rate (rs_set_economic_burn_rate r e) = e /\
  rs_is_blocked (rs_set_economic_burn_rate r e) = rs_is_blocked r /\
  rs_unit_share (rs_set_economic_burn_rate r e) = rs_unit_share r.
Proof. exact set_economic_burn_rate_spec. Qed.
Check Shares_set_economic_burn_rate : forall r e, e <= US32_MAX ->
  rs_economic_burn_rate (rs_set_economic_burn_rate r e) = e /\
  rs_is_blocked (rs_set_economic_burn_rate r e) = rs_is_blocked r /\
  rs_unit_share (rs_set_economic_burn_rate r e) = rs_unit_share r.
Print Assumptions Shares_set_economic_burn_rate.

(* C02/C03: the amounts of one distribution.  Hypotheses: the stored community burn rate is a valid rate, the collected
   total is a u64, and the active recipients are those of a valid table (each share <= 10 000, total <= 10 000). *)
Theorem Shares_distribute_total : forall us ebr cbr total recips,
  us <= US32_MAX -> ebr <= US32_MAX -> cbr <= US32_MAX -> total < two64 ->
  recips <> [] -> Forall (fun e => snd e <= US16_MAX) recips -> sumN (map snd recips) <= US16_MAX ->
  exists burn transferred amounts, distribute_amounts_full us ebr cbr total recips = Some (burn, transferred, amounts).
Proof. exact distribute_total. Qed.
Check Shares_distribute_total : forall us ebr cbr total recips,
  us <= US32_MAX -> ebr <= US32_MAX -> cbr <= US32_MAX -> total < two64 ->
  recips <> [] -> Forall (fun e => snd e <= US16_MAX) recips -> sumN (map snd recips) <= US16_MAX ->
  exists burn transferred amounts, distribute_amounts_full us ebr cbr total recips = Some (burn, transferred, amounts).
Print Assumptions Shares_distribute_total.

Theorem Shares_distribute_spec : forall us ebr cbr total recips burn transferred amounts,
  cbr <= US32_MAX -> total < two64 ->
  Forall (fun e => snd e <= US16_MAX) recips -> sumN (map snd recips) <= US16_MAX ->
  distribute_amounts_full us ebr cbr total recips = Some (burn, transferred, amounts) ->
  distribution_outcome us ebr cbr total recips burn transferred amounts.
Proof. exact distribute_spec. Qed.
Check Shares_distribute_spec : forall us ebr cbr total recips burn transferred amounts,
  cbr <= US32_MAX -> total < two64 ->
  Forall (fun e => snd e <= US16_MAX) recips -> sumN (map snd recips) <= US16_MAX ->
  distribute_amounts_full us ebr cbr total recips = Some (burn, transferred, amounts) ->
  distribution_outcome us ebr cbr total recips burn transferred amounts.
Print Assumptions Shares_distribute_spec.

Theorem Shares_burn_ge_floor : forall us ebr cbr total burn recips amounts,
  cbr <= US32_MAX -> total < two64 ->
  Forall (fun e => snd e <= US16_MAX) recips -> sumN (map snd recips) <= US16_MAX ->
  distribute_amounts us ebr cbr total recips = Some (burn, amounts) ->
  N.max cbr ebr * (us * total / 1000000000) / 1000000000 <= burn.
Proof. exact burn_ge_floor. Qed.
Check Shares_burn_ge_floor : forall us ebr cbr total burn recips amounts,
  cbr <= US32_MAX -> total < two64 ->
  Forall (fun e => snd e <= US16_MAX) recips -> sumN (map snd recips) <= US16_MAX ->
  distribute_amounts us ebr cbr total recips = Some (burn, amounts) ->
  N.max cbr ebr * (us * total / 1000000000) / 1000000000 <= burn.
Print Assumptions Shares_burn_ge_floor.

Theorem Shares_recipient_amount_exact : forall us ebr cbr total burn recips amounts,
  cbr <= US32_MAX -> total < two64 ->
  Forall (fun e => snd e <= US16_MAX) recips -> sumN (map snd recips) <= US16_MAX ->
  distribute_amounts us ebr cbr total recips = Some (burn, amounts) ->
  forall i k s, nth_error recips i = Some (k, s) ->
  nth_error amounts i =
  Some (s * (us * total / 1000000000 - N.max cbr ebr * (us * total / 1000000000) / 1000000000) / 10000).
Proof. exact recipient_amount_exact. Qed.
Check Shares_recipient_amount_exact : forall us ebr cbr total burn recips amounts,
  cbr <= US32_MAX -> total < two64 ->
  Forall (fun e => snd e <= US16_MAX) recips -> sumN (map snd recips) <= US16_MAX ->
  distribute_amounts us ebr cbr total recips = Some (burn, amounts) ->
  forall i k s, nth_error recips i = Some (k, s) ->
  nth_error amounts i =
  Some (s * (us * total / 1000000000 - N.max cbr ebr * (us * total / 1000000000) / 1000000000) / 10000).
Print Assumptions Shares_recipient_amount_exact.

Theorem Shares_amounts_length : forall us ebr cbr total burn recips amounts,
  cbr <= US32_MAX -> total < two64 ->
  Forall (fun e => snd e <= US16_MAX) recips -> sumN (map snd recips) <= US16_MAX ->
  distribute_amounts us ebr cbr total recips = Some (burn, amounts) -> length amounts = length recips.
Proof. exact amounts_length. Qed.
Check Shares_amounts_length : forall us ebr cbr total burn recips amounts,
  cbr <= US32_MAX -> total < two64 ->
  Forall (fun e => snd e <= US16_MAX) recips -> sumN (map snd recips) <= US16_MAX ->
  distribute_amounts us ebr cbr total recips = Some (burn, amounts) -> length amounts = length recips.
Print Assumptions Shares_amounts_length.

Theorem Shares_split_conserves : forall us ebr cbr total burn recips amounts,
  cbr <= US32_MAX -> total < two64 ->
  Forall (fun e => snd e <= US16_MAX) recips -> sumN (map snd recips) <= US16_MAX ->
  distribute_amounts us ebr cbr total recips = Some (burn, amounts) ->
  burn + sumN amounts = us * total / 1000000000.
Proof. exact split_conserves. Qed.
Check Shares_split_conserves : forall us ebr cbr total burn recips amounts,
  cbr <= US32_MAX -> total < two64 ->
  Forall (fun e => snd e <= US16_MAX) recips -> sumN (map snd recips) <= US16_MAX ->
  distribute_amounts us ebr cbr total recips = Some (burn, amounts) ->
  burn + sumN amounts = us * total / 1000000000.
Print Assumptions Shares_split_conserves.

Theorem Shares_transfers_le_remainder : forall us ebr cbr total burn recips amounts,
  cbr <= US32_MAX -> total < two64 ->
  Forall (fun e => snd e <= US16_MAX) recips -> sumN (map snd recips) <= US16_MAX ->
  distribute_amounts us ebr cbr total recips = Some (burn, amounts) ->
  sumN amounts <= us * total / 1000000000 - N.max cbr ebr * (us * total / 1000000000) / 1000000000.
Proof. exact transfers_le_remainder. Qed.
Check Shares_transfers_le_remainder : forall us ebr cbr total burn recips amounts,
  cbr <= US32_MAX -> total < two64 ->
  Forall (fun e => snd e <= US16_MAX) recips -> sumN (map snd recips) <= US16_MAX ->
  distribute_amounts us ebr cbr total recips = Some (burn, amounts) ->
  sumN amounts <= us * total / 1000000000 - N.max cbr ebr * (us * total / 1000000000) / 1000000000.
Print Assumptions Shares_transfers_le_remainder.

Theorem Shares_share_le_total : forall us ebr cbr total burn recips amounts,
  cbr <= US32_MAX -> total < two64 ->
  Forall (fun e => snd e <= US16_MAX) recips -> sumN (map snd recips) <= US16_MAX ->
  distribute_amounts us ebr cbr total recips = Some (burn, amounts) -> us * total / 1000000000 <= total.
Proof. exact share_le_total. Qed.
Check Shares_share_le_total : forall us ebr cbr total burn recips amounts,
  cbr <= US32_MAX -> total < two64 ->
  Forall (fun e => snd e <= US16_MAX) recips -> sumN (map snd recips) <= US16_MAX ->
  distribute_amounts us ebr cbr total recips = Some (burn, amounts) -> us * total / 1000000000 <= total.
Print Assumptions Shares_share_le_total.

Theorem Shares_dust_lt_recipients : forall us ebr cbr total burn recips amounts,
  cbr <= US32_MAX -> total < two64 ->
  Forall (fun e => snd e <= US16_MAX) recips -> sumN (map snd recips) <= US16_MAX ->
  distribute_amounts us ebr cbr total recips = Some (burn, amounts) ->
  sumN (map snd recips) = US16_MAX ->
  burn - N.max cbr ebr * (us * total / 1000000000) / 1000000000 < N.of_nat (length recips).
Proof. exact dust_lt_recipients. Qed.
Check Shares_dust_lt_recipients : forall us ebr cbr total burn recips amounts,
  cbr <= US32_MAX -> total < two64 ->
  Forall (fun e => snd e <= US16_MAX) recips -> sumN (map snd recips) <= US16_MAX ->
  distribute_amounts us ebr cbr total recips = Some (burn, amounts) ->
  sumN (map snd recips) = US16_MAX ->
  burn - N.max cbr ebr * (us * total / 1000000000) / 1000000000 < N.of_nat (length recips).
Print Assumptions Shares_dust_lt_recipients.

(* C16: the recipient table *)
Theorem Shares_recipients_new_spec : forall l t,
  recipients_new l = Some t <->
  (1 <= length l <= 8)%nat /\ Forall (fun e => fst e <> 0) l /\ Forall (fun e => snd e <> 0) l /\
  sumN (map snd l) = 10000 /\ t = l ++ repeat (0, 0) (8 - length l).
Proof. exact recipients_new_spec. Qed.
Check Shares_recipients_new_spec : forall l t,
  recipients_new l = Some t <->
  (1 <= length l <= 8)%nat /\ Forall (fun e => fst e <> 0) l /\ Forall (fun e => snd e <> 0) l /\
  sumN (map snd l) = 10000 /\ t = l ++ repeat (0, 0) (8 - length l).
Print Assumptions Shares_recipients_new_spec.

Theorem Shares_recipients_new_shares_le : forall l t, recipients_new l = Some t -> Forall (fun e => snd e <= 10000) l.
Proof. exact recipients_new_shares_le. Qed.
Check Shares_recipients_new_shares_le : forall l t, recipients_new l = Some t -> Forall (fun e => snd e <= 10000) l.
Print Assumptions Shares_recipients_new_shares_le.

Theorem Shares_recipients_new_active : forall l t, recipients_new l = Some t -> active t = l /\ length t = 8%nat.
Proof. exact recipients_new_active. Qed.
Check Shares_recipients_new_active : forall l t, recipients_new l = Some t -> active t = l /\ length t = 8%nat.
Print Assumptions Shares_recipients_new_active.

Theorem Shares_recipients_new_accepts_iff : forall l, (exists t, recipients_new l = Some t) <-> recipients_valid l = true.
Proof. exact recipients_new_accepts_iff. Qed.
Check Shares_recipients_new_accepts_iff : forall l, (exists t, recipients_new l = Some t) <-> recipients_valid l = true.
Print Assumptions Shares_recipients_new_accepts_iff.

Theorem Shares_table_update_spec : forall old l,
  match recipients_new l with
  | Some t => table_update old l = (t, true) /\ table_valid t /\ active t = l
  | None => table_update old l = (old, false)
  end.
Proof. exact table_update_spec. Qed.
Check Shares_table_update_spec : forall old l,
  match recipients_new l with
  | Some t => table_update old l = (t, true) /\ table_valid t /\ active t = l
  | None => table_update old l = (old, false)
  end.
Print Assumptions Shares_table_update_spec.

Theorem Shares_table_empty_or_valid : forall ups t, (t = empty_table \/ table_valid t) ->
  table_run t ups = empty_table \/ table_valid (table_run t ups).
Proof. exact table_empty_or_valid. Qed.
Check Shares_table_empty_or_valid : forall ups t, (t = empty_table \/ table_valid t) ->
  table_run t ups = empty_table \/ table_valid (table_run t ups).
Print Assumptions Shares_table_empty_or_valid.

Theorem Shares_valid_table_distributes : forall t, table_valid t ->
  active t <> [] /\ Forall (fun e => snd e <= US16_MAX) (active t) /\ sumN (map snd (active t)) <= US16_MAX.
Proof. exact valid_table_distributes. Qed.
Check Shares_valid_table_distributes : forall t, table_valid t ->
  active t <> [] /\ Forall (fun e => snd e <= US16_MAX) (active t) /\ sumN (map snd (active t)) <= US16_MAX.
Print Assumptions Shares_valid_table_distributes.

(* the executable monitor used on the implementation's results accepts every observation the model predicts:
   each clause of mon_shares is a theorem of the model *)
Theorem Shares_monitor_sound : forall c, case_in_range c -> corr_shares c = None -> mon_shares c = None.
Proof. exact monitor_sound. Qed.
Check Shares_monitor_sound : forall c, case_in_range c -> corr_shares c = None -> mon_shares c = None.
Print Assumptions Shares_monitor_sound.
