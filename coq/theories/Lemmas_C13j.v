(* C13, two epochs: the payment loops of two different epochs may be interleaved in ANY order (they share the journal, the
   configuration and possibly deposits: a validator may owe in both epochs).  Index at the end of Lemmas_C13k.v. *)
From DZ Require Import Base Keys Merkle BurnRate Shares Swap_Ring State World SwapDeq RD Passport Swap Exec Corr Builders
  Lemmas_Merkle Lemmas_Shares Lemmas_RdSpecs5 Lemmas_C13 Lemmas_C13b Lemmas_C13c Lemmas_C13f Lemmas_C13g Lemmas_C13i.

(* c is an interleaving of a and b (the relative order inside a and inside b is kept) *)
Inductive merge {A : Type} : list A -> list A -> list A -> Prop :=
| merge_nil : merge [] [] []
| merge_l x a b c : merge a b c -> merge (x :: a) b (x :: c)
| merge_r x a b c : merge a b c -> merge a (x :: b) (x :: c).

Lemma merge_sym {A} (a b c : list A) : merge a b c -> merge b a c.
Proof. induction 1; constructor; assumption. Qed.
Lemma merge_app {A} (a b : list A) : merge a b (a ++ b).
Proof.
  induction a as [|x a IH]; cbn [app].
  - induction b as [|y b IHb]; constructor; assumption.
  - constructor. exact IH.
Qed.

(* joint invariant of the two loops: each epoch's own invariant, and every deposit covers what BOTH epochs still draw *)
Record pay2 (W : world) (e : N) (root : hash) (pf : N -> proof) (i : N) (rest : list (key * N)) (d : dist) (tail : list N)
  (e' : N) (root' : hash) (pf' : N -> proof) (i' : N) (rest' : list (key * N)) (d' : dist) (tail' : list N)
  (c : rd_config) (j : journal) : Prop := {
  p2_left : pay_phase W e root pf i rest c d tail j;
  p2_right : pay_phase W e' root' pf' i' rest' c d' tail' j;
  p2_ne : e <> e';
  p2_deposits : forall node amt, In (node, amt) rest \/ In (node, amt) rest' ->
     rent LEN_DEPOSIT + owed node rest + owed node rest' <= lamports (get W (KRdDeposit node))
}.

Lemma pay2_sym W e root pf i rest d tail e' root' pf' i' rest' d' tail' c j :
  pay2 W e root pf i rest d tail e' root' pf' i' rest' d' tail' c j ->
  pay2 W e' root' pf' i' rest' d' tail' e root pf i rest d tail c j.
Proof.
  intros [A B C D]. constructor; try assumption; [congruence|].
  intros node amt H. specialize (D node amt ltac:(tauto)). lia.
Qed.

(* one payment of epoch e keeps the joint invariant *)
Lemma pay2_step f W e root pf i node amt tl d tail e' root' pf' i' rest' d' tail' c j :
  pay2 W e root pf i ((node, amt) :: tl) d tail e' root' pf' i' rest' d' tail' c j ->
  exists W1, exec_tx W (rd_tx [KUser f] (RPayDebt amt (pf i)) (sdk_pay_debt e node)) = (W1, true) /\ now W1 = now W /\
    pay2 W1 e root pf (i + 1) tl (pay_debt_dist d amt) (set_bit_at tail (d_debt_start d) i)
         e' root' pf' i' rest' d' tail' c (j <| j_total_sol := wadd64 (j_total_sol j) amt |>) /\
    lamports (get W1 KRdJournal) = lamports (get W KRdJournal) + amt /\
    (forall n, lamports (get W1 (KRdDeposit n)) = lamports (get W (KRdDeposit n)) - (if key_eqb n node then amt else 0)).
Proof.
  intros [PL PR Hne HD].
  destruct (pay_step f W e root pf i node amt tl c d tail j PL) as (W1 & Hx & Hn1 & Hg & P1).
  exists W1. split; [exact Hx|]. split; [exact Hn1|].
  set (j1 := j <| j_total_sol := wadd64 (j_total_sol j) amt |>) in *.
  destruct PR as [pp_cfg_owner0 pp_cfg_data0 pp_cfg_lam0 pp_unpaused0 pp_dist_owner0 pp_dist_data0 pp_dist_rent0 pp_debt_final0
    pp_root0 pp_window0 pp_fits0 pp_clear0 pp_proofs0 pp_deposits0 pp_j_owner0 pp_j_data0 pp_j_rent0 pp_ranges0].
  assert (get W1 KRdConfig = get W KRdConfig) as G0.
  { rewrite Hg. unfold pay_debt_acct. cbn [key_eqb]. apply purge_acct_id. assumption. }
  assert (get W1 (KRdDist e') = get W (KRdDist e')) as G1.
  { rewrite Hg. unfold pay_debt_acct. cbn [key_eqb]. rewrite (proj2 (N.eqb_neq e' e)) by congruence.
    apply purge_acct_id. pose proof (rent_pos (alen (get W (KRdDist e')))). lia. }
  assert (get W1 KRdJournal = get W KRdJournal <| lamports := lamports (get W KRdJournal) + amt |> <| data := DJournal j1 |>) as G2.
  { rewrite Hg. unfold pay_debt_acct. cbn [key_eqb]. reflexivity. }
  assert (forall n, get W1 (KRdDeposit n) = if key_eqb n node then get W (KRdDeposit n) <| lamports := lamports (get W (KRdDeposit n)) - amt |>
                                             else purge_acct (get W (KRdDeposit n))) as G3.
  { intros n. rewrite Hg. unfold pay_debt_acct. cbn [key_eqb]. reflexivity. }
  assert (forall n, lamports (get W1 (KRdDeposit n)) = lamports (get W (KRdDeposit n)) - (if key_eqb n node then amt else 0)) as G3l.
  { intros n. rewrite G3. destruct (key_eqb n node); [reflexivity|]. rewrite lamports_purge_acct. lia. }
  split; [|split; [rewrite G2; reflexivity|exact G3l]].
  constructor; try assumption.
  - (* the other epoch's invariant survives *)
    destruct pp_ranges0 as (R1 & R2 & R3).
    constructor; rewrite ?G0, ?G1, ?G2; try assumption; try reflexivity.
    + intros node' amt' Hin'. destruct (pp_deposits0 node' amt' Hin') as (dp' & Do' & Dd' & Dn' & Dl' & Df').
      exists dp'. rewrite G3. specialize (HD node' amt' (or_intror Hin')). cbn [owed] in HD. rewrite (key_eqb_sym node node') in HD.
      destruct (key_eqb_spec node' node) as [E|Hne'].
      * repeat split; try assumption. rewrite lamports_set_lamports. lia.
      * rewrite purge_acct_id by (pose proof (rent_pos LEN_DEPOSIT); lia). repeat split; assumption.
    + match goal with |- rent (alen ?a) <= lamports ?a =>
        change (alen a) with (alen (get W KRdJournal)); change (lamports a) with (lamports (get W KRdJournal) + amt) end. lia.
    + subst j1. cbn [j_total_sol]. repeat split; try assumption. unfold wadd64. apply wadd_lt. discriminate.
  - intros node' amt' Hin'. rewrite G3l.
    specialize (HD node' amt' ltac:(destruct Hin'; [left; right; assumption|right; assumption])).
    cbn [owed] in HD. rewrite (key_eqb_sym node node') in HD. destruct (key_eqb node' node); lia.
Qed.

(* what one epoch's loop has achieved: the counter, the bits of its leaves, nothing else in its window *)
Definition loop_done (d d1 : dist) (tail tail1 : list N) (i n : N) : Prop :=
  d_payments_count d1 = (d_payments_count d + n) mod two32 /\ d_debt_start d1 = d_debt_start d /\
  (forall idx, i <= idx < i + n -> range_bit tail1 (d_debt_start d) idx = true) /\
  (forall idx, idx < i \/ i + n <= idx -> range_bit tail1 (d_debt_start d) idx = range_bit tail (d_debt_start d) idx).

Lemma loop_done_refl d tail i : d_payments_count d < two32 -> loop_done d d tail tail i 0.
Proof. intros H. unfold loop_done. rewrite N.add_0_r, N.mod_small by assumption. repeat split; try reflexivity. intros idx Hidx. lia. Qed.

Lemma loop_done_step W e root pf i node amt tl c d tail j d1 tail1 :
  pay_phase W e root pf i ((node, amt) :: tl) c d tail j ->
  loop_done (pay_debt_dist d amt) d1 (set_bit_at tail (d_debt_start d) i) tail1 (i + 1) (N.of_nat (length tl)) ->
  loop_done d d1 tail tail1 i (N.of_nat (length ((node, amt) :: tl))).
Proof.
  intros P (L1 & L2 & L3 & L4).
  destruct P as [pp_cfg_owner0 pp_cfg_data0 pp_cfg_lam0 pp_unpaused0 pp_dist_owner0 pp_dist_data0 pp_dist_rent0 pp_debt_final0
    pp_root0 pp_window0 pp_fits0 pp_clear0 pp_proofs0 pp_deposits0 pp_j_owner0 pp_j_data0 pp_j_rent0 pp_ranges0].
  destruct pp_window0 as (Hw1 & Hw2). cbn [length] in pp_fits0, pp_clear0.
  assert (i / 8 < d_debt_end d - d_debt_start d) as Hin by lia.
  assert (range_bit tail (d_debt_start d) i = false) as Hclr by (apply pp_clear0; lia).
  destruct (set_bit_at_bits tail _ _ i Hw1 Hw2 Hin Hclr) as (Hlen & Hset & Hoth).
  assert (d_debt_start (pay_debt_dist d amt) = d_debt_start d) as Es by (unfold pay_debt_dist; proj_simpl; reflexivity).
  assert (d_payments_count (pay_debt_dist d amt) = wadd32 (d_payments_count d) 1) as Ec by (unfold pay_debt_dist; proj_simpl; reflexivity).
  rewrite Es in *. cbn [length]. rewrite Nat2N.inj_succ.
  split. { rewrite L1, Ec. unfold wadd32, wadd. rewrite N.add_mod_idemp_l by discriminate. f_equal. lia. }
  split; [exact L2|]. split.
  - intros idx Hidx. destruct (N.eq_dec idx i) as [->|Hne]; [rewrite L4 by lia; exact Hset|apply L3; lia].
  - intros idx Hidx. rewrite L4 by lia. apply Hoth. lia.
Qed.

Lemma pay_txs_cons_inv f e rest pf i t tl :
  t :: tl = pay_txs f e rest pf i ->
  exists node amt rest', rest = (node, amt) :: rest' /\ t = rd_tx [KUser f] (RPayDebt amt (pf i)) (sdk_pay_debt e node) /\
                         tl = pay_txs f e rest' pf (i + 1).
Proof. destruct rest as [|[node amt] rest']; cbn [pay_txs]; intros H; [discriminate|]. injection H as -> ->. eauto 6. Qed.
Lemma pay_txs_nil_inv f e rest pf i : [] = pay_txs f e rest pf i -> rest = [].
Proof. destruct rest as [|[node amt] rest']; cbn [pay_txs]; intros H; [reflexivity|discriminate]. Qed.

(* ANY interleaving of the two payment loops succeeds and completes both *)
Theorem pay_interleave f f' e root pf e' root' pf' c : forall A B ts, merge A B ts ->
  forall rest i rest' i' W d tail d' tail' j,
  A = pay_txs f e rest pf i -> B = pay_txs f' e' rest' pf' i' ->
  pay2 W e root pf i rest d tail e' root' pf' i' rest' d' tail' c j ->
  exists W' d1 tail1 d1' tail1' j',
    run_txs W ts = (W', true) /\
    pay2 W' e root pf (i + N.of_nat (length rest)) [] d1 tail1 e' root' pf' (i' + N.of_nat (length rest')) [] d1' tail1' c j' /\
    loop_done d d1 tail tail1 i (N.of_nat (length rest)) /\ loop_done d' d1' tail' tail1' i' (N.of_nat (length rest')) /\
    lamports (get W' KRdJournal) = lamports (get W KRdJournal) + sumN (map snd rest) + sumN (map snd rest') /\
    now W' = now W.
Proof.
  induction 1 as [|x a b ts Hm IH|x a b ts Hm IH]; intros rest i rest' i' W d tail d' tail' j EA EB P.
  - apply pay_txs_nil_inv in EA, EB. subst rest rest'. exists W, d, tail, d', tail', j. cbn [run_txs length N.of_nat map sumN].
    rewrite !N.add_0_r. split; [reflexivity|]. split; [exact P|].
    destruct (pp_ranges _ _ _ _ _ _ _ _ _ _ (p2_left _ _ _ _ _ _ _ _ _ _ _ _ _ _ _ _ _ P)) as (R1 & _).
    destruct (pp_ranges _ _ _ _ _ _ _ _ _ _ (p2_right _ _ _ _ _ _ _ _ _ _ _ _ _ _ _ _ _ P)) as (R1' & _).
    split; [apply loop_done_refl; assumption|]. split; [apply loop_done_refl; assumption|]. auto.
  - apply pay_txs_cons_inv in EA. destruct EA as (node & amt & tl & -> & -> & Ea).
    destruct (pay2_step f W e root pf i node amt tl d tail e' root' pf' i' rest' d' tail' c j P) as (W1 & Hx & Hn1 & P1 & Hjl & _).
    destruct (IH tl (i + 1) rest' i' W1 _ _ d' tail' _ Ea EB P1) as (W' & d1 & tail1 & d1' & tail1' & j' & Hrun & Pend & LD & LD' & Hj & Hn).
    exists W', d1, tail1, d1', tail1', j'. cbn [run_txs]. rewrite Hx.
    replace (i + N.of_nat (length ((node, amt) :: tl))) with (i + 1 + N.of_nat (length tl)) by (cbn [length]; lia).
    split; [exact Hrun|]. split; [exact Pend|].
    split; [exact (loop_done_step _ _ _ _ _ _ _ _ _ _ _ _ _ _ (p2_left _ _ _ _ _ _ _ _ _ _ _ _ _ _ _ _ _ P) LD)|].
    split; [exact LD'|]. split; [|congruence]. rewrite Hj, Hjl. cbn [map snd sumN]. lia.
  - apply pay_txs_cons_inv in EB. destruct EB as (node & amt & tl & -> & -> & Eb).
    destruct (pay2_step f' W e' root' pf' i' node amt tl d' tail' e root pf i rest d tail c j (pay2_sym _ _ _ _ _ _ _ _ _ _ _ _ _ _ _ _ _ P))
      as (W1 & Hx & Hn1 & P1 & Hjl & _).
    apply pay2_sym in P1.
    destruct (IH rest i tl (i' + 1) W1 d tail _ _ _ EA Eb P1) as (W' & d1 & tail1 & d1' & tail1' & j' & Hrun & Pend & LD & LD' & Hj & Hn).
    exists W', d1, tail1, d1', tail1', j'. cbn [run_txs]. rewrite Hx.
    replace (i' + N.of_nat (length ((node, amt) :: tl))) with (i' + 1 + N.of_nat (length tl)) by (cbn [length]; lia).
    split; [exact Hrun|]. split; [exact Pend|]. split; [exact LD|].
    split; [exact (loop_done_step _ _ _ _ _ _ _ _ _ _ _ _ _ _ (p2_right _ _ _ _ _ _ _ _ _ _ _ _ _ _ _ _ _ P) LD')|].
    split; [|congruence]. rewrite Hj, Hjl. cbn [map snd sumN]. lia.
Qed.

(* both loops run to completion (corollary for whole trees, from count 0) *)
Corollary pay_interleave_complete f f' e root pf e' root' pf' c L L' ts W d tail d' tail' j :
  merge (pay_txs f e L pf 0) (pay_txs f' e' L' pf' 0) ts ->
  pay2 W e root pf 0 L d tail e' root' pf' 0 L' d' tail' c j ->
  d_payments_count d = 0 -> d_payments_count d' = 0 -> N.of_nat (length L) < two32 -> N.of_nat (length L') < two32 ->
  exists W' d1 tail1 d1' tail1',
    run_txs W ts = (W', true) /\
    data (get W' (KRdDist e)) = DDist d1 tail1 /\ data (get W' (KRdDist e')) = DDist d1' tail1' /\
    d_payments_count d1 = N.of_nat (length L) /\ d_payments_count d1' = N.of_nat (length L') /\
    (forall idx, idx < N.of_nat (length L) -> range_bit tail1 (d_debt_start d1) idx = true) /\
    (forall idx, idx < N.of_nat (length L') -> range_bit tail1' (d_debt_start d1') idx = true) /\
    lamports (get W' KRdJournal) = lamports (get W KRdJournal) + sumN (map snd L) + sumN (map snd L').
Proof.
  intros Hm P H0 H0' Hl Hl'.
  destruct (pay_interleave f f' e root pf e' root' pf' c _ _ ts Hm L 0 L' 0 W d tail d' tail' j eq_refl eq_refl P)
    as (W' & d1 & tail1 & d1' & tail1' & j' & Hrun & Pend & (C1 & S1 & B1 & _) & (C1' & S1' & B1' & _) & Hj & _).
  exists W', d1, tail1, d1', tail1'. split; [exact Hrun|].
  split; [exact (pp_dist_data _ _ _ _ _ _ _ _ _ _ (p2_left _ _ _ _ _ _ _ _ _ _ _ _ _ _ _ _ _ Pend))|].
  split; [exact (pp_dist_data _ _ _ _ _ _ _ _ _ _ (p2_right _ _ _ _ _ _ _ _ _ _ _ _ _ _ _ _ _ Pend))|].
  split; [rewrite C1, H0, N.add_0_l; apply N.mod_small; exact Hl|].
  split; [rewrite C1', H0', N.add_0_l; apply N.mod_small; exact Hl'|].
  split; [intros idx Hidx; rewrite S1; apply B1; lia|]. split; [intros idx Hidx; rewrite S1'; apply B1'; lia|]. exact Hj.
Qed.

(* non-vacuity: epochs 5 and 6 carry the same two debts; validators 11 and 12 owe in both; the payments alternate *)
Definition ex13_dist6 : dist := ex_dist5 <| d_epoch := 6 |>.
Definition ex13_pay2_world : world :=
  put (put (put ex13_pay_world
    (KRdDist 6) (ex_acct (rent (LEN_DIST + 1)) (LEN_DIST + 1) (DDist ex13_dist6 [0])))
    (KRdDeposit (KUser 11)) (ex13_deposit (KUser 11) 600))
    (KRdDeposit (KUser 12)) (ex13_deposit (KUser 12) 1100).
Definition ex13_pay2_txs : list tx :=
  let pf := proof_for PRE_DEBT ex_debts in
  [rd_tx [KUser 1] (RPayDebt 300 (pf 0)) (sdk_pay_debt 5 (KUser 11)); rd_tx [KUser 1] (RPayDebt 300 (pf 0)) (sdk_pay_debt 6 (KUser 11));
   rd_tx [KUser 1] (RPayDebt 500 (pf 1)) (sdk_pay_debt 6 (KUser 12)); rd_tx [KUser 1] (RPayDebt 500 (pf 1)) (sdk_pay_debt 5 (KUser 12))].
Example pay_interleave_nonvacuous :
  let pf := proof_for PRE_DEBT ex_debts in let root := tree_root PRE_DEBT ex_debts in
  merge (pay_txs 1 5 ex13_leaves pf 0) (pay_txs 1 6 ex13_leaves pf 0) ex13_pay2_txs /\
  pay2 ex13_pay2_world 5 root pf 0 ex13_leaves ex_dist5 [0] 6 root pf 0 ex13_leaves ex13_dist6 [0] ex_cfg journal_default /\
  let '(W', ok) := run_txs ex13_pay2_world ex13_pay2_txs in
  ok = true /\
  data (get W' (KRdDist 5)) = DDist (ex_dist5 <| d_collected_sol := 800 |> <| d_payments_count := 2 |>) [3] /\
  data (get W' (KRdDist 6)) = DDist (ex13_dist6 <| d_collected_sol := 800 |> <| d_payments_count := 2 |>) [3] /\
  lamports (get W' KRdJournal) = rent LEN_CONFIG_ALLOC + 1600 /\
  lamports (get W' (KRdDeposit (KUser 11))) = rent LEN_DEPOSIT /\ lamports (get W' (KRdDeposit (KUser 12))) = rent LEN_DEPOSIT + 100.
Proof.
  cbv zeta. split; [unfold ex13_pay2_txs, ex13_leaves; cbn [pay_txs]; repeat constructor|]. split; [|vm_compute; repeat split].
  assert (forall e0 d0, (e0 = 5 /\ d0 = ex_dist5) \/ (e0 = 6 /\ d0 = ex13_dist6) ->
     pay_phase ex13_pay2_world e0 (tree_root PRE_DEBT ex_debts) (proof_for PRE_DEBT ex_debts) 0 ex13_leaves ex_cfg d0 [0] journal_default) as PP.
  { intros e0 d0 [[-> ->]|[-> ->]]; (constructor; try closed;
    [ intros idx H; assert (idx = 0 \/ idx = 1) as [->| ->] by (cbn in H; lia); reflexivity
    | intros [|[|[|n]]] node amt H; cbn in H; try discriminate H; injection H as <- <-; vm_compute; split; reflexivity
    | intros node amt H; unfold ex13_leaves in H; cbn [In] in H; destruct H as [H|[H|[]]]; injection H as <- <-; eexists; closed ]). }
  constructor; [apply PP; auto|apply PP; auto|discriminate|].
  intros node amt H. unfold ex13_leaves in H. cbn [In] in H.
  destruct H as [[H|[H|[]]]|[H|[H|[]]]]; injection H as <- <-; vm_compute; discriminate.
Qed.
