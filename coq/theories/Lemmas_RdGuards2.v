(* Part 2 of the revenue-distribution "success => guard" development: tables over the dispatch `rd_process`
   (authority, pause, re-initialisation), the lift to transactions, refutations of guards the model does NOT imply,
   and non-vacuity examples. *)
From DZ Require Import Base Keys Merkle BurnRate Shares Swap_Ring State World SwapDeq RD Passport Swap Exec
  Lemmas_Merkle Lemmas_RdGuards.

(* ------------------------------------------------------------------------------------------------------------------ *)
(* 3a. C07: every privileged instruction needs the signature of the key currently stored for its role                  *)

Definition role_of (ix : rd_ix) : option rd_authority :=
  match ix with
  | RConfigureProgram _ => Some AAdmin
  | RInitializeDistribution | RConfigureDebt _ _ _ | RFinalizeDebt | RWriteOff _ _ => Some ADebtAccountant
  | RConfigureRewards _ _ => Some ARewardsAccountant
  | RSetRewardsManager _ => Some AContributorManager
  | _ => None
  end.

Theorem rd_privileged_requires_role cx W ix W' who :
  rd_process cx W ix = Ok W' -> role_of ix = Some who ->
  exists m0 m1 rest c,
    cx_metas cx = m0 :: m1 :: rest /\ rd_acct W (mkey m0) (DConfig c) /\
    msigner m1 = true /\ mkey m1 = role_key c who.
Proof.
  intros H Hr. destruct ix; cbn in Hr; try discriminate Hr; injection Hr as <-; cbn [rd_process] in H.
  - apply rd_configure_program_guards in H. rg_norm. rg_fin.
  - apply rd_initialize_distribution_guards in H. rg_norm. rg_fin.
  - apply rd_configure_debt_guards in H. rg_norm. rg_fin.
  - apply rd_finalize_debt_guards in H. rg_norm. rg_fin.
  - apply rd_configure_rewards_guards in H. rg_norm. rg_fin.
  - apply rd_set_rewards_manager_guards in H. rg_norm. rg_fin.
  - apply rd_write_off_guards in H. rg_norm. rg_fin.
Qed.

(* contrapositive: a wrong key, or the right key without its signature, makes the instruction fail *)
Corollary rd_wrong_authority_fails cx W ix who m0 m1 rest c :
  role_of ix = Some who -> cx_metas cx = m0 :: m1 :: rest -> data (get W (mkey m0)) = DConfig c ->
  mkey m1 <> role_key c who \/ msigner m1 = false -> forall W', rd_process cx W ix <> Ok W'.
Proof.
  intros Hr Hm Hd Hbad W' H. destruct (rd_privileged_requires_role _ _ _ _ _ H Hr) as (m0' & m1' & rest' & c' & Hm' & (_ & Hd') & Hs & Hk).
  rewrite Hm in Hm'. injection Hm' as <- <- <-. rewrite Hd in Hd'. injection Hd' as <-.
  destruct Hbad as [Hbad|Hbad]; congruence.
Qed.

(* upgrade authority: SetAdmin and Migrate *)
Definition needs_upgrade_authority (ix : rd_ix) : bool :=
  match ix with RSetAdmin _ | RMigrate => true | _ => false end.
Theorem rd_upgrade_authority_required cx W ix W' :
  rd_process cx W ix = Ok W' -> needs_upgrade_authority ix = true ->
  exists m0 m1 rest a,
    cx_metas cx = m0 :: m1 :: rest /\ mkey m0 = KProgData KRd /\
    data (get W (KProgData KRd)) = DProgData (Some a) /\ msigner m1 = true /\ mkey m1 = a.
Proof.
  intros H Hr. destruct ix; try discriminate Hr; cbn [rd_process] in H.
  - apply rd_migrate_guards in H. rg_norm. rg_fin.
  - apply rd_set_admin_guards in H. rg_norm. rg_fin.
Qed.

(* a contributor's rewards manager: ConfigureContributorRewards *)
Theorem rd_rewards_manager_required cx W s W' :
  rd_process cx W (RConfigureContributor s) = Ok W' ->
  exists m0 m1 m2 rest cr,
    cx_metas cx = m0 :: m1 :: m2 :: rest /\ rd_acct W (mkey m1) (DContrib cr) /\
    msigner m2 = true /\ mkey m2 = cr_manager cr.
Proof. cbn [rd_process]. intros H. apply rd_configure_contributor_guards in H. rg_norm. rg_fin. Qed.

(* every instruction is covered by exactly one of: a role, the upgrade authority, the rewards manager, or is permissionless *)
Definition permissionless (ix : rd_ix) : bool :=
  match ix with
  | RInitializeProgram | RInitializeJournal | RFinalizeRewards | RDistributeRewards _ _ _ | RInitializeContributor _
  | RVerifyRoot _ _ | RInitializeDeposit _ | RPayDebt _ _ | REnableWriteOff | RInitializeSwapDestination | RSweep => true
  | _ => false
  end.
Lemma rd_authority_table_total ix :
  match role_of ix with Some _ => true | None => false end
  || needs_upgrade_authority ix
  || match ix with RConfigureContributor _ | RWithdrawSol _ => true | _ => false end
  || permissionless ix = true.
Proof. destruct ix; reflexivity. Qed.

(* ------------------------------------------------------------------------------------------------------------------ *)
(* 3b. C08: while paused only administration and bootstrap succeed                                                     *)

Definition pause_exempt (ix : rd_ix) : bool :=
  match ix with
  | RInitializeProgram | RMigrate | RSetAdmin _ | RConfigureProgram _ | RInitializeJournal
  | RInitializeContributor _ | RInitializeDeposit _ | RInitializeSwapDestination | RVerifyRoot _ _ => true
  | _ => false
  end.

Theorem rd_paused_blocks cx W ix W' :
  rd_process cx W ix = Ok W' -> pause_exempt ix = false ->
  exists m0 rest c, cx_metas cx = m0 :: rest /\ rd_acct W (mkey m0) (DConfig c) /\ c_paused c = false.
Proof.
  intros H He. destruct ix; try discriminate He; cbn [rd_process] in H.
  - apply rd_initialize_distribution_guards in H. rg_norm. rg_fin.
  - apply rd_configure_debt_guards in H. rg_norm. rg_fin.
  - apply rd_finalize_debt_guards in H. rg_norm. rg_fin.
  - apply rd_configure_rewards_guards in H. rg_norm. rg_fin.
  - apply rd_finalize_rewards_guards in H. rg_norm. rg_fin.
  - apply rd_distribute_rewards_guards in H. rg_norm. rg_fin.
  - apply rd_set_rewards_manager_guards in H. rg_norm. rg_fin.
  - apply rd_configure_contributor_guards in H. rg_norm. rg_fin.
  - apply rd_pay_debt_guards in H. rg_norm. rg_fin.
  - apply rd_enable_write_off_guards in H. rg_norm. rg_fin.
  - apply rd_write_off_guards in H. rg_norm. rg_fin.
  - apply rd_sweep_guards in H. rg_norm. rg_fin.
  - apply rd_withdraw_sol_guards in H. rg_norm. rg_fin.
Qed.
Corollary rd_paused_fails cx W ix m0 rest c :
  pause_exempt ix = false -> cx_metas cx = m0 :: rest -> data (get W (mkey m0)) = DConfig c -> c_paused c = true ->
  forall W', rd_process cx W ix <> Ok W'.
Proof.
  intros He Hm Hd Hp W' H. destruct (rd_paused_blocks _ _ _ _ H He) as (m0' & rest' & c' & Hm' & (_ & Hd') & Hp').
  rewrite Hm in Hm'. injection Hm' as <- <-. rewrite Hd in Hd'. injection Hd' as <-. congruence.
Qed.

(* ------------------------------------------------------------------------------------------------------------------ *)
(* 3c. C09: initialising an account that already exists fails                                                          *)

(* the precise model conditions *)
Lemma create_account_fails cx W payer new len own add :
  owner (get W new) <> KSystem \/ alen (get W new) <> 0 -> forall W', create_account cx W payer new len own add <> Ok W'.
Proof. intros Hbad W' H. apply create_account_ok in H as (Ho & Hl & _). destruct Hbad; contradiction. Qed.
Lemma try_initialize_fails cx W k min_len d :
  data (get W k) <> DEmpty -> forall W', try_initialize cx W k min_len d <> Ok W'.
Proof. intros Hbad W' H. apply try_initialize_ok in H as (_ & Hd & _). contradiction. Qed.
(* any account that holds program state is not fresh *)
Lemma rd_acct_not_fresh W k d : rd_acct W k d -> ~ fresh_acct W k.
Proof. intros (Ho & _) (Hs & _). congruence. Qed.

(* the accounts each initialiser creates must be fresh: system-owned and without data *)
Theorem rd_reinit_fails cx W ix W' :
  rd_process cx W ix = Ok W' ->
  match ix with
  | RInitializeProgram => fresh_acct W KRdConfig /\ fresh_acct W (KTok2z KRdConfig)
  | RInitializeJournal => fresh_acct W KRdJournal /\ fresh_acct W (KTok2z KRdJournal)
  | RInitializeDistribution =>
      exists m0 rest c, cx_metas cx = m0 :: rest /\ rd_acct W (mkey m0) (DConfig c) /\
        fresh_acct W (KRdDist (c_next_epoch c)) /\ fresh_acct W (KTok2z (KRdDist (c_next_epoch c)))
  | RInitializeContributor svc => fresh_acct W (KRdContrib svc)
  | RInitializeDeposit node => fresh_acct W (KRdDeposit node)
  | RInitializeSwapDestination => fresh_acct W (KTok2z KRdSwapAuth)
  | _ => True
  end.
Proof.
  intros H. destruct ix; try exact I; cbn [rd_process] in H.
  - apply rd_initialize_program_guards in H. rg_norm. auto.
  - apply rd_initialize_journal_guards in H. rg_norm. auto.
  - apply rd_initialize_distribution_guards in H. rg_norm. rg_fin.
  - apply rd_initialize_contributor_guards in H. rg_norm. auto.
  - apply rd_initialize_deposit_guards in H. rg_norm. auto.
  - apply rd_initialize_swap_destination_guards in H. rg_norm. auto.
Qed.
(* the state-account instances, as failures *)
Corollary rd_reinit_program_fails cx W d : rd_acct W KRdConfig d -> forall W', rd_process cx W RInitializeProgram <> Ok W'.
Proof. intros Ha W' H. apply rd_reinit_fails in H as (Hf & _). exact (rd_acct_not_fresh _ _ _ Ha Hf). Qed.
Corollary rd_reinit_journal_fails cx W d : rd_acct W KRdJournal d -> forall W', rd_process cx W RInitializeJournal <> Ok W'.
Proof. intros Ha W' H. apply rd_reinit_fails in H as (Hf & _). exact (rd_acct_not_fresh _ _ _ Ha Hf). Qed.
Corollary rd_reinit_contributor_fails cx W svc d :
  rd_acct W (KRdContrib svc) d -> forall W', rd_process cx W (RInitializeContributor svc) <> Ok W'.
Proof. intros Ha W' H. apply rd_reinit_fails in H. exact (rd_acct_not_fresh _ _ _ Ha H). Qed.
Corollary rd_reinit_deposit_fails cx W node d :
  rd_acct W (KRdDeposit node) d -> forall W', rd_process cx W (RInitializeDeposit node) <> Ok W'.
Proof. intros Ha W' H. apply rd_reinit_fails in H. exact (rd_acct_not_fresh _ _ _ Ha H). Qed.
Corollary rd_reinit_distribution_fails cx W m0 rest c d :
  cx_metas cx = m0 :: rest -> data (get W (mkey m0)) = DConfig c -> rd_acct W (KRdDist (c_next_epoch c)) d ->
  forall W', rd_process cx W RInitializeDistribution <> Ok W'.
Proof.
  intros Hm Hd Ha W' H. apply rd_reinit_fails in H as (m0' & rest' & c' & Hm' & (_ & Hd') & Hf & _).
  rewrite Hm in Hm'. injection Hm' as <- <-. rewrite Hd in Hd'. injection Hd' as <-.
  exact (rd_acct_not_fresh _ _ _ Ha Hf).
Qed.
Corollary rd_reinit_swap_destination_fails cx W :
  owner (get W (KTok2z KRdSwapAuth)) = KToken -> forall W', rd_process cx W RInitializeSwapDestination <> Ok W'.
Proof. intros Ho W' H. apply rd_reinit_fails in H as (Hs & _). congruence. Qed.

(* ------------------------------------------------------------------------------------------------------------------ *)
(* 4. transactions                                                                                                     *)

Lemma exec_tx_fail_unchanged W t W' : exec_tx W t = (W', false) -> W' = W.
Proof.
  unfold exec_tx. destruct (negb (tx_wf t)); [congruence|].
  destruct (exec_ixs t (tx_ixs t) None W); [destruct (rent_ok t W a)|]; congruence.
Qed.

(* a successful single-instruction transaction into revenue-distribution ran the processor at top level with the
   message-level privileges *)
Lemma exec_tx_single_rd W t W' i ix :
  exec_tx W t = (W', true) -> tx_ixs t = [i] -> i_prog i = KRd -> i_data i = IxRd ix ->
  tx_wf t = true /\
  exists W1, rd_process {| cx_prog := KRd; cx_metas := effective t (i_metas i); cx_height := 1; cx_sibling := None |} W ix = Ok W1 /\
             W' = purge W1.
Proof.
  unfold exec_tx. intros H Hi Hp Hd. destruct (tx_wf t); cbn [negb] in H; [|discriminate H]. split; [reflexivity|].
  rewrite Hi in H. cbn [exec_ixs] in H.
  match type of H with context [exec_data ?a ?b ?c ?d ?e ?f] => destruct (exec_data a b c d e f) as [W2|] eqn:E end;
    cbn [bind] in H; [|discriminate H].
  destruct (rent_ok t W W2); [|discriminate H]. injection H as <-.
  rewrite Hp, Hd in E. cbn [exec_data] in E. apply bind_ok in E as (W1 & E & E'). exists W1. split; [exact E|].
  repeat rg_inv E'. rg_norm. congruence.
Qed.

Lemma effective_cons t ms m' tl' :
  effective t ms = m' :: tl' ->
  exists m tl, ms = m :: tl /\ mkey m' = mkey m /\ msigner m' = msg_signer t (mkey m) /\ effective t tl = tl'.
Proof. destruct ms as [|m tl]; cbn; [discriminate|]. intros H. injection H as <- <-. exists m, tl. auto. Qed.

(* only wallets that signed the transaction carry the signer flag: never a derived address, never the all-zero key *)
Lemma msg_signer_user t k :
  tx_wf t = true -> msg_signer t k = true -> In k (tx_signers t) /\ (exists n, k = KUser n) /\ k <> default_key.
Proof.
  unfold tx_wf, msg_signer. intros Hwf Hs. apply andb_true_iff in Hwf as (_ & Hu).
  apply existsb_exists in Hs as (x & Hin & Hx). apply key_eqb_eq in Hx. subst x.
  rewrite forallb_forall in Hu. specialize (Hu _ Hin). split; [exact Hin|].
  destruct k; try discriminate Hu. split; [eauto|discriminate].
Qed.

Theorem tx_privileged_requires_signature W t W' i ix who :
  exec_tx W t = (W', true) -> tx_ixs t = [i] -> i_prog i = KRd -> i_data i = IxRd ix -> role_of ix = Some who ->
  exists m0 m1 rest c,
    i_metas i = m0 :: m1 :: rest /\ rd_acct W (mkey m0) (DConfig c) /\ mkey m1 = role_key c who /\
    In (role_key c who) (tx_signers t) /\ (exists n, role_key c who = KUser n) /\ role_key c who <> default_key.
Proof.
  intros H Hi Hp Hd Hr. destruct (exec_tx_single_rd _ _ _ _ _ H Hi Hp Hd) as (Hwf & W1 & Hrun & _).
  destruct (rd_privileged_requires_role _ _ _ _ _ Hrun Hr) as (m0' & m1' & rest' & c & Hm & Hc & Hs & Hk).
  cbn [cx_metas] in Hm.
  apply effective_cons in Hm as (m0 & tl0 & Hms & Hk0 & _ & Hm).
  apply effective_cons in Hm as (m1 & tl1 & -> & Hk1 & Hs1 & _).
  rewrite Hs in Hs1. symmetry in Hs1. apply (msg_signer_user _ _ Hwf) in Hs1.
  rewrite <- Hk1, Hk in Hs1. rewrite Hk0 in Hc.
  exists m0, m1, tl1, c. rg_splits; try tauto. congruence.
Qed.

Theorem tx_upgrade_authority_requires_signature W t W' i ix :
  exec_tx W t = (W', true) -> tx_ixs t = [i] -> i_prog i = KRd -> i_data i = IxRd ix ->
  needs_upgrade_authority ix = true ->
  exists m0 m1 rest a,
    i_metas i = m0 :: m1 :: rest /\ mkey m0 = KProgData KRd /\ data (get W (KProgData KRd)) = DProgData (Some a) /\
    mkey m1 = a /\ In a (tx_signers t) /\ (exists n, a = KUser n) /\ a <> default_key.
Proof.
  intros H Hi Hp Hd Hr. destruct (exec_tx_single_rd _ _ _ _ _ H Hi Hp Hd) as (Hwf & W1 & Hrun & _).
  destruct (rd_upgrade_authority_required _ _ _ _ Hrun Hr) as (m0' & m1' & rest' & a & Hm & Hk0' & Hpd & Hs & Hk).
  cbn [cx_metas] in Hm.
  apply effective_cons in Hm as (m0 & tl0 & Hms & Hk0 & _ & Hm).
  apply effective_cons in Hm as (m1 & tl1 & -> & Hk1 & Hs1 & _).
  rewrite Hs in Hs1. symmetry in Hs1. apply (msg_signer_user _ _ Hwf) in Hs1.
  rewrite <- Hk1, Hk in Hs1.
  exists m0, m1, tl1, a. rg_splits; try tauto; congruence.
Qed.

Theorem tx_rewards_manager_requires_signature W t W' i s :
  exec_tx W t = (W', true) -> tx_ixs t = [i] -> i_prog i = KRd -> i_data i = IxRd (RConfigureContributor s) ->
  exists m0 m1 m2 rest cr,
    i_metas i = m0 :: m1 :: m2 :: rest /\ rd_acct W (mkey m1) (DContrib cr) /\ mkey m2 = cr_manager cr /\
    In (cr_manager cr) (tx_signers t) /\ (exists n, cr_manager cr = KUser n) /\ cr_manager cr <> default_key.
Proof.
  intros H Hi Hp Hd. destruct (exec_tx_single_rd _ _ _ _ _ H Hi Hp Hd) as (Hwf & W1 & Hrun & _).
  destruct (rd_rewards_manager_required _ _ _ _ Hrun) as (m0' & m1' & m2' & rest' & cr & Hm & Hc & Hs & Hk).
  cbn [cx_metas] in Hm.
  apply effective_cons in Hm as (m0 & tl0 & Hms & _ & _ & Hm).
  apply effective_cons in Hm as (m1 & tl1 & -> & Hk1 & _ & Hm).
  apply effective_cons in Hm as (m2 & tl2 & -> & Hk2 & Hs2 & _).
  rewrite Hs in Hs2. symmetry in Hs2. apply (msg_signer_user _ _ Hwf) in Hs2.
  rewrite <- Hk2, Hk in Hs2. rewrite Hk1 in Hc.
  exists m0, m1, m2, tl2, cr. rg_splits; try tauto; congruence.
Qed.
(* in particular a freshly initialised contributor (manager = default key) cannot be configured by anybody *)
Corollary tx_default_manager_blocks W t W' i s m0 m1 rest cr :
  tx_ixs t = [i] -> i_prog i = KRd -> i_data i = IxRd (RConfigureContributor s) ->
  i_metas i = m0 :: m1 :: rest -> data (get W (mkey m1)) = DContrib cr -> cr_manager cr = default_key ->
  exec_tx W t = (W', true) -> False.
Proof.
  intros Hi Hp Hd Hm Hdat Hdef H.
  destruct (tx_rewards_manager_requires_signature _ _ _ _ _ H Hi Hp Hd) as (m0' & m1' & m2' & rest' & cr' & Hm' & (_ & Hc) & _ & _ & _ & Hne).
  rewrite Hm in Hm'. injection Hm' as <- <- ->. rewrite Hdat in Hc. injection Hc as <-. contradiction.
Qed.

(* C07 as one statement: a wrong key, a key that did not sign, or an unset (all-zero) role key: nothing changes *)
Corollary tx_unauthorised_changes_nothing W t i ix who m0 m1 rest c :
  tx_ixs t = [i] -> i_prog i = KRd -> i_data i = IxRd ix -> role_of ix = Some who ->
  i_metas i = m0 :: m1 :: rest -> data (get W (mkey m0)) = DConfig c ->
  mkey m1 <> role_key c who \/ ~ In (role_key c who) (tx_signers t) \/ role_key c who = default_key ->
  exec_tx W t = (W, false).
Proof.
  intros Hi Hp Hd Hr Hm Hdat Hbad. destruct (exec_tx W t) as [W' b] eqn:E. destruct b.
  - exfalso. destruct (tx_privileged_requires_signature _ _ _ _ _ _ E Hi Hp Hd Hr)
      as (m0' & m1' & rest' & c' & Hm' & (_ & Hc) & Hk & Hin & _ & Hne).
    rewrite Hm in Hm'. injection Hm' as <- <- <-. rewrite Hdat in Hc. injection Hc as <-.
    destruct Hbad as [Hb|[Hb|Hb]]; contradiction.
  - apply exec_tx_fail_unchanged in E. subst. reflexivity.
Qed.
(* C08 as one statement *)
Corollary tx_paused_changes_nothing W t i ix m0 rest c :
  tx_ixs t = [i] -> i_prog i = KRd -> i_data i = IxRd ix -> pause_exempt ix = false ->
  i_metas i = m0 :: rest -> data (get W (mkey m0)) = DConfig c -> c_paused c = true ->
  exec_tx W t = (W, false).
Proof.
  intros Hi Hp Hd He Hm Hdat Hpa. destruct (exec_tx W t) as [W' b] eqn:E. destruct b.
  - exfalso. destruct (exec_tx_single_rd _ _ _ _ _ E Hi Hp Hd) as (_ & W1 & Hrun & _).
    revert Hrun. apply (rd_paused_fails _ _ _ (mk (mkey m0) (msg_signer t (mkey m0)) (msg_writable t (mkey m0))) (effective t rest) c He).
    + cbn [cx_metas]. rewrite Hm. reflexivity.
    + exact Hdat.
    + exact Hpa.
  - apply exec_tx_fail_unchanged in E. subst. reflexivity.
Qed.

(* ------------------------------------------------------------------------------------------------------------------ *)
(* 5. non-vacuity: concrete successful runs (and the failing neighbours that show the guards bite), by vm_compute       *)

Module Ex.
Definition cfg : rd_config :=
  rd_config_default <| c_admin := KUser 1 |> <| c_debt_accountant := KUser 2 |> <| c_rewards_accountant := KUser 3 |>
    <| c_contributor_manager := KUser 4 |> <| c_swap_program := KRogue 7 |> <| c_next_epoch := 5 |>
    <| c_min_epochs := 1 |> <| c_relay := 10000 |> <| c_calc_grace_min := 1 |> <| c_init_grace_min := 1 |>
    <| c_fees := {| fp_base := 100; fp_priority := 0; fp_inflation := 0; fp_jito := 0; fp_fixed := 0 |} |>
    <| c_burn := mkP 500000000 2 5 400000000 4 100000000 |> <| c_writeoff_activation := 1 |>
    <| c_has_swap_auth_bump := true |> <| c_has_withdraw_bump := true |> <| c_has_swap_dest_bump := true |>.
Definition rd_a (len extra : N) (d : adata) : acct := {| lamports := rent len + extra; owner := KRd; alen := len; data := d |}.
Definition tok_a (own : key) (amt : N) : acct :=
  {| lamports := rent LEN_TOKEN; owner := KToken; alen := LEN_TOKEN;
     data := DToken {| t_mint := KMint; t_owner := own; t_amount := amt |} |}.
Definition wallet (lam : N) : acct := {| lamports := lam; owner := KSystem; alen := 0; data := DEmpty |}.
Definition mkW (l : list (key * acct)) : world := {| accts := l; now := 100 |}.
Definition cxR (ms : list meta) : ctx := {| cx_prog := KRd; cx_metas := ms; cx_height := 1; cx_sibling := None |}.
Definition ro k := mk k false false. Definition wr k := mk k false true.
Definition sg k := mk k true false.  Definition sw k := mk k true true.
Definition run (r : result world) : world := match r with Ok w => w | Err _ => world0 end.

Definition a_cfg := (KRdConfig, rd_a LEN_CONFIG_ALLOC 0 (DConfig cfg)).
Definition a_pd := (KProgData KRd, {| lamports := 1; owner := KLoader; alen := 45; data := DProgData (Some (KUser 9)) |}).
Definition a_mint := (KMint, {| lamports := rent LEN_MINT; owner := KToken; alen := LEN_MINT;
                                data := DMint {| m_supply := 1000000; m_decimals := 8 |} |}).
Definition a_payer := (KUser 100, wallet 1000000000000).
Definition a_dep node extra := (KRdDeposit node, rd_a LEN_DEPOSIT extra (DDeposit {| dp_node := node; dp_written_off := 0 |})).
Definition a_jour := (KRdJournal, rd_a LEN_CONFIG_ALLOC 0 (DJournal (journal_default <| j_next_sweep := 3 |>))).
Definition a_tok (k own : key) (amt : N) := (k, tok_a own amt).

(* one distribution (epoch 3) through its whole life *)
Definition debts := [LDebt (KUser 50) 700; LDebt (KUser 51) 300].
Definition rewards := [LReward (KUser 60) 1000000000 200000000].
Definition d0 : dist := dist_default <| d_epoch := 3 |> <| d_calc_allowed_ts := 10 |> <| d_relay := 10000 |> <| d_cbr := 100000000 |>.
Definition contrib0 := {| cr_manager := KUser 61; cr_service := KUser 60; cr_blocked := false; cr_recipients := [(KUser 70, 10000)] |}.
Definition W2 := mkW [a_cfg; a_pd; (KRdDist 3, rd_a LEN_DIST 0 (DDist d0 [])); a_payer; a_dep (KUser 50) 700; a_dep (KUser 51) 0;
  a_jour; a_mint; a_tok (KTok2z (KRdDist 3)) (KRdDist 3) 0; a_tok (KTok2z KRdSwapAuth) KRdSwapAuth 5000;
  (KUser 80, {| lamports := 1; owner := KRogue 7; alen := 10; data := DScript (Some (RTriple 700 5000 1)) |});
  (KRdContrib (KUser 60), rd_a LEN_CONTRIB 0 (DContrib contrib0)); a_tok (KAta (KUser 70) KMint) (KUser 70) 0].
Definition m_debt := [ro KRdConfig; sg (KUser 2); wr (KRdDist 3); sw (KUser 100); ro KSystem].
Definition W3 := run (rd_configure_debt (cxR m_debt) W2 2 1000 (tree_root PRE_DEBT debts)).
Definition W4 := run (rd_finalize_debt (cxR m_debt) W3).
Definition m_pay := [ro KRdConfig; wr (KRdDist 3); wr (KRdDeposit (KUser 50)); wr KRdJournal].
Definition W6 := run (rd_pay_debt (cxR m_pay) W4 700 (proof_for PRE_DEBT debts 0)).
Definition m_perm := [ro KRdConfig; wr (KRdDist 3); sw (KUser 100); ro KSystem].
Definition W7 := run (rd_enable_write_off (cxR m_perm) W6).
Definition m_wo := [ro KRdConfig; sg (KUser 2); wr (KRdDist 3); wr (KRdDeposit (KUser 51)); wr (KRdDist 3)].
Definition W8 := run (rd_write_off (cxR m_wo) W7 300 (proof_for PRE_DEBT debts 1)).
Definition m_cr := [ro KRdConfig; sg (KUser 3); wr (KRdDist 3)].
Definition W9 := run (rd_configure_rewards (cxR m_cr) W8 1 (tree_root PRE_REWARD rewards)).
Definition W10 := run (rd_finalize_rewards (cxR m_perm) W9).
Definition sib := {| sb_prog := KToken; sb_kind := SibTransferChecked 5000;
                     sb_accounts := [KUser 90; KMint; KTok2z KRdSwapAuth; KUser 91] |}.
Definition cxW ms := {| cx_prog := KRd; cx_metas := ms; cx_height := 2; cx_sibling := Some sib |}.
Definition m_wd := [ro KRdConfig; sg (KWithdrawAuth (KRogue 7)); wr KRdJournal; wr (KUser 92)].
Definition W11 := run (rd_withdraw_sol (cxW m_wd) W10 700).
Definition m_swp := [ro KRdConfig; wr (KRdDist 3); wr KRdJournal; ro (KUser 81); ro (KUser 82); wr (KUser 80); ro (KRogue 7);
   wr (KTok2z (KRdDist 3)); ro KRdSwapAuth; wr (KTok2z KRdSwapAuth); ro KToken].
Definition W13 := run (rd_sweep (cxR m_swp) W11).
Definition m_dr := [ro KRdConfig; wr (KRdDist 3); ro (KRdContrib (KUser 60)); wr (KTok2z (KRdDist 3)); wr KMint; wr (KUser 93);
   ro KToken; wr (KAta (KUser 70) KMint)].
Definition W15 := run (rd_distribute_rewards (cxR m_dr) W13 1000000000 200000000 (proof_for PRE_REWARD rewards 0)).

(* bootstrap from nothing *)
Definition W0 := mkW [a_payer; a_mint].
Definition m_ip := [sw (KUser 100); wr KRdConfig; wr (KTok2z KRdConfig); ro KMint; ro KToken; ro KSystem].
Definition Wi1 := run (rd_initialize_program (cxR m_ip) W0).
Definition m_ij := [sw (KUser 100); wr KRdJournal; wr (KTok2z KRdJournal); ro KMint; ro KToken; ro KSystem].
Definition Wi2 := run (rd_initialize_journal (cxR m_ij) Wi1).
Definition m_isd := [wr KRdConfig; sw (KUser 100); ro KRdSwapAuth; wr (KTok2z KRdSwapAuth); ro KMint; ro KToken; ro KSystem].
Definition Wi3 := run (rd_initialize_swap_destination (cxR m_isd) Wi2).
Definition m_ic := [sw (KUser 100); wr (KRdContrib (KUser 60)); ro KSystem].
Definition m_idp := [wr (KRdDeposit (KUser 50)); sw (KUser 100); ro KSystem].
Definition Wi4 := put Wi3 KRdConfig (get Wi3 KRdConfig <| data := DConfig cfg |>).   (* as if the admin had configured it *)
Definition m_id := [wr KRdConfig; sg (KUser 2); sw (KUser 100); wr (KRdDist 5); wr (KTok2z (KRdDist 5)); ro KMint; ro KToken;
   wr KRdJournal; ro (KTok2z KRdJournal); ro (KAta KRdJournal KMint); ro KSystem].
End Ex.
Import Ex.

(* C07 *)
Example rd_configure_program_guards_nonvacuous :
  is_ok (rd_configure_program (cxR [wr KRdConfig; sg (KUser 1)]) W2 (RSPaused true)) = true /\
  is_ok (rd_configure_program (cxR [wr KRdConfig; ro (KUser 1)]) W2 (RSPaused true)) = false /\      (* no signature *)
  is_ok (rd_configure_program (cxR [wr KRdConfig; sg (KUser 2)]) W2 (RSPaused true)) = false /\      (* wrong key *)
  is_ok (rd_configure_program (cxR [wr KRdConfig; sg KSystem]) (mkW [(KRdConfig, rd_a LEN_CONFIG_ALLOC 0 (DConfig rd_config_default))])
           (RSPaused true)) = true.      (* only a context that claims the all-zero key signed gets past an unset admin *)
Proof. vm_compute. auto. Qed.
Example rd_upgrade_authority_nonvacuous :
  is_ok (rd_set_admin (cxR [ro (KProgData KRd); sg (KUser 9); wr KRdConfig]) W2 (KUser 5)) = true /\
  is_ok (rd_migrate (cxR [ro (KProgData KRd); sg (KUser 9); wr KRdConfig]) W2) = true /\
  is_ok (rd_set_admin (cxR [ro (KProgData KRd); sg (KUser 1); wr KRdConfig]) W2 (KUser 5)) = false.
Proof. vm_compute. auto. Qed.
Example rd_contributor_guards_nonvacuous :
  is_ok (rd_set_rewards_manager (cxR [ro KRdConfig; sg (KUser 4); wr (KRdContrib (KUser 60))]) W2 (KUser 62)) = true /\
  is_ok (rd_configure_contributor (cxR [ro KRdConfig; wr (KRdContrib (KUser 60)); sg (KUser 61)]) W2
           (CSRecipients [(KUser 70, 4000); (KUser 71, 6000)])) = true /\
  is_ok (rd_configure_contributor (cxR [ro KRdConfig; wr (KRdContrib (KUser 60)); sg (KUser 62)]) W2 (CSBlock true)) = false.
Proof. vm_compute. auto. Qed.
(* C04 / C10 / C12 / C05 / C06: the life of one distribution *)
Example rd_debt_guards_nonvacuous :
  is_ok (rd_configure_debt (cxR m_debt) W2 2 1000 (tree_root PRE_DEBT debts)) = true /\
  is_ok (rd_finalize_debt (cxR m_debt) W3) = true /\
  is_ok (rd_finalize_debt (cxR m_debt) W4) = false /\                                            (* already final *)
  is_ok (rd_configure_debt (cxR m_debt) W4 2 1000 (tree_root PRE_DEBT debts)) = false /\
  is_ok (rd_pay_debt (cxR m_pay) W3 700 (proof_for PRE_DEBT debts 0)) = false /\                 (* not yet final *)
  is_ok (rd_pay_debt (cxR m_pay) W4 700 (proof_for PRE_DEBT debts 0)) = true /\
  is_ok (rd_pay_debt (cxR m_pay) W6 700 (proof_for PRE_DEBT debts 0)) = false /\                 (* paid twice *)
  is_ok (rd_verify_root (cxR [ro (KRdDist 3)]) W4 (RKDebt (KUser 51) 300) (proof_for PRE_DEBT debts 1)) = true.
Proof. vm_compute. repeat split. Qed.
Example rd_write_off_guards_nonvacuous :
  is_ok (rd_write_off (cxR m_wo) W6 300 (proof_for PRE_DEBT debts 1)) = false /\                 (* not enabled *)
  is_ok (rd_enable_write_off (cxR m_perm) W6) = true /\
  is_ok (rd_enable_write_off (cxR m_perm) W7) = false /\
  is_ok (rd_write_off (cxR m_wo) W7 300 (proof_for PRE_DEBT debts 1)) = true /\
  is_ok (rd_write_off (cxR m_wo) W8 300 (proof_for PRE_DEBT debts 1)) = false /\                 (* written off twice *)
  is_ok (rd_write_off (cxR m_wo) W7 700 (proof_for PRE_DEBT debts 0)) = false.                   (* already paid *)
Proof. vm_compute. repeat split. Qed.
Example rd_rewards_guards_nonvacuous :
  is_ok (rd_configure_rewards (cxR m_cr) W8 1 (tree_root PRE_REWARD rewards)) = true /\
  is_ok (rd_finalize_rewards (cxR m_perm) W8) = false /\                       (* null root with collectible debt: C12 *)
  is_ok (rd_finalize_rewards (cxR m_perm) W9) = true /\
  is_ok (rd_finalize_rewards (cxR m_perm) W10) = false /\
  is_ok (rd_sweep (cxR m_swp) W9) = false.                                     (* rewards not final *)
Proof. vm_compute. repeat split. Qed.
Example rd_withdraw_sweep_distribute_guards_nonvacuous :
  is_ok (rd_withdraw_sol (cxW m_wd) W10 700) = true /\
  is_ok (rd_withdraw_sol (cxR m_wd) W10 700) = false /\                        (* no sibling transfer_checked *)
  is_ok (rd_withdraw_sol (cxW m_wd) W10 701) = false /\                        (* more than the journal holds *)
  is_ok (rd_sweep (cxR m_swp) W10) = false /\                                  (* nothing swapped yet *)
  is_ok (rd_distribute_rewards (cxR m_dr) W11 1000000000 200000000 (proof_for PRE_REWARD rewards 0)) = false /\  (* not swept *)
  is_ok (rd_sweep (cxR m_swp) W11) = true /\
  is_ok (rd_sweep (cxR m_swp) W13) = false /\
  is_ok (rd_distribute_rewards (cxR m_dr) W13 1000000000 200000000 (proof_for PRE_REWARD rewards 0)) = true /\
  is_ok (rd_distribute_rewards (cxR m_dr) W15 1000000000 200000000 (proof_for PRE_REWARD rewards 0)) = false /\
  data (get W15 (KAta (KUser 70) KMint)) = DToken {| t_mint := KMint; t_owner := KUser 70; t_amount := 4000 |}.
Proof. vm_compute. repeat split. Qed.
(* C09 *)
Example rd_initializers_nonvacuous :
  is_ok (rd_initialize_program (cxR m_ip) W0) = true /\
  is_ok (rd_initialize_program (cxR m_ip) Wi1) = false /\                      (* re-initialisation *)
  is_ok (rd_initialize_journal (cxR m_ij) Wi1) = true /\
  is_ok (rd_initialize_journal (cxR m_ij) Wi2) = false /\
  is_ok (rd_initialize_swap_destination (cxR m_isd) Wi2) = true /\
  is_ok (rd_initialize_swap_destination (cxR m_isd) Wi3) = false /\
  is_ok (rd_initialize_contributor (cxR m_ic) Wi3 (KUser 60)) = true /\
  is_ok (rd_initialize_contributor (cxR m_ic) (run (rd_initialize_contributor (cxR m_ic) Wi3 (KUser 60))) (KUser 60)) = false /\
  is_ok (rd_initialize_deposit (cxR m_idp) Wi3 (KUser 50)) = true /\
  is_ok (rd_initialize_deposit (cxR m_idp) (run (rd_initialize_deposit (cxR m_idp) Wi3 (KUser 50))) (KUser 50)) = false /\
  is_ok (rd_initialize_distribution (cxR m_id) Wi4) = true /\
  c_paused (match data (get Wi1 KRdConfig) with DConfig c => c | _ => rd_config_default end) = true.
Proof. vm_compute. repeat split. Qed.
(* C08: the same calls fail under a paused configuration, the exempt ones do not *)
Definition ex_pause (W : world) : world := put W KRdConfig (get W KRdConfig <| data := DConfig (cfg <| c_paused := true |>) |>).
Example rd_paused_blocks_nonvacuous :
  is_ok (rd_configure_debt (cxR m_debt) (ex_pause W2) 2 1000 (tree_root PRE_DEBT debts)) = false /\
  is_ok (rd_pay_debt (cxR m_pay) (ex_pause W4) 700 (proof_for PRE_DEBT debts 0)) = false /\
  is_ok (rd_withdraw_sol (cxW m_wd) (ex_pause W10) 700) = false /\
  is_ok (rd_sweep (cxR m_swp) (ex_pause W11)) = false /\
  is_ok (rd_configure_program (cxR [wr KRdConfig; sg (KUser 1)]) (ex_pause W2) (RSPaused false)) = true /\
  is_ok (rd_verify_root (cxR [ro (KRdDist 3)]) (ex_pause W4) (RKDebt (KUser 51) 300) (proof_for PRE_DEBT debts 1)) = true /\
  is_ok (rd_initialize_deposit (cxR m_idp) (ex_pause Wi4) (KUser 50)) = true.
Proof. vm_compute. repeat split. Qed.

(* transaction level *)
Definition ex_tx_admin (signers : list key) : tx :=
  {| tx_signers := signers;
     tx_ixs := [{| i_prog := KRd; i_data := IxRd (RConfigureProgram (RSPaused true)); i_metas := [wr KRdConfig; sg (KUser 1)] |}] |}.
Example tx_privileged_requires_signature_nonvacuous :
  snd (exec_tx W2 (ex_tx_admin [KUser 1])) = true /\
  snd (exec_tx W2 (ex_tx_admin [KUser 2])) = false /\
  snd (exec_tx W2 (ex_tx_admin [KUser 1; KSystem])) = false.       (* the all-zero key cannot be among the signers *)
Proof. vm_compute. repeat split. Qed.

(* ------------------------------------------------------------------------------------------------------------------ *)
(* 6. guards the model does NOT imply                                                                                  *)

(* At their use sites the typed state accounts are identified by owner + discriminator only: a forged world that holds
   KRd-owned look-alikes at non-derived addresses passes.  (Such worlds are unreachable: only revenue-distribution can
   write typed data into an account it owns, and it creates them at the canonical addresses only — an invariant of
   reachable worlds, not a guard.) *)
Definition ex_W_forged := mkW [
  (KUser 10, rd_a LEN_CONFIG_ALLOC 0 (DConfig cfg));
  (KUser 11, rd_a (LEN_DIST + 1) 0 (DDist (d0 <| d_debt_final := true |> <| d_debt_root := tree_root PRE_DEBT debts |>
                                           <| d_debt_end := 1 |>) [0]));
  (KUser 12, rd_a LEN_DEPOSIT 700 (DDeposit {| dp_node := KUser 50; dp_written_off := 0 |}));
  (KUser 13, rd_a LEN_CONFIG_ALLOC 0 (DJournal journal_default))].
Lemma rd_use_site_canonical_keys_refuted :
  exists cx W amount p W' m0 m1 m2 m3 rest,
    rd_pay_debt cx W amount p = Ok W' /\ cx_metas cx = m0 :: m1 :: m2 :: m3 :: rest /\
    mkey m0 <> KRdConfig /\ (forall e, mkey m1 <> KRdDist e) /\ (forall n, mkey m2 <> KRdDeposit n) /\ mkey m3 <> KRdJournal.
Proof.
  exists (cxR [ro (KUser 10); wr (KUser 11); wr (KUser 12); wr (KUser 13)]), ex_W_forged, 700, (proof_for PRE_DEBT debts 0).
  eexists (run (rd_pay_debt (cxR [ro (KUser 10); wr (KUser 11); wr (KUser 12); wr (KUser 13)]) ex_W_forged 700 (proof_for PRE_DEBT debts 0))).
  exists (ro (KUser 10)), (wr (KUser 11)), (wr (KUser 12)), (wr (KUser 13)), [].
  split; [vm_compute; reflexivity|]. split; [reflexivity|]. cbn. repeat split; intros; discriminate.
Qed.

(* ==================================================================================================================
   INDEX (Part 2)
   definitions      role_of, needs_upgrade_authority, permissionless, pause_exempt
   C07  rd_privileged_requires_role         Ok, role_of ix = Some who -> m0 config (rd_acct), m1 signer, mkey m1 = role_key c who
        rd_wrong_authority_fails            wrong key or missing signature at m1 -> rd_process <> Ok
        rd_upgrade_authority_required       RSetAdmin / RMigrate: m0 = KProgData KRd holding Some a, m1 signer = a
        rd_rewards_manager_required         RConfigureContributor: m2 signer = cr_manager of the record at m1
        rd_authority_table_total            every instruction is role-gated, upgrade-gated, manager/PDA-gated or permissionless
   C08  rd_paused_blocks                    Ok, pause_exempt ix = false -> the config at m0 has c_paused = false
        rd_paused_fails                     paused config at m0, not exempt -> rd_process <> Ok
   C09  create_account_fails, try_initialize_fails, rd_acct_not_fresh
        rd_reinit_fails                     Ok -> the accounts the initialiser creates were fresh (per instruction)
        rd_reinit_{program,journal,contributor,deposit,distribution,swap_destination}_fails
   tx   exec_tx_fail_unchanged              exec_tx W t = (W', false) -> W' = W
        exec_tx_single_rd                   a successful single RD instruction ran rd_process with `effective` metas; W' = purge W1
        effective_cons, msg_signer_user     signer flag <-> in tx_signers; signers are KUser, never default_key
        tx_privileged_requires_signature    role key of the presented config is in tx_signers, is KUser, <> default_key
        tx_upgrade_authority_requires_signature, tx_rewards_manager_requires_signature, tx_default_manager_blocks
        tx_unauthorised_changes_nothing     wrong key / role key not among the signers / role key = default_key -> exec_tx W t = (W, false)
        tx_paused_changes_nothing           paused config, instruction not exempt -> exec_tx W t = (W, false)
   examples (vm_compute)  rd_configure_program_guards_nonvacuous, rd_upgrade_authority_nonvacuous, rd_contributor_guards_nonvacuous,
        rd_debt_guards_nonvacuous, rd_write_off_guards_nonvacuous, rd_rewards_guards_nonvacuous,
        rd_withdraw_sweep_distribute_guards_nonvacuous, rd_initializers_nonvacuous, rd_paused_blocks_nonvacuous,
        tx_privileged_requires_signature_nonvacuous
   refuted  rd_use_site_canonical_keys_refuted   config / distribution / deposit / journal are NOT key-checked where they are used
   ================================================================================================================== *)
