From DZ Require Import Base Keys Merkle BurnRate Swap_Ring State World Passport Exec Lemmas_Passport.

Definition run_ops (W : world) (ops : list op) : world * list bool :=
  fold_left (fun '(W, rs) o => let '(W', b) := exec_op W o in (W', rs ++ [b])) ops (W, []).

Definition ix1 (signers : list key) (prog : key) (d : ixdata) (ms : list meta) : op :=
  OTx {| tx_signers := signers; tx_ixs := [{| i_prog := prog; i_data := d; i_metas := ms |}] |}.
Definition uA := KUser 1.  (* upgrade authority, then admin *)
Definition uS := KUser 2.  (* sentinel *)
Definition uP := KUser 3.  (* requester *)
Definition svc1 := KUser 77.
Definition att1 := {| at_validator := KUser 50; at_service := svc1; at_sig := 5 |}.
Definition mode1 := AMValidatorWithBackups att1 [KUser 60; KUser 61].
Definition pd_acct := {| lamports := 1141440; owner := KLoader; alen := 36; data := DProgData (Some uA) |}.
Definition op_init := ix1 [uA] KPassport (IxPassport PInitializeProgram) [mk uA true true; mk KPpConfig false true; mk KSystem false false].
Definition op_set_admin := ix1 [uA] KPassport (IxPassport (PSetAdmin uA)) [mk (KProgData KPassport) false false; mk uA true false; mk KPpConfig false true].
Definition op_conf (s : pp_setting) := ix1 [uA] KPassport (IxPassport (PConfigureProgram s)) [mk KPpConfig false true; mk uA true false].
Definition op_request (payer : key) (m : access_mode) :=
  ix1 [payer] KPassport (IxPassport (PRequestAccess m))
    [mk KPpConfig false false; mk payer true true; mk (KPpRequest (access_mode_service m)) false true; mk KSystem false false].
Definition grant_metas (svc ben : key) := [mk KPpConfig false false; mk uS true true; mk (KPpRequest svc) false true; mk ben false true].
Definition op_grant (svc ben : key) := ix1 [uS] KPassport (IxPassport PGrantAccess) (grant_metas svc ben).
Definition op_deny (svc : key) := ix1 [uS] KPassport (IxPassport PDenyAccess) [mk KPpConfig false false; mk uS true true; mk (KPpRequest svc) false true].
Definition setup : list op :=
  [OAirdrop uA 1000000000000; OAirdrop uS 1000000000; OAirdrop uP 1000000000000; OForge (KProgData KPassport) pd_acct;
   op_init; op_set_admin; op_conf (PSSentinel uS); op_conf (PSAccessRequestDeposit 10000000 5000); op_conf (PSBackupIdsLimit 2)].
Definition W_setup := fst (run_ops world0 setup).
Eval vm_compute in snd (run_ops world0 setup).
Eval vm_compute in snd (run_ops W_setup [op_request uP mode1; op_conf (PSAccessRequestDeposit 20 7); op_grant svc1 uP]).
Eval vm_compute in map (fun k => lamports (get (fst (run_ops W_setup [op_request uP mode1; op_conf (PSAccessRequestDeposit 20 7); op_grant svc1 uP])) k)) [uA; uS; uP; KPpRequest svc1; KPpConfig].
(* double grant in one tx *)
Definition op_grant2 (svc ben : key) :=
  OTx {| tx_signers := [uS]; tx_ixs := [{| i_prog := KPassport; i_data := IxPassport PGrantAccess; i_metas := grant_metas svc ben |};
                                        {| i_prog := KPassport; i_data := IxPassport PGrantAccess; i_metas := grant_metas svc ben |}] |}.
Eval vm_compute in snd (run_ops W_setup [op_request uP mode1; op_grant2 svc1 uP]).
Eval vm_compute in map (fun k => lamports (get (fst (run_ops W_setup [op_request uP mode1])) k)) [uA; uS; uP; KPpRequest svc1; KPpConfig].
Eval vm_compute in map (fun k => lamports (get (fst (run_ops W_setup [op_request uP mode1; op_grant2 svc1 uP])) k)) [uA; uS; uP; KPpRequest svc1; KPpConfig].
(* payer = request PDA *)
Definition rk1 := KPpRequest svc1.
Definition op_request_self (m : access_mode) :=
  ix1 [uP] KPassport (IxPassport (PRequestAccess m))
    [mk KPpConfig false false; mk (KPpRequest (access_mode_service m)) false true; mk (KPpRequest (access_mode_service m)) false true; mk KSystem false false].
Eval vm_compute in snd (run_ops W_setup [OAirdrop rk1 50000000; op_request_self mode1; op_grant svc1 rk1]).
Eval vm_compute in map (fun k => get (fst (run_ops W_setup [OAirdrop rk1 50000000; op_request_self mode1; op_grant svc1 rk1])) k) [uS; rk1].
