From DZ Require Import Base Keys Merkle BurnRate Swap_Ring State World Passport Exec Lemmas_Passport.

(* ------------------------------------------------------------------------------------------------------------- *)
(* 7. exact functional specifications with frame (C17)                                                             *)
(* ------------------------------------------------------------------------------------------------------------- *)
Definition lam_request (c : pp_config) : N := sat_add two64 (pc_deposit c) (rent LEN_ACCESS_REQ).

(* RequestAccess.  The request account ends up with max(current, rent + deposit) lamports, owned by the program, of the
   AccessRequest size, remembering service key, payer and the fee in force; the payer (account 1) loses exactly the
   shortfall; every other account is untouched. *)
Lemma pp_request_access_spec cx W mode W' :
  pp_request_access cx W mode = Ok W' ->
  let svc := access_mode_service mode in
  let rk := KPpRequest svc in
  let payer := nthk (cx_metas cx) 1 in
  exists c, is_pp_config W (nthk (cx_metas cx) 0) c /\
    let short := lam_request c - lamports (get W rk) in
    short <= lamports (get W payer) /\ (short <> 0 -> payer <> rk /\ is_signer (cx_metas cx) payer = true) /\
    now W' = now W /\
    forall k, get W' k =
      if key_eqb k rk then
        {| lamports := N.max (lamports (get W rk)) (lam_request c); owner := KPassport; alen := LEN_ACCESS_REQ;
           data := DAccessReq {| ar_service := svc; ar_beneficiary := payer; ar_fee := pc_fee c; ar_mode := mode |} |}
      else if key_eqb k payer then get W k <| lamports := lamports (get W k) - short |>
      else get W k.
Proof.
  intros H. apply pp_request_access_ok in H. cbn zeta in *.
  destruct H as (m0 & m1 & m2 & rest & c & Hms & _ & _ & Ho & Hd & _ & _ & _ & _ & _ & _ & _ & _ & _ & Hle & Hsig & Hnow & Hpt).
  rewrite Hms, nthk_0, nthk_1. exists c. unfold is_pp_config, lam_request, shortfall in *. split; [auto|].
  set (rk := KPpRequest (access_mode_service mode)) in *.
  set (short := sat_add two64 (pc_deposit c) (rent LEN_ACCESS_REQ) - lamports (get W rk)) in *.
  split; [assumption|]. split; [intros Hs; destruct (Hsig Hs) as (? & ? & ?); auto|]. Show. split; [assumption|].
  intros k. destruct (Hpt k) as (Hx & Hy). case_key k rk.
  - destruct Hx as (Hx1 & Hx2 & Hx3). apply acct_ext; [|repeat split; assumption]. cbn [lamports]. rewrite Hy.
    case_key rk (mkey m1).
    + assert (short = 0) by (destruct (N.eq_dec short 0) as [|Hs]; [assumption|destruct (Hsig Hs) as (_ & _ & Hc); congruence]).
      unfold short in *. lia.
    + unfold short. lia.
  - case_key k (mkey m1).
    + apply acct_ext; [rewrite set_lamports_lam, Hy; lia|]. eapply same_meta_trans; [exact Hx|]. destruct (get W (mkey m1)); repeat split.
    + apply acct_ext; [rewrite Hy; lia|assumption].
Qed.

(* GrantAccess.  Request account (2) zeroed, sentinel (1) + remembered fee, remembered beneficiary (3) + (balance - fee),
   additively, so every aliasing between the three is covered; every other account, and all owners / data, untouched. *)
Lemma pp_grant_access_spec cx W W' :
  pp_grant_access cx W = Ok W' ->
  let rk := nthk (cx_metas cx) 2 in
  exists c r, is_pp_config W (nthk (cx_metas cx) 0) c /\ is_pp_request W rk r /\
    nthk (cx_metas cx) 1 = pc_sentinel c /\ nthk (cx_metas cx) 3 = ar_beneficiary r /\
    let bal := lamports (get W rk) in
    now W' = now W /\
    forall k, get W' k = get W k <| lamports :=
        (if key_eqb k rk then 0 else lamports (get W k)) + (if key_eqb k (pc_sentinel c) then ar_fee r else 0)
        + (if key_eqb k (ar_beneficiary r) then bal - ar_fee r else 0) |>.
Proof.
  intros H. apply pp_grant_access_ok in H. cbn zeta in *.
  destruct H as (m0 & m1 & m2 & m3 & rest & c & r & Hms & Ho & Hd & _ & Hk & _ & Hor & Hdr & Hb & _ & _ & _ & Hnow & Hpt).
  rewrite Hms, nthk_0, nthk_1, nthk_2, nthk_3. exists c, r. unfold is_pp_config, is_pp_request.
  repeat (split; [assumption|]). intros k. destruct (Hpt k) as (Hx & Hy). rewrite <- Hk, <- Hb.
  apply acct_ext; [rewrite set_lamports_lam; exact Hy|]. eapply same_meta_trans; [exact Hx|]. destruct (get W k); repeat split.
Qed.

(* DenyAccess.  Request account zeroed, sentinel + the entire balance. *)
Lemma pp_deny_access_spec cx W W' :
  pp_deny_access cx W = Ok W' ->
  let rk := nthk (cx_metas cx) 2 in
  exists c r, is_pp_config W (nthk (cx_metas cx) 0) c /\ is_pp_request W rk r /\ nthk (cx_metas cx) 1 = pc_sentinel c /\
    now W' = now W /\
    forall k, get W' k = get W k <| lamports :=
        (if key_eqb k rk then 0 else lamports (get W k)) + (if key_eqb k (pc_sentinel c) then lamports (get W rk) else 0) |>.
Proof.
  intros H. apply pp_deny_access_ok in H. cbn zeta in *.
  destruct H as (m0 & m1 & m2 & rest & c & r & Hms & Ho & Hd & _ & Hk & _ & Hor & Hdr & _ & Hnow & Hpt).
  rewrite Hms, nthk_0, nthk_1, nthk_2. exists c, r. unfold is_pp_config, is_pp_request.
  repeat (split; [assumption|]). intros k. destruct (Hpt k) as (Hx & Hy). rewrite <- Hk.
  apply acct_ext; [rewrite set_lamports_lam; exact Hy|]. eapply same_meta_trans; [exact Hx|]. destruct (get W k); repeat split.
Qed.

(* readable consequences for the non-aliased and the aliased cases *)
Lemma pp_grant_access_amounts cx W W' :
  pp_grant_access cx W = Ok W' ->
  exists c r, is_pp_config W (nthk (cx_metas cx) 0) c /\ is_pp_request W (nthk (cx_metas cx) 2) r /\
    let rk := nthk (cx_metas cx) 2 in let s := pc_sentinel c in let b := ar_beneficiary r in
    let bal := lamports (get W rk) in let fee := ar_fee r in
    (s <> rk -> b <> rk -> lamports (get W' rk) = 0) /\
    (s <> rk -> s <> b -> lamports (get W' s) = lamports (get W s) + fee) /\
    (b <> rk -> s <> b -> lamports (get W' b) = lamports (get W b) + (bal - fee)) /\
    (s <> rk -> s = b -> lamports (get W' s) = lamports (get W s) + fee + (bal - fee)) /\
    (forall k, k <> rk -> k <> s -> k <> b -> get W' k = get W k) /\
    (forall k, owner (get W' k) = owner (get W k) /\ alen (get W' k) = alen (get W k) /\ data (get W' k) = data (get W k)).
Proof.
  intros H. apply pp_grant_access_spec in H. cbn zeta in *. destruct H as (c & r & Hc & Hr & _ & _ & _ & Hpt).
  exists c, r. split; [assumption|]. split; [assumption|].
  set (rk := nthk (cx_metas cx) 2) in *.
  repeat split; intros; rewrite Hpt; rewrite ?set_lamports_lam;
    rewrite ?key_eqb_refl, ?(key_eqb_neq rk (pc_sentinel c)), ?(key_eqb_neq rk (ar_beneficiary r)),
            ?(key_eqb_neq (pc_sentinel c) rk), ?(key_eqb_neq (ar_beneficiary r) rk),
            ?(key_eqb_neq (pc_sentinel c) (ar_beneficiary r)), ?(key_eqb_neq (ar_beneficiary r) (pc_sentinel c)) by congruence;
    try lia.
  - subst. rewrite ?key_eqb_refl. lia.
  - rewrite !key_eqb_neq by assumption. destruct (get W k); cbn. f_equal. lia.
  - destruct (get W k); reflexivity.
  - destruct (get W k); reflexivity.
  - destruct (get W k); reflexivity.
Qed.
