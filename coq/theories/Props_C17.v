(* C17 - passport deposits are conserved: fee to sentinel, remainder only to requester.  Property theorems only. *)
From DZ Require Import Base Keys Merkle BurnRate Swap_Ring State World Passport Exec Lemmas_Passport.

(* An access request leaves the account unique to the service key (KPpRequest svc) owned by the program, of AccessRequest size,
   holding max(current, rent minimum + deposit) lamports and remembering service key, requester (account 1) and the fee in force;
   the shortfall is taken from the requester, who must have signed when it is non-zero, and every other account is unchanged.
   Processor level: every world, every context. *)
Theorem C17_request_access_spec :
  forall cx W mode W',
  pp_request_access cx W mode = Ok W' ->
  let svc := access_mode_service mode in
  let rk := KPpRequest svc in
  let payer := nthk (cx_metas cx) 1 in
  exists c, is_pp_config W (nthk (cx_metas cx) 0) c /\
    let short := lam_request c - lamports (get W rk) in
    short <= lamports (get W payer) /\ (short <> 0 -> payer <> rk /\ is_signer (cx_metas cx) payer = true) /\
    now W' = now W /\
    forall k, get W' k =
      if key_eqb k rk then
        {| lamports := N.max (lamports (get W rk)) (lam_request c); owner := KPassport; alen := LEN_ACCESS_REQ;
           data := DAccessReq {| ar_service := svc; ar_beneficiary := payer; ar_fee := pc_fee c; ar_mode := mode |} |}
      else if key_eqb k payer then get W k <| lamports := lamports (get W k) - short |>
      else get W k.
Proof. exact pp_request_access_spec. Qed.
Check C17_request_access_spec :
  forall cx W mode W',
  pp_request_access cx W mode = Ok W' ->
  let svc := access_mode_service mode in
  let rk := KPpRequest svc in
  let payer := nthk (cx_metas cx) 1 in
  exists c, is_pp_config W (nthk (cx_metas cx) 0) c /\
    let short := lam_request c - lamports (get W rk) in
    short <= lamports (get W payer) /\ (short <> 0 -> payer <> rk /\ is_signer (cx_metas cx) payer = true) /\
    now W' = now W /\
    forall k, get W' k =
      if key_eqb k rk then
        {| lamports := N.max (lamports (get W rk)) (lam_request c); owner := KPassport; alen := LEN_ACCESS_REQ;
           data := DAccessReq {| ar_service := svc; ar_beneficiary := payer; ar_fee := pc_fee c; ar_mode := mode |} |}
      else if key_eqb k payer then get W k <| lamports := lamports (get W k) - short |>
      else get W k.
Print Assumptions C17_request_access_spec.

(* The same for a whole transaction (after the end-of-transaction purge), with the guards. *)
Theorem C17_request_access_tx :
  forall W t W' mode ms,
  exec_tx W t = (W', true) -> pp_tx t (PRequestAccess mode) ms ->
  let svc := access_mode_service mode in let rk := KPpRequest svc in let payer := nthk ms 1 in
  exists c, is_pp_config W (nthk ms 0) c /\ nthk ms 2 = rk /\
    pc_paused c = false /\ pc_request_paused c = false /\ pc_deposit c <> 0 /\ svc <> default_key /\
    match mode with AMValidator _ => True | AMValidatorWithBackups _ b => b <> [] /\ N.of_nat (length b) <= pc_backup_limit c end /\
    alen (get W rk) = 0 /\ owner (get W rk) = KSystem /\
    let short := lam_request c - lamports (get W rk) in
    (short <> 0 -> In payer (tx_signers t) /\ payer <> rk) /\
    get W' rk = {| lamports := N.max (lamports (get W rk)) (lam_request c); owner := KPassport; alen := LEN_ACCESS_REQ;
                   data := DAccessReq {| ar_service := svc; ar_beneficiary := payer; ar_fee := pc_fee c; ar_mode := mode |} |} /\
    (payer <> rk -> lamports (get W' payer) = lamports (get W payer) - short /\ short <= lamports (get W payer)) /\
    (forall k, k <> rk -> k <> payer -> lamports (get W k) <> 0 -> get W' k = get W k).
Proof. exact tx_request_access. Qed.
Check C17_request_access_tx :
  forall W t W' mode ms,
  exec_tx W t = (W', true) -> pp_tx t (PRequestAccess mode) ms ->
  let svc := access_mode_service mode in let rk := KPpRequest svc in let payer := nthk ms 1 in
  exists c, is_pp_config W (nthk ms 0) c /\ nthk ms 2 = rk /\
    pc_paused c = false /\ pc_request_paused c = false /\ pc_deposit c <> 0 /\ svc <> default_key /\
    match mode with AMValidator _ => True | AMValidatorWithBackups _ b => b <> [] /\ N.of_nat (length b) <= pc_backup_limit c end /\
    alen (get W rk) = 0 /\ owner (get W rk) = KSystem /\
    let short := lam_request c - lamports (get W rk) in
    (short <> 0 -> In payer (tx_signers t) /\ payer <> rk) /\
    get W' rk = {| lamports := N.max (lamports (get W rk)) (lam_request c); owner := KPassport; alen := LEN_ACCESS_REQ;
                   data := DAccessReq {| ar_service := svc; ar_beneficiary := payer; ar_fee := pc_fee c; ar_mode := mode |} |} /\
    (payer <> rk -> lamports (get W' payer) = lamports (get W payer) - short /\ short <= lamports (get W payer)) /\
    (forall k, k <> rk -> k <> payer -> lamports (get W k) <> 0 -> get W' k = get W k).
Print Assumptions C17_request_access_tx.

(* A service key has at most one pending request: once the request address is allocated or assigned (in particular while it
   holds an AccessRequest), RequestAccess for that service key fails; distinct service keys have distinct addresses. *)
Theorem C17_one_pending_per_service_key :
  forall cx W mode,
  alen (get W (KPpRequest (access_mode_service mode))) <> 0 \/ owner (get W (KPpRequest (access_mode_service mode))) <> KSystem ->
  is_ok (pp_request_access cx W mode) = false.
Proof. exact one_pending_per_service_key. Qed.
Check C17_one_pending_per_service_key :
  forall cx W mode,
  alen (get W (KPpRequest (access_mode_service mode))) <> 0 \/ owner (get W (KPpRequest (access_mode_service mode))) <> KSystem ->
  is_ok (pp_request_access cx W mode) = false.
Print Assumptions C17_one_pending_per_service_key.


Theorem C17_one_pending_per_service_key_request :
  forall cx W mode r,
  is_pp_request W (KPpRequest (access_mode_service mode)) r -> is_ok (pp_request_access cx W mode) = false.
Proof. exact one_pending_per_service_key_request. Qed.
Check C17_one_pending_per_service_key_request :
  forall cx W mode r,
  is_pp_request W (KPpRequest (access_mode_service mode)) r -> is_ok (pp_request_access cx W mode) = false.
Print Assumptions C17_one_pending_per_service_key_request.


Theorem C17_request_address_injective :
  forall s1 s2,
 KPpRequest s1 = KPpRequest s2 -> s1 = s2.
Proof. exact request_address_injective. Qed.
Check C17_request_address_injective :
  forall s1 s2,
 KPpRequest s1 = KPpRequest s2 -> s1 = s2.
Print Assumptions C17_request_address_injective.

(* GrantAccess, processor level: request account zeroed, sentinel + remembered fee, remembered requester + (balance - fee)
   (N subtraction saturates), additively so that sentinel = requester is covered; neither may alias the request account;
   owners, sizes, data and every other account unchanged. *)
Theorem C17_grant_access_spec :
  forall cx W W',
  pp_grant_access cx W = Ok W' ->
  let rk := nthk (cx_metas cx) 2 in
  exists c r, is_pp_config W (nthk (cx_metas cx) 0) c /\ is_pp_request W rk r /\
    nthk (cx_metas cx) 1 = pc_sentinel c /\ nthk (cx_metas cx) 3 = ar_beneficiary r /\
    pc_sentinel c <> rk /\ ar_beneficiary r <> rk /\
    let bal := lamports (get W rk) in
    now W' = now W /\
    forall k, get W' k = get W k <| lamports :=
        (if key_eqb k rk then 0 else lamports (get W k)) + (if key_eqb k (pc_sentinel c) then ar_fee r else 0)
        + (if key_eqb k (ar_beneficiary r) then bal - ar_fee r else 0) |>.
Proof. exact pp_grant_access_spec. Qed.
Check C17_grant_access_spec :
  forall cx W W',
  pp_grant_access cx W = Ok W' ->
  let rk := nthk (cx_metas cx) 2 in
  exists c r, is_pp_config W (nthk (cx_metas cx) 0) c /\ is_pp_request W rk r /\
    nthk (cx_metas cx) 1 = pc_sentinel c /\ nthk (cx_metas cx) 3 = ar_beneficiary r /\
    pc_sentinel c <> rk /\ ar_beneficiary r <> rk /\
    let bal := lamports (get W rk) in
    now W' = now W /\
    forall k, get W' k = get W k <| lamports :=
        (if key_eqb k rk then 0 else lamports (get W k)) + (if key_eqb k (pc_sentinel c) then ar_fee r else 0)
        + (if key_eqb k (ar_beneficiary r) then bal - ar_fee r else 0) |>.
Print Assumptions C17_grant_access_spec.


Theorem C17_grant_access_amounts :
  forall cx W W',
  pp_grant_access cx W = Ok W' ->
  exists c r, is_pp_config W (nthk (cx_metas cx) 0) c /\ is_pp_request W (nthk (cx_metas cx) 2) r /\
    let rk := nthk (cx_metas cx) 2 in let s := pc_sentinel c in let b := ar_beneficiary r in
    let bal := lamports (get W rk) in let fee := ar_fee r in
    s <> rk /\ b <> rk /\
    lamports (get W' rk) = 0 /\
    (s <> b -> lamports (get W' s) = lamports (get W s) + fee) /\
    (s <> b -> lamports (get W' b) = lamports (get W b) + (bal - fee)) /\
    (s = b -> lamports (get W' s) = lamports (get W s) + fee + (bal - fee)) /\
    (forall k, k <> rk -> k <> s -> k <> b -> get W' k = get W k) /\
    (forall k, owner (get W' k) = owner (get W k) /\ alen (get W' k) = alen (get W k) /\ data (get W' k) = data (get W k)).
Proof. exact pp_grant_access_amounts. Qed.
Check C17_grant_access_amounts :
  forall cx W W',
  pp_grant_access cx W = Ok W' ->
  exists c r, is_pp_config W (nthk (cx_metas cx) 0) c /\ is_pp_request W (nthk (cx_metas cx) 2) r /\
    let rk := nthk (cx_metas cx) 2 in let s := pc_sentinel c in let b := ar_beneficiary r in
    let bal := lamports (get W rk) in let fee := ar_fee r in
    s <> rk /\ b <> rk /\
    lamports (get W' rk) = 0 /\
    (s <> b -> lamports (get W' s) = lamports (get W s) + fee) /\
    (s <> b -> lamports (get W' b) = lamports (get W b) + (bal - fee)) /\
    (s = b -> lamports (get W' s) = lamports (get W s) + fee + (bal - fee)) /\
    (forall k, k <> rk -> k <> s -> k <> b -> get W' k = get W k) /\
    (forall k, owner (get W' k) = owner (get W k) /\ alen (get W' k) = alen (get W k) /\ data (get W' k) = data (get W k)).
Print Assumptions C17_grant_access_amounts.

(* DenyAccess, processor level: request account zeroed, sentinel + the entire balance, nobody else changes. *)
Theorem C17_deny_access_spec :
  forall cx W W',
  pp_deny_access cx W = Ok W' ->
  let rk := nthk (cx_metas cx) 2 in
  exists c r, is_pp_config W (nthk (cx_metas cx) 0) c /\ is_pp_request W rk r /\ nthk (cx_metas cx) 1 = pc_sentinel c /\
    pc_sentinel c <> rk /\ now W' = now W /\
    forall k, get W' k = get W k <| lamports :=
        (if key_eqb k rk then 0 else lamports (get W k)) + (if key_eqb k (pc_sentinel c) then lamports (get W rk) else 0) |>.
Proof. exact pp_deny_access_spec. Qed.
Check C17_deny_access_spec :
  forall cx W W',
  pp_deny_access cx W = Ok W' ->
  let rk := nthk (cx_metas cx) 2 in
  exists c r, is_pp_config W (nthk (cx_metas cx) 0) c /\ is_pp_request W rk r /\ nthk (cx_metas cx) 1 = pc_sentinel c /\
    pc_sentinel c <> rk /\ now W' = now W /\
    forall k, get W' k = get W k <| lamports :=
        (if key_eqb k rk then 0 else lamports (get W k)) + (if key_eqb k (pc_sentinel c) then lamports (get W rk) else 0) |>.
Print Assumptions C17_deny_access_spec.


Theorem C17_deny_access_amounts :
  forall cx W W',
  pp_deny_access cx W = Ok W' ->
  exists c r, is_pp_config W (nthk (cx_metas cx) 0) c /\ is_pp_request W (nthk (cx_metas cx) 2) r /\
    let rk := nthk (cx_metas cx) 2 in let s := pc_sentinel c in
    s <> rk /\ lamports (get W' rk) = 0 /\ lamports (get W' s) = lamports (get W s) + lamports (get W rk) /\
    (forall k, k <> rk -> k <> s -> get W' k = get W k) /\
    (forall k, owner (get W' k) = owner (get W k) /\ alen (get W' k) = alen (get W k) /\ data (get W' k) = data (get W k)).
Proof. exact pp_deny_access_amounts. Qed.
Check C17_deny_access_amounts :
  forall cx W W',
  pp_deny_access cx W = Ok W' ->
  exists c r, is_pp_config W (nthk (cx_metas cx) 0) c /\ is_pp_request W (nthk (cx_metas cx) 2) r /\
    let rk := nthk (cx_metas cx) 2 in let s := pc_sentinel c in
    s <> rk /\ lamports (get W' rk) = 0 /\ lamports (get W' s) = lamports (get W s) + lamports (get W rk) /\
    (forall k, k <> rk -> k <> s -> get W' k = get W k) /\
    (forall k, owner (get W' k) = owner (get W k) /\ alen (get W' k) = alen (get W k) /\ data (get W' k) = data (get W k)).
Print Assumptions C17_deny_access_amounts.

(* Lamports are conserved over any duplicate-free key set containing the accounts involved.  For GrantAccess the processor
   alone conserves iff the remembered fee does not exceed the balance (exact accounting below); the instruction frame and
   the transaction enforce it (C17_grant_access_tx). *)
Theorem C17_request_access_conserves :
  forall cx W mode W' ks,
  pp_request_access cx W mode = Ok W' -> NoDup ks ->
  In (nthk (cx_metas cx) 1) ks -> In (KPpRequest (access_mode_service mode)) ks -> total W' ks = total W ks.
Proof. exact pp_request_access_conserves. Qed.
Check C17_request_access_conserves :
  forall cx W mode W' ks,
  pp_request_access cx W mode = Ok W' -> NoDup ks ->
  In (nthk (cx_metas cx) 1) ks -> In (KPpRequest (access_mode_service mode)) ks -> total W' ks = total W ks.
Print Assumptions C17_request_access_conserves.


Theorem C17_grant_access_accounting :
  forall cx W W' ks,
  pp_grant_access cx W = Ok W' -> NoDup ks ->
  exists c r, is_pp_config W (nthk (cx_metas cx) 0) c /\ is_pp_request W (nthk (cx_metas cx) 2) r /\
    (In (nthk (cx_metas cx) 2) ks -> In (pc_sentinel c) ks -> In (ar_beneficiary r) ks ->
     total W' ks + lamports (get W (nthk (cx_metas cx) 2)) =
     total W ks + ar_fee r + (lamports (get W (nthk (cx_metas cx) 2)) - ar_fee r)).
Proof. exact pp_grant_access_accounting. Qed.
Check C17_grant_access_accounting :
  forall cx W W' ks,
  pp_grant_access cx W = Ok W' -> NoDup ks ->
  exists c r, is_pp_config W (nthk (cx_metas cx) 0) c /\ is_pp_request W (nthk (cx_metas cx) 2) r /\
    (In (nthk (cx_metas cx) 2) ks -> In (pc_sentinel c) ks -> In (ar_beneficiary r) ks ->
     total W' ks + lamports (get W (nthk (cx_metas cx) 2)) =
     total W ks + ar_fee r + (lamports (get W (nthk (cx_metas cx) 2)) - ar_fee r)).
Print Assumptions C17_grant_access_accounting.


Theorem C17_grant_access_conserves :
  forall cx W W' ks,
  pp_grant_access cx W = Ok W' -> NoDup ks ->
  exists c r, is_pp_config W (nthk (cx_metas cx) 0) c /\ is_pp_request W (nthk (cx_metas cx) 2) r /\
    (In (nthk (cx_metas cx) 2) ks -> In (pc_sentinel c) ks -> In (ar_beneficiary r) ks ->
     ar_fee r <= lamports (get W (nthk (cx_metas cx) 2)) -> total W' ks = total W ks).
Proof. exact pp_grant_access_conserves. Qed.
Check C17_grant_access_conserves :
  forall cx W W' ks,
  pp_grant_access cx W = Ok W' -> NoDup ks ->
  exists c r, is_pp_config W (nthk (cx_metas cx) 0) c /\ is_pp_request W (nthk (cx_metas cx) 2) r /\
    (In (nthk (cx_metas cx) 2) ks -> In (pc_sentinel c) ks -> In (ar_beneficiary r) ks ->
     ar_fee r <= lamports (get W (nthk (cx_metas cx) 2)) -> total W' ks = total W ks).
Print Assumptions C17_grant_access_conserves.


Theorem C17_deny_access_conserves :
  forall cx W W' ks,
  pp_deny_access cx W = Ok W' -> NoDup ks ->
  exists c, is_pp_config W (nthk (cx_metas cx) 0) c /\
    (In (nthk (cx_metas cx) 2) ks -> In (pc_sentinel c) ks -> total W' ks = total W ks).
Proof. exact pp_deny_access_conserves. Qed.
Check C17_deny_access_conserves :
  forall cx W W' ks,
  pp_deny_access cx W = Ok W' -> NoDup ks ->
  exists c, is_pp_config W (nthk (cx_metas cx) 0) c /\
    (In (nthk (cx_metas cx) 2) ks -> In (pc_sentinel c) ks -> total W' ks = total W ks).
Print Assumptions C17_deny_access_conserves.

(* GrantAccess as an instruction frame (processor + the runtime's balance check), any stack height, any position in any
   transaction: the fee never exceeds the balance, the amounts are exact. *)
Theorem C17_grant_access_frame :
  forall ms h sib W W',
  exec_data KPassport (IxPassport PGrantAccess) ms h sib W = Ok W' ->
  exists c r, is_pp_config W (nthk ms 0) c /\ is_pp_request W (nthk ms 2) r /\
    let rk := nthk ms 2 in let s := pc_sentinel c in let b := ar_beneficiary r in
    let bal := lamports (get W rk) in let fee := ar_fee r in
    nthk ms 1 = s /\ nthk ms 3 = b /\ is_signer ms s = true /\ pc_paused c = false /\
    fee <= bal /\ s <> rk /\ b <> rk /\
    lamports (get W' rk) = 0 /\
    (s <> b -> lamports (get W' s) = lamports (get W s) + fee /\ lamports (get W' b) = lamports (get W b) + (bal - fee)) /\
    (s = b -> lamports (get W' s) = lamports (get W s) + bal) /\
    (forall k, k <> rk -> k <> s -> k <> b -> get W' k = get W k) /\
    (forall k, owner (get W' k) = owner (get W k) /\ alen (get W' k) = alen (get W k) /\ data (get W' k) = data (get W k)).
Proof. exact exec_grant_access. Qed.
Check C17_grant_access_frame :
  forall ms h sib W W',
  exec_data KPassport (IxPassport PGrantAccess) ms h sib W = Ok W' ->
  exists c r, is_pp_config W (nthk ms 0) c /\ is_pp_request W (nthk ms 2) r /\
    let rk := nthk ms 2 in let s := pc_sentinel c in let b := ar_beneficiary r in
    let bal := lamports (get W rk) in let fee := ar_fee r in
    nthk ms 1 = s /\ nthk ms 3 = b /\ is_signer ms s = true /\ pc_paused c = false /\
    fee <= bal /\ s <> rk /\ b <> rk /\
    lamports (get W' rk) = 0 /\
    (s <> b -> lamports (get W' s) = lamports (get W s) + fee /\ lamports (get W' b) = lamports (get W b) + (bal - fee)) /\
    (s = b -> lamports (get W' s) = lamports (get W s) + bal) /\
    (forall k, k <> rk -> k <> s -> k <> b -> get W' k = get W k) /\
    (forall k, owner (get W' k) = owner (get W k) /\ alen (get W' k) = alen (get W k) /\ data (get W' k) = data (get W k)).
Print Assumptions C17_grant_access_frame.

(* A successful GrantAccess transaction: the sentinel signed, is paid exactly the remembered fee, the remembered requester
   receives the entire remainder, the request account is removed, nobody else changes, lamports are conserved. *)
Theorem C17_grant_access_tx :
  forall W t W' ms,
  exec_tx W t = (W', true) -> pp_tx t PGrantAccess ms ->
  exists c r, is_pp_config W (nthk ms 0) c /\ is_pp_request W (nthk ms 2) r /\
    let rk := nthk ms 2 in let s := pc_sentinel c in let b := ar_beneficiary r in
    let bal := lamports (get W rk) in let fee := ar_fee r in
    nthk ms 1 = s /\ nthk ms 3 = b /\ In s (tx_signers t) /\ pc_paused c = false /\ fee <= bal /\ s <> rk /\ b <> rk /\
    get W' rk = empty_acct /\
    (s <> b -> lamports (get W' s) = lamports (get W s) + fee /\ lamports (get W' b) = lamports (get W b) + (bal - fee)) /\
    (s = b -> lamports (get W' s) = lamports (get W s) + bal) /\
    (forall k, k <> rk -> k <> s -> k <> b -> lamports (get W k) <> 0 -> get W' k = get W k) /\
    (forall ks, NoDup ks -> In rk ks -> In s ks -> In b ks -> total W' ks = total W ks).
Proof. exact tx_grant_access. Qed.
Check C17_grant_access_tx :
  forall W t W' ms,
  exec_tx W t = (W', true) -> pp_tx t PGrantAccess ms ->
  exists c r, is_pp_config W (nthk ms 0) c /\ is_pp_request W (nthk ms 2) r /\
    let rk := nthk ms 2 in let s := pc_sentinel c in let b := ar_beneficiary r in
    let bal := lamports (get W rk) in let fee := ar_fee r in
    nthk ms 1 = s /\ nthk ms 3 = b /\ In s (tx_signers t) /\ pc_paused c = false /\ fee <= bal /\ s <> rk /\ b <> rk /\
    get W' rk = empty_acct /\
    (s <> b -> lamports (get W' s) = lamports (get W s) + fee /\ lamports (get W' b) = lamports (get W b) + (bal - fee)) /\
    (s = b -> lamports (get W' s) = lamports (get W s) + bal) /\
    (forall k, k <> rk -> k <> s -> k <> b -> lamports (get W k) <> 0 -> get W' k = get W k) /\
    (forall ks, NoDup ks -> In rk ks -> In s ks -> In b ks -> total W' ks = total W ks).
Print Assumptions C17_grant_access_tx.

(* A successful DenyAccess transaction: the sentinel signed and receives the entire balance; the request account is removed. *)
Theorem C17_deny_access_tx :
  forall W t W' ms,
  exec_tx W t = (W', true) -> pp_tx t PDenyAccess ms ->
  exists c r, is_pp_config W (nthk ms 0) c /\ is_pp_request W (nthk ms 2) r /\
    let rk := nthk ms 2 in let s := pc_sentinel c in
    nthk ms 1 = s /\ In s (tx_signers t) /\ pc_paused c = false /\ s <> rk /\
    get W' rk = empty_acct /\ lamports (get W' s) = lamports (get W s) + lamports (get W rk) /\
    (forall k, k <> rk -> k <> s -> lamports (get W k) <> 0 -> get W' k = get W k).
Proof. exact tx_deny_access. Qed.
Check C17_deny_access_tx :
  forall W t W' ms,
  exec_tx W t = (W', true) -> pp_tx t PDenyAccess ms ->
  exists c r, is_pp_config W (nthk ms 0) c /\ is_pp_request W (nthk ms 2) r /\
    let rk := nthk ms 2 in let s := pc_sentinel c in
    nthk ms 1 = s /\ In s (tx_signers t) /\ pc_paused c = false /\ s <> rk /\
    get W' rk = empty_acct /\ lamports (get W' s) = lamports (get W s) + lamports (get W rk) /\
    (forall k, k <> rk -> k <> s -> lamports (get W k) <> 0 -> get W' k = get W k).
Print Assumptions C17_deny_access_tx.

(* Reconfiguration changes only the config account: a pending request keeps its remembered requester, fee and balance. *)
Theorem C17_reconfigure_does_not_touch_pending :
  forall cx W s W' k r,
  pp_configure_program cx W s = Ok W' -> data (get W k) = DAccessReq r -> get W' k = get W k.
Proof. exact reconfigure_does_not_touch_pending. Qed.
Check C17_reconfigure_does_not_touch_pending :
  forall cx W s W' k r,
  pp_configure_program cx W s = Ok W' -> data (get W k) = DAccessReq r -> get W' k = get W k.
Print Assumptions C17_reconfigure_does_not_touch_pending.


Theorem C17_configure_frame :
  forall cx W s W',
  pp_configure_program cx W s = Ok W' ->
  exists c c', is_pp_config W (nthk (cx_metas cx) 0) c /\ apply_setting c s = Some c' /\
    get W' (nthk (cx_metas cx) 0) = get W (nthk (cx_metas cx) 0) <| data := DPpConfig c' |> /\
    (forall k, k <> nthk (cx_metas cx) 0 -> get W' k = get W k) /\ now W' = now W.
Proof. exact pp_configure_program_frame. Qed.
Check C17_configure_frame :
  forall cx W s W',
  pp_configure_program cx W s = Ok W' ->
  exists c c', is_pp_config W (nthk (cx_metas cx) 0) c /\ apply_setting c s = Some c' /\
    get W' (nthk (cx_metas cx) 0) = get W (nthk (cx_metas cx) 0) <| data := DPpConfig c' |> /\
    (forall k, k <> nthk (cx_metas cx) 0 -> get W' k = get W k) /\ now W' = now W.
Print Assumptions C17_configure_frame.

(* fee < deposit (or no deposit configured yet) persists through ConfigureProgram, and through every passport instruction
   for every KPassport-owned config of the world. *)
Theorem C17_fee_lt_deposit :
  forall cx W s W' c,
  pp_configure_program cx W s = Ok W' -> is_pp_config W (nthk (cx_metas cx) 0) c -> cfg_ok c ->
  exists c', is_pp_config W' (nthk (cx_metas cx) 0) c' /\ cfg_ok c'.
Proof. exact fee_lt_deposit. Qed.
Check C17_fee_lt_deposit :
  forall cx W s W' c,
  pp_configure_program cx W s = Ok W' -> is_pp_config W (nthk (cx_metas cx) 0) c -> cfg_ok c ->
  exists c', is_pp_config W' (nthk (cx_metas cx) 0) c' /\ cfg_ok c'.
Print Assumptions C17_fee_lt_deposit.


Theorem C17_cfg_inv_preserved :
  forall cx W ix W',
 pp_cfg_inv W -> pp_process cx W ix = Ok W' -> pp_cfg_inv W'.
Proof. exact pp_process_preserves_cfg_inv. Qed.
Check C17_cfg_inv_preserved :
  forall cx W ix W',
 pp_cfg_inv W -> pp_process cx W ix = Ok W' -> pp_cfg_inv W'.
Print Assumptions C17_cfg_inv_preserved.

(* A request accepted under such a config holds more than the fee it remembers, so the saturating subtraction in GrantAccess
   does not saturate for it. *)
Theorem C17_accepted_request_can_pay_fee :
  forall cx W mode W' c,
  pp_request_access cx W mode = Ok W' -> is_pp_config W (nthk (cx_metas cx) 0) c -> cfg_ok c -> pc_deposit c < two64 ->
  let rk := KPpRequest (access_mode_service mode) in
  exists r, is_pp_request W' rk r /\ ar_fee r = pc_fee c /\ ar_fee r < pc_deposit c /\ ar_fee r < lamports (get W' rk) /\
    lam_request c <= lamports (get W' rk) /\
    (pc_deposit c + rent LEN_ACCESS_REQ < two64 -> rent LEN_ACCESS_REQ + pc_deposit c <= lamports (get W' rk)).
Proof. exact accepted_request_can_pay_fee. Qed.
Check C17_accepted_request_can_pay_fee :
  forall cx W mode W' c,
  pp_request_access cx W mode = Ok W' -> is_pp_config W (nthk (cx_metas cx) 0) c -> cfg_ok c -> pc_deposit c < two64 ->
  let rk := KPpRequest (access_mode_service mode) in
  exists r, is_pp_request W' rk r /\ ar_fee r = pc_fee c /\ ar_fee r < pc_deposit c /\ ar_fee r < lamports (get W' rk) /\
    lam_request c <= lamports (get W' rk) /\
    (pc_deposit c + rent LEN_ACCESS_REQ < two64 -> rent LEN_ACCESS_REQ + pc_deposit c <= lamports (get W' rk)).
Print Assumptions C17_accepted_request_can_pay_fee.

(* Life cycle: request, any number of successful reconfigurations (fee, deposit, flags, sentinel, limit), grant: the sentinel
   in office is paid exactly the fee in force at request time and the requester gets back everything else. *)
Theorem C17_request_reconfigure_grant :
  forall W0 tr W1 mode msr c0 W2 tg W3 msg,
  exec_tx W0 tr = (W1, true) -> pp_tx tr (PRequestAccess mode) msr ->
  is_pp_config W0 (nthk msr 0) c0 -> cfg_ok c0 -> pc_deposit c0 < two64 ->
  reconfigured W1 W2 ->
  exec_tx W2 tg = (W3, true) -> pp_tx tg PGrantAccess msg -> nthk msg 2 = KPpRequest (access_mode_service mode) ->
  let rk := KPpRequest (access_mode_service mode) in let payer := nthk msr 1 in let bal := lamports (get W1 rk) in
  exists c2, is_pp_config W2 (nthk msg 0) c2 /\
    let s := pc_sentinel c2 in
    lam_request c0 <= bal /\ pc_fee c0 < pc_deposit c0 /\ pc_deposit c0 <= bal /\ nthk msg 3 = payer /\ In s (tx_signers tg) /\
    get W3 rk = empty_acct /\
    (s <> payer -> lamports (get W3 s) = lamports (get W2 s) + pc_fee c0 /\
                   lamports (get W3 payer) = lamports (get W2 payer) + (bal - pc_fee c0)) /\
    (s = payer -> lamports (get W3 s) = lamports (get W2 s) + bal).
Proof. exact request_reconfigure_grant. Qed.
Check C17_request_reconfigure_grant :
  forall W0 tr W1 mode msr c0 W2 tg W3 msg,
  exec_tx W0 tr = (W1, true) -> pp_tx tr (PRequestAccess mode) msr ->
  is_pp_config W0 (nthk msr 0) c0 -> cfg_ok c0 -> pc_deposit c0 < two64 ->
  reconfigured W1 W2 ->
  exec_tx W2 tg = (W3, true) -> pp_tx tg PGrantAccess msg -> nthk msg 2 = KPpRequest (access_mode_service mode) ->
  let rk := KPpRequest (access_mode_service mode) in let payer := nthk msr 1 in let bal := lamports (get W1 rk) in
  exists c2, is_pp_config W2 (nthk msg 0) c2 /\
    let s := pc_sentinel c2 in
    lam_request c0 <= bal /\ pc_fee c0 < pc_deposit c0 /\ pc_deposit c0 <= bal /\ nthk msg 3 = payer /\ In s (tx_signers tg) /\
    get W3 rk = empty_acct /\
    (s <> payer -> lamports (get W3 s) = lamports (get W2 s) + pc_fee c0 /\
                   lamports (get W3 payer) = lamports (get W2 payer) + (bal - pc_fee c0)) /\
    (s = payer -> lamports (get W3 s) = lamports (get W2 s) + bal).
Print Assumptions C17_request_reconfigure_grant.

(* A failed transaction changes nothing. *)
Theorem C17_tx_failed_unchanged :
  forall W t W',
 exec_tx W t = (W', false) -> W' = W.
Proof. exact tx_failed_unchanged. Qed.
Check C17_tx_failed_unchanged :
  forall W t W',
 exec_tx W t = (W', false) -> W' = W.
Print Assumptions C17_tx_failed_unchanged.

(* Record: without the runtime's balance check the processor alone would mint lamports on a forged request whose remembered
   fee exceeds its balance (so the hypothesis of C17_grant_access_conserves cannot be dropped at processor level). *)
Theorem C17_processor_level_conservation_needs_fee_le_balance :
  exists W', pp_grant_access (top (grant_metas (KUser 88) uP)) W_forged = Ok W' /\
    total W' [KPpRequest (KUser 88); uS; uP] = total W_forged [KPpRequest (KUser 88); uS; uP] + 90.
Proof. exact pp_grant_access_conservation_without_fee_le_balance_refuted. Qed.
Check C17_processor_level_conservation_needs_fee_le_balance :
  exists W', pp_grant_access (top (grant_metas (KUser 88) uP)) W_forged = Ok W' /\
    total W' [KPpRequest (KUser 88); uS; uP] = total W_forged [KPpRequest (KUser 88); uS; uP] + 90.
Print Assumptions C17_processor_level_conservation_needs_fee_le_balance.
