From DZ Require Import Base Keys Merkle BurnRate Swap_Ring State World Passport Exec Lemmas_Passport.

(* ------------------------------------------------------------------------------------------------------------- *)
(* 10. instruction frames and transactions (Exec.v)                                                                *)
(* ------------------------------------------------------------------------------------------------------------- *)
Definition pp_cx (ms : list meta) (h : N) (sib : option sibling) : ctx :=
  {| cx_prog := KPassport; cx_metas := ms; cx_height := h; cx_sibling := sib |}.

Lemma total_is_lamports_sum W ks : total W ks = lamports_sum W ks.
Proof. reflexivity. Qed.
Lemma existsb_key_in k l : existsb (key_eqb k) l = true <-> In k l.
Proof. rewrite existsb_exists. split; [intros (x & Hi & He); apply key_eqb_eq in He; subst; assumption|].
  intros Hi. exists k. rewrite key_eqb_refl. auto. Qed.
Lemma dedup_keys_in l k : In k (dedup_keys l) <-> In k l.
Proof.
  induction l as [|a tl IH]; cbn [dedup_keys]; [tauto|]. destruct (existsb (key_eqb a) tl) eqn:E.
  - rewrite IH. cbn. apply existsb_key_in in E. split; [auto|]. intros [<-|H]; assumption.
  - cbn. rewrite IH. tauto.
Qed.
Lemma dedup_keys_nodup l : NoDup (dedup_keys l).
Proof.
  induction l as [|a tl IH]; cbn [dedup_keys]; [constructor|]. destruct (existsb (key_eqb a) tl) eqn:E; [assumption|].
  constructor; [|assumption]. rewrite dedup_keys_in. intros Hi. apply existsb_key_in in Hi. congruence.
Qed.
Lemma nthk_in ms i : (i < length ms)%nat -> In (nthk ms i) (dedup_keys (keys_of ms)).
Proof. intros H. apply dedup_keys_in. unfold nthk. apply nth_In. unfold keys_of. rewrite map_length. assumption. Qed.

(* a passport instruction frame = the processor + the runtime's balance check over the instruction's accounts *)
Lemma exec_data_passport ix ms h sib W W' :
  exec_data KPassport (IxPassport ix) ms h sib W = Ok W' ->
  pp_process (pp_cx ms h sib) W ix = Ok W' /\
  total W' (dedup_keys (keys_of ms)) = total W (dedup_keys (keys_of ms)).
Proof.
  cbn [exec_data]. intros H. inv_all. ok_inj H. split; [exact Hm|]. unfold balanced in Hm0. cbn zeta in Hm0. keq.
  rewrite !total_is_lamports_sum. congruence.
Qed.
Lemma exec_data_passport_only prog ix ms h sib W W' :
  exec_data prog (IxPassport ix) ms h sib W = Ok W' -> prog = KPassport.
Proof. destruct prog; cbn [exec_data bind]; intros H; try discriminate H. reflexivity. Qed.

(* GrantAccess as an instruction frame: no saturation, exact amounts, conservation, request account emptied *)
Lemma exec_grant_access ms h sib W W' :
  exec_data KPassport (IxPassport PGrantAccess) ms h sib W = Ok W' ->
  exists c r, is_pp_config W (nthk ms 0) c /\ is_pp_request W (nthk ms 2) r /\
    let rk := nthk ms 2 in let s := pc_sentinel c in let b := ar_beneficiary r in
    let bal := lamports (get W rk) in let fee := ar_fee r in
    nthk ms 1 = s /\ nthk ms 3 = b /\ is_signer ms s = true /\ pc_paused c = false /\
    fee <= bal /\ s <> rk /\ b <> rk /\
    lamports (get W' rk) = 0 /\
    (s <> b -> lamports (get W' s) = lamports (get W s) + fee /\ lamports (get W' b) = lamports (get W b) + (bal - fee)) /\
    (s = b -> lamports (get W' s) = lamports (get W s) + bal) /\
    (forall k, k <> rk -> k <> s -> k <> b -> get W' k = get W k) /\
    (forall k, owner (get W' k) = owner (get W k) /\ alen (get W' k) = alen (get W k) /\ data (get W' k) = data (get W k)).
Proof.
  intros H. apply exec_data_passport in H. destruct H as (H & Hbal). cbn [pp_process] in H.
  assert (Hok := pp_grant_access_ok _ _ _ H). assert (Hauth := pp_grant_access_authority _ _ _ H).
  assert (Hacc := pp_grant_access_accounting _ _ _ _ H (dedup_keys_nodup (keys_of ms))).
  apply pp_grant_access_amounts in H. cbn [pp_cx cx_metas] in *. cbn zeta in *.
  destruct H as (c & r & Hc & Hr & Hn1 & Hn3 & Hz & Hs & Hb & Hsb & Hfr & Hmeta).
  destruct Hok as (m0 & m1 & m2 & m3 & rest & c0 & r0 & Hms & _ & Hd0 & _ & Hk0 & Hp0 & _ & Hdr0 & Hb0 & _).
  destruct Hauth as (c1 & (_ & Hd1) & _ & Hsig). destruct Hacc as (c2 & r2 & (_ & Hd2) & (_ & Hdr2) & Hacc).
  destruct Hc as (Hco & Hcd). destruct Hr as (Hro & Hrd).
  assert (c0 = c) by (rewrite Hms, nthk_0 in Hcd; congruence). assert (c1 = c) by congruence. assert (c2 = c) by congruence.
  assert (r0 = r) by (rewrite Hms, nthk_2 in Hrd; congruence). assert (r2 = r) by congruence. subst c0 c1 c2 r0 r2.
  assert (H1 : nthk ms 1 = pc_sentinel c) by (rewrite Hms, nthk_1; assumption).
  assert (H3 : nthk ms 3 = ar_beneficiary r) by (rewrite Hms, nthk_3; assumption).
  assert (Hlen : (4 <= length ms)%nat) by (rewrite Hms; cbn; lia).
  assert (Hfee : ar_fee r <= lamports (get W (nthk ms 2))).
  { specialize (Hacc (nthk_in ms 2 ltac:(lia))). rewrite <- H1, <- H3 in Hacc.
    specialize (Hacc (nthk_in ms 1 ltac:(lia)) (nthk_in ms 3 ltac:(lia))). lia. }
  exists c, r. split; [split; assumption|]. split; [split; assumption|].
  repeat (split; [assumption|]). split; [auto|]. split; [|split; assumption].
  intros E. rewrite (Hsb E). lia.
Qed.

Lemma exec_deny_access ms h sib W W' :
  exec_data KPassport (IxPassport PDenyAccess) ms h sib W = Ok W' ->
  exists c r, is_pp_config W (nthk ms 0) c /\ is_pp_request W (nthk ms 2) r /\
    let rk := nthk ms 2 in let s := pc_sentinel c in
    nthk ms 1 = s /\ is_signer ms s = true /\ pc_paused c = false /\ s <> rk /\
    lamports (get W' rk) = 0 /\ lamports (get W' s) = lamports (get W s) + lamports (get W rk) /\
    (forall k, k <> rk -> k <> s -> get W' k = get W k) /\
    (forall k, owner (get W' k) = owner (get W k) /\ alen (get W' k) = alen (get W k) /\ data (get W' k) = data (get W k)).
Proof.
  intros H. apply exec_data_passport in H. destruct H as (H & _). cbn [pp_process] in H.
  assert (Hok := pp_deny_access_ok _ _ _ H). assert (Hauth := pp_deny_access_authority _ _ _ H).
  apply pp_deny_access_amounts in H. cbn [pp_cx cx_metas] in *. cbn zeta in *.
  destruct H as (c & r & Hc & Hr & Hn1 & Hz & Hs & Hfr & Hmeta).
  destruct Hok as (m0 & m1 & m2 & rest & c0 & r0 & Hms & _ & Hd0 & _ & Hk0 & Hp0 & _).
  destruct Hauth as (c1 & (_ & Hd1) & _ & Hsig). destruct Hc as (Hco & Hcd).
  assert (c0 = c) by (rewrite Hms, nthk_0 in Hcd; congruence). assert (c1 = c) by congruence. subst c0 c1.
  assert (H1 : nthk ms 1 = pc_sentinel c) by (rewrite Hms, nthk_1; assumption).
  exists c, r. split; [split; assumption|]. split; [assumption|]. auto 10.
Qed.

(* ---- transactions ---- *)
Lemma tx_failed_unchanged W t W' : exec_tx W t = (W', false) -> W' = W.
Proof.
  unfold exec_tx. destruct (negb (tx_wf t)); [intros H; ok_inj H; reflexivity|].
  destruct (exec_ixs t (tx_ixs t) None W); [destruct (rent_ok t W a)|]; intros H; ok_inj H; reflexivity.
Qed.
Lemma tx_success_inv W t W' :
  exec_tx W t = (W', true) ->
  tx_wf t = true /\ exists W1, exec_ixs t (tx_ixs t) None W = Ok W1 /\ rent_ok t W W1 = true /\ W' = purge W1.
Proof.
  unfold exec_tx. destruct (tx_wf t); cbn [negb]; [|discriminate]. destruct (exec_ixs t (tx_ixs t) None W) as [W1|]; [|discriminate].
  destruct (rent_ok t W W1) eqn:E; [|discriminate]. intros H. ok_inj H. eauto.
Qed.
Lemma tx_single_inv W t W' i :
  exec_tx W t = (W', true) -> tx_ixs t = [i] ->
  tx_wf t = true /\ exists W1, exec_data (i_prog i) (i_data i) (effective t (i_metas i)) 1 None W = Ok W1 /\ W' = purge W1.
Proof.
  intros H Hi. apply tx_success_inv in H. destruct H as (Hwf & W1 & He & _ & ->). rewrite Hi in He. cbn [exec_ixs] in He.
  inv_all. ok_inj He. eauto.
Qed.
Lemma lamports_purge W k : lamports (get (purge W) k) = lamports (get W k).
Proof. rewrite get_purge. destruct (lamports (get W k) =? 0) eqn:E; [keq; rewrite E|]; reflexivity. Qed.

(* message-level privileges *)
Lemma nthk_effective t ms i : nthk (effective t ms) i = nthk ms i.
Proof. unfold nthk, keys_of, effective. rewrite map_map. reflexivity. Qed.
Lemma is_signer_effective t ms k : is_signer (effective t ms) k = true -> In k (tx_signers t).
Proof.
  intros H. apply is_signer_in in H. destruct H as (m & Hi & Hk & Hs). unfold effective in Hi. apply in_map_iff in Hi.
  destruct Hi as (m' & <- & _). cbn in Hk, Hs. subst k. unfold msg_signer in Hs. apply existsb_key_in in Hs. exact Hs.
Qed.

(* C07 at instruction-frame level inside any transaction (any position, any world reached so far): a passport
   instruction that needs an authority succeeds only if that authority's key signed the transaction *)
Lemma exec_passport_authority t ms h sib W W' ix :
  exec_data KPassport (IxPassport ix) (effective t ms) h sib W = Ok W' ->
  match ix with
  | PGrantAccess | PDenyAccess => exists c, is_pp_config W (nthk ms 0) c /\ In (pc_sentinel c) (tx_signers t)
  | PConfigureProgram _ => exists c, is_pp_config W (nthk ms 0) c /\ In (pc_admin c) (tx_signers t)
  | PSetAdmin _ => exists auth, data (get W (KProgData KPassport)) = DProgData (Some auth) /\ In auth (tx_signers t)
  | PInitializeProgram | PRequestAccess _ => True
  end.
Proof.
  intros H. apply exec_data_passport in H. destruct H as (H & _). destruct ix; cbn [pp_process] in H; try exact I.
  - apply pp_set_admin_authority in H. destruct H as (auth & _ & Hd & _ & Hs). cbn in Hs. eauto using is_signer_effective.
  - apply pp_configure_program_authority in H. destruct H as (c & Hc & _ & Hs). cbn in Hc, Hs. rewrite nthk_effective in Hc.
    eauto using is_signer_effective.
  - apply pp_grant_access_authority in H. destruct H as (c & Hc & _ & Hs). cbn in Hc, Hs. rewrite nthk_effective in Hc.
    eauto using is_signer_effective.
  - apply pp_deny_access_authority in H. destruct H as (c & Hc & _ & Hs). cbn in Hc, Hs. rewrite nthk_effective in Hc.
    eauto using is_signer_effective.
Qed.
