(* C13 progress theorems, part 2: configure-debt, configure-rewards, finalize-debt, enable-write-off, finalize-rewards. *)
From DZ Require Import Base Keys Merkle BurnRate Shares Swap_Ring State World SwapDeq RD Passport Swap Exec Corr Builders
  Lemmas_Merkle Lemmas_RdSpecs5 Lemmas_C13.

Ltac rent_goal := intros k Hk; cbn [In] in Hk; repeat (destruct Hk as [<-|Hk]; [getnorm; proj_simpl|]); try contradiction.
Ltac bal_goal := unfold balanced, lamports_sum; cbn [keys_of map mkey mk dedup_keys existsb key_eqb orb sumN].

(* ------------------------------------------------------------------------------------------------------------------ *)
(* configure-debt                                                                                                      *)
Record configure_debt_ready (W : world) (a e : N) (c : rd_config) (d : dist) (tail : list N) : Prop := {
  cd_cfg_owner : owner (get W KRdConfig) = KRd;
  cd_cfg_data : data (get W KRdConfig) = DConfig c;
  cd_unpaused : c_paused c = false;
  cd_accountant : c_debt_accountant c = KUser a;
  cd_dist_owner : owner (get W (KRdDist e)) = KRd;
  cd_dist_data : data (get W (KRdDist e)) = DDist d tail;
  cd_dist_lam : lamports (get W (KRdDist e)) <> 0;
  cd_not_final : d_debt_final d = false;
  cd_grace_over : calc_allowed d W = true
}.
Definition configure_debt_acct (W : world) (e n debt : N) (root : hash) (d : dist) (tail : list N) (k : key) : acct :=
  if key_eqb k (KRdDist e)
  then get W k <| data := DDist (d <| d_total_validators := n |> <| d_total_debt := debt |> <| d_debt_root := root |>) tail |>
  else purge_acct (get W k).

Theorem configure_debt_progress W a e n debt root c d tail :
  configure_debt_ready W a e c d tail ->
  exists W', exec_tx W (rd_tx [KUser a] (RConfigureDebt n debt root) (sdk_configure_debt (KUser a) e)) = (W', true) /\
    now W' = now W /\ forall k, get W' k = configure_debt_acct W e n debt root d tail k.
Proof.
  intros R. destruct R. eexists. split; [|split].
  - apply exec_tx_rd_go.
    + unfold sdk_configure_debt, tx_wf, rd_tx, msg_signer. cbn. rewrite N.eqb_refl. reflexivity.
    + unfold sdk_configure_debt. cbn [rd_process]. unfold rd_configure_debt. rdgo. reflexivity.
    + unfold sdk_configure_debt. bal_goal. getnorm. proj_simpl. reflexivity.
    + unfold sdk_configure_debt. cbn [keys_of map mkey mk]. rent_goal; apply rent_transition_same; reflexivity.
  - rewrite now_purge, ?now_put. reflexivity.
  - intros k. rewrite get_purge. unfold configure_debt_acct.
    destruct (key_eqb_spec k (KRdDist e)) as [->|N1].
    + getnorm. proj_simpl. destruct (N.eqb_spec (lamports (get W (KRdDist e))) 0); [contradiction|reflexivity].
    + rewrite get_put, (key_eqb_neq (KRdDist e) k) by congruence. reflexivity.
Qed.

(* ------------------------------------------------------------------------------------------------------------------ *)
(* configure-rewards                                                                                                   *)
Record configure_rewards_ready (W : world) (a e : N) (c : rd_config) (d : dist) (tail : list N) : Prop := {
  cr_cfg_owner : owner (get W KRdConfig) = KRd;
  cr_cfg_data : data (get W KRdConfig) = DConfig c;
  cr_unpaused : c_paused c = false;
  cr_accountant : c_rewards_accountant c = KUser a;
  cr_dist_owner : owner (get W (KRdDist e)) = KRd;
  cr_dist_data : data (get W (KRdDist e)) = DDist d tail;
  cr_dist_lam : lamports (get W (KRdDist e)) <> 0;
  cr_not_final : d_rewards_final d = false;
  cr_grace_over : calc_allowed d W = true
}.
Definition configure_rewards_acct (W : world) (e n : N) (root : hash) (d : dist) (tail : list N) (k : key) : acct :=
  if key_eqb k (KRdDist e)
  then get W k <| data := DDist (d <| d_total_contributors := n |> <| d_rewards_root := root |>) tail |>
  else purge_acct (get W k).

Theorem configure_rewards_progress W a e n root c d tail :
  configure_rewards_ready W a e c d tail ->
  exists W', exec_tx W (rd_tx [KUser a] (RConfigureRewards n root) (sdk_configure_rewards (KUser a) e)) = (W', true) /\
    now W' = now W /\ forall k, get W' k = configure_rewards_acct W e n root d tail k.
Proof.
  intros R. destruct R. eexists. split; [|split].
  - apply exec_tx_rd_go.
    + unfold sdk_configure_rewards, tx_wf, rd_tx, msg_signer. cbn. rewrite N.eqb_refl. reflexivity.
    + unfold sdk_configure_rewards. cbn [rd_process]. unfold rd_configure_rewards. rdgo. reflexivity.
    + unfold sdk_configure_rewards. bal_goal. getnorm. proj_simpl. reflexivity.
    + unfold sdk_configure_rewards. cbn [keys_of map mkey mk]. rent_goal; apply rent_transition_same; reflexivity.
  - rewrite now_purge, ?now_put. reflexivity.
  - intros k. rewrite get_purge. unfold configure_rewards_acct.
    destruct (key_eqb_spec k (KRdDist e)) as [->|N1].
    + getnorm. proj_simpl. destruct (N.eqb_spec (lamports (get W (KRdDist e))) 0); [contradiction|reflexivity].
    + rewrite get_put, (key_eqb_neq (KRdDist e) k) by congruence. reflexivity.
Qed.

(* ------------------------------------------------------------------------------------------------------------------ *)
(* finalize-debt                                                                                                       *)
Record finalize_debt_ready (W : world) (a e : N) (c : rd_config) (d : dist) (tail : list N) : Prop := {
  fd_cfg_owner : owner (get W KRdConfig) = KRd;
  fd_cfg_data : data (get W KRdConfig) = DConfig c;
  fd_unpaused : c_paused c = false;
  fd_accountant : c_debt_accountant c = KUser a;
  fd_dist_owner : owner (get W (KRdDist e)) = KRd;
  fd_dist_data : data (get W (KRdDist e)) = DDist d tail;
  fd_dist_lam : lamports (get W (KRdDist e)) <> 0;
  fd_not_final : d_debt_final d = false;
  fd_grace_over : calc_allowed d W = true;
  fd_unc : d_uncollectible d <= d_total_debt d
}.
(* a funded wallet: System-owned, no data, stays rent exempt after paying `amt` *)
Record wallet_funds (W : world) (p amt : N) : Prop := {
  wf_owner : owner (get W (KUser p)) = KSystem;
  wf_len : alen (get W (KUser p)) = 0;
  wf_funds : rent 0 + amt <= lamports (get W (KUser p))
}.

Definition finalize_debt_zero_acct (W : world) (e : N) (d : dist) (tail : list N) (k : key) : acct :=
  if key_eqb k (KRdDist e) then get W (KRdDist e) <| data := DDist (d <| d_debt_final := true |>) tail |> else get W k.

Theorem finalize_debt_zero_progress W a p e c d tail :
  finalize_debt_ready W a e c d tail -> d_total_debt d - d_uncollectible d = 0 ->
  exists W', exec_tx W (rd_tx [KUser a; KUser p] RFinalizeDebt (sdk_finalize_debt (KUser a) e (KUser p))) = (W', true) /\
    now W' = now W /\ forall k, get W' k = purge_acct (finalize_debt_zero_acct W e d tail k).
Proof.
  intros R Hz. destruct R. eapply rd_tx_progress.
  - unfold sdk_finalize_debt, tx_wf, rd_tx, msg_signer. cbn. rewrite !N.eqb_refl, ?orb_true_r. reflexivity.
  - unfold sdk_finalize_debt. cbn [rd_process]. unfold rd_finalize_debt.
    assert (d_uncollectible d <=? d_total_debt d = true) as Hle by (apply N.leb_le; assumption).
    assert (d_total_debt d - d_uncollectible d =? 0 = true) as Hz' by (apply N.eqb_eq; assumption).
    rdgo. reflexivity.
  - rewrite ?now_put. reflexivity.
  - intros k. unfold finalize_debt_zero_acct. rewrite get_put, (key_eqb_sym k). reflexivity.
  - apply balanced_same. intros k. rewrite get_put. destruct (key_eqb_spec (KRdDist e) k) as [<-|]; reflexivity.
  - intros k. unfold finalize_debt_zero_acct. destruct (key_eqb_spec k (KRdDist e)) as [->|]; apply rent_transition_same; reflexivity.
Qed.

Definition finalize_debt_topup (W : world) (e : N) (d : dist) : N :=
  rent (alen (get W (KRdDist e)) + ceil8 (d_total_validators d)) - lamports (get W (KRdDist e)).
Definition finalize_debt_acct (W : world) (e p : N) (d : dist) (tail : list N) (k : key) : acct :=
  if key_eqb k (KRdDist e) then
    {| lamports := lamports (get W (KRdDist e)) + finalize_debt_topup W e d; owner := KRd;
       alen := alen (get W (KRdDist e)) + ceil8 (d_total_validators d);
       data := DDist (fd_dist d tail) (tail ++ zeros (ceil8 (d_total_validators d))) |}
  else if key_eqb k (KUser p) then get W (KUser p) <| lamports := lamports (get W (KUser p)) - finalize_debt_topup W e d |>
  else get W k.

Lemma ceil8_le n m : n <= 8 * m -> ceil8 n <= m.
Proof. unfold ceil8. intros H. destruct (n mod 8 =? 0) eqn:E; [lia|]. apply N.eqb_neq in E. lia. Qed.
Lemma rent_lt_two64 n : n <= 10485760 + 10240 -> rent n < two64.
Proof. unfold rent, two64. lia. Qed.

Theorem finalize_debt_progress W a p e c d tail :
  finalize_debt_ready W a e c d tail -> d_total_debt d - d_uncollectible d <> 0 ->
  d_total_validators d <= 81920 ->                       (* one resize grows an account by at most 10 240 bytes *)
  alen (get W (KRdDist e)) <= 10485760 ->                (* the runtime's maximum account size *)
  wallet_funds W p (finalize_debt_topup W e d) ->
  exists W', exec_tx W (rd_tx [KUser a; KUser p] RFinalizeDebt (sdk_finalize_debt (KUser a) e (KUser p))) = (W', true) /\
    now W' = now W /\ forall k, get W' k = purge_acct (finalize_debt_acct W e p d tail k).
Proof.
  intros R Hnz Hcnt Hsz Wf. destruct R, Wf. unfold finalize_debt_topup in *.
  assert (ceil8 (d_total_validators d) <= 10240) as Hx by (apply ceil8_le; lia).
  assert (rent (alen (get W (KRdDist e)) + ceil8 (d_total_validators d)) < two64) as Hr by (apply rent_lt_two64; lia).
  eapply rd_tx_progress.
  - unfold sdk_finalize_debt, tx_wf, rd_tx, msg_signer. cbn. rewrite !N.eqb_refl, ?orb_true_r. reflexivity.
  - unfold sdk_finalize_debt. cbn [rd_process]. unfold rd_finalize_debt.
    assert (d_uncollectible d <=? d_total_debt d = true) as Hle by (apply N.leb_le; assumption).
    assert (d_total_debt d - d_uncollectible d =? 0 = false) as Hz' by (apply N.eqb_neq; assumption).
    rdgo. reflexivity.
  - rewrite ?now_put. reflexivity.
  - intros k. unfold finalize_debt_acct, finalize_debt_topup, fd_dist. rewrite sat_add_0_small by lia.
    destruct (key_eqb_spec k (KRdDist e)) as [->|N1].
    { getnorm. apply acct_ext; proj_simpl; cbn [lamports owner alen data]; auto. }
    destruct (key_eqb_spec k (KUser p)) as [->|N2].
    { getnorm. reflexivity. }
    repeat rewrite get_put. rewrite ?(key_eqb_neq (KRdDist e) k), ?(key_eqb_neq (KUser p) k) by congruence. reflexivity.
  - apply (balanced_move _ _ _ (KUser p) (KRdDist e)
             (rent (alen (get W (KRdDist e)) + ceil8 (d_total_validators d)) - lamports (get W (KRdDist e)))).
    + discriminate.
    + unfold sdk_finalize_debt. cbn. tauto.
    + unfold sdk_finalize_debt. cbn. tauto.
    + lia.
    + intros k. rewrite sat_add_0_small by lia.
      destruct (key_eqb_spec k (KUser p)) as [->|N2]; [getnorm; proj_simpl; reflexivity|].
      destruct (key_eqb_spec k (KRdDist e)) as [->|N1]; [getnorm; proj_simpl; reflexivity|].
      repeat rewrite get_put. rewrite ?(key_eqb_neq (KRdDist e) k), ?(key_eqb_neq (KUser p) k) by congruence. reflexivity.
  - intros k. unfold finalize_debt_acct, finalize_debt_topup.
    destruct (key_eqb_spec k (KRdDist e)) as [->|N1]; [apply rent_transition_exempt; cbn [lamports alen]; lia|].
    destruct (key_eqb_spec k (KUser p)) as [->|N2]; [apply rent_transition_exempt; proj_simpl; cbn [lamports]; rewrite wf_len0; lia|].
    apply rent_transition_same; reflexivity.
Qed.

(* ------------------------------------------------------------------------------------------------------------------ *)
(* enable-write-off                                                                                                    *)
Record enable_write_off_ready (W : world) (e : N) (c : rd_config) (d : dist) (tail : list N) : Prop := {
  ew_cfg_owner : owner (get W KRdConfig) = KRd;
  ew_cfg_data : data (get W KRdConfig) = DConfig c;
  ew_unpaused : c_paused c = false;
  ew_activated : writeoff_activated c = true;
  ew_dist_owner : owner (get W (KRdDist e)) = KRd;
  ew_dist_data : data (get W (KRdDist e)) = DDist d tail;
  ew_not_enabled : d_writeoff_enabled d = false;
  ew_debt_final : d_debt_final d = true;
  ew_count : d_total_validators d <= 81920;
  ew_size : alen (get W (KRdDist e)) <= 10485760;
  ew_covered : rent (alen (get W (KRdDist e))) + outstanding_relay d <= lamports (get W (KRdDist e))
}.
Definition enable_write_off_topup (W : world) (e : N) (d : dist) : N :=
  rent (alen (get W (KRdDist e)) + ceil8 (d_total_validators d)) - (lamports (get W (KRdDist e)) - outstanding_relay d).
Definition enable_write_off_acct (W : world) (e p : N) (d : dist) (tail : list N) (k : key) : acct :=
  if key_eqb k (KRdDist e) then
    {| lamports := lamports (get W (KRdDist e)) + enable_write_off_topup W e d; owner := KRd;
       alen := alen (get W (KRdDist e)) + ceil8 (d_total_validators d);
       data := DDist (ew_dist d tail) (tail ++ zeros (ceil8 (d_total_validators d))) |}
  else if key_eqb k (KUser p) then get W (KUser p) <| lamports := lamports (get W (KUser p)) - enable_write_off_topup W e d |>
  else get W k.
Lemma outstanding_relay_ew d tail : outstanding_relay (ew_dist d tail) = outstanding_relay d.
Proof. unfold outstanding_relay, ew_dist. proj_simpl. reflexivity. Qed.

Theorem enable_write_off_progress W p e c d tail :
  enable_write_off_ready W e c d tail -> wallet_funds W p (enable_write_off_topup W e d) ->
  exists W', exec_tx W (rd_tx [KUser p] REnableWriteOff (sdk_enable_write_off e (KUser p))) = (W', true) /\
    now W' = now W /\ forall k, get W' k = purge_acct (enable_write_off_acct W e p d tail k).
Proof.
  intros R Wf. destruct R, Wf. unfold enable_write_off_topup in *.
  assert (ceil8 (d_total_validators d) <= 10240) as Hx by (apply ceil8_le; lia).
  pose proof (outstanding_relay_ew d tail) as Hor. unfold ew_dist in Hor.
  eapply rd_tx_progress.
  - unfold sdk_enable_write_off, tx_wf, rd_tx, msg_signer. cbn. rewrite !N.eqb_refl, ?orb_true_r. reflexivity.
  - unfold sdk_enable_write_off. cbn [rd_process]. unfold rd_enable_write_off. rdgo. reflexivity.
  - rewrite ?now_put. reflexivity.
  - intros k. unfold enable_write_off_acct, enable_write_off_topup, ew_dist.
    destruct (key_eqb_spec k (KRdDist e)) as [->|N1].
    { getnorm. apply acct_ext; proj_simpl; cbn [lamports owner alen data]; auto. }
    destruct (key_eqb_spec k (KUser p)) as [->|N2].
    { getnorm. reflexivity. }
    repeat rewrite get_put. rewrite ?(key_eqb_neq (KRdDist e) k), ?(key_eqb_neq (KUser p) k) by congruence. reflexivity.
  - apply (balanced_move _ _ _ (KUser p) (KRdDist e)
             (rent (alen (get W (KRdDist e)) + ceil8 (d_total_validators d)) - (lamports (get W (KRdDist e)) - outstanding_relay d))).
    + discriminate.
    + unfold sdk_enable_write_off. cbn. tauto.
    + unfold sdk_enable_write_off. cbn. tauto.
    + lia.
    + intros k.
      destruct (key_eqb_spec k (KUser p)) as [->|N2]; [getnorm; proj_simpl; reflexivity|].
      destruct (key_eqb_spec k (KRdDist e)) as [->|N1]; [getnorm; proj_simpl; reflexivity|].
      repeat rewrite get_put. rewrite ?(key_eqb_neq (KRdDist e) k), ?(key_eqb_neq (KUser p) k) by congruence. reflexivity.
  - intros k. unfold enable_write_off_acct, enable_write_off_topup.
    destruct (key_eqb_spec k (KRdDist e)) as [->|N1]; [apply rent_transition_exempt; cbn [lamports alen]; lia|].
    destruct (key_eqb_spec k (KUser p)) as [->|N2]; [apply rent_transition_exempt; proj_simpl; cbn [lamports]; rewrite wf_len0; lia|].
    apply rent_transition_same; reflexivity.
Qed.

(* ------------------------------------------------------------------------------------------------------------------ *)
(* finalize-rewards                                                                                                    *)
Record finalize_rewards_ready (W : world) (e : N) (c : rd_config) (d : dist) (tail : list N) : Prop := {
  fr_cfg_owner : owner (get W KRdConfig) = KRd;
  fr_cfg_data : data (get W KRdConfig) = DConfig c;
  fr_unpaused : c_paused c = false;
  fr_dist_owner : owner (get W (KRdDist e)) = KRd;
  fr_dist_data : data (get W (KRdDist e)) = DDist d tail;
  fr_not_final : d_rewards_final d = false;
  fr_grace_over : calc_allowed d W = true;
  fr_debt_final : d_debt_final d = true;
  fr_unc : d_uncollectible d <= d_total_debt d;
  fr_root : null_root_guard d (d_total_debt d - d_uncollectible d) = true;   (* a rewards root was posted (or nothing is owed) *)
  fr_min_epochs : c_min_epochs c <> 0;
  fr_deferral : sat_add two64 (d_epoch d) (c_min_epochs c) <= c_next_epoch c;  (* enough later epochs were initialised *)
  fr_count : d_total_contributors d <= 81920;
  fr_size : alen (get W (KRdDist e)) <= 10485760
}.
(* relay lamports for every leaf plus the rent of the grown account (saturating, as the processor computes it) *)
Definition finalize_rewards_amount (W : world) (e : N) (d : dist) : N :=
  sat_add two64 (sat_mul two64 (d_relay d) (d_total_contributors d))
    (rent (alen (get W (KRdDist e)) + ceil8 (d_total_contributors d)) - lamports (get W (KRdDist e))).
Definition finalize_rewards_acct (W : world) (e p : N) (d : dist) (tail : list N) (k : key) : acct :=
  if key_eqb k (KRdDist e) then
    {| lamports := lamports (get W (KRdDist e)) + finalize_rewards_amount W e d; owner := KRd;
       alen := alen (get W (KRdDist e)) + ceil8 (d_total_contributors d);
       data := DDist (fr_dist d tail) (tail ++ zeros (ceil8 (d_total_contributors d))) |}
  else if key_eqb k (KUser p) then get W (KUser p) <| lamports := lamports (get W (KUser p)) - finalize_rewards_amount W e d |>
  else get W k.
Lemma sat_add_ge_r m a b : b < m -> b <= sat_add m a b.
Proof. intros H. unfold sat_add. destruct (N.ltb_spec (a + b) m); lia. Qed.

Theorem finalize_rewards_progress W p e c d tail :
  finalize_rewards_ready W e c d tail -> wallet_funds W p (finalize_rewards_amount W e d) ->
  exists W', exec_tx W (rd_tx [KUser p] RFinalizeRewards (sdk_finalize_rewards (KUser p) e)) = (W', true) /\
    now W' = now W /\ forall k, get W' k = purge_acct (finalize_rewards_acct W e p d tail k).
Proof.
  intros R Wf. destruct R, Wf. unfold finalize_rewards_amount in *.
  assert (ceil8 (d_total_contributors d) <= 10240) as Hx by (apply ceil8_le; lia).
  assert (rent (alen (get W (KRdDist e)) + ceil8 (d_total_contributors d)) < two64) as Hr by (apply rent_lt_two64; lia).
  assert (null_root_guard (d <| d_rewards_final := true |>) (d_total_debt d - d_uncollectible d) = true) as Hnr.
  { revert fr_root0. unfold null_root_guard. proj_simpl. auto. }
  assert (d_uncollectible d <=? d_total_debt d = true) as Hle by (apply N.leb_le; assumption).
  assert (c_min_epochs c =? 0 = false) as Hme by (apply N.eqb_neq; assumption).
  assert (sat_add two64 (d_epoch d) (c_min_epochs c) <=? c_next_epoch c = true) as Hdf by (apply N.leb_le; assumption).
  pose proof (sat_add_ge_r two64 (sat_mul two64 (d_relay d) (d_total_contributors d)) _ (N.le_lt_trans _ _ _ (N.le_sub_l _ (lamports (get W (KRdDist e)))) Hr)) as Hge.
  eapply rd_tx_progress.
  - unfold sdk_finalize_rewards, tx_wf, rd_tx, msg_signer. cbn. rewrite !N.eqb_refl, ?orb_true_r. reflexivity.
  - unfold sdk_finalize_rewards. cbn [rd_process]. unfold rd_finalize_rewards. rdgo. reflexivity.
  - rewrite ?now_put. reflexivity.
  - intros k. unfold finalize_rewards_acct, finalize_rewards_amount, fr_dist.
    destruct (key_eqb_spec k (KRdDist e)) as [->|N1].
    { getnorm. apply acct_ext; proj_simpl; cbn [lamports owner alen data]; auto. }
    destruct (key_eqb_spec k (KUser p)) as [->|N2].
    { getnorm. reflexivity. }
    repeat rewrite get_put. rewrite ?(key_eqb_neq (KRdDist e) k), ?(key_eqb_neq (KUser p) k) by congruence. reflexivity.
  - eapply (balanced_move _ _ _ (KUser p) (KRdDist e)).
    + discriminate.
    + unfold sdk_finalize_rewards. cbn. tauto.
    + unfold sdk_finalize_rewards. cbn. tauto.
    + instantiate (1 := sat_add two64 (sat_mul two64 (d_relay d) (d_total_contributors d))
         (rent (alen (get W (KRdDist e)) + ceil8 (d_total_contributors d)) - lamports (get W (KRdDist e)))). lia.
    + intros k.
      destruct (key_eqb_spec k (KUser p)) as [->|N2]; [getnorm; proj_simpl; reflexivity|].
      destruct (key_eqb_spec k (KRdDist e)) as [->|N1]; [getnorm; proj_simpl; reflexivity|].
      repeat rewrite get_put. rewrite ?(key_eqb_neq (KRdDist e) k), ?(key_eqb_neq (KUser p) k) by congruence. reflexivity.
  - intros k. unfold finalize_rewards_acct, finalize_rewards_amount.
    destruct (key_eqb_spec k (KRdDist e)) as [->|N1]; [apply rent_transition_exempt; cbn [lamports alen]; lia|].
    destruct (key_eqb_spec k (KUser p)) as [->|N2]; [apply rent_transition_exempt; proj_simpl; cbn [lamports]; rewrite wf_len0; lia|].
    apply rent_transition_same; reflexivity.
Qed.

(* ------------------------------------------------------------------------------------------------------------------ *)
(* non-vacuity (part 2)                                                                                                *)
(* epoch 5 just after its grace period: nothing posted yet; KUser 2 / KUser 3 are the accountants, KUser 1 pays *)
Definition ex13_cfg : rd_config := ex_cfg <| c_rewards_accountant := KUser 3 |>.
Definition ex13_fresh : dist := dist_default <| d_epoch := 5 |> <| d_relay := 6000 |> <| d_calc_allowed_ts := 10 |>.
Definition ex13_world (d : dist) (tail : list N) (extra_lamports : N) : world :=
  put (put (put (world0 <| now := 1000 |>)
    KRdConfig (ex_acct (rent LEN_CONFIG_ALLOC) LEN_CONFIG_ALLOC (DConfig ex13_cfg)))
    (KRdDist 5) (ex_acct (rent (LEN_DIST + N.of_nat (length tail)) + extra_lamports) (LEN_DIST + N.of_nat (length tail)) (DDist d tail)))
    (KUser 1) (ex_wallet 1000000000).
Definition ex13_keys : list key := [KRdConfig; KRdDist 5; KUser 1; KUser 2; KUser 3; KSystem].
Definition agree (W' : world) (F : key -> acct) : bool := forallb (fun k => acct_eqb (get W' k) (purge_acct (F k))) ex13_keys.

Example configure_debt_progress_nonvacuous :
  configure_debt_ready (ex13_world ex13_fresh [] 0) 2 5 ex13_cfg ex13_fresh [] /\
  let '(W', ok) := exec_tx (ex13_world ex13_fresh [] 0)
                     (rd_tx [KUser 2] (RConfigureDebt 2 800 (tree_root PRE_DEBT ex_debts)) (sdk_configure_debt (KUser 2) 5)) in
  ok = true /\ agree W' (configure_debt_acct (ex13_world ex13_fresh [] 0) 5 2 800 (tree_root PRE_DEBT ex_debts) ex13_fresh []) = true.
Proof. split; [constructor; closed|]. vm_compute. repeat split. Qed.

Definition ex13_posted : dist := ex13_fresh <| d_total_validators := 2 |> <| d_total_debt := 800 |> <| d_debt_root := tree_root PRE_DEBT ex_debts |>.
Example finalize_debt_progress_nonvacuous :
  let W := ex13_world ex13_posted [] 0 in
  finalize_debt_ready W 2 5 ex13_cfg ex13_posted [] /\ wallet_funds W 1 (finalize_debt_topup W 5 ex13_posted) /\
  finalize_debt_topup W 5 ex13_posted = 6960 /\
  let '(W', ok) := exec_tx W (rd_tx [KUser 2; KUser 1] RFinalizeDebt (sdk_finalize_debt (KUser 2) 5 (KUser 1))) in
  ok = true /\ agree W' (finalize_debt_acct W 5 1 ex13_posted []) = true /\
  get W' (KRdDist 5) = ex_acct (rent (LEN_DIST + 1)) (LEN_DIST + 1) (DDist (fd_dist ex13_posted []) [0]).
Proof. cbv zeta. split; [constructor; closed|]. split; [constructor; closed|]. vm_compute. repeat split. Qed.
Example finalize_debt_zero_progress_nonvacuous :
  let d := ex13_fresh in let W := ex13_world d [] 0 in
  finalize_debt_ready W 2 5 ex13_cfg d [] /\
  let '(W', ok) := exec_tx W (rd_tx [KUser 2; KUser 1] RFinalizeDebt (sdk_finalize_debt (KUser 2) 5 (KUser 1))) in
  ok = true /\ agree W' (finalize_debt_zero_acct W 5 d []) = true.
Proof. cbv zeta. split; [constructor; closed|]. vm_compute. repeat split. Qed.
(* a tree of more than 8 * 10 240 leaves cannot be finalized: the bitmap does not fit one resize *)
Example finalize_debt_large_refuted :
  let d := ex13_posted <| d_total_validators := 81921 |> in let W := ex13_world d [] 0 in
  finalize_debt_ready W 2 5 ex13_cfg d [] /\ wallet_funds W 1 (finalize_debt_topup W 5 d) /\
  snd (exec_tx W (rd_tx [KUser 2; KUser 1] RFinalizeDebt (sdk_finalize_debt (KUser 2) 5 (KUser 1)))) = false.
Proof. cbv zeta. split; [constructor; closed|]. split; [constructor; closed|]. vm_compute. reflexivity. Qed.

Definition ex13_final : dist := fd_dist ex13_posted [].
Example enable_write_off_progress_nonvacuous :
  let W := ex13_world ex13_final [0] 0 in
  enable_write_off_ready W 5 ex13_cfg ex13_final [0] /\ wallet_funds W 1 (enable_write_off_topup W 5 ex13_final) /\
  let '(W', ok) := exec_tx W (rd_tx [KUser 1] REnableWriteOff (sdk_enable_write_off 5 (KUser 1))) in
  ok = true /\ agree W' (enable_write_off_acct W 5 1 ex13_final [0]) = true /\
  get W' (KRdDist 5) = ex_acct (rent (LEN_DIST + 2)) (LEN_DIST + 2) (DDist (ew_dist ex13_final [0]) [0; 0]).
Proof. cbv zeta. split; [constructor; closed|]. split; [constructor; closed|]. vm_compute. repeat split. Qed.

Definition ex13_rewards_posted : dist := ex13_final <| d_total_contributors := 2 |> <| d_rewards_root := tree_root PRE_REWARD ex_rewards |>.
Example configure_rewards_progress_nonvacuous :
  let W := ex13_world ex13_final [0] 0 in
  configure_rewards_ready W 3 5 ex13_cfg ex13_final [0] /\
  let '(W', ok) := exec_tx W (rd_tx [KUser 3] (RConfigureRewards 2 (tree_root PRE_REWARD ex_rewards)) (sdk_configure_rewards (KUser 3) 5)) in
  ok = true /\ agree W' (configure_rewards_acct W 5 2 (tree_root PRE_REWARD ex_rewards) ex13_final [0]) = true /\
  data (get W' (KRdDist 5)) = DDist ex13_rewards_posted [0].
Proof. cbv zeta. split; [constructor; closed|]. vm_compute. repeat split. Qed.
Example finalize_rewards_progress_nonvacuous :
  let W := ex13_world ex13_rewards_posted [0] 0 in
  finalize_rewards_ready W 5 ex13_cfg ex13_rewards_posted [0] /\ wallet_funds W 1 (finalize_rewards_amount W 5 ex13_rewards_posted) /\
  finalize_rewards_amount W 5 ex13_rewards_posted = 2 * 6000 + 6960 /\
  let '(W', ok) := exec_tx W (rd_tx [KUser 1] RFinalizeRewards (sdk_finalize_rewards (KUser 1) 5)) in
  ok = true /\ agree W' (finalize_rewards_acct W 5 1 ex13_rewards_posted [0]) = true /\
  get W' (KRdDist 5) = ex_acct (rent (LEN_DIST + 2) + 12000) (LEN_DIST + 2) (DDist (fr_dist ex13_rewards_posted [0]) [0; 0]).
Proof. cbv zeta. split; [constructor; closed|]. split; [constructor; closed|]. vm_compute. repeat split. Qed.
