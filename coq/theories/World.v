(* Accounts, instruction context and the runtime rules the properties lean on.  Executable definitions only.
   Every rule here is checked against solana-program-test's bank by the correspondence families (never proved). *)
From DZ Require Import Base Keys Merkle BurnRate Swap_Ring State.

Record meta := { mkey : key; msigner : bool; mwritable : bool }.
Record world := { accts : kmap acct; now : N }.
#[export] Instance eta_world : Settable _ := settable! Build_world <accts; now>.

Definition get (W : world) (k : key) : acct := match lookup k (accts W) with Some a => a | None => empty_acct end.
Definition put (W : world) (k : key) (a : acct) : world := W <| accts := upd k a (accts W) |>.

(* the most recent processed sibling instruction (same stack height, same transaction) *)
Inductive sib_kind := SibTransferChecked (amount : N) | SibOther.
Record sibling := { sb_prog : key; sb_kind : sib_kind; sb_accounts : list key }.

Record ctx := {
  cx_prog : key;                 (* executing program id *)
  cx_metas : list meta;          (* the instruction's accounts with the flags the program sees *)
  cx_height : N;                 (* stack height; 1 = transaction level *)
  cx_sibling : option sibling
}.

(* signer / writable are functions of the key within one instruction (duplicates carry the same flags) *)
Definition has_key (ms : list meta) (k : key) : bool := existsb (fun m => key_eqb (mkey m) k) ms.
Definition is_signer (ms : list meta) (k : key) : bool := existsb (fun m => key_eqb (mkey m) k && msigner m) ms.
Definition is_writable (ms : list meta) (k : key) : bool := existsb (fun m => key_eqb (mkey m) k && mwritable m) ms.

(* ---- direct account modifications by the executing program (checked by the runtime after the instruction) ---- *)
Definition credit (cx : ctx) (W : world) (k : key) (amt : N) : result world :=
  if amt =? 0 then Ok W else
  _ <- require (is_writable (cx_metas cx) k) (ERuntime 1) ;;                 (* ReadonlyLamportChange *)
  let a := get W k in Ok (put W k (a <| lamports := lamports a + amt |>)).
Definition debit (cx : ctx) (W : world) (k : key) (amt : N) : result world :=
  if amt =? 0 then Ok W else
  let a := get W k in
  _ <- require (is_writable (cx_metas cx) k) (ERuntime 1) ;;
  _ <- require (key_eqb (owner a) (cx_prog cx)) (ERuntime 2) ;;              (* ExternalAccountLamportSpend *)
  _ <- require (amt <=? lamports a) (ERuntime 3) ;;                           (* u64 underflow => unbalanced instruction *)
  Ok (put W k (a <| lamports := lamports a - amt |>)).
Definition set_lamports_to_zero (cx : ctx) (W : world) (k : key) : result world := debit cx W k (lamports (get W k)).
Definition write_data (cx : ctx) (W : world) (k : key) (d : adata) : result world :=
  let a := get W k in
  _ <- require (is_writable (cx_metas cx) k) (ERuntime 4) ;;                 (* ReadonlyDataModified *)
  _ <- require (key_eqb (owner a) (cx_prog cx)) (ERuntime 5) ;;              (* ExternalAccountDataModified *)
  Ok (put W k (a <| data := d |>)).
(* AccountInfo::resize: at most MAX_PERMITTED_DATA_INCREASE per instruction; new bytes are zero *)
Definition resize (cx : ctx) (W : world) (k : key) (new_len : N) : result world :=
  let a := get W k in
  _ <- require (new_len <=? alen a + MAX_REALLOC) EInvalidArgument ;;        (* InvalidRealloc *)
  _ <- require (is_writable (cx_metas cx) k) (ERuntime 4) ;;
  _ <- require (key_eqb (owner a) (cx_prog cx)) (ERuntime 5) ;;
  Ok (put W k (a <| alen := new_len |>)).

(* ---- account iteration (program-tools account_info/iter.rs) ---- *)
Definition next_account (ms : list meta) (must_sign must_write : bool) (own : option key) (W : world)
  : result (meta * list meta) :=
  match ms with
  | [] => Err ENotEnoughAccountKeys
  | m :: tl =>
    _ <- require (negb must_sign || msigner m) EMissingRequiredSignature ;;
    _ <- require (negb must_write || mwritable m) EInvalidAccountData ;;
    _ <- require (match own with Some p => key_eqb (owner (get W (mkey m))) p | None => true end) EInvalidAccountOwner ;;
    Ok (m, tl)
  end.
Definition next_any (ms : list meta) (W : world) := next_account ms false false None W.

(* ---- CPI privilege rules (solana-program-runtime prepare_next_instruction) ---- *)
(* which program can sign for a derived address with seeds *)
Definition pda_program (k : key) : option key :=
  match k with
  | KRdConfig | KRdJournal | KRdDist _ | KRdDeposit _ | KRdContrib _ | KRdSwapAuth | KTok2z _ => Some KRd
  | KWithdrawAuth p => Some p
  | KPpConfig | KPpRequest _ => Some KPassport
  | KSwapCfg | KSwapState => Some KSwapMock
  | KNonCanon base _ =>
      match base with
      | KRdConfig | KRdJournal | KRdDist _ | KRdDeposit _ | KRdContrib _ | KRdSwapAuth | KTok2z _ => Some KRd
      | KWithdrawAuth p => Some p
      | KPpConfig | KPpRequest _ => Some KPassport
      | KSwapCfg | KSwapState => Some KSwapMock
      | _ => None
      end
  | _ => None
  end.
Definition pda_signs (prog k : key) (pdas : list key) : bool :=
  existsb (key_eqb k) pdas && match pda_program k with Some p => key_eqb p prog | None => false end.

(* callee metas for the CPI; returns the flags the callee sees *)
Definition cpi_metas (cx : ctx) (callee : key) (want : list meta) (pdas : list key) : result (list meta) :=
  _ <- require (has_key (cx_metas cx) callee) (ERuntime 10) ;;                         (* unknown program *)
  _ <- require (forallb (fun m => has_key (cx_metas cx) (mkey m)) want) (ERuntime 11) ;;   (* unknown account *)
  _ <- require (forallb (fun m => negb (mwritable m) || is_writable (cx_metas cx) (mkey m)) want) (ERuntime 12) ;; (* writable escalation *)
  _ <- require (forallb (fun m => negb (msigner m) || is_signer (cx_metas cx) (mkey m) || pda_signs (cx_prog cx) (mkey m) pdas) want)
               (ERuntime 13) ;;                                                          (* signer escalation *)
  (* duplicates OR their flags *)
  Ok (map (fun m => {| mkey := mkey m; msigner := is_signer want (mkey m); mwritable := is_writable want (mkey m) |}) want).
Definition mk (k : key) (s w : bool) : meta := {| mkey := k; msigner := s; mwritable := w |}.

(* ---- System program: `ms` are the metas the System program sees (top level or via CPI) ---- *)
Definition sys_transfer_core (W : world) (ms : list meta) (from to : key) (amt : N) : result world :=
  _ <- require (is_signer ms from) EMissingRequiredSignature ;;
  let f := get W from in
  _ <- require (alen f =? 0) EInvalidArgument ;;                         (* `from` must not carry data *)
  _ <- require (amt <=? lamports f) (ECustom 1) ;;                       (* SystemError::ResultWithNegativeLamports *)
  _ <- require (key_eqb (owner f) KSystem || (amt =? 0)) (ERuntime 2) ;;
  _ <- require (is_writable ms from && is_writable ms to) (ERuntime 1) ;;
  let W := put W from (f <| lamports := lamports f - amt |>) in
  let t := get W to in
  Ok (put W to (t <| lamports := lamports t + amt |>)).
Definition sys_allocate_core (W : world) (ms : list meta) (k : key) (space : N) : result world :=
  _ <- require (is_signer ms k) EMissingRequiredSignature ;;
  let a := get W k in
  _ <- require ((alen a =? 0) && key_eqb (owner a) KSystem) (ECustom 0) ;;     (* AccountAlreadyInUse *)
  _ <- require (space <=? 10485760) (ECustom 3) ;;                              (* InvalidAccountDataLength *)
  _ <- require (is_writable ms k || (space =? 0)) (ERuntime 4) ;;
  Ok (put W k (a <| alen := space |> <| data := DEmpty |>)).
Definition sys_assign_core (W : world) (ms : list meta) (k : key) (new_owner : key) : result world :=
  let a := get W k in
  if key_eqb (owner a) new_owner then Ok W else
  _ <- require (is_signer ms k) EMissingRequiredSignature ;;
  _ <- require (key_eqb (owner a) KSystem) (ERuntime 6) ;;                      (* ModifiedProgramId *)
  _ <- require (is_writable ms k) (ERuntime 6) ;;
  Ok (put W k (a <| owner := new_owner |>)).
Definition sys_create_account_core (W : world) (ms : list meta) (from to : key) (lam space : N) (new_owner : key)
  : result world :=
  _ <- require (is_signer ms to) EMissingRequiredSignature ;;
  let t := get W to in
  _ <- require (lamports t =? 0) (ECustom 0) ;;                                (* AccountAlreadyInUse *)
  _ <- require ((alen t =? 0) && key_eqb (owner t) KSystem) (ECustom 0) ;;
  _ <- require (space <=? 10485760) (ECustom 3) ;;
  _ <- require (is_writable ms to) (ERuntime 4) ;;
  let W := put W to (t <| alen := space |> <| owner := new_owner |> <| data := DEmpty |>) in
  sys_transfer_core W ms from to lam.

Definition sys_transfer (cx : ctx) (W : world) (from to : key) (amt : N) (pdas : list key) : result world :=
  ms <- cpi_metas cx KSystem [mk from true true; mk to false true] pdas ;;
  sys_transfer_core W ms from to amt.
Definition sys_allocate (cx : ctx) (W : world) (k : key) (space : N) (pdas : list key) : result world :=
  ms <- cpi_metas cx KSystem [mk k true true] pdas ;;
  sys_allocate_core W ms k space.
Definition sys_assign (cx : ctx) (W : world) (k : key) (new_owner : key) (pdas : list key) : result world :=
  ms <- cpi_metas cx KSystem [mk k true true] pdas ;;
  sys_assign_core W ms k new_owner.
Definition sys_create_account (cx : ctx) (W : world) (from to : key) (lam space : N) (new_owner : key) (pdas : list key)
  : result world :=
  ms <- cpi_metas cx KSystem [mk from true true; mk to true true] pdas ;;
  sys_create_account_core W ms from to lam space new_owner.

(* ---- SPL Token (the instructions the programs CPI into, plus what scenarios use at top level) ---- *)
Definition as_token (W : world) (k : key) : result token_acct :=
  let a := get W k in
  match data a with
  | DToken t => if key_eqb (owner a) KToken then Ok t else Err EIncorrectProgramId
  | _ => Err EInvalidAccountData
  end.
Definition as_mint (W : world) (k : key) : result mint_acct :=
  let a := get W k in
  match data a with
  | DMint m => if key_eqb (owner a) KToken then Ok m else Err EIncorrectProgramId
  | _ => Err EInvalidAccountData
  end.
Definition put_token (W : world) (k : key) (t : token_acct) : world := let a := get W k in put W k (a <| data := DToken t |>).

(* Processor::process_transfer; `checked` = Some (mint key, decimals) for TransferChecked *)
Definition tok_transfer_core (W : world) (ms : list meta) (src dst auth : key) (amt : N) (checked : option (key * N))
  : result world :=
  s <- as_token W src ;;
  d <- as_token W dst ;;
  _ <- require (amt <=? t_amount s) (ECustom 1) ;;                               (* TokenError::InsufficientFunds *)
  _ <- require (key_eqb (t_mint s) (t_mint d)) (ECustom 3) ;;                     (* MintMismatch *)
  _ <- match checked with
       | Some (mk_, dec) =>
           _ <- require (key_eqb (t_mint s) mk_) (ECustom 3) ;;
           m <- as_mint W mk_ ;;
           require (dec =? m_decimals m) (ECustom 18)                             (* MintDecimalsMismatch *)
       | None => Ok tt
       end ;;
  _ <- require (key_eqb (t_owner s) auth) (ECustom 4) ;;                          (* OwnerMismatch *)
  _ <- require (is_signer ms auth) EMissingRequiredSignature ;;
  if key_eqb src dst then Ok W else
  if amt =? 0 then Ok W else
  _ <- require (is_writable ms src && is_writable ms dst) (ERuntime 4) ;;
  let W := put_token W src (s <| t_amount := t_amount s - amt |>) in
  d' <- as_token W dst ;;
  _ <- require (t_amount d' + amt <? two64) (ECustom 14) ;;                       (* Overflow *)
  Ok (put_token W dst (d' <| t_amount := t_amount d' + amt |>)).
Definition tok_transfer (cx : ctx) (W : world) (src dst auth : key) (amt : N) (pdas : list key) : result world :=
  ms <- cpi_metas cx KToken [mk src false true; mk dst false true; mk auth true false] pdas ;;
  tok_transfer_core W ms src dst auth amt None.
Definition tok_transfer_checked (cx : ctx) (W : world) (src mint dst auth : key) (amt dec : N) (pdas : list key)
  : result world :=
  ms <- cpi_metas cx KToken [mk src false true; mk mint false false; mk dst false true; mk auth true false] pdas ;;
  tok_transfer_core W ms src dst auth amt (Some (mint, dec)).
Definition tok_burn_core (W : world) (ms : list meta) (acc mint auth : key) (amt : N) : result world :=
  s <- as_token W acc ;;
  m <- as_mint W mint ;;
  _ <- require (amt <=? t_amount s) (ECustom 1) ;;
  _ <- require (key_eqb (t_mint s) mint) (ECustom 3) ;;
  _ <- require (key_eqb (t_owner s) auth) (ECustom 4) ;;
  _ <- require (is_signer ms auth) EMissingRequiredSignature ;;
  if amt =? 0 then Ok W else
  _ <- require (is_writable ms acc && is_writable ms mint) (ERuntime 4) ;;
  _ <- require (amt <=? m_supply m) (ECustom 14) ;;                    (* mint.supply.checked_sub(amount): TokenError::Overflow *)
  let W := put_token W acc (s <| t_amount := t_amount s - amt |>) in
  let a := get W mint in
  Ok (put W mint (a <| data := DMint (m <| m_supply := m_supply m - amt |>) |>)).
Definition tok_burn (cx : ctx) (W : world) (acc mint auth : key) (amt : N) (pdas : list key) : result world :=
  ms <- cpi_metas cx KToken [mk acc false true; mk mint false true; mk auth true false] pdas ;;
  tok_burn_core W ms acc mint auth amt.
Definition tok_init_account3 (cx : ctx) (W : world) (acc mint owner_ : key) : result world :=
  ms <- cpi_metas cx KToken [mk acc false true; mk mint false false] [] ;;
  let a := get W acc in
  _ <- require (alen a =? LEN_TOKEN) EInvalidAccountData ;;
  _ <- match data a with DEmpty => Ok tt | DToken _ => Err (ECustom 6) | _ => Err EInvalidAccountData end ;;   (* AlreadyInUse *)
  _ <- require (rent LEN_TOKEN <=? lamports a) (ECustom 0) ;;                    (* NotRentExempt *)
  _ <- as_mint W mint ;;
  _ <- require (key_eqb (owner a) KToken) (ERuntime 5) ;;
  Ok (put W acc (a <| data := DToken {| t_mint := mint; t_owner := owner_; t_amount := 0 |} |>)).

(* ---- program-tools recipes ---- *)
(* try_create_account(Invoker::Signer(payer), Invoker::Pda{new}, current_lamports, len, owner, .., additional) *)
Definition create_account (cx : ctx) (W : world) (payer new_ : key) (len : N) (new_owner : key) (additional : N)
  : result world :=
  let cur := lamports (get W new_) in
  let lam := sat_add two64 additional (rent len) in
  if cur =? 0 then sys_create_account cx W payer new_ lam len new_owner [new_]
  else
    W <- sys_allocate cx W new_ len [new_] ;;
    W <- sys_assign cx W new_ new_owner [new_] ;;
    let diff := lam - cur in
    if diff =? 0 then Ok W else sys_transfer cx W payer new_ diff [].
Definition create_token_account (cx : ctx) (W : world) (payer new_ mint token_owner : key) : result world :=
  W <- create_account cx W payer new_ LEN_TOKEN KToken 0 ;;
  tok_init_account3 cx W new_ mint token_owner.

(* zero_copy::try_initialize::<T>: the account must be large enough and carry an all-zero discriminator *)
Definition try_initialize (cx : ctx) (W : world) (k : key) (min_len : N) (d : adata) : result world :=
  let a := get W k in
  _ <- require (min_len <=? alen a) EInvalidAccountData ;;                       (* AccountDataTooSmall *)
  _ <- match data a with DEmpty => Ok tt | _ => Err EInvalidAccountData end ;;   (* already initialized *)
  write_data cx W k d.

(* UpgradeAuthority::try_next_accounts *)
Definition next_upgrade_authority (ms : list meta) (prog : key) (W : world) : result (key * list meta) :=
  '(pd, ms) <- next_any ms W ;;
  _ <- require (key_eqb (mkey pd) (KProgData prog)) EInvalidAccountData ;;
  '(ow, ms) <- next_account ms true false None W ;;
  match data (get W (mkey pd)) with
  | DProgData (Some auth) => _ <- require (key_eqb (mkey ow) auth) EInvalidAccountData ;; Ok (mkey ow, ms)
  | _ => Err EInvalidAccountData
  end.

(* ---- end-of-transaction rules ---- *)
Inductive rent_state := RsUninit | RsPaying (len lam : N) | RsExempt.
Definition rent_state_of (a : acct) : rent_state :=
  if lamports a =? 0 then RsUninit else if rent (alen a) <=? lamports a then RsExempt else RsPaying (alen a) (lamports a).
Definition rent_transition_ok (pre post : acct) : bool :=
  match rent_state_of post with
  | RsUninit | RsExempt => true
  | RsPaying len lam =>
      match rent_state_of pre with
      | RsPaying len0 lam0 => (len =? len0) && (lam <=? lam0)
      | _ => false
      end
  end.
(* zero-lamport accounts are purged when the transaction ends *)
Definition purge (W : world) : world :=
  W <| accts := map (fun '(k, a) => if lamports a =? 0 then (k, empty_acct) else (k, a)) (accts W) |>.
