(* programs/passport/src/processor.rs transcribed helper-for-helper, in source order.  Executable definitions only. *)
From DZ Require Import Base Keys Merkle BurnRate Swap_Ring State World.

Inductive pp_flag := PFIsPaused (b : bool) | PFIsRequestAccessPaused (b : bool).
Inductive pp_setting :=
| PSFlag (f : pp_flag)
| PSSentinel (k : key)
| PSAccessRequestDeposit (deposit fee : N)
| PSBackupIdsLimit (limit : N).
Inductive pp_ix :=
| PInitializeProgram
| PSetAdmin (k : key)
| PConfigureProgram (s : pp_setting)
| PRequestAccess (m : access_mode)
| PGrantAccess
| PDenyAccess.

(* ZeroCopyAccount::<ProgramConfig>::try_next_accounts(.., Some(&ID)) *)
Definition pp_zc_config (ms : list meta) (must_write : bool) (W : world) : result (key * pp_config * list meta) :=
  '(m, ms) <- next_account ms false must_write (Some KPassport) W ;;
  match data (get W (mkey m)) with
  | DPpConfig c => Ok (mkey m, c, ms)
  | _ => Err EInvalidAccountData
  end.
Definition pp_zc_request (ms : list meta) (W : world) : result (key * access_request * list meta) :=
  '(m, ms) <- next_account ms false false (Some KPassport) W ;;
  match data (get W (mkey m)) with
  | DAccessReq r => Ok (mkey m, r, ms)
  | _ => Err EInvalidAccountData
  end.
Inductive pp_authority := PAAdmin | PASentinel.
(* VerifiedProgramAuthority(Mut)::try_next_accounts *)
Definition pp_verified (ms : list meta) (must_write : bool) (who : pp_authority) (W : world)
  : result (key * pp_config * key * list meta) :=
  '(ck, c, ms) <- pp_zc_config ms must_write W ;;
  '(a, ms) <- next_account ms true false None W ;;
  _ <- require (key_eqb (mkey a) (match who with PAAdmin => pc_admin c | PASentinel => pc_sentinel c end)) EInvalidAccountData ;;
  Ok (ck, c, mkey a, ms).

(* Borsh length of an AccessMode: 1 + 128 (+ 4 + 32 n) *)
Definition access_mode_len (m : access_mode) : N :=
  match m with AMValidator _ => 129 | AMValidatorWithBackups _ b => 133 + 32 * N.of_nat (length b) end.
Definition access_mode_service (m : access_mode) : key :=
  match m with AMValidator a => at_service a | AMValidatorWithBackups a _ => at_service a end.

Definition pp_initialize_program (cx : ctx) (W : world) : result world :=
  let ms := cx_metas cx in
  '(payer, ms) <- next_any ms W ;;
  '(newc, ms) <- next_any ms W ;;
  _ <- require (key_eqb (mkey newc) KPpConfig) EInvalidSeeds ;;
  W <- create_account cx W (mkey payer) KPpConfig LEN_PP_CONFIG KPassport 0 ;;
  try_initialize cx W KPpConfig LEN_PP_CONFIG (DPpConfig pp_config_default).

Definition pp_set_admin (cx : ctx) (W : world) (admin : key) : result world :=
  '(_, ms) <- next_upgrade_authority (cx_metas cx) KPassport W ;;
  '(ck, c, ms) <- pp_zc_config ms true W ;;
  write_data cx W ck (DPpConfig (c <| pc_admin := admin |>)).

Definition pp_configure_program (cx : ctx) (W : world) (s : pp_setting) : result world :=
  '(ck, c, _, ms) <- pp_verified (cx_metas cx) true PAAdmin W ;;
  c' <- match s with
        | PSFlag (PFIsPaused b) => Ok (c <| pc_paused := b |>)
        | PSFlag (PFIsRequestAccessPaused b) => Ok (c <| pc_request_paused := b |>)
        | PSSentinel k => Ok (c <| pc_sentinel := k |>)
        | PSAccessRequestDeposit dep fee =>
            _ <- require (negb (dep =? 0)) EInvalidInstructionData ;;
            _ <- require (fee <? dep) EInvalidInstructionData ;;
            Ok (c <| pc_deposit := dep |> <| pc_fee := fee |>)
        | PSBackupIdsLimit l =>
            _ <- require (negb (l =? 0)) EInvalidInstructionData ;;
            Ok (c <| pc_backup_limit := l |>)
        end ;;
  write_data cx W ck (DPpConfig c').

Definition pp_request_access (cx : ctx) (W : world) (mode : access_mode) : result world :=
  _ <- require (cx_height cx =? 1) EInvalidInstructionData ;;
  '(ck, c, ms) <- pp_zc_config (cx_metas cx) false W ;;
  _ <- require (negb (pc_paused c)) EInvalidAccountData ;;
  _ <- require (negb (pc_request_paused c)) EInvalidAccountData ;;
  _ <- match mode with
       | AMValidator _ => Ok tt
       | AMValidatorWithBackups _ b =>
           _ <- require (negb (N.of_nat (length b) =? 0)) EInvalidInstructionData ;;
           require (N.of_nat (length b) <=? pc_backup_limit c) EInvalidInstructionData
       end ;;
  let svc := access_mode_service mode in
  _ <- require (negb (is_default svc)) EInvalidInstructionData ;;
  _ <- require (negb (pc_deposit c =? 0)) EInvalidAccountData ;;
  '(payer, ms) <- next_any ms W ;;
  '(newr, ms) <- next_any ms W ;;
  _ <- require (key_eqb (mkey newr) (KPpRequest svc)) EInvalidSeeds ;;
  W <- create_account cx W (mkey payer) (KPpRequest svc) LEN_ACCESS_REQ KPassport (pc_deposit c) ;;
  (* borsh::to_writer into the fixed 4096-byte field fails when the encoding does not fit *)
  _ <- require (access_mode_len mode <=? ACCESS_MODE_MAX) EInvalidAccountData ;;
  try_initialize cx W (KPpRequest svc) LEN_ACCESS_REQ
    (DAccessReq {| ar_service := svc; ar_beneficiary := mkey payer; ar_fee := pc_fee c; ar_mode := mode |}).

Definition pp_grant_access (cx : ctx) (W : world) : result world :=
  '(ck, c, sentinel, ms) <- pp_verified (cx_metas cx) false PASentinel W ;;
  _ <- require (negb (pc_paused c)) EInvalidAccountData ;;
  '(rk, r, ms) <- pp_zc_request ms W ;;
  (* the request's lamports stay mutably borrowed until the end: touching the same account through another
     AccountInfo (sentinel or beneficiary aliasing the request) is a RefCell double borrow, i.e. a panic *)
  _ <- require (negb (key_eqb sentinel rk)) EAccountBorrowFailed ;;
  let fee := ar_fee r in
  let bal := lamports (get W rk) in
  let refund := bal - fee in                                   (* saturating_sub *)
  '(ben, ms) <- next_any ms W ;;
  _ <- require (key_eqb (mkey ben) (ar_beneficiary r)) EInvalidAccountData ;;
  _ <- require (negb (key_eqb (mkey ben) rk)) EAccountBorrowFailed ;;
  (* lamport moves; the request account's balance is set to zero last *)
  W <- set_lamports_to_zero cx W rk ;;
  W <- credit cx W sentinel fee ;;
  credit cx W (mkey ben) refund.

Definition pp_deny_access (cx : ctx) (W : world) : result world :=
  '(ck, c, sentinel, ms) <- pp_verified (cx_metas cx) false PASentinel W ;;
  _ <- require (negb (pc_paused c)) EInvalidAccountData ;;
  '(rk, r, ms) <- pp_zc_request ms W ;;
  _ <- require (negb (key_eqb sentinel rk)) EAccountBorrowFailed ;;
  let bal := lamports (get W rk) in
  W <- set_lamports_to_zero cx W rk ;;
  credit cx W sentinel bal.

Definition pp_process (cx : ctx) (W : world) (ix : pp_ix) : result world :=
  match ix with
  | PInitializeProgram => pp_initialize_program cx W
  | PSetAdmin k => pp_set_admin cx W k
  | PConfigureProgram s => pp_configure_program cx W s
  | PRequestAccess m => pp_request_access cx W m
  | PGrantAccess => pp_grant_access cx W
  | PDenyAccess => pp_deny_access cx W
  end.
