(* C13: the swap step through the mock swap program (BuySol = Token TransferChecked + WithdrawSol CPI) realises swap_effect;
   with it the whole epoch is one list of transactions without any assumption on foreign behaviour. *)
From DZ Require Import Base Keys Merkle BurnRate Shares Swap_Ring State World SwapDeq RD Passport Swap Exec Corr Builders
  Lemmas_Merkle Lemmas_Shares Lemmas_RdSpecs5 Lemmas_C13 Lemmas_C13b Lemmas_C13c Lemmas_C13d Lemmas_C13f Lemmas_C13g Lemmas_C13h Lemmas_C13i.

(* the mock's BuySol account list: fills registry, buyer's 2Z account, mint, swap destination, buyer (signer), RD config,
   withdraw authority (the mock's PDA), journal, SOL destination (the buyer), Token program, RD program *)
Definition buy_metas (q b : N) : list meta :=
  [mk (KUser q) false true; mk (KAta (KUser b) KMint) false true; mk KMint false false; mk (KTok2z KRdSwapAuth) false true;
   mk (KUser b) true false; mk KRdConfig false false; mk (KWithdrawAuth KSwapMock) false false; mk KRdJournal false true;
   mk (KUser b) false true; mk KToken false false; mk KRd false false].
Definition buy_tx (q b z sol : N) : tx :=
  {| tx_signers := [KUser b]; tx_ixs := [{| i_prog := KSwapMock; i_data := IxSwap (SBuySol z sol); i_metas := buy_metas q b |}] |}.
Definition buy_eff (q b : N) : list meta :=
  [mk (KUser q) false true; mk (KAta (KUser b) KMint) false true; mk KMint false false; mk (KTok2z KRdSwapAuth) false true;
   mk (KUser b) true true; mk KRdConfig false false; mk (KWithdrawAuth KSwapMock) false false; mk KRdJournal false true;
   mk (KUser b) true true; mk KToken false false; mk KRd false false].
Lemma buy_effective q b z sol : q <> b -> effective (buy_tx q b z sol) (buy_metas q b) = buy_eff q b.
Proof.
  intros H. assert (q =? b = false) as E1 by (apply N.eqb_neq; assumption). assert (b =? q = false) as E2 by (apply N.eqb_neq; congruence).
  cbv [effective buy_metas buy_tx msg_signer msg_writable is_writable mk map tx_signers tx_ixs i_metas existsb mkey msigner mwritable
       key_eqb andb orb buy_eff].
  rewrite ?N.eqb_refl, ?E1, ?E2. reflexivity.
Qed.

Lemma lamports_set_data (a : acct) x : lamports (a <| data := x |>) = lamports a. Proof. reflexivity. Qed.

Lemma t_amount_set_l (t : token_acct) x : t_amount (t <| t_amount := x |>) = x. Proof. reflexivity. Qed.

Record buy_ready (W : world) (q b z sol : N) (c : rd_config) (j : journal) (rg rg' : ring) (sb sd : token_acct) (m : mint_acct) : Prop := {
  by_ne : q <> b;
  by_fills_owner : owner (get W (KUser q)) = KSwapMock;
  by_fills_data : data (get W (KUser q)) = DFills rg;
  by_fills_lam : lamports (get W (KUser q)) <> 0;
  by_buy : buy rg {| sol_in := sol; z_out := z |} = Some rg';                     (* the registry is not full *)
  by_src : as_token W (KAta (KUser b) KMint) = Ok sb /\ t_owner sb = KUser b /\ t_mint sb = KMint /\ z <= t_amount sb /\
           lamports (get W (KAta (KUser b) KMint)) <> 0;                           (* the buyer holds the 2Z *)
  by_mint : as_mint W KMint = Ok m /\ m_decimals m = MINT_DECIMALS;
  by_dst : as_token W (KTok2z KRdSwapAuth) = Ok sd /\ t_mint sd = KMint /\ t_amount sd + z < two64 /\
           lamports (get W (KTok2z KRdSwapAuth)) <> 0;
  by_cfg_owner : owner (get W KRdConfig) = KRd;
  by_cfg_data : data (get W KRdConfig) = DConfig c;
  by_unpaused : c_paused c = false;
  by_cfg : c_has_withdraw_bump c = true /\ c_swap_program c = KSwapMock /\ c_has_swap_auth_bump c = true;
  by_j_owner : owner (get W KRdJournal) = KRd;
  by_j_data : data (get W KRdJournal) = DJournal j;
  by_pool : sol <= j_total_sol j;                                                 (* the pool holds the SOL .. *)
  by_j_rent : rent (alen (get W KRdJournal)) + sol <= lamports (get W KRdJournal);  (* .. as lamports above the rent *)
  by_buyer : rent (alen (get W (KUser b))) <= lamports (get W (KUser b)) + sol
}.

Definition buy_cx (q b : N) : ctx := {| cx_prog := KSwapMock; cx_metas := buy_eff q b; cx_height := 1; cx_sibling := None |}.

Ltac swgo := cbn [bind require of_option mkey msigner mwritable negb orb andb fst snd cx_metas cx_prog cx_height cx_sibling key_eqb
                  existsb forallb is_writable is_signer has_key map buy_eff buy_cx mk pda_signs pda_program sb_prog sb_kind sb_accounts
                  nth is_default default_key].

Definition buy_world (W : world) (q b z sol : N) (j : journal) (rg' : ring) (sb sd : token_acct) : world :=
  let Wa := put W (KUser q) (get W (KUser q) <| data := DFills rg' |>) in
  let Wb := tok_move_w Wa (KAta (KUser b) KMint) (KTok2z KRdSwapAuth) sb sd z in
  credit_w (debit_w (put Wb KRdJournal (get Wb KRdJournal <| data := DJournal (ws_journal j sol z) |>)) KRdJournal sol) (KUser b) sol.

Lemma sw_buy_sol_go W q b z sol c j rg rg' sb sd m :
  buy_ready W q b z sol c j rg rg' sb sd m ->
  sw_buy_sol (buy_cx q b) W z sol = Ok (buy_world W q b z sol j rg' sb sd).
Proof.
  intros R. destruct R. destruct by_src0 as (Hs & Hso & Hsm & Hsa & Hsl). destruct by_mint0 as (Hm & Hmd).
  destruct by_dst0 as (Hd & Hdm & Hda & Hdl). destruct by_cfg0 as (C1 & C2 & C3).
  assert (q =? b = false) as E1 by (apply N.eqb_neq; assumption). assert (b =? q = false) as E2 by (apply N.eqb_neq; congruence).
  unfold sw_buy_sol, sw_zc_fills, next_any, next_account. swgo. rewrite by_fills_owner0. swgo. rewrite by_fills_data0. swgo.
  rewrite by_buy0. swgo.
  unfold write_data at 1. swgo. rewrite ?N.eqb_refl, ?E1, ?E2. swgo. rewrite by_fills_owner0. swgo.
  set (Wa := put W (KUser q) (get W (KUser q) <| data := DFills rg' |>)).
  assert (as_token Wa (KAta (KUser b) KMint) = Ok sb) as Hs' by (subst Wa; rewrite as_token_put_other by discriminate; assumption).
  assert (as_token Wa (KTok2z KRdSwapAuth) = Ok sd) as Hd' by (subst Wa; rewrite as_token_put_other by discriminate; assumption).
  assert (as_mint Wa KMint = Ok m) as Hm' by (subst Wa; unfold as_mint; rewrite get_put_other by discriminate; exact Hm).
  unfold tok_transfer_checked, cpi_metas. swgo. rewrite ?N.eqb_refl, ?E1, ?E2. swgo.
  unfold tok_transfer_core. rewrite Hs', Hd'. swgo.
  assert (z <=? t_amount sb = true) as Hle by (apply N.leb_le; assumption). rewrite Hle, Hsm, Hdm. swgo.
  rewrite Hm'. swgo. rewrite Hmd, N.eqb_refl. swgo. rewrite Hso. swgo. rewrite ?N.eqb_refl. swgo.
  match goal with |- context [if z =? 0 then Ok Wa else ?X] =>
    replace (if z =? 0 then Ok Wa else X) with (Ok (tok_move_w Wa (KAta (KUser b) KMint) (KTok2z KRdSwapAuth) sb sd z)) end.
  2:{ unfold tok_move_w. destruct (z =? 0); [reflexivity|]. rewrite as_token_put_token_other, Hd' by discriminate. cbn [bind].
      apply N.ltb_lt in Hda. rewrite Hda. reflexivity. }
  cbn [bind].
  set (Wb := tok_move_w Wa (KAta (KUser b) KMint) (KTok2z KRdSwapAuth) sb sd z).
  assert (forall k, get Wb k = if key_eqb (KAta (KUser b) KMint) k then get Wa (KAta (KUser b) KMint) <| data := DToken (sb <| t_amount := t_amount sb - z |>) |>
                               else if key_eqb (KTok2z KRdSwapAuth) k then get Wa (KTok2z KRdSwapAuth) <| data := DToken (sd <| t_amount := t_amount sd + z |>) |>
                               else get Wa k) as Gb by (intros k; apply get_tok_move_w; [assumption|assumption|discriminate]).
  assert (get Wb KRdConfig = get W KRdConfig) as Gbc by (rewrite Gb; cbn [key_eqb]; subst Wa; apply get_put_other; discriminate).
  assert (get Wb KRdJournal = get W KRdJournal) as Gbj by (rewrite Gb; cbn [key_eqb]; subst Wa; apply get_put_other; discriminate).
  unfold withdraw_sol_cpi, cpi_metas. swgo. rewrite ?N.eqb_refl, ?E1, ?E2. swgo.
  unfold rd_withdraw_sol, rd_zc_config, rd_zc_journal, require_unpaused, next_account. swgo.
  assert (sol <=? j_total_sol j = true) as Hpool by (apply N.leb_le; assumption).
  repeat progress (swgo; rewrite ?Gbc, ?Gbj, ?by_cfg_owner0, ?by_cfg_data0, ?by_unpaused0, ?C1, ?C2, ?C3, ?by_j_owner0, ?by_j_data0, ?Hpool, ?N.eqb_refl).
  rewrite write_data_go by (cbn [cx_metas cx_prog is_writable existsb mkey mwritable key_eqb andb orb]; rewrite ?Gbj; (reflexivity || assumption)).
  cbn [bind].
  rewrite debit_go; [| cbn [cx_metas is_writable existsb mkey mwritable key_eqb andb orb]; reflexivity
                     | rewrite get_put_same, Gbj; cbn [cx_prog]; assumption
                     | rewrite get_put_same, Gbj, lamports_set_data; lia ].
  cbn [bind].
  rewrite credit_go by (cbn [cx_metas is_writable existsb mkey mwritable key_eqb andb orb]; rewrite N.eqb_refl; reflexivity).
  reflexivity.
Qed.

Definition buy_acct (W : world) (q b z sol : N) (j : journal) (rg' : ring) (sb sd : token_acct) (k : key) : acct :=
  if key_eqb k KRdJournal then get W KRdJournal <| data := DJournal (ws_journal j sol z) |> <| lamports := lamports (get W KRdJournal) - sol |>
  else if key_eqb k (KUser b) then get W (KUser b) <| lamports := lamports (get W (KUser b)) + sol |>
  else if key_eqb k (KUser q) then get W (KUser q) <| data := DFills rg' |>
  else if key_eqb k (KAta (KUser b) KMint) then get W k <| data := DToken (sb <| t_amount := t_amount sb - z |>) |>
  else if key_eqb k (KTok2z KRdSwapAuth) then get W k <| data := DToken (sd <| t_amount := t_amount sd + z |>) |>
  else get W k.

Lemma get_buy_world W q b z sol c j rg rg' sb sd m :
  buy_ready W q b z sol c j rg rg' sb sd m -> forall k, get (buy_world W q b z sol j rg' sb sd) k = buy_acct W q b z sol j rg' sb sd k.
Proof.
  intros R k. destruct R. destruct by_src0 as (Hs & _). destruct by_dst0 as (Hd & _).
  unfold buy_world. cbv zeta.
  set (Wa := put W (KUser q) (get W (KUser q) <| data := DFills rg' |>)).
  assert (as_token Wa (KAta (KUser b) KMint) = Ok sb) as Hs' by (subst Wa; rewrite as_token_put_other by discriminate; assumption).
  assert (as_token Wa (KTok2z KRdSwapAuth) = Ok sd) as Hd' by (subst Wa; rewrite as_token_put_other by discriminate; assumption).
  set (Wb := tok_move_w Wa (KAta (KUser b) KMint) (KTok2z KRdSwapAuth) sb sd z).
  assert (forall k, get Wb k = if key_eqb (KAta (KUser b) KMint) k then get Wa (KAta (KUser b) KMint) <| data := DToken (sb <| t_amount := t_amount sb - z |>) |>
                               else if key_eqb (KTok2z KRdSwapAuth) k then get Wa (KTok2z KRdSwapAuth) <| data := DToken (sd <| t_amount := t_amount sd + z |>) |>
                               else get Wa k) as Gb by (intros k0; apply get_tok_move_w; [assumption|assumption|discriminate]).
  assert (forall k0, get Wa k0 = if key_eqb (KUser q) k0 then get W (KUser q) <| data := DFills rg' |> else get W k0) as Ga
    by (intros k0; subst Wa; apply get_put).
  unfold buy_acct. repeat (rewrite get_credit_w || rewrite get_debit_w || rewrite get_put || rewrite Gb || rewrite Ga).
  assert (b =? q = false) as E2 by (apply N.eqb_neq; congruence). assert (q =? b = false) as E1 by (apply N.eqb_neq; assumption).
  destruct (key_eqb_spec k KRdJournal) as [->|N1].
  { cbn [key_eqb]. apply acct_ext; reflexivity. }
  destruct (key_eqb_spec k (KUser b)) as [->|N2].
  { cbn [key_eqb]. rewrite ?N.eqb_refl, ?E1, ?E2. reflexivity. }
  rewrite ?(key_eqb_neq (KUser b) k), ?(key_eqb_neq KRdJournal k) by congruence.
  destruct (key_eqb_spec k (KUser q)) as [->|N3].
  { cbn [key_eqb]. rewrite ?N.eqb_refl, ?E1, ?E2. reflexivity. }
  rewrite ?(key_eqb_neq (KUser q) k) by congruence.
  destruct (key_eqb_spec k (KAta (KUser b) KMint)) as [->|N4].
  { cbn [key_eqb]. rewrite ?N.eqb_refl, ?E1, ?E2. reflexivity. }
  rewrite ?(key_eqb_neq (KAta (KUser b) KMint) k) by congruence.
  destruct (key_eqb_spec k (KTok2z KRdSwapAuth)) as [->|N5]; [cbn [key_eqb]; rewrite ?N.eqb_refl, ?E1, ?E2; reflexivity|].
  rewrite ?(key_eqb_neq (KTok2z KRdSwapAuth) k) by congruence. reflexivity.
Qed.

Lemma now_buy_world W q b z sol j rg' sb sd : now (buy_world W q b z sol j rg' sb sd) = now W.
Proof. unfold buy_world. cbv zeta. rewrite now_credit_w, now_debit_w, now_put, now_tok_move_w, now_put. reflexivity. Qed.

Theorem buy_sol_progress W q b z sol c j rg rg' sb sd m :
  buy_ready W q b z sol c j rg rg' sb sd m ->
  exists W', exec_tx W (buy_tx q b z sol) = (W', true) /\ now W' = now W /\
             forall k, get W' k = purge_acct (buy_acct W q b z sol j rg' sb sd k).
Proof.
  intros R. pose proof (sw_buy_sol_go _ _ _ _ _ _ _ _ _ _ _ _ R) as Hrun. pose proof (get_buy_world _ _ _ _ _ _ _ _ _ _ _ _ R) as Hg.
  set (W1 := buy_world W q b z sol j rg' sb sd) in *.
  destruct R. 
  assert (forall k, lamports (get W1 k) = if key_eqb k KRdJournal then lamports (get W k) - sol
                                          else if key_eqb k (KUser b) then lamports (get W k) + sol else lamports (get W k)) as Hl.
  { intros k. rewrite Hg. unfold buy_acct.
    destruct (key_eqb_spec k KRdJournal) as [->|]; [reflexivity|]. destruct (key_eqb_spec k (KUser b)) as [->|]; [reflexivity|].
    destruct (key_eqb_spec k (KUser q)) as [->|]; [reflexivity|]. destruct (key_eqb_spec k (KAta (KUser b) KMint)) as [->|]; [reflexivity|].
    destruct (key_eqb_spec k (KTok2z KRdSwapAuth)) as [->|]; reflexivity. }
  assert (forall k, alen (get W1 k) = alen (get W k)) as Ha.
  { intros k. rewrite Hg. unfold buy_acct.
    destruct (key_eqb_spec k KRdJournal) as [->|]; [reflexivity|]. destruct (key_eqb_spec k (KUser b)) as [->|]; [reflexivity|].
    destruct (key_eqb_spec k (KUser q)) as [->|]; [reflexivity|]. destruct (key_eqb_spec k (KAta (KUser b) KMint)) as [->|]; [reflexivity|].
    destruct (key_eqb_spec k (KTok2z KRdSwapAuth)) as [->|]; reflexivity. }
  exists (purge W1). split; [|split; [rewrite now_purge; apply now_buy_world|intros k; rewrite get_purge, Hg; reflexivity]].
  unfold exec_tx.
  assert (tx_wf (buy_tx q b z sol) = true) as ->.
  { cbv [tx_wf buy_tx buy_metas tx_ixs tx_signers i_metas forallb mk msigner mkey negb orb andb msg_signer existsb key_eqb]. rewrite N.eqb_refl. reflexivity. }
  cbn [negb]. change (tx_ixs (buy_tx q b z sol)) with [{| i_prog := KSwapMock; i_data := IxSwap (SBuySol z sol); i_metas := buy_metas q b |}].
  cbn [exec_ixs i_prog i_data i_metas]. rewrite (buy_effective q b z sol by_ne0). cbn [exec_data]. fold (buy_cx q b). cbn [sw_process].
  rewrite Hrun. cbn [bind].
  assert (balanced (buy_eff q b) W W1 = true) as ->.
  { apply (balanced_move _ _ _ KRdJournal (KUser b) sol); try discriminate.
    - cbn. tauto.
    - cbn. tauto.
    - lia.
    - intros k. rewrite Hl. reflexivity. }
  cbn [require bind].
  assert (rent_ok (buy_tx q b z sol) W W1 = true) as ->; [|reflexivity].
  unfold rent_ok. apply forallb_forall. intros k _. apply orb_true_iff. right.
  destruct (key_eqb_spec k KRdJournal) as [->|N1].
  { apply rent_transition_exempt. rewrite Ha, Hl. cbn [key_eqb]. lia. }
  destruct (key_eqb_spec k (KUser b)) as [->|N2].
  { apply rent_transition_exempt. rewrite Ha, Hl. cbn [key_eqb]. rewrite N.eqb_refl. lia. }
  apply rent_transition_same; [|apply Ha]. rewrite Hl, (key_eqb_neq k KRdJournal), (key_eqb_neq k (KUser b)) by assumption. reflexivity.
Qed.

(* ------------------------------------------------------------------------------------------------------------------ *)
(* ONE WHOLE EPOCH with the mock swap program: no assumption about foreign transactions                                 *)
Record buyer_plan (W : world) (p r q b z : N) (Ld : list (key * N)) (Lr : list rleaf) (crof : key -> contrib)
  (c : rd_config) (j : journal) (rg rg' rg'' : ring) (sb sd : token_acct) (m : mint_acct) : Prop := {
  bp_distinct : q <> b /\ q <> p /\ q <> r /\ b <> p /\ b <> r;
  bp_fills_owner : owner (get W (KUser q)) = KSwapMock;
  bp_fills_data : data (get W (KUser q)) = DFills rg;
  bp_fills_lam : lamports (get W (KUser q)) <> 0;
  bp_buy : buy rg {| sol_in := sumN (map snd Ld); z_out := z |} = Some rg';          (* the registry has room .. *)
  bp_head : dequeue rg' (sumN (map snd Ld)) = Some (rg'', z);                        (* .. and the new fill will be its oldest *)
  bp_src : as_token W (KAta (KUser b) KMint) = Ok sb /\ t_owner sb = KUser b /\ t_mint sb = KMint /\ z <= t_amount sb /\
           lamports (get W (KAta (KUser b) KMint)) <> 0;
  bp_not_recipient : forall svc us ebr x, In (svc, us, ebr) Lr -> In x (cr_recipients (crof svc)) -> fst x <> KUser b;
  bp_decimals : m_decimals m = MINT_DECIMALS;
  bp_dst : as_token W (KTok2z KRdSwapAuth) = Ok sd /\ t_owner sd = KRdSwapAuth /\ t_mint sd = KMint /\ t_amount sd + z < two64 /\
           lamports (get W (KTok2z KRdSwapAuth)) <> 0;
  bp_withdraw_bump : c_has_withdraw_bump c = true;
  bp_journal : j_total_sol j + sumN (map snd Ld) < two64 /\ j_swapped_sol j + sumN (map snd Ld) < two64 /\
               j_swap_dest_balance j + z < two64;
  bp_buyer : rent (alen (get W (KUser b))) <= lamports (get W (KUser b))
}.

Theorem honest_epoch_completes_mock W a ra p f r e q b Ld rootd pfd Lr rootr pfr crof z c d j s0 m rg rg' rg'' sb sd :
  epoch_plan W a ra p r e Ld rootd pfd Lr rootr pfr crof z c d j s0 m ->
  buyer_plan W p r q b z Ld Lr crof c j rg rg' rg'' sb sd m ->
  exists W' dF tailF sF mF,
    run_txs W (epoch_txs a ra p f r e q Ld rootd pfd [buy_tx q b z (sumN (map snd Ld))] Lr rootr pfr crof) = (W', true) /\
    data (get W' (KRdDist e)) = DDist dF tailF /\
    d_debt_final dF = true /\ d_debt_root dF = rootd /\ d_payments_count dF = N.of_nat (length Ld) /\
    (forall idx, idx < N.of_nat (length Ld) -> range_bit tailF (d_debt_start dF) idx = true) /\
    d_rewards_final dF = true /\ d_rewards_root dF = rootr /\ d_swept dF = true /\ d_swept_2z dF = z /\
    d_distributed_count dF = N.of_nat (length Lr) /\
    (forall idx, idx < N.of_nat (length Lr) -> range_bit tailF (d_rew_start dF) idx = true) /\
    as_token W' (KTok2z (KRdDist e)) = Ok sF /\ t_amount sF < N.of_nat (length Lr) /\
    d_distributed_2z dF + d_burned_2z dF + t_amount sF = d_prepaid_2z d + z /\
    as_mint W' KMint = Ok mF /\ m_supply mF = m_supply m - d_burned_2z dF /\
    (r <> p -> lamports (get W' (KUser r)) = lamports (get W (KUser r)) + d_relay d * N.of_nat (length Lr)).
Proof.
  intros EP BP. set (total := sumN (map snd Ld)) in *.
  apply (honest_epoch_completes W a ra p f r e q Ld rootd pfd Lr rootr pfr crof z c d j s0 m [buy_tx q b z total] rg' rg''
           (sd <| t_amount := t_amount sd + z |>) EP).
  intros W1 j1 Hrun1 Hj1.
  destruct EP as [ep_debt0 ep_payer0 ep_accountant0 ep_swap_cfg0 ep_epoch0 ep_unswept0 ep_fresh0 ep_ranges0 ep_leaves0
    ep_shares0 ep_min_epochs0 ep_proofs0 ep_contribs0 ep_custody0 ep_mint0 ep_atas0 ep_relayer0].
  destruct (honest_debt_phase_frame W a p f e Ld rootd pfd c d j ep_debt0)
    as (W1_ & d1 & tail1 & j1_ & Hrun & Gd1 & Ed1 & Hcnt1 & Hlen1 & Hbits1 & Fr1 & Gp1 & Jo1 & Jd1 & Ej1 & Jl1 & Hn1 & Ja1 & Jt1).
  rewrite Hrun in Hrun1. injection Hrun1 as <-. rewrite Jd1 in Hj1. injection Hj1 as <-. fold total in Jl1, Jt1.
  destruct ep_debt0 as [dp_configure0 dp_fresh0 dp_total0 dp_count0 dp_dist_len0 dp_dist_rent0 dp_cfg_lam0 dp_payer0
    dp_proofs0 dp_deposits0 dp_j_owner0 dp_j_data0 dp_j_rent0 dp_j_range0].
  destruct dp_configure0 as [cd_cfg_owner0 cd_cfg_data0 cd_unpaused0 cd_accountant0 cd_dist_owner0 cd_dist_data0 cd_dist_lam0 cd_not_final0 cd_grace_over0].
  destruct dp_total0 as (Tnz & Tlt). fold total in Tnz, Tlt.
  destruct BP as [bp_distinct0 bp_fills_owner0 bp_fills_data0 bp_fills_lam0 bp_buy0 bp_head0 bp_src0 bp_not_recipient0 bp_decimals0
    bp_dst0 bp_withdraw_bump0 bp_journal0 bp_buyer0].
  destruct bp_distinct0 as (Nqb & Nqp & Nqr & Nbp & Nbr). destruct bp_src0 as (Hs & Hso & Hsm & Hsa & Hsl).
  destruct bp_dst0 as (Hd & Hdo & Hdm & Hda & Hdl). destruct bp_journal0 as (J1 & J2 & J3).
  destruct ep_swap_cfg0 as (Sc1 & Sc2). destruct ep_mint0 as (Hm & Hml & Hms). destruct ep_custody0 as (Cs & Co & Cm & Ca & Cl).
  destruct dp_payer0 as [Wo Wl Wfu].
  assert (lamports (get W (KUser b)) <> 0) as Hbl by (pose proof (rent_pos (alen (get W (KUser b)))) as X; clear - X bp_buyer0; lia).
  assert (lamports (get W (KUser r)) <> 0) as Hrl by (pose proof (rent_pos (alen (get W (KUser r)))) as X; clear - X ep_relayer0; lia).
  assert (lamports (get W (KUser p)) <> 0) as Hpl by (pose proof (rent_pos 0) as X; clear - X Wfu; lia).
  (* what the debt phase left of the accounts the swap reads *)
  assert (forall k, k <> KRdDist e -> k <> KUser p -> k <> KRdJournal -> (forall nd, k <> KRdDeposit nd) -> lamports (get W k) <> 0 ->
                    get W1_ k = get W k /\ lamports (get W1_ k) <> 0) as Fr1'.
  { intros k K1 K2 K3 K4 K5. rewrite Fr1 by assumption. auto. }
  destruct (Fr1' (KUser q)) as (Gq & Gql); try discriminate; try assumption; [congruence|].
  destruct (Fr1' (KAta (KUser b) KMint)) as (Gs & Gsl); try discriminate; try assumption.
  destruct (Fr1' KMint) as (Gm & Gml); try discriminate; try assumption.
  destruct (Fr1' (KTok2z KRdSwapAuth)) as (Gdst & Gdstl); try discriminate; try assumption.
  destruct (Fr1' KRdConfig) as (Gc & Gcl); try discriminate; try assumption.
  destruct (Fr1' (KUser b)) as (Gb & Gbl); try discriminate; try assumption; [congruence|].
  assert (j_total_sol j1_ = j_total_sol j + total) as Jt by (rewrite Jt1; apply N.mod_small; assumption).
  assert (buy_ready W1_ q b z total c j1_ rg rg' sb sd m) as BR.
  { constructor; rewrite ?Gq, ?Gc, ?Gb; try assumption.
    - repeat split; try assumption. apply as_token_ok; apply as_token_ok in Hs; rewrite Gs; assumption.
    - split; [apply as_mint_ok; apply as_mint_ok in Hm; rewrite Gm; assumption|assumption].
    - repeat split; try assumption. apply as_token_ok; apply as_token_ok in Hd; rewrite Gdst; assumption.
    - auto.
    - clear - Jt. lia.
    - rewrite Ja1, Jl1. clear - dp_j_rent0. lia.
    - clear - bp_buyer0. lia. }
  destruct (buy_sol_progress W1_ q b z total c j1_ rg rg' sb sd m BR) as (W1' & Xb & Hnb & Gbuy).
  exists W1', (ws_journal j1_ total z). split; [cbn [run_txs]; rewrite Xb; reflexivity|].
  assert (forall k, k <> KRdJournal -> k <> KUser b -> k <> KUser q -> k <> KAta (KUser b) KMint -> k <> KTok2z KRdSwapAuth ->
                    get W1' k = purge_acct (get W1_ k)) as FrB.
  { intros k K1 K2 K3 K4 K5. rewrite Gbuy. unfold buy_acct. rewrite !key_eqb_neq by assumption. reflexivity. }
  constructor.
  - rewrite Hnb. apply N.le_refl.
  - intros k Hk.
    assert (lamports (get W1_ k) <> 0 /\ k <> KRdJournal /\ k <> KUser b /\ k <> KUser q /\ k <> KAta (KUser b) KMint /\ k <> KTok2z KRdSwapAuth) as (L0 & K1 & K2 & K3 & K4 & K5).
    { destruct Hk as [->|[->|[->|[->|[->|[->|(svc & us & ebr & Hin & [->|(x & Hx & ->)])]]]]]].
      - repeat split; try discriminate. assumption.
      - repeat split; try discriminate. rewrite Gd1. cbn [lamports]. pose proof (rent_pos LEN_DIST) as X. clear - X dp_dist_rent0. lia.
      - repeat split; try discriminate. destruct (Fr1' (KTok2z (KRdDist e))) as (_ & X); try discriminate; assumption.
      - repeat split; try discriminate. assumption.
      - repeat split; try discriminate; try congruence. rewrite Gp1. rewrite lamports_set_lamports. unfold dp_topup. pose proof (rent_pos 0) as X. clear - X Wfu. lia.
      - repeat split; try discriminate; try congruence. destruct (N.eq_dec r p) as [->|Hne].
        + rewrite Gp1. rewrite lamports_set_lamports. unfold dp_topup. pose proof (rent_pos 0) as X. clear - X Wfu. lia.
        + destruct (Fr1' (KUser r)) as (_ & X); try discriminate; try assumption. congruence.
      - destruct (ep_contribs0 svc us ebr Hin) as (_ & _ & A3 & _). repeat split; try discriminate.
        destruct (Fr1' (KRdContrib svc)) as (_ & X); try discriminate; assumption.
      - destruct (ep_atas0 svc us ebr x Hin Hx) as (t & _ & _ & _ & A4). repeat split; try discriminate.
        + destruct (Fr1' (KAta (fst x) KMint)) as (_ & X); try discriminate; assumption.
        + intros X. injection X as X. exact (bp_not_recipient0 svc us ebr x Hin Hx X). }
    rewrite FrB by assumption. apply purge_acct_id. assumption.
  - rewrite Gbuy. unfold buy_acct. cbn [key_eqb]. rewrite purge_acct_id by (rewrite lamports_set_lamports; rewrite Jl1; pose proof (rent_pos (alen (get W KRdJournal))) as X; clear - X dp_j_rent0; lia).
    exact Jo1.
  - rewrite Gbuy. unfold buy_acct. cbn [key_eqb]. rewrite purge_acct_id by (rewrite lamports_set_lamports; rewrite Jl1; pose proof (rent_pos (alen (get W KRdJournal))) as X; clear - X dp_j_rent0; lia).
    reflexivity.
  - rewrite Gbuy. unfold buy_acct. cbn [key_eqb]. rewrite lamports_purge_acct, lamports_set_lamports, Jl1. pose proof (rent_pos (alen (get W KRdJournal))) as X. clear - X dp_j_rent0. lia.
  - rewrite Ej1. reflexivity.
  - rewrite Ej1. change (total <= wadd64 (j_swapped_sol j) total). unfold wadd64. rewrite wadd_small by assumption. clear. lia.
  - rewrite Ej1. change (z <= wadd64 (j_swap_dest_balance j) z). unfold wadd64. rewrite wadd_small by assumption. clear. lia.
  - rewrite Gbuy. unfold buy_acct. cbn [key_eqb]. rewrite (proj2 (N.eqb_neq q b)) by assumption. rewrite N.eqb_refl.
    rewrite purge_acct_id by (rewrite lamports_set_data; assumption). rewrite Gq. assumption.
  - rewrite Gbuy. unfold buy_acct. cbn [key_eqb]. rewrite (proj2 (N.eqb_neq q b)) by assumption. rewrite N.eqb_refl.
    rewrite purge_acct_id by (rewrite lamports_set_data; assumption). reflexivity.
  - rewrite Gbuy. unfold buy_acct. cbn [key_eqb]. rewrite (proj2 (N.eqb_neq q b)) by assumption. rewrite N.eqb_refl.
    rewrite lamports_purge_acct, lamports_set_data. assumption.
  - assumption.
  - assert (get W1' (KTok2z KRdSwapAuth) = get W (KTok2z KRdSwapAuth) <| data := DToken (sd <| t_amount := t_amount sd + z |>) |>) as E.
    { rewrite Gbuy. unfold buy_acct. cbn [key_eqb]. rewrite Gdst. apply purge_acct_id. rewrite lamports_set_data. assumption. }
    split; [apply as_token_ok; apply as_token_ok in Hd; rewrite E; cbn; tauto|]. rewrite E, lamports_set_data.
    repeat split; try assumption. rewrite t_amount_set_l. clear. lia.
Qed.

(* non-vacuity: the world and the transactions of honest_epoch_completes_nonvacuous (the buyer is KUser 70, the registry KUser 9) *)
Example honest_epoch_completes_mock_nonvacuous :
  let s0 := {| t_mint := KMint; t_owner := KRdDist 5; t_amount := 0 |} in
  let m := {| m_supply := 1000000; m_decimals := 8 |} in
  epoch_plan ex13_epoch_world 2 3 1 7 5 ex13_leaves (tree_root PRE_DEBT ex_debts) (proof_for PRE_DEBT ex_debts)
             ex13_rleaves (tree_root PRE_REWARD ex_rewards) (proof_for PRE_REWARD ex_rewards) ex13_crof 5000
             ex13_cfg ex13_fresh ex13_j5 s0 m /\
  buyer_plan ex13_epoch_world 1 7 9 70 5000 ex13_leaves ex13_rleaves ex13_crof ex13_cfg ex13_j5 ring_init ex13_rg
             {| slots := slots ex13_rg; head := 1; count := 0 |}
             {| t_mint := KMint; t_owner := KUser 70; t_amount := 6000 |} {| t_mint := KMint; t_owner := KRdSwapAuth; t_amount := 0 |} m /\
  epoch_txs 2 3 1 7 7 5 9 ex13_leaves (tree_root PRE_DEBT ex_debts) (proof_for PRE_DEBT ex_debts) [buy_tx 9 70 5000 (sumN (map snd ex13_leaves))]
            ex13_rleaves (tree_root PRE_REWARD ex_rewards) (proof_for PRE_REWARD ex_rewards) ex13_crof = ex13_epoch_txs /\
  snd (run_txs ex13_epoch_world ex13_epoch_txs) = true.
Proof.
  cbv zeta. split; [exact (proj1 honest_epoch_completes_nonvacuous)|]. split; [|split; [reflexivity|vm_compute; reflexivity]].
  constructor; try closed.
  intros svc us ebr x H Hx. unfold ex13_rleaves in H. cbn [In] in H. destruct H as [H|[H|[]]]; injection H as <- <- <-;
    vm_compute in Hx; repeat (destruct Hx as [<-|Hx]; [discriminate|]); contradiction.
Qed.

(* ==================================================================================================================
   Lemmas_C13l.v: buy_metas / buy_tx (the mock's BuySol), buy_ready, sw_buy_sol_go, buy_world / buy_acct, get_buy_world,
     buy_sol_progress               buy_ready -> the BuySol transaction succeeds, pointwise post-state purge_acct (buy_acct ..)
     buyer_plan, honest_epoch_completes_mock   the whole epoch (debt phase ++ [BuySol] ++ rewards phase) from preconditions on the
                                    initial world only: no assumption about foreign transactions
   ================================================================================================================== *)

(* an empty, well-formed registry satisfies the two ring conditions of buyer_plan: the new fill becomes the oldest one *)
Lemma buy_then_dequeue_empty rg sol z :
  count rg = 0%nat -> (head rg < CAP)%nat -> length (slots rg) = CAP ->
  exists rg' rg'', buy rg {| sol_in := sol; z_out := z |} = Some rg' /\ dequeue rg' sol = Some (rg'', z).
Proof.
  intros Hc Hh Hl. unfold buy. rewrite Hc. change (Nat.eqb 0 CAP) with false. cbv iota.
  eexists. eexists. split; [reflexivity|]. unfold dequeue. cbn [count head slots Nat.eqb].
  rewrite Nat.add_0_r, Nat.mod_small by assumption. rewrite nth_set_nth_same by (rewrite Hl; assumption).
  cbn [sol_in z_out]. rewrite N.eqb_refl. reflexivity.
Qed.
